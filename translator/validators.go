// validators.go: translates the library's structural validators and constructor argument
// checks (guard chains: "if cond { return err }", "if err := f(x); err != nil { return err }",
// range loops over guard chains, integer switches, table lookups) into Gallina definitions over
// records generated from the Go struct declarations.  Output: coq/Gen/Validators.v.
//
// The subset is deliberately small.  Anything outside it in a function on the root list is
// reported as a problem and makes the translator exit non-zero: a validator is never silently
// skipped or approximated.  A guard call to a function outside the subset becomes an explicit
// boolean parameter (opq_...) of the generated definition, so what is not translated is visible
// in the statement of every theorem that uses the definition.
package main

import (
	"fmt"
	"go/ast"
	"go/constant"
	"go/token"
	"go/types"
	"sort"
	"strings"

	"golang.org/x/tools/go/packages"
)

const modulePath = "github.com/go-i2p/common"

// functions whose translation is required (package name . [Type .] function)
var validatorRoots = []string{
	"signature.getSignatureLength",
	"signature.Signature.Validate",
	"offline_signature.SigningPublicKeySize",
	"offline_signature.SignatureSize",
	"offline_signature.NewOfflineSignature",
	"offline_signature.OfflineSignature.ValidateStructure",
	"lease_set2.validateExpiresOffset",
	"lease_set2.validateOfflineSignatureFlags",
	"lease_set2.validateEncryptionKeyInputs",
	"lease_set2.validateLeaseInputs",
	"lease_set2.validateEncryptionKeyConsistency",
	"lease_set2.validateEncryptionKeys",
	"lease_set2.validateOfflineSignatureConsistency",
	"lease_set2.validateReservedFlagsAndLeases",
	"lease_set2.validateLeaseSet2Inputs",
	"lease_set2.LeaseSet2.HasOfflineKeys",
	"lease_set2.LeaseSet2.Validate",
	"encrypted_leaseset.validateSigTypeAndKeySize",
	"encrypted_leaseset.validateConstructorFlags",
	"encrypted_leaseset.validateEncryptedPayload",
	"encrypted_leaseset.validateInputs",
	"encrypted_leaseset.EncryptedLeaseSet.HasOfflineKeys",
	"encrypted_leaseset.EncryptedLeaseSet.Validate",
	"meta_leaseset.validateEntryType",
	// parser-side guards (pure functions of lengths, counts and type codes)
	"offline_signature.validateMinimumOfflineSignatureData",
	"offline_signature.validateTransientKeyType",
	"offline_signature.validateDestinationSignatureType",
	"meta_leaseset.validateMinSize",
	"meta_leaseset.validateHeaderDataSize",
	"meta_leaseset.validateEntryCount",
	"meta_leaseset.validateEntryMinSize",
	"encrypted_leaseset.validateEncryptedDataLength",
	"encrypted_leaseset.validateEncryptedLeaseSetSize",
	"keys_and_cert.validateKeysAndCertDataSize",
	"keys_and_cert.validateMinimumDataLength",
	"keys_and_cert.validatePaddingSize",
	"certificate.validateCertType",
	"certificate.validateCertPayload",
}

type vmode int

const (
	mErr    vmode = iota // func(...) error            -> bool (true = nil)
	mValErr              // func(...) (T, error)       -> option T / bool when T is not an integer
	mPure                // func(...) T                -> T
	mValOk               // func(...) (int, bool)      -> option Z
)

type vfunc struct {
	key     string
	coq     string
	decl    *ast.FuncDecl
	pkg     *packages.Package
	mode    vmode
	valIsZ  bool // mValErr: the value is an integer (option Z); otherwise only acceptance is kept (bool)
	params  []string
	ptypes  []string
	nonOpt  map[types.Object]bool // pointer parameters (and the receiver) that are dereferenced
	opaques []string
	body    string
	state   int // 0 new, 1 in progress, 2 done, 3 failed
	retType string
	why     string
	calls   []*vfunc
	root    bool
}

type vrec struct {
	named  *types.Named
	coq    string
	fields []string          // in order of first use
	ftype  map[string]string // coq type
	deps   []*vrec
}

type vtrans struct {
	pkgs    map[string]*packages.Package
	funcs   map[string]*vfunc
	byObj   map[*types.Func]*vfunc
	order   []*vfunc
	recs    map[*types.Named]*vrec
	recList []*vrec
	maps    map[types.Object]string // package-level integer-keyed map variable -> m_<pkg>_<name>
	mapKind map[types.Object]string // "int" | "struct" | "bool" | "keys"
}

type vctx struct {
	t      *vtrans
	f      *vfunc
	info   *types.Info
	fset   *token.FileSet
	vars   map[types.Object]string      // coq expression for a variable
	mrow   map[types.Object]*vmaprow    // variables bound to a map row
	mok    map[types.Object]*vmaprow    // the ", ok" variable of a map lookup
	nonnil map[types.Object]bool        // error variables known to be non-nil here
	arrs   map[types.Object]bool        // local variables bound to a constant integer array (a list Z)
	failed bool
}

type vmaprow struct {
	mapName string
	kind    string
	key     string
}

func (c *vctx) problem(pos token.Pos, format string, a ...interface{}) string {
	problem(c.fset, pos, "validator %s: %s", c.f.key, fmt.Sprintf(format, a...))
	c.failed = true
	return "false"
}

func coqIdent(s string) string {
	return "v_" + s
}

func isByte(t types.Type) bool {
	b, ok := t.Underlying().(*types.Basic)
	return ok && (b.Kind() == types.Uint8)
}

func isInteger(t types.Type) bool {
	b, ok := t.Underlying().(*types.Basic)
	return ok && b.Info()&types.IsInteger != 0
}

func isBool(t types.Type) bool {
	b, ok := t.Underlying().(*types.Basic)
	return ok && b.Info()&types.IsBoolean != 0
}

func isErrorType(t types.Type) bool {
	return t != nil && t.String() == "error"
}

func namedStruct(t types.Type) (*types.Named, bool) {
	if p, ok := t.(*types.Pointer); ok {
		t = p.Elem()
	}
	n, ok := t.(*types.Named)
	if !ok {
		return nil, false
	}
	_, ok = n.Underlying().(*types.Struct)
	return n, ok
}

func (t *vtrans) rec(n *types.Named) *vrec {
	if r, ok := t.recs[n]; ok {
		return r
	}
	r := &vrec{named: n, coq: "g_" + n.Obj().Pkg().Name() + "_" + n.Obj().Name(), ftype: map[string]string{}}
	t.recs[n] = r
	t.recList = append(t.recList, r)
	return r
}

// coqType maps a Go type to a Gallina type; field tells whether pointers become options
func (t *vtrans) coqType(ty types.Type, owner *vrec) (string, bool) {
	switch u := ty.(type) {
	case *types.Pointer:
		if n, ok := namedStruct(u.Elem()); ok {
			r := t.rec(n)
			if owner != nil {
				owner.deps = append(owner.deps, r)
			}
			return "(option " + r.coq + ")", true
		}
		return "", false
	case *types.Named:
		if n, ok := namedStruct(u); ok {
			r := t.rec(n)
			if owner != nil {
				owner.deps = append(owner.deps, r)
			}
			return r.coq, true
		}
		return t.coqType(u.Underlying(), owner)
	case *types.Basic:
		if u.Info()&types.IsInteger != 0 {
			return "Z", true
		}
		if u.Info()&types.IsBoolean != 0 {
			return "bool", true
		}
		return "", false
	case *types.Slice:
		if isByte(u.Elem()) {
			return "(list N)", true
		}
		inner, ok := t.coqType(u.Elem(), owner)
		if !ok {
			return "", false
		}
		return "(list " + inner + ")", true
	case *types.Array:
		if isByte(u.Elem()) {
			return "(list N)", true
		}
		inner, ok := t.coqType(u.Elem(), owner)
		if !ok {
			return "", false
		}
		return "(list " + inner + ")", true
	}
	return "", false
}

func (c *vctx) field(x ast.Expr, sel *ast.Ident) string {
	xt := c.info.TypeOf(x)
	n, ok := namedStruct(xt)
	if !ok {
		return c.problem(sel.Pos(), "selector .%s on a non-struct", sel.Name)
	}
	st := n.Underlying().(*types.Struct)
	var fv *types.Var
	for i := 0; i < st.NumFields(); i++ {
		if st.Field(i).Name() == sel.Name {
			fv = st.Field(i)
		}
	}
	if fv == nil {
		return c.problem(sel.Pos(), "promoted or unknown field %s", sel.Name)
	}
	r := c.t.rec(n)
	if _, seen := r.ftype[sel.Name]; !seen {
		ct, ok := c.t.coqType(fv.Type(), r)
		if !ok {
			return c.problem(sel.Pos(), "field %s.%s has an unsupported type %s", r.coq, sel.Name, fv.Type())
		}
		r.fields = append(r.fields, sel.Name)
		r.ftype[sel.Name] = ct
	}
	return "(" + r.coq + "__" + sel.Name + " " + c.recvExpr(x) + ")"
}

// an expression denoting a struct value (pointer receivers are dereferenced silently when the
// variable is known to be non-nil)
func (c *vctx) recvExpr(x ast.Expr) string {
	switch e := x.(type) {
	case *ast.ParenExpr:
		return c.recvExpr(e.X)
	case *ast.StarExpr:
		return c.recvExpr(e.X)
	case *ast.Ident:
		obj := c.info.Uses[e]
		if v, ok := c.vars[obj]; ok {
			if _, isPtr := obj.Type().(*types.Pointer); isPtr && !c.f.nonOpt[obj] {
				return c.problem(e.Pos(), "dereference of the possibly-nil pointer %s", e.Name)
			}
			return v
		}
		return c.problem(e.Pos(), "unknown variable %s", e.Name)
	case *ast.SelectorExpr:
		if _, isPtr := c.info.TypeOf(e).(*types.Pointer); isPtr {
			return c.problem(e.Pos(), "dereference of a pointer-typed field")
		}
		return c.field(e.X, e.Sel)
	}
	return c.problem(x.Pos(), "unsupported struct expression %T", x)
}

func intRange(t types.Type) (lo, hi string, ok bool) {
	b, isB := t.Underlying().(*types.Basic)
	if !isB {
		return "", "", false
	}
	switch b.Kind() {
	case types.Uint8:
		return "0", "256", true
	case types.Uint16:
		return "0", "65536", true
	case types.Uint32:
		return "0", "4294967296", true
	case types.Uint64, types.Uint, types.Uintptr:
		return "0", "18446744073709551616", true
	case types.Int8:
		return "-128", "128", true
	case types.Int16:
		return "-32768", "32768", true
	case types.Int32:
		return "-2147483648", "2147483648", true
	case types.Int, types.Int64:
		return "-9223372036854775808", "9223372036854775808", true
	}
	return "", "", false
}

var widthRank = map[types.BasicKind]int{types.Uint8: 8, types.Uint16: 16, types.Uint32: 32, types.Uint64: 64, types.Uint: 64,
	types.Int8: 7, types.Int16: 15, types.Int32: 31, types.Int64: 63, types.Int: 63}

func unsignedKind(k types.BasicKind) bool {
	return k == types.Uint8 || k == types.Uint16 || k == types.Uint32 || k == types.Uint64 || k == types.Uint
}

// conversion T(e) between integer types
func (c *vctx) convert(call *ast.CallExpr, to types.Type) string {
	arg := call.Args[0]
	from := c.info.TypeOf(arg)
	inner := c.expr(arg)
	fb, ok1 := from.Underlying().(*types.Basic)
	tb, ok2 := to.Underlying().(*types.Basic)
	if !ok1 || !ok2 || fb.Info()&types.IsInteger == 0 || tb.Info()&types.IsInteger == 0 {
		return c.problem(call.Pos(), "conversion %s -> %s", from, to)
	}
	// len() results are non-negative ints
	nonneg := unsignedKind(fb.Kind())
	if ce, ok := arg.(*ast.CallExpr); ok {
		if id, ok := ce.Fun.(*ast.Ident); ok && id.Name == "len" {
			nonneg = true
		}
	}
	fr, tr := widthRank[fb.Kind()], widthRank[tb.Kind()]
	if unsignedKind(tb.Kind()) {
		if nonneg && fr <= tr {
			return inner
		}
		_, hi, _ := intRange(to)
		return "(" + inner + " mod " + hi + ")"
	}
	// signed target
	if fr <= tr {
		return inner
	}
	return c.problem(call.Pos(), "narrowing conversion to a signed type %s -> %s", from, to)
}

func (c *vctx) expr(e ast.Expr) string {
	if tv, ok := c.info.Types[e]; ok && tv.Value != nil {
		switch tv.Value.Kind() {
		case constant.Int:
			return z(tv.Value.ExactString())
		case constant.Bool:
			if constant.BoolVal(tv.Value) {
				return "true"
			}
			return "false"
		}
	}
	switch x := e.(type) {
	case *ast.ParenExpr:
		return c.expr(x.X)
	case *ast.Ident:
		obj := c.info.Uses[x]
		if r, ok := c.mok[obj]; ok {
			return "(g_memZ " + r.key + " " + r.mapName + "_keys)"
		}
		if r, ok := c.mrow[obj]; ok {
			if r.kind == "int" || r.kind == "bool" {
				if r.kind == "bool" {
					return "(negb (g_lookupZ " + r.mapName + " " + r.key + " =? 0))"
				}
				return "(g_lookupZ " + r.mapName + " " + r.key + ")"
			}
			return c.problem(x.Pos(), "map row %s used as a value", x.Name)
		}
		if v, ok := c.vars[obj]; ok {
			return v
		}
		return c.problem(x.Pos(), "unknown identifier %s", x.Name)
	case *ast.SelectorExpr:
		// map row field
		if id, ok := x.X.(*ast.Ident); ok {
			if r, ok := c.mrow[c.info.Uses[id]]; ok {
				if r.kind != "struct" {
					return c.problem(x.Pos(), "field of a non-struct map row")
				}
				return "(g_lookupZ " + r.mapName + "_" + x.Sel.Name + " " + r.key + ")"
			}
		}
		if sel, ok := c.info.Selections[x]; ok && sel.Kind() == types.FieldVal {
			return c.field(x.X, x.Sel)
		}
		return c.problem(x.Pos(), "unsupported selector %s", x.Sel.Name)
	case *ast.UnaryExpr:
		switch x.Op {
		case token.NOT:
			return "(negb " + c.expr(x.X) + ")"
		case token.SUB:
			return "(- " + c.expr(x.X) + ")"
		}
		return c.problem(x.Pos(), "unary operator %s", x.Op)
	case *ast.BinaryExpr:
		return c.binary(x)
	case *ast.CallExpr:
		return c.call(x)
	case *ast.IndexExpr:
		// m[k] on a translated integer map (single-value form)
		if mn, kind, ok := c.mapOf(x.X); ok {
			k := c.expr(x.Index)
			switch kind {
			case "int":
				return "(g_lookupZ " + mn + " " + k + ")"
			case "bool":
				return "(negb (g_lookupZ " + mn + " " + k + " =? 0))"
			}
		}
		// a[i] on a local constant integer array (Go panics outside 0..len-1; the translated lookup
		// yields 0 there, so the source must guard the index — as a table lookup does)
		if id, ok := x.X.(*ast.Ident); ok && c.arrs[c.info.Uses[id]] {
			return "(nth (Z.to_nat " + c.expr(x.Index) + ") " + c.vars[c.info.Uses[id]] + " 0)"
		}
		if id, ok := x.X.(*ast.Ident); ok {
			if lst, ok := c.packageIntArray(c.info.Uses[id]); ok {
				return "(nth (Z.to_nat " + c.expr(x.Index) + ") " + lst + " 0)"
			}
		}
		return c.problem(x.Pos(), "index expression")
	}
	return c.problem(e.Pos(), "unsupported expression %T", e)
}

func (c *vctx) mapOf(e ast.Expr) (string, string, bool) {
	var id *ast.Ident
	switch x := e.(type) {
	case *ast.Ident:
		id = x
	case *ast.SelectorExpr:
		id = x.Sel
	default:
		return "", "", false
	}
	obj := c.info.Uses[id]
	if n, ok := c.t.maps[obj]; ok {
		return n, c.t.mapKind[obj], true
	}
	return "", "", false
}

func (c *vctx) isNilIdent(e ast.Expr) bool {
	id, ok := e.(*ast.Ident)
	if !ok || id.Name != "nil" {
		return false
	}
	_, isNil := c.info.Uses[id].(*types.Nil)
	return isNil
}

func (c *vctx) nilCompare(x ast.Expr, pos token.Pos) string { // "x == nil"
	t := c.info.TypeOf(x)
	if _, ok := t.(*types.Pointer); !ok {
		return c.problem(pos, "comparison of a non-pointer (%s) with nil", t)
	}
	if id, ok := x.(*ast.Ident); ok {
		obj := c.info.Uses[id]
		if c.f.nonOpt[obj] {
			return "false" // a dereferenced receiver / parameter: the nil case is outside the model
		}
		if v, ok := c.vars[obj]; ok {
			return "(g_is_none " + v + ")"
		}
		return c.problem(pos, "unknown variable %s", id.Name)
	}
	if se, ok := x.(*ast.SelectorExpr); ok {
		return "(g_is_none " + c.field(se.X, se.Sel) + ")"
	}
	return c.problem(pos, "nil comparison of %T", x)
}

func (c *vctx) binary(x *ast.BinaryExpr) string {
	if x.Op == token.EQL || x.Op == token.NEQ {
		var s string
		switch {
		case c.isNilIdent(x.Y):
			s = c.nilCompare(x.X, x.Pos())
		case c.isNilIdent(x.X):
			s = c.nilCompare(x.Y, x.Pos())
		}
		if s != "" {
			if x.Op == token.NEQ {
				return "(negb " + s + ")"
			}
			return s
		}
	}
	l, r := c.expr(x.X), c.expr(x.Y)
	lt := c.info.TypeOf(x.X)
	switch x.Op {
	case token.LAND:
		return "(" + l + " && " + r + ")"
	case token.LOR:
		return "(" + l + " || " + r + ")"
	case token.EQL, token.NEQ:
		var s string
		if isBool(lt) {
			s = "(Bool.eqb " + l + " " + r + ")"
		} else if isInteger(lt) {
			s = "(" + l + " =? " + r + ")"
		} else {
			return c.problem(x.Pos(), "equality on %s", lt)
		}
		if x.Op == token.NEQ {
			return "(negb " + s + ")"
		}
		return s
	}
	if !isInteger(lt) {
		return c.problem(x.Pos(), "operator %s on %s", x.Op, lt)
	}
	switch x.Op {
	case token.LSS:
		return "(" + l + " <? " + r + ")"
	case token.LEQ:
		return "(" + l + " <=? " + r + ")"
	case token.GTR:
		return "(" + l + " >? " + r + ")"
	case token.GEQ:
		return "(" + l + " >=? " + r + ")"
	case token.AND:
		return "(Z.land " + l + " " + r + ")"
	case token.OR:
		return "(Z.lor " + l + " " + r + ")"
	case token.ADD:
		return "(" + l + " + " + r + ")"
	case token.SUB:
		return "(" + l + " - " + r + ")"
	case token.MUL:
		return "(" + l + " * " + r + ")"
	}
	return c.problem(x.Pos(), "binary operator %s", x.Op)
}

// callee of a call expression, when it is a function or method of this module
func (c *vctx) callee(call *ast.CallExpr) (*types.Func, ast.Expr) {
	switch f := call.Fun.(type) {
	case *ast.Ident:
		if fn, ok := c.info.Uses[f].(*types.Func); ok {
			return fn, nil
		}
	case *ast.SelectorExpr:
		if sel, ok := c.info.Selections[f]; ok && sel.Kind() == types.MethodVal {
			if fn, ok := sel.Obj().(*types.Func); ok {
				return fn, f.X
			}
		}
		if fn, ok := c.info.Uses[f.Sel].(*types.Func); ok {
			return fn, nil
		}
	}
	return nil, nil
}

func inModule(fn *types.Func) bool {
	return fn.Pkg() != nil && strings.HasPrefix(fn.Pkg().Path(), modulePath)
}

// application of a translated function; wantMode restricts the callee's kind
func (c *vctx) apply(call *ast.CallExpr, wantMode vmode) (string, bool) {
	fn, recv := c.callee(call)
	if fn == nil || !inModule(fn) {
		return "", false
	}
	vf := c.t.translate(fn)
	if vf == nil || vf.state != 2 || vf.mode != wantMode {
		return "", false
	}
	c.f.calls = append(c.f.calls, vf)
	var args []string
	for _, o := range vf.opaques {
		name := "opq_" + strings.TrimPrefix(vf.coq, "g_") + "__" + strings.TrimPrefix(o, "opq_")
		c.addOpaque(name)
		args = append(args, name)
	}
	sig := fn.Type().(*types.Signature)
	if recv != nil {
		args = append(args, c.recvExpr(recv))
	}
	for i, a := range call.Args {
		pt := sig.Params().At(i).Type()
		if _, isPtr := pt.(*types.Pointer); isPtr {
			pobj := vf.paramObj(i)
			if vf.nonOpt[pobj] {
				args = append(args, c.recvExpr(a))
			} else if c.isNilIdent(a) {
				args = append(args, "None")
			} else {
				args = append(args, c.optExpr(a))
			}
			continue
		}
		if _, ok := namedStruct(pt); ok {
			args = append(args, c.recvExpr(a))
			continue
		}
		if _, isSlice := pt.Underlying().(*types.Slice); isSlice {
			args = append(args, c.sliceExpr(a))
			continue
		}
		args = append(args, c.expr(a))
	}
	if len(args) == 0 {
		return vf.coq, true
	}
	return "(" + vf.coq + " " + strings.Join(args, " ") + ")", true
}

func (f *vfunc) paramObj(i int) types.Object {
	k := 0
	for _, fl := range f.decl.Type.Params.List {
		for _, n := range fl.Names {
			if k == i {
				return f.pkg.TypesInfo.Defs[n]
			}
			k++
		}
	}
	return nil
}

func (c *vctx) addOpaque(name string) {
	for _, o := range c.f.opaques {
		if o == name {
			return
		}
	}
	c.f.opaques = append(c.f.opaques, name)
}

// an option-typed expression (pointer to struct)
func (c *vctx) optExpr(a ast.Expr) string {
	switch e := a.(type) {
	case *ast.Ident:
		obj := c.info.Uses[e]
		if c.f.nonOpt[obj] {
			return "(Some " + c.vars[obj] + ")"
		}
		if v, ok := c.vars[obj]; ok {
			return v
		}
	case *ast.SelectorExpr:
		return c.field(e.X, e.Sel)
	}
	return c.problem(a.Pos(), "unsupported pointer argument %T", a)
}

func (c *vctx) sliceExpr(a ast.Expr) string {
	switch e := a.(type) {
	case *ast.Ident:
		if v, ok := c.vars[c.info.Uses[e]]; ok {
			return v
		}
	case *ast.SelectorExpr:
		return c.field(e.X, e.Sel)
	}
	return c.problem(a.Pos(), "unsupported slice argument %T", a)
}

func (c *vctx) call(x *ast.CallExpr) string {
	// builtins and conversions
	if id, ok := x.Fun.(*ast.Ident); ok {
		if _, isB := c.info.Uses[id].(*types.Builtin); isB && id.Name == "len" && len(x.Args) == 1 {
			at := c.info.TypeOf(x.Args[0])
			if id, ok := x.Args[0].(*ast.Ident); ok {
				if lst, ok := c.packageIntArray(c.info.Uses[id]); ok {
					return "(Z.of_nat (length " + lst + "))"
				}
			}
			switch at.Underlying().(type) {
			case *types.Slice, *types.Array:
				return "(Z.of_nat (length " + c.sliceExpr(x.Args[0]) + "))"
			}
			return c.problem(x.Pos(), "len of %s", at)
		}
	}
	if tv, ok := c.info.Types[x.Fun]; ok && tv.IsType() && len(x.Args) == 1 {
		return c.convert(x, tv.Type)
	}
	if s, ok := c.apply(x, mPure); ok {
		return s
	}
	return c.problem(x.Pos(), "call outside the translated subset")
}

// ---- statements ----

func (c *vctx) accept() string {
	switch c.f.mode {
	case mErr:
		return "true"
	}
	return "true"
}

func (c *vctx) reject() string {
	if c.f.mode == mValErr && c.f.valIsZ {
		return "None"
	}
	return "false"
}

// is the error expression certainly non-nil?
func (c *vctx) nonNilError(e ast.Expr) bool {
	switch x := e.(type) {
	case *ast.Ident:
		return c.nonnil[c.info.Uses[x]]
	case *ast.CallExpr:
		fn, _ := c.callee(x)
		if fn != nil && !inModule(fn) {
			return true // fmt.Errorf, errors.New, oops.Errorf: never nil (trusted)
		}
		if fn != nil && inModule(fn) && c.t.alwaysErrors(fn, 0) {
			return true // an in-module helper every return of which builds a fresh error
		}
		// builder chains: oops.Code(..).With(..).Errorf(..)
		if se, ok := x.Fun.(*ast.SelectorExpr); ok {
			if sel, ok := c.info.Selections[se]; ok {
				if fn, ok := sel.Obj().(*types.Func); ok && !inModule(fn) {
					return true
				}
			}
		}
	}
	return false
}

func (c *vctx) ret(r *ast.ReturnStmt) string {
	switch c.f.mode {
	case mPure:
		if len(r.Results) != 1 {
			return c.problem(r.Pos(), "return arity")
		}
		return c.expr(r.Results[0])
	case mErr:
		if len(r.Results) != 1 {
			return c.problem(r.Pos(), "return arity")
		}
		e := r.Results[0]
		if c.isNilIdent(e) {
			return "true"
		}
		if call, ok := e.(*ast.CallExpr); ok {
			if s, ok := c.guardCall(call); ok {
				return s
			}
		}
		if c.nonNilError(e) {
			return "false"
		}
		return c.problem(r.Pos(), "returned error is neither nil, a translated validator nor a fresh error")
	case mValErr:
		if len(r.Results) == 1 {
			// return f(x): the callee's (value, error) handed on unchanged
			if call, ok := r.Results[0].(*ast.CallExpr); ok {
				if s, ok := c.apply(call, mValErr); ok {
					fn, _ := c.callee(call)
					if vf := c.t.translate(fn); vf != nil && vf.valIsZ == c.f.valIsZ {
						return s
					}
				}
			}
		}
		if len(r.Results) != 2 {
			return c.problem(r.Pos(), "return arity")
		}
		if c.isNilIdent(r.Results[1]) {
			if c.f.valIsZ {
				return "(Some " + c.expr(r.Results[0]) + ")"
			}
			return "true"
		}
		if c.nonNilError(r.Results[1]) {
			return c.reject()
		}
		return c.problem(r.Pos(), "returned error is neither nil nor a fresh error")
	case mValOk:
		if len(r.Results) == 1 {
			if call, ok := r.Results[0].(*ast.CallExpr); ok {
				if s, ok := c.apply(call, mValOk); ok {
					return s
				}
			}
		}
		if len(r.Results) != 2 {
			return c.problem(r.Pos(), "return arity")
		}
		if id, ok := r.Results[1].(*ast.Ident); ok {
			if cv := c.info.Types[id].Value; cv != nil {
				if cv.String() == "true" {
					return "(Some " + c.expr(r.Results[0]) + ")"
				}
				return "None"
			}
		}
		return "(if " + c.expr(r.Results[1]) + " then Some " + c.expr(r.Results[0]) + " else None)"
	}
	return c.problem(r.Pos(), "return")
}

// a call returning error, as a boolean "returned nil"
func (c *vctx) guardCall(call *ast.CallExpr) (string, bool) {
	if s, ok := c.apply(call, mErr); ok {
		return s, true
	}
	fn, _ := c.callee(call)
	if fn != nil && inModule(fn) {
		sig := fn.Type().(*types.Signature)
		if sig.Results().Len() == 1 && isErrorType(sig.Results().At(0).Type()) {
			name := "opq_" + fn.Pkg().Name() + "_" + fn.Name()
			c.addOpaque(name)
			return name, true
		}
	}
	return "", false
}

// alwaysErrors: fn returns exactly one result of type error and every return statement in its body
// returns a freshly built error (a call into another module's error constructors, a builder chain,
// or another such helper)
func (t *vtrans) alwaysErrors(fn *types.Func, depth int) bool {
	if depth > 4 {
		return false
	}
	vf, ok := t.byObj[fn]
	if !ok {
		return false
	}
	sig := fn.Type().(*types.Signature)
	if sig.Results().Len() != 1 || !isErrorType(sig.Results().At(0).Type()) {
		return false
	}
	info := vf.pkg.TypesInfo
	all, any := true, false
	ast.Inspect(vf.decl.Body, func(n ast.Node) bool {
		switch x := n.(type) {
		case *ast.FuncLit:
			return false
		case *ast.ReturnStmt:
			any = true
			if len(x.Results) != 1 {
				all = false
				return true
			}
			call, ok := x.Results[0].(*ast.CallExpr)
			if !ok {
				all = false
				return true
			}
			var callee *types.Func
			switch f := call.Fun.(type) {
			case *ast.Ident:
				callee, _ = info.Uses[f].(*types.Func)
			case *ast.SelectorExpr:
				if sel, ok := info.Selections[f]; ok {
					callee, _ = sel.Obj().(*types.Func)
				} else {
					callee, _ = info.Uses[f.Sel].(*types.Func)
				}
			}
			switch {
			case callee == nil:
				all = false
			case !inModule(callee):
				// external error constructor / builder chain
			case !t.alwaysErrors(callee, depth+1):
				all = false
			}
		}
		return true
	})
	return all && any
}

func isLogCall(e ast.Expr) bool {
	for {
		switch x := e.(type) {
		case *ast.CallExpr:
			e = x.Fun
		case *ast.SelectorExpr:
			e = x.X
		case *ast.Ident:
			return x.Name == "log"
		default:
			return false
		}
	}
}

// every return in these statements accepts (last result nil) and nothing else can reject
func (c *vctx) restAccepts(list []ast.Stmt) bool {
	ok := true
	for _, s := range list {
		ast.Inspect(s, func(n ast.Node) bool {
			switch x := n.(type) {
			case *ast.FuncLit:
				return false
			case *ast.ReturnStmt:
				if len(x.Results) == 0 || !c.isNilIdent(x.Results[len(x.Results)-1]) {
					ok = false
				}
			case *ast.CallExpr:
				if id, isId := x.Fun.(*ast.Ident); isId && id.Name == "panic" {
					ok = false
				}
			}
			return true
		})
	}
	if len(list) == 0 {
		return false
	}
	if _, isRet := list[len(list)-1].(*ast.ReturnStmt); !isRet {
		return false
	}
	return ok
}

func terminates(list []ast.Stmt) bool {
	if len(list) == 0 {
		return false
	}
	switch x := list[len(list)-1].(type) {
	case *ast.ReturnStmt:
		return true
	case *ast.IfStmt:
		if x.Else == nil {
			return false
		}
		eb, ok := x.Else.(*ast.BlockStmt)
		if !ok {
			return false
		}
		return terminates(x.Body.List) && terminates(eb.List)
	case *ast.SwitchStmt:
		hasDefault := false
		for _, cl := range x.Body.List {
			cc := cl.(*ast.CaseClause)
			if cc.List == nil {
				hasDefault = true
			}
			if !terminates(cc.Body) {
				return false
			}
		}
		return hasDefault
	}
	return false
}

// stmts translates a statement list; rest is the code for falling off its end ("" = not allowed)
func (c *vctx) stmts(list []ast.Stmt, rest string) string {
	if len(list) == 0 {
		if rest == "" {
			return c.problem(c.f.decl.Pos(), "control reaches the end of a block without a return")
		}
		return rest
	}
	s := list[0]
	tail := func() string { return c.stmts(list[1:], rest) }
	switch x := s.(type) {
	case *ast.ReturnStmt:
		return c.ret(x)
	case *ast.ExprStmt:
		if isLogCall(x.X) {
			return tail()
		}
	case *ast.AssignStmt:
		if x.Tok == token.DEFINE {
			// v, ok := M[k]
			if len(x.Lhs) == 2 && len(x.Rhs) == 1 {
				if ie, ok := x.Rhs[0].(*ast.IndexExpr); ok {
					if mn, kind, ok := c.mapOf(ie.X); ok {
						row := &vmaprow{mapName: mn, kind: kind, key: c.expr(ie.Index)}
						c.bindRow(x.Lhs[0], x.Lhs[1], row)
						return tail()
					}
				}
				// v, err := f(..) followed by "if err != nil { reject }"
				if call, ok := x.Rhs[0].(*ast.CallExpr); ok && len(list) > 1 {
					if s, ok := c.apply(call, mValErr); ok {
						if ifs, ok := list[1].(*ast.IfStmt); ok && ifs.Init == nil && ifs.Else == nil && c.isErrNotNil(ifs.Cond, x.Lhs[1]) {
							errObj := c.info.Defs[x.Lhs[1].(*ast.Ident)]
							c.nonnil[errObj] = true
							rej := c.stmts(ifs.Body.List, "")
							delete(c.nonnil, errObj)
							fn, _ := c.callee(call)
							vf := c.t.translate(fn)
							if vf.valIsZ {
								vn := c.define(x.Lhs[0])
								return "match " + s + " with\n  | Some " + vn + " => " + c.stmts(list[2:], rest) + "\n  | None => " + rej + "\n  end"
							}
							return "(if " + s + " then " + c.stmts(list[2:], rest) + " else " + rej + ")"
						}
					}
				}
			}
			// x, ok := f(..) for an (int, bool) lookup function: both become plain variables
			if len(x.Lhs) == 2 && len(x.Rhs) == 1 {
				if call, ok := x.Rhs[0].(*ast.CallExpr); ok {
					if s, ok := c.apply(call, mValOk); ok {
						vn, on := "_", "_"
						if id, isId := x.Lhs[0].(*ast.Ident); isId && id.Name != "_" {
							vn = c.define(x.Lhs[0])
						}
						if id, isId := x.Lhs[1].(*ast.Ident); isId && id.Name != "_" {
							on = c.define(x.Lhs[1])
						}
						return "(let '(" + vn + ", " + on + ") := match " + s + " with Some v__ => (v__, true) | None => (0, false) end in\n  " + tail() + ")"
					}
				}
			}
			// a := [...]int{k: v, ...}: a local constant table, as a dense list
			if len(x.Lhs) == 1 && len(x.Rhs) == 1 {
				if cl, ok := x.Rhs[0].(*ast.CompositeLit); ok {
					if lst, ok := c.intArrayLiteral(cl); ok {
						vn := c.define(x.Lhs[0])
						c.arrs[c.info.Defs[x.Lhs[0].(*ast.Ident)]] = true
						return "(let " + vn + " : list Z := " + lst + " in\n  " + tail() + ")"
					}
				}
			}
			if len(x.Lhs) == 1 && len(x.Rhs) == 1 {
				t := c.info.TypeOf(x.Rhs[0])
				if isErrorType(t) && c.nonNilError(x.Rhs[0]) {
					if id, ok := x.Lhs[0].(*ast.Ident); ok {
						c.nonnil[c.info.Defs[id]] = true
						return tail()
					}
				}
				if isInteger(t) || isBool(t) {
					v := c.expr(x.Rhs[0])
					if !c.failed {
						vn := c.define(x.Lhs[0])
						return "(let " + vn + " := " + v + " in\n  " + tail() + ")"
					}
				}
			}
		}
	case *ast.IfStmt:
		return c.ifStmt(x, list[1:], rest)
	case *ast.RangeStmt:
		return c.rangeStmt(x, list[1:], rest)
	case *ast.SwitchStmt:
		return c.switchStmt(x, list[1:], rest)
	}
	// constructor tail: allocation, copies and the final "return value, nil"
	if c.f.mode != mPure && c.restAccepts(list) {
		c.failed = false
		return c.accept()
	}
	return c.problem(s.Pos(), "unsupported statement %T", s)
}

// packageIntArray: a package-level variable of this function's package initialised with a constant
// integer array literal (trusted not to be reassigned: the effect summary lists stores to globals)
func (c *vctx) packageIntArray(obj types.Object) (string, bool) {
	v, ok := obj.(*types.Var)
	if !ok || v.Pkg() == nil || v.Parent() != v.Pkg().Scope() || v.Pkg() != c.f.pkg.Types {
		return "", false
	}
	for _, f := range c.f.pkg.Syntax {
		for _, d := range f.Decls {
			gd, ok := d.(*ast.GenDecl)
			if !ok || gd.Tok != token.VAR {
				continue
			}
			for _, sp := range gd.Specs {
				vs := sp.(*ast.ValueSpec)
				for i, n := range vs.Names {
					if c.info.Defs[n] != obj || i >= len(vs.Values) {
						continue
					}
					if cl, ok := vs.Values[i].(*ast.CompositeLit); ok {
						return c.intArrayLiteral(cl)
					}
				}
			}
		}
	}
	return "", false
}

// intArrayLiteral: [...]int{..} / [N]int{..} / []int{..} with constant integer keys and values
func (c *vctx) intArrayLiteral(cl *ast.CompositeLit) (string, bool) {
	t := c.info.TypeOf(cl)
	var elem types.Type
	switch u := t.Underlying().(type) {
	case *types.Array:
		elem = u.Elem()
	case *types.Slice:
		elem = u.Elem()
	default:
		return "", false
	}
	if !isInteger(elem) {
		return "", false
	}
	vals := map[int64]string{}
	next, max := int64(0), int64(-1)
	for _, e := range cl.Elts {
		v := e
		if kv, ok := e.(*ast.KeyValueExpr); ok {
			ktv, ok := c.info.Types[kv.Key]
			if !ok || ktv.Value == nil {
				return "", false
			}
			k, exact := constant.Int64Val(ktv.Value)
			if !exact || k < 0 || k > 4096 {
				return "", false
			}
			next, v = k, kv.Value
		}
		vtv, ok := c.info.Types[v]
		if !ok || vtv.Value == nil || vtv.Value.Kind() != constant.Int {
			return "", false
		}
		vals[next] = z(vtv.Value.ExactString())
		if next > max {
			max = next
		}
		next++
	}
	if arr, ok := t.Underlying().(*types.Array); ok && arr.Len()-1 > max {
		max = arr.Len() - 1
	}
	var parts []string
	for i := int64(0); i <= max; i++ {
		if s, ok := vals[i]; ok {
			parts = append(parts, s)
		} else {
			parts = append(parts, "0")
		}
	}
	return "[" + strings.Join(parts, "; ") + "]", true
}

func (c *vctx) define(lhs ast.Expr) string {
	id := lhs.(*ast.Ident)
	obj := c.info.Defs[id]
	name := coqIdent(id.Name)
	if obj != nil {
		c.vars[obj] = name
	}
	return name
}

func (c *vctx) bindRow(val, ok ast.Expr, row *vmaprow) {
	if id, isId := val.(*ast.Ident); isId && id.Name != "_" {
		c.mrow[c.info.Defs[id]] = row
	}
	if id, isId := ok.(*ast.Ident); isId && id.Name != "_" {
		c.mok[c.info.Defs[id]] = row
	}
}

func (c *vctx) isErrNotNil(cond ast.Expr, errLhs ast.Expr) bool {
	be, ok := cond.(*ast.BinaryExpr)
	if !ok || be.Op != token.NEQ || !c.isNilIdent(be.Y) {
		return false
	}
	a, ok1 := be.X.(*ast.Ident)
	b, ok2 := errLhs.(*ast.Ident)
	return ok1 && ok2 && c.info.Uses[a] == c.info.Defs[b]
}

func (c *vctx) ifStmt(x *ast.IfStmt, after []ast.Stmt, rest string) string {
	cont := func() string { return c.stmts(after, rest) }
	if x.Init != nil {
		as, ok := x.Init.(*ast.AssignStmt)
		if !ok || as.Tok != token.DEFINE {
			return c.problem(x.Pos(), "if-init")
		}
		// if err := f(..); err != nil { reject }
		if len(as.Lhs) == 1 && len(as.Rhs) == 1 && x.Else == nil && c.isErrNotNil(x.Cond, as.Lhs[0]) {
			call, ok := as.Rhs[0].(*ast.CallExpr)
			if !ok {
				return c.problem(x.Pos(), "guard without a call")
			}
			g, ok := c.guardCall(call)
			if !ok {
				return c.problem(x.Pos(), "guard call outside the module")
			}
			errObj := c.info.Defs[as.Lhs[0].(*ast.Ident)]
			c.nonnil[errObj] = true
			rej := c.stmts(x.Body.List, "")
			delete(c.nonnil, errObj)
			return "(if " + g + " then " + cont() + " else " + rej + ")"
		}
		// if v, ok := M[k]; cond { ... }
		if len(as.Lhs) == 2 && len(as.Rhs) == 1 {
			if ie, ok := as.Rhs[0].(*ast.IndexExpr); ok {
				if mn, kind, ok := c.mapOf(ie.X); ok {
					c.bindRow(as.Lhs[0], as.Lhs[1], &vmaprow{mapName: mn, kind: kind, key: c.expr(ie.Index)})
					return c.plainIf(x, after, rest)
				}
			}
		}
		// if v, ok := f(..); ok { ... }   /   if v, ok := f(..); !ok { ... }
		if len(as.Lhs) == 2 && len(as.Rhs) == 1 {
			if call, isCall := as.Rhs[0].(*ast.CallExpr); isCall {
				if s, ok := c.apply(call, mValOk); ok {
					okId, isId := as.Lhs[1].(*ast.Ident)
					if !isId {
						return c.problem(x.Pos(), "if-init form")
					}
					okObj := c.info.Defs[okId]
					pos, neg := false, false
					switch cnd := x.Cond.(type) {
					case *ast.Ident:
						pos = c.info.Uses[cnd] == okObj
					case *ast.UnaryExpr:
						if id, isId := cnd.X.(*ast.Ident); isId && cnd.Op == token.NOT {
							neg = c.info.Uses[id] == okObj
						}
					}
					if !pos && !neg {
						return c.problem(x.Pos(), "if-init form")
					}
					vn := "_"
					if id, isId := as.Lhs[0].(*ast.Ident); isId && id.Name != "_" {
						vn = c.define(as.Lhs[0])
					}
					branch := func(list []ast.Stmt) string {
						if terminates(list) {
							return c.stmts(list, "")
						}
						return c.stmts(append(append([]ast.Stmt(nil), list...), after...), rest)
					}
					thenS := branch(x.Body.List)
					var elseS string
					switch e := x.Else.(type) {
					case nil:
						elseS = cont()
					case *ast.BlockStmt:
						elseS = branch(e.List)
					default:
						return c.problem(x.Pos(), "if-init form")
					}
					someS, noneS := thenS, elseS
					if neg {
						someS, noneS = elseS, thenS
					}
					if vn != "_" {
						noneS = "(let " + vn + " := 0 in " + noneS + ")"
					}
					return "match " + s + " with\n  | Some " + vn + " => " + someS + "\n  | None => " + noneS + "\n  end"
				}
			}
		}
		// if v := expr; cond { ... }: an integer or boolean temporary scoped to the statement
		if len(as.Lhs) == 1 && len(as.Rhs) == 1 {
			if t := c.info.TypeOf(as.Rhs[0]); t != nil && (isInteger(t) || isBool(t)) {
				v := c.expr(as.Rhs[0])
				if !c.failed {
					vn := c.define(as.Lhs[0])
					return "(let " + vn + " := " + v + " in\n  " + c.plainIf(x, after, rest) + ")"
				}
			}
		}
		return c.problem(x.Pos(), "if-init form")
	}
	return c.plainIf(x, after, rest)
}

func (c *vctx) plainIf(x *ast.IfStmt, after []ast.Stmt, rest string) string {
	cond := c.expr(x.Cond)
	var thenS, elseS string
	afterCode := func() string { return c.stmts(after, rest) }
	if terminates(x.Body.List) {
		thenS = c.stmts(x.Body.List, "")
	} else {
		thenS = c.stmts(append(append([]ast.Stmt(nil), x.Body.List...), after...), rest)
	}
	switch e := x.Else.(type) {
	case nil:
		elseS = afterCode()
	case *ast.BlockStmt:
		if terminates(e.List) {
			elseS = c.stmts(e.List, "")
		} else {
			elseS = c.stmts(append(append([]ast.Stmt(nil), e.List...), after...), rest)
		}
	case *ast.IfStmt:
		elseS = c.ifStmt(e, after, rest)
	}
	return "(if " + cond + " then " + thenS + "\n  else " + elseS + ")"
}

func (c *vctx) rangeStmt(x *ast.RangeStmt, after []ast.Stmt, rest string) string {
	if c.f.mode == mPure {
		return c.problem(x.Pos(), "loop in a pure function")
	}
	coll := c.sliceExpr(x.X)
	if x.Value == nil {
		return c.problem(x.Pos(), "range without a value variable")
	}
	vid, ok := x.Value.(*ast.Ident)
	if !ok {
		return c.problem(x.Pos(), "range value")
	}
	vn := coqIdent(vid.Name)
	if obj := c.info.Defs[vid]; obj != nil {
		c.vars[obj] = vn
		if _, isPtr := obj.Type().(*types.Pointer); isPtr {
			return c.problem(x.Pos(), "range over pointers")
		}
	}
	// the index variable may only be used to build error values; it is bound to 0 here and a
	// use in a condition is caught because conditions mentioning it are refused
	if kid, ok := x.Key.(*ast.Ident); ok && kid.Name != "_" {
		kobj := c.info.Defs[kid]
		bad := false
		ast.Inspect(x.Body, func(n ast.Node) bool {
			switch y := n.(type) {
			case *ast.IfStmt:
				ast.Inspect(y.Cond, func(m ast.Node) bool {
					if id, ok := m.(*ast.Ident); ok && c.info.Uses[id] == kobj {
						bad = true
					}
					return true
				})
			case *ast.IndexExpr:
				ast.Inspect(y.Index, func(m ast.Node) bool {
					if id, ok := m.(*ast.Ident); ok && c.info.Uses[id] == kobj {
						bad = true
					}
					return true
				})
			}
			return true
		})
		if bad {
			return c.problem(x.Pos(), "loop index used in a condition")
		}
		if kobj != nil {
			c.vars[kobj] = "0"
		}
	}
	// inside the body: falling off the end continues the loop (true); "return nil" would leave
	// the function, which forallb cannot express
	badRet := false
	ast.Inspect(x.Body, func(n ast.Node) bool {
		if r, ok := n.(*ast.ReturnStmt); ok {
			if len(r.Results) > 0 && c.isNilIdent(r.Results[len(r.Results)-1]) {
				badRet = true
			}
		}
		return true
	})
	if badRet {
		return c.problem(x.Pos(), "accepting return inside a loop")
	}
	saved := c.f.mode
	savedZ := c.f.valIsZ
	c.f.mode, c.f.valIsZ = mErr, false
	body := c.stmts(x.Body.List, "true")
	c.f.mode, c.f.valIsZ = saved, savedZ
	return "(if forallb (fun " + vn + " => " + body + ") " + coll + "\n  then " + c.stmts(after, rest) + "\n  else " + c.reject() + ")"
}

func (c *vctx) switchStmt(x *ast.SwitchStmt, after []ast.Stmt, rest string) string {
	if x.Init != nil {
		return c.problem(x.Pos(), "switch form")
	}
	if x.Tag == nil {
		return c.taglessSwitch(x, after, rest)
	}
	tag := c.expr(x.Tag)
	var def *ast.CaseClause
	type armT struct {
		keys []string
		body []ast.Stmt
	}
	var arms []armT
	for _, cl := range x.Body.List {
		cc := cl.(*ast.CaseClause)
		if cc.List == nil {
			def = cc
			continue
		}
		var ks []string
		for _, e := range cc.List {
			k, ok := intConst(c.info, e)
			if !ok {
				return c.problem(e.Pos(), "non-constant case")
			}
			ks = append(ks, z(k))
		}
		for _, st := range cc.Body {
			if br, ok := st.(*ast.BranchStmt); ok && br.Tok == token.FALLTHROUGH {
				return c.problem(st.Pos(), "fallthrough")
			}
		}
		arms = append(arms, armT{ks, cc.Body})
	}
	armCode := func(body []ast.Stmt) string {
		if terminates(body) {
			return c.stmts(body, "")
		}
		return c.stmts(append(append([]ast.Stmt(nil), body...), after...), rest)
	}
	var out string
	if def != nil {
		out = armCode(def.Body)
	} else {
		out = c.stmts(after, rest)
	}
	for i := len(arms) - 1; i >= 0; i-- {
		out = "(if g_memZ " + tag + " [" + strings.Join(arms[i].keys, "; ") + "] then " + armCode(arms[i].body) + "\n  else " + out + ")"
	}
	return out
}

// switch { case cond: ...; default: ... } as an if / else-if chain
func (c *vctx) taglessSwitch(x *ast.SwitchStmt, after []ast.Stmt, rest string) string {
	var def *ast.CaseClause
	var clauses []*ast.CaseClause
	for _, cl := range x.Body.List {
		cc := cl.(*ast.CaseClause)
		for _, st := range cc.Body {
			if br, ok := st.(*ast.BranchStmt); ok && br.Tok == token.FALLTHROUGH {
				return c.problem(st.Pos(), "fallthrough")
			}
		}
		if cc.List == nil {
			def = cc
			continue
		}
		clauses = append(clauses, cc)
	}
	armCode := func(body []ast.Stmt) string {
		if terminates(body) {
			return c.stmts(body, "")
		}
		return c.stmts(append(append([]ast.Stmt(nil), body...), after...), rest)
	}
	var out string
	if def != nil {
		out = armCode(def.Body)
	} else {
		out = c.stmts(after, rest)
	}
	for i := len(clauses) - 1; i >= 0; i-- {
		var conds []string
		for _, e := range clauses[i].List {
			conds = append(conds, c.expr(e))
		}
		cond := conds[0]
		if len(conds) > 1 {
			cond = "(" + strings.Join(conds, " || ") + ")"
		}
		out = "(if " + cond + " then " + armCode(clauses[i].Body) + "\n  else " + out + ")"
	}
	return out
}

// ---- functions ----

func funcKey(fn *types.Func) string {
	sig := fn.Type().(*types.Signature)
	if sig.Recv() != nil {
		if n, ok := namedStruct(sig.Recv().Type()); ok {
			return fn.Pkg().Name() + "." + n.Obj().Name() + "." + fn.Name()
		}
		return ""
	}
	return fn.Pkg().Name() + "." + fn.Name()
}

func (t *vtrans) translate(fn *types.Func) *vfunc {
	vf, ok := t.byObj[fn]
	if !ok {
		return nil
	}
	if vf.state != 0 {
		return vf
	}
	vf.state = 1
	sig := fn.Type().(*types.Signature)
	res := sig.Results()
	switch {
	case res.Len() == 1 && isErrorType(res.At(0).Type()):
		vf.mode, vf.retType = mErr, "bool"
	case res.Len() == 2 && isErrorType(res.At(1).Type()):
		vf.mode = mValErr
		if isInteger(res.At(0).Type()) {
			vf.valIsZ, vf.retType = true, "(option Z)"
		} else {
			vf.retType = "bool"
		}
	case res.Len() == 2 && isInteger(res.At(0).Type()) && isBool(res.At(1).Type()):
		vf.mode, vf.valIsZ, vf.retType = mValOk, true, "(option Z)"
	case res.Len() == 1 && (isInteger(res.At(0).Type()) || isBool(res.At(0).Type())):
		vf.mode = mPure
		if isBool(res.At(0).Type()) {
			vf.retType = "bool"
		} else {
			vf.retType = "Z"
		}
	default:
		vf.state = 3
		return vf
	}
	info := vf.pkg.TypesInfo
	c := &vctx{t: t, f: vf, info: info, fset: vf.pkg.Fset, vars: map[types.Object]string{}, mrow: map[types.Object]*vmaprow{},
		mok: map[types.Object]*vmaprow{}, nonnil: map[types.Object]bool{}, arrs: map[types.Object]bool{}}
	vf.nonOpt = map[types.Object]bool{}
	// pointer variables that are dereferenced
	ast.Inspect(vf.decl.Body, func(n ast.Node) bool {
		if se, ok := n.(*ast.SelectorExpr); ok {
			if id, ok := se.X.(*ast.Ident); ok {
				if obj := info.Uses[id]; obj != nil {
					if _, isPtr := obj.Type().(*types.Pointer); isPtr {
						vf.nonOpt[obj] = true
					}
				}
			}
		}
		return true
	})
	addParam := func(id *ast.Ident, ty types.Type, isRecv bool) {
		obj := info.Defs[id]
		name := coqIdent(id.Name)
		if isRecv {
			vf.nonOpt[obj] = true
		}
		var ct string
		var ok bool
		if p, isPtr := ty.(*types.Pointer); isPtr && vf.nonOpt[obj] {
			ct, ok = t.coqType(p.Elem(), nil)
		} else {
			ct, ok = t.coqType(ty, nil)
		}
		if !ok {
			// parameters of unsupported types may exist as long as they are never used
			ct = "unit"
		}
		c.vars[obj] = name
		vf.params = append(vf.params, name)
		vf.ptypes = append(vf.ptypes, ct)
	}
	if vf.decl.Recv != nil {
		for _, fl := range vf.decl.Recv.List {
			for _, n := range fl.Names {
				addParam(n, info.TypeOf(fl.Type), true)
			}
		}
	}
	for _, fl := range vf.decl.Type.Params.List {
		for _, n := range fl.Names {
			addParam(n, info.TypeOf(fl.Type), false)
		}
	}
	// uses of a unit-typed parameter are errors
	before := len(problems)
	vf.body = c.stmts(vf.decl.Body.List, "")
	for i, pt := range vf.ptypes {
		if pt == "unit" && strings.Contains(vf.body, vf.params[i]) {
			c.problem(vf.decl.Pos(), "parameter %s of an unsupported type is used", vf.params[i])
		}
	}
	if len(problems) > before {
		vf.why = problems[before]
		problems = problems[:before]
		vf.state = 3
		return vf
	}
	vf.state = 2
	t.order = append(t.order, vf)
	return vf
}

func emitValidators(pkgs []*packages.Package) string {
	t := &vtrans{pkgs: map[string]*packages.Package{}, funcs: map[string]*vfunc{}, byObj: map[*types.Func]*vfunc{},
		recs: map[*types.Named]*vrec{}, maps: map[types.Object]string{}, mapKind: map[types.Object]string{}}
	for _, p := range pkgs {
		if strings.Contains(p.PkgPath, "/fuzz/") {
			continue
		}
		t.pkgs[p.Name] = p
		for _, f := range p.Syntax {
			if strings.HasSuffix(p.Fset.Position(f.Pos()).Filename, "_test.go") {
				continue
			}
			for _, d := range f.Decls {
				switch x := d.(type) {
				case *ast.FuncDecl:
					if x.Body == nil {
						continue
					}
					fn, ok := p.TypesInfo.Defs[x.Name].(*types.Func)
					if !ok {
						continue
					}
					key := funcKey(fn)
					if key == "" {
						continue
					}
					vf := &vfunc{key: key, coq: "g_" + strings.ReplaceAll(key, ".", "_"), decl: x, pkg: p}
					t.funcs[key] = vf
					t.byObj[fn] = vf
				case *ast.GenDecl:
					if x.Tok != token.VAR {
						continue
					}
					for _, sp := range x.Specs {
						vs := sp.(*ast.ValueSpec)
						for i, v := range vs.Values {
							cl, ok := v.(*ast.CompositeLit)
							if !ok {
								continue
							}
							mt, ok := p.TypesInfo.TypeOf(cl).Underlying().(*types.Map)
							if !ok {
								continue
							}
							if b, ok := mt.Key().Underlying().(*types.Basic); !ok || b.Info()&types.IsInteger == 0 {
								continue
							}
							kind := "keys"
							if _, ok := mt.Elem().Underlying().(*types.Struct); ok {
								kind = "struct"
							} else if b, ok := mt.Elem().Underlying().(*types.Basic); ok && b.Info()&types.IsInteger != 0 {
								kind = "int"
							} else if ok && b.Info()&types.IsBoolean != 0 {
								kind = "bool"
							}
							obj := p.TypesInfo.Defs[vs.Names[i]]
							t.maps[obj] = "m_" + p.Name + "_" + vs.Names[i].Name
							t.mapKind[obj] = kind
						}
					}
				}
			}
		}
	}
	for _, key := range validatorRoots {
		vf, ok := t.funcs[key]
		if !ok {
			problems = append(problems, "validator root "+key+" not found in the source")
			continue
		}
		fn := vf.pkg.TypesInfo.Defs[vf.decl.Name].(*types.Func)
		r := t.translate(fn)
		r.root = true
		if r.state != 2 {
			problems = append(problems, "validator root "+key+" is outside the translated subset: "+r.why)
		}
	}
	var sb strings.Builder
	sb.WriteString("(* GENERATED by /verif/translator (validators.go) from the Go source; do not edit. *)\n")
	sb.WriteString("From Coq Require Import List NArith ZArith Bool.\nFrom Gen Require Import Tables.\nImport ListNotations.\nOpen Scope Z_scope.\nOpen Scope bool_scope.\n\n")
	sb.WriteString("Definition g_memZ (k : Z) (l : list Z) : bool := existsb (Z.eqb k) l.\n")
	sb.WriteString("Fixpoint g_lookupZ (l : list (Z * Z)) (k : Z) : Z :=\n  match l with [] => 0 | (a, b) :: t => if Z.eqb a k then b else g_lookupZ t k end.\n")
	sb.WriteString("Definition g_is_none {A} (o : option A) : bool := match o with None => true | Some _ => false end.\n\n")
	// records in dependency order
	emitted := map[*vrec]bool{}
	var emitRec func(r *vrec)
	emitRec = func(r *vrec) {
		if emitted[r] {
			return
		}
		emitted[r] = true
		for _, d := range r.deps {
			emitRec(d)
		}
		if len(r.fields) == 0 {
			fmt.Fprintf(&sb, "Record %s := mk_%s { }.\n", r.coq, r.coq)
			return
		}
		var fs []string
		for _, f := range r.fields {
			fs = append(fs, fmt.Sprintf("%s__%s : %s", r.coq, f, r.ftype[f]))
		}
		fmt.Fprintf(&sb, "Record %s := mk_%s { %s }.\n", r.coq, r.coq, strings.Join(fs, "; "))
	}
	recs := append([]*vrec(nil), t.recList...)
	sort.SliceStable(recs, func(i, j int) bool { return recs[i].coq < recs[j].coq })
	for _, r := range recs {
		emitRec(r)
	}
	sb.WriteString("\n")
	reach := map[*vfunc]bool{}
	var mark func(f *vfunc)
	mark = func(f *vfunc) {
		if reach[f] || f.state != 2 {
			return
		}
		reach[f] = true
		for _, g := range f.calls {
			mark(g)
		}
	}
	for _, vf := range t.order {
		if vf.root {
			mark(vf)
		}
	}
	var names []string
	for _, vf := range t.order {
		if !reach[vf] {
			continue
		}
		var ps []string
		for _, o := range vf.opaques {
			ps = append(ps, "("+o+" : bool)")
		}
		for i := range vf.params {
			ps = append(ps, "("+vf.params[i]+" : "+vf.ptypes[i]+")")
		}
		fmt.Fprintf(&sb, "(* %s *)\nDefinition %s %s : %s :=\n  %s.\n\n", vf.key, vf.coq, strings.Join(ps, " "), vf.retType, vf.body)
		names = append(names, vf.key)
	}
	fmt.Fprintf(&sb, "(* translated: %s *)\n", strings.Join(names, ", "))
	return sb.String()
}
