// effects: static over-approximation of writes to memory that may be shared between goroutines,
// per function, and the set of such sites reachable from every exported method through the
// module's static call graph.  Output: coq/Gen/Effects.v.
//
// A write site (Store, MapUpdate, append, copy, delete/clear, sort.*) is classified by where its
// destination may come from (flow-insensitive derivation through field/index/slice/conversion/phi,
// results of in-module calls from their arguments):
//   - a global or a captured variable of a closure whose binding is shared: unconditional;
//   - a parameter (the receiver is parameter 0) of the enclosing function: conditional on that
//     parameter — it becomes a site of a caller only when the caller passes something that is
//     itself derived from the caller's parameters / globals (a helper filling a buffer its caller
//     has just allocated writes nothing shared);
//   - a fresh allocation of the function itself: not a site.
// For an exported method every parameter (receiver included) counts as shared.  Sites are keyed by
// function + kind + ordinal (not by line), so edits elsewhere in a file do not change the keys.
package main

import (
	"flag"
	"fmt"
	"go/types"
	"os"
	"sort"
	"strings"

	"golang.org/x/tools/go/packages"
	"golang.org/x/tools/go/ssa"
	"golang.org/x/tools/go/ssa/ssautil"
)

const mod = "github.com/go-i2p/common"

// roots of a value: parameter indices (>= 0; free variables follow the parameters), or shared (-1)
type rootset map[int]bool

const shared = -1

func (r rootset) add(o rootset) {
	for k := range o {
		r[k] = true
	}
}

func rootsOf(f *ssa.Function, v ssa.Value, seen map[ssa.Value]bool) rootset {
	res := rootset{}
	if seen[v] {
		return res
	}
	seen[v] = true
	switch x := v.(type) {
	case *ssa.Parameter:
		for i, p := range f.Params {
			if p == x {
				res[i] = true
			}
		}
		if len(res) == 0 {
			res[shared] = true // a parameter of an enclosing function seen from a closure: treat as shared
		}
	case *ssa.Global:
		res[shared] = true
	case *ssa.FreeVar:
		for i, fv := range f.FreeVars {
			if fv == x {
				res[len(f.Params)+i] = true
			}
		}
		if len(res) == 0 {
			res[shared] = true
		}
	case *ssa.Alloc:
		for _, r := range *x.Referrers() {
			if st, ok := r.(*ssa.Store); ok && st.Addr == x {
				res.add(rootsOf(f, st.Val, seen))
			}
		}
	case *ssa.FieldAddr:
		res.add(rootsOf(f, x.X, seen))
	case *ssa.Field:
		res.add(rootsOf(f, x.X, seen))
	case *ssa.IndexAddr:
		res.add(rootsOf(f, x.X, seen))
	case *ssa.Index:
		res.add(rootsOf(f, x.X, seen))
	case *ssa.Slice:
		res.add(rootsOf(f, x.X, seen))
	case *ssa.UnOp:
		res.add(rootsOf(f, x.X, seen))
	case *ssa.ChangeType:
		res.add(rootsOf(f, x.X, seen))
	case *ssa.Convert:
		if b, ok := x.X.Type().Underlying().(*types.Basic); ok && b.Info()&types.IsString != 0 {
			return res // string -> []byte allocates
		}
		res.add(rootsOf(f, x.X, seen))
	case *ssa.MakeInterface:
		res.add(rootsOf(f, x.X, seen))
	case *ssa.TypeAssert:
		res.add(rootsOf(f, x.X, seen))
	case *ssa.Extract:
		res.add(rootsOf(f, x.Tuple, seen))
	case *ssa.Phi:
		for _, e := range x.Edges {
			res.add(rootsOf(f, e, seen))
		}
	case *ssa.Call:
		if !pointerish(x.Type()) {
			return res
		}
		if b, ok := x.Call.Value.(*ssa.Builtin); ok && b.Name() == "append" {
			res.add(rootsOf(f, x.Call.Args[0], seen))
			return res
		}
		callee := x.Call.StaticCallee()
		if callee != nil && callee.Pkg != nil && callee.Pkg.Pkg.Path() == "sync" && callee.Name() == "Get" {
			res[shared] = true // (*sync.Pool).Get hands out memory other goroutines have used and will use
			return res
		}
		if callee == nil || callee.Pkg == nil || !strings.HasPrefix(callee.Pkg.Pkg.Path(), mod) {
			return res // any other external callee: result assumed fresh (see DESIGN.md, trusted base)
		}
		for _, a := range x.Call.Args {
			res.add(rootsOf(f, a, seen))
		}
	}
	return res
}

// methods of other modules' types that write to their receiver
var mutatingExternal = map[string]bool{"Write": true, "WriteByte": true, "WriteString": true, "WriteRune": true, "WriteTo": false,
	"Reset": true, "Truncate": true, "Grow": true, "ReadFrom": true, "Put": true, "Store": true, "Swap": true, "Add": true,
	"CompareAndSwap": true, "Delete": true, "LoadOrStore": true, "Sum": false}

func isPointer(t types.Type) bool { _, ok := t.Underlying().(*types.Pointer); return ok }

func pointerish(t types.Type) bool {
	switch u := t.Underlying().(type) {
	case *types.Pointer, *types.Slice, *types.Map, *types.Interface, *types.Chan:
		return true
	case *types.Tuple:
		for i := 0; i < u.Len(); i++ {
			if pointerish(u.At(i).Type()) {
				return true
			}
		}
	case *types.Struct:
		for i := 0; i < u.NumFields(); i++ {
			if pointerish(u.Field(i).Type()) {
				return true
			}
		}
	}
	return false
}

func short(f *ssa.Function) string {
	s := f.String()
	s = strings.ReplaceAll(s, mod+"/", "")
	s = strings.ReplaceAll(s, mod+".", "common.")
	return s
}

// a call (or closure creation) inside a function: callee and, per callee parameter / free
// variable, the roots of the actual argument in the caller
type callEdge struct {
	callee *ssa.Function
	args   []rootset // indexed like the callee's roots: params, then free variables
}

type summary struct {
	cond   map[int]map[string]bool // parameter index -> sites written through it
	uncond map[string]bool         // sites written whatever the caller passes
	calls  []callEdge
}

func main() {
	repo := flag.String("repo", "/repo", "repository root")
	out := flag.String("out", "", "output file (Effects.v)")
	flag.Parse()
	cfg := &packages.Config{Mode: packages.LoadAllSyntax, Dir: *repo}
	pkgs, err := packages.Load(cfg, "./...")
	if err != nil {
		fmt.Fprintln(os.Stderr, "effects: load:", err)
		os.Exit(2)
	}
	for _, p := range pkgs {
		if len(p.Errors) > 0 {
			fmt.Fprintln(os.Stderr, "effects: package errors:", p.Errors)
			os.Exit(2)
		}
	}
	prog, _ := ssautil.AllPackages(pkgs, ssa.InstantiateGenerics)
	prog.Build()
	inMod := func(f *ssa.Function) bool {
		return f != nil && f.Pkg != nil && strings.HasPrefix(f.Pkg.Pkg.Path(), mod) && !strings.Contains(f.Pkg.Pkg.Path(), "/fuzz/")
	}
	var fns []*ssa.Function
	for f := range ssautil.AllFunctions(prog) {
		if !inMod(f) {
			continue
		}
		fns = append(fns, f)
	}
	sort.Slice(fns, func(i, j int) bool { return fns[i].String() < fns[j].String() })
	sums := map[*ssa.Function]*summary{}
	for _, f := range fns {
		sm := &summary{cond: map[int]map[string]bool{}, uncond: map[string]bool{}}
		sums[f] = sm
		count := map[string]int{}
		add := func(kind string, rs rootset) {
			if len(rs) == 0 {
				return
			}
			id := fmt.Sprintf("%s#%s#%d", short(f), kind, count[kind])
			count[kind]++
			for r := range rs {
				if r == shared {
					sm.uncond[id] = true
				} else {
					if sm.cond[r] == nil {
						sm.cond[r] = map[string]bool{}
					}
					sm.cond[r][id] = true
				}
			}
		}
		roots := func(v ssa.Value) rootset { return rootsOf(f, v, map[ssa.Value]bool{}) }
		edge := func(callee *ssa.Function, actuals []ssa.Value, bindings []ssa.Value) {
			e := callEdge{callee: callee}
			for _, a := range actuals {
				e.args = append(e.args, roots(a))
			}
			for len(e.args) < len(callee.Params) {
				e.args = append(e.args, rootset{shared: true})
			}
			for _, b := range bindings {
				e.args = append(e.args, roots(b))
			}
			sm.calls = append(sm.calls, e)
		}
		for _, b := range f.Blocks {
			for _, in := range b.Instrs {
				switch x := in.(type) {
				case *ssa.Store:
					if _, isAlloc := x.Addr.(*ssa.Alloc); isAlloc {
						continue
					}
					add("store", roots(x.Addr))
				case *ssa.MapUpdate:
					add("mapupdate", roots(x.Map))
				case *ssa.MakeClosure:
					if fn, ok := x.Fn.(*ssa.Function); ok && inMod(fn) {
						// the closure may be called by whoever receives it: its parameters are unknown
						// (shared), its captured variables are the bindings
						var unknown []ssa.Value
						e := callEdge{callee: fn}
						_ = unknown
						for range fn.Params {
							e.args = append(e.args, rootset{shared: true})
						}
						for _, bnd := range x.Bindings {
							e.args = append(e.args, roots(bnd))
						}
						sm.calls = append(sm.calls, e)
					}
				case ssa.CallInstruction:
					cc := x.Common()
					if bi, ok := cc.Value.(*ssa.Builtin); ok {
						switch bi.Name() {
						case "append", "copy", "delete", "clear":
							add(bi.Name(), roots(cc.Args[0]))
						}
						continue
					}
					callee := cc.StaticCallee()
					// a mutating method of another module's type (bytes.Buffer, hash.Hash, strings.Builder,
					// sync.Pool ...) called on a receiver that may be shared
					if callee != nil && !inMod(callee) && callee.Signature.Recv() != nil && isPointer(callee.Signature.Recv().Type()) && len(cc.Args) > 0 && mutatingExternal[callee.Name()] {
						add("extcall", roots(cc.Args[0]))
					}
					if cc.IsInvoke() && mutatingExternal[cc.Method.Name()] {
						add("extcall", roots(cc.Value))
					}
					if callee != nil && callee.Pkg != nil && (callee.Pkg.Pkg.Path() == "sort" || callee.Pkg.Pkg.Path() == "slices") {
						rs := rootset{}
						for _, a := range cc.Args {
							rs.add(roots(a))
						}
						add("sort", rs)
					}
					if inMod(callee) {
						if _, isClosure := cc.Value.(*ssa.MakeClosure); isClosure {
							continue // handled at the MakeClosure instruction
						}
						edge(callee, cc.Args, nil)
					}
				}
			}
		}
		// anonymous functions that are never the operand of a MakeClosure here (no captured variables)
		for _, af := range f.AnonFuncs {
			if len(af.FreeVars) == 0 {
				e := callEdge{callee: af}
				for range af.Params {
					e.args = append(e.args, rootset{shared: true})
				}
				sm.calls = append(sm.calls, e)
			}
		}
	}
	// propagate to a fixpoint: a callee's sites conditional on parameter j become, in the caller,
	// sites conditional on the roots of the j-th actual argument (or unconditional when shared)
	for changed := true; changed; {
		changed = false
		for _, f := range fns {
			sm := sums[f]
			for _, e := range sm.calls {
				cs := sums[e.callee]
				if cs == nil {
					continue
				}
				for id := range cs.uncond {
					if !sm.uncond[id] {
						sm.uncond[id] = true
						changed = true
					}
				}
				for j, sites := range cs.cond {
					if j >= len(e.args) {
						continue
					}
					for r := range e.args[j] {
						for id := range sites {
							if r == shared {
								if !sm.uncond[id] {
									sm.uncond[id] = true
									changed = true
								}
							} else {
								if sm.cond[r] == nil {
									sm.cond[r] = map[string]bool{}
								}
								if !sm.cond[r][id] {
									sm.cond[r][id] = true
									changed = true
								}
							}
						}
					}
				}
			}
		}
	}
	var sb strings.Builder
	sb.WriteString("(* GENERATED by /verif/translator/effects from the Go source (go/ssa); do not edit. *)\nFrom Coq Require Import List String.\nImport ListNotations.\nOpen Scope string_scope.\n\n")
	sb.WriteString("(* every exported method of an exported type, with the potential shared-write sites\n   (function#kind#ordinal) it can reach through the module's static call graph: sites whose\n   destination may derive from a global, or from a parameter chain that starts at the method's\n   receiver or arguments *)\nDefinition method_effects : list (string * list string) := [\n")
	var rows []string
	for _, f := range fns {
		if f.Signature.Recv() == nil || f.Synthetic != "" {
			continue
		}
		obj, ok := f.Object().(*types.Func)
		if !ok || !obj.Exported() {
			continue
		}
		recv := f.Signature.Recv().Type()
		if p, ok := recv.(*types.Pointer); ok {
			recv = p.Elem()
		}
		named, ok := recv.(*types.Named)
		if !ok || !named.Obj().Exported() {
			continue
		}
		set := map[string]bool{}
		for id := range sums[f].uncond {
			set[id] = true
		}
		for _, sites := range sums[f].cond {
			for id := range sites {
				set[id] = true
			}
		}
		var ids []string
		for id := range set {
			ids = append(ids, id)
		}
		sort.Strings(ids)
		var qs []string
		for _, s := range ids {
			qs = append(qs, fmt.Sprintf("%q", s))
		}
		rows = append(rows, fmt.Sprintf("  (%q, [%s])", short(f), strings.Join(qs, "; ")))
	}
	sb.WriteString(strings.Join(rows, ";\n"))
	sb.WriteString("\n].\n")
	old, err := os.ReadFile(*out)
	if err == nil && string(old) == sb.String() {
		return
	}
	if err := os.WriteFile(*out, []byte(sb.String()), 0o644); err != nil {
		fmt.Fprintln(os.Stderr, "effects:", err)
		os.Exit(2)
	}
}
