// effects: static over-approximation of writes to memory that may be shared (reachable from
// a parameter, receiver, free variable or global), per function, and the set of such sites
// reachable from every exported method through the module's static call graph.
// Output: coq/Gen/Effects.v.  Sites are keyed by function + kind + ordinal (not by line), so
// harmless edits elsewhere in a file do not change the keys.
package main

import (
	"flag"
	"fmt"
	"go/types"
	"os"
	"sort"
	"strings"

	"golang.org/x/tools/go/packages"
	"golang.org/x/tools/go/ssa"
	"golang.org/x/tools/go/ssa/ssautil"
)

const mod = "github.com/go-i2p/common"

func derived(v ssa.Value, seen map[ssa.Value]bool) bool {
	if seen[v] {
		return false
	}
	seen[v] = true
	switch x := v.(type) {
	case *ssa.Parameter, *ssa.Global, *ssa.FreeVar:
		return true
	case *ssa.Alloc:
		for _, r := range *x.Referrers() {
			if st, ok := r.(*ssa.Store); ok && st.Addr == x && derived(st.Val, seen) {
				return true
			}
		}
		return false
	case *ssa.FieldAddr:
		return derived(x.X, seen)
	case *ssa.Field:
		return derived(x.X, seen)
	case *ssa.IndexAddr:
		return derived(x.X, seen)
	case *ssa.Index:
		return derived(x.X, seen)
	case *ssa.Slice:
		return derived(x.X, seen)
	case *ssa.UnOp:
		return derived(x.X, seen)
	case *ssa.ChangeType:
		return derived(x.X, seen)
	case *ssa.Convert:
		if b, ok := x.X.Type().Underlying().(*types.Basic); ok && b.Info()&types.IsString != 0 {
			return false // string -> []byte allocates
		}
		return derived(x.X, seen)
	case *ssa.MakeInterface:
		return derived(x.X, seen)
	case *ssa.TypeAssert:
		return derived(x.X, seen)
	case *ssa.Extract:
		return derived(x.Tuple, seen)
	case *ssa.Phi:
		for _, e := range x.Edges {
			if derived(e, seen) {
				return true
			}
		}
		return false
	case *ssa.Call:
		if !pointerish(x.Type()) {
			return false
		}
		if b, ok := x.Call.Value.(*ssa.Builtin); ok && b.Name() == "append" {
			return derived(x.Call.Args[0], seen)
		}
		callee := x.Call.StaticCallee()
		if callee == nil || callee.Pkg == nil || !strings.HasPrefix(callee.Pkg.Pkg.Path(), mod) {
			return false // external callee: result assumed fresh (see DESIGN.md, trusted base)
		}
		for _, a := range x.Call.Args {
			if derived(a, seen) {
				return true
			}
		}
		return false
	}
	return false
}

func pointerish(t types.Type) bool {
	switch u := t.Underlying().(type) {
	case *types.Pointer, *types.Slice, *types.Map, *types.Interface, *types.Chan:
		return true
	case *types.Tuple:
		for i := 0; i < u.Len(); i++ {
			if pointerish(u.At(i).Type()) {
				return true
			}
		}
	case *types.Struct:
		for i := 0; i < u.NumFields(); i++ {
			if pointerish(u.Field(i).Type()) {
				return true
			}
		}
	}
	return false
}

func short(f *ssa.Function) string {
	s := f.String()
	s = strings.ReplaceAll(s, mod+"/", "")
	s = strings.ReplaceAll(s, mod+".", "common.")
	return s
}

func main() {
	repo := flag.String("repo", "/repo", "repository root")
	out := flag.String("out", "", "output file (Effects.v)")
	flag.Parse()
	cfg := &packages.Config{Mode: packages.LoadAllSyntax, Dir: *repo}
	pkgs, err := packages.Load(cfg, "./...")
	if err != nil {
		fmt.Fprintln(os.Stderr, "effects: load:", err)
		os.Exit(2)
	}
	for _, p := range pkgs {
		if len(p.Errors) > 0 {
			fmt.Fprintln(os.Stderr, "effects: package errors:", p.Errors)
			os.Exit(2)
		}
	}
	prog, _ := ssautil.AllPackages(pkgs, ssa.InstantiateGenerics)
	prog.Build()
	inMod := func(f *ssa.Function) bool {
		return f != nil && f.Pkg != nil && strings.HasPrefix(f.Pkg.Pkg.Path(), mod) && !strings.Contains(f.Pkg.Pkg.Path(), "/fuzz/")
	}
	sitesOf := map[*ssa.Function][]string{}
	calls := map[*ssa.Function][]*ssa.Function{}
	var fns []*ssa.Function
	for f := range ssautil.AllFunctions(prog) {
		if !inMod(f) || f.Synthetic != "" && !strings.HasPrefix(f.Synthetic, "wrapper") && !strings.HasPrefix(f.Synthetic, "bound") {
			if !inMod(f) {
				continue
			}
		}
		fns = append(fns, f)
	}
	sort.Slice(fns, func(i, j int) bool { return fns[i].String() < fns[j].String() })
	for _, f := range fns {
		count := map[string]int{}
		add := func(kind string) {
			sitesOf[f] = append(sitesOf[f], fmt.Sprintf("%s#%s#%d", short(f), kind, count[kind]))
			count[kind]++
		}
		for _, af := range f.AnonFuncs {
			calls[f] = append(calls[f], af)
		}
		for _, b := range f.Blocks {
			for _, in := range b.Instrs {
				switch x := in.(type) {
				case *ssa.Store:
					if _, isAlloc := x.Addr.(*ssa.Alloc); isAlloc {
						continue
					}
					if derived(x.Addr, map[ssa.Value]bool{}) {
						add("store")
					}
				case *ssa.MapUpdate:
					if derived(x.Map, map[ssa.Value]bool{}) {
						add("mapupdate")
					}
				case ssa.CallInstruction:
					cc := x.Common()
					if bi, ok := cc.Value.(*ssa.Builtin); ok {
						switch bi.Name() {
						case "append":
							if derived(cc.Args[0], map[ssa.Value]bool{}) {
								add("append")
							}
						case "copy":
							if derived(cc.Args[0], map[ssa.Value]bool{}) {
								add("copy")
							}
						case "delete", "clear":
							if derived(cc.Args[0], map[ssa.Value]bool{}) {
								add(bi.Name())
							}
						}
						continue
					}
					callee := cc.StaticCallee()
					if callee != nil && callee.Pkg != nil && (callee.Pkg.Pkg.Path() == "sort" || callee.Pkg.Pkg.Path() == "slices") {
						for _, a := range cc.Args {
							if derived(a, map[ssa.Value]bool{}) {
								add("sort")
								break
							}
						}
					}
					if inMod(callee) {
						calls[f] = append(calls[f], callee)
					}
					if mc, ok := cc.Value.(*ssa.MakeClosure); ok {
						if fn, ok := mc.Fn.(*ssa.Function); ok && inMod(fn) {
							calls[f] = append(calls[f], fn)
						}
					}
				}
			}
		}
	}
	// reachable sites per exported method / function
	reach := func(root *ssa.Function) []string {
		seen := map[*ssa.Function]bool{}
		var res []string
		var walk func(f *ssa.Function)
		walk = func(f *ssa.Function) {
			if seen[f] {
				return
			}
			seen[f] = true
			res = append(res, sitesOf[f]...)
			for _, c := range calls[f] {
				walk(c)
			}
		}
		walk(root)
		sort.Strings(res)
		return res
	}
	var sb strings.Builder
	sb.WriteString("(* GENERATED by /verif/translator/effects from the Go source (go/ssa); do not edit. *)\nFrom Coq Require Import List String.\nImport ListNotations.\nOpen Scope string_scope.\n\n")
	sb.WriteString("(* every exported method of an exported type, with the potential shared-write sites\n   (function#kind#ordinal) reachable from it through the module's static call graph *)\nDefinition method_effects : list (string * list string) := [\n")
	var rows []string
	for _, f := range fns {
		if f.Signature.Recv() == nil || f.Synthetic != "" {
			continue
		}
		obj, ok := f.Object().(*types.Func)
		if !ok || !obj.Exported() {
			continue
		}
		recv := f.Signature.Recv().Type()
		if p, ok := recv.(*types.Pointer); ok {
			recv = p.Elem()
		}
		named, ok := recv.(*types.Named)
		if !ok || !named.Obj().Exported() {
			continue
		}
		var qs []string
		for _, s := range reach(f) {
			qs = append(qs, fmt.Sprintf("%q", s))
		}
		rows = append(rows, fmt.Sprintf("  (%q, [%s])", short(f), strings.Join(qs, "; ")))
	}
	sb.WriteString(strings.Join(rows, ";\n"))
	sb.WriteString("\n].\n")
	old, err := os.ReadFile(*out)
	if err == nil && string(old) == sb.String() {
		return
	}
	if err := os.WriteFile(*out, []byte(sb.String()), 0o644); err != nil {
		fmt.Fprintln(os.Stderr, "effects:", err)
		os.Exit(2)
	}
}
