// aliases: for every exported function of the module whose first parameter is a byte slice, may the
// first result share memory with that argument?  A flow-insensitive derivation analysis over go/ssa
// with per-function summaries (which parameters a result derives from; which parameters a function
// stores through which other parameters' data), iterated to a fixpoint over the module's static call
// graph.  Copies are what breaks a derivation: make/new + copy, append onto a fresh slice, array value
// conversion, string conversion, and results of functions outside the module (trusted fresh).
// Output: coq/Gen/Aliases.v.
package main

import (
	"flag"
	"fmt"
	"go/types"
	"os"
	"sort"
	"strings"

	"golang.org/x/tools/go/packages"
	"golang.org/x/tools/go/ssa"
	"golang.org/x/tools/go/ssa/ssautil"
)

const mod = "github.com/go-i2p/common"

type rootset map[int]bool // parameter indices a value's memory may derive from

func (r rootset) add(o rootset) bool {
	ch := false
	for k := range o {
		if !r[k] {
			r[k] = true
			ch = true
		}
	}
	return ch
}

func pointerish(t types.Type) bool {
	switch u := t.Underlying().(type) {
	case *types.Pointer, *types.Slice, *types.Map, *types.Interface, *types.Chan:
		return true
	case *types.Tuple:
		for i := 0; i < u.Len(); i++ {
			if pointerish(u.At(i).Type()) {
				return true
			}
		}
	case *types.Struct:
		for i := 0; i < u.NumFields(); i++ {
			if pointerish(u.Field(i).Type()) {
				return true
			}
		}
	case *types.Array:
		return pointerish(u.Elem())
	}
	return false
}

type summary struct {
	ret    []rootset       // per result index: parameters it may derive from
	stores map[int]rootset // parameter i (a pointer): data derived from these parameters may be stored through it
}

var sums = map[*ssa.Function]*summary{}

func inMod(f *ssa.Function) bool {
	return f != nil && f.Pkg != nil && strings.HasPrefix(f.Pkg.Pkg.Path(), mod) && !strings.Contains(f.Pkg.Pkg.Path(), "/fuzz/")
}

// base of an address: strip field / index selections
func base(v ssa.Value) ssa.Value {
	for {
		switch x := v.(type) {
		case *ssa.FieldAddr:
			v = x.X
		case *ssa.IndexAddr:
			v = x.X
		default:
			return v
		}
	}
}

type fctx struct {
	f      *ssa.Function
	stored map[ssa.Value][]ssa.Value // base address -> values stored through it (directly)
	outArg map[ssa.Value][]struct {  // base address passed as argument i to a callee
		callee *ssa.Function
		idx    int
		args   []ssa.Value
	}
}

func (c *fctx) roots(v ssa.Value, seen map[ssa.Value]bool) rootset {
	res := rootset{}
	if v == nil || seen[v] {
		return res
	}
	seen[v] = true
	switch x := v.(type) {
	case *ssa.Parameter:
		for i, p := range c.f.Params {
			if p == x {
				res[i] = true
			}
		}
	case *ssa.FreeVar, *ssa.Global:
		// not the byte-slice argument
	case *ssa.Alloc:
		c.memRoots(x, res, seen)
	case *ssa.MakeSlice, *ssa.MakeMap, *ssa.MakeChan:
	case *ssa.FieldAddr:
		res.add(c.roots(x.X, seen))
	case *ssa.Field:
		res.add(c.roots(x.X, seen))
	case *ssa.IndexAddr:
		res.add(c.roots(x.X, seen))
	case *ssa.Index:
		res.add(c.roots(x.X, seen))
	case *ssa.Lookup:
		res.add(c.roots(x.X, seen))
	case *ssa.Slice:
		res.add(c.roots(x.X, seen))
	case *ssa.SliceToArrayPointer:
		res.add(c.roots(x.X, seen))
	case *ssa.UnOp:
		// a load: what was stored at that address (for locals), or the address's own provenance
		if b := base(x.X); b != nil {
			if a, ok := b.(*ssa.Alloc); ok {
				c.memRoots(a, res, seen)
				break
			}
		}
		res.add(c.roots(x.X, seen))
	case *ssa.ChangeType:
		res.add(c.roots(x.X, seen))
	case *ssa.ChangeInterface:
		res.add(c.roots(x.X, seen))
	case *ssa.Convert:
		// []byte <-> string copies; numeric conversions carry no memory
		if !pointerish(x.Type()) {
			break
		}
		if b, ok := x.X.Type().Underlying().(*types.Basic); ok && b.Info()&types.IsString != 0 {
			break
		}
		if b, ok := x.Type().Underlying().(*types.Basic); ok && b.Info()&types.IsString != 0 {
			break
		}
		res.add(c.roots(x.X, seen))
	case *ssa.MakeInterface:
		res.add(c.roots(x.X, seen))
	case *ssa.TypeAssert:
		res.add(c.roots(x.X, seen))
	case *ssa.Extract:
		if call, ok := x.Tuple.(*ssa.Call); ok {
			res.add(c.callRoots(call, x.Index, seen))
		} else {
			res.add(c.roots(x.Tuple, seen))
		}
	case *ssa.Phi:
		for _, e := range x.Edges {
			res.add(c.roots(e, seen))
		}
	case *ssa.Call:
		res.add(c.callRoots(x, 0, seen))
	case *ssa.MakeClosure:
		for _, b := range x.Bindings {
			res.add(c.roots(b, seen))
		}
	}
	return res
}

// what may be held in the memory of a local allocation: everything stored through it here, and
// everything callees store through it when it is passed to them
func (c *fctx) memRoots(a *ssa.Alloc, res rootset, seen map[ssa.Value]bool) {
	for _, v := range c.stored[a] {
		if pointerish(v.Type()) {
			res.add(c.roots(v, seen))
		}
	}
	for _, oa := range c.outArg[a] {
		cs := sums[oa.callee]
		if cs == nil {
			continue
		}
		for j := range cs.stores[oa.idx] {
			if j < len(oa.args) {
				res.add(c.roots(oa.args[j], seen))
			}
		}
	}
}

func (c *fctx) callRoots(x *ssa.Call, result int, seen map[ssa.Value]bool) rootset {
	res := rootset{}
	if b, ok := x.Call.Value.(*ssa.Builtin); ok {
		if b.Name() == "append" && len(x.Call.Args) > 0 {
			res.add(c.roots(x.Call.Args[0], seen))
			// the appended elements are copied — which, for elements that themselves hold pointers
			// or slices (a struct with a []byte field), copies the references, not what they refer to
			if sl, ok := x.Type().Underlying().(*types.Slice); ok && pointerish(sl.Elem()) {
				for _, a := range x.Call.Args[1:] {
					res.add(c.roots(a, seen))
				}
			}
		}
		return res
	}
	callee := x.Call.StaticCallee()
	if !inMod(callee) {
		return res // another module's function: result trusted to be fresh
	}
	cs := sums[callee]
	if cs == nil || result >= len(cs.ret) {
		return res
	}
	for j := range cs.ret[result] {
		if j < len(x.Call.Args) {
			res.add(c.roots(x.Call.Args[j], seen))
		}
	}
	return res
}

func isErrorType(t types.Type) bool {
	n, ok := t.(*types.Named)
	return ok && n.Obj().Pkg() == nil && n.Obj().Name() == "error"
}

func certainlyError(v ssa.Value) bool {
	switch x := v.(type) {
	case *ssa.Call:
		if x.Call.IsInvoke() {
			return false
		}
		callee := x.Call.StaticCallee()
		return callee != nil && !inMod(callee)
	case *ssa.MakeInterface:
		return true
	}
	return false
}

func main() {
	repo := flag.String("repo", "/repo", "repository root")
	out := flag.String("out", "", "output file (Aliases.v)")
	flag.Parse()
	cfg := &packages.Config{Mode: packages.LoadAllSyntax, Dir: *repo}
	pkgs, err := packages.Load(cfg, "./...")
	if err != nil {
		fmt.Fprintln(os.Stderr, "aliases: load:", err)
		os.Exit(2)
	}
	for _, p := range pkgs {
		if len(p.Errors) > 0 {
			fmt.Fprintln(os.Stderr, "aliases: package errors:", p.Errors)
			os.Exit(2)
		}
	}
	prog, _ := ssautil.AllPackages(pkgs, ssa.InstantiateGenerics)
	prog.Build()
	var fns []*ssa.Function
	for f := range ssautil.AllFunctions(prog) {
		if inMod(f) && len(f.Blocks) > 0 {
			fns = append(fns, f)
		}
	}
	sort.Slice(fns, func(i, j int) bool { return fns[i].String() < fns[j].String() })
	ctxs := map[*ssa.Function]*fctx{}
	for _, f := range fns {
		nres := f.Signature.Results().Len()
		sm := &summary{stores: map[int]rootset{}}
		for i := 0; i < nres; i++ {
			sm.ret = append(sm.ret, rootset{})
		}
		sums[f] = sm
		c := &fctx{f: f, stored: map[ssa.Value][]ssa.Value{}, outArg: map[ssa.Value][]struct {
			callee *ssa.Function
			idx    int
			args   []ssa.Value
		}{}}
		ctxs[f] = c
		for _, b := range f.Blocks {
			for _, in := range b.Instrs {
				switch x := in.(type) {
				case *ssa.Store:
					c.stored[base(x.Addr)] = append(c.stored[base(x.Addr)], x.Val)
				case ssa.CallInstruction:
					cc := x.Common()
					callee := cc.StaticCallee()
					if bi, ok := cc.Value.(*ssa.Builtin); ok && bi.Name() == "copy" {
						continue // copy(dst, src) copies elements: no derivation
					}
					if !inMod(callee) {
						continue
					}
					for i, a := range cc.Args {
						b := base(a)
						c.outArg[b] = append(c.outArg[b], struct {
							callee *ssa.Function
							idx    int
							args   []ssa.Value
						}{callee, i, cc.Args})
					}
				}
			}
		}
	}
	for changed := true; changed; {
		changed = false
		for _, f := range fns {
			c, sm := ctxs[f], sums[f]
			// results
			for _, b := range f.Blocks {
				for _, in := range b.Instrs {
					if r, ok := in.(*ssa.Return); ok {
						// the property speaks of values a parser ACCEPTS: a return whose error result is
						// certainly non-nil (built on the spot by another module's error constructor)
						// hands out no accepted value
						if n := len(r.Results); n > 0 && isErrorType(r.Results[n-1].Type()) && certainlyError(r.Results[n-1]) {
							continue
						}
						for i, v := range r.Results {
							if i < len(sm.ret) && pointerish(v.Type()) {
								if sm.ret[i].add(c.roots(v, map[ssa.Value]bool{})) {
									changed = true
								}
							}
						}
					}
				}
			}
			// stores through parameters: directly, or by passing (part of) the parameter on to a callee
			for i, p := range f.Params {
				if !pointerish(p.Type()) {
					continue
				}
				rs := rootset{}
				for addr, vals := range c.stored {
					if !c.roots(addr, map[ssa.Value]bool{})[i] {
						continue
					}
					for _, v := range vals {
						if pointerish(v.Type()) {
							rs.add(c.roots(v, map[ssa.Value]bool{}))
						}
					}
				}
				for addr, outs := range c.outArg {
					if !c.roots(addr, map[ssa.Value]bool{})[i] {
						continue
					}
					for _, oa := range outs {
						cs := sums[oa.callee]
						if cs == nil {
							continue
						}
						for j := range cs.stores[oa.idx] {
							if j < len(oa.args) {
								rs.add(c.roots(oa.args[j], map[ssa.Value]bool{}))
							}
						}
					}
				}
				if sm.stores[i] == nil {
					sm.stores[i] = rootset{}
				}
				if sm.stores[i].add(rs) {
					changed = true
				}
			}
		}
	}
	var sb strings.Builder
	sb.WriteString("(* GENERATED by /verif/translator/aliases from the Go source (go/ssa); do not edit. *)\nFrom Coq Require Import List String Bool.\nImport ListNotations.\nOpen Scope string_scope.\n\n")
	sb.WriteString("(* every exported function whose first parameter is a byte slice: may its first result share\n   memory with that argument? *)\nDefinition alias_summary : list (string * bool) := [\n")
	var rows []string
	for _, f := range fns {
		obj, ok := f.Object().(*types.Func)
		if !ok || !obj.Exported() || f.Signature.Recv() != nil || f.Synthetic != "" || len(f.Params) == 0 {
			continue
		}
		sl, ok := f.Params[0].Type().(*types.Slice)
		if !ok {
			continue
		}
		if b, ok := sl.Elem().(*types.Basic); !ok || b.Kind() != types.Uint8 {
			continue
		}
		if len(sums[f].ret) == 0 {
			continue
		}
		name := f.Pkg.Pkg.Name() + "." + f.Name()
		rows = append(rows, fmt.Sprintf("  (%q, %v)", name, sums[f].ret[0][0]))
	}
	sb.WriteString(strings.Join(rows, ";\n"))
	sb.WriteString("\n].\n")
	old, err := os.ReadFile(*out)
	if err == nil && string(old) == sb.String() {
		return
	}
	if err := os.WriteFile(*out, []byte(sb.String()), 0o644); err != nil {
		fmt.Fprintln(os.Stderr, "aliases:", err)
		os.Exit(2)
	}
}
