#!/usr/bin/env python3
# generates coq/Model/Entries.v and harness/entries_gen.go from entries.txt
import os,sys
root=os.path.dirname(os.path.dirname(os.path.abspath(__file__)))
ents=[]
for l in open(os.path.join(root,'entries.txt')):
    l=l.split('#')[0].strip()
    if not l: continue
    n,i=l.split(); ents.append((n,int(i)))
assert len(set(i for _,i in ents))==len(ents), "duplicate id"
assert len(set(n for n,_ in ents))==len(ents), "duplicate name"
def wr(p,s):
    if os.path.exists(p) and open(p).read()==s: return
    open(p,'w').write(s)
v="(* GENERATED from /verif/entries.txt *)\nFrom Coq Require Import NArith.\nOpen Scope N_scope.\n"+"".join(f"Definition E_{n} : N := {i}.\n" for n,i in ents)
wr(os.path.join(root,'coq/Model/Entries.v'),v)
g="// GENERATED from /verif/entries.txt\npackage main\n\nconst (\n"+"".join(f"\tE_{n} = {i}\n" for n,i in ents)+")\n\nvar entryNames = map[int]string{\n"+"".join(f"\t{i}: \"{n}\",\n" for n,i in ents)+"}\n"
wr(os.path.join(root,'harness/entries_gen.go'),g)
