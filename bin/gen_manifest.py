#!/usr/bin/env python3
# writes MANIFEST.json from the table below (kept in one place so it is always valid)
import json, os
ROOT = os.path.dirname(os.path.dirname(os.path.abspath(__file__)))
NOTE_COMMON = ("Trusted: Coq 8.16.1 kernel (+vm_compute), the Go->Coq translator for constants/tables, "
               "ExtrOcamlBasic extraction + OCaml driver (cross-checked by an in-Coq sample), the Go harness. "
               "The hand-written model is tied to the code by differential correspondence on generated cases, not by proof. ")
CLAIMED = {
 "C12": dict(
   text="Theorems (Props/C12.v) over the Gallina model of package data: encode/decode inverse for every width 1..8 and every value, rejection of out-of-domain arguments, fixed-width helpers, millisecond dates for every int64 >= 0, strings of every length <= 255 with any remainder, short-input behaviour of every reader, full 64-bit range of UintSafe. Unbounded quantifiers, kernel-checked; model tied to /repo by the regenerated constants and by running model and implementation on the same ~59k cases.",
   design="8/C12", technique="Coq proof over executable model + differential correspondence (extracted OCaml and in-Coq vm_compute) + translator-regenerated constants",
   note=NOTE_COMMON + "Go time.Unix/UnixMilli arithmetic is modelled (int64 wrap explicit), not verified."),
}
PENDING = {}
props = [json.loads(l) for l in open(os.path.join(ROOT, "properties.jsonl"))]
checks, na = [], []
for p in props:
    i = p["id"]
    if i in CLAIMED:
        c = CLAIMED[i]
        checks.append({
            "property_id": i,
            "quick_cmd": f"bin/check {i} quick",
            "thorough_cmd": f"bin/check {i} thorough",
            "evidence_file": f"evidence/{i}.json",
            "replay_cmd_template": f"bin/check {i} --replay {{path}}",
            "engine": "coq-model+correspondence",
            "level_claimed": {"category": "proof", "text": c["text"], "design_ref": c["design"]},
            "level_note": c["note"],
            "technique": c["technique"],
        })
    else:
        na.append({"property_id": i, "reason": PENDING.get(i, "not yet claimed: the model and theorems for this property are still being built (see DESIGN.md section 8); nothing about the technique makes it inapplicable")})
m = {
 "version": 1,
 "setup_cmd": "bin/setup",
 "hooks": {"guard": "verif", "enable": "go build -tags verif (no source hooks are currently needed; only the exported API is used)",
           "baseline_off_cmd": "cd /repo && GOFLAGS=-mod=mod GOPROXY=off go test -vet=off -count=1 ./...",
           "source_commits": [], "add_only": True},
 "engines": [{"name": "coq-model+correspondence", "path": "coq/ harness/ translator/ ocaml/ bin/check",
              "serves_properties": [c["property_id"] for c in checks],
              "kind_free_text": "Gallina model + theorems (Coq 8.16.1), regenerated tables, differential correspondence against the Go implementation"}],
 "checks": checks,
 "not_applicable": na,
 "notes": "See DESIGN.md. KNOWN_FINDINGS.json lists recorded findings and fixed defects.",
}
json.dump(m, open(os.path.join(ROOT, "MANIFEST.json"), "w"), indent=1)
print("claimed:", [c["property_id"] for c in checks])
