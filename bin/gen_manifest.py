#!/usr/bin/env python3
# writes MANIFEST.json from the table below (kept in one place so it is always valid)
import json, os
ROOT = os.path.dirname(os.path.dirname(os.path.abspath(__file__)))
NOTE_COMMON = ("Trusted: Coq 8.16.1 kernel (+vm_compute), the Go->Coq translator for constants/tables, "
               "ExtrOcamlBasic extraction + OCaml driver (cross-checked by an in-Coq sample), the Go harness. "
               "The hand-written model is tied to the code by differential correspondence on generated cases, not by proof. ")
CLAIMED = {
 "C01": dict(
   text="Theorems (Props/C01.v): serialise(parse x) ++ remainder = x for certificate, key certificate, keys-and-cert, destination, router identity (every accepted input, every key-type pair, any certificate excess), signature (every type code), offline signature, every fixed-size structure, strings, EncryptedLeaseSet, LeaseSet (prefix: the reader returns no remainder); and for mapping, RouterAddress, RouterInfo, LeaseSet2 and MetaLeaseSet exactly up to the slack the mapping parser leaves inside a declared size: exists b n, Bytes = b, |x| = |b| + n + |r|, and b ++ r = x iff n = 0. All 24 parsers are additionally run against the implementation on well-formed, appended, truncated, mutated and raw inputs with the oracle Bytes()++rem==input.",
   design="8/C01", technique="Coq proof over executable model + differential correspondence + implementation-side round-trip oracle",
   note=NOTE_COMMON + "Known finding D2 (mapping slack) is reported as KNOWN-FINDING; its exact extent is the n of the theorems above."),
 "C02": dict(
   text="Theorems (Props/C02.v): encoders written from the I2P common-structures specification text (Spec/Wire.v, independent of the model's own serialisers) are accepted by the model's parsers followed by arbitrary trailing bytes, consume exactly the encoding and expose exactly the encoded fields: certificate (every type and payload length), key certificate, the 384-byte identity block for all 30 supported (signing, encryption) type pairs (encryption key at the start, signing key at the end, padding between), signature (every type), offline signature, Lease, Lease2. The harness carries a second, independently written Go spec encoder and spec decoder: spec-encoded Destination/RouterIdentity/LeaseSet/LeaseSet2/Meta/Encrypted/RouterAddress/RouterInfo/Mapping values are parsed by the library and compared field by field, and values built with the library's constructors are serialised and decoded by the spec decoder.",
   design="8/C02", technique="Coq proof that the model's parsers accept independent spec encoders + differential correspondence + spec encoder/decoder oracle on the implementation",
   note=NOTE_COMMON + "The specification itself is transcribed by hand twice (Spec/Wire.v, harness/spec.go); composite structures (LeaseSet, LeaseSet2, RouterInfo) are covered at the correspondence/oracle level, the theorems cover the leaf and identity layouts."),
 "C03": dict(
   text="Theorems (Props/C03.v): append-invariance implies prefix-freeness for every parser (general lemma, also in the relational form for values that keep a view of trailing bytes); append-invariance and prefix-freeness for fixed-size parsers, signature (all type codes), certificate, key certificate, keys-and-cert, destination, router identity, offline signature, string, mapping, RouterAddress, EncryptedLeaseSet (exactly), LeaseSet2, MetaLeaseSet, RouterInfo (identity up to its certificate's view of trailing bytes), LeaseSet (ignores what follows the signature). All 24 parsers are run on w, w++tail and every/many cut points of w with the property as oracle.",
   design="8/C03", technique="Coq proof (framing lemmas) over executable model + differential correspondence + framing oracle on the implementation",
   note=NOTE_COMMON + "Known finding D6 (whole-input minimum-size guards) is reported as KNOWN-FINDING."),
 "C04": dict(
   text="Theorems (Props/C04.v): the model's only sources of Panic are the slice/index primitives, and NO modelled parser can reach one, for any bytes (byte values not even assumed < 256) and every integer type code: fixed-size, integer, string, certificate, key certificate, keys-and-cert, destination, router identity, signature, offline signature, RouterAddress, RouterInfo, LeaseSet, LeaseSet2, MetaLeaseSet, EncryptedLeaseSet; size lookups never return negative or huge sizes; the mapping loop never exhausts its fuel and every continuing iteration consumes a byte. Every parser is additionally executed under recover() with a deadline on generated/mutated/raw inputs and all 65,536 type codes, and every exported argument-free method of every accepted value is invoked by reflection.",
   design="8/C04", technique="Coq proof (typed partiality) over executable model + three-valued correspondence + reflection sweep",
   note=NOTE_COMMON + "Go runtime behaviour outside the slice/index discipline (allocation, stack, logger) is not modelled; wall-clock bound is checked by deadline only."),
 "C05": dict(
   text="Theorems (Props/C05.v), for an ARBITRARY signature scheme: a reported success of LeaseSet2/MetaLeaseSet/EncryptedLeaseSet/LeaseSet/RouterInfo/OfflineSignature verification implies a valid signature under the contained identity's (or blinded) key over prefix||serialisation-minus-signature, and, when a transient key signs, additionally a valid offline signature under the identity key over expires||type||transient key. The model emits the verification queries each Verify makes; on ~1,800 authentic/forged/mutated structures built and signed by the harness with crypto/ed25519 the queries are answered independently and the conjunction compared with the library's verdict; the soundness oracle re-verifies over the raw received bytes.",
   design="8/C05", technique="Coq proof over a verification-query model (scheme abstract) + query-level correspondence answered by independent Ed25519 + raw-bytes authenticity oracle",
   note=NOTE_COMMON + "Unforgeability is not claimed: 'flipping a bit turns success into failure' holds only under the scheme's unforgeability. 'Over exactly the bytes parsed from' is a theorem (C05_*_over_received_bytes) for every parsed structure whose re-serialisation reproduces the consumed bytes (C01: always for LeaseSet/EncryptedLeaseSet, otherwise iff no mapping slack). Only Ed25519-family keys are exercised with valid signatures; DSA/ECDSA only with random signatures. Known finding D2 reported as KNOWN-FINDING."),
 "C06": dict(
   text="Theorems (Props/C06.v): for any scheme satisfying verify(pub sk, m, sign(sk,m)), an EncryptedLeaseSet, an OfflineSignature, a RouterInfo and a LeaseSet signed as the library signs them (serialisation without the signature, under the identity's key) verify; verification is a function of the serialisation, the identity key and the signature only, so C01 carries it over the wire. RouterInfo, LeaseSet, EncryptedLeaseSet (with/without offline keys) and OfflineSignature (every transient key type) are built with the library's signing constructors from generated admissible arguments and verified before and after serialise+parse.",
   design="8/C06", technique="Coq proof (sign-then-verify under the scheme's correctness law) + constructor/verify/wire oracle on the implementation",
   note=NOTE_COMMON + "Known finding D7 (NewLeaseSet2 placeholder signature) reported as KNOWN-FINDING. A router without addresses is refused by NewRouterInfo (as RouterInfo.Validate requires, C14) and produces nothing C06 speaks about."),
 "C07": dict(
   text="Theorems (Props/C07.v): the base32 address of a 32-byte hash is the unpadded I2P base32 of the hash followed by the suffix, has 60 characters, decodes back to the hash and is therefore injective; the base64 form of a parsed identity decodes to exactly the consumed wire bytes and is injective; two identities compare equal exactly when their serialisations are equal, and two accepted identities serialise equally iff their consumed bytes are equal. On generated identities of every destination/router key-type pair Hash/IdentHash are compared with crypto/sha256 of the input bytes, the address with an independent bit-level base32, and single-byte differences in key, padding and certificate regions must change Equals, hash and address.",
   design="8/C07", technique="Coq proof over executable model (hash external) + differential correspondence + independent SHA-256/base32 oracle",
   note=NOTE_COMMON + "SHA-256 is external (an input of the model's address function); injectivity of hash/address is up to SHA-256 collisions."),
 "C08": dict(
   text="PARTIAL. Theorems (Props/C08.v) over the provenance model (Model/Heap.v: each parsed field is a fresh copy or a view into the input): values whose fields are all fresh report the same bytes whatever is later written to the buffer; every structure named by the property is predicted to keep no view; for LeaseSet2 only the options mapping can follow the buffer. The correspondence parses from a real buffer, snapshots every argument-free accessor, overwrites the buffer (invert / 0xFF / random) and snapshots again; the model's prediction of which serialisations change is compared for all 24 parsers, incl. every supported key-type pair with non-zero padding; slices returned by accessors documented as copies are overwritten too.",
   design="8/C08", technique="Coq proof over a provenance (copy-vs-view) model + buffer-overwrite correspondence against the implementation",
   note=NOTE_COMMON + "Partial: Go's memory model is represented only by the provenance abstraction written from the code; the tie is the buffer-overwrite correspondence."),
 "C09": dict(
   text="Theorems (Props/C09.v): for EVERY integer code the library's deny sets (regenerated from the Go source) equal the specification's; every Destination/RouterIdentity returned by the readers/constructors, called directly or embedded in the parsing of LeaseSet, LeaseSet2, MetaLeaseSet and RouterInfo, carries only permitted types; permitted types are never denied. All known codes x all known codes (plus sampled unknown codes) are pushed through every API path that yields a Destination or RouterIdentity.",
   design="8/C09", technique="Coq proof by reflection over translator-regenerated deny tables + exhaustive path sweep",
   note=NOTE_COMMON),
 "C10": dict(
   text="Theorems (Props/C10.v): for every integer code all size lookups regenerated from the Go source agree with each other and with the specification's table written independently in Coq; for all 30 supported type pairs the parser puts the encryption key at the start of the 384-byte block, the signing key at its end, the padding exactly between, with declared sizes equal to the returned key lengths, and the serialiser lays the block out the same way. Translation validation: the Go lookups are called on all 65,536 codes (key-certificate methods also with independent partner codes) and compared with the regenerated tables.",
   design="8/C10", technique="Coq proof by reflection over translator-regenerated tables + exhaustive translation validation",
   note=NOTE_COMMON),
 "C11": dict(
   text="Theorems (Props/C11.v): GoMapToMapping followed by ReadMapping returns exactly the serialised pairs with NO errors for every association list with distinct keys the constructor accepts (strings up to 255 bytes incl. '=' and ';', empty values, one-byte keys, up to 1000 pairs, up to 65,535 bytes); the encoding is sorted by key and a permutation of the input; the size field equals the number of bytes that follow; the parser inverts the serialiser on every valid pair list followed by anything; over-limit inputs are rejected; an error-free parse re-serialises to its input iff the declared size holds no slack (and the refutation witness for the slack case); the parser terminates.",
   design="8/C11", technique="Coq proof (sorting, size field, rejection) + differential correspondence + round-trip/canonicity oracle",
   note=NOTE_COMMON + "Known finding D2 reported as KNOWN-FINDING (C11_reserialise_refuted is its witness inside Coq)."),
 "C12": dict(
   text="Theorems (Props/C12.v) over the Gallina model of package data: encode/decode inverse for every width 1..8 and every value, rejection of out-of-domain arguments, fixed-width helpers, millisecond dates for every int64 >= 0, strings of every length <= 255 with any remainder, short-input behaviour of every reader, full 64-bit range of UintSafe. Unbounded quantifiers, kernel-checked; model tied to /repo by the regenerated constants and by running model and implementation on the same ~59k cases.",
   design="8/C12", technique="Coq proof over executable model + differential correspondence (extracted OCaml and in-Coq vm_compute) + translator-regenerated constants",
   note=NOTE_COMMON + "Go time.Unix/UnixMilli arithmetic is modelled (int64 wrap explicit), not verified."),
 "C13": dict(
   text="Theorems (Props/C13.v): decode(encode x) = x for EVERY byte string, for base64, padded base32 (through DecodeString incl. its padding pre-check) and unpadded base32; padded = unpadded ++ '='...; length formula; output uses alphabet characters only; only alphabet characters decode; data after base32 padding is rejected; size-guarded variants reject empty and oversize input exactly at the limits. The decoders are modelled after encoding/base32|base64's control flow; model and implementation agree on ~97k cases incl. every byte value at every position of short encodings and line breaks interleaved with padding; encoders are compared with an independent bit-level encoder, exhaustively for inputs of length <= 2.",
   design="8/C13", technique="Coq proof (arithmetic group codec, alphabet reflection, guards) + differential correspondence + independent bit-level encoder oracle",
   note=NOTE_COMMON + "Go's stdlib codecs are modelled, not verified. A truncated unpadded base32 quantum (1, 3 or 6 characters) is dropped silently by the stdlib and accepted (documented)."),
 "C14": dict(
   text="Theorems (Props/C14.v): Signature, OfflineSignature (incl. parse back), KeysAndCert (full chain: validates, serialises, parses back with any trailing bytes to the same keys, padding and bytes, for every key-type pair the reader supports), Certificate and Mapping constructors; each documented size/type defect is rejected by constructor and validator alike; the three recorded gaps are *_refuted theorems with their witnesses. The structural validators and constructor checks of LeaseSet2, EncryptedLeaseSet, OfflineSignature and Signature are REGENERATED from the Go function bodies on every run (coq/Gen/Validators.v, translator/validators.go): constructor checks => Validate and every documented defect refused by both are theorems over the regenerated definitions, and the model's validators are proved equal to them. Every structure with a constructor and a Validate method is exercised with valid tuples and every single-defect variant, KeysAndCert over every KNOWN (not only supported) type pair with and without excess key-certificate payload.",
   design="8/C14", technique="Coq proof over executable constructor/validator model + differential correspondence + constructor/validate/round-trip oracle",
   note=NOTE_COMMON + "Time-dependent expiry checks excluded. Known findings D11 (nil keys), D21 (zero expires) and D22 (key types the reader cannot construct) are reported as KNOWN-FINDING; D16 and D17 were fixed."),
 "C15": dict(
   text="Theorems (Props/C15.v): published+expires exact for all 2^32 x 2^16 field values (Go's int64 Duration arithmetic modelled explicitly, no wrap); Lease / Lease2 / OfflineSignature / meta-entry conversions exact; NewLease2 stores in-range times exactly and rejects all others; newest/oldest expiration are members bounding all other leases; expired iff strictly past.",
   design="8/C15", technique="Coq proof (integer arithmetic with explicit int64 wrap) + differential correspondence + exactness oracle",
   note=NOTE_COMMON + "time.Time internals are modelled by (sec,nsec) arithmetic; IsExpired is checked against the wall clock at +-1 day only."),
 "C17": dict(
   text="Theorems (Props/C17.v): the validity helpers agree with the accessors; Host() succeeds only when the host option's content parses as an IP literal (model of net.ParseIP incl. the full IPv6 grammar, zones rejected); an IPv4 literal consists of digits and dots only; Port() returns the canonical decimal form of a number in 1..65535; IPVersion is the family of the returned address; option lookup returns the value of the first pair whose key content equals the requested key; StaticKey/IV have exactly 32/16 bytes. Hosts from literals, hostnames, zones, ports, whitespace; ports decimal/signed/padded/overflowing/non-numeric; prefix/extension keys; constructor and parser paths; compared with netip.ParseAddr as an independent reference.",
   design="8/C17", technique="Coq proof over executable model of net.ParseIP/strconv.Atoi + differential correspondence + independent reference oracle",
   note=NOTE_COMMON + "net.ParseIP / strconv.Atoi are modelled, not verified."),
 "C16": dict(
   text="PARTIAL. Theorems (Props/C16.v), with the primitives as parameters and their laws as explicit premises (DH agreement, AEAD correctness, key length): decrypt(encrypt x) = x for the library's layout eph(32)||nonce(12)||ct||tag(16); the four parts partition the data, so every byte is an input of the key agreement or the AEAD; short data is an error; the blinding date is a function of the UTC calendar day only and distinct days give distinct dates (exhaustive over all 49,711 days of the 32-bit range, bound stated). Harness: library encrypt -> library decrypt and an independent decryptor using the model's offsets; every/many single-byte ciphertext modifications and wrong keys must fail; blinding at instants either side of UTC midnight in seven locations (west and east of UTC) must use the UTC day, keep the other fields, be deterministic and pass/fail the library's own check.",
   design="8/C16", technique="Coq proof with abstract primitives (laws as premises) + layout correspondence via an independent decryptor + blinding oracle",
   note=NOTE_COMMON + "Partial: cryptographic strength (INT-CTXT, blinding injectivity) is a premise, not proved; 'any modified byte yields an error' holds under AEAD integrity."),
 "C18": dict(
   text="PARTIAL. Theorems (Props/C18.v): (general, by induction on the schedule) threads that never write shared state see under every interleaving exactly what they see alone and leave the heap unchanged; (per operation) every potential shared-write site reachable, through the module's static call graph regenerated from the Go source by a go/ssa scan on every run, from any exported method that is not a mutator is one of the reviewed sites. Harness: for every read-only call on parsed/constructed values a deep snapshot of everything reachable from the receiver (unexported fields and spare slice capacity included) and of the package tables must be unchanged; six goroutines run all read-only calls on one shared value, results compared with sequential ones, and the same run is repeated under Go's race detector.",
   design="8/C18", technique="Coq proof (interleaving non-interference) over an SSA effect summary regenerated from source + frame check + race-detector run",
   note=NOTE_COMMON + "Partial: the effect summary is a static over-approximation and the reviewed-site list (Model/EffectsReviewed.v) is trusted; Go's memory model is abstracted to sequentially consistent atomic steps; the scheduler is not modelled."),
 "C19": dict(
   text="Theorems (Props/C19.v): integer constructors identical; exact-length signature constructor accepts exactly what the reader consumes completely (all type codes); destination/router-identity readers are the generic reader plus filter; key certificate from bytes = from certificate after ReadCertificate; both key-type-specific keys-and-cert readers accept exactly the inputs on which the generic reader returns a value declaring their key sizes, with the same value and remainder. ~25 pairs of entry points are run on the same generated/mutated inputs (key certificates with and without excess payload) and compared (acceptance, serialisation, remainder).",
   design="8/C19", technique="Coq proof over executable model + pairwise differential oracle on the implementation",
   note=NOTE_COMMON),
 "C20": dict(
   text="Theorems (Props/C20.v): for the zero value of every modelled structure no serialiser or accessor reaches a Panic primitive, and NO Verify asks a single query of the signature scheme, so a zero value never verifies whatever the scheme. Exhaustive by reflection: every exported argument-free method of the zero value of every exported named type (the list is regenerated from the Go source on each run), and the same methods on the value each of 23 parsers returns together with an error, at every/many truncation points and for field mutations of well-formed encodings; none may panic, no Verify may succeed.",
   design="8/C20", technique="Coq proof over zero values of the model + exhaustive reflection sweep over a type list regenerated from the source",
   note=NOTE_COMMON + "A nil pointer returned together with an error is Go's 'no value' and is not touched (DESIGN.md C20). Partial values are covered by the sweep, not by the model (the model's parsers return no partial value)."),
}
PENDING = {}
props = [json.loads(l) for l in open(os.path.join(ROOT, "properties.jsonl"))]
checks, na = [], []
for p in props:
    i = p["id"]
    if i in CLAIMED:
        c = CLAIMED[i]
        checks.append({
            "property_id": i,
            "quick_cmd": f"bin/check {i} quick",
            "thorough_cmd": f"bin/check {i} thorough",
            "evidence_file": f"evidence/{i}.json",
            "replay_cmd_template": f"bin/check {i} --replay {{path}}",
            "engine": "coq-model+correspondence",
            "level_claimed": {"category": "proof", "text": c["text"], "design_ref": c["design"]},
            "level_note": c["note"],
            "technique": c["technique"],
        })
    else:
        na.append({"property_id": i, "reason": PENDING.get(i, "not yet claimed: the model and theorems for this property are still being built (see DESIGN.md section 8); nothing about the technique makes it inapplicable")})
m = {
 "version": 1,
 "setup_cmd": "bin/setup",
 "hooks": {"guard": "verif", "enable": "go build -tags verif (no source hooks are currently needed; only the exported API is used)",
           "baseline_off_cmd": "cd /repo && GOFLAGS=-mod=mod GOPROXY=off go test -vet=off -count=1 ./...",
           "source_commits": [], "add_only": True},
 "engines": [{"name": "coq-model+correspondence", "path": "coq/ harness/ translator/ ocaml/ bin/check",
              "serves_properties": [c["property_id"] for c in checks],
              "kind_free_text": "Gallina model + theorems (Coq 8.16.1), regenerated tables, differential correspondence against the Go implementation"}],
 "checks": checks,
 "not_applicable": na,
 "notes": "See DESIGN.md. KNOWN_FINDINGS.json lists recorded findings and fixed defects.",
}
json.dump(m, open(os.path.join(ROOT, "MANIFEST.json"), "w"), indent=1)
print("claimed:", [c["property_id"] for c in checks])
