(* driver.ml — runs the extracted Coq model on a case file.
   input  line: <entry id> <hex|-> ...      output line: ok <hex|-> ... | err | panic *)
open Model

let rec pos_of_int (i : int) : positive =
  if i = 1 then XH else if i land 1 = 1 then XI (pos_of_int (i lsr 1)) else XO (pos_of_int (i lsr 1))
let n_of_int (i : int) : n = if i = 0 then N0 else Npos (pos_of_int i)
let rec int_of_pos (p : positive) : int =
  match p with XH -> 1 | XO q -> 2 * int_of_pos q | XI q -> 2 * int_of_pos q + 1
let int_of_n (x : n) : int = match x with N0 -> 0 | Npos p -> int_of_pos p

let bytes_of_hex (s : string) : n list =
  if s = "-" then [] else begin
    let l = String.length s / 2 in
    let rec go i acc = if i < 0 then acc else go (i - 1) (n_of_int (int_of_string ("0x" ^ String.sub s (2 * i) 2)) :: acc) in
    go (l - 1) []
  end
let hex_of_bytes (b : n list) : string =
  if b = [] then "-" else begin
    let buf = Buffer.create 64 in
    List.iter (fun x -> Buffer.add_string buf (Printf.sprintf "%02x" (int_of_n x land 255))) b;
    (* a model byte outside 0..255 would be a model bug: make it visible *)
    if List.exists (fun x -> int_of_n x > 255) b then Buffer.add_string buf "!";
    Buffer.contents buf
  end

let () =
  let ic = if Array.length Sys.argv > 1 then open_in Sys.argv.(1) else stdin in
  let oc = if Array.length Sys.argv > 2 then open_out Sys.argv.(2) else stdout in
  (try
     while true do
       let line = input_line ic in
       match String.split_on_char ' ' (String.trim line) with
       | [] | [ "" ] -> output_string oc "\n"
       | id :: args ->
           let r = run (n_of_int (int_of_string id)) (List.map bytes_of_hex args) in
           (match r with
            | Ok outs -> output_string oc ("ok" ^ String.concat "" (List.map (fun b -> " " ^ hex_of_bytes b) outs) ^ "\n")
            | Err -> output_string oc "err\n"
            | Panic -> output_string oc "panic\n")
     done
   with End_of_file -> ());
  close_out oc
