(* C13 — I2P base32/base64: decode(encode x) = x and only the I2P alphabet is accepted. *)
From Model Require Import Bytes Prim Base.
From Gen Require Import Consts.
From Proofs Require Import BytesLemmas BaseProofs BaseRT.
Open Scope N_scope.

(* decode (encode x) = x, for EVERY byte string: base64, padded base32 (through the library's
   DecodeString with its padding pre-check) and unpadded base32 (DecodeStringNoPadding) *)
Theorem C13_base64_roundtrip : forall x, wf x -> b64_decode (b64_encode x) = Ok x.
Proof. exact b64_decode_encode. Qed.
Print Assumptions C13_base64_roundtrip.
Theorem C13_base32_roundtrip : forall x, wf x -> b32_decode_string (b32_encode true x) = Ok x.
Proof. exact b32_decode_string_encode. Qed.
Theorem C13_base32_unpadded_roundtrip : forall x, wf x -> b32_decode_nopad (b32_encode false x) = Ok x.
Proof. exact b32_decode_nopad_encode. Qed.
Print Assumptions C13_base32_unpadded_roundtrip.
(* the unpadded form is the padded form without its '=' characters; its length is
   8*floor(n/5) + {0,2,4,5,7}[n mod 5]; it contains alphabet characters only *)
Theorem C13_base32_padding_only_at_end : forall x,
  b32_encode true x = b32_encode false x ++ repeatN PAD (pads32 (length x)).
Proof. intros x. apply b32_encode_pad_split. auto. Qed.
Theorem C13_base32_unpadded_length : forall x,
  length (b32_encode false x) = (8 * (length x / 5) + chars32 (length x mod 5))%nat.
Proof. intros x. apply b32_encode_nopad_length. auto. Qed.
Theorem C13_base32_output_alphabet : forall x, wf x ->
  Forall (fun c => is_newline c = false /\ c <> PAD /\ c < 128) (b32_encode false x).
Proof. intros x W. apply b32_encode_nopad_clean. exact W. Qed.
Example C13_roundtrip_nonvacuous : b64_encode [1; 2; 3; 4] = [65; 81; 73; 68; 66; 65; 61; 61] /\
  b32_encode true [255] = [55; 52; 61; 61; 61; 61; 61; 61].
Proof. vm_compute. auto. Qed.

(* a group of bytes is one number written in base 32 / 64: digits and value are inverse *)
Theorem C13_digits_inverse : forall b k v, 1 < b -> undigits b (digits b k v) = v mod b ^ N.of_nat k.
Proof. exact undigits_digits. Qed.
Print Assumptions C13_digits_inverse.
Theorem C13_base64_group_roundtrip : forall g, length g = 3%nat -> wf g ->
  quantum64_bytes (digits 64 4 (be_decode g)) = g.
Proof. exact quantum64_full. Qed.
Theorem C13_base32_group_roundtrip : forall g, length g = 5%nat -> wf g ->
  quantum32_bytes (digits 32 8 (be_decode g)) = g.
Proof. exact quantum32_full. Qed.
Print Assumptions C13_base32_group_roundtrip.
(* every digit has its own character, and it decodes back *)
Theorem C13_alphabet64_inverse : forall d, d < 64 -> dec64 (chr alpha64 d) = Some d.
Proof. exact dec64_chr. Qed.
Theorem C13_alphabet32_inverse : forall d, d < 32 -> dec32 (chr alpha32 d) = Some d.
Proof. exact dec32_chr. Qed.
(* only alphabet characters carry data *)
Theorem C13_only_alphabet64 : forall c d, dec64 c = Some d -> In c alpha64.
Proof. exact dec64_only_alphabet. Qed.
Theorem C13_only_alphabet32 : forall c d, dec32 c = Some d -> In c alpha32.
Proof. exact dec32_only_alphabet. Qed.
(* anything but padding after the padding is rejected (padded base32) *)
Theorem C13_base32_data_after_padding_rejected : forall a b c, is_newline c = false -> c <> PAD ->
  b32_decode_string (a ++ [PAD] ++ b ++ [c]) = Err.
Proof. exact b32_data_after_padding_rejected. Qed.
Print Assumptions C13_base32_data_after_padding_rejected.
(* size-guarded variants reject empty and oversize input exactly at the documented limits *)
Theorem C13_safe_empty : b32_encode_safe [] = Err /\ b32_decode_safe [] = Err /\ b32_decode_safe_nopad [] = Err /\ b64_decode_safe [] = Err.
Proof. exact b32_safe_empty. Qed.
Theorem C13_safe_encode_oversize : forall x, (Z.of_nat (length x) > c_base32_MAX_ENCODE_SIZE)%Z -> b32_encode_safe x = Err.
Proof. exact b32_encode_safe_limit. Qed.
Theorem C13_safe_encode_within : forall x, x <> [] -> (Z.of_nat (length x) <= c_base32_MAX_ENCODE_SIZE)%Z ->
  b32_encode_safe x = Ok (b32_encode true x).
Proof. exact b32_encode_safe_within. Qed.
Theorem C13_safe_decode_oversize : forall s, (Z.of_nat (length s) > c_base32_MAX_DECODE_SIZE)%Z ->
  b32_decode_safe s = Err /\ b32_decode_safe_nopad s = Err.
Proof. exact b32_decode_safe_limit. Qed.
Theorem C13_safe_decode_within : forall s, s <> [] -> (Z.of_nat (length s) <= c_base32_MAX_DECODE_SIZE)%Z ->
  b32_decode_safe s = b32_decode_string s /\ b32_decode_safe_nopad s = b32_decode_nopad s.
Proof. exact b32_decode_safe_within. Qed.
Theorem C13_safe_decode64_oversize : forall s, (Z.of_nat (length s) > c_base64_MAX_DECODE_SIZE)%Z -> b64_decode_safe s = Err.
Proof. exact b64_decode_safe_limit. Qed.
Example C13_nonvacuous :
  b32_encode true [97] = [109; 101; 61; 61; 61; 61; 61; 61] /\ b32_decode_string [109; 101; 61; 61; 61; 61; 61; 61] = Ok [97]
  /\ b32_decode_string [109; 101; 61; 61; 61; 61; 61; 61; 97] = Err /\ b64_decode (b64_encode [1; 2; 3; 4]) = Ok [1; 2; 3; 4]
  /\ b32_decode_nopad [109; 101; 255; 255; 255; 255; 255; 255] = Err.
Proof. vm_compute. repeat split; reflexivity. Qed.

(* the whole-string round trip for every byte string (being proved; decided meanwhile by
   the correspondence and the round-trip oracle, exhaustively for lengths <= 2) *)
Definition C13_roundtrip_statement : Prop :=
  forall x, wf x -> b32_decode_string (b32_encode true x) = Ok x /\ b32_decode_nopad (b32_encode false x) = Ok x
                    /\ b64_decode (b64_encode x) = Ok x.

(* the size guards fit together and are the documented numbers (the constants are regenerated
   from the source): the decoders' limit is the encoded length of the encoders' limit, 10 MiB *)
Theorem C13_size_limits_fit :
  (Gen.Consts.c_base32_MAX_ENCODE_SIZE = 10485760 /\ Gen.Consts.c_base64_MAX_ENCODE_SIZE = 10485760 /\
   Gen.Consts.c_base32_MAX_DECODE_SIZE = ((Gen.Consts.c_base32_MAX_ENCODE_SIZE + 4) / 5) * 8 /\
   Gen.Consts.c_base64_MAX_DECODE_SIZE = ((Gen.Consts.c_base64_MAX_ENCODE_SIZE + 2) / 3) * 4)%Z.
Proof. vm_compute. repeat split; reflexivity. Qed.
