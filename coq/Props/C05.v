(* C05 — successful verification implies authenticity under the identity's own key.
   The signature scheme is arbitrary (a parameter of every theorem): the statements say
   which verifications, with which key over which bytes, a reported success rests on. *)
From Model Require Import Bytes Prim Tables Cert KAC Mapping Sig LS RI Crypto.
From Proofs Require Import BytesLemmas CryptoProofs AuthRT.
Open Scope Z_scope.

(* LeaseSet2 / MetaLeaseSet: a valid signature under the destination's own key over the
   prefixed content, or — when a transient key signs — additionally a valid offline
   signature under the destination's key over (expires || type || transient key) *)
Theorem C05_identity_key_is_root_of_trust : forall verify idkey idtype flags off msg sg,
  verdict verify (final_queries idkey idtype flags off msg sg) = true ->
  exists dk, idkey = Some dk /\
    ((exists a, alg_of_type idtype = Some a /\ verify a dk msg sg = true /\ (off = None \/ has_offline flags = false))
     \/
     (exists o tk a, off = Some o /\ has_offline flags = true /\ off_validate_structure o = true /\
        (verify ALG_ED25519 dk (off_signed_data o) (o_sig o) = true \/
         verify ALG_ED25519PH dk (off_signed_data o) (o_sig o) = true) /\
        construct_signing_by_type (Z.of_N (o_sigtype o)) (o_key o) = Ok tk /\
        alg_of_type (Z.of_N (o_sigtype o)) = Some a /\ verify a tk msg sg = true)).
Proof. exact final_queries_sound. Qed.
Print Assumptions C05_identity_key_is_root_of_trust.

Theorem C05_leaseset2 : forall verify l, verdict verify (ls2_verify_queries l) = true ->
  exists full dk, lease_set2_bytes l = Ok full /\ kac_signing_key (l2_dest l) = Some dk /\
    let msg := 3%N :: drop_last (length (sig_bytes (l2_sig l))) full in
    verdict verify (final_queries (Some dk) (kc_signing_type (k_kc (l2_dest l))) (l2_flags l) (l2_offline l) msg (sig_bytes (l2_sig l))) = true.
Proof. exact ls2_verify_sound. Qed.
Theorem C05_meta_leaseset : forall verify l, verdict verify (meta_verify_queries l) = true ->
  exists full dk, meta_lease_set_bytes l = Ok full /\ kac_signing_key (ml_dest l) = Some dk /\
    let msg := 7%N :: drop_last (length (sig_bytes (ml_sig l))) full in
    verdict verify (final_queries (Some dk) (kc_signing_type (k_kc (ml_dest l))) (ml_flags l) (ml_offline l) msg (sig_bytes (ml_sig l))) = true.
Proof. exact meta_verify_sound. Qed.
Theorem C05_leaseset : forall verify l, verdict verify (ls_verify_queries l) = true ->
  exists full dk a, lease_set_bytes l = Ok full /\ kac_signing_key (ls_dest l) = Some dk /\
    alg_of_type (kc_signing_type (k_kc (ls_dest l))) = Some a /\
    verify a dk (drop_last (length (sig_bytes (ls_sig l))) full) (sig_bytes (ls_sig l)) = true.
Proof. exact ls_verify_sound. Qed.
Theorem C05_router_info : forall verify i, verdict verify (ri_verify_queries i) = true ->
  exists full k, router_info_bytes i = Ok full /\ kac_signing_key (ri_ident i) = Some k /\
    verify ALG_ED25519 k (drop_last (length (sig_bytes (ri_sig i))) full) (sig_bytes (ri_sig i)) = true.
Proof. exact ri_verify_sound. Qed.
Theorem C05_encrypted_leaseset : forall verify l, verdict verify (els_verify_queries l) = true ->
  let msg := 5%N :: els_bytes_without_sig l in
  (exists k a, construct_signing_by_type (Z.of_N (el_sigtype l)) (el_key l) = Ok k /\
               alg_of_type (Z.of_N (el_sigtype l)) = Some a /\ verify a k msg (sig_bytes (el_sig l)) = true /\
               (el_offline l = None \/ has_offline (el_flags l) = false))
  \/
  (exists o tk a, el_offline l = Some o /\ has_offline (el_flags l) = true /\
               (verify ALG_ED25519 (el_key l) (off_signed_data o) (o_sig o) = true \/
                verify ALG_ED25519PH (el_key l) (off_signed_data o) (o_sig o) = true) /\
               construct_signing_by_type (Z.of_N (o_sigtype o)) (o_key o) = Ok tk /\
               alg_of_type (Z.of_N (o_sigtype o)) = Some a /\ verify a tk msg (sig_bytes (el_sig l)) = true).
Proof. exact els_verify_sound. Qed.
Print Assumptions C05_encrypted_leaseset.
Theorem C05_offline_signature : forall o dk q, offline_query o dk = Some q ->
  q_key q = dk /\ q_msg q = be_encode 4 (o_expires o) ++ be_encode 2 (o_sigtype o) ++ o_key o /\ q_sig q = o_sig o
  /\ off_validate_structure o = true.
Proof. exact offline_verify_sound. Qed.
(* a transient key without an offline block authorising it is never used *)
Example C05_nonvacuous_forged_offline_refused :
  final_queries (Some (repeatN 1 32)) 7 1 (Some (mkOff 0 7 (repeatN 2 32) (repeatN 3 64) 7)) [3%N] (repeatN 4 64) = None.
Proof. vm_compute. reflexivity. Qed.

(* "over exactly the bytes it was parsed from": for a PARSED structure whose re-serialisation
   reproduces the consumed bytes — always for LeaseSet and EncryptedLeaseSet; for RouterInfo,
   LeaseSet2 and MetaLeaseSet exactly when no option mapping holds slack (C01, finding D2) —
   the message of the signature query is the received bytes minus the signature *)
Theorem C05_router_info_over_received_bytes : forall verify d i r, wf d -> read_router_info d = Ok (i, r) ->
  verdict verify (ri_verify_queries i) = true ->
  forall b, router_info_bytes i = Ok b -> b ++ r = d ->
  exists k, kac_signing_key (ri_ident i) = Some k /\
            verify ALG_ED25519 k (covered d r (sig_bytes (ri_sig i))) (sig_bytes (ri_sig i)) = true.
Proof. exact router_info_verified_over_wire. Qed.
Theorem C05_leaseset_over_received_bytes : forall verify d l, wf d -> read_lease_set d = Ok l ->
  verdict verify (ls_verify_queries l) = true ->
  exists b r dk a, lease_set_bytes l = Ok b /\ b ++ r = d /\ kac_signing_key (ls_dest l) = Some dk /\
    alg_of_type (kc_signing_type (k_kc (ls_dest l))) = Some a /\
    verify a dk (covered d r (sig_bytes (ls_sig l))) (sig_bytes (ls_sig l)) = true.
Proof. exact lease_set_verified_over_wire. Qed.
Theorem C05_leaseset2_over_received_bytes : forall verify x l r, wf x -> read_lease_set2 x = Ok (l, r) ->
  verdict verify (ls2_verify_queries l) = true ->
  forall b, lease_set2_bytes l = Ok b -> b ++ r = x ->
  exists dk, kac_signing_key (l2_dest l) = Some dk /\
    verdict verify (final_queries (Some dk) (kc_signing_type (k_kc (l2_dest l))) (l2_flags l) (l2_offline l)
                      (3%N :: covered x r (sig_bytes (l2_sig l))) (sig_bytes (l2_sig l))) = true.
Proof. exact lease_set2_verified_over_wire. Qed.
Theorem C05_meta_leaseset_over_received_bytes : forall verify x l r, wf x -> read_meta_lease_set x = Ok (l, r) ->
  verdict verify (meta_verify_queries l) = true ->
  forall b, meta_lease_set_bytes l = Ok b -> b ++ r = x ->
  exists dk, kac_signing_key (ml_dest l) = Some dk /\
    verdict verify (final_queries (Some dk) (kc_signing_type (k_kc (ml_dest l))) (ml_flags l) (ml_offline l)
                      (7%N :: covered x r (sig_bytes (ml_sig l))) (sig_bytes (ml_sig l))) = true.
Proof. exact meta_lease_set_verified_over_wire. Qed.
Theorem C05_encrypted_leaseset_message_is_received_bytes : forall d l r, wf d -> read_encrypted_lease_set d = Ok (l, r) ->
  els_bytes_without_sig l = covered d r (sig_bytes (el_sig l)).
Proof. exact encrypted_leaseset_message_is_wire. Qed.
Print Assumptions C05_meta_leaseset_over_received_bytes.
