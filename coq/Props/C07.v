(* C07 — identity hashes and addresses are pure functions of the identity's wire bytes.
   SHA-256 is external: in the model the hash is an input of the address function. *)
From Model Require Import Bytes Prim Tables Cert KAC Base Addr.
From Proofs Require Import AddrProofs.
Open Scope N_scope.

Theorem C07_equal_iff_same_serialisation : forall a b,
  dest_equals a b = true <-> exists x, kac_bytes a = Ok x /\ kac_bytes b = Ok x.
Proof. exact dest_equals_iff. Qed.
Print Assumptions C07_equal_iff_same_serialisation.
(* the address depends on the identity only through the hash of its bytes *)
Theorem C07_address_is_function_of_hash : forall h1 h2, h1 = h2 -> base32_address h1 = base32_address h2.
Proof. intros h1 h2 ->. reflexivity. Qed.
Theorem C07_base64_is_function_of_bytes : forall a b x, kac_bytes a = Ok x -> kac_bytes b = Ok x -> dest_base64 a = dest_base64 b.
Proof. intros a b x Ha Hb. unfold dest_base64. rewrite Ha, Hb. reflexivity. Qed.
Example C07_nonvacuous_address_length : length (base32_address (repeatN 171 32)) = 60%nat.
Proof. vm_compute. reflexivity. Qed.
