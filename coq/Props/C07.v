(* C07 — identity hashes and addresses are pure functions of the identity's wire bytes.
   SHA-256 is external: in the model the hash is an input of the address function. *)
From Model Require Import Bytes Prim Tables Cert KAC Base Addr.
From Gen Require Import Consts.
From Proofs Require Import AddrProofs BaseRT AddrRT.
Open Scope N_scope.

Theorem C07_equal_iff_same_serialisation : forall a b,
  dest_equals a b = true <-> exists x, kac_bytes a = Ok x /\ kac_bytes b = Ok x.
Proof. exact dest_equals_iff. Qed.
Print Assumptions C07_equal_iff_same_serialisation.
(* the base32 address of a 32-byte hash: unpadded I2P base32 of the hash followed by the
   suffix, 60 characters, and it decodes back to the hash — so it is an injective function of
   the hash: any change of the hash changes the address *)
Theorem C07_address_is_unpadded_base32_plus_suffix : forall h, wf h ->
  base32_address h = b32_encode false h ++ s_destination_I2PBase32Suffix.
Proof. exact address_is_unpadded_base32. Qed.
Theorem C07_address_length : forall h, wf h -> length h = 32%nat -> length (base32_address h) = 60%nat.
Proof. exact address_length. Qed.
Theorem C07_address_decodes_to_hash : forall h, wf h -> length h = 32%nat ->
  b32_decode_nopad (firstn 52 (base32_address h)) = Ok h /\ skipn 52 (base32_address h) = s_destination_I2PBase32Suffix.
Proof. exact address_decodes. Qed.
Theorem C07_address_injective : forall h1 h2, wf h1 -> wf h2 -> base32_address h1 = base32_address h2 -> h1 = h2.
Proof. exact address_injective. Qed.
Print Assumptions C07_address_injective.
(* the base64 form of a parsed identity decodes back to exactly the bytes the parser consumed *)
Theorem C07_base64_decodes_to_wire_bytes : forall x k r, wf x -> read_keys_and_cert x = Ok (k, r) ->
  exists b s, kac_bytes k = Ok b /\ b ++ r = x /\ dest_base64 k = Ok s /\ b64_decode s = Ok b.
Proof. exact base64_of_parsed_identity. Qed.
Theorem C07_base64_injective : forall b1 b2, wf b1 -> wf b2 -> b64_encode b1 = b64_encode b2 -> b1 = b2.
Proof. exact base64_injective. Qed.
(* two accepted identities serialise equally exactly when their consumed wire bytes are equal:
   changing any key, padding or certificate byte changes the serialisation, hence (SHA-256
   collisions aside — the hash is external) the hash, and by injectivity the address *)
Theorem C07_serialisation_is_the_consumed_bytes : forall x1 x2 k1 k2 r1 r2 b1 b2, wf x1 -> wf x2 ->
  read_keys_and_cert x1 = Ok (k1, r1) -> read_keys_and_cert x2 = Ok (k2, r2) ->
  kac_bytes k1 = Ok b1 -> kac_bytes k2 = Ok b2 ->
  (b1 = b2 <-> firstn (length x1 - length r1) x1 = firstn (length x2 - length r2) x2).
Proof. exact distinct_wire_distinct_bytes. Qed.
Print Assumptions C07_serialisation_is_the_consumed_bytes.
Theorem C07_base64_is_function_of_bytes : forall a b x, kac_bytes a = Ok x -> kac_bytes b = Ok x -> dest_base64 a = dest_base64 b.
Proof. intros a b x Ha Hb. unfold dest_base64. rewrite Ha, Hb. reflexivity. Qed.
Example C07_nonvacuous_address_length : length (base32_address (repeatN 171 32)) = 60%nat.
Proof. vm_compute. reflexivity. Qed.
