(* C19 — alternative entry points for the same structure agree. *)
From Model Require Import LS Bytes Prim Tables Cert KAC Sig.
From Spec Require Import Wire.
From Proofs Require Import BytesLemmas PrimProofs Frame LeafProofs TypedRT CtorRT LSStrip.
Open Scope Z_scope.
Open Scope Z_scope.

Theorem C19_integer_constructors : forall v n, new_integer_from_int v n = encode_int_n v n.
Proof. reflexivity. Qed.
(* the exact-length signature constructor accepts exactly what the reader consumes completely *)
Theorem C19_signature_exact_vs_reader : forall d t s,
  new_signature_from_bytes d t = Ok s <-> read_signature d t = Ok (s, []).
Proof.
  intros d t s. unfold new_signature_from_bytes, read_signature.
  destruct (sig_length t) as [n|] eqn:E; [|split; discriminate].
  pose proof (sig_length_bounds _ _ E) as B. split.
  - destruct (Z.of_nat (length d) =? n) eqn:E2; [|discriminate]. intros H; injection H as <-.
    replace (Z.of_nat (length d) <? n) with false by lia.
    rewrite slice_to_ok, slice_from_ok by lia. cbn [rbind].
    rewrite firstn_all2, skipn_all2 by lia. reflexivity.
  - destruct (Z.of_nat (length d) <? n) eqn:E2; [discriminate|].
    rewrite slice_to_ok, slice_from_ok by lia. cbn [rbind]. intros H; injection H as H1 H2.
    apply (f_equal (@length _)) in H2. rewrite skipn_length in H2. cbn in H2.
    replace (Z.of_nat (length d) =? n) with true by lia.
    rewrite firstn_all2 in H1 by lia. subst s. reflexivity.
Qed.
Print Assumptions C19_signature_exact_vs_reader.
(* the destination / router-identity readers are the generic reader plus the type filter *)
Theorem C19_destination_vs_generic : forall x k r,
  read_destination x = Ok (k, r) -> read_keys_and_cert x = Ok (k, r).
Proof.
  intros x k r H. unfold read_destination in H. destruct (read_keys_and_cert x) as [[k0 r0]| |]; try discriminate.
  cbn [rbind fst] in H. destruct (dest_types_ok k0); [|discriminate]. exact H.
Qed.
Theorem C19_router_identity_vs_generic : forall x k r,
  read_router_identity x = Ok (k, r) -> read_keys_and_cert x = Ok (k, r).
Proof.
  intros x k r H. unfold read_router_identity in H. destruct (read_keys_and_cert x) as [[k0 r0]| |]; try discriminate.
  cbn [rbind fst] in H. destruct (ri_types_ok k0); [|discriminate]. exact H.
Qed.
(* a key certificate from bytes is the certificate reader followed by the from-certificate step *)
Theorem C19_key_certificate_two_ways : forall b,
  new_key_certificate b = (do cr <- read_certificate b; do k <- keycert_from_cert (fst cr); Ok (k, snd cr)).
Proof. reflexivity. Qed.

(* the key-type-specific readers accept exactly the inputs on which the generic reader
   returns a value declaring their key sizes, and return the same value and remainder *)
Theorem C19_elg_ed25519_reader_vs_generic : forall x k r, wf x ->
  (read_kac_elg_ed25519 x = Ok (k, r) <->
   (read_keys_and_cert x = Ok (k, r) /\ kc_crypto_size_of (k_kc k) = 256 /\ kc_signing_pubkey_size (k_kc k) = 32)).
Proof. exact elg_ed25519_reader_agrees. Qed.
Theorem C19_x25519_ed25519_reader_vs_generic : forall x k r, wf x ->
  (read_kac_x25519_ed25519 x = Ok (k, r) <->
   (read_keys_and_cert x = Ok (k, r) /\ kc_crypto_size_of (k_kc k) = 32 /\ kc_signing_pubkey_size (k_kc k) = 32)).
Proof. exact x25519_ed25519_reader_agrees. Qed.
Print Assumptions C19_x25519_ed25519_reader_vs_generic.

(* NewKeyCertificateWithTypes builds exactly the value NewKeyCertificate parses from the
   specification's 7-byte encoding of the same two type codes *)
Theorem C19_key_certificate_with_types_vs_bytes : forall s c kc, new_key_certificate_with_types s c = Ok kc ->
  0 <= s < 65536 -> 0 <= c < 65536 ->
  kc_signing_type kc = s /\ kc_crypto_type kc = c /\
  keycert_bytes kc = Ok (spec_keycert (Z.to_N s) (Z.to_N c) []) /\
  exists k', new_key_certificate (spec_keycert (Z.to_N s) (Z.to_N c) []) = Ok (k', []) /\
             keycert_bytes k' = keycert_bytes kc /\ kc_signing_type k' = s /\ kc_crypto_type k' = c.
Proof. exact keycert_with_types_agrees. Qed.

(* ReadDestinationFromLeaseSet (the reader used in front of a LeaseSet, which sizes the destination
   from its certificate's length field) agrees with ReadDestination on every input it accepts: the
   same remainder, a destination with the same serialisation and the same key types *)
Theorem C19_destination_from_leaseset_vs_read_destination : forall d dest rem, wf d ->
  read_destination_from_leaseset d = Ok (dest, rem) ->
  exists dest', read_destination d = Ok (dest', rem) /\ kac_bytes dest' = kac_bytes dest /\
    kc_signing_type (k_kc dest') = kc_signing_type (k_kc dest) /\ kc_crypto_type (k_kc dest') = kc_crypto_type (k_kc dest).
Proof. exact dfl_agrees_with_read_destination. Qed.
Print Assumptions C19_destination_from_leaseset_vs_read_destination.

(* one instant below 2^63 ms, every way of making a Date of it — NewDateFromMillis, DateFromTime of the
   same instant, NewDateFromUnix when it is a whole second, ReadDate / NewDate of its eight bytes — yields
   the same eight bytes, and Int() of them is the instant *)
Theorem C19_date_entry_points_agree : forall ms rest, 0 <= ms < two63 ->
  let d := be_encode 8 (Z.to_N ms) in
  new_date_from_millis ms = Ok d /\
  date_from_time (ms / 1000) (ms mod 1000 * 1000000) = d /\
  (ms mod 1000 = 0 -> new_date_from_unix (ms / 1000) = Ok d) /\
  read_date (d ++ rest) = Ok (d, rest) /\
  date_int d = ms.
Proof. exact date_entry_points_agree. Qed.
Print Assumptions C19_date_entry_points_agree.
Example C19_date_nonvacuous :
  new_date_from_millis 9223372036855000 = Ok [0; 32; 196; 155; 165; 227; 84; 216]%N /\
  new_date_from_unix 9223372036855 = Ok [0; 32; 196; 155; 165; 227; 84; 216]%N.
Proof. vm_compute. split; reflexivity. Qed.
