(* C10 — key/signature size tables agree everywhere (and with the specification). *)
From Model Require Import Bytes Tables.
From Spec Require Import SpecTables.
From Proofs Require Import TableProofs.
Open Scope Z_scope.

(* for every one of the 65,536 codes, every lookup the library offers agrees with the
   specification's table on known-ness, public-key length and signature length *)
Theorem C10_all_lookups_agree_with_spec : forall t, 0 <= t <= 65535 -> agree_code t = true.
Proof. exact tables_agree_all. Qed.
Print Assumptions C10_all_lookups_agree_with_spec.

(* unfolded consequences, as equalities *)
Theorem C10_signature_sizes : forall t, 0 <= t <= 65535 ->
  kc_sig_size t = spec_sig_len t /\ sig_length t = spec_sig_len t /\
  (if off_sig_size t =? 0 then None else Some (off_sig_size t)) = spec_sig_len t.
Proof.
  intros t R. pose proof (tables_agree_all t R) as H. unfold agree_code in H.
  repeat rewrite Bool.andb_true_iff in H. destruct H as [[[[[[[A B] C] D] E] F] G] I].
  repeat split; apply optZ_eqb_eq; assumption.
Qed.
Theorem C10_signing_key_sizes : forall t, 0 <= t <= 65535 ->
  kc_spk_size t = spec_spk_len t /\ kc_sig_pub_sizes t = spec_spk_len t /\
  (if off_spk_size t =? 0 then None else Some (off_spk_size t)) = spec_spk_len t.
Proof.
  intros t R. pose proof (tables_agree_all t R) as H. unfold agree_code in H.
  repeat rewrite Bool.andb_true_iff in H. destruct H as [[[[[[[A B] C] D] E] F] G] I].
  repeat split; apply optZ_eqb_eq; assumption.
Qed.
Theorem C10_crypto_key_sizes : forall t, 0 <= t <= 65535 ->
  kc_crypto_size t = spec_crypto_len t /\ kc_crypto_pub_sizes t = spec_crypto_len t.
Proof.
  intros t R. pose proof (tables_agree_all t R) as H. unfold agree_code in H.
  repeat rewrite Bool.andb_true_iff in H. destruct H as [[[[[[[A B] C] D] E] F] G] I].
  repeat split; apply optZ_eqb_eq; assumption.
Qed.
(* the signature-length lookup takes an int: outside 0..65535 it is an error, never a size *)
Theorem C10_sig_length_out_of_range : forall t, t < 0 \/ t > 65535 -> sig_length t = None.
Proof. exact sig_length_out_of_range. Qed.
Example C10_nonvacuous : sig_length 7 = Some 64 /\ kc_spk_size 11 = Some 32 /\ kc_crypto_size 4 = Some 32
  /\ sig_length 9 = None /\ off_sig_size 9 = 0.
Proof. vm_compute. auto. Qed.
