(* C10 — key/signature size tables agree everywhere (and with the specification). *)
From Model Require Import Bytes Tables.
From Spec Require Import SpecTables.
From Model Require Import Cert KAC.
From Spec Require Import Wire.
From Proofs Require Import TableProofs KacProofs KacRT ValidatorTie.
From Model Require Import Sig LS Validate.
From Gen Require Import Tables Validators.
Open Scope Z_scope.

(* for every one of the 65,536 codes, every lookup the library offers agrees with the
   specification's table on known-ness, public-key length and signature length *)
Theorem C10_all_lookups_agree_with_spec : forall t, 0 <= t <= 65535 -> agree_code t = true.
Proof. exact tables_agree_all. Qed.
Print Assumptions C10_all_lookups_agree_with_spec.

(* unfolded consequences, as equalities *)
Theorem C10_signature_sizes : forall t, 0 <= t <= 65535 ->
  kc_sig_size t = spec_sig_len t /\ sig_length t = spec_sig_len t /\
  (if off_sig_size t =? 0 then None else Some (off_sig_size t)) = spec_sig_len t.
Proof.
  intros t R. pose proof (tables_agree_all t R) as H. unfold agree_code in H.
  repeat rewrite Bool.andb_true_iff in H. destruct H as [[[[[[A B] C] E] F] G] I].
  split; [apply optZ_eqb_eq; assumption|]. split; [apply sig_length_in_range; exact R|apply optZ_eqb_eq; assumption].
Qed.
Theorem C10_signing_key_sizes : forall t, 0 <= t <= 65535 ->
  kc_spk_size t = spec_spk_len t /\ kc_sig_pub_sizes t = spec_spk_len t /\
  (if off_spk_size t =? 0 then None else Some (off_spk_size t)) = spec_spk_len t.
Proof.
  intros t R. pose proof (tables_agree_all t R) as H. unfold agree_code in H.
  repeat rewrite Bool.andb_true_iff in H. destruct H as [[[[[[A B] C] E] F] G] I].
  repeat split; apply optZ_eqb_eq; assumption.
Qed.
Theorem C10_crypto_key_sizes : forall t, 0 <= t <= 65535 ->
  kc_crypto_size t = spec_crypto_len t /\ kc_crypto_pub_sizes t = spec_crypto_len t.
Proof.
  intros t R. pose proof (tables_agree_all t R) as H. unfold agree_code in H.
  repeat rewrite Bool.andb_true_iff in H. destruct H as [[[[[[A B] C] E] F] G] I].
  repeat split; apply optZ_eqb_eq; assumption.
Qed.
(* the signature-length lookup takes an int: outside 0..65535 it is an error, never a size *)
Theorem C10_sig_length_out_of_range : forall t, t < 0 \/ t > 65535 -> sig_length t = None.
Proof. exact sig_length_out_of_range. Qed.
(* signature.getSignatureLength as regenerated from its Go body, whatever shape the source gives
   it (SigLen.v does not look at the shape): the specification's table inside the 16-bit range *)
Theorem C10_signature_length_is_the_specifications : forall t, 0 <= t <= 65535 -> sig_length t = Spec.SpecTables.spec_sig_len t.
Proof. exact sig_length_in_range. Qed.
Print Assumptions C10_signature_length_is_the_specifications.
(* for every supported pair of types the encryption key occupies the start of the 384-byte
   block, the signing key its end, the padding exactly the bytes between, and the declared
   sizes equal the lengths of the keys actually returned *)
Theorem C10_key_block_layout : forall (s c : N) (cl sl : nat) pub pad spk extra r,
  In s [0; 1; 2; 7; 8; 11]%N -> In c [0; 4; 5; 6; 7]%N ->
  spec_crypto_len (Z.of_N c) = Some (Z.of_nat cl) -> spec_spk_len (Z.of_N s) = Some (Z.of_nat sl) ->
  length pub = cl -> length spk = sl -> length pad = (384 - cl - sl)%nat ->
  (N.of_nat (length extra) < 65532)%N ->
  exists k, read_keys_and_cert (spec_identity pub pad spk (spec_keycert s c extra) ++ r) = Ok (k, r) /\
            k_pub k = Some pub /\ k_pad k = pad /\ k_spk k = Some spk /\
            kc_signing_type (k_kc k) = Z.of_N s /\ kc_crypto_type (k_kc k) = Z.of_N c /\
            kc_crypto_size_of (k_kc k) = Z.of_nat (length pub) /\ kc_signing_pubkey_size (k_kc k) = Z.of_nat (length spk).
Proof. exact spec_identity_accepted. Qed.
Print Assumptions C10_key_block_layout.
(* and the serialiser writes the block the same way: key, padding, key *)
Theorem C10_key_block_serialised : forall kc cl sl pub pad spk,
  kc_crypto_size_of kc = Z.of_nat cl -> kc_signing_pubkey_size kc = Z.of_nat sl ->
  (0 < cl <= 256)%nat -> (0 < sl <= 128)%nat ->
  length pub = cl -> length spk = sl -> length pad = (384 - cl - sl)%nat ->
  kac_block (mkKAC kc (Some pub) pad (Some spk)) = Ok (pub ++ pad ++ spk).
Proof. exact kac_block_ok. Qed.
Print Assumptions C10_key_block_serialised.
Example C10_nonvacuous : sig_length 7 = Some 64 /\ kc_spk_size 11 = Some 32 /\ kc_crypto_size 4 = Some 32
  /\ sig_length 9 = None /\ off_sig_size 9 = 0.
Proof. vm_compute. auto. Qed.

(* ---- the lookups as regenerated FUNCTIONS (Gen/Validators.v, translated from the Go function
   bodies, not only their switch tables) agree with the model's, for every integer ---- *)
Theorem C10_source_signature_length : forall t, g_signature_getSignatureLength t = sig_length t.
Proof. exact tie_signature_length. Qed.
Theorem C10_source_offline_key_size : forall t, g_offline_signature_SigningPublicKeySize t = off_spk_size t.
Proof. exact tie_off_spk_size. Qed.
Theorem C10_source_offline_sig_size : forall t, g_offline_signature_SignatureSize t = off_sig_size t.
Proof. exact tie_off_sig_size. Qed.
(* LeaseSet2's key validation (constructor and Validate share it) agrees with the table on
   public-key length: a key of a known type is accepted exactly when its declared length is the
   actual length and the table's *)
Theorem C10_source_leaseset_key_validation : forall k, (ek_type k < 65536)%N ->
  g_lease_set2_validateEncryptionKeyConsistency 0 (view_ek k) = enckey_valid k.
Proof. exact tie_enckey_valid. Qed.
Print Assumptions C10_source_leaseset_key_validation.
