(* C02 — wire format agrees with the I2P common-structures specification.  Spec/Wire.v holds
   encoders written from the specification text; the theorems say that the model's parsers
   accept those encodings followed by arbitrary bytes, consume exactly the encoding and expose
   exactly the encoded field values. *)
From Model Require Import Bytes Prim Tables Cert KAC Mapping Sig LS RI.
From Spec Require Import Wire SpecTables.
From Proofs Require Import SpecProofs KacProofs MapRT SpecRA SpecRI LS2Accept SpecLS2 LSStrip.
Open Scope Z_scope.

Theorem C02_certificate : forall t payload r, (t < 256)%N -> (nlen payload < 65536)%N ->
  exists c, read_certificate (spec_cert t payload ++ r) = Ok (c, r) /\
            c_kind c = [t] /\ cert_len_int c = Z.of_nat (length payload) /\ c_payload c = payload ++ r /\
            cert_data c = Ok payload /\ cert_bytes c = Ok (spec_cert t payload) /\ cert_kind_int c = Z.of_N t.
Proof. exact spec_cert_accepted. Qed.
Print Assumptions C02_certificate.
Theorem C02_key_certificate : forall s c extra r, (s < 65536)%N -> (c < 65536)%N -> (N.of_nat (length extra) < 65532)%N ->
  exists k, new_key_certificate (spec_keycert s c extra ++ r) = Ok (k, r) /\
            kc_signing_type k = Z.of_N s /\ kc_crypto_type k = Z.of_N c /\
            keycert_bytes k = Ok (spec_keycert s c extra).
Proof. exact spec_keycert_accepted. Qed.
(* keys-and-cert / destination / router identity block: key alignment inside the 384 bytes *)
Theorem C02_identity_block : forall (s c : N) (cl sl : nat) pub pad spk extra r,
  In s [0; 1; 2; 7; 8; 11]%N -> In c [0; 4; 5; 6; 7]%N ->
  spec_crypto_len (Z.of_N c) = Some (Z.of_nat cl) -> spec_spk_len (Z.of_N s) = Some (Z.of_nat sl) ->
  length pub = cl -> length spk = sl -> length pad = (384 - cl - sl)%nat ->
  (N.of_nat (length extra) < 65532)%N ->
  exists k, read_keys_and_cert (spec_identity pub pad spk (spec_keycert s c extra) ++ r) = Ok (k, r) /\
            k_pub k = Some pub /\ k_pad k = pad /\ k_spk k = Some spk /\
            kc_signing_type (k_kc k) = Z.of_N s /\ kc_crypto_type (k_kc k) = Z.of_N c /\
            kc_crypto_size_of (k_kc k) = Z.of_nat (length pub) /\ kc_signing_pubkey_size (k_kc k) = Z.of_nat (length spk).
Proof. exact spec_identity_accepted. Qed.
Print Assumptions C02_identity_block.
Theorem C02_signature : forall t sg r n, sig_length t = Some n -> Z.of_nat (length sg) = n ->
  read_signature (sg ++ r) t = Ok (mkSig t sg, r).
Proof. exact spec_signature_accepted. Qed.
Theorem C02_offline_signature : forall e st key sg dt r, (e < 2 ^ 32)%N -> (st < 65536)%N ->
  off_spk_size (Z.of_N st) <> 0 -> Z.of_nat (length key) = off_spk_size (Z.of_N st) ->
  off_sig_size (Z.of_N dt) <> 0 -> Z.of_nat (length sg) = off_sig_size (Z.of_N dt) ->
  read_offline_signature (spec_offline e st key sg ++ r) dt = Ok (mkOff e st key sg dt, r).
Proof. exact spec_offline_accepted. Qed.
Theorem C02_lease : forall gw tid date r, length gw = 32%nat ->
  read_lease (Wire.spec_lease gw tid date ++ r) = Ok (Wire.spec_lease gw tid date, r).
Proof. exact spec_lease_accepted. Qed.
Theorem C02_lease_fields : forall gw tid date, length gw = 32%nat -> (tid < 2 ^ 32)%N -> (date < 2 ^ 64)%N ->
  lease_gateway (Wire.spec_lease gw tid date) = gw /\ lease_tunnel_id (Wire.spec_lease gw tid date) = tid /\
  be_decode (lease_date (Wire.spec_lease gw tid date)) = date.
Proof. exact spec_lease_fields. Qed.
Theorem C02_lease2 : forall gw tid e r, length gw = 32%nat ->
  read_lease2 (Wire.spec_lease2 gw tid e ++ r) = Ok (Wire.spec_lease2 gw tid e, r).
Proof. exact spec_lease2_accepted. Qed.
Print Assumptions C02_lease2.
(* Mapping and RouterAddress: the specification's encoding of any options list with distinct
   keys (strings up to 255 bytes, up to 1000 pairs, up to 65,535 bytes) is accepted, followed
   by anything, and the parsed pairs are exactly the encoded ones, in the encoded order *)
Theorem C02_mapping : forall opts r, opts_ok opts ->
  exists sz e, read_mapping (spec_mapping opts ++ r) = Some (mkMap (Some sz) (Some (map wire_pair opts)), r, e) /\
               fatal_errors e = [].
Proof. exact spec_mapping_accepted. Qed.
Theorem C02_router_address : forall cost date style opts r,
  (cost < 256)%N -> (date < 2 ^ 64)%N -> (length style <= 255)%nat -> opts_ok opts ->
  exists sz, read_router_address (spec_router_address cost date style opts ++ r) =
    Ok (mkRA [cost] (be_encode 8 date) (istr style) (mkMap (Some sz) (Some (map wire_pair opts))), r).
Proof. exact spec_router_address_accepted. Qed.
Print Assumptions C02_router_address.
(* RouterInfo as a whole: identity block with a key certificate of any supported type pair the
   router identity admits || published || address count || addresses || peer_size 0 || options ||
   signature of the identity's type: accepted followed by anything, exactly consumed, every field
   returned as encoded, and the value serialises back to the encoding *)
Theorem C02_router_info : forall (s c : N) (cl sl : nat) pub pad spk extra published addrs opts n sg r,
  In s [0; 1; 2; 7; 8; 11]%N -> In c [0; 4; 5; 6; 7]%N ->
  spec_crypto_len (Z.of_N c) = Some (Z.of_nat cl) -> spec_spk_len (Z.of_N s) = Some (Z.of_nat sl) ->
  length pub = cl -> length spk = sl -> length pad = (384 - cl - sl)%nat ->
  (N.of_nat (length extra) < 65532)%N ->
  ri_signing_denied (Z.of_N s) = false -> ri_crypto_denied (Z.of_N c) = false ->
  sig_length (Z.of_N s) = Some n -> Z.of_nat (length sg) = n ->
  (published < 2 ^ 64)%N -> (length addrs <= 255)%nat -> Forall ra_tuple_ok addrs -> opts_ok opts ->
  let ident := spec_identity pub pad spk (spec_keycert s c extra) in
  wf (spec_router_info ident published addrs opts sg ++ r) ->
  exists i, read_router_info (spec_router_info ident published addrs opts sg ++ r) = Ok (i, r) /\
    k_pub (ri_ident i) = Some pub /\ k_pad (ri_ident i) = pad /\ k_spk (ri_ident i) = Some spk /\
    kc_signing_type (k_kc (ri_ident i)) = Z.of_N s /\ kc_crypto_type (k_kc (ri_ident i)) = Z.of_N c /\
    ri_published i = be_encode 8 published /\ Forall2 ra_of_tuple addrs (ri_addrs i) /\
    m_vals (ri_options i) = Some (map wire_pair opts) /\ ri_sig i = mkSig (Z.of_N s) sg /\
    router_info_bytes i = Ok (spec_router_info ident published addrs opts sg).
Proof. exact spec_router_info_keycert_accepted. Qed.
Print Assumptions C02_router_info.
Example C02_router_info_nonvacuous :
  let b := spec_router_info (spec_identity (repeatN 1 32) (repeatN 2 320) (repeatN 3 32) (spec_keycert 7 4 []))
             1700000000000 [(10%N, 0%N, [83; 83; 85]%N, [([104; 111; 115; 116]%N, [49; 46; 50]%N)])] [([97]%N, [])] (repeatN 5 64) in
  match read_router_info (b ++ [8%N]) with
  | Ok (i, [r]) => match router_info_bytes i with
                   | Ok b' => bytes_eqb b' b && (r =? 8)%N && (length (ri_addrs i) =? 1)%nat
                   | _ => false
                   end
  | _ => false
  end = true.
Proof. vm_compute. reflexivity. Qed.
(* LeaseSet2 as a whole, in the specification's encoders: any destination block the destination
   reader accepts in front of this body, header fields within their widths, an offline block
   present exactly when the flag says so and of the sizes its types dictate, any valid options, 1..16
   keys, up to 16 Lease2, a signature of the length of the (transient or destination) signing type:
   accepted followed by anything (whole-input minimum aside, finding D6), exactly consumed, every
   field returned as encoded, and the value serialises back to the encoding *)
Theorem C02_lease_set2 : forall db dest d' published expires flags off opts keys leases n sg r,
  let body := spec_ls2_body published expires flags off opts keys leases sg in
  kac_bytes dest = Ok db ->
  read_destination (db ++ body ++ r) = Ok (d', body ++ r) -> kac_bytes d' = Ok db ->
  kc_signing_type (k_kc d') = kc_signing_type (k_kc dest) ->
  (published < 2 ^ 32)%N -> (expires < 2 ^ 16)%N -> (flags < 2 ^ 16)%N ->
  match off with
  | Some (e, st, k, s) => has_offline flags = true /\
      offline_fits (Z.to_N (kc_signing_type (k_kc dest) mod 65536)) (mkOff e st k s (Z.to_N (kc_signing_type (k_kc dest) mod 65536)))
  | None => has_offline flags = false
  end ->
  opts_ok opts ->
  (1 <= length keys <= 16)%nat -> Forall (fun k => (fst k < 65536)%N /\ (nlen (snd k) < 65536)%N) keys ->
  (length leases <= 16)%nat -> Forall (fun x => length x = LEASE2_SIZE) leases ->
  sig_length (spec_final_sig_type dest flags off) = Some n -> Z.of_nat (length sg) = n ->
  Gen.Consts.c_lease_set2_LEASESET2_MIN_SIZE <= Z.of_nat (length (db ++ body ++ r)) ->
  exists l', read_lease_set2 ((db ++ body) ++ r) = Ok (l', r) /\
    lease_set2_bytes l' = Ok (db ++ body) /\
    l2_dest l' = d' /\ l2_published l' = published /\ l2_expires l' = expires /\ l2_flags l' = flags /\
    map_values (l2_options l') = map wire_pair opts /\
    l2_keys l' = map (fun k => mkEK (fst k) (nlen (snd k)) (snd k)) keys /\ l2_leases l' = leases /\
    sig_bytes (l2_sig l') = sg.
Proof. exact spec_lease_set2_accepted. Qed.
Print Assumptions C02_lease_set2.
(* LeaseSet (version 1): destination || ElGamal key (256) || signing key (of the destination's
   type; 128 for a NULL certificate) || count (1) || Lease (44) x n || signature (of the destination's
   type; 40 for a NULL certificate) *)
Theorem C02_lease_set : forall db dest kco ek skd (ls : list bytes) sgb sg y,
  let rest := ek ++ skd ++ [N.of_nat (length ls)] ++ concat ls ++ sgb in
  (387 <= length db)%nat ->
  read_destination_from_leaseset (db ++ rest ++ y) = Ok (dest, rest ++ y) ->
  length ek = 256%nat -> Model.ExtCrypto.elg_pubkey_ok ek = true ->
  dest_keycert_opt dest = Ok kco ->
  0 <= ls_sks kco -> Z.of_nat (length skd) = ls_sks kco ->
  match kco with
  | Some kc => construct_signing_public_key kc skd
  | None => if Model.ExtCrypto.dsa_pubkey_ok skd then Ok skd else Err
  end = Ok skd ->
  (length ls <= 16)%nat -> Forall (fun l => length l = LEASE_SIZE) ls ->
  0 <= ls_ss kco -> Z.of_nat (length sgb) = ls_ss kco ->
  new_signature_from_bytes sgb (ls_st kco) = Ok sg ->
  read_lease_set ((db ++ rest) ++ y) = Ok (mkLS dest ek skd (Z.of_nat (length ls)) ls sg) /\
  lease_set_bytes (mkLS dest ek skd (Z.of_nat (length ls)) ls sg) =
    (do dbb <- kac_bytes dest; Ok (dbb ++ ek ++ skd ++ [N.of_nat (length ls)] ++ concat ls ++ sig_bytes sg)).
Proof. exact lease_set_built_accepted. Qed.
Print Assumptions C02_lease_set.
(* MetaLeaseSet, likewise: header, options, 1..16 entries (hash (32) type (1) expires (4) cost (1)
   properties), signature *)
Theorem C02_meta_lease_set : forall db dest d' published expires flags off opts entries n sg r,
  let body := spec_meta_body published expires flags off opts entries sg in
  kac_bytes dest = Ok db ->
  read_destination (db ++ body ++ r) = Ok (d', body ++ r) -> kac_bytes d' = Ok db ->
  kc_signing_type (k_kc d') = kc_signing_type (k_kc dest) ->
  (published < 2 ^ 32)%N -> (expires < 2 ^ 16)%N -> (flags < 2 ^ 16)%N ->
  match off with
  | Some (e, st, k, s) => has_offline flags = true /\
      offline_fits (Z.to_N (kc_signing_type (k_kc dest) mod 65536)) (mkOff e st k s (Z.to_N (kc_signing_type (k_kc dest) mod 65536)))
  | None => has_offline flags = false
  end ->
  opts_ok opts ->
  Gen.Consts.c_meta_leaseset_META_LEASESET_MIN_ENTRIES <= Z.of_nat (length entries) <= Gen.Consts.c_meta_leaseset_META_LEASESET_MAX_ENTRIES ->
  Forall spec_mentry_ok entries ->
  sig_length (spec_final_sig_type dest flags off) = Some n -> Z.of_nat (length sg) = n ->
  Gen.Consts.c_meta_leaseset_META_LEASESET_MIN_SIZE <= Z.of_nat (length (db ++ body ++ r)) ->
  exists l', read_meta_lease_set ((db ++ body) ++ r) = Ok (l', r) /\
    meta_lease_set_bytes l' = Ok (db ++ body) /\
    ml_published l' = published /\ ml_expires l' = expires /\ ml_flags l' = flags /\
    map_values (ml_options l') = map wire_pair opts /\ ml_num l' = N.of_nat (length entries) /\
    length (ml_entries l') = length entries /\ sig_bytes (ml_sig l') = sg.
Proof. exact spec_meta_lease_set_accepted. Qed.
Print Assumptions C02_meta_lease_set.
(* EncryptedLeaseSet: sig_type (2) || blinded key || published (4) || expires (2) || flags (2) ||
   [offline signature] || inner length (2) || encrypted inner data || signature: the serialisation of
   every valid value that fits its field widths IS this layout, and is accepted, followed by anything,
   as the very same value *)
Theorem C02_encrypted_lease_set : forall l r, els_validate l = true -> Proofs.ElsChain.els_fits l ->
  els_bytes l = spec_els (el_sigtype l) (el_key l) (el_published l) (el_expires l) (el_flags l)
                         (els_off_spec (el_offline l)) (el_inner l) (sig_bytes (el_sig l)) /\
  read_encrypted_lease_set (els_bytes l ++ r) = Ok (l, r).
Proof. exact spec_els_accepted. Qed.
Print Assumptions C02_encrypted_lease_set.
Example C02_lease_set2_nonvacuous :
  let db := spec_identity (repeatN 1 32) (repeatN 2 320) (repeatN 3 32) (spec_keycert 7 4 []) in
  let body := spec_ls2_body 1700000000 600 1 (Some (1800000000%N, 7%N, repeatN 4 32, repeatN 6 64)) [([97]%N, [98]%N)]
                [(4%N, repeatN 7 32)] [repeatN 9 40; repeatN 8 40] (repeatN 5 64) in
  match read_lease_set2 ((db ++ body) ++ [8%N]) with
  | Ok (l, [r]) => match lease_set2_bytes l with
                   | Ok b' => bytes_eqb b' (db ++ body) && (r =? 8)%N && (length (l2_leases l) =? 2)%nat &&
                              match l2_offline l with Some o => (o_expires o =? 1800000000)%N | None => false end
                   | _ => false
                   end
  | _ => false
  end = true.
Proof. vm_compute. reflexivity. Qed.
Example C02_nonvacuous : exists k,
  read_keys_and_cert (spec_identity (repeatN 1 32) (repeatN 2 320) (repeatN 3 32) (spec_keycert 7 4 [9%N]) ++ [8%N]) = Ok (k, [8%N])
  /\ k_pad k = repeatN 2 320.
Proof. eexists. vm_compute. split; reflexivity. Qed.
