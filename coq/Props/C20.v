(* C20 — zero values and failed-parse results are safe to touch; verification of such a
   value never reports success.  For the modelled structures: no serialiser / accessor of a
   zero value reaches a Panic primitive, and no Verify asks a single query of the signature
   scheme (so the verdict is "not verified" whatever the scheme). *)
From Model Require Import Bytes Prim Tables Cert KAC Mapping Sig LS RI Crypto Zero Addr.
From Proofs Require Import CryptoProofs ZeroAll.
Open Scope N_scope.

Theorem C20_zero_serialisers_return_normally :
  cert_bytes zero_cert = Ok [] /\ cert_raw_bytes zero_cert = [] /\ cert_excess_bytes zero_cert = Ok [] /\
  cert_type zero_cert = Err /\ cert_data zero_cert = Err /\
  kac_bytes zero_kac = Err /\ mapping_data zero_map = [] /\ map_values zero_map = [] /\
  lease_set_bytes zero_ls = Err /\ lease_set2_bytes zero_ls2 = Err /\ meta_lease_set_bytes zero_meta = Err /\
  router_info_bytes zero_ri = Err /\ router_address_bytes zero_ra = [] /\
  off_bytes zero_off = [0;0;0;0;0;0] /\ off_validate_structure zero_off = false /\ els_validate zero_els = false.
Proof. vm_compute. repeat split; reflexivity. Qed.
Print Assumptions C20_zero_serialisers_return_normally.

(* verification of a zero value never reports success, for ANY signature scheme *)
Theorem C20_zero_values_never_verify : forall verify,
  verdict verify (ls_verify_queries zero_ls) = false /\
  verdict verify (ls2_verify_queries zero_ls2) = false /\
  verdict verify (meta_verify_queries zero_meta) = false /\
  verdict verify (els_verify_queries zero_els) = false /\
  verdict verify (ri_verify_queries zero_ri) = false /\
  (forall k, offline_query zero_off k = None).
Proof. intros verify. repeat split; reflexivity. Qed.
Print Assumptions C20_zero_values_never_verify.

(* accessors of a zero router address *)
Theorem C20_zero_router_address_accessors :
  ra_host zero_ra = None /\ ra_port zero_ra = None /\ ra_has_valid_host zero_ra = false /\
  ra_has_valid_port zero_ra = false /\ ra_ip_version zero_ra = [].
Proof. vm_compute. repeat split; reflexivity. Qed.

(* beyond the zero values: ANY value whose identity part is not a valid KeysAndCert — the zero
   value, and every partial value a reader hands back together with an error before or while reading
   the destination / router identity — serialises to an error value (never a panic) and never
   verifies, whatever its other fields hold, for any signature scheme *)
Theorem C20_values_without_identity_never_verify : forall verify,
  (forall l, kac_validate (l2_dest l) = false -> lease_set2_bytes l = Err /\ verdict verify (ls2_verify_queries l) = false) /\
  (forall l, kac_validate (ml_dest l) = false -> meta_lease_set_bytes l = Err /\ verdict verify (meta_verify_queries l) = false) /\
  (forall l, kac_validate (ls_dest l) = false -> lease_set_bytes l = Err /\ verdict verify (ls_verify_queries l) = false) /\
  (forall i, kac_validate (ri_ident i) = false -> router_info_bytes i = Err /\ verdict verify (ri_verify_queries i) = false).
Proof.
  intros verify. split; [exact (ls2_without_identity_never_verifies verify)|]. split; [exact (meta_without_identity_never_verifies verify)|].
  split; [exact (ls_without_identity_never_verifies verify)|exact (ri_without_identity_never_verifies verify)].
Qed.
Print Assumptions C20_values_without_identity_never_verify.
(* a structurally invalid offline signature authorises no key; an EncryptedLeaseSet whose blinded key
   cannot be constructed for its declared type (the zero value, a value cut off inside the key) asks
   no query — also when the OFFLINE_KEYS flag is set but the block is missing *)
Theorem C20_invalid_parts_never_verify : forall verify,
  (forall o k, off_validate_structure o = false -> offline_query o k = None) /\
  (forall l, el_offline l = None -> construct_signing_by_type (Z.of_N (el_sigtype l)) (el_key l) = Err ->
     forall flags, verdict verify (els_verify_queries (mkELS (el_sigtype l) (el_key l) (el_published l) (el_expires l) flags None (el_inner_len l) (el_inner l) (el_sig l))) = false).
Proof.
  intros verify. split; [exact invalid_offline_authorises_nothing|exact (els_flag_without_block_never_verifies verify)].
Qed.
Example C20_nonvacuous_zero_identity : kac_validate zero_kac = false /\ construct_signing_by_type 0 [] = Err.
Proof. vm_compute. split; reflexivity. Qed.
