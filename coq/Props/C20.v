(* C20 — zero values and failed-parse results are safe to touch; verification of such a
   value never reports success.  For the modelled structures: no serialiser / accessor of a
   zero value reaches a Panic primitive, and no Verify asks a single query of the signature
   scheme (so the verdict is "not verified" whatever the scheme). *)
From Model Require Import Bytes Prim Tables Cert KAC Mapping Sig LS RI Crypto Zero Addr.
From Proofs Require Import CryptoProofs.
Open Scope N_scope.

Theorem C20_zero_serialisers_return_normally :
  cert_bytes zero_cert = Ok [] /\ cert_raw_bytes zero_cert = [] /\ cert_excess_bytes zero_cert = Ok [] /\
  cert_type zero_cert = Err /\ cert_data zero_cert = Err /\
  kac_bytes zero_kac = Err /\ mapping_data zero_map = [] /\ map_values zero_map = [] /\
  lease_set_bytes zero_ls = Err /\ lease_set2_bytes zero_ls2 = Err /\ meta_lease_set_bytes zero_meta = Err /\
  router_info_bytes zero_ri = Err /\ router_address_bytes zero_ra = [] /\
  off_bytes zero_off = [0;0;0;0;0;0] /\ off_validate_structure zero_off = false /\ els_validate zero_els = false.
Proof. vm_compute. repeat split; reflexivity. Qed.
Print Assumptions C20_zero_serialisers_return_normally.

(* verification of a zero value never reports success, for ANY signature scheme *)
Theorem C20_zero_values_never_verify : forall verify,
  verdict verify (ls_verify_queries zero_ls) = false /\
  verdict verify (ls2_verify_queries zero_ls2) = false /\
  verdict verify (meta_verify_queries zero_meta) = false /\
  verdict verify (els_verify_queries zero_els) = false /\
  verdict verify (ri_verify_queries zero_ri) = false /\
  (forall k, offline_query zero_off k = None).
Proof. intros verify. repeat split; reflexivity. Qed.
Print Assumptions C20_zero_values_never_verify.

(* accessors of a zero router address *)
Theorem C20_zero_router_address_accessors :
  ra_host zero_ra = None /\ ra_port zero_ra = None /\ ra_has_valid_host zero_ra = false /\
  ra_has_valid_port zero_ra = false /\ ra_ip_version zero_ra = [].
Proof. vm_compute. repeat split; reflexivity. Qed.
