(* C09 — prohibited key types never appear in a Destination or RouterIdentity. *)
From Model Require Import Bytes Prim Tables Cert KAC Mapping Sig LS RI.
From Spec Require Import SpecTables.
From Proofs Require Import TableProofs DenyProofs.
Open Scope Z_scope.

(* the library's deny sets are exactly the specification's, for every integer code *)
Theorem C09_deny_sets_equal_spec : forall t,
  dest_crypto_denied t = spec_crypto_prohibited t /\
  dest_signing_denied t = spec_dest_sig_prohibited t /\
  ri_crypto_denied t = spec_crypto_prohibited t /\
  ri_signing_denied t = spec_ri_sig_prohibited t.
Proof. exact deny_sets_equal_spec. Qed.
Print Assumptions C09_deny_sets_equal_spec.

(* direct paths *)
Theorem C09_read_destination_permitted : forall x k r, read_destination x = Ok (k, r) ->
  spec_crypto_prohibited (kc_crypto_type (k_kc k)) = false /\
  spec_dest_sig_prohibited (kc_signing_type (k_kc k)) = false.
Proof. exact read_destination_permitted. Qed.
Theorem C09_new_destination_permitted : forall k k', new_destination k = Ok k' ->
  spec_crypto_prohibited (kc_crypto_type (k_kc k')) = false /\
  spec_dest_sig_prohibited (kc_signing_type (k_kc k')) = false.
Proof. exact new_destination_permitted. Qed.
Theorem C09_read_router_identity_permitted : forall x k r, read_router_identity x = Ok (k, r) ->
  spec_crypto_prohibited (kc_crypto_type (k_kc k)) = false /\
  spec_ri_sig_prohibited (kc_signing_type (k_kc k)) = false.
Proof. exact read_router_identity_permitted. Qed.
Theorem C09_new_router_identity_permitted : forall pub spk c pad k, new_router_identity pub spk c pad = Ok k ->
  spec_crypto_prohibited (kc_crypto_type (k_kc k)) = false /\
  spec_ri_sig_prohibited (kc_signing_type (k_kc k)) = false.
Proof. exact new_router_identity_permitted. Qed.
(* embedded in the parsing of LeaseSet, LeaseSet2, MetaLeaseSet, RouterInfo *)
Theorem C09_lease_set_destination_permitted : forall x l, read_lease_set x = Ok l -> dest_permitted (ls_dest l).
Proof. exact lease_set_destination_permitted. Qed.
Theorem C09_lease_set2_destination_permitted : forall x l r, read_lease_set2 x = Ok (l, r) -> dest_permitted (l2_dest l).
Proof. exact lease_set2_destination_permitted. Qed.
Theorem C09_meta_lease_set_destination_permitted : forall x l r, read_meta_lease_set x = Ok (l, r) -> dest_permitted (ml_dest l).
Proof. exact meta_lease_set_destination_permitted. Qed.
Theorem C09_router_info_identity_permitted : forall x i r, read_router_info x = Ok (i, r) -> ri_permitted (ri_ident i).
Proof. exact router_info_identity_permitted. Qed.
Print Assumptions C09_router_info_identity_permitted.
(* the restriction rejects nothing else: a permitted pair is never denied *)
Theorem C09_permitted_not_rejected : forall s c,
  spec_crypto_prohibited c = false -> spec_dest_sig_prohibited s = false ->
  dest_crypto_denied c = false /\ dest_signing_denied s = false.
Proof. exact permitted_not_rejected. Qed.
Example C09_nonvacuous :
  dest_signing_denied 8 = true /\ dest_crypto_denied 6 = true /\ ri_signing_denied 11 = true /\
  dest_signing_denied 11 = false /\ dest_signing_denied 7 = false.
Proof. vm_compute. auto. Qed.
