(* C09 — prohibited key types never appear in a Destination or RouterIdentity. *)
From Model Require Import Bytes Prim Tables Cert KAC.
From Spec Require Import SpecTables.
From Proofs Require Import TableProofs.
Open Scope Z_scope.

(* the library's deny sets are exactly the specification's, for every integer code *)
Theorem C09_deny_sets_equal_spec : forall t,
  dest_crypto_denied t = spec_crypto_prohibited t /\
  dest_signing_denied t = spec_dest_sig_prohibited t /\
  ri_crypto_denied t = spec_crypto_prohibited t /\
  ri_signing_denied t = spec_ri_sig_prohibited t.
Proof.
  intros t. pose proof (deny_agree_all t) as H. unfold deny_agree in H.
  repeat rewrite Bool.andb_true_iff in H. destruct H as [[[A B] C] D].
  repeat split; apply Bool.eqb_prop; assumption.
Qed.
Print Assumptions C09_deny_sets_equal_spec.

(* every Destination-yielding reader built on read_destination returns only permitted types *)
Theorem C09_read_destination_permitted : forall x k r,
  read_destination x = Ok (k, r) ->
  spec_crypto_prohibited (kc_crypto_type (k_kc k)) = false /\
  spec_dest_sig_prohibited (kc_signing_type (k_kc k)) = false.
Proof.
  intros x k r H. unfold read_destination in H.
  destruct (read_keys_and_cert x) as [[k0 r0]| |]; try discriminate. cbn [rbind fst] in H.
  destruct (dest_types_ok k0) eqn:E; [|discriminate]. injection H as <- <-.
  unfold dest_types_ok in E. apply Bool.andb_true_iff in E. destruct E as [E1 E2].
  destruct (C09_deny_sets_equal_spec (kc_crypto_type (k_kc k0))) as [A _].
  destruct (C09_deny_sets_equal_spec (kc_signing_type (k_kc k0))) as [_ [B _]].
  rewrite <- A, <- B. split; apply Bool.negb_true_iff; assumption.
Qed.
Theorem C09_new_destination_permitted : forall k k',
  new_destination k = Ok k' ->
  spec_crypto_prohibited (kc_crypto_type (k_kc k')) = false /\
  spec_dest_sig_prohibited (kc_signing_type (k_kc k')) = false.
Proof.
  intros k k' H. unfold new_destination in H.
  destruct (negb (kac_validate k)); [discriminate|].
  destruct (dest_types_ok k) eqn:E; [|discriminate]. injection H as <-.
  unfold dest_types_ok in E. apply Bool.andb_true_iff in E. destruct E as [E1 E2].
  destruct (C09_deny_sets_equal_spec (kc_crypto_type (k_kc k))) as [A _].
  destruct (C09_deny_sets_equal_spec (kc_signing_type (k_kc k))) as [_ [B _]].
  rewrite <- A, <- B. split; apply Bool.negb_true_iff; assumption.
Qed.
Theorem C09_read_router_identity_permitted : forall x k r,
  read_router_identity x = Ok (k, r) ->
  spec_crypto_prohibited (kc_crypto_type (k_kc k)) = false /\
  spec_ri_sig_prohibited (kc_signing_type (k_kc k)) = false.
Proof.
  intros x k r H. unfold read_router_identity in H.
  destruct (read_keys_and_cert x) as [[k0 r0]| |]; try discriminate. cbn [rbind fst] in H.
  destruct (ri_types_ok k0) eqn:E; [|discriminate]. injection H as <- <-.
  unfold ri_types_ok in E. apply Bool.andb_true_iff in E. destruct E as [E1 E2].
  destruct (C09_deny_sets_equal_spec (kc_crypto_type (k_kc k0))) as [_ [_ [A _]]].
  destruct (C09_deny_sets_equal_spec (kc_signing_type (k_kc k0))) as [_ [_ [_ B]]].
  rewrite <- A, <- B. split; apply Bool.negb_true_iff; assumption.
Qed.
Theorem C09_new_router_identity_permitted : forall pub spk c pad k,
  new_router_identity pub spk c pad = Ok k ->
  spec_crypto_prohibited (kc_crypto_type (k_kc k)) = false /\
  spec_ri_sig_prohibited (kc_signing_type (k_kc k)) = false.
Proof.
  intros pub spk c pad k H. unfold new_router_identity in H.
  destruct (keycert_from_cert c) as [kc| |]; try discriminate. cbn [rbind] in H.
  destruct (new_keys_and_cert kc pub pad spk) as [k0| |]; try discriminate. cbn [rbind] in H.
  destruct (ri_types_ok k0) eqn:E; [|discriminate]. injection H as <-.
  unfold ri_types_ok in E. apply Bool.andb_true_iff in E. destruct E as [E1 E2].
  destruct (C09_deny_sets_equal_spec (kc_crypto_type (k_kc k0))) as [_ [_ [A _]]].
  destruct (C09_deny_sets_equal_spec (kc_signing_type (k_kc k0))) as [_ [_ [_ B]]].
  rewrite <- A, <- B. split; apply Bool.negb_true_iff; assumption.
Qed.
(* the restriction rejects nothing else: a permitted pair is never denied *)
Theorem C09_permitted_not_rejected : forall s c,
  spec_crypto_prohibited c = false -> spec_dest_sig_prohibited s = false ->
  dest_crypto_denied c = false /\ dest_signing_denied s = false.
Proof.
  intros s c Hc Hs. destruct (C09_deny_sets_equal_spec c) as [A _].
  destruct (C09_deny_sets_equal_spec s) as [_ [B _]]. rewrite A, B. auto.
Qed.
Example C09_nonvacuous :
  dest_signing_denied 8 = true /\ dest_crypto_denied 6 = true /\ ri_signing_denied 11 = true /\
  dest_signing_denied 11 = false /\ dest_signing_denied 7 = false.
Proof. vm_compute. auto. Qed.
