(* C12 — Integer, Date and String primitives are exact inverses within their domain.
   Only statements here; every proof is `exact <lemma>` into Proofs/PrimProofs.v. *)
From Model Require Import Bytes Prim.
From Proofs Require Import BytesLemmas PrimProofs.
Open Scope Z_scope.

(* encode v into n bytes then decode: same number, big-endian, exactly n bytes *)
Theorem C12_int_roundtrip : forall v n b,
  1 <= n <= 8 -> 0 <= v -> v < 2 ^ (8 * n) -> v < two63 ->
  encode_int_n v n = Ok b ->
  Z.of_nat (length b) = n /\ Z.of_N (be_decode b) = v /\ decode_int_n b = Ok v /\ integer_int b = v.
Proof. exact decode_encode_int. Qed.
Print Assumptions C12_int_roundtrip.
Theorem C12_int_accepts : forall v n,
  1 <= n <= 8 -> 0 <= v -> v < 2 ^ (8 * n) -> v < two63 ->
  encode_int_n v n = Ok (be_encode (Z.to_nat n) (Z.to_N v)).
Proof. exact encode_int_n_ok. Qed.
Print Assumptions C12_int_accepts.
(* values that do not fit, negative values and sizes outside 1..8 are rejected *)
Theorem C12_int_rejects : forall v n,
  v < 0 \/ n < 1 \/ n > 8 \/ (n < 8 /\ v >= 2 ^ (8 * n)) -> encode_int_n v n = Err.
Proof. exact encode_int_n_reject. Qed.
Print Assumptions C12_int_rejects.
Example C12_int_nonvacuous :
  encode_int_n 258 2 = Ok [1; 2]%N /\ decode_int_n [1; 2]%N = Ok 258 /\ encode_int_n 256 1 = Err.
Proof. vm_compute. auto. Qed.

(* NewIntegerFromInt obeys the same rules (it is the same function of its arguments) *)
Theorem C12_new_integer_same : forall v n, new_integer_from_int v n = encode_int_n v n.
Proof. reflexivity. Qed.

(* fixed-width helpers *)
Theorem C12_fixed_unsigned : forall n v, (v < 256 ^ N.of_nat n)%N ->
  decode_uint (encode_uint n v) = v /\ length (encode_uint n v) = n.
Proof. exact fixed_uint_roundtrip. Qed.
Print Assumptions C12_fixed_unsigned.
Theorem C12_fixed_signed : forall n v, (n = 2 \/ n = 4 \/ n = 8)%nat ->
  - 2 ^ (8 * Z.of_nat n - 1) <= v < 2 ^ (8 * Z.of_nat n - 1) ->
  decode_sint n (encode_sint n v) = v /\ length (encode_sint n v) = n.
Proof. exact fixed_sint_roundtrip. Qed.
Print Assumptions C12_fixed_signed.

(* millisecond dates: every int64 value >= 0 *)
Theorem C12_date_millis : forall ms, 0 <= ms < two63 ->
  exists d, new_date_from_millis ms = Ok d /\ length d = 8%nat /\ date_int d = ms /\ Z.of_N (be_decode d) = ms.
Proof. exact date_millis_roundtrip. Qed.
Print Assumptions C12_date_millis.
Theorem C12_date_millis_rejects : forall ms, ms < 0 -> new_date_from_millis ms = Err.
Proof. exact date_millis_reject. Qed.
Example C12_date_nonvacuous :
  new_date_from_millis 9223372036855 = Ok [0; 0; 8; 99; 123; 208; 90; 247]%N.
Proof. vm_compute. reflexivity. Qed.

(* strings up to 255 bytes round-trip, with any remainder; longer ones are rejected *)
Theorem C12_string_roundtrip : forall s r, (length s <= 255)%nat ->
  exists t, to_i2pstring s = Ok t /\ read_i2pstring (t ++ r) = Ok (t, r) /\ str_data t = Ok s.
Proof.
  intros s r H. destruct (to_i2pstring_ok s H) as [A [B C]].
  eexists. split; [exact A|]. split; [exact (read_i2pstring_app _ r B) | exact C].
Qed.
Print Assumptions C12_string_roundtrip.
Theorem C12_string_rejects : forall s, (length s > 255)%nat -> to_i2pstring s = Err.
Proof. exact to_i2pstring_reject. Qed.

(* readers never return a complete value for input shorter than the declared length *)
Theorem C12_read_string_short : forall b,
  match b with [] => True | l :: _ => (length b < N.to_nat l + 1)%nat end -> read_i2pstring b = Err.
Proof. exact read_i2pstring_short. Qed.
Theorem C12_read_string_frame : forall b s r, read_i2pstring b = Ok (s, r) ->
  exists l rest, b = l :: rest /\ b = s ++ r /\ length s = (N.to_nat l + 1)%nat.
Proof. exact read_i2pstring_ok. Qed.
Theorem C12_read_date_short : forall b, (length b < 8)%nat -> read_date b = Err.
Proof. exact read_date_short. Qed.
Theorem C12_read_hash_short : forall b, (length b < 32)%nat -> read_hash b = Err.
Proof. exact read_hash_short. Qed.
Theorem C12_read_integer : forall b size i r,
  read_integer b size = Ok (i, r) -> 1 <= size <= 8 ->
  (Z.of_nat (length b) < size -> i = b /\ r = []) /\
  (size <= Z.of_nat (length b) -> b = i ++ r /\ Z.of_nat (length i) = size).
Proof. exact read_integer_spec. Qed.
Print Assumptions C12_read_integer.

(* the unsigned accessor returns the full 64-bit range *)
Theorem C12_uint_safe_full_range : forall v, (v < 2 ^ 64)%N -> integer_uint_safe (be_encode 8 v) = Ok v.
Proof. exact uint_safe_range. Qed.
Print Assumptions C12_uint_safe_full_range.
Example C12_uint_nonvacuous : integer_uint_safe (repeatN 255 8) = Ok 18446744073709551615%N.
Proof. vm_compute. reflexivity. Qed.
