(* C15 — expiry arithmetic is exact over the whole range of the wire fields. *)
From Model Require Import Bytes Prim Time.
From Proofs Require Import BytesLemmas PrimProofs TimeProofs.
Open Scope Z_scope.

(* published + expires: every 32-bit published time x every 16-bit offset, no wrap *)
Theorem C15_expiration_exact : forall p e, (p < 2 ^ 32)%N -> (e < 2 ^ 16)%N ->
  published_unix p = Z.of_N p /\ expiration_unix p e = Z.of_N p + Z.of_N e.
Proof. exact expiration_exact. Qed.
Print Assumptions C15_expiration_exact.
Theorem C15_lease_date_exact : forall d, length d = 8%nat -> wf d -> (be_decode d < 2 ^ 63)%N ->
  lease_time_millis d = Z.of_N (be_decode d).
Proof. exact lease_time_exact. Qed.
Theorem C15_lease2_conversion_exact : forall e, (e < 2 ^ 32)%N ->
  lease2_time_unix e = Z.of_N e /\ be_decode (lease2_date e) = (e * 1000)%N /\ length (lease2_date e) = 8%nat.
Proof. exact lease2_exact. Qed.
Theorem C15_offline_expiry_exact : forall e, (e < 2 ^ 32)%N ->
  off_expires_unix e = Z.of_N e /\ be_decode (off_expires_date e) = (e * 1000)%N.
Proof. exact offline_expiry_exact. Qed.
Print Assumptions C15_offline_expiry_exact.
(* the 32-bit lease constructor stores in-range times exactly and rejects the others *)
Theorem C15_new_lease2_stores_exact : forall sec nsec, 0 <= nsec < NS -> 0 <= sec <= 4294967295 ->
  new_lease2_end sec nsec = Ok (be_encode 4 (Z.to_N sec)) /\ be_decode (be_encode 4 (Z.to_N sec)) = Z.to_N sec.
Proof. exact new_lease2_accepts. Qed.
Theorem C15_new_lease2_rejects_out_of_range : forall sec nsec, 0 <= nsec < NS -> - two63 <= sec < two63 - 1 ->
  sec < 0 \/ sec > 4294967295 -> new_lease2_end sec nsec = Err.
Proof. exact new_lease2_rejects. Qed.
Print Assumptions C15_new_lease2_rejects_out_of_range.
(* newest / oldest expiration are members of the leases and bound all the others *)
Theorem C15_newest_bounds_all : forall dates n, newest_of dates = Some n ->
  In n dates /\ forall x, In x dates -> lease_time_millis x <= lease_time_millis n.
Proof. exact newest_spec. Qed.
Theorem C15_oldest_bounds_all : forall dates o, oldest_of dates = Some o ->
  In o dates /\ forall x, In x dates -> lease_time_millis o <= lease_time_millis x.
Proof. exact oldest_spec. Qed.
Print Assumptions C15_oldest_bounds_all.
Theorem C15_newest_defined : forall dates, dates <> [] -> exists n, newest_of dates = Some n.
Proof. exact newest_nonempty. Qed.
Theorem C15_expired_iff_past : forall now expiry, is_expired now expiry = true <-> now > expiry.
Proof. exact is_expired_iff. Qed.
Example C15_nonvacuous :
  expiration_unix 4294967295 65535 = 4295032830 /\ new_lease2_end 4294967296 0 = Err /\
  newest_of [[0;0;0;0;0;0;0;5]; [0;0;0;0;0;0;0;9]; [0;0;0;0;0;0;0;7]]%N = Some [0;0;0;0;0;0;0;9]%N.
Proof. vm_compute. auto. Qed.
