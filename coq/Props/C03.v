(* C03 — stream framing: consumed ++ remainder = input; the result ignores trailing bytes;
   no proper prefix of a completely consumed encoding parses. *)
From Model Require Import Bytes Prim Tables Cert KAC Mapping Sig LS RI.
From Gen Require Import Validators.
From Proofs Require Import BytesLemmas PrimProofs Frame LeafProofs KacRT OffProofs MapRT UptoRT AppendAll Retail LSStrip GuardTie LSPrefix.
Open Scope Z_scope.

(* general: prefix-freeness is a consequence of append-invariance, for every parser *)
Theorem C03_append_invariance_gives_prefix_freedom : forall A (P : parser A), AppendInv P -> PrefixFree P.
Proof. exact @AppendInv_PrefixFree. Qed.
Print Assumptions C03_append_invariance_gives_prefix_freedom.
Theorem C03_consumed_length_independent_of_tail : forall A (P : parser A) x v r y v' r',
  AppendInv P -> P x = Ok (v, r) -> P (x ++ y) = Ok (v', r') ->
  v' = v /\ (length (x ++ y) - length r' = length x - length r)%nat.
Proof. exact @AppendInv_consumed. Qed.

Theorem C03_fixed_size_append : forall n, AppendInv (take n).
Proof. exact take_AppendInv. Qed.
Theorem C03_fixed_size_prefix_free : forall n, PrefixFree (take n).
Proof. intros n. apply AppendInv_PrefixFree, take_AppendInv. Qed.
Theorem C03_signature_append : forall t, AppendInv (fun x => read_signature x t).
Proof. exact read_signature_AppendInv. Qed.
Theorem C03_signature_prefix_free : forall t, PrefixFree (fun x => read_signature x t).
Proof. intros t. apply AppendInv_PrefixFree, read_signature_AppendInv. Qed.
Print Assumptions C03_signature_prefix_free.
(* certificate: the value keeps the trailing bytes in its payload by design (ExcessBytes /
   RawBytes); serialisation, type, declared length and consumed extent are unaffected *)
Theorem C03_certificate_append : forall x c r y, wf x -> read_certificate x = Ok (c, r) ->
  exists c', read_certificate (x ++ y) = Ok (c', r ++ y) /\ cert_bytes c' = cert_bytes c
             /\ c_kind c' = c_kind c /\ c_len c' = c_len c.
Proof. exact read_certificate_AppendInv. Qed.
Print Assumptions C03_certificate_append.
Theorem C03_certificate_extent : forall x c r, wf x -> read_certificate x = Ok (c, r) ->
  r = skipn (3 + Z.to_nat (cert_len_int c)) x /\ 0 <= cert_len_int c <= Z.of_nat (length x) - 3.
Proof. intros x c r W H. destruct (read_certificate_shape _ _ _ W H) as [_ [_ [B E]]]. auto. Qed.
Theorem C03_string_append : forall s r, str_is_valid s = true -> read_i2pstring (s ++ r) = Ok (s, r).
Proof. exact read_i2pstring_app. Qed.

(* keys-and-cert / destination / router identity: appended bytes leave the remainder, keys,
   padding, declared types and the serialisation unchanged (the key certificate's payload
   view grows, as for the bare certificate); hence no proper prefix of a completely consumed
   encoding parses *)
Theorem C03_key_certificate_append : forall x k r y, wf (x ++ y) -> new_key_certificate x = Ok (k, r) ->
  exists k', new_key_certificate (x ++ y) = Ok (k', r ++ y) /\ keycert_bytes k' = keycert_bytes k /\
             kc_spk k' = kc_spk k /\ kc_cpk k' = kc_cpk k.
Proof. exact new_key_certificate_AppendInv. Qed.
Theorem C03_keys_and_cert_append : AppendInvR read_keys_and_cert kac_same.
Proof. exact read_keys_and_cert_AppendInv. Qed.
Theorem C03_destination_append : AppendInvR read_destination kac_same.
Proof. exact read_destination_AppendInv. Qed.
Theorem C03_router_identity_append : AppendInvR read_router_identity kac_same.
Proof. exact read_router_identity_AppendInv. Qed.
Theorem C03_keys_and_cert_prefix_free : forall w v, wf w -> read_keys_and_cert w = Ok (v, []) ->
  forall k, (k < length w)%nat -> forall v' r', read_keys_and_cert (firstn k w) <> Ok (v', r').
Proof. exact (AppendInvR_PrefixFree _ _ read_keys_and_cert_AppendInv). Qed.
Theorem C03_destination_prefix_free : forall w v, wf w -> read_destination w = Ok (v, []) ->
  forall k, (k < length w)%nat -> forall v' r', read_destination (firstn k w) <> Ok (v', r').
Proof. exact (AppendInvR_PrefixFree _ _ read_destination_AppendInv). Qed.
Theorem C03_router_identity_prefix_free : forall w v, wf w -> read_router_identity w = Ok (v, []) ->
  forall k, (k < length w)%nat -> forall v' r', read_router_identity (firstn k w) <> Ok (v', r').
Proof. exact (AppendInvR_PrefixFree _ _ read_router_identity_AppendInv). Qed.
Print Assumptions C03_router_identity_prefix_free.

Theorem C03_offline_signature_append : forall dt, AppendInv (fun d => read_offline_signature d dt).
Proof. exact read_offline_AppendInv. Qed.
Theorem C03_offline_signature_prefix_free : forall dt, PrefixFree (fun d => read_offline_signature d dt).
Proof. intros dt. apply AppendInv_PrefixFree, read_offline_AppendInv. Qed.
Print Assumptions C03_offline_signature_prefix_free.

(* EncryptedLeaseSet and RouterAddress: exactly — same value, remainder extended *)
Theorem C03_encrypted_lease_set_append : AppendInv read_encrypted_lease_set.
Proof. exact read_els_AppendInv. Qed.
Theorem C03_encrypted_lease_set_prefix_free : PrefixFree read_encrypted_lease_set.
Proof. apply AppendInv_PrefixFree, read_els_AppendInv. Qed.
Theorem C03_router_address_append : AppendInv read_router_address.
Proof. exact read_router_address_AppendInv. Qed.
Theorem C03_router_address_prefix_free : PrefixFree read_router_address.
Proof. apply AppendInv_PrefixFree, read_router_address_AppendInv. Qed.
Print Assumptions C03_router_address_prefix_free.
(* a mapping: same pairs, remainder extended, at most the non-fatal "data beyond" warning added *)
Theorem C03_mapping_append : forall b m r e y, read_mapping b = Some (m, r, e) -> fatal_errors e = [] ->
  exists e', read_mapping (b ++ y) = Some (m, r ++ y, e') /\ fatal_errors e' = [].
Proof. exact read_mapping_app. Qed.
(* consumed ++ remainder = input for the structures that embed mappings *)
Theorem C03_router_info_consumed_prefix : forall d i r, wf d -> read_router_info d = Ok (i, r) ->
  exists b n, router_info_bytes i = Ok b /\ length d = (length b + n + length r)%nat /\ (b ++ r = d <-> n = 0%nat).
Proof. exact UptoRT.read_router_info_upto. Qed.
(* LeaseSet2 / MetaLeaseSet: every field but the destination is unchanged, the destination
   changes only in its certificate's view of trailing bytes (kac_same); hence prefix-freeness *)
Theorem C03_lease_set2_append : AppendInvR read_lease_set2 ls2_same.
Proof. exact read_lease_set2_AppendInv. Qed.
Theorem C03_lease_set2_prefix_free : forall w v, wf w -> read_lease_set2 w = Ok (v, []) ->
  forall k, (k < length w)%nat -> forall v' r', read_lease_set2 (firstn k w) <> Ok (v', r').
Proof. exact (AppendInvR_PrefixFree _ _ read_lease_set2_AppendInv). Qed.
Theorem C03_meta_lease_set_append : AppendInvR read_meta_lease_set meta_same.
Proof. exact read_meta_lease_set_AppendInv. Qed.
Theorem C03_meta_lease_set_prefix_free : forall w v, wf w -> read_meta_lease_set w = Ok (v, []) ->
  forall k, (k < length w)%nat -> forall v' r', read_meta_lease_set (firstn k w) <> Ok (v', r').
Proof. exact (AppendInvR_PrefixFree _ _ read_meta_lease_set_AppendInv). Qed.
Print Assumptions C03_meta_lease_set_prefix_free.
(* RouterInfo: published date, addresses, peer size, options and signature unchanged; the
   identity changes only in its certificate's view of trailing bytes *)
Theorem C03_router_info_append : AppendInvR read_router_info ri_same.
Proof. exact read_router_info_AppendInv. Qed.
Theorem C03_router_info_prefix_free : forall w v, wf w -> read_router_info w = Ok (v, []) ->
  forall k, (k < length w)%nat -> forall v' r', read_router_info (firstn k w) <> Ok (v', r').
Proof. exact (AppendInvR_PrefixFree _ _ read_router_info_AppendInv). Qed.
Print Assumptions C03_router_info_prefix_free.
(* LeaseSet (v1): whatever follows the signature is ignored — same value, exactly *)
Theorem C03_lease_set_ignores_trailing : forall d l y, wf (d ++ y) -> read_lease_set d = Ok l -> read_lease_set (d ++ y) = Ok l.
Proof. exact read_lease_set_ignores_trailing. Qed.

(* ---- replace the tail: the general form of "the result does not depend on what follows" ----
   a reader that accepts c ++ t leaving t accepts c ++ t' leaving t', for EVERY t', with a value
   of the same serialisation (append-invariance is t' = t ++ y; t' = [] is "the consumed bytes
   alone parse with an empty remainder") *)
Theorem C03_replace_tail_certificate : forall x c r r', wf x -> read_certificate x = Ok (c, r) ->
  exists b c', cert_bytes c = Ok b /\ x = b ++ r /\ read_certificate (b ++ r') = Ok (c', r') /\
    cert_bytes c' = Ok b /\ c_kind c' = c_kind c /\ cert_len_int c' = cert_len_int c /\ cert_kind_int c' = cert_kind_int c.
Proof. exact read_certificate_retail. Qed.
Theorem C03_replace_tail_key_certificate : forall x kc r r', wf x -> new_key_certificate x = Ok (kc, r) ->
  exists b kc', keycert_bytes kc = Ok b /\ x = b ++ r /\ new_key_certificate (b ++ r') = Ok (kc', r') /\
    keycert_bytes kc' = Ok b /\ kc_signing_type kc' = kc_signing_type kc /\ kc_crypto_type kc' = kc_crypto_type kc.
Proof. exact new_key_certificate_retail. Qed.
Theorem C03_replace_tail_keys_and_cert : forall x k r r', wf x -> read_keys_and_cert x = Ok (k, r) ->
  exists b k', kac_bytes k = Ok b /\ x = b ++ r /\ read_keys_and_cert (b ++ r') = Ok (k', r') /\ kac_bytes k' = Ok b /\
    kc_signing_type (k_kc k') = kc_signing_type (k_kc k) /\ kc_crypto_type (k_kc k') = kc_crypto_type (k_kc k).
Proof. exact read_keys_and_cert_retail. Qed.
Print Assumptions C03_replace_tail_keys_and_cert.
Theorem C03_replace_tail_destination : forall x k r r', wf x -> read_destination x = Ok (k, r) ->
  exists b k', kac_bytes k = Ok b /\ x = b ++ r /\ read_destination (b ++ r') = Ok (k', r') /\ kac_bytes k' = Ok b /\
    kc_signing_type (k_kc k') = kc_signing_type (k_kc k) /\ kc_crypto_type (k_kc k') = kc_crypto_type (k_kc k).
Proof. exact read_destination_retail. Qed.
Theorem C03_replace_tail_mapping : forall c r r' m e, wf (c ++ r) -> read_mapping (c ++ r) = Some (m, r, e) -> fatal_errors e = [] ->
  exists e', read_mapping (c ++ r') = Some (m, r', e') /\ fatal_errors e' = [].
Proof. exact read_mapping_retail. Qed.
(* LeaseSet2: provided the new input is not shorter than the reader's whole-input minimum (D6) *)
Theorem C03_replace_tail_lease_set2 : forall x l r r', wf x -> wf r' -> read_lease_set2 x = Ok (l, r) ->
  exists c, x = c ++ r /\
    (Gen.Consts.c_lease_set2_LEASESET2_MIN_SIZE <= Z.of_nat (length (c ++ r')) ->
     exists l', read_lease_set2 (c ++ r') = Ok (l', r') /\ lease_set2_bytes l' = lease_set2_bytes l).
Proof. exact read_lease_set2_retail. Qed.
Print Assumptions C03_replace_tail_lease_set2.
Theorem C03_replace_tail_meta_lease_set : forall x l r r', wf x -> wf r' -> read_meta_lease_set x = Ok (l, r) ->
  exists c, x = c ++ r /\
    (Gen.Consts.c_meta_leaseset_META_LEASESET_MIN_SIZE <= Z.of_nat (length (c ++ r')) ->
     exists l', read_meta_lease_set (c ++ r') = Ok (l', r') /\ meta_lease_set_bytes l' = meta_lease_set_bytes l).
Proof. exact read_meta_lease_set_retail. Qed.
Theorem C03_replace_tail_router_address : forall d a r, wf d -> read_router_address d = Ok (a, r) ->
  exists c, d = c ++ r /\ wf r /\ (12 <= length c)%nat /\ forall t', wf t' -> read_router_address (c ++ t') = Ok (a, t').
Proof. exact read_router_address_retail. Qed.
Theorem C03_replace_tail_router_info : forall d i r r', wf d -> wf r' -> read_router_info d = Ok (i, r) ->
  exists c i', d = c ++ r /\ read_router_info (c ++ r') = Ok (i', r') /\ router_info_bytes i' = router_info_bytes i.
Proof. exact read_router_info_retail. Qed.
Print Assumptions C03_replace_tail_router_info.
(* LeaseSet (version 1) reports no remainder: what it looks at is exactly its own serialisation —
   the input with everything after that cut off is accepted as the same value *)
Theorem C03_lease_set_reads_only_its_serialisation : forall d l, wf d -> read_lease_set d = Ok l ->
  exists b r, lease_set_bytes l = Ok b /\ b ++ r = d /\ read_lease_set b = Ok l.
Proof. exact read_lease_set_strip. Qed.
(* ... and although it reports no remainder, it accepts no proper prefix of an input it consumes
   completely (an input that is exactly the accepted value's serialisation) *)
Theorem C03_lease_set_prefix_free : forall w l, wf w -> read_lease_set w = Ok l -> lease_set_bytes l = Ok w ->
  forall k, (k < length w)%nat -> forall l', read_lease_set (firstn k w) <> Ok l'.
Proof. exact read_lease_set_prefix_free. Qed.
Print Assumptions C03_lease_set_prefix_free.
(* non-vacuous: every input ReadLeaseSet accepts has such a serialisation *)
Theorem C03_lease_set_accepted_prefix_free : forall d l, wf d -> read_lease_set d = Ok l ->
  exists b, lease_set_bytes l = Ok b /\ read_lease_set b = Ok l /\
    forall k, (k < length b)%nat -> forall l', read_lease_set (firstn k b) <> Ok l'.
Proof. exact read_lease_set_accepted_prefix_free. Qed.
(* the destination in front of a LeaseSet: whatever follows it can be replaced *)
Theorem C03_replace_tail_destination_from_leaseset : forall d dest rem t', wf d -> wf t' ->
  read_destination_from_leaseset d = Ok (dest, rem) ->
  exists db, kac_bytes dest = Ok db /\ d = db ++ rem /\ (387 <= length db)%nat /\
             read_destination_from_leaseset (db ++ t') = Ok (dest, t').
Proof. exact read_dfl_retail. Qed.
Print Assumptions C03_replace_tail_destination_from_leaseset.
(* the readers' own minimum-size guards, regenerated from their Go bodies, are the comparisons the
   model makes, and what the source's guard refuses the model's reader refuses (Proofs/GuardTie.v
   has the whole family: offline signature, MetaLeaseSet, EncryptedLeaseSet, keys-and-cert) *)
Theorem C03_source_guards_are_the_models :
  (forall d dt, g_offline_signature_validateMinimumOfflineSignatureData (Z.of_nat (length d)) = false -> read_offline_signature d dt = Err) /\
  (forall d, g_meta_leaseset_validateMinSize (Z.of_nat (length d)) = false -> read_meta_lease_set d = Err) /\
  (forall d, g_encrypted_leaseset_validateEncryptedLeaseSetSize d = false -> read_encrypted_lease_set d = Err) /\
  (forall d, g_keys_and_cert_validateKeysAndCertDataSize (Z.of_nat (length d)) = false -> read_keys_and_cert d = Err) /\
  (forall n, g_meta_leaseset_validateEntryCount n =
             negb ((n <? Gen.Consts.c_meta_leaseset_META_LEASESET_MIN_ENTRIES) || (n >? Gen.Consts.c_meta_leaseset_META_LEASESET_MAX_ENTRIES))).
Proof.
  split; [exact off_min_data_rejects|]. split; [exact meta_min_size_rejects|]. split; [exact els_min_size_rejects|].
  split; [exact kac_data_size_rejects|exact tie_meta_entry_count].
Qed.
Print Assumptions C03_source_guards_are_the_models.
