(* C03 — stream framing: consumed ++ remainder = input; the result ignores trailing bytes;
   no proper prefix of a completely consumed encoding parses. *)
From Model Require Import Bytes Prim Tables Cert KAC Sig.
From Proofs Require Import BytesLemmas PrimProofs Frame LeafProofs KacRT OffProofs.
Open Scope Z_scope.

(* general: prefix-freeness is a consequence of append-invariance, for every parser *)
Theorem C03_append_invariance_gives_prefix_freedom : forall A (P : parser A), AppendInv P -> PrefixFree P.
Proof. exact @AppendInv_PrefixFree. Qed.
Print Assumptions C03_append_invariance_gives_prefix_freedom.
Theorem C03_consumed_length_independent_of_tail : forall A (P : parser A) x v r y v' r',
  AppendInv P -> P x = Ok (v, r) -> P (x ++ y) = Ok (v', r') ->
  v' = v /\ (length (x ++ y) - length r' = length x - length r)%nat.
Proof. exact @AppendInv_consumed. Qed.

Theorem C03_fixed_size_append : forall n, AppendInv (take n).
Proof. exact take_AppendInv. Qed.
Theorem C03_fixed_size_prefix_free : forall n, PrefixFree (take n).
Proof. intros n. apply AppendInv_PrefixFree, take_AppendInv. Qed.
Theorem C03_signature_append : forall t, AppendInv (fun x => read_signature x t).
Proof. exact read_signature_AppendInv. Qed.
Theorem C03_signature_prefix_free : forall t, PrefixFree (fun x => read_signature x t).
Proof. intros t. apply AppendInv_PrefixFree, read_signature_AppendInv. Qed.
Print Assumptions C03_signature_prefix_free.
(* certificate: the value keeps the trailing bytes in its payload by design (ExcessBytes /
   RawBytes); serialisation, type, declared length and consumed extent are unaffected *)
Theorem C03_certificate_append : forall x c r y, wf x -> read_certificate x = Ok (c, r) ->
  exists c', read_certificate (x ++ y) = Ok (c', r ++ y) /\ cert_bytes c' = cert_bytes c
             /\ c_kind c' = c_kind c /\ c_len c' = c_len c.
Proof. exact read_certificate_AppendInv. Qed.
Print Assumptions C03_certificate_append.
Theorem C03_certificate_extent : forall x c r, wf x -> read_certificate x = Ok (c, r) ->
  r = skipn (3 + Z.to_nat (cert_len_int c)) x /\ 0 <= cert_len_int c <= Z.of_nat (length x) - 3.
Proof. intros x c r W H. destruct (read_certificate_shape _ _ _ W H) as [_ [_ [B E]]]. auto. Qed.
Theorem C03_string_append : forall s r, str_is_valid s = true -> read_i2pstring (s ++ r) = Ok (s, r).
Proof. exact read_i2pstring_app. Qed.

(* keys-and-cert / destination / router identity: appended bytes leave the remainder, keys,
   padding, declared types and the serialisation unchanged (the key certificate's payload
   view grows, as for the bare certificate); hence no proper prefix of a completely consumed
   encoding parses *)
Theorem C03_key_certificate_append : forall x k r y, wf (x ++ y) -> new_key_certificate x = Ok (k, r) ->
  exists k', new_key_certificate (x ++ y) = Ok (k', r ++ y) /\ keycert_bytes k' = keycert_bytes k /\
             kc_spk k' = kc_spk k /\ kc_cpk k' = kc_cpk k.
Proof. exact new_key_certificate_AppendInv. Qed.
Theorem C03_keys_and_cert_append : AppendInvR read_keys_and_cert kac_same.
Proof. exact read_keys_and_cert_AppendInv. Qed.
Theorem C03_destination_append : AppendInvR read_destination kac_same.
Proof. exact read_destination_AppendInv. Qed.
Theorem C03_router_identity_append : AppendInvR read_router_identity kac_same.
Proof. exact read_router_identity_AppendInv. Qed.
Theorem C03_keys_and_cert_prefix_free : forall w v, wf w -> read_keys_and_cert w = Ok (v, []) ->
  forall k, (k < length w)%nat -> forall v' r', read_keys_and_cert (firstn k w) <> Ok (v', r').
Proof. exact (AppendInvR_PrefixFree _ _ read_keys_and_cert_AppendInv). Qed.
Theorem C03_destination_prefix_free : forall w v, wf w -> read_destination w = Ok (v, []) ->
  forall k, (k < length w)%nat -> forall v' r', read_destination (firstn k w) <> Ok (v', r').
Proof. exact (AppendInvR_PrefixFree _ _ read_destination_AppendInv). Qed.
Theorem C03_router_identity_prefix_free : forall w v, wf w -> read_router_identity w = Ok (v, []) ->
  forall k, (k < length w)%nat -> forall v' r', read_router_identity (firstn k w) <> Ok (v', r').
Proof. exact (AppendInvR_PrefixFree _ _ read_router_identity_AppendInv). Qed.
Print Assumptions C03_router_identity_prefix_free.

Theorem C03_offline_signature_append : forall dt, AppendInv (fun d => read_offline_signature d dt).
Proof. exact read_offline_AppendInv. Qed.
Theorem C03_offline_signature_prefix_free : forall dt, PrefixFree (fun d => read_offline_signature d dt).
Proof. intros dt. apply AppendInv_PrefixFree, read_offline_AppendInv. Qed.
Print Assumptions C03_offline_signature_prefix_free.
