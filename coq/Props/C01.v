(* C01 — re-serialising any accepted wire input reproduces the consumed bytes exactly.
   One theorem per parser/serialiser pair of the model; see DESIGN.md for the pairs that
   are so far covered by the correspondence check and oracle only. *)
From Model Require Import Bytes Prim Tables Cert KAC Mapping Sig LS RI.
From Proofs Require Import BytesLemmas PrimProofs Frame LeafProofs KacRT OffProofs MapRT LS2RT UptoRT LSRT Retail LSStrip.
Open Scope Z_scope.

Theorem C01_certificate : forall x c r, wf x -> read_certificate x = Ok (c, r) ->
  exists b, cert_bytes c = Ok b /\ b ++ r = x.
Proof. exact read_certificate_RoundTrip. Qed.
Print Assumptions C01_certificate.
Example C01_certificate_nonvacuous :
  read_certificate [5;0;4;0;7;0;4;9;9]%N = Ok (mkCert [5] [0;4] [0;7;0;4;9;9], [9;9])%N.
Proof. vm_compute. reflexivity. Qed.

Theorem C01_signature : forall t x s r, read_signature x t = Ok (s, r) -> sig_bytes s ++ r = x.
Proof. intros t x s r H. destruct (read_signature_RoundTrip t x s r H) as [b [E1 E2]]. injection E1 as <-. exact E2. Qed.
Print Assumptions C01_signature.

(* fixed-size structures: Lease (44), Lease2 (40), Date (8), Hash (32), session key (32),
   session tags (32, 8) are all [take n] *)
Theorem C01_fixed_size : forall n x v r, take n x = Ok (v, r) -> v ++ r = x /\ length v = n.
Proof. intros n x v r H. destruct (take_ok _ _ _ _ H). split; auto. Qed.
Theorem C01_lease : forall x v r, read_lease x = Ok (v, r) -> v ++ r = x.
Proof. intros x v r H. apply (C01_fixed_size _ _ _ _ H). Qed.
Theorem C01_lease2 : forall x v r, read_lease2 x = Ok (v, r) -> v ++ r = x.
Proof. intros x v r H. apply (C01_fixed_size _ _ _ _ H). Qed.
Theorem C01_date : forall x v r, read_date x = Ok (v, r) -> v ++ r = x.
Proof. intros x v r H. apply (C01_fixed_size _ _ _ _ H). Qed.
Theorem C01_hash : forall x v r, read_hash x = Ok (v, r) -> v ++ r = x.
Proof. intros x v r H. apply (C01_fixed_size _ _ _ _ H). Qed.
Theorem C01_string : forall x s r, read_i2pstring x = Ok (s, r) -> s ++ r = x.
Proof. intros x s r H. destruct (read_i2pstring_ok _ _ _ H) as [l [rest [_ [E _]]]]. auto. Qed.
Print Assumptions C01_string.

(* keys-and-cert, destination, router identity: every accepted input, every declared key-type
   pair, any certificate payload excess, any trailing data *)
Theorem C01_key_certificate : forall x k r, wf x -> new_key_certificate x = Ok (k, r) ->
  exists b, keycert_bytes k = Ok b /\ b ++ r = x.
Proof. exact new_key_certificate_RoundTrip. Qed.
Theorem C01_keys_and_cert : forall x k r, wf x -> read_keys_and_cert x = Ok (k, r) ->
  exists b, kac_bytes k = Ok b /\ b ++ r = x.
Proof. exact read_keys_and_cert_RoundTrip. Qed.
Print Assumptions C01_keys_and_cert.
Theorem C01_destination : forall x k r, wf x -> read_destination x = Ok (k, r) ->
  exists b, kac_bytes k = Ok b /\ b ++ r = x.
Proof. exact read_destination_RoundTrip. Qed.
Theorem C01_router_identity : forall x k r, wf x -> read_router_identity x = Ok (k, r) ->
  exists b, kac_bytes k = Ok b /\ b ++ r = x.
Proof. exact read_router_identity_RoundTrip. Qed.
Print Assumptions C01_router_identity.
Example C01_keys_and_cert_nonvacuous :
  match read_keys_and_cert (repeatN 1 32 ++ repeatN 2 320 ++ repeatN 3 32 ++ [5; 0; 6; 0; 7; 0; 4; 9; 9; 8]%N) with
  | Ok (k, r) => r = [8%N] /\ kac_bytes k = Ok (repeatN 1 32 ++ repeatN 2 320 ++ repeatN 3 32 ++ [5; 0; 6; 0; 7; 0; 4; 9; 9]%N)
  | _ => False end.
Proof. vm_compute. split; reflexivity. Qed.

(* offline signature (every transient and destination signing type) and the whole
   EncryptedLeaseSet (blinded key of any known type, flags, optional offline signature, inner
   blob, signature of the effective type) *)
Theorem C01_offline_signature : forall d dt o r, wf d -> read_offline_signature d dt = Ok (o, r) -> off_bytes o ++ r = d.
Proof. exact read_offline_RoundTrip. Qed.
Theorem C01_encrypted_lease_set : forall d l r, wf d -> read_encrypted_lease_set d = Ok (l, r) -> els_bytes l ++ r = d.
Proof. exact read_els_RoundTrip. Qed.
Print Assumptions C01_encrypted_lease_set.

(* mapping: re-serialisation reproduces the consumed bytes exactly when the declared size
   holds no slack (known finding D2 is the other case, and only that) *)
Theorem C01_mapping_iff_no_slack : forall b m r e, wf b ->
  read_mapping b = Some (m, r, e) -> fatal_errors e = [] ->
  exists slack, b = firstn 2 b ++ serialize_pairs (map_values m) ++ slack ++ r /\
                (slack = [] \/ has_min_bytes slack = false) /\
                (mapping_data m ++ r = b <-> slack = []).
Proof. exact mapping_roundtrip_iff_no_slack. Qed.

(* LeaseSet (v1): ReadLeaseSet returns no remainder; the serialisation is the prefix of the
   input up to and including the signature *)
Theorem C01_lease_set : forall d l, wf d -> read_lease_set d = Ok l ->
  exists b r, lease_set_bytes l = Ok b /\ b ++ r = d.
Proof. exact read_lease_set_RoundTrip. Qed.
Print Assumptions C01_lease_set.
(* the structures that embed option mappings: Bytes() ++ remainder is the input with the
   mappings' slack bytes removed — n is the total number of slack bytes, and the round trip is
   exact precisely when n = 0.  This is the whole extent of known finding D2: nothing else in
   RouterAddress / RouterInfo / LeaseSet2 / MetaLeaseSet can make re-serialisation differ. *)
Theorem C01_router_address : forall d a r, wf d -> read_router_address d = Ok (a, r) ->
  exists c n, d = c ++ r /\ length c = (length (router_address_bytes a) + n)%nat /\
              (n = 0%nat -> c = router_address_bytes a).
Proof.
  intros d a r W H. destruct (read_router_address_upto d a r W H) as [c [n [E [[L U] _]]]]. eauto.
Qed.
Theorem C01_router_info : forall d i r, wf d -> read_router_info d = Ok (i, r) ->
  exists b n, router_info_bytes i = Ok b /\ length d = (length b + n + length r)%nat /\ (b ++ r = d <-> n = 0%nat).
Proof. exact read_router_info_upto. Qed.
Theorem C01_lease_set2 : forall x l r, wf x -> read_lease_set2 x = Ok (l, r) ->
  exists b n, lease_set2_bytes l = Ok b /\ length x = (length b + n + length r)%nat /\ (b ++ r = x <-> n = 0%nat).
Proof. exact read_lease_set2_upto. Qed.
Theorem C01_meta_lease_set : forall d l r, wf d -> read_meta_lease_set d = Ok (l, r) ->
  exists b n, meta_lease_set_bytes l = Ok b /\ length d = (length b + n + length r)%nat /\ (b ++ r = d <-> n = 0%nat).
Proof. exact read_meta_lease_set_upto. Qed.
Print Assumptions C01_meta_lease_set.
(* and the slack is exactly what the mapping parser leaves unparsed inside the declared size *)
Theorem C01_lease_set2_shape : forall x l r, wf x -> read_lease_set2 x = Ok (l, r) ->
  exists pre sz slack post,
    x = pre ++ sz ++ serialize_pairs (map_values (l2_options l)) ++ slack ++ post ++ r /\
    lease_set2_bytes l = Ok (pre ++ be_encode 2 (N.of_nat (length (serialize_pairs (map_values (l2_options l))))) ++
                             serialize_pairs (map_values (l2_options l)) ++ post) /\
    length sz = 2%nat /\ wf sz /\
    integer_int sz = Z.of_nat (length (serialize_pairs (map_values (l2_options l)) ++ slack)) /\
    (slack = [] \/ has_min_bytes slack = false).
Proof. exact read_lease_set2_shape. Qed.

(* ---- the serialisation is itself an accepted encoding of the same value (idempotence): the
   consumed bytes alone parse, with an empty remainder, to a value with the same serialisation ---- *)
Theorem C01_keys_and_cert_serialisation_parses_back : forall x k r, wf x -> read_keys_and_cert x = Ok (k, r) ->
  exists b k', kac_bytes k = Ok b /\ read_keys_and_cert b = Ok (k', []) /\ kac_bytes k' = Ok b.
Proof.
  intros x k r W H. destruct (read_keys_and_cert_retail x k r [] W H) as [b [k' [KB [_ [R [KB' _]]]]]].
  rewrite app_nil_r in R. exists b, k'. auto.
Qed.
Print Assumptions C01_keys_and_cert_serialisation_parses_back.
Theorem C01_destination_serialisation_parses_back : forall x k r, wf x -> read_destination x = Ok (k, r) ->
  exists b k', kac_bytes k = Ok b /\ read_destination b = Ok (k', []) /\ kac_bytes k' = Ok b.
Proof.
  intros x k r W H. destruct (read_destination_retail x k r [] W H) as [b [k' [KB [_ [R [KB' _]]]]]].
  rewrite app_nil_r in R. exists b, k'. auto.
Qed.
Theorem C01_key_certificate_serialisation_parses_back : forall x kc r, wf x -> new_key_certificate x = Ok (kc, r) ->
  exists b kc', keycert_bytes kc = Ok b /\ new_key_certificate b = Ok (kc', []) /\ keycert_bytes kc' = Ok b.
Proof.
  intros x kc r W H. destruct (new_key_certificate_retail x kc r [] W H) as [b [k' [KB [_ [R [KB' _]]]]]].
  rewrite app_nil_r in R. exists b, k'. auto.
Qed.
Theorem C01_certificate_serialisation_parses_back : forall x c r, wf x -> read_certificate x = Ok (c, r) ->
  exists b c', cert_bytes c = Ok b /\ read_certificate b = Ok (c', []) /\ cert_bytes c' = Ok b.
Proof.
  intros x c r W H. destruct (read_certificate_retail x c r [] W H) as [b [c' [CB [_ [R [CB' _]]]]]].
  rewrite app_nil_r in R. exists b, c'. auto.
Qed.
(* LeaseSet (version 1): the serialisation of a parsed value is a prefix of the input and, alone,
   parses to the very same value (ReadLeaseSet returns no remainder) *)
Theorem C01_lease_set_serialisation_parses_back : forall d l, wf d -> read_lease_set d = Ok l ->
  exists b r, lease_set_bytes l = Ok b /\ b ++ r = d /\ read_lease_set b = Ok l.
Proof. exact read_lease_set_strip. Qed.
Print Assumptions C01_lease_set_serialisation_parses_back.
