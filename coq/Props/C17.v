(* C17 — router address host/port accessors are consistent and never accept a hostname. *)
From Model Require Import Bytes Prim Mapping RI Base Addr.
From Gen Require Import Consts.
From Proofs Require Import AddrProofs.
Open Scope N_scope.

Theorem C17_valid_host_helper_agrees : forall a, ra_has_valid_host a = true <-> exists ip, ra_host a = Some ip.
Proof. exact has_valid_host_iff. Qed.
Theorem C17_valid_port_helper_agrees : forall a, ra_has_valid_port a = true <-> exists p, ra_port a = Some p.
Proof. exact has_valid_port_iff. Qed.
Theorem C17_host_is_ip_literal : forall a ip, ra_host a = Some ip ->
  exists h, ra_option_content a s_router_address_HOST_OPTION_KEY = Some h /\ parse_ip h = Some ip /\ h <> [].
Proof. exact host_is_ip_literal. Qed.
(* an accepted host contains '.' or ':' before any '%': names without them are rejected *)
Theorem C17_no_separator_no_host : forall s ip, parse_ip s = Some ip -> first_special s = 46 \/ first_special s = 58.
Proof. exact parse_ip_needs_separator. Qed.
Theorem C17_ipv4_literal_is_dotted_decimal : forall s ip, first_special s = 46 -> parse_ip s = Some ip ->
  Forall (fun c => is_digit c = true \/ c = 46) s /\ is_v4 ip = true /\ length ip = 16%nat.
Proof. exact parse_ip_v4_literal. Qed.
Print Assumptions C17_ipv4_literal_is_dotted_decimal.
Theorem C17_port_canonical : forall a p, ra_port a = Some p -> exists n, (1 <= n <= 65535)%Z /\ p = itoa (Z.to_N n).
Proof. exact port_canonical. Qed.
Theorem C17_ip_version_matches_family : forall a ip, ra_host a = Some ip ->
  ra_ip_version a = if is_v4 ip then s_router_address_IPV4_VERSION_STRING else s_router_address_IPV6_VERSION_STRING.
Proof. exact ip_version_matches_host. Qed.
Theorem C17_option_lookup_exact_key : forall v key x, values_get v key = Some x ->
  exists kd p, str_data key = Ok kd /\ In p v /\ str_data (fst p) = Ok kd /\ snd p = x.
Proof. exact values_get_exact. Qed.
Theorem C17_fixed_size_keys : forall a key size d, ra_fixed_key a key size = Some d -> Z.of_nat (length d) = size.
Proof. exact fixed_key_length. Qed.
Print Assumptions C17_fixed_size_keys.
Example C17_nonvacuous :
  parse_ip [49;46;50;46;51;46;52] = Some (repeatN 0 10 ++ [255;255;1;2;3;4]) /\   (* "1.2.3.4" *)
  parse_ip [58;58;49] = Some (repeatN 0 15 ++ [1]) /\                             (* "::1" *)
  parse_ip [101;120;97;109;112;108;101;46;111;114;103] = None /\                  (* "example.org" *)
  parse_ip [102;101;56;48;58;58;49;37;101;116;104;48] = None /\                   (* "fe80::1%eth0" *)
  atoi [43;56;48] = Some 80%Z /\ itoa 80 = [56;48].
Proof. vm_compute. repeat split; reflexivity. Qed.
