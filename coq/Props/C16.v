(* C16 — encrypted leaseset: decrypt(encrypt x) = x; blinding deterministic (partial: the
   cryptographic primitives are parameters; their laws are explicit premises). *)
From Model Require Import Bytes Prim Enc.
From Proofs Require Import EncProofs.
Open Scope Z_scope.

Theorem C16_decrypt_encrypt :
  forall dh pubof kdf aead_enc aead_dec,
    (forall a b, dh a (pubof b) = dh b (pubof a)) ->
    (forall k n p, let '(c, t) := aead_enc k n p in aead_dec k n c t = Some p /\ length t = 16%nat) ->
    (forall a, length (pubof a) = 32%nat) ->
    (forall a, canonical_pub (pubof a) = true) ->
  forall sk esk nonce pt cookie, length nonce = 12%nat -> length cookie = 32%nat ->
    els_decrypt dh kdf aead_dec cookie sk (els_encrypt dh pubof kdf aead_enc (pubof sk) esk nonce pt) = Ok pt.
Proof. exact els_decrypt_encrypt. Qed.
Print Assumptions C16_decrypt_encrypt.
Theorem C16_ciphertext_is_partitioned : forall d e n c t, els_split d = Ok (e, n, c, t) ->
  d = e ++ n ++ c ++ t /\ length e = 32%nat /\ length n = 12%nat /\ length t = 16%nat.
Proof. exact els_split_partition. Qed.
Theorem C16_every_byte_is_an_input : forall d d' s, els_split d = Ok s -> els_split d' = Ok s -> d = d'.
Proof. exact els_split_injective. Qed.
Theorem C16_decryption_uses_exactly_the_parts : forall dh kdf aead_dec cookie sk d e n c t p,
  els_split d = Ok (e, n, c, t) -> els_decrypt dh kdf aead_dec cookie sk d = Ok p ->
  aead_dec (kdf (dh sk e)) n c t = Some p.
Proof. exact els_decrypt_inputs. Qed.
(* the key agreement ignores the top bit of its public input: only the canonical encoding of the
   ephemeral key is accepted, so that bit cannot be flipped unnoticed (defect D23, repaired) *)
Theorem C16_noncanonical_ephemeral_key_rejected : forall dh kdf aead_dec cookie sk d e n c t,
  els_split d = Ok (e, n, c, t) -> canonical_pub e = false -> els_decrypt dh kdf aead_dec cookie sk d = Err.
Proof. exact els_decrypt_noncanonical. Qed.
Theorem C16_short_data_rejected : forall dh kdf aead_dec cookie sk d, (length d < 60)%nat ->
  els_decrypt dh kdf aead_dec cookie sk d = Err.
Proof. exact els_decrypt_short. Qed.
(* blinding date: a function of the UTC calendar day only, and injective on days *)
Theorem C16_date_is_function_of_utc_day : forall s s', s / 86400 = s' / 86400 -> date_string s = date_string s'.
Proof. exact date_string_of_day. Qed.
Theorem C16_distinct_days_distinct_dates : forall a b, 0 <= a <= 49711 -> 0 <= b <= 49711 ->
  day_code a = day_code b -> a = b.
Proof. exact day_code_injective. Qed.
Print Assumptions C16_distinct_days_distinct_dates.
Example C16_nonvacuous : date_string 0 = [49;57;55;48;45;48;49;45;48;49]%N /\      (* 1970-01-01 *)
  date_string 1709251199 = [50;48;50;52;45;48;50;45;50;57]%N /\                   (* 2024-02-29 *)
  date_string 1709251200 = [50;48;50;52;45;48;51;45;48;49]%N.                     (* 2024-03-01 *)
Proof. vm_compute. repeat split; reflexivity. Qed.
