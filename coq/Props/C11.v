(* C11 — Mapping: map -> bytes -> map is the identity and the encoding is canonical. *)
From Coq Require Import Sorting Permutation.
From Model Require Import Bytes Prim Mapping.
From Proofs Require Import BytesLemmas PrimProofs MappingProofs MapRT.
Open Scope Z_scope.

(* the encoding is sorted by key (bytewise), whatever the iteration order *)
Theorem C11_encoding_sorted : forall l, Sorted key_le (mapping_order l).
Proof. exact mapping_order_sorted. Qed.
Print Assumptions C11_encoding_sorted.
Theorem C11_encoding_keeps_all_pairs : forall l, Permutation l (mapping_order l).
Proof. exact mapping_order_perm. Qed.
(* the two-byte size field equals the number of bytes that follow *)
Theorem C11_size_field : forall m sz, m_size m = Some sz ->
  (N.of_nat (length (serialize_pairs (map_values m))) < 65536)%N ->
  exists payload, mapping_data m = be_encode 2 (N.of_nat (length payload)) ++ payload /\
                  payload = serialize_pairs (map_values m) /\
                  be_decode (firstn 2 (mapping_data m)) = N.of_nat (length payload).
Proof. exact mapping_data_size_field. Qed.
Print Assumptions C11_size_field.
(* inputs beyond the limits are rejected rather than truncated *)
Theorem C11_long_string_rejected : forall kv,
  Exists (fun p => (length (fst p) > 255 \/ length (snd p) > 255)%nat) kv -> go_map_to_mapping kv = Err.
Proof. exact go_map_rejects_long. Qed.
Theorem C11_too_many_pairs_rejected : forall v, (length v > 1000)%nat -> values_to_mapping v = Err.
Proof. exact values_to_mapping_rejects_many. Qed.
Example C11_nonvacuous_short_pair :
  (do m <- go_map_to_mapping [([97], [])]%N; Ok (mapping_data m)) = Ok [0; 5; 1; 97; 61; 0; 59]%N /\
  (match read_mapping [0; 5; 1; 97; 61; 0; 59]%N with
   | Some (m, r, e) => (map_values m, r, e) | None => ([], [], [MZero]) end) = ([([1; 97], [0])], [], [])%N.
Proof. vm_compute. auto. Qed.

(* map -> bytes -> map: any association list with distinct keys that GoMapToMapping accepts
   (strings up to 255 bytes, any byte values including '=' and ';', at most 1000 pairs, at most
   65,535 bytes) serialises to bytes that ReadMapping parses completely, with NO errors, back
   to exactly the serialised pairs, which are the input entries sorted by key *)
Theorem C11_roundtrip : forall kv m, NoDup (map fst kv) -> go_map_to_mapping kv = Ok m ->
  exists sz, read_mapping (mapping_data m) = Some (mkMap (Some sz) (Some (map_values m)), [], []) /\
    Permutation (map_values m) (map wire_pair kv) /\ Sorted key_le (map_values m) /\
    be_decode sz = N.of_nat (length (serialize_pairs (map_values m))).
Proof. exact go_map_roundtrip. Qed.
Print Assumptions C11_roundtrip.
(* the parser inverts the serialiser on every list of valid pairs with distinct keys, also
   when other data follows (the only diagnostic is then the non-fatal "data beyond" warning) *)
Theorem C11_parse_serialised : forall ps rest,
  Forall pair_ok ps -> NoDup (keys_of ps) -> (length ps <= 1000)%nat ->
  (N.of_nat (length (serialize_pairs ps)) < 65536)%N ->
  let payload := serialize_pairs ps in
  let sz := be_encode 2 (N.of_nat (length payload)) in
  read_mapping (sz ++ payload ++ rest) =
    Some (mkMap (Some sz) (Some ps), rest, match ps, rest with [], _ => [] | _, [] => [] | _, _ => [MBeyond] end).
Proof. exact read_mapping_serialized. Qed.
Print Assumptions C11_parse_serialised.
Theorem C11_oversize_rejected : forall kv p, to_pairs kv = Ok p ->
  65535 < Z.of_nat (length (serialize_pairs (mapping_order p))) -> go_map_to_mapping kv = Err.
Proof. exact go_map_rejects_over_size. Qed.
(* what an error-free parse (the embedded-mapping warning aside) says about the input: size
   field, the serialised pairs, slack that cannot hold a pair, remainder — and Data()
   reproduces the consumed bytes exactly when there is no slack *)
Theorem C11_parsed_without_error_reserialises_iff_no_slack : forall b m r e, wf b ->
  read_mapping b = Some (m, r, e) -> fatal_errors e = [] ->
  exists slack, b = firstn 2 b ++ serialize_pairs (map_values m) ++ slack ++ r /\
                (slack = [] \/ has_min_bytes slack = false) /\
                (mapping_data m ++ r = b <-> slack = []).
Proof. exact mapping_roundtrip_iff_no_slack. Qed.
Print Assumptions C11_parsed_without_error_reserialises_iff_no_slack.
(* the parser's loop never runs out of fuel: at most length+1 iterations, at most 1000 pairs *)
Theorem C11_parser_terminates : forall b, read_mapping b <> None.
Proof. exact read_mapping_terminates. Qed.
(* "a mapping parsed without error re-serialises to the bytes it was read from" is FALSE of
   the faithful model (known finding D2): 1-5 bytes of slack inside the declared size *)
Theorem C11_reserialise_refuted : exists x m, read_mapping x = Some (m, [], []) /\ mapping_data m <> x.
Proof.
  exists [0; 8; 1; 97; 61; 0; 59; 1; 2; 3]%N. eexists. split; [vm_compute; reflexivity|]. vm_compute. discriminate.
Qed.
