(* C11 — Mapping: map -> bytes -> map is the identity and the encoding is canonical. *)
From Coq Require Import Sorting Permutation.
From Model Require Import Bytes Prim Mapping.
From Proofs Require Import BytesLemmas PrimProofs MappingProofs.
Open Scope Z_scope.

(* the encoding is sorted by key (bytewise), whatever the iteration order *)
Theorem C11_encoding_sorted : forall l, Sorted key_le (mapping_order l).
Proof. exact mapping_order_sorted. Qed.
Print Assumptions C11_encoding_sorted.
Theorem C11_encoding_keeps_all_pairs : forall l, Permutation l (mapping_order l).
Proof. exact mapping_order_perm. Qed.
(* the two-byte size field equals the number of bytes that follow *)
Theorem C11_size_field : forall m sz, m_size m = Some sz ->
  (N.of_nat (length (serialize_pairs (map_values m))) < 65536)%N ->
  exists payload, mapping_data m = be_encode 2 (N.of_nat (length payload)) ++ payload /\
                  payload = serialize_pairs (map_values m) /\
                  be_decode (firstn 2 (mapping_data m)) = N.of_nat (length payload).
Proof. exact mapping_data_size_field. Qed.
Print Assumptions C11_size_field.
(* inputs beyond the limits are rejected rather than truncated *)
Theorem C11_long_string_rejected : forall kv,
  Exists (fun p => (length (fst p) > 255 \/ length (snd p) > 255)%nat) kv -> go_map_to_mapping kv = Err.
Proof. exact go_map_rejects_long. Qed.
Theorem C11_too_many_pairs_rejected : forall v, (length v > 1000)%nat -> values_to_mapping v = Err.
Proof. exact values_to_mapping_rejects_many. Qed.
Example C11_nonvacuous_short_pair :
  (do m <- go_map_to_mapping [([97], [])]%N; Ok (mapping_data m)) = Ok [0; 5; 1; 97; 61; 0; 59]%N /\
  (match read_mapping [0; 5; 1; 97; 61; 0; 59]%N with
   | Some (m, r, e) => (map_values m, r, e) | None => ([], [], [MZero]) end) = ([([1; 97], [0])], [], [])%N.
Proof. vm_compute. auto. Qed.

(* the full round-trip statement (being proved; until then decided on the model by the
   correspondence check and on the implementation by the round-trip oracle) *)
Definition C11_roundtrip_statement : Prop :=
  forall kv m, NoDup (map fst kv) -> go_map_to_mapping kv = Ok m ->
    exists m', read_mapping (mapping_data m) = Some (m', [], []) /\
               map_values m' = map_values m /\ Permutation (map_values m) (map (fun p => (N.of_nat (length (fst p)) :: fst p, N.of_nat (length (snd p)) :: snd p)) kv).
