(* C04 — no input makes a parser, decoder or accessor panic or hang.  In the model only the
   primitive slice/index/deref operations can yield [Panic]; every model function is a
   structurally terminating Gallina function (fuel only in the mapping loop). *)
From Model Require Import Bytes Prim Tables Cert KAC Sig.
From Proofs Require Import BytesLemmas PrimProofs Frame LeafProofs TableProofs KacRT OffProofs.
Open Scope Z_scope.

Theorem C04_fixed_size : forall n, NoPanic (take n).
Proof. exact take_NoPanic. Qed.
Theorem C04_read_integer : forall b size, read_integer b size <> Panic.
Proof. exact read_integer_nopanic. Qed.
Theorem C04_read_string : forall b, read_i2pstring b <> Panic.
Proof. exact read_i2pstring_nopanic. Qed.
Theorem C04_string_data : forall s, str_data s <> Panic.
Proof. exact str_data_nopanic. Qed.
Theorem C04_certificate : NoPanic read_certificate.
Proof. exact read_certificate_NoPanic. Qed.
Print Assumptions C04_certificate.
(* every type code, not only 0..65535 *)
Theorem C04_signature : forall t, NoPanic (fun x => read_signature x t).
Proof. exact read_signature_NoPanic. Qed.
Theorem C04_signature_size_never_negative_or_huge : forall t n, sig_length t = Some n -> 0 < n <= 512.
Proof. exact sig_length_bounds. Qed.
Theorem C04_signature_unknown_type_is_error : forall t, ~ In t [0;1;2;3;4;5;6;7;8;11] -> sig_length t = None.
Proof. exact sig_length_unknown. Qed.
Print Assumptions C04_signature_unknown_type_is_error.

(* key certificate, keys-and-cert, destination, router identity: any bytes at all (not even
   well-formedness of the byte values is assumed) *)
Theorem C04_key_certificate : forall x, new_key_certificate x <> Panic.
Proof. exact new_key_certificate_NoPanic. Qed.
Theorem C04_keys_and_cert : NoPanic read_keys_and_cert.
Proof. exact read_keys_and_cert_NoPanic. Qed.
Theorem C04_destination : NoPanic read_destination.
Proof. exact read_destination_NoPanic. Qed.
Theorem C04_router_identity : NoPanic read_router_identity.
Proof. exact read_router_identity_NoPanic. Qed.
Print Assumptions C04_router_identity.

Theorem C04_offline_signature : forall dt, NoPanic (fun d => read_offline_signature d dt).
Proof. exact read_offline_NoPanic. Qed.
Theorem C04_offline_sizes_never_negative : forall t, 0 <= off_spk_size t /\ 0 <= off_sig_size t.
Proof. intros t. split; [apply off_spk_size_nonneg|apply off_sig_size_nonneg]. Qed.
