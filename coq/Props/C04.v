(* C04 — no input makes a parser, decoder or accessor panic or hang.  In the model only the
   primitive slice/index/deref operations can yield [Panic]; every model function is a
   structurally terminating Gallina function (fuel only in the mapping loop). *)
From Model Require Import Bytes Prim Tables Cert KAC Mapping Sig LS RI.
From Proofs Require Import BytesLemmas PrimProofs Frame LeafProofs TableProofs KacRT OffProofs MapRT NoPanicAll.
Open Scope Z_scope.

Theorem C04_fixed_size : forall n, NoPanic (take n).
Proof. exact take_NoPanic. Qed.
Theorem C04_read_integer : forall b size, read_integer b size <> Panic.
Proof. exact read_integer_nopanic. Qed.
Theorem C04_read_string : forall b, read_i2pstring b <> Panic.
Proof. exact read_i2pstring_nopanic. Qed.
Theorem C04_string_data : forall s, str_data s <> Panic.
Proof. exact str_data_nopanic. Qed.
Theorem C04_certificate : NoPanic read_certificate.
Proof. exact read_certificate_NoPanic. Qed.
Print Assumptions C04_certificate.
(* every type code, not only 0..65535 *)
Theorem C04_signature : forall t, NoPanic (fun x => read_signature x t).
Proof. exact read_signature_NoPanic. Qed.
Theorem C04_signature_size_never_negative_or_huge : forall t n, sig_length t = Some n -> 0 < n <= 512.
Proof. exact sig_length_bounds. Qed.
Theorem C04_signature_unknown_type_is_error : forall t, ~ In t [0;1;2;3;4;5;6;7;8;11] -> sig_length t = None.
Proof. exact sig_length_unknown. Qed.
Print Assumptions C04_signature_unknown_type_is_error.

(* key certificate, keys-and-cert, destination, router identity: any bytes at all (not even
   well-formedness of the byte values is assumed) *)
Theorem C04_key_certificate : forall x, new_key_certificate x <> Panic.
Proof. exact new_key_certificate_NoPanic. Qed.
Theorem C04_keys_and_cert : NoPanic read_keys_and_cert.
Proof. exact read_keys_and_cert_NoPanic. Qed.
Theorem C04_destination : NoPanic read_destination.
Proof. exact read_destination_NoPanic. Qed.
Theorem C04_router_identity : NoPanic read_router_identity.
Proof. exact read_router_identity_NoPanic. Qed.
Print Assumptions C04_router_identity.

Theorem C04_offline_signature : forall dt, NoPanic (fun d => read_offline_signature d dt).
Proof. exact read_offline_NoPanic. Qed.
Theorem C04_offline_sizes_never_negative : forall t, 0 <= off_spk_size t /\ 0 <= off_sig_size t.
Proof. intros t. split; [apply off_spk_size_nonneg|apply off_sig_size_nonneg]. Qed.

(* the mapping parser (the only loop whose bound is not structural) never exhausts its fuel:
   every continuing iteration consumes at least one byte *)
Theorem C04_mapping_parser_terminates : forall b, read_mapping b <> None.
Proof. exact read_mapping_terminates. Qed.
Theorem C04_mapping_pair_progress : forall r seen r' p e, parse_pair r seen = PPair r' p e -> (length r' < length r)%nat.
Proof. exact parse_pair_progress. Qed.

(* the composite structures: any bytes at all *)
Theorem C04_router_address : NoPanic read_router_address.
Proof. exact read_router_address_NoPanic. Qed.
Theorem C04_router_info : NoPanic read_router_info.
Proof. exact read_router_info_NoPanic. Qed.
Theorem C04_lease_set : forall d, read_lease_set d <> Panic.
Proof. exact read_lease_set_NoPanic. Qed.
Theorem C04_lease_set2 : NoPanic read_lease_set2.
Proof. exact read_lease_set2_NoPanic. Qed.
Theorem C04_meta_lease_set : NoPanic read_meta_lease_set.
Proof. exact read_meta_lease_set_NoPanic. Qed.
Theorem C04_encrypted_lease_set : NoPanic read_encrypted_lease_set.
Proof. exact read_encrypted_lease_set_NoPanic. Qed.
Print Assumptions C04_encrypted_lease_set.
