(* C08 — parsed values do not share memory with the caller's buffer (partial: the Go
   memory model is represented by the provenance abstraction of Model/Heap.v; what ties it
   to the code is the correspondence check, which overwrites the real buffer). *)
From Model Require Import Bytes Entries Prim Cert KAC Mapping Sig LS RI Heap AliasReviewed.
From Gen Require Import Aliases.
From Proofs Require Import HeapProofs.
Open Scope N_scope.

(* a value all of whose fields are fresh copies reports the same bytes whatever is later
   written into the buffer it was parsed from — for every sequence of overwrites, since only
   the final buffer contents matter *)
Theorem C08_fresh_fields_ignore_buffer : forall fields buf buf',
  all_fresh fields = true -> map (observe buf) fields = map (observe buf') fields.
Proof. exact fresh_fields_ignore_buffer. Qed.
Print Assumptions C08_fresh_fields_ignore_buffer.
Theorem C08_view_follows_buffer : forall o l buf buf',
  firstn l (skipn o buf) <> firstn l (skipn o buf') -> observe buf (View o l) <> observe buf' (View o l).
Proof. exact view_follows_buffer. Qed.
(* the structures named by the property keep no view of the input: certificate, key
   certificate, keys-and-cert (generic and typed readers), destination, router identity,
   signature, offline signature, lease, lease2, LeaseSet, EncryptedLeaseSet *)
Theorem C08_in_scope_structures_are_copies : forall e, In e in_scope ->
  forall x extra b, bytes_change e x extra = Ok b -> b = false.
Proof. exact in_scope_structures_are_copies. Qed.
(* LeaseSet2 / MetaLeaseSet: only the options / entry properties (mappings, whose strings
   are sub-slices by design) can follow the buffer *)
Theorem C08_leaseset2_only_options_alias : forall x extra,
  bytes_change E_ReadLeaseSet2 x extra = Ok true ->
  exists l r, read_lease_set2 x = Ok (l, r) /\ has_pairs (l2_options l) = true.
Proof. exact leaseset2_only_options_alias. Qed.
Print Assumptions C08_leaseset2_only_options_alias.
(* the same fact about the CODE: the aliasing summary regenerated from the Go source (go/ssa,
   translator/aliases: may the first result of an exported byte-slice function share memory with its
   argument?) says "no" for every function except those that return views by design, and every
   function that builds one of the structures the property names is in the summary with "no" *)
Theorem C08_source_summary_no_unintended_views : forallb alias_ok alias_summary = true.
Proof. vm_compute. reflexivity. Qed.
Theorem C08_source_summary_covers_the_named_structures :
  forallb (fun f => match alias_lookup alias_summary f with Some false => true | _ => false end) c08_functions = true.
Proof. vm_compute. reflexivity. Qed.
Print Assumptions C08_source_summary_covers_the_named_structures.
Example C08_nonvacuous : bytes_change E_ReadLease2 (repeatN 7 40) [] = Ok false /\
  bytes_change E_ReadMapping [0;6;1;97;61;1;98;59] [] = Ok true.
Proof. vm_compute. auto. Qed.
