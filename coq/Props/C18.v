(* C18 — shared values may be read concurrently (partial: the effect summary is a static
   over-approximation produced by /verif/translator/effects, the reviewed-site list is
   trusted, and Go's memory model is abstracted to sequentially consistent atomic steps). *)
From Coq Require Import List String NArith Bool Arith.
Open Scope bool_scope.
Import ListNotations.
From Gen Require Import Effects.
From Model Require Import Conc EffectsReviewed.
From Proofs Require Import ConcProofs.

(* general: threads that never write shared state see, under EVERY schedule, what they see
   alone, and the heap never changes (hence there is no conflicting access pair) *)
Theorem C18_read_only_threads_do_not_interfere : forall ts h0 sched,
  Forall (fun t => read_only t = true) ts ->
  let s := run sched (init ts h0) in
  hp s = h0 /\
  forall i t, nth_error ts i = Some t ->
    exists done rest, t = (done ++ rest)%list /\ nth_error (progs s) i = Some rest /\ nth i (logs s) [] = alone h0 done.
Proof.
  intros ts h0 sched RO. destruct (read_only_noninterference ts h0 sched RO) as [A [_ [_ B]]]. split; assumption.
Qed.
Print Assumptions C18_read_only_threads_do_not_interfere.
(* the premise, per operation: every potential shared-write site reachable from an exported
   method that is not a mutator is one of the reviewed sites (Effects.v is regenerated from
   the Go source on every run) *)
Theorem C18_read_only_methods_reach_only_reviewed_sites : forallb method_ok method_effects = true.
Proof. vm_compute. reflexivity. Qed.
Print Assumptions C18_read_only_methods_reach_only_reviewed_sites.
Example C18_nonvacuous : (200 <? List.length method_effects)%nat = true /\
  existsb (fun me => negb (is_mutator (fst me)) && negb (Nat.eqb (List.length (snd me)) 0)) method_effects = true.
Proof. vm_compute. auto. Qed.
