(* C06 — whatever the library signs it also verifies.  For any signature scheme whose
   correctness law holds (an explicit premise, not an axiom). *)
From Model Require Import Bytes Prim Tables Cert KAC Mapping Sig LS RI Crypto.
From Proofs Require Import CryptoProofs.
Open Scope Z_scope.

Theorem C06_encrypted_leaseset_sign_verify :
  forall verify sign pub, (forall sk m, verify ALG_ED25519 (pub sk) m (sign sk m) = true) ->
  forall l sk, el_offline l = None -> el_key l = pub sk -> length (pub sk) = 32%nat ->
    (el_sigtype l = 7 \/ el_sigtype l = 11)%N ->
    verdict verify (els_verify_queries (els_signed sign l sk)) = true.
Proof. exact els_sign_verify. Qed.
Print Assumptions C06_encrypted_leaseset_sign_verify.
Theorem C06_offline_signature_create_verify :
  forall verify sign pub, (forall sk m, verify ALG_ED25519 (pub sk) m (sign sk m) = true) ->
  forall e st tkey sk dt q,
    offline_query (offline_created sign e st tkey sk dt) (pub sk) = Some q -> q_alg q = ALG_ED25519 ->
    holds verify q = true.
Proof. exact offline_create_verify. Qed.
Print Assumptions C06_offline_signature_create_verify.
Example C06_nonvacuous : exists q,
  offline_query (offline_created (fun _ _ => repeatN 9 64) 5 7 (repeatN 2 32) [] 7) (repeatN 1 32) = Some q /\ q_alg q = ALG_ED25519.
Proof. eexists. vm_compute. split; reflexivity. Qed.
