(* C06 — whatever the library signs it also verifies.  For any signature scheme whose
   correctness law holds (an explicit premise, not an axiom). *)
From Model Require Import Bytes Prim Tables Cert KAC Mapping Sig LS RI Crypto.
From Proofs Require Import CryptoProofs SignRT ElsChain SpecRA SpecRI LSStrip.
From Spec Require Import Wire SpecTables.
Open Scope Z_scope.

Theorem C06_encrypted_leaseset_sign_verify :
  forall verify sign pub, (forall sk m, verify ALG_ED25519 (pub sk) m (sign sk m) = true) ->
  forall l sk, el_offline l = None -> el_key l = pub sk -> length (pub sk) = 32%nat ->
    (el_sigtype l = 7 \/ el_sigtype l = 11)%N ->
    verdict verify (els_verify_queries (els_signed sign l sk)) = true.
Proof. exact els_sign_verify. Qed.
Print Assumptions C06_encrypted_leaseset_sign_verify.
Theorem C06_offline_signature_create_verify :
  forall verify sign pub, (forall sk m, verify ALG_ED25519 (pub sk) m (sign sk m) = true) ->
  forall e st tkey sk dt q,
    offline_query (offline_created sign e st tkey sk dt) (pub sk) = Some q -> q_alg q = ALG_ED25519 ->
    holds verify q = true.
Proof. exact offline_create_verify. Qed.
Print Assumptions C06_offline_signature_create_verify.
Example C06_nonvacuous : exists q,
  offline_query (offline_created (fun _ _ => repeatN 9 64) 5 7 (repeatN 2 32) [] 7) (repeatN 1 32) = Some q /\ q_alg q = ALG_ED25519.
Proof. eexists. vm_compute. split; reflexivity. Qed.

(* RouterInfo and LeaseSet: the library signs the serialisation without the signature under
   the identity's key, and that is exactly what its verifier checks *)
Theorem C06_router_info_sign_verify :
  forall verify (sign : bytes -> bytes -> bytes) (pub : bytes -> bytes), (forall sk m, verify ALG_ED25519 (pub sk) m (sign sk m) = true) ->
  forall i sk m, ri_unsigned i = Ok m -> kac_signing_key (ri_ident i) = Some (pub sk) -> length (pub sk) = 32%nat ->
    verdict verify (ri_verify_queries (ri_with_sig i (mkSig 7 (sign sk m)))) = true.
Proof. exact ri_sign_verify. Qed.
Print Assumptions C06_router_info_sign_verify.
Theorem C06_lease_set_sign_verify :
  forall verify (sign : bytes -> bytes -> bytes) (pub : bytes -> bytes), (forall sk m, verify ALG_ED25519 (pub sk) m (sign sk m) = true) ->
  forall l sk m t, ls_unsigned l = Ok m -> kac_signing_key (ls_dest l) = Some (pub sk) ->
    alg_of_type (kc_signing_type (k_kc (ls_dest l))) = Some ALG_ED25519 -> sign sk m <> [] ->
    verdict verify (ls_verify_queries (ls_with_sig l (mkSig t (sign sk m)))) = true.
Proof. exact ls_sign_verify. Qed.
(* after the wire: verification is a function of the serialisation, the identity key and the
   signature, all of which a parse of the serialised bytes reproduces (C01) *)
Theorem C06_router_info_verification_depends_on_bytes_only : forall i i',
  router_info_bytes i = router_info_bytes i' -> kac_signing_key (ri_ident i) = kac_signing_key (ri_ident i') ->
  ri_sig i = ri_sig i' -> ri_verify_queries i = ri_verify_queries i'.
Proof. exact ri_verification_is_function_of_bytes. Qed.
Theorem C06_lease_set_verification_depends_on_bytes_only : forall l l',
  lease_set_bytes l = lease_set_bytes l' -> kac_signing_key (ls_dest l) = kac_signing_key (ls_dest l') ->
  ls_sig l = ls_sig l' -> kc_signing_type (k_kc (ls_dest l)) = kc_signing_type (k_kc (ls_dest l')) ->
  ls_verify_queries l = ls_verify_queries l'.
Proof. exact ls_verification_is_function_of_bytes. Qed.

(* EncryptedLeaseSet, after the wire: the signed value serialises to bytes that parse back to
   the very same value (ElsChain.els_accept), so what verified before the wire verifies after it *)
Theorem C06_encrypted_leaseset_verifies_after_wire :
  forall verify sign pub, (forall sk m, verify ALG_ED25519 (pub sk) m (sign sk m) = true) ->
  forall l sk, el_offline l = None -> el_key l = pub sk -> length (pub sk) = 32%nat ->
    (el_sigtype l = 7 \/ el_sigtype l = 11)%N ->
    els_validate (els_signed sign l sk) = true -> els_fits (els_signed sign l sk) ->
    exists l', read_encrypted_lease_set (els_bytes (els_signed sign l sk)) = Ok (l', []) /\
               verdict verify (els_verify_queries l') = true.
Proof.
  intros verify sign pub OK l sk Ho Hk Hl Ht V F. exists (els_signed sign l sk). split.
  - rewrite <- (app_nil_r (els_bytes _)). apply els_accept; assumption.
  - exact (els_sign_verify verify sign pub OK l sk Ho Hk Hl Ht).
Qed.
Print Assumptions C06_encrypted_leaseset_verifies_after_wire.

(* RouterInfo, after the wire: identity block with an Ed25519 key certificate (any admissible
   encryption type, any padding, any excess certificate payload), any published time, up to 255
   addresses with any options, any router options, trailing signature = the identity key's
   signature over everything before it (what NewRouterInfo assembles): the bytes are accepted by
   ReadRouterInfo with an empty remainder, the parsed value serialises to the same bytes, and
   VerifySignature succeeds on it — for any scheme with the correctness law and 64-byte signatures *)
Theorem C06_router_info_verifies_after_wire :
  forall verify (sign : bytes -> bytes -> bytes) (pubkey : bytes -> bytes),
  (forall sk m, verify ALG_ED25519 (pubkey sk) m (sign sk m) = true) -> (forall sk m, length (sign sk m) = 64%nat) ->
  forall (c : N) (cl : nat) pub pad extra published addrs opts sk,
    In c [0; 4; 5; 6; 7]%N -> spec_crypto_len (Z.of_N c) = Some (Z.of_nat cl) ->
    length pub = cl -> length (pubkey sk) = 32%nat -> length pad = (384 - cl - 32)%nat ->
    (N.of_nat (length extra) < 65532)%N -> ri_crypto_denied (Z.of_N c) = false ->
    (published < 2 ^ 64)%N -> (length addrs <= 255)%nat -> Forall ra_tuple_ok addrs -> opts_ok opts ->
    let ident := spec_identity pub pad (pubkey sk) (spec_keycert 7 c extra) in
    let unsigned := spec_router_info ident published addrs opts [] in
    let b := spec_router_info ident published addrs opts (sign sk unsigned) in
    wf b ->
    exists i, read_router_info b = Ok (i, []) /\ router_info_bytes i = Ok b /\
              verdict verify (ri_verify_queries i) = true.
Proof. exact router_info_verifies_after_wire. Qed.
Print Assumptions C06_router_info_verifies_after_wire.

(* LeaseSet (version 1), after the wire: whatever ReadLeaseSet accepts serialises to bytes that it
   accepts again as the very same value, so every verdict about the value — Verify() in
   particular, for any scheme — is the same before and after another trip over the wire *)
Theorem C06_lease_set_same_value_after_wire : forall verify d l, wf d -> read_lease_set d = Ok l ->
  exists b l', lease_set_bytes l = Ok b /\ read_lease_set b = Ok l' /\
               verdict verify (ls_verify_queries l') = verdict verify (ls_verify_queries l).
Proof.
  intros verify d l W H. destruct (read_lease_set_strip d l W H) as [b [r [B [_ R]]]].
  exists b, l. split; [exact B|]. split; [exact R|reflexivity].
Qed.
Print Assumptions C06_lease_set_same_value_after_wire.
