(* C14 — constructor success implies Validate success implies a clean wire round trip;
   documented defects are rejected by constructor and validator alike. *)
From Model Require Import Bytes Prim Tables Cert KAC Mapping Sig LS RI Validate.
From Gen Require Import Tables Validators.
From Coq Require Import Lia.
From Proofs Require Import BytesLemmas CtorProofs MappingProofs CtorRT ValidatorTie ElsChain LS2Layers Retail SpecRI LS2Accept LS2Chain MetaAccept LSStrip GuardTie.
Open Scope Z_scope.

Theorem C14_signature : forall d t s, new_signature_from_bytes d t = Ok s ->
  sig_validate s = true /\ read_signature (sig_bytes s) t = Ok (s, []).
Proof. exact new_signature_valid. Qed.
Print Assumptions C14_signature.
Theorem C14_signature_length_defect : forall d t n, sig_length t = Some n -> Z.of_nat (length d) <> n ->
  new_signature_from_bytes d t = Err /\ sig_validate (mkSig t d) = false.
Proof. exact signature_wrong_length_rejected. Qed.
Theorem C14_signature_type_defect : forall d t, sig_length t = None ->
  new_signature_from_bytes d t = Err /\ sig_validate (mkSig t d) = false.
Proof. exact signature_unknown_type_rejected. Qed.

Theorem C14_offline_signature_partial : forall e st key sg dt o,
  new_offline_signature e st key sg dt = Ok o -> e <> 0%N -> off_validate_structure o = true.
Proof. exact new_offline_valid. Qed.
(* the full statement (without e <> 0) is false of the faithful model: recorded finding D21 *)
Theorem C14_offline_zero_expires_refuted :
  match new_offline_signature 0 7 (repeatN 1 32) (repeatN 2 64) 7 with Ok o => off_validate_structure o = false | _ => False end.
Proof. exact offline_zero_expires_gap. Qed.
Theorem C14_offline_signature_defects : forall e st key sg dt,
  (off_spk_size (Z.of_N st) = 0 \/ Z.of_nat (length key) <> off_spk_size (Z.of_N st) \/
   off_sig_size (Z.of_N dt) = 0 \/ Z.of_nat (length sg) <> off_sig_size (Z.of_N dt)) ->
  new_offline_signature e st key sg dt = Err /\ off_validate_structure (mkOff e st key sg dt) = false.
Proof. exact offline_defects_rejected. Qed.
Print Assumptions C14_offline_signature_defects.

Theorem C14_keys_and_cert_partial : forall kc p pad s k,
  new_keys_and_cert kc (Some p) pad (Some s) = Ok k -> kac_validate k = true.
Proof. exact new_kac_valid. Qed.
(* with nil keys the constructor succeeds and Validate fails: recorded finding D11 *)
Theorem C14_keys_and_cert_nil_keys_refuted :
  match new_keys_and_cert gap_kc None (repeatN 0 384) None with Ok k => kac_validate k = false | _ => False end.
Proof. exact kac_nil_keys_gap. Qed.
Theorem C14_keys_and_cert_size_defect : forall kc p pad s,
  Z.of_nat (length p) <> kc_crypto_size_of kc \/ Z.of_nat (length s) <> kc_signing_pubkey_size kc ->
  new_keys_and_cert kc (Some p) pad (Some s) = Err.
Proof. exact kac_key_size_defect_rejected. Qed.

Theorem C14_certificate : forall t p c, new_certificate_with_type t p = Ok c ->
  cert_is_valid c = true /\ c_kind c = [Z.to_N t] /\ c_payload c = p /\ Z.of_nat (length p) <= 65535.
Proof. exact new_certificate_valid. Qed.
Print Assumptions C14_certificate.
Theorem C14_mapping_over_limit_rejected : forall v, (length v > 1000)%nat -> values_to_mapping v = Err.
Proof. exact values_to_mapping_rejects_many. Qed.

(* KeysAndCert: for every key-type pair the wire reader supports, a value the constructor
   returns validates, serialises, and the bytes (followed by anything) parse back to the same
   keys, padding and serialisation *)
Theorem C14_keys_and_cert_roundtrip : forall y kc p pad s k r,
  wf y -> new_key_certificate y = Ok (kc, []) -> wf (y ++ r) ->
  new_keys_and_cert kc (Some p) pad (Some s) = Ok k ->
  In (kc_crypto_type kc) [0; 4; 5; 6; 7] -> In (kc_signing_type kc) [0; 1; 2; 7; 8; 11] ->
  kac_validate k = true /\
  exists b k', kac_bytes k = Ok b /\ read_keys_and_cert (b ++ r) = Ok (k', r) /\ kac_bytes k' = Ok b /\
               k_pub k' = Some p /\ k_pad k' = pad /\ k_spk k' = Some s.
Proof. exact new_kac_roundtrip. Qed.
Print Assumptions C14_keys_and_cert_roundtrip.
(* ... and NOT for the other pairs the size tables know (finding D22): witness signing 7, crypto 1 *)
Theorem C14_keys_and_cert_unparseable_types_refuted :
  match new_keys_and_cert d22_kc (Some (repeatN 1 64)) (repeatN 2 288) (Some (repeatN 3 32)) with
  | Ok k => kac_validate k = true /\ match kac_bytes k with Ok b => read_keys_and_cert b = Err | _ => False end
  | _ => False
  end.
Proof. exact kac_unparseable_types_gap. Qed.
Theorem C14_offline_signature_roundtrip : forall e st key sg dt o r, new_offline_signature e st key sg dt = Ok o ->
  (e < 2 ^ 32)%N -> (st < 65536)%N -> read_offline_signature (off_bytes o ++ r) dt = Ok (o, r).
Proof. exact new_offline_roundtrip. Qed.

(* ---- the same inclusions over the validators REGENERATED from the Go source on every run
   (Gen/Validators.v): a change to a Go validator changes these definitions, and the theorems
   are re-checked against what the code says now ---- *)
(* the hand-written model's validators are the regenerated ones *)
Theorem C14_model_signature_validate_is_source : forall s, g_signature_Signature_Validate (view_sig s) = sig_validate s.
Proof. exact tie_signature_validate. Qed.
Theorem C14_model_offline_validate_is_source : forall o,
  g_offline_signature_OfflineSignature_ValidateStructure (view_off o) = off_validate_structure o.
Proof. exact tie_offline_validate. Qed.
Theorem C14_model_offline_ctor_is_source : forall e st key sg dt,
  g_offline_signature_NewOfflineSignature (Z.of_N e) (Z.of_N st) key sg (Z.of_N dt) =
  match new_offline_signature e st key sg dt with Ok _ => true | _ => false end.
Proof. exact tie_new_offline. Qed.
Theorem C14_model_els_validate_is_source : forall l, g_encrypted_leaseset_EncryptedLeaseSet_Validate (view_els l) = els_validate l.
Proof. exact tie_els_validate. Qed.
Print Assumptions C14_model_els_validate_is_source.
(* OfflineSignature: constructor checks imply ValidateStructure, except for expires = 0 (D21) *)
Theorem C14_source_offline_partial : forall e st key sg dt,
  g_offline_signature_NewOfflineSignature e st key sg dt = true -> e <> 0 ->
  g_offline_signature_OfflineSignature_ValidateStructure (built_offline e st key sg dt) = true.
Proof. exact gen_offline_ctor_validates. Qed.
Theorem C14_source_offline_zero_expires_refuted :
  exists st key sg dt, g_offline_signature_NewOfflineSignature 0 st key sg dt = true /\
    g_offline_signature_OfflineSignature_ValidateStructure (built_offline 0 st key sg dt) = false.
Proof. exact gen_offline_zero_expires_gap. Qed.
(* EncryptedLeaseSet: validateInputs (constructor) implies Validate, given a trailing signature
   valid for its own type; each documented defect is refused by both *)
Theorem C14_source_els_ctor_validates : forall st key e f off inner sg,
  g_encrypted_leaseset_validateInputs st key e f off inner = true ->
  g_signature_Signature_Validate sg = true ->
  g_encrypted_leaseset_EncryptedLeaseSet_Validate (built_els st key e f off inner sg) = true.
Proof. exact gen_els_ctor_validates. Qed.
Print Assumptions C14_source_els_ctor_validates.
Theorem C14_source_els_defects : forall st key e f off inner sg,
  (g_memZ st m_key_certificate_SigningKeySizes_keys = false \/
   Z.of_nat (length key) <> g_lookupZ m_key_certificate_SigningKeySizes_SigningPublicKeySize st \/
   e = 0 \/ Z.land f 65532 <> 0 \/
   (Z.land f 1 <> 0 /\ off = None) \/ (Z.land f 1 = 0 /\ off <> None) \/
   (Z.of_nat (length inner) < 61)) ->
  g_encrypted_leaseset_validateInputs st key e f off inner = false /\
  g_encrypted_leaseset_EncryptedLeaseSet_Validate (built_els st key e f off inner sg) = false.
Proof. exact gen_els_defects. Qed.
(* LeaseSet2: validateLeaseSet2Inputs (constructor) implies Validate; each documented defect
   (key count, key length not matching its type, flag / offline-signature mismatch, reserved
   bits, lease count) is refused by both *)
Theorem C14_source_ls2_ctor_validates : forall dsz dest e f off keys leases,
  g_lease_set2_validateLeaseSet2Inputs dsz dest e f off keys leases = true ->
  g_lease_set2_LeaseSet2_Validate (built_ls2 f off keys leases) = true.
Proof. exact gen_ls2_ctor_validates. Qed.
Print Assumptions C14_source_ls2_ctor_validates.
Theorem C14_source_ls2_defects : forall dsz dest e f off keys leases,
  ((length keys < 1)%nat \/ (length keys > 16)%nat \/
   Exists (fun k => g_lease_set2_validateEncryptionKeyConsistency 0 k = false) keys \/
   Z.land f 65528 <> 0 \/ (length leases > 16)%nat \/
   (Z.land f 1 <> 0 /\ off = None) \/ (Z.land f 1 = 0 /\ off <> None)) ->
  g_lease_set2_validateLeaseSet2Inputs dsz dest e f off keys leases = false /\
  g_lease_set2_LeaseSet2_Validate (built_ls2 f off keys leases) = false.
Proof. exact gen_ls2_defects. Qed.
(* LeaseSet2.Validate on a model value, in closed form *)
Theorem C14_source_ls2_validate_spec : forall l, Forall (fun k => (ek_type k < 65536)%N) (l2_keys l) ->
  ls2_validate l =
  (1 <=? Z.of_nat (length (l2_keys l))) && (Z.of_nat (length (l2_keys l)) <=? 16) && forallb enckey_valid (l2_keys l) &&
  Bool.eqb (has_offline (l2_flags l)) (match l2_offline l with Some _ => true | None => false end) &&
  (Z.land (Z.of_N (l2_flags l)) 65528 =? 0) && (Z.of_nat (length (l2_leases l)) <=? 16).
Proof. exact ls2_validate_spec. Qed.

(* ---- EncryptedLeaseSet: the whole chain ---- *)
(* every value the reader returns satisfies the (regenerated) validation and re-serialises to
   bytes that parse back, with an empty remainder, to the same value *)
Theorem C14_els_parsed_value_parses_back : forall d l r, wf d -> read_encrypted_lease_set d = Ok (l, r) ->
  els_validate l = true /\ read_encrypted_lease_set (els_bytes l) = Ok (l, []).
Proof. intros d l r W H. split; [exact (proj1 (read_els_inv d l r W H))|exact (read_els_reparse d l r W H)]. Qed.
Print Assumptions C14_els_parsed_value_parses_back.
(* any validated value whose fields fit their wire widths: Bytes() followed by anything parses
   back to it and leaves what followed *)
Theorem C14_els_validated_value_round_trips : forall l r, els_validate l = true -> els_fits l ->
  read_encrypted_lease_set (els_bytes l ++ r) = Ok (l, r).
Proof. exact els_accept. Qed.
(* from constructor arguments: what the constructor's (regenerated) checks accept, with the
   signature it then stores, validates and round-trips *)
Theorem C14_els_constructor_chain : forall st key pub e f off inner sg r,
  g_encrypted_leaseset_validateInputs (Z.of_N st) key (Z.of_N e) (Z.of_N f) (option_map view_off off) inner = true ->
  sig_validate sg = true ->
  els_fits (mkELS st key pub e f off (N.of_nat (length inner) mod 65536) inner sg) ->
  let l := mkELS st key pub e f off (N.of_nat (length inner) mod 65536) inner sg in
  els_validate l = true /\ read_encrypted_lease_set (els_bytes l ++ r) = Ok (l, r).
Proof. exact els_ctor_chain. Qed.
Print Assumptions C14_els_constructor_chain.

(* ---- LeaseSet2: the three layers do not describe the same set, and this is the difference ---- *)
(* what the parser guarantees of a value it returns: key count 1..16, lease count <= 16, the
   offline flag consistent with the offline block, every key's declared length equal to its
   actual length and its type code a 16-bit number *)
Theorem C14_ls2_parser_guarantees : forall x l r, wf x -> read_lease_set2 x = Ok (l, r) ->
  (1 <= length (l2_keys l) <= 16)%nat /\ (length (l2_leases l) <= 16)%nat /\
  has_offline (l2_flags l) = (match l2_offline l with Some _ => true | None => false end) /\
  Forall key_wellformed (l2_keys l).
Proof. exact read_lease_set2_layers. Qed.
(* what (the regenerated) Validate adds on a parsed value: exactly the key-length-for-type rule
   and the reserved flag bits *)
Theorem C14_ls2_validate_of_parsed : forall x l r, wf x -> read_lease_set2 x = Ok (l, r) ->
  ls2_validate l = forallb key_length_matches_type (l2_keys l) && (Z.land (Z.of_N (l2_flags l)) 65528 =? 0).
Proof. exact ls2_validate_of_parsed. Qed.
Print Assumptions C14_ls2_validate_of_parsed.
(* and the parser does return values that Validate (and the constructor) refuse: "parser accepts
   => Validate accepts" is false of the faithful model; witnesses *)
Theorem C14_ls2_parser_accepts_invalid_key_length_refuted :
  match read_lease_set2 ls2_key31 with Ok (l, []) => ls2_validate l = false | _ => False end.
Proof. exact parser_accepts_key_length_validate_rejects. Qed.
Theorem C14_ls2_parser_accepts_reserved_flag_refuted :
  match read_lease_set2 ls2_reserved_flag with Ok (l, []) => ls2_validate l = false | _ => False end.
Proof. exact parser_accepts_reserved_flag_validate_rejects. Qed.

(* a parsed LeaseSet2 whose serialisation reproduces the consumed bytes (no mapping slack, D2)
   and is not shorter than the reader's whole-input minimum (D6): Bytes() parses back, with an
   empty remainder, to a value with the same serialisation *)
Theorem C14_ls2_parsed_value_parses_back : forall x l r b, wf x -> read_lease_set2 x = Ok (l, r) ->
  lease_set2_bytes l = Ok b -> b ++ r = x -> Gen.Consts.c_lease_set2_LEASESET2_MIN_SIZE <= Z.of_nat (length b) ->
  exists l', read_lease_set2 b = Ok (l', []) /\ lease_set2_bytes l' = Ok b.
Proof. exact read_lease_set2_reparse. Qed.
Print Assumptions C14_ls2_parsed_value_parses_back.
Theorem C14_meta_parsed_value_parses_back : forall x l r b, wf x -> read_meta_lease_set x = Ok (l, r) ->
  meta_lease_set_bytes l = Ok b -> b ++ r = x -> Gen.Consts.c_meta_leaseset_META_LEASESET_MIN_SIZE <= Z.of_nat (length b) ->
  exists l', read_meta_lease_set b = Ok (l', []) /\ meta_lease_set_bytes l' = Ok b.
Proof. exact read_meta_lease_set_reparse. Qed.
Theorem C14_router_info_parsed_value_parses_back : forall d i r b, wf d -> read_router_info d = Ok (i, r) ->
  router_info_bytes i = Ok b -> b ++ r = d ->
  exists i', read_router_info b = Ok (i', []) /\ router_info_bytes i' = Ok b.
Proof. exact read_router_info_reparse. Qed.
Print Assumptions C14_router_info_parsed_value_parses_back.
(* LeaseSet (version 1): ReadLeaseSet returns no remainder and ignores what follows the signature;
   the serialisation of the value it returns, alone, is accepted as the very same value *)
Theorem C14_lease_set_parsed_value_parses_back : forall d l, wf d -> read_lease_set d = Ok l ->
  exists b r, lease_set_bytes l = Ok b /\ b ++ r = d /\ read_lease_set b = Ok l.
Proof. exact read_lease_set_strip. Qed.
Print Assumptions C14_lease_set_parsed_value_parses_back.
(* LeaseSet (version 1) assembled from parts — destination || 256-byte ElGamal key || signing key of
   the destination's type || lease count || 44-byte leases || signature of the destination's type
   (DSA-SHA1 sizes for a NULL-certificate destination): accepted, whatever follows, as exactly that
   value, which serialises to exactly those bytes *)
Theorem C14_lease_set_built_value_accepted : forall db dest kco ek skd (ls : list bytes) sgb sg y,
  let rest := ek ++ skd ++ [N.of_nat (length ls)] ++ concat ls ++ sgb in
  (387 <= length db)%nat ->
  read_destination_from_leaseset (db ++ rest ++ y) = Ok (dest, rest ++ y) ->
  length ek = 256%nat -> Model.ExtCrypto.elg_pubkey_ok ek = true ->
  dest_keycert_opt dest = Ok kco ->
  0 <= ls_sks kco -> Z.of_nat (length skd) = ls_sks kco ->
  match kco with
  | Some kc => construct_signing_public_key kc skd
  | None => if Model.ExtCrypto.dsa_pubkey_ok skd then Ok skd else Err
  end = Ok skd ->
  (length ls <= 16)%nat -> Forall (fun l => length l = LEASE_SIZE) ls ->
  0 <= ls_ss kco -> Z.of_nat (length sgb) = ls_ss kco ->
  new_signature_from_bytes sgb (ls_st kco) = Ok sg ->
  read_lease_set ((db ++ rest) ++ y) = Ok (mkLS dest ek skd (Z.of_nat (length ls)) ls sg) /\
  lease_set_bytes (mkLS dest ek skd (Z.of_nat (length ls)) ls sg) =
    (do dbb <- kac_bytes dest; Ok (dbb ++ ek ++ skd ++ [N.of_nat (length ls)] ++ concat ls ++ sig_bytes sg)).
Proof. exact lease_set_built_accepted. Qed.
Print Assumptions C14_lease_set_built_value_accepted.
(* ... and for values that were BUILT, not parsed.  LeaseSet2: any value whose fields fit their
   wire widths (ls2_fits: 32/16-bit header fields, offline block consistent with the flag and of
   the sizes its types dictate, 1..16 keys whose declared length is their length, at most 16
   40-byte leases, a signature of the length of its type, options that are a valid options list)
   and whose destination is one the destination reader produces serialises to bytes that,
   followed by anything, parse back to a value with the same fields and the same bytes.  The only
   size condition is the reader's whole-input minimum (finding D6). *)
Theorem C14_ls2_built_value_parses_back : forall l opts b x r0 r,
  ls2_fits l opts -> wf x -> read_destination x = Ok (l2_dest l, r0) ->
  lease_set2_bytes l = Ok b -> wf (b ++ r) ->
  Gen.Consts.c_lease_set2_LEASESET2_MIN_SIZE <= Z.of_nat (length (b ++ r)) ->
  exists l', read_lease_set2 (b ++ r) = Ok (l', r) /\ lease_set2_bytes l' = Ok b /\
    l2_published l' = l2_published l /\ l2_expires l' = l2_expires l /\ l2_flags l' = l2_flags l /\
    l2_offline l' = l2_offline l /\ map_values (l2_options l') = map Proofs.MapRT.wire_pair opts /\
    l2_keys l' = l2_keys l /\ l2_leases l' = l2_leases l /\ sig_bytes (l2_sig l') = sig_bytes (l2_sig l).
Proof. exact ls2_built_value_parses_back. Qed.
Print Assumptions C14_ls2_built_value_parses_back.
(* the premises are satisfiable: a concrete built value fits, its destination is one the reader
   produces, and its serialisation reaches the reader's minimum *)
Definition C14_ex_dest_bytes := Spec.Wire.spec_identity (repeatN 1 32) (repeatN 2 320) (repeatN 3 32) (Spec.Wire.spec_keycert 7 4 []).
Definition C14_ex_dest : kac := match read_destination C14_ex_dest_bytes with Ok (k, _) => k | _ => mkKAC (mkKC (mkCert [] [] []) [] []) None [] None end.
Definition C14_ex_ls2 : leaseset2 :=
  mkLS2 C14_ex_dest 1700000000 600 0 None (mkMap None None) [mkEK 4 32 (repeatN 7 32)] [repeatN 9 40; repeatN 8 40] (mkSig 7 (repeatN 5 64)).
Example C14_ls2_fits_nonvacuous : ls2_fits C14_ex_ls2 [] /\ read_destination C14_ex_dest_bytes = Ok (C14_ex_dest, []) /\
  exists b, lease_set2_bytes C14_ex_ls2 = Ok b /\ (499 <= Z.of_nat (length b)).
Proof.
  split; [|split].
  - constructor.
    + vm_compute. reflexivity.
    + vm_compute. reflexivity.
    + vm_compute. reflexivity.
    + vm_compute. reflexivity.
    + split; [|reflexivity]. repeat split; try constructor; vm_compute; try lia; try reflexivity.
    + split; [vm_compute; lia|]. constructor; [|constructor]. vm_compute. repeat split; reflexivity.
    + split; [vm_compute; lia|]. repeat constructor.
    + exists 64. vm_compute. split; reflexivity.
  - vm_compute. reflexivity.
  - eexists. split; [vm_compute; reflexivity|]. vm_compute. discriminate.
Qed.
(* the middle link of the chain for LeaseSet2, over the validator regenerated from the Go source:
   Validate success — together with what Go's types already guarantee of any LeaseSet2 value
   (ls2_typed) — implies the clean round trip *)
Theorem C14_ls2_validate_implies_round_trip : forall l opts b x r0 r,
  ls2_validate l = true -> ls2_typed l opts ->
  wf x -> read_destination x = Ok (l2_dest l, r0) ->
  lease_set2_bytes l = Ok b -> wf (b ++ r) ->
  Gen.Consts.c_lease_set2_LEASESET2_MIN_SIZE <= Z.of_nat (length (b ++ r)) ->
  exists l', read_lease_set2 (b ++ r) = Ok (l', r) /\ lease_set2_bytes l' = Ok b /\
    l2_published l' = l2_published l /\ l2_expires l' = l2_expires l /\ l2_flags l' = l2_flags l /\
    l2_offline l' = l2_offline l /\ map_values (l2_options l') = map Proofs.MapRT.wire_pair opts /\
    l2_keys l' = l2_keys l /\ l2_leases l' = l2_leases l /\ sig_bytes (l2_sig l') = sig_bytes (l2_sig l).
Proof. exact ls2_validated_value_parses_back. Qed.
Print Assumptions C14_ls2_validate_implies_round_trip.
(* MetaLeaseSet, likewise: header fields within their widths, 0..16 entries each with a 32-byte
   hash, a valid entry type, 32-bit expiry, one-byte cost and a valid properties list *)
Theorem C14_meta_built_value_parses_back : forall l opts eopts b x r0 r,
  meta_fits l opts eopts -> wf x -> read_destination x = Ok (ml_dest l, r0) ->
  meta_lease_set_bytes l = Ok b -> wf (b ++ r) ->
  Gen.Consts.c_meta_leaseset_META_LEASESET_MIN_SIZE <= Z.of_nat (length (b ++ r)) ->
  exists l', read_meta_lease_set (b ++ r) = Ok (l', r) /\ meta_lease_set_bytes l' = Ok b /\
    ml_published l' = ml_published l /\ ml_expires l' = ml_expires l /\ ml_flags l' = ml_flags l /\
    ml_offline l' = ml_offline l /\ map_values (ml_options l') = map Proofs.MapRT.wire_pair opts /\ ml_num l' = ml_num l /\
    Forall2 (fun p e' => mentry_same (fst p) e' (snd p)) (combine (ml_entries l) eopts) (ml_entries l') /\
    sig_bytes (ml_sig l') = sig_bytes (ml_sig l).
Proof. exact meta_built_value_parses_back. Qed.
Print Assumptions C14_meta_built_value_parses_back.
(* RouterInfo built from the specification's fields (what NewRouterInfo assembles): parses back
   with an empty remainder to a value with the same bytes *)
Theorem C14_router_info_built_value_parses_back : forall (s c : N) (cl sl : nat) pub pad spk extra published addrs opts n sg,
  In s [0; 1; 2; 7; 8; 11]%N -> In c [0; 4; 5; 6; 7]%N ->
  Spec.SpecTables.spec_crypto_len (Z.of_N c) = Some (Z.of_nat cl) -> Spec.SpecTables.spec_spk_len (Z.of_N s) = Some (Z.of_nat sl) ->
  length pub = cl -> length spk = sl -> length pad = (384 - cl - sl)%nat ->
  (N.of_nat (length extra) < 65532)%N ->
  ri_signing_denied (Z.of_N s) = false -> ri_crypto_denied (Z.of_N c) = false ->
  sig_length (Z.of_N s) = Some n -> Z.of_nat (length sg) = n ->
  (published < 2 ^ 64)%N -> (length addrs <= 255)%nat -> Forall ra_tuple_ok addrs -> SpecRA.opts_ok opts ->
  let b := spec_router_info (Spec.Wire.spec_identity pub pad spk (Spec.Wire.spec_keycert s c extra)) published addrs opts sg in
  wf b ->
  exists i, read_router_info b = Ok (i, []) /\ router_info_bytes i = Ok b.
Proof. exact spec_router_info_parses_back. Qed.
Print Assumptions C14_router_info_built_value_parses_back.

(* the constructors' own argument guards, regenerated from their Go bodies: what validateCertType /
   validateCertPayload refuse, NewCertificateWithType refuses; what validatePaddingSize refuses,
   NewKeysAndCert refuses *)
Theorem C14_source_constructor_guards :
  (forall t payload, g_certificate_validateCertType t && g_certificate_validateCertPayload t payload = false ->
                     new_certificate_with_type t payload = Err) /\
  (forall kc p pad s, g_keys_and_cert_validatePaddingSize pad (kc_crypto_size_of kc) (kc_signing_pubkey_size kc) = false ->
                      new_keys_and_cert kc p pad s = Err).
Proof. split; [exact cert_ctor_guards|exact kac_padding_size_rejects]. Qed.
Print Assumptions C14_source_constructor_guards.
