From Coq Require Import Extraction ExtrOcamlBasic.
From Model Require Import Bytes Run.
Extraction "model.ml" run.
