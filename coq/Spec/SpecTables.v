(* SpecTables.v — the size tables and prohibition lists of the I2P 0.9.67 common-structures
   specification, written from the specification text (independent of the Go code). *)
From Coq Require Import List ZArith Bool.
Import ListNotations.
Open Scope Z_scope.

(* SigningPublicKey type code -> (public key length, signature length) *)
Definition spec_signing : list (Z * (Z * Z)) :=
  [ (0, (128, 40)); (1, (64, 64)); (2, (96, 96)); (3, (132, 132));
    (4, (256, 256)); (5, (384, 384)); (6, (512, 512));
    (7, (32, 64)); (8, (32, 64)); (11, (32, 64)) ].
(* PublicKey (encryption) type code -> length *)
Definition spec_crypto : list (Z * Z) :=
  [ (0, 256); (1, 64); (2, 96); (3, 132); (4, 32); (5, 32); (6, 32); (7, 32) ].

Fixpoint lookup {A} (l : list (Z * A)) (k : Z) : option A :=
  match l with [] => None | (k', v) :: t => if k =? k' then Some v else lookup t k end.
Definition spec_spk_len (t : Z) : option Z := option_map fst (lookup spec_signing t).
Definition spec_sig_len (t : Z) : option Z := option_map snd (lookup spec_signing t).
Definition spec_crypto_len (t : Z) : option Z := lookup spec_crypto t.

(* prohibited in a Destination: RSA (4,5,6) and Ed25519ph (8) signing keys are offline-only;
   ML-KEM hybrids (5,6,7) are LeaseSet encryption keys only.  A RouterIdentity additionally
   must not use RedDSA (11). *)
Definition spec_dest_sig_prohibited (t : Z) : bool := existsb (Z.eqb t) [4; 5; 6; 8].
Definition spec_crypto_prohibited (t : Z) : bool := existsb (Z.eqb t) [5; 6; 7].
Definition spec_ri_sig_prohibited (t : Z) : bool := existsb (Z.eqb t) [4; 5; 6; 8; 11].
