(* Wire.v — encoders of the I2P 0.9.67 common structures written from the specification text,
   independent of the model of the Go code (only byte strings and big-endian integers are
   shared).  C02 relates these to the model's parsers. *)
From Model Require Import Bytes.
Open Scope N_scope.

Definition u8 (v : N) : bytes := [v].
Definition u16 (v : N) : bytes := be_encode 2 v.
Definition u32 (v : N) : bytes := be_encode 4 v.
Definition u64 (v : N) : bytes := be_encode 8 v.
Definition nlen (b : bytes) : N := N.of_nat (length b).

(* Certificate: type (1) || length (2) || payload *)
Definition spec_cert (t : N) (payload : bytes) : bytes := u8 t ++ u16 (nlen payload) ++ payload.
(* Key certificate: type 5, payload = signing type (2) || crypto type (2) || excess key data *)
Definition spec_keycert (s c : N) (extra : bytes) : bytes := spec_cert 5 (u16 s ++ u16 c ++ extra).
(* KeysAndCert: 384-byte block = crypto key at the start, signing key at the end, padding
   between; then the certificate *)
Definition spec_identity (pub pad spk cert : bytes) : bytes := pub ++ pad ++ spk ++ cert.
(* Signature: raw bytes of the type's length.  OfflineSignature: expires (4) || transient
   type (2) || transient key || signature by the destination *)
Definition spec_offline (expires st : N) (key sg : bytes) : bytes := u32 expires ++ u16 st ++ key ++ sg.
(* String: length (1) || bytes.  Mapping: size (2) || (key '=' value ';')* *)
Definition spec_string (s : bytes) : bytes := u8 (nlen s) ++ s.
Definition spec_pair (kv : bytes * bytes) : bytes := spec_string (fst kv) ++ [61] ++ spec_string (snd kv) ++ [59].
Definition spec_mapping (kvs : list (bytes * bytes)) : bytes :=
  let p := flat_map spec_pair kvs in u16 (nlen p) ++ p.
(* Lease: gateway hash (32) || tunnel id (4) || end date ms (8).  Lease2: ... || end date s (4) *)
Definition spec_lease (gw : bytes) (tid date : N) : bytes := gw ++ u32 tid ++ u64 date.
Definition spec_lease2 (gw : bytes) (tid endd : N) : bytes := gw ++ u32 tid ++ u32 endd.
(* LeaseSet2 header after the destination: published (4) || expires (2) || flags (2) *)
Definition spec_ls2_header (published expires flags : N) : bytes := u32 published ++ u16 expires ++ u16 flags.
Definition spec_enckey (t : N) (k : bytes) : bytes := u16 t ++ u16 (nlen k) ++ k.
(* RouterAddress: cost (1) || expiration (8) || style (String) || options (Mapping) *)
Definition spec_router_address (cost date : N) (style : bytes) (opts : list (bytes * bytes)) : bytes :=
  u8 cost ++ u64 date ++ spec_string style ++ spec_mapping opts.
