(* LS.v — model of lease_set, lease_set2, meta_leaseset, encrypted_leaseset:
   parsers and serialisers (signing / verification queries are in Crypto.v). *)
From Model Require Import Bytes Prim Tables Cert KAC Mapping Sig ExtCrypto.
From Gen Require Import Consts.
Open Scope Z_scope.

Definition embedded_mapping_ok (e : list merr) : bool := (length (fatal_errors e) =? 0)%nat.

(* n fixed-size records *)
Fixpoint read_n (k : nat) (size : nat) (d : bytes) : res (list bytes * bytes) :=
  match k with
  | O => Ok ([], d)
  | S k' => do p <- take size d; do q <- read_n k' size (snd p); Ok (fst p :: fst q, snd q)
  end.

(* ---- LeaseSet (v1) ---- *)
Record leaseset := mkLS {
  ls_dest : kac; ls_enc : bytes; ls_spk : bytes; ls_count : Z; ls_leases : list bytes; ls_sig : sigv }.

Definition dest_cert (k : kac) : cert := kc_cert (k_kc k).
(* key certificate obtained from the destination's certificate when it is a KEY certificate *)
Definition dest_keycert_opt (k : kac) : res (option keycert) :=
  do t <- cert_type (dest_cert k);
  if t =? c_certificate_CERT_KEY then
    match keycert_from_cert (dest_cert k) with Ok kc => Ok (Some kc) | Err => Ok None | Panic => Panic end
  else Ok None.

Definition read_destination_from_leaseset (d : bytes) : res (kac * bytes) :=
  if (length d <? 387)%nat then Err
  else
    do cd <- slice_from 384 d;
    do cr <- read_certificate cd;
    do _t <- cert_type (fst cr);
    do cl <- cert_length_field (fst cr);
    let dl := Z.to_nat (384 + 3 + cl) in
    if (length d <? dl)%nat then Err
    else do dd <- slice_to dl d;
         do r <- read_destination dd;
         do rem <- slice_from dl d;
         Ok (fst r, rem).

Definition read_lease_set (d : bytes) : res leaseset :=
  if (length d <? 387)%nat then Err
  else
    do dr <- read_destination_from_leaseset d;
    let dest := fst dr in let r0 := snd dr in
    (* encryption key *)
    if Z.of_nat (length r0) <? c_lease_set_LEASE_SET_PUBKEY_SIZE then Err
    else
      do ek <- slice_to (Z.to_nat c_lease_set_LEASE_SET_PUBKEY_SIZE) r0;
      if negb (elg_pubkey_ok ek) then Err
      else
        do r1 <- slice_from (Z.to_nat c_lease_set_LEASE_SET_PUBKEY_SIZE) r0;
        (* signing key *)
        do kco <- dest_keycert_opt dest;
        let sks := match kco with Some kc => kc_signing_pubkey_size kc | None => c_lease_set_LEASE_SET_SPK_SIZE end in
        if Z.of_nat (length r1) <? sks then Err
        else
          do skd <- slice_to (Z.to_nat sks) r1;
          do sk <- match kco with
                   | Some kc => construct_signing_public_key kc skd
                   | None => if dsa_pubkey_ok skd then Ok skd else Err
                   end;
          do r2 <- slice_from (Z.to_nat sks) r1;
          (* leases *)
          if (length r2 <? 1)%nat then Err
          else
            do cnt <- index 0 r2;
            if Z.of_N cnt >? 16 then Err
            else
              do r3 <- slice_from 1 r2;
              if Z.of_nat (length r3) <? Z.of_N cnt * c_lease_LEASE_SIZE then Err
              else
                do lr <- read_n (N.to_nat cnt) LEASE_SIZE r3;
                (* signature *)
                let ss := match kco with Some kc => kc_signature_size kc | None => c_lease_set_LEASE_SET_SIG_SIZE end in
                let st := match kco with Some kc => kc_signing_type kc | None => c_signature_SIGNATURE_TYPE_DSA_SHA1 end in
                if Z.of_nat (length (snd lr)) <? ss then Err
                else do sd <- slice_to (Z.to_nat ss) (snd lr);
                     do sg <- new_signature_from_bytes sd st;
                     Ok (mkLS dest ek sk (Z.of_N cnt) (fst lr) sg).

Definition lease_set_bytes (l : leaseset) : res bytes :=
  do db <- kac_bytes (ls_dest l);
  do cnt <- new_integer_from_int (ls_count l) 1;
  Ok (db ++ ls_enc l ++ ls_spk l ++ cnt ++ concat (ls_leases l) ++ sig_bytes (ls_sig l)).

(* ---- shared LeaseSet2-style header ---- *)
Definition has_offline (flags : N) : bool := N.odd flags.

(* ---- LeaseSet2 ---- *)
Record enckey := mkEK { ek_type : N; ek_len : N; ek_data : bytes }.
Record leaseset2 := mkLS2 {
  l2_dest : kac; l2_published : N; l2_expires : N; l2_flags : N; l2_offline : option offsig;
  l2_options : mapping; l2_keys : list enckey; l2_leases : list bytes; l2_sig : sigv }.

Fixpoint read_enc_keys (k : nat) (d : bytes) : res (list enckey * bytes) :=
  match k with
  | O => Ok ([], d)
  | S k' =>
      if (length d <? 4)%nat then Err
      else do t <- slice 0 2 d; do l <- slice 2 4 d; do r <- slice_from 4 d;
           let kl := be_decode l in
           if (length r <? N.to_nat kl)%nat then Err
           else do kd <- slice_to (N.to_nat kl) r; do r' <- slice_from (N.to_nat kl) r;
                do q <- read_enc_keys k' r';
                Ok (mkEK (be_decode t) kl kd :: fst q, snd q)
  end.

(* destination + published(4) expires(2) flags(2) [+ offline signature] + options, shared by
   LeaseSet2 and MetaLeaseSet; [minsize] is the whole-input guard *)
Definition read_ls2_header (minsize : Z) (d : bytes)
  : res (kac * N * N * N * option offsig * mapping * bytes) :=
  if Z.of_nat (length d) <? minsize then Err
  else
    do dr <- read_destination d;
    let dest := fst dr in let r0 := snd dr in
    if (length r0 <? 8)%nat then Err
    else
      do p <- slice 0 4 r0; do e <- slice 4 6 r0; do f <- slice 6 8 r0; do r1 <- slice_from 8 r0;
      let flags := be_decode f in
      do orr <- (if has_offline flags
                 then do x <- read_offline_signature r1 (Z.to_N (kc_signing_type (k_kc dest) mod 65536)); Ok (Some (fst x), snd x)
                 else Ok (None, r1));
      match read_mapping (snd orr) with
      | None => Err
      | Some (m, r2, errs) =>
          if negb (embedded_mapping_ok errs) then Err
          else Ok (dest, be_decode p, be_decode e, flags, fst orr, m, r2)
      end.

Definition final_sig_type (dest : kac) (flags : N) (o : option offsig) : Z :=
  match o with
  | Some os => if has_offline flags then Z.of_N (o_sigtype os) else kc_signing_type (k_kc dest)
  | None => kc_signing_type (k_kc dest)
  end.

Definition read_lease_set2 (d : bytes) : res (leaseset2 * bytes) :=
  do h <- read_ls2_header c_lease_set2_LEASESET2_MIN_SIZE d;
  let '(dest, pub, ex, flags, off, opts, r2) := h in
  if (length r2 <? 1)%nat then Err
  else
    do nk <- index 0 r2; do r3 <- slice_from 1 r2;
    if (Z.of_N nk <? 1) || (Z.of_N nk >? c_lease_set2_LEASESET2_MAX_ENCRYPTION_KEYS) then Err
    else
      do kr <- read_enc_keys (N.to_nat nk) r3;
      let r4 := snd kr in
      if (length r4 <? 1)%nat then Err
      else
        do nl <- index 0 r4; do r5 <- slice_from 1 r4;
        if Z.of_N nl >? c_lease_set2_LEASESET2_MAX_LEASES then Err
        else
          do lr <- read_n (N.to_nat nl) LEASE2_SIZE r5;
          do sr <- read_signature (snd lr) (final_sig_type dest flags off);
          Ok (mkLS2 dest pub ex flags off opts (fst kr) (fst lr) (fst sr), snd sr).

Definition options_bytes (m : mapping) : bytes :=
  if (0 <? length (map_values m))%nat then mapping_data m else [0%N; 0%N].
Definition enckey_bytes (k : enckey) : bytes :=
  be_encode 2 (ek_type k) ++ be_encode 2 (ek_len k) ++ ek_data k.
Definition dest_bytes := kac_bytes.
Definition lease_set2_content (l : leaseset2) : res bytes :=
  do db <- dest_bytes (l2_dest l);
  Ok (db ++ be_encode 4 (l2_published l) ++ be_encode 2 (l2_expires l) ++ be_encode 2 (l2_flags l)
      ++ (match l2_offline l with Some o => off_bytes o | None => [] end)
      ++ options_bytes (l2_options l)
      ++ [(N.of_nat (length (l2_keys l)) mod 256)%N] ++ flat_map enckey_bytes (l2_keys l)
      ++ [(N.of_nat (length (l2_leases l)) mod 256)%N] ++ concat (l2_leases l)).
Definition lease_set2_bytes (l : leaseset2) : res bytes :=
  do c <- lease_set2_content l; Ok (c ++ sig_bytes (l2_sig l)).

(* LeaseSet2.Validate (time-independent part) *)
Definition enckey_valid (k : enckey) : bool :=
  (N.of_nat (length (ek_data k)) =? ek_len k)%N &&
  match kc_crypto_pub_sizes (Z.of_N (ek_type k)) with
  | Some sz => Z.of_N (ek_len k) =? sz
  | None => true
  end.

(* ---- MetaLeaseSet ---- *)
Record mentry := mkME { me_hash : bytes; me_type : N; me_expires : N; me_cost : N; me_props : mapping }.
Record metals := mkMLS {
  ml_dest : kac; ml_published : N; ml_expires : N; ml_flags : N; ml_offline : option offsig;
  ml_options : mapping; ml_num : N; ml_entries : list mentry; ml_sig : sigv }.

Definition ME_MIN : nat :=
  Z.to_nat (c_meta_leaseset_META_LEASESET_ENTRY_HASH_SIZE + c_meta_leaseset_META_LEASESET_ENTRY_TYPE_SIZE +
            c_meta_leaseset_META_LEASESET_ENTRY_EXPIRES_SIZE + c_meta_leaseset_META_LEASESET_ENTRY_COST_SIZE +
            c_meta_leaseset_META_LEASESET_ENTRY_MIN_PROPERTIES_SIZE).
Fixpoint read_meta_entries (k : nat) (d : bytes) : res (list mentry * bytes) :=
  match k with
  | O => Ok ([], d)
  | S k' =>
      if (length d <? ME_MIN)%nat then Err
      else
        do h <- slice 0 32 d; do t <- index 32 d; do e <- slice 33 37 d; do c <- index 37 d;
        do r <- slice_from 38 d;
        if negb (meta_entry_type_valid (Z.of_N t)) then Err
        else match read_mapping r with
             | None => Err
             | Some (m, r', errs) =>
                 if negb (embedded_mapping_ok errs) then Err
                 else do q <- read_meta_entries k' r';
                      Ok (mkME h t (be_decode e) c m :: fst q, snd q)
             end
  end.
Definition read_meta_lease_set (d : bytes) : res (metals * bytes) :=
  do h <- read_ls2_header c_meta_leaseset_META_LEASESET_MIN_SIZE d;
  let '(dest, pub, ex, flags, off, opts, r2) := h in
  if (length r2 <? 1)%nat then Err
  else
    do ne <- index 0 r2; do r3 <- slice_from 1 r2;
    if (Z.of_N ne <? c_meta_leaseset_META_LEASESET_MIN_ENTRIES) || (Z.of_N ne >? c_meta_leaseset_META_LEASESET_MAX_ENTRIES) then Err
    else
      do er <- read_meta_entries (N.to_nat ne) r3;
      do sr <- read_signature (snd er) (final_sig_type dest flags off);
      Ok (mkMLS dest pub ex flags off opts ne (fst er) (fst sr), snd sr).
Definition mentry_bytes (e : mentry) : bytes :=
  me_hash e ++ [me_type e] ++ be_encode 4 (me_expires e) ++ [me_cost e] ++ options_bytes (me_props e).
Definition meta_lease_set_content (l : metals) : res bytes :=
  do db <- kac_bytes (ml_dest l);
  Ok (db ++ be_encode 4 (ml_published l) ++ be_encode 2 (ml_expires l) ++ be_encode 2 (ml_flags l)
      ++ (match ml_offline l with Some o => off_bytes o | None => [] end)
      ++ options_bytes (ml_options l)
      ++ [ml_num l] ++ flat_map mentry_bytes (ml_entries l)).
Definition meta_lease_set_bytes (l : metals) : res bytes :=
  do c <- meta_lease_set_content l; Ok (c ++ sig_bytes (ml_sig l)).

(* ---- EncryptedLeaseSet ---- *)
Record encls := mkELS {
  el_sigtype : N; el_key : bytes; el_published : N; el_expires : N; el_flags : N;
  el_offline : option offsig; el_inner_len : N; el_inner : bytes; el_sig : sigv }.

Definition els_validate (l : encls) : bool :=
  match kc_spk_size (Z.of_N (el_sigtype l)) with
  | None => false
  | Some ks =>
      (Z.of_nat (length (el_key l)) =? ks) &&
      negb (el_expires l =? 0)%N &&
      (Z.land (Z.of_N (el_flags l)) c_encrypted_leaseset_ENCRYPTED_LEASESET_RESERVED_FLAGS_MASK =? 0) &&
      (Bool.eqb (has_offline (el_flags l)) (match el_offline l with Some _ => true | None => false end)) &&
      negb (length (el_inner l) =? 0)%nat &&
      negb (Z.of_nat (length (el_inner l)) <? c_encrypted_leaseset_ENCRYPTED_LEASESET_MIN_ENCRYPTED_SIZE) &&
      (el_inner_len l =? N.of_nat (length (el_inner l)) mod 65536)%N &&
      sig_validate (el_sig l)
  end.

Definition read_encrypted_lease_set (d : bytes) : res (encls * bytes) :=
  if Z.of_nat (length d) <? c_encrypted_leaseset_ENCRYPTED_LEASESET_MIN_SIZE then Err
  else
    do st <- slice 0 2 d; do r0 <- slice_from 2 d;
    let sigtype := be_decode st in
    match kc_spk_size (Z.of_N sigtype) with
    | None => Err
    | Some ks =>
        if Z.of_nat (length r0) <? ks then Err
        else
          do key <- slice_to (Z.to_nat ks) r0; do r1 <- slice_from (Z.to_nat ks) r0;
          if (length r1 <? 8)%nat then Err
          else
            do p <- slice 0 4 r1; do e <- slice 4 6 r1; do f <- slice 6 8 r1; do r2 <- slice_from 8 r1;
            let flags := be_decode f in
            if negb (Z.land (Z.of_N flags) c_encrypted_leaseset_ENCRYPTED_LEASESET_RESERVED_FLAGS_MASK =? 0) then Err
            else
              do orr <- (if has_offline flags
                         then do x <- read_offline_signature r2 sigtype; Ok (Some (fst x), snd x)
                         else Ok (None, r2));
              let r3 := snd orr in
              if (length r3 <? 2)%nat then Err
              else
                do il <- slice 0 2 r3; do r4 <- slice_from 2 r3;
                let ilen := be_decode il in
                if (ilen =? 0)%N then Err
                else if (length r4 <? N.to_nat ilen)%nat then Err
                else
                  do inner <- slice_to (N.to_nat ilen) r4; do r5 <- slice_from (N.to_nat ilen) r4;
                  let fst_type := match fst orr with Some os => Z.of_N (o_sigtype os) | None => Z.of_N sigtype end in
                  do sr <- read_signature r5 fst_type;
                  let l := mkELS sigtype key (be_decode p) (be_decode e) flags (fst orr) ilen inner (fst sr) in
                  if els_validate l then Ok (l, snd sr) else Err
    end.
Definition els_bytes_without_sig (l : encls) : bytes :=
  be_encode 2 (el_sigtype l) ++ el_key l ++ be_encode 4 (el_published l) ++ be_encode 2 (el_expires l)
  ++ be_encode 2 (el_flags l) ++ (match el_offline l with Some o => off_bytes o | None => [] end)
  ++ be_encode 2 (el_inner_len l) ++ el_inner l.
Definition els_bytes (l : encls) : bytes := els_bytes_without_sig l ++ sig_bytes (el_sig l).
