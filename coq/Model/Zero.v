(* Zero.v — the zero values of the modelled structures (Go's zero structs: nil slices, nil
   pointers, zero integers). *)
From Model Require Import Bytes Prim Tables Cert KAC Mapping Sig LS RI Crypto.
Open Scope N_scope.

Definition zero_cert : cert := mkCert [] [] [].
Definition zero_keycert : keycert := mkKC zero_cert [] [].
Definition zero_kac : kac := mkKAC zero_keycert None [] None.
Definition zero_sig : sigv := mkSig 0 [].
Definition zero_map : mapping := mkMap None None.
Definition zero_off : offsig := off_zero.
Definition zero_ls : leaseset := mkLS zero_kac [] [] 0 [] zero_sig.
Definition zero_ls2 : leaseset2 := mkLS2 zero_kac 0 0 0 None zero_map [] [] zero_sig.
Definition zero_meta : metals := mkMLS zero_kac 0 0 0 None zero_map 0 [] zero_sig.
Definition zero_els : encls := mkELS 0 [] 0 0 0 None 0 [] zero_sig.
Definition zero_ra : raddr := mkRA [] [] [] zero_map.
Definition zero_ri : rinfo := mkRInfo zero_kac [] [] [] [] zero_map zero_sig.
