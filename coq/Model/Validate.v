(* Validate.v — the model's values seen as the Go structs the regenerated validators read
   (Gen/Validators.v, written by the translator from the Go source on every run), and the
   validations the model takes directly from there. *)
From Model Require Import Bytes Prim Tables Cert KAC Mapping Sig LS.
From Gen Require Import Consts Tables Validators.
Open Scope Z_scope.

(* ---- views: the model's values as the Go structs the validators read ---- *)
Definition view_sig (s : sigv) : g_signature_Signature :=
  {| g_signature_Signature__sigType := s_type s; g_signature_Signature__data := s_data s |}.
Definition view_off (o : offsig) : g_offline_signature_OfflineSignature :=
  {| g_offline_signature_OfflineSignature__expires := Z.of_N (o_expires o);
     g_offline_signature_OfflineSignature__sigtype := Z.of_N (o_sigtype o);
     g_offline_signature_OfflineSignature__transientPublicKey := o_key o;
     g_offline_signature_OfflineSignature__destinationSigType := Z.of_N (o_desttype o);
     g_offline_signature_OfflineSignature__signature := o_sig o |}.
Definition view_els (l : encls) : g_encrypted_leaseset_EncryptedLeaseSet :=
  {| g_encrypted_leaseset_EncryptedLeaseSet__flags := Z.of_N (el_flags l);
     g_encrypted_leaseset_EncryptedLeaseSet__sigType := Z.of_N (el_sigtype l);
     g_encrypted_leaseset_EncryptedLeaseSet__blindedPublicKey := el_key l;
     g_encrypted_leaseset_EncryptedLeaseSet__expires := Z.of_N (el_expires l);
     g_encrypted_leaseset_EncryptedLeaseSet__offlineSignature := option_map view_off (el_offline l);
     g_encrypted_leaseset_EncryptedLeaseSet__encryptedInnerData := el_inner l;
     g_encrypted_leaseset_EncryptedLeaseSet__innerLength := Z.of_N (el_inner_len l);
     g_encrypted_leaseset_EncryptedLeaseSet__signature := view_sig (el_sig l) |}.
Definition view_ek (k : enckey) : g_lease_set2_EncryptionKey :=
  {| g_lease_set2_EncryptionKey__KeyLen := Z.of_N (ek_len k);
     g_lease_set2_EncryptionKey__KeyData := ek_data k;
     g_lease_set2_EncryptionKey__KeyType := Z.of_N (ek_type k) |}.
Definition view_ls2 (l : leaseset2) : g_lease_set2_LeaseSet2 :=
  {| g_lease_set2_LeaseSet2__flags := Z.of_N (l2_flags l);
     g_lease_set2_LeaseSet2__encryptionKeys := map view_ek (l2_keys l);
     g_lease_set2_LeaseSet2__offlineSignature := option_map view_off (l2_offline l);
     g_lease_set2_LeaseSet2__leases := l2_leases l |}.


(* LeaseSet2.Validate on a model value *)
Definition ls2_validate (l : leaseset2) : bool := g_lease_set2_LeaseSet2_Validate (view_ls2 l).

(* ---- constructor argument checks, on arguments decoded from the harness's encoding ---- *)
(* keys: each as type(2) declared-length(2) actual-length(3) data — the actual length has its own,
   wider field so that data longer than any 16-bit declared length can be described *)
Fixpoint decode_ctor_keys (fuel : nat) (b : bytes) : list g_lease_set2_EncryptionKey :=
  match fuel with
  | O => []
  | S f =>
      match b with
      | t1 :: t0 :: l1 :: l0 :: a2 :: a1 :: a0 :: rest =>
          let n := N.to_nat (be_decode [a2; a1; a0]) in
          {| g_lease_set2_EncryptionKey__KeyLen := Z.of_N (be_decode [l1; l0]);
             g_lease_set2_EncryptionKey__KeyData := firstn n rest;
             g_lease_set2_EncryptionKey__KeyType := Z.of_N (be_decode [t1; t0]) |} :: decode_ctor_keys f (skipn n rest)
      | _ => []
      end
  end.
Definition dummy_off : option g_offline_signature_OfflineSignature := Some (view_off off_zero).
Definition dummy_dest : g_destination_Destination := {| g_destination_Destination__KeysAndCert := None |}.
Definition opt_present (b : bytes) : option g_offline_signature_OfflineSignature :=
  match b with [] => None | _ => dummy_off end.
(* NewLeaseSet2's argument checks (the destination-size check, which needs the destination's
   serialisation, is the explicit boolean) *)
Definition new_ls2_check (dest_ok : bool) (e f : N) (off keys : bytes) (nleases : N) : bool :=
  g_lease_set2_validateLeaseSet2Inputs dest_ok dummy_dest (Z.of_N e) (Z.of_N f) (opt_present off)
    (decode_ctor_keys (length keys) keys) (repeat [] (N.to_nat nleases)).
(* NewEncryptedLeaseSet's argument checks *)
Definition new_els_check (st : N) (key : bytes) (e f : N) (off inner : bytes) : bool :=
  g_encrypted_leaseset_validateInputs (Z.of_N st) key (Z.of_N e) (Z.of_N f) (opt_present off) inner.
