(* Prim.v — model of package data: Integer, Date, Hash, I2PString, fixed-width helpers.
   Go `int`/`int64` are Z with the wrap written where the Go code converts. *)
From Model Require Import Bytes.
From Gen Require Import Consts.
Open Scope Z_scope.

Definition two63 : Z := 9223372036854775808.
Definition two64 : Z := 18446744073709551616.
(* uint64 -> int / int64 conversion (two's complement) *)
Definition wrap64 (v : Z) : Z := (v + two63) mod two64 - two63.
(* int64 -> uint64 conversion *)
Definition to_u64 (v : Z) : N := Z.to_N (v mod two64).
Definition wrapk (k : Z) (v : Z) : Z := (v + 2 ^ (k - 1)) mod 2 ^ k - 2 ^ (k - 1).

Definition MAXI : Z := c_data_MAX_INTEGER_SIZE.

(* ReadInteger(bytes, size) : (Integer, remainder); no error channel *)
Definition read_integer (b : bytes) (size : Z) : res (bytes * bytes) :=
  if (size <=? 0) || (size >? MAXI) then Ok ([], b)
  else if (Z.of_nat (length b) <? size) then Ok (b, [])
  else do h <- slice_to (Z.to_nat size) b; do t <- slice_from (Z.to_nat size) b; Ok (h, t).

(* intFromBytes *)
Definition int_from_bytes (b : bytes) : res Z :=
  match b with
  | [] => Err
  | _ => Ok (wrap64 (Z.of_N (be_decode (firstn (Z.to_nat MAXI) b))))
  end.
Definition integer_int (b : bytes) : Z :=
  match int_from_bytes b with Ok v => v | _ => 0 end.
Definition integer_int_safe (b : bytes) : res Z :=
  if (length b =? 0)%nat then Err else if (Z.of_nat (length b) >? MAXI) then Err else int_from_bytes b.
Definition integer_uint_safe (b : bytes) : res N :=
  if (length b =? 0)%nat then Err else if (Z.of_nat (length b) >? MAXI) then Err else Ok (be_decode b).

(* NewIntegerFromInt(value, size) and EncodeIntN(value, size): same rules *)
Definition encode_int_n (v size : Z) : res bytes :=
  if v <? 0 then Err
  else if (size <? 1) || (size >? MAXI) then Err
  else if (size <? MAXI) && (v >? 2 ^ (size * c_data_BITS_PER_BYTE) - 1) then Err
  else Ok (be_encode (Z.to_nat size) (Z.to_N v)).
Definition new_integer_from_int := encode_int_n.

Definition decode_int_n (b : bytes) : res Z :=
  if (length b =? 0)%nat then Err
  else if (Z.of_nat (length b) >? 8) then Err
  else let v := Z.of_N (be_decode b) in
       if v >? two63 - 1 then Err else Ok v.

(* NewIntegerFromBytes *)
Definition new_integer_from_bytes (b : bytes) : res bytes :=
  if (length b =? 0)%nat then Err else if (Z.of_nat (length b) >? MAXI) then Err else Ok b.

(* fixed-width helpers; arguments already in the range of their Go type *)
Definition encode_uint (n : nat) (v : N) : bytes := be_encode n v.
Definition encode_sint (n : nat) (v : Z) : bytes := be_encode n (Z.to_N (v mod 2 ^ (8 * Z.of_nat n))).
Definition decode_uint (b : bytes) : N := be_decode b.
Definition decode_sint (n : nat) (b : bytes) : Z := wrapk (8 * Z.of_nat n) (Z.of_N (be_decode b)).

(* Date *)
Definition DATE_SIZE : nat := Z.to_nat c_data_DATE_SIZE.
Definition read_date (b : bytes) : res (bytes * bytes) := take DATE_SIZE b.
Definition date_int (d : bytes) : Z := integer_int d.
(* time.Unix(sec, nsec).UnixMilli() for int64 arguments *)
Definition unix_milli (sec nsec : Z) : Z :=
  let sec' := wrap64 (sec + nsec / 1000000000) in
  let nsec' := nsec mod 1000000000 in
  wrap64 (sec' * 1000 + nsec' / 1000000).
Definition date_of_millis (msec : Z) : bytes := be_encode 8 (to_u64 msec).
Definition date_from_time (sec nsec : Z) : bytes := date_of_millis (unix_milli sec nsec).
Definition new_date_from_unix (ts : Z) : res bytes :=
  if ts <? 0 then Err
  else if ts >? (two63 - 1) / 1000 then Err
  else Ok (date_from_time ts 0).
Definition new_date_from_millis (ms : Z) : res bytes :=
  if ms <? 0 then Err
  else Ok (date_from_time (Z.quot ms 1000) (Z.rem ms 1000 * 1000000)).
(* Date.Time().UnixMilli() *)
Definition date_time_millis (d : bytes) : Z := date_int d.

(* Hash *)
Definition HASH_SIZE : nat := 32.
Definition read_hash (b : bytes) : res (bytes * bytes) := take HASH_SIZE b.

(* I2PString: a byte string whose first byte is the length *)
Definition STRING_MAX : Z := c_data_STRING_MAX_SIZE.
Inductive strerr := SNone | SZero | STooShort | STooLong.
Definition str_length (s : bytes) : N * strerr :=
  match s with
  | [] => (0%N, SZero)
  | l :: rest =>
      if (N.of_nat (length rest) <? l)%N then (l, STooShort)
      else if (l <? N.of_nat (length rest))%N then (l, STooLong)
      else (l, SNone)
  end.
Definition str_is_valid (s : bytes) : bool :=
  match s with [] => false | l :: rest => (N.of_nat (length rest) =? l)%N end.
(* Data(): content or error *)
Definition str_data (s : bytes) : res bytes :=
  match str_length s with
  | (l, SNone) => if (l =? 0)%N then Ok [] else slice 1 (N.to_nat l + 1) s
  | _ => Err
  end.
Definition str_data_safe (s : bytes) : res bytes :=
  if str_is_valid s then str_data s else Err.
Definition to_i2pstring (s : bytes) : res bytes :=
  if Z.of_nat (length s) >? STRING_MAX then Err else Ok (N.of_nat (length s) :: s).
Definition new_i2pstring_from_bytes (b : bytes) : res bytes :=
  match b with
  | [] => Err
  | l :: rest => if (N.of_nat (length rest) =? l)%N then Ok b else Err
  end.
(* ReadI2PString: (str, remainder) or error; [read_i2pstring_partial] is the str value
   returned together with the error *)
Definition read_i2pstring (b : bytes) : res (bytes * bytes) :=
  match b with
  | [] => Err
  | l :: _ =>
      if (length b <? N.to_nat l + 1)%nat then Err
      else do h <- slice_to (N.to_nat l + 1) b; do t <- slice_from (N.to_nat l + 1) b; Ok (h, t)
  end.
Definition read_i2pstring_partial (b : bytes) : bytes :=
  match read_i2pstring b with Ok (s, _) => s | _ => b end.
