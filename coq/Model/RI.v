(* RI.v — model of router_address and router_info parsers and serialisers. *)
From Model Require Import Bytes Prim Tables Cert KAC Mapping Sig LS.
From Gen Require Import Consts.
Open Scope Z_scope.

Record raddr := mkRA { ra_cost : bytes; ra_date : bytes; ra_style : bytes; ra_opts : mapping }.

Definition read_router_address (d : bytes) : res (raddr * bytes) :=
  if (length d =? 0)%nat then Err
  else if Z.of_nat (length d) <? c_router_address_ROUTER_ADDRESS_MIN_SIZE then Err
  else
    do cr <- read_integer d 1;
    do dr <- read_date (snd cr);
    do sr <- read_i2pstring (snd dr);
    match read_mapping (snd sr) with
    | None => Err
    | Some (m, r, errs) =>
        if embedded_mapping_ok errs then Ok (mkRA (fst cr) (fst dr) (fst sr) m, r) else Err
    end.
Definition router_address_bytes (a : raddr) : bytes :=
  ra_cost a ++ ra_date a ++ ra_style a ++ mapping_data (ra_opts a).

Record rinfo := mkRInfo {
  ri_ident : kac; ri_published : bytes; ri_size : bytes; ri_addrs : list raddr;
  ri_peer_size : bytes; ri_options : mapping; ri_sig : sigv }.

Fixpoint read_addresses (k : nat) (d : bytes) : res (list raddr * bytes) :=
  match k with
  | O => Ok ([], d)
  | S k' => do a <- read_router_address d; do q <- read_addresses k' (snd a); Ok (fst a :: fst q, snd q)
  end.

Definition read_router_info (d : bytes) : res (rinfo * bytes) :=
  do ir <- read_router_identity d;
  do pr <- read_date (snd ir);
  do sz <- read_integer (snd pr) 1;
  do ar <- read_addresses (Z.to_nat (integer_int (fst sz))) (snd sz);
  do ps <- read_integer (snd ar) 1;
  match read_mapping (snd ps) with
  | None => Err
  | Some (m, r, errs) =>
      if negb (embedded_mapping_ok errs) then Err
      else
        let c := dest_cert (fst ir) in
        do t <- cert_type c;
        do _d <- cert_data c;
        do st <- (if t =? c_certificate_CERT_KEY then cert_sig_type c else Ok c_signature_SIGNATURE_TYPE_DSA_SHA1);
        match sig_length st with
        | None => Err
        | Some _ => do sr <- read_signature r st;
                    Ok (mkRInfo (fst ir) (fst pr) (fst sz) (fst ar) (fst ps) m (fst sr), snd sr)
        end
  end.
Definition router_info_bytes (i : rinfo) : res bytes :=
  do ib <- kac_bytes (ri_ident i);
  Ok (ib ++ ri_published i ++ ri_size i ++ flat_map router_address_bytes (ri_addrs i)
      ++ ri_peer_size i ++ mapping_data (ri_options i) ++ sig_bytes (ri_sig i)).
