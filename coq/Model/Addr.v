(* Addr.v — (a) hashes / addresses of identities (C07); (b) router-address option
   accessors: IP-literal parsing as Go's net.ParseIP (netip.ParseAddr without zones) and
   decimal port parsing as strconv.Atoi (C17). *)
From Model Require Import Bytes Prim Tables Cert KAC Mapping Sig LS RI Base.
From Gen Require Import Consts.
Open Scope N_scope.

(* ---- C07: everything is a function of KeysAndCert.Bytes(); [h] is SHA-256 of those bytes,
   computed outside the model (external primitive) ---- *)
Fixpoint drop_while_pad (l : bytes) : bytes :=
  match l with x :: t => if x =? PAD then drop_while_pad t else l | [] => [] end.
Definition trim_right_pad (s : bytes) : bytes := rev (drop_while_pad (rev s)).
Definition base32_address (h : bytes) : bytes := trim_right_pad (b32_encode true h) ++ s_destination_I2PBase32Suffix.
Definition dest_base64 (k : kac) : res bytes := do b <- kac_bytes k; Ok (b64_encode b).
Definition dest_equals (a b : kac) : bool :=
  match kac_bytes a, kac_bytes b with Ok x, Ok y => bytes_eqb x y | _, _ => false end.

(* ---- C17 ---- *)
Definition is_digit (c : N) : bool := (48 <=? c) && (c <=? 57).
Definition hex_val (c : N) : option N :=
  if is_digit c then Some (c - 48)
  else if (97 <=? c) && (c <=? 102) then Some (c - 87)
  else if (65 <=? c) && (c <=? 70) then Some (c - 55)
  else None.

(* netip.parseIPv4Fields: exactly four decimal octets, no leading zeros, <= 255 *)
Fixpoint ipv4_fields (s : bytes) (val : N) (diglen : nat) (acc : list N) : option (list N) :=
  match s with
  | [] => if (diglen =? 0)%nat then None else Some (acc ++ [val])
  | c :: t =>
      if is_digit c then
        if ((diglen =? 1)%nat && (val =? 0)) then None
        else let v := val * 10 + (c - 48) in
             if 255 <? v then None else ipv4_fields t v (S diglen) acc
      else if c =? 46 then
        if (diglen =? 0)%nat then None
        else if (3 <=? length acc)%nat then None
        else ipv4_fields t 0 0 (acc ++ [val])
      else None
  end.
Definition parse_ipv4 (s : bytes) : option (list N) :=
  match ipv4_fields s 0 0 [] with
  | Some f => if (length f =? 4)%nat then Some f else None
  | None => None
  end.

(* one hex group: (value, digits consumed, rest) *)
Fixpoint hex_group (s : bytes) (acc : N) (off : nat) : option (N * nat * bytes) :=
  match s with
  | c :: t =>
      match hex_val c with
      | Some v => if (3 <? off)%nat then None
                  else let a := acc * 16 + v in if 65535 <? a then None else hex_group t a (S off)
      | None => Some (acc, off, s)
      end
  | [] => Some (acc, off, s)
  end.

(* netip.parseIPv6 main loop: i = bytes filled so far, ellipsis = position of "::" *)
Fixpoint ipv6_loop (fuel : nat) (s : bytes) (ip : list N) (ellipsis : option nat) : option (list N * option nat * bytes) :=
  match fuel with
  | O => Some (ip, ellipsis, s)
  | S f =>
      if (16 <=? length ip)%nat then Some (ip, ellipsis, s)
      else
        match hex_group s 0 0 with
        | None => None
        | Some (acc, off, rest) =>
            if (off =? 0)%nat then None
            else
              match rest with
              | 46 :: _ =>   (* '.': embedded IPv4 replaces the final two fields *)
                  if (match ellipsis with None => negb (length ip =? 12)%nat | Some _ => false end) then None
                  else if (16 <? length ip + 4)%nat then None
                  else match parse_ipv4 s with
                       | Some f => Some (ip ++ f, ellipsis, [])
                       | None => None
                       end
              | _ =>
                  let ip' := ip ++ [acc / 256; acc mod 256] in
                  match rest with
                  | [] => Some (ip', ellipsis, [])
                  | c :: t =>
                      if negb (c =? 58) then None
                      else match t with
                           | [] => None
                           | c2 :: t2 =>
                               if c2 =? 58 then
                                 match ellipsis with
                                 | Some _ => None
                                 | None => match t2 with
                                           | [] => Some (ip', Some (length ip'), [])
                                           | _ => ipv6_loop f t2 ip' (Some (length ip'))
                                           end
                                 end
                               else ipv6_loop f t ip' ellipsis
                           end
                  end
              end
        end
  end.
Definition parse_ipv6 (s0 : bytes) : option (list N) :=
  if existsb (fun c => c =? 37) s0 then None       (* '%': zones are rejected by net.ParseIP *)
  else
    let '(s, ell0) := match s0 with
                      | 58 :: 58 :: t => (t, Some 0%nat)
                      | _ => (s0, None)
                      end in
    match ell0, s with
    | Some _, [] => Some (repeatN 0 16)
    | _, _ =>
        match ipv6_loop 17 s [] ell0 with
        | None => None
        | Some (ip, ell, rest) =>
            if negb (length rest =? 0)%nat then None
            else if (length ip <? 16)%nat then
              match ell with
              | None => None
              | Some e => Some (firstn e ip ++ repeatN 0 (16 - length ip) ++ skipn e ip)
              end
            else match ell with Some _ => None | None => Some ip end
        end
    end.
(* net.ParseIP: the first of '.', ':' (or '%') decides; result in 16-byte form *)
Fixpoint first_special (s : bytes) : N :=
  match s with
  | [] => 0
  | c :: t => if (c =? 46) || (c =? 58) || (c =? 37) then c else first_special t
  end.
Definition v4_in_v6 (f : list N) : list N := repeatN 0 10 ++ [255; 255] ++ f.
Definition parse_ip (s : bytes) : option (list N) :=
  let c := first_special s in
  if c =? 46 then option_map v4_in_v6 (parse_ipv4 s)
  else if c =? 58 then parse_ipv6 s
  else None.
Definition is_v4 (ip : list N) : bool := bytes_eqb (firstn 12 ip) (repeatN 0 10 ++ [255; 255]).

(* strconv.Atoi *)
Fixpoint all_digits (s : bytes) : bool := forallb is_digit s.
Definition atoi (s : bytes) : option Z :=
  let '(neg, d) := match s with
                   | 43 :: t => (false, t)
                   | 45 :: t => (true, t)
                   | _ => (false, s)
                   end in
  match d with
  | [] => None
  | _ => if all_digits d then
           let v := Z.of_N (fold_left (fun a c => a * 10 + (c - 48)) d 0) in
           if (v >? 9223372036854775807 + (if neg then 1 else 0))%Z then None
           else Some (if neg then (- v)%Z else v)
         else None
  end.
(* strconv.Itoa for 1..65535 *)
Fixpoint itoa_fuel (fuel : nat) (v : N) (acc : bytes) : bytes :=
  match fuel with
  | O => acc
  | S f => let acc' := (48 + v mod 10) :: acc in if v / 10 =? 0 then acc' else itoa_fuel f (v / 10) acc'
  end.
Definition itoa (v : N) : bytes := itoa_fuel 20 v [].

Definition i2pstr (content : bytes) : bytes := N.of_nat (length content) :: content.
(* option lookup: content of the value stored under exactly this key *)
Definition ra_option (a : raddr) (key : bytes) : option bytes := values_get (map_values (ra_opts a)) (i2pstr key).
(* extractOptionBytes: present, well-formed, non-empty *)
Definition ra_option_content (a : raddr) (key : bytes) : option bytes :=
  match ra_option a key with
  | Some v => match str_data v with Ok d => if (length d =? 0)%nat then None else Some d | _ => None end
  | None => None
  end.
Definition ra_host (a : raddr) : option (list N) :=
  match ra_option_content a s_router_address_HOST_OPTION_KEY with Some h => parse_ip h | None => None end.
Definition ra_has_valid_host (a : raddr) : bool := match ra_host a with Some _ => true | None => false end.
Definition ra_port (a : raddr) : option bytes :=
  match ra_option_content a s_router_address_PORT_OPTION_KEY with
  | Some p => match atoi p with
              | Some v => if ((v <? 1) || (v >? 65535))%Z then None else Some (itoa (Z.to_N v))
              | None => None
              end
  | None => None
  end.
Definition ra_has_valid_port (a : raddr) : bool := match ra_port a with Some _ => true | None => false end.
Definition ends_with (s suf : bytes) : bool :=
  (length suf <=? length s)%nat && bytes_eqb (skipn (length s - length suf) s) suf.
Definition ra_ip_version (a : raddr) : bytes :=
  match ra_host a with
  | Some ip => if is_v4 ip then s_router_address_IPV4_VERSION_STRING else s_router_address_IPV6_VERSION_STRING
  | None =>
      match ra_option a s_router_address_CAPS_OPTION_KEY with
      | Some v => match str_data v with
                  | Ok d => if ends_with d s_router_address_IPV6_SUFFIX then s_router_address_IPV6_VERSION_STRING
                            else s_router_address_IPV4_VERSION_STRING
                  | _ => []
                  end
      | None => []
      end
  end.
Definition ra_fixed_key (a : raddr) (key : bytes) (size : Z) : option bytes :=
  match ra_option a key with
  | Some v => match str_data v with Ok d => if (Z.of_nat (length d) =? size)%Z then Some d else None | _ => None end
  | None => None
  end.
