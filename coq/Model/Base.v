(* Base.v — I2P base32 / base64: encoders written arithmetically (a group of 5 / 3 bytes is
   one number written in 8 / 4 digits of base 32 / 64), decoders following the control flow
   of Go's encoding/base32 and encoding/base64 (which the library wraps), plus the
   library's own input checks. *)
From Model Require Import Bytes Prim.
From Gen Require Import Consts.
Open Scope N_scope.

Definition PAD : N := 61.   (* '=' *)
Definition is_newline (c : N) : bool := (c =? 10) || (c =? 13).
Definition strip_newlines (s : bytes) : bytes := filter (fun c => negb (is_newline c)) s.

Definition alpha32 : bytes := s_base32_I2PEncodeAlphabet.
Definition alpha64 : bytes := s_base64_I2PEncodeAlphabet.
Fixpoint index_of (c : N) (l : bytes) (i : N) : option N :=
  match l with [] => None | x :: t => if x =? c then Some i else index_of c t (i + 1) end.
Definition dec32 (c : N) : option N := index_of c alpha32 0.
Definition dec64 (c : N) : option N := index_of c alpha64 0.
Definition chr (a : bytes) (d : N) : N := nth (N.to_nat d) a 0.

(* k digits of v in base b, most significant first *)
Fixpoint digits (b : N) (k : nat) (v : N) : list N :=
  match k with O => [] | S k' => digits b k' (v / b) ++ [v mod b] end.
Definition undigits (b : N) (ds : list N) : N := fold_left (fun acc d => acc * b + d) ds 0.

(* ---- base32 ---- *)
(* number of characters carrying data for a group of n bytes: ceil(8n/5) *)
Definition chars32 (n : nat) : nat := match n with 1 => 2 | 2 => 4 | 3 => 5 | 4 => 7 | 5 => 8 | _ => 0 end%nat.
Definition enc32_group (pad : bool) (g : bytes) : bytes :=
  let n := length g in
  let v := be_decode (g ++ repeatN 0 (5 - n)) in
  let cs := map (chr alpha32) (firstn (chars32 n) (digits 32 8 v)) in
  if pad then cs ++ repeatN PAD (8 - chars32 n) else cs.
Fixpoint b32_encode_fuel (fuel : nat) (pad : bool) (x : bytes) : bytes :=
  match fuel with
  | O => []
  | S f => match x with
           | [] => []
           | _ => enc32_group pad (firstn 5 x) ++ b32_encode_fuel f pad (skipn 5 x)
           end
  end.
Definition b32_encode (pad : bool) (x : bytes) : bytes := b32_encode_fuel (S (length x)) pad x.

(* bytes produced by a quantum holding dlen data characters *)
Definition bytes32 (dlen : nat) : nat := match dlen with 8 => 5 | 7 => 4 | 5 => 3 | 4 => 2 | 2 => 1 | _ => 0 end%nat.
Definition quantum32_bytes (ds : list N) : bytes :=
  let dlen := length ds in
  firstn (bytes32 dlen) (be_encode 5 (undigits 32 (ds ++ repeatN 0 (8 - dlen)))).

(* encoding/base32 Encoding.decode on newline-free input.  padc is byte(padChar): '='
   with padding, 0xFF without.  Result: decoded bytes, or Err. *)
Fixpoint read_quantum32 (pad : bool) (padc : N) (j : nat) (fuel : nat) (src : bytes) (acc : list N)
  : res (list N * bool * bytes) :=    (* digits, end?, remaining source *)
  match fuel with
  | O => Ok (acc, false, src)
  | S f =>
      match src with
      | [] => if pad then Err else Ok (acc, true, [])
      | c :: rest =>
          if (c =? padc) && (2 <=? j)%nat && (length rest <? 8)%nat then
            if (length rest + j <? 7)%nat then Err
            else if negb (forallb (fun x => x =? padc) (firstn (7 - j) rest)) then Err
            else if ((j =? 1) || (j =? 3) || (j =? 6))%nat then Err
            else Ok (acc, true, rest)
          else match dec32 c with
               | None => Err
               | Some d => read_quantum32 pad padc (S j) f rest (acc ++ [d])
               end
      end
  end.
Fixpoint b32_decode_fuel (fuel : nat) (pad : bool) (padc : N) (src : bytes) : res bytes :=
  match fuel with
  | O => Ok []
  | S f =>
      match src with
      | [] => Ok []
      | _ =>
          do q <- read_quantum32 pad padc 0 8 src [];
          let '(ds, fin, rest) := q in
          let out := quantum32_bytes ds in
          if fin then Ok out else do more <- b32_decode_fuel f pad padc rest; Ok (out ++ more)
      end
  end.
Definition b32_decode_std (pad : bool) (s : bytes) : res bytes :=
  let src := strip_newlines s in
  b32_decode_fuel (S (length src)) pad (if pad then PAD else 255) src.

(* the library's own checks *)
Fixpoint padding_is_trailing (seen : bool) (s : bytes) : bool :=
  match s with
  | [] => true
  | c :: t => if is_newline c then padding_is_trailing seen t
              else if c =? PAD then padding_is_trailing true t
              else if seen then false else padding_is_trailing false t
  end.
Definition b32_decode_string (s : bytes) : res bytes :=
  if padding_is_trailing false s then b32_decode_std true s else Err.
Definition b32_decode_nopad (s : bytes) : res bytes :=
  if existsb (fun c => c =? 255) s then Err else b32_decode_std false s.
Definition b32_decode_safe (s : bytes) : res bytes :=
  if (length s =? 0)%nat then Err
  else if (Z.of_nat (length s) >? c_base32_MAX_DECODE_SIZE)%Z then Err else b32_decode_string s.
Definition b32_decode_safe_nopad (s : bytes) : res bytes :=
  if (length s =? 0)%nat then Err
  else if (Z.of_nat (length s) >? c_base32_MAX_DECODE_SIZE)%Z then Err else b32_decode_nopad s.
Definition b32_encode_safe (x : bytes) : res bytes :=
  if (length x =? 0)%nat then Err
  else if (Z.of_nat (length x) >? c_base32_MAX_ENCODE_SIZE)%Z then Err else Ok (b32_encode true x).

(* ---- base64 ---- *)
Definition chars64 (n : nat) : nat := match n with 1 => 2 | 2 => 3 | 3 => 4 | _ => 0 end%nat.
Definition enc64_group (g : bytes) : bytes :=
  let n := length g in
  let v := be_decode (g ++ repeatN 0 (3 - n)) in
  map (chr alpha64) (firstn (chars64 n) (digits 64 4 v)) ++ repeatN PAD (4 - chars64 n).
Fixpoint b64_encode_fuel (fuel : nat) (x : bytes) : bytes :=
  match fuel with
  | O => []
  | S f => match x with [] => [] | _ => enc64_group (firstn 3 x) ++ b64_encode_fuel f (skipn 3 x) end
  end.
Definition b64_encode (x : bytes) : bytes := b64_encode_fuel (S (length x)) x.

Definition quantum64_bytes (ds : list N) : bytes :=
  let dlen := length ds in
  firstn (dlen - 1) (be_encode 3 (undigits 64 (ds ++ repeatN 0 (4 - dlen)))).
(* encoding/base64 decodeQuantum on newline-free input (newlines are skipped everywhere,
   including inside and after padding) *)
Fixpoint read_quantum64 (j : nat) (fuel : nat) (src : bytes) (acc : list N) : res (list N * bool * bytes) :=
  match fuel with
  | O => Ok (acc, false, src)
  | S f =>
      match src with
      | [] => if (j =? 0)%nat then Ok (acc, true, []) else Err
      | c :: rest =>
          match dec64 c with
          | Some d => read_quantum64 (S j) f rest (acc ++ [d])
          | None =>
              if negb (c =? PAD) then Err
              else match j with
                   | 0%nat | 1%nat => Err
                   | 2%nat => match rest with
                              | c2 :: rest2 => if (c2 =? PAD) then (if (length rest2 =? 0)%nat then Ok (acc, true, []) else Err) else Err
                              | [] => Err
                              end
                   | _ => if (length rest =? 0)%nat then Ok (acc, true, []) else Err
                   end
          end
      end
  end.
Fixpoint b64_decode_fuel (fuel : nat) (src : bytes) : res bytes :=
  match fuel with
  | O => Ok []
  | S f =>
      match src with
      | [] => Ok []
      | _ =>
          do q <- read_quantum64 0 4 src [];
          let '(ds, fin, rest) := q in
          let out := quantum64_bytes ds in
          if fin then Ok out else do more <- b64_decode_fuel f rest; Ok (out ++ more)
      end
  end.
Definition b64_decode (s : bytes) : res bytes :=
  let src := strip_newlines s in b64_decode_fuel (S (length src)) src.
Definition b64_decode_safe (s : bytes) : res bytes :=
  if (length s =? 0)%nat then Err
  else if (Z.of_nat (length s) >? c_base64_MAX_DECODE_SIZE)%Z then Err else b64_decode s.
