(* Enc.v — EncryptedLeaseSet inner-data encryption layout and the UTC calendar day used
   for blinding.  Cryptographic primitives are Section variables. *)
From Model Require Import Bytes Prim.
Open Scope Z_scope.

(* layout: ephemeral X25519 public key (32) || nonce (12) || ciphertext || tag (16) *)
Definition ELS_EPH : nat := 32. Definition ELS_NONCE : nat := 12. Definition ELS_TAG : nat := 16.
Definition split4 (a b t : nat) (data : bytes) : res (bytes * bytes * bytes * bytes) :=
  if (length data <? a + b + t)%nat then Err
  else
    do eph <- slice 0 a data;
    do nonce <- slice a (a + b) data;
    do body <- slice_from (a + b) data;
    if (length body <? t)%nat then Err
    else do ct <- slice_to (length body - t) body; do tag <- slice_from (length body - t) body;
         Ok (eph, nonce, ct, tag).
Definition els_split (data : bytes) : res (bytes * bytes * bytes * bytes) := split4 ELS_EPH ELS_NONCE ELS_TAG data.

(* X25519 ignores the most significant bit of the u-coordinate: only the encoding with that bit
   clear is accepted as an ephemeral key (a second spelling would make the data malleable) *)
Definition canonical_pub (k : bytes) : bool :=
  match nth_error k 31 with Some b => (b <? 128)%N | None => false end.

Section Cipher.
  Variable dh : bytes -> bytes -> bytes.          (* private key, public key -> shared secret *)
  Variable pubof : bytes -> bytes.                (* private key -> public key *)
  Variable kdf : bytes -> bytes.                  (* shared secret -> symmetric key *)
  Variable aead_enc : bytes -> bytes -> bytes -> bytes * bytes.       (* key nonce plaintext -> ciphertext, tag *)
  Variable aead_dec : bytes -> bytes -> bytes -> bytes -> option bytes. (* key nonce ciphertext tag *)

  (* EncryptInnerLeaseSet2 with the ephemeral private key and the nonce made explicit *)
  Definition els_encrypt (recipient_pub esk nonce plaintext : bytes) : bytes :=
    let '(ct, tag) := aead_enc (kdf (dh esk recipient_pub)) nonce plaintext in
    pubof esk ++ nonce ++ ct ++ tag.
  (* DecryptInnerData up to the AEAD step (the plaintext then goes through ReadLeaseSet2) *)
  Definition els_decrypt (cookie sk data : bytes) : res bytes :=
    if negb (length cookie =? 32)%nat then Err
    else do s <- els_split data;
         let '(eph, nonce, ct, tag) := s in
         if negb (canonical_pub eph) then Err
         else match aead_dec (kdf (dh sk eph)) nonce ct tag with Some p => Ok p | None => Err end.
End Cipher.

(* ---- UTC calendar day: date.UTC().Format("2006-01-02") as a function of Unix seconds ---- *)
Definition days_of_unix (sec : Z) : Z := sec / 86400.          (* floor *)
(* civil date from days since 1970-01-01 (proleptic Gregorian) *)
Definition civil_of_days (days : Z) : Z * Z * Z :=
  let z := days + 719468 in
  let era := z / 146097 in
  let doe := z - era * 146097 in
  let yoe := (doe - doe / 1460 + doe / 36524 - doe / 146096) / 365 in
  let y := yoe + era * 400 in
  let doy := doe - (365 * yoe + yoe / 4 - yoe / 100) in
  let mp := (5 * doy + 2) / 153 in
  let d := doy - (153 * mp + 2) / 5 + 1 in
  let m := if mp <? 10 then mp + 3 else mp - 9 in
  (if m <=? 2 then y + 1 else y, m, d).
Definition digit (v : Z) : N := Z.to_N (48 + v mod 10).
Definition date_string (sec : Z) : bytes :=
  let '(y, m, d) := civil_of_days (days_of_unix sec) in
  [digit (y / 1000); digit (y / 100); digit (y / 10); digit y; 45%N; digit (m / 10); digit m; 45%N; digit (d / 10); digit d].
