(* Cert.v — model of packages certificate and key_certificate. *)
From Model Require Import Bytes Prim Tables.
From Gen Require Import Consts.
Open Scope Z_scope.

Record cert := mkCert { c_kind : bytes; c_len : bytes; c_payload : bytes }.

Definition CERT_MIN : nat := Z.to_nat c_certificate_CERT_MIN_SIZE.

Definition cert_is_valid (c : cert) : bool :=
  negb (length (c_kind c) =? 0)%nat && negb (length (c_len c) =? 0)%nat.
Definition cert_len_int (c : cert) : Z := integer_int (c_len c).
Definition cert_kind_int (c : cert) : Z := integer_int (c_kind c).

(* Certificate.length() = 3 + min(declared, actual) *)
Definition cert_length (c : cert) : Z :=
  if cert_is_valid c then
    c_certificate_CERT_MIN_SIZE + Z.min (cert_len_int c) (Z.of_nat (length (c_payload c)))
  else 0.

(* ReadCertificate *)
Definition read_certificate (b : bytes) : res (cert * bytes) :=
  if (length b <? CERT_MIN)%nat then Err
  else
    do kind <- slice 0 1 b;
    do ln <- slice 1 3 b;
    do payload <- slice_from 3 b;
    let c := mkCert kind ln payload in
    if cert_len_int c >? Z.of_nat (length b) - c_certificate_CERT_MIN_SIZE then Err
    else
      let cl := cert_length c in
      if Z.of_nat (length b) >? cl then do r <- slice_from (Z.to_nat cl) b; Ok (c, r)
      else Ok (c, []).

(* Type(), Length(), Data() *)
Definition cert_type (c : cert) : res Z :=
  if cert_is_valid c then
    let t := cert_kind_int c in
    if (t <? c_certificate_CERT_NULL) || (t >? c_certificate_CERT_MAX_TYPE_VALUE) then Err else Ok t
  else Err.
Definition cert_length_field (c : cert) : res Z :=
  if cert_is_valid c then
    let l := cert_len_int c in
    if (l <? c_certificate_CERT_EMPTY_PAYLOAD_SIZE) || (l >? c_certificate_CERT_MAX_PAYLOAD_SIZE) then Err else Ok l
  else Err.
Definition cert_data (c : cert) : res bytes :=
  do l <- cert_length_field c;
  if l >? Z.of_nat (length (c_payload c)) then Ok (c_payload c)
  else slice 0 (Z.to_nat l) (c_payload c).
Definition cert_bytes (c : cert) : res bytes :=
  if cert_is_valid c then
    match cert_data c with
    | Ok d => Ok (c_kind c ++ c_len c ++ d)
    | Err => Ok (c_kind c ++ c_len c)
    | Panic => Panic
    end
  else Ok [].
Definition cert_raw_bytes (c : cert) : bytes :=
  if cert_is_valid c then c_kind c ++ c_len c ++ c_payload c else [].
Definition cert_excess_bytes (c : cert) : res bytes :=
  if cert_is_valid c then
    if (Z.of_nat (length (c_payload c)) >=? cert_len_int c)
    then slice_from (Z.to_nat (cert_len_int c)) (c_payload c) else Ok []
  else Ok [].

(* NewCertificateWithType(uint8 type, payload) *)
Definition new_certificate_with_type (t : Z) (payload : bytes) : res cert :=
  if negb (cert_type_valid t) then Err
  else
    let n := Z.of_nat (length payload) in
    if n >? c_certificate_CERT_MAX_PAYLOAD_SIZE then Err
    else if (t =? c_certificate_CERT_NULL) && (n >? c_certificate_CERT_EMPTY_PAYLOAD_SIZE) then Err
    else if (t =? c_certificate_CERT_HIDDEN) && (n >? c_certificate_CERT_EMPTY_PAYLOAD_SIZE) then Err
    else if (t =? c_certificate_CERT_SIGNED) && negb (n =? c_certificate_CERT_SIGNED_PAYLOAD_SHORT) && negb (n =? c_certificate_CERT_SIGNED_PAYLOAD_LONG) then Err
    else do l <- new_integer_from_int n c_certificate_CERT_LENGTH_FIELD_SIZE;
         Ok (mkCert [Z.to_N t] l payload).
Definition new_certificate : cert := mkCert [0%N] [0%N; 0%N] [].

(* GetSignatureTypeFromCertificate / GetCryptoTypeFromCertificate *)
Definition cert_key_type_at (off : nat) (c : cert) : res Z :=
  do t <- cert_type c;
  if negb (t =? c_certificate_CERT_KEY) then Err
  else if (Z.of_nat (length (c_payload c)) <? c_certificate_CERT_MIN_KEY_PAYLOAD_SIZE) then Err
  else do s <- slice off (off + 2) (c_payload c); Ok (Z.of_N (be_decode s)).
Definition cert_sig_type := cert_key_type_at (Z.to_nat c_certificate_CERT_KEY_SIG_TYPE_OFFSET).
Definition cert_crypto_type := cert_key_type_at (Z.to_nat c_certificate_CERT_KEY_CRYPTO_TYPE_OFFSET).

(* ---- key_certificate ---- *)
Record keycert := mkKC { kc_cert : cert; kc_spk : bytes; kc_cpk : bytes }.

Definition kc_signing_type (k : keycert) : Z := integer_int (kc_spk k).
Definition kc_crypto_type (k : keycert) : Z := integer_int (kc_cpk k).
Definition kc_signature_size (k : keycert) : Z := or0 (kc_sig_size (kc_signing_type k)).
Definition kc_signing_pubkey_size (k : keycert) : Z := or0 (kc_spk_size (kc_signing_type k)).
Definition kc_crypto_size_of (k : keycert) : Z := or0 (kc_crypto_size (kc_crypto_type k)).
Definition kc_crypto_pubkey_size (k : keycert) : res Z :=
  match kc_crypto_pub_sizes (kc_crypto_type k) with Some v => Ok v | None => Err end.

(* KeyCertificateFromCertificate *)
Definition keycert_from_cert (c : cert) : res keycert :=
  do t <- cert_type c;
  if negb (t =? c_certificate_CERT_KEY) then Err
  else do d <- cert_data c;
       if (length d <? 4)%nat then Err
       else do s <- slice 0 2 d; do cp <- slice 2 4 d; Ok (mkKC c s cp).
(* NewKeyCertificate(bytes) *)
Definition new_key_certificate (b : bytes) : res (keycert * bytes) :=
  do cr <- read_certificate b;
  do k <- keycert_from_cert (fst cr);
  Ok (k, snd cr).
Definition keycert_bytes (k : keycert) : res bytes := cert_bytes (kc_cert k).
Definition keycert_data (k : keycert) : bytes := cert_raw_bytes (kc_cert k).

(* NewKeyCertificateWithTypes(signingType, cryptoType int) *)
Definition kc_valid_signing_type (t : Z) : bool :=
  ((t >=? c_key_certificate_KEYCERT_SIGN_EXPERIMENTAL_START) && (t <=? c_key_certificate_KEYCERT_SIGN_EXPERIMENTAL_END))
  || memZ Gen.Tables.m_key_certificate_validateSigningType_validTypes_keys t.
Definition kc_valid_crypto_type (t : Z) : bool :=
  ((t >=? c_key_certificate_KEYCERT_CRYPTO_EXPERIMENTAL_START) && (t <=? c_key_certificate_KEYCERT_CRYPTO_EXPERIMENTAL_END))
  || memZ Gen.Tables.m_key_certificate_validateCryptoType_validTypes_keys t.
Definition key_type_payload (s c : Z) : bytes :=
  be_encode 2 (Z.to_N (s mod 65536)) ++ be_encode 2 (Z.to_N (c mod 65536)).
Definition new_key_certificate_with_types (s c : Z) : res keycert :=
  if negb (kc_valid_signing_type s) then Err
  else if negb (kc_valid_crypto_type c) then Err
  else do ce <- new_certificate_with_type c_certificate_CERT_KEY (key_type_payload s c);
       keycert_from_cert ce.
