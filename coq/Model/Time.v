(* Time.v — the expiry arithmetic of the library with Go's representations made explicit:
   time.Duration is an int64 count of nanoseconds, Unix()/UnixMilli() are int64, the wire
   fields are uint32 / uint16 / uint64. *)
From Model Require Import Bytes Prim.
From Gen Require Import Consts.
Open Scope Z_scope.

Definition NS : Z := 1000000000.
(* time.Duration(x) * time.Second for an unsigned field x *)
Definition duration_seconds (x : N) : Z := wrap64 (Z.of_N x * NS).
(* time.Unix(sec, 0).Add(d).Unix(): whole seconds of d are added (d >= 0 here) *)
Definition unix_add (sec d : Z) : Z := wrap64 (sec + d / NS).
(* PublishedTime().Unix() and ExpirationTime().Unix() of LeaseSet2 / MetaLeaseSet / EncryptedLeaseSet *)
Definition published_unix (p : N) : Z := wrap64 (Z.of_N p).
Definition expiration_unix (p e : N) : Z := unix_add (published_unix p) (duration_seconds e).

(* Lease (44 bytes): Date() is the 8-byte field, Time() = time.UnixMilli(int64(field)) *)
Definition lease_time_millis (date : bytes) : Z := wrap64 (Z.of_N (be_decode date)).
(* Lease2 (40 bytes): Time() = time.Unix(int64(end), 0); Date() = uint64(end) * 1000 *)
Definition lease2_time_unix (e : N) : Z := wrap64 (Z.of_N e).
Definition lease2_date (e : N) : bytes := be_encode 8 (e * 1000 mod 2 ^ 64)%N.
(* time.Unix(sec, nsec).Unix() *)
Definition time_unix (sec nsec : Z) : Z := wrap64 (sec + nsec / NS).
(* NewLease2: rejects times outside the uint32 range instead of storing a wrapped value *)
Definition new_lease2_end (sec nsec : Z) : res bytes :=
  let u := time_unix sec nsec in
  if (u <? 0) || (u >? c_lease_LEASE2_MAX_END_DATE) then Err else Ok (be_encode 4 (Z.to_N u)).
(* NewLease: uint64(UnixMilli()) *)
Definition new_lease_date (sec nsec : Z) : bytes := be_encode 8 (to_u64 (unix_milli sec nsec)).
(* OfflineSignature.ExpiresTime().Unix(), ExpiresDate() *)
Definition off_expires_unix (e : N) : Z := wrap64 (Z.of_N e).
Definition off_expires_date (e : N) : bytes := date_from_time (Z.of_N e) 0.
Definition meta_entry_expires_unix (e : N) : Z := wrap64 (Z.of_N e).

(* NewestExpiration / OldestExpiration over the leases' dates *)
Definition newest_of (dates : list bytes) : option bytes :=
  match dates with
  | [] => None
  | d :: t => Some (fold_left (fun best x => if lease_time_millis x >? lease_time_millis best then x else best) t d)
  end.
Definition oldest_of (dates : list bytes) : option bytes :=
  match dates with
  | [] => None
  | d :: t => Some (fold_left (fun best x => if lease_time_millis x <? lease_time_millis best then x else best) t d)
  end.
(* IsExpired(now): strictly after the expiry *)
Definition is_expired (now expiry : Z) : bool := now >? expiry.
