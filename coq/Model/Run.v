(* Run.v — uniform executable interface of the model for the correspondence check:
   [run entry args] evaluates one modelled entry point on byte-string arguments and
   returns the projected observables as byte strings.  Integers travel as 8-byte
   big-endian two's complement. *)
From Gen Require Import Consts.
From Model Require Import Bytes Entries Prim Tables ExtCrypto Cert KAC Mapping Sig LS Validate RI Time Crypto Base Addr Heap Enc.
Open Scope N_scope.

Definition argZ (b : bytes) : Z := wrap64 (Z.of_N (be_decode b)).
Definition argN (b : bytes) : N := be_decode b.
Definition outZ (v : Z) : bytes := be_encode 8 (to_u64 v).
Definition outN (v : N) : bytes := be_encode 8 v.
Definition outB (b : bool) : bytes := [if b then 1 else 0].

Definition arg (i : nat) (args : list bytes) : bytes := nth i args [].
Definition pair2 (r : res (bytes * bytes)) : res (list bytes) :=
  do p <- r; Ok [fst p; snd p].
Definition one (r : res bytes) : res (list bytes) := do b <- r; Ok [b].
Definition oneZ (r : res Z) : res (list bytes) := do v <- r; Ok [outZ v].

Definition strerr_code (e : strerr) : N :=
  match e with SNone => 0 | SZero => 1 | STooShort => 2 | STooLong => 3 end.

Definition run_prim (e : N) (a : list bytes) : option (res (list bytes)) :=
  let a0 := arg 0 a in let a1 := arg 1 a in
  if e =? E_ReadInteger then Some (pair2 (read_integer a0 (argZ a1)))
  else if e =? E_IntegerInt then Some (Ok [outZ (integer_int a0)])
  else if e =? E_NewIntegerFromInt then Some (one (new_integer_from_int (argZ a0) (argZ a1)))
  else if e =? E_EncodeIntN then Some (one (encode_int_n (argZ a0) (argZ a1)))
  else if e =? E_DecodeIntN then Some (oneZ (decode_int_n a0))
  else if e =? E_IntSafe then Some (oneZ (integer_int_safe a0))
  else if e =? E_UintSafe then Some (do v <- integer_uint_safe a0; Ok [outN v])
  else if e =? E_NewIntegerFromBytes then Some (one (new_integer_from_bytes a0))
  else if e =? E_EncU16 then Some (Ok [encode_uint 2 (argN a0)])
  else if e =? E_EncU32 then Some (Ok [encode_uint 4 (argN a0)])
  else if e =? E_EncU64 then Some (Ok [encode_uint 8 (argN a0)])
  else if e =? E_EncI16 then Some (Ok [encode_sint 2 (argZ a0)])
  else if e =? E_EncI32 then Some (Ok [encode_sint 4 (argZ a0)])
  else if e =? E_EncI64 then Some (Ok [encode_sint 8 (argZ a0)])
  else if e =? E_DecU16 then Some (Ok [outN (decode_uint a0)])
  else if e =? E_DecU32 then Some (Ok [outN (decode_uint a0)])
  else if e =? E_DecU64 then Some (Ok [outN (decode_uint a0)])
  else if e =? E_DecI16 then Some (Ok [outZ (decode_sint 2 a0)])
  else if e =? E_DecI32 then Some (Ok [outZ (decode_sint 4 a0)])
  else if e =? E_DecI64 then Some (Ok [outZ (decode_sint 8 a0)])
  else if e =? E_ReadDate then Some (pair2 (read_date a0))
  else if e =? E_DateInt then Some (Ok [outZ (date_int a0)])
  else if e =? E_DateFromTime then Some (Ok [date_from_time (argZ a0) (argZ a1)])
  else if e =? E_NewDateFromUnix then Some (one (new_date_from_unix (argZ a0)))
  else if e =? E_NewDateFromMillis then Some (one (new_date_from_millis (argZ a0)))
  else if e =? E_ReadHash then Some (pair2 (read_hash a0))
  else if e =? E_ReadI2PString then Some (pair2 (read_i2pstring a0))
  else if e =? E_StrLength then Some (let '(l, er) := str_length a0 in Ok [outN l; [strerr_code er]])
  else if e =? E_StrData then Some (one (str_data a0))
  else if e =? E_StrDataSafe then Some (one (str_data_safe a0))
  else if e =? E_ToI2PString then Some (one (to_i2pstring a0))
  else if e =? E_NewI2PStringFromBytes then Some (one (new_i2pstring_from_bytes a0))
  else if e =? E_StrIsValid then Some (Ok [outB (str_is_valid a0)])
  else None.

Definition optb (o : option bytes) : bytes := match o with Some b => b | None => [] end.
Definition kac_obs (r : res (kac * bytes)) : res (list bytes) :=
  do p <- r; do b <- kac_bytes (fst p);
  Ok [b; snd p; optb (k_pub (fst p)); k_pad (fst p); optb (k_spk (fst p))].
Fixpoint args_to_kv (a : list bytes) : list (bytes * bytes) :=
  match a with
  | k :: v :: t => (k, v) :: args_to_kv t
  | _ => []
  end.
Definition optZ (o : option Z) : bytes := match o with Some v => outZ v | None => [255%N] end.

Definition out_queries (o : option (list query)) : res (list bytes) :=
  match o with
  | None => Err
  | Some qs => Ok (flat_map (fun q => [[q_alg q]; q_key q; q_msg q; q_sig q]) qs)
  end.

Definition run_struct (e : N) (a : list bytes) : option (res (list bytes)) :=
  let a0 := arg 0 a in let a1 := arg 1 a in
  if e =? E_ReadCertificate then Some (
    do p <- read_certificate a0; do b <- cert_bytes (fst p); do x <- cert_excess_bytes (fst p);
    Ok [b; snd p; cert_raw_bytes (fst p); x])
  else if e =? E_NewCertificateWithType then Some (do c <- new_certificate_with_type (argZ a0) a1; one (cert_bytes c))
  else if e =? E_NewKeyCertificate then Some (
    do p <- new_key_certificate a0; do b <- keycert_bytes (fst p);
    Ok [b; snd p; kc_spk (fst p); kc_cpk (fst p)])
  else if e =? E_NewKeyCertificateWithTypes then Some (do k <- new_key_certificate_with_types (argZ a0) (argZ a1); one (keycert_bytes k))
  else if e =? E_ReadKeysAndCert then Some (kac_obs (read_keys_and_cert a0))
  else if e =? E_ReadKACElgEd25519 then Some (kac_obs (read_kac_elg_ed25519 a0))
  else if e =? E_ReadKACX25519Ed25519 then Some (kac_obs (read_kac_x25519_ed25519 a0))
  else if e =? E_ReadDestination then Some (kac_obs (read_destination a0))
  else if e =? E_ReadRouterIdentity then Some (kac_obs (read_router_identity a0))
  else if e =? E_ReadSignature then Some (do p <- read_signature a0 (argZ a1); Ok [sig_bytes (fst p); snd p])
  else if e =? E_NewSignatureFromBytes then Some (do s <- new_signature_from_bytes a0 (argZ a1); Ok [sig_bytes s])
  else if e =? E_ReadOfflineSignature then Some (
    do p <- read_offline_signature a0 (argN a1); Ok [off_bytes (fst p); snd p; off_signed_data (fst p)])
  else if e =? E_ReadLease then Some (pair2 (read_lease a0))
  else if e =? E_ReadLease2 then Some (pair2 (read_lease2 a0))
  else if e =? E_ReadMapping then Some (
    match read_mapping a0 with
    | None => Panic
    | Some (m, r, errs) =>
        Ok ([outB (negb (embedded_mapping_ok errs)); mapping_data m; r] ++ flat_map (fun p => [fst p; snd p]) (map_values m))
    end)
  else if e =? E_GoMapToMapping then Some (do m <- go_map_to_mapping (args_to_kv a); Ok [mapping_data m])
  else if e =? E_ReadRouterAddress then Some (do p <- read_router_address a0; Ok [router_address_bytes (fst p); snd p])
  else if e =? E_ReadRouterInfo then Some (do p <- read_router_info a0; do b <- router_info_bytes (fst p); Ok [b; snd p])
  else if e =? E_ReadLeaseSet then Some (do l <- read_lease_set a0; one (lease_set_bytes l))
  else if e =? E_ReadLeaseSet2 then Some (do p <- read_lease_set2 a0; do b <- lease_set2_bytes (fst p); Ok [b; snd p])
  else if e =? E_ReadMetaLeaseSet then Some (do p <- read_meta_lease_set a0; do b <- meta_lease_set_bytes (fst p); Ok [b; snd p])
  else if e =? E_ReadEncryptedLeaseSet then Some (do p <- read_encrypted_lease_set a0; Ok [els_bytes (fst p); snd p])
  else if e =? E_ReadSessionKey then Some (pair2 (take 32 a0))
  else if e =? E_ReadSessionTag then Some (pair2 (take 32 a0))
  else if e =? E_ReadECIESSessionTag then Some (pair2 (take 8 a0))
  else if e =? E_LS2Expiration then Some (Ok [outZ (published_unix (argN a0)); outZ (expiration_unix (argN a0) (argN a1))])
  else if e =? E_MetaExpiration then Some (Ok [outZ (published_unix (argN a0)); outZ (expiration_unix (argN a0) (argN a1))])
  else if e =? E_EncExpiration then Some (Ok [outZ (published_unix (argN a0)); outZ (expiration_unix (argN a0) (argN a1))])
  else if e =? E_LeaseTime then Some (Ok [outZ (lease_time_millis a0)])
  else if e =? E_Lease2Time then Some (Ok [outZ (lease2_time_unix (argN a0)); lease2_date (argN a0)])
  else if e =? E_NewLease2 then Some (one (new_lease2_end (argZ a0) (argZ a1)))
  else if e =? E_NewLease then Some (Ok [new_lease_date (argZ a0) (argZ a1)])
  else if e =? E_OfflineExpires then Some (Ok [outZ (off_expires_unix (argN a0)); off_expires_date (argN a0)])
  else if e =? E_MetaEntryExpires then Some (Ok [outZ (meta_entry_expires_unix (argN a0))])
  else if e =? E_NewestOldest then Some (
    match newest_of a, oldest_of a with
    | Some n, Some o => Ok [n; o]
    | _, _ => Err
    end)
  else if e =? E_VerifyRouterInfo then Some (do p <- read_router_info a0; out_queries (ri_verify_queries (fst p)))
  else if e =? E_VerifyLeaseSet then Some (do l <- read_lease_set a0; out_queries (ls_verify_queries l))
  else if e =? E_VerifyLeaseSet2 then Some (do p <- read_lease_set2 a0; out_queries (ls2_verify_queries (fst p)))
  else if e =? E_VerifyMetaLeaseSet then Some (do p <- read_meta_lease_set a0; out_queries (meta_verify_queries (fst p)))
  else if e =? E_VerifyEncryptedLeaseSet then Some (do p <- read_encrypted_lease_set a0; out_queries (els_verify_queries (fst p)))
  else if e =? E_VerifyOfflineSignature then Some (
    do p <- read_offline_signature a0 (argN a1); out_queries (option_map (fun q => [q]) (offline_query (fst p) (arg 2 a))))
  else if e =? E_B32Encode then Some (Ok [b32_encode true a0])
  else if e =? E_B32Decode then Some (one (b32_decode_string a0))
  else if e =? E_B32EncodeNoPad then Some (Ok [b32_encode false a0])
  else if e =? E_B32DecodeNoPad then Some (one (b32_decode_nopad a0))
  else if e =? E_B32DecodeSafe then Some (one (b32_decode_safe a0))
  else if e =? E_B32DecodeSafeNoPad then Some (one (b32_decode_safe_nopad a0))
  else if e =? E_B64Encode then Some (Ok [b64_encode a0])
  else if e =? E_B64Decode then Some (one (b64_decode a0))
  else if e =? E_B64DecodeSafe then Some (one (b64_decode_safe a0))
  else if e =? E_DestAddresses then Some (
    do p <- read_keys_and_cert a0; do b <- kac_bytes (fst p); do b64 <- dest_base64 (fst p);
    Ok [b; base32_address a1; b64])
  else if e =? E_RouterAddrAccessors then Some (
    do p <- read_router_address a0;
    let ra := fst p in
    let ob (o : option bytes) := match o with Some x => [outB true; x] | None => [outB false; []] end in
    Ok (ob (ra_host ra) ++ ob (ra_port ra) ++ [outB (ra_has_valid_host ra); outB (ra_has_valid_port ra); ra_ip_version ra]
        ++ ob (ra_fixed_key ra s_router_address_STATIC_KEY_OPTION_KEY c_router_address_STATIC_KEY_SIZE)
        ++ ob (ra_fixed_key ra s_router_address_INITIALIZATION_VECTOR_OPTION_KEY c_router_address_INITIALIZATION_VECTOR_SIZE)))
  else if e =? E_AliasBytesChange then Some (do b <- bytes_change (argN a0) a1 (skipn 2 a); Ok [outB b])
  else if e =? E_NewOfflineSignature then Some (
    do o <- new_offline_signature (argN a0) (argN a1) (arg 2 a) (arg 3 a) (argN (arg 4 a));
    Ok [off_bytes o; outB (off_validate_structure o)])
  else if e =? E_NewKeysAndCertFromParts then Some (
    (* key certificate bytes, public key (or empty = nil), padding, signing key (or empty = nil) *)
    do kr <- new_key_certificate a0;
    let ob (b : bytes) := match b with [] => None | _ => Some b end in
    do k <- new_keys_and_cert (fst kr) (ob a1) (arg 2 a) (ob (arg 3 a));
    match kac_bytes k with
    | Ok b => Ok [outB (kac_validate k); b]
    | Err => Ok [outB (kac_validate k); []]
    | Panic => Panic
    end)
  else if e =? E_ELSSplit then Some (do s <- els_split a0; let '(eph, nonce, ct, tag) := s in Ok [eph; nonce; ct; tag])
  else if e =? E_BlindingDate then Some (Ok [date_string (argZ a0)])
  (* size/deny lookups on one 16-bit code (C09, C10 translation validation) *)
  else if e =? E_KCSizes then Some (let t := argZ a0 in
    Ok [optZ (kc_sig_size t); optZ (kc_spk_size t); optZ (kc_crypto_size t); optZ (kc_crypto_pub_sizes t); optZ (kc_sig_pub_sizes t)])
  else if e =? E_SigSize then Some (Ok [optZ (sig_length (argZ a0))])
  else if e =? E_OffSizes then Some (let t := argZ a0 in Ok [outZ (off_spk_size t); outZ (off_sig_size t)])
  else if e =? E_DestAllowed then Some (Ok [outB (negb (dest_crypto_denied (argZ a1)) && negb (dest_signing_denied (argZ a0)))])
  else if e =? E_RIAllowed then Some (Ok [outB (negb (ri_signing_denied (argZ a0)) && negb (ri_crypto_denied (argZ a1)))])
  (* validators regenerated from the Go source (Gen/Validators.v), run on model values *)
  else if e =? E_LS2Validate then Some (do p <- read_lease_set2 a0; Ok [outB (ls2_validate (fst p))])
  else if e =? E_NewLS2Check then Some (Ok [outB (new_ls2_check true (argN a0) (argN a1) (arg 2 a) (arg 3 a) (argN (arg 4 a)))])
  (* KeyCertificate.ConstructSigningPublicKey / ConstructPublicKey on data of any length *)
  else if e =? E_ConstructSPK then Some (do kr <- new_key_certificate a0; one (construct_signing_public_key (fst kr) a1))
  else if e =? E_ConstructPK then Some (do kr <- new_key_certificate a0; one (construct_public_key (fst kr) a1))
  else if e =? E_NewELSCheck then Some (Ok [outB (new_els_check (argN a0) a1 (argN (arg 2 a)) (argN (arg 3 a)) (arg 4 a) (arg 5 a))])
  else None.

(* unknown entry: reported with a distinguished marker *)
Definition run (e : N) (a : list bytes) : res (list bytes) :=
  match run_prim e a with
  | Some r => r
  | None => match run_struct e a with Some r => r | None => Ok [[255; 255; 255]] end
  end.
