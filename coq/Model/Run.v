(* Run.v — uniform executable interface of the model for the correspondence check:
   [run entry args] evaluates one modelled entry point on byte-string arguments and
   returns the projected observables as byte strings.  Integers travel as 8-byte
   big-endian two's complement. *)
From Model Require Import Bytes Entries Prim.
Open Scope N_scope.

Definition argZ (b : bytes) : Z := wrap64 (Z.of_N (be_decode b)).
Definition argN (b : bytes) : N := be_decode b.
Definition outZ (v : Z) : bytes := be_encode 8 (to_u64 v).
Definition outN (v : N) : bytes := be_encode 8 v.
Definition outB (b : bool) : bytes := [if b then 1 else 0].

Definition arg (i : nat) (args : list bytes) : bytes := nth i args [].
Definition pair2 (r : res (bytes * bytes)) : res (list bytes) :=
  do p <- r; Ok [fst p; snd p].
Definition one (r : res bytes) : res (list bytes) := do b <- r; Ok [b].
Definition oneZ (r : res Z) : res (list bytes) := do v <- r; Ok [outZ v].

Definition strerr_code (e : strerr) : N :=
  match e with SNone => 0 | SZero => 1 | STooShort => 2 | STooLong => 3 end.

Definition run_prim (e : N) (a : list bytes) : option (res (list bytes)) :=
  let a0 := arg 0 a in let a1 := arg 1 a in
  if e =? E_ReadInteger then Some (pair2 (read_integer a0 (argZ a1)))
  else if e =? E_IntegerInt then Some (Ok [outZ (integer_int a0)])
  else if e =? E_NewIntegerFromInt then Some (one (new_integer_from_int (argZ a0) (argZ a1)))
  else if e =? E_EncodeIntN then Some (one (encode_int_n (argZ a0) (argZ a1)))
  else if e =? E_DecodeIntN then Some (oneZ (decode_int_n a0))
  else if e =? E_IntSafe then Some (oneZ (integer_int_safe a0))
  else if e =? E_UintSafe then Some (do v <- integer_uint_safe a0; Ok [outN v])
  else if e =? E_NewIntegerFromBytes then Some (one (new_integer_from_bytes a0))
  else if e =? E_EncU16 then Some (Ok [encode_uint 2 (argN a0)])
  else if e =? E_EncU32 then Some (Ok [encode_uint 4 (argN a0)])
  else if e =? E_EncU64 then Some (Ok [encode_uint 8 (argN a0)])
  else if e =? E_EncI16 then Some (Ok [encode_sint 2 (argZ a0)])
  else if e =? E_EncI32 then Some (Ok [encode_sint 4 (argZ a0)])
  else if e =? E_EncI64 then Some (Ok [encode_sint 8 (argZ a0)])
  else if e =? E_DecU16 then Some (Ok [outN (decode_uint a0)])
  else if e =? E_DecU32 then Some (Ok [outN (decode_uint a0)])
  else if e =? E_DecU64 then Some (Ok [outN (decode_uint a0)])
  else if e =? E_DecI16 then Some (Ok [outZ (decode_sint 2 a0)])
  else if e =? E_DecI32 then Some (Ok [outZ (decode_sint 4 a0)])
  else if e =? E_DecI64 then Some (Ok [outZ (decode_sint 8 a0)])
  else if e =? E_ReadDate then Some (pair2 (read_date a0))
  else if e =? E_DateInt then Some (Ok [outZ (date_int a0)])
  else if e =? E_DateFromTime then Some (Ok [date_from_time (argZ a0) (argZ a1)])
  else if e =? E_NewDateFromUnix then Some (one (new_date_from_unix (argZ a0)))
  else if e =? E_NewDateFromMillis then Some (one (new_date_from_millis (argZ a0)))
  else if e =? E_ReadHash then Some (pair2 (read_hash a0))
  else if e =? E_ReadI2PString then Some (pair2 (read_i2pstring a0))
  else if e =? E_StrLength then Some (let '(l, er) := str_length a0 in Ok [outN l; [strerr_code er]])
  else if e =? E_StrData then Some (one (str_data a0))
  else if e =? E_StrDataSafe then Some (one (str_data_safe a0))
  else if e =? E_ToI2PString then Some (one (to_i2pstring a0))
  else if e =? E_NewI2PStringFromBytes then Some (one (new_i2pstring_from_bytes a0))
  else if e =? E_StrIsValid then Some (Ok [outB (str_is_valid a0)])
  else None.

(* unknown entry: reported as a distinguished panic-free error with marker *)
Definition run (e : N) (a : list bytes) : res (list bytes) :=
  match run_prim e a with
  | Some r => r
  | None => Ok [[255; 255; 255]]
  end.
