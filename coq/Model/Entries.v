(* GENERATED from /verif/entries.txt *)
From Coq Require Import NArith.
Open Scope N_scope.
Definition E_ReadInteger : N := 1.
Definition E_IntegerInt : N := 2.
Definition E_NewIntegerFromInt : N := 3.
Definition E_EncodeIntN : N := 4.
Definition E_DecodeIntN : N := 5.
Definition E_IntSafe : N := 6.
Definition E_UintSafe : N := 7.
Definition E_NewIntegerFromBytes : N := 8.
Definition E_EncU16 : N := 10.
Definition E_EncU32 : N := 11.
Definition E_EncU64 : N := 12.
Definition E_EncI16 : N := 13.
Definition E_EncI32 : N := 14.
Definition E_EncI64 : N := 15.
Definition E_DecU16 : N := 16.
Definition E_DecU32 : N := 17.
Definition E_DecU64 : N := 18.
Definition E_DecI16 : N := 19.
Definition E_DecI32 : N := 20.
Definition E_DecI64 : N := 21.
Definition E_ReadDate : N := 25.
Definition E_DateInt : N := 26.
Definition E_DateFromTime : N := 27.
Definition E_NewDateFromUnix : N := 28.
Definition E_NewDateFromMillis : N := 29.
Definition E_ReadHash : N := 30.
Definition E_ReadI2PString : N := 35.
Definition E_StrLength : N := 36.
Definition E_StrData : N := 37.
Definition E_StrDataSafe : N := 38.
Definition E_ToI2PString : N := 39.
Definition E_NewI2PStringFromBytes : N := 40.
Definition E_StrIsValid : N := 41.
