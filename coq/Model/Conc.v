(* Conc.v — a small-step interleaving semantics for threads that perform atomic reads and
   writes on a shared heap, and the general non-interference fact behind C18: threads that
   never write shared state observe, under EVERY interleaving, exactly what they observe
   when run alone, and leave the heap unchanged (so no conflicting access pair exists). *)
From Coq Require Import List NArith Arith Lia.
Import ListNotations.

Inductive step := SRead (l : nat) | SWrite (l : nat) (v : N).
Definition thread := list step.
Definition heap := nat -> N.
Definition upd (h : heap) (l : nat) (v : N) : heap := fun x => if Nat.eqb x l then v else h x.

Definition is_read (s : step) : bool := match s with SRead _ => true | SWrite _ _ => false end.
Definition read_only (t : thread) : bool := forallb is_read t.

(* what a thread reads when run alone from heap h *)
Fixpoint alone (h : heap) (t : thread) : list N :=
  match t with
  | [] => []
  | SRead l :: r => h l :: alone h r
  | SWrite l v :: r => alone (upd h l v) r
  end.

(* machine state: remaining program and read log of every thread, and the shared heap *)
Record state := mkSt { progs : list thread; logs : list (list N); hp : heap }.
Fixpoint set_nth {A} (n : nat) (x : A) (l : list A) : list A :=
  match l, n with
  | [], _ => []
  | _ :: t, O => x :: t
  | y :: t, S k => y :: set_nth k x t
  end.
(* thread i takes one step (no-op if it has finished or does not exist) *)
Definition step_thread (i : nat) (s : state) : state :=
  match nth_error (progs s) i with
  | Some (SRead l :: r) => mkSt (set_nth i r (progs s)) (set_nth i (nth i (logs s) [] ++ [hp s l]) (logs s)) (hp s)
  | Some (SWrite l v :: r) => mkSt (set_nth i r (progs s)) (logs s) (upd (hp s) l v)
  | _ => s
  end.
Definition run (sched : list nat) (s : state) : state := fold_left (fun st i => step_thread i st) sched s.
Definition init (ts : list thread) (h : heap) : state := mkSt ts (map (fun _ => []) ts) h.
