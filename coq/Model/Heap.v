(* Heap.v — provenance of parsed fields: does a field of the returned value hold fresh
   bytes (a copy) or a view into the caller's buffer?  Written from the code: every `make`
   + `copy` / array copy is Fresh, every sub-slice expression kept in the value is a View.
   [bytes_change e x] predicts whether the value's serialisation changes when every byte of
   the input buffer is overwritten after parsing (any view of >= 1 byte shows). *)
From Model Require Import Bytes Entries Prim Tables Cert KAC Mapping Sig LS RI.
Open Scope N_scope.

Inductive prov := Fresh (b : bytes) | View (off len : nat).
Definition observe (buf : bytes) (p : prov) : bytes :=
  match p with Fresh b => b | View o l => firstn l (skipn o buf) end.
(* overwriting the buffer never changes a value all of whose fields are fresh *)
Definition all_fresh (fields : list prov) : bool := forallb (fun p => match p with Fresh _ => true | View _ _ => false end) fields.

(* views kept by each parser (everything else is copied):
   - ReadInteger / ReadI2PString / ReadMapping (its strings) return sub-slices by design;
   - hence RouterAddress (cost, style, options), RouterInfo (size, peer_size, addresses,
     options) and the options / entry properties of LeaseSet2 / MetaLeaseSet alias the input;
   - certificates, key certificates, keys-and-cert, destinations, router identities,
     signatures, offline signatures, leases, LeaseSet, EncryptedLeaseSet and the identity,
     key, lease and signature parts of LeaseSet2 / MetaLeaseSet are copies. *)
Definition has_pairs (m : mapping) : bool := (0 <? length (map_values m))%nat.
Definition bytes_change (e : N) (x : bytes) (extra : list bytes) : res bool :=
  if e =? E_ReadLeaseSet2 then do p <- read_lease_set2 x; Ok (has_pairs (l2_options (fst p)))
  else if e =? E_ReadMetaLeaseSet then
    do p <- read_meta_lease_set x;
    Ok (has_pairs (ml_options (fst p)) || existsb (fun en => has_pairs (me_props en)) (ml_entries (fst p)))
  else if e =? E_ReadRouterAddress then do p <- read_router_address x; Ok true
  else if e =? E_ReadRouterInfo then do p <- read_router_info x; Ok true
  else if e =? E_ReadMapping then
    match read_mapping x with Some (m, _, errs) => Ok (has_pairs m) | None => Panic end
  else if e =? E_ReadI2PString then do p <- read_i2pstring x; Ok true
  else if e =? E_ReadCertificate then do p <- read_certificate x; Ok false
  else if e =? E_NewKeyCertificate then do p <- new_key_certificate x; Ok false
  else if e =? E_ReadKeysAndCert then do p <- read_keys_and_cert x; do _b <- kac_bytes (fst p); Ok false
  else if e =? E_ReadKACElgEd25519 then do p <- read_kac_elg_ed25519 x; do _b <- kac_bytes (fst p); Ok false
  else if e =? E_ReadKACX25519Ed25519 then do p <- read_kac_x25519_ed25519 x; do _b <- kac_bytes (fst p); Ok false
  else if e =? E_ReadDestination then do p <- read_destination x; do _b <- kac_bytes (fst p); Ok false
  else if e =? E_ReadRouterIdentity then do p <- read_router_identity x; do _b <- kac_bytes (fst p); Ok false
  else if e =? E_ReadSignature then do p <- read_signature x (wrap64 (Z.of_N (be_decode (nth 0 extra [])))); Ok false
  else if e =? E_ReadOfflineSignature then do p <- read_offline_signature x (be_decode (nth 0 extra [])); Ok false
  else if e =? E_ReadLease then do p <- read_lease x; Ok false
  else if e =? E_ReadLease2 then do p <- read_lease2 x; Ok false
  else if e =? E_ReadLeaseSet then do l <- read_lease_set x; do _b <- lease_set_bytes l; Ok false
  else if e =? E_ReadEncryptedLeaseSet then do p <- read_encrypted_lease_set x; Ok false
  else if e =? E_ReadDate then do p <- read_date x; Ok false
  else if e =? E_ReadHash then do p <- read_hash x; Ok false
  else if e =? E_ReadSessionKey then do p <- take 32 x; Ok false
  else if e =? E_ReadSessionTag then do p <- take 32 x; Ok false
  else if e =? E_ReadECIESSessionTag then do p <- take 8 x; Ok false
  else Err.
