(* Mapping.v — model of data.Mapping: ReadMapping / ReadMappingValues / Data /
   GoMapToMapping / ValuesToMapping / Get. *)
From Model Require Import Bytes Prim.
From Gen Require Import Consts.
Open Scope Z_scope.

Inductive merr := MZero | MBeyond | MExceeds | MNoData | MDup | MEq | MSemi | MMaxPairs | MValues | MProgress.
Definition merr_fatal (e : merr) : bool := match e with MBeyond => false | _ => true end.

Definition pair := (bytes * bytes)%type.       (* key, value: raw I2PStrings incl. length byte *)
Record mapping := mkMap { m_size : option bytes; m_vals : option (list pair) }.
Definition map_values (m : mapping) : list pair := match m_vals m with Some v => v | None => [] end.

Definition EQ : N := Z.to_N c_data_MAPPING_EQUALS_DELIMITER.
Definition SEMI : N := Z.to_N c_data_MAPPING_SEMICOLON_DELIMITER.
Definition MAX_PAIRS : nat := Z.to_nat c_data_MAX_MAPPING_PAIRS.

(* hasMinimumBytesForKeyValuePair, with the look-ahead for a complete short pair *)
Definition holds_complete_short_pair (r : bytes) : bool :=
  if (length r <? 4)%nat then false
  else match r with
       | [] => false
       | kl :: _ =>
           let k := N.to_nat kl in
           if (length r <=? 2 + k)%nat then false
           else match nth_error r (2 + k) with
                | Some vl => (4 + k + N.to_nat vl <=? length r)%nat
                | None => false
                end
       end.
Definition has_min_bytes (r : bytes) : bool :=
  negb ((length r <? 6)%nat && negb (holds_complete_short_pair r)).

Definition key_content (k : bytes) : bytes := match str_data k with Ok d => d | _ => [] end.
Definition begins_with (r : bytes) (c : N) : bool := match r with x :: _ => (x =? c)%N | [] => false end.

(* one pair: returns (remainder, pair, error, stop, appended) *)
Inductive pres := PStop (r : bytes) (e : merr) | PPair (r : bytes) (p : pair) (e : option merr).
Definition parse_pair (r : bytes) (seen : list bytes) : pres :=
  (* key *)
  let '(key, r1, kerr) :=
    match read_i2pstring r with
    | Ok (s, t) => (s, t, false)
    | _ => (read_i2pstring_partial r, [], true)
    end in
  let dup := existsb (bytes_eqb (key_content key)) seen in
  if negb (begins_with r1 EQ) then PStop r1 MEq
  else
    let r2 := tl r1 in
    let '(val, r3) :=
      match read_i2pstring r2 with
      | Ok (s, t) => (s, t)
      | _ => (read_i2pstring_partial r2, [])
      end in
    if negb (begins_with r3 SEMI) then PStop r3 MSemi
    else PPair (tl r3) (key, val) (if dup then Some MDup else None).

(* parseKeyValuePairs: fuel bounds the loop; each continuing iteration consumes bytes *)
Fixpoint parse_pairs (fuel : nat) (r : bytes) (vals : list pair) (errs : list merr) (seen : list bytes)
                     (count : nat) (prev : nat) : option (list pair * list merr) :=
  match fuel with
  | O => None
  | S f =>
      if (MAX_PAIRS <=? count)%nat then Some (vals, errs ++ [MMaxPairs])
      else if negb (has_min_bytes r) then Some (vals, errs)
      else if ((prev <=? length r) && (0 <? count))%nat then Some (vals, errs ++ [MProgress])
      else
        match parse_pair r seen with
        | PStop _ e => Some (vals, errs ++ [e])
        | PPair r' p e =>
            let errs' := match e with Some x => errs ++ [x] | None => errs end in
            let vals' := vals ++ [p] in
            if (length r' =? 0)%nat then Some (vals', errs')
            else parse_pairs f r' vals' errs' (key_content (fst p) :: seen) (S count) (length r)
        end
  end.

(* ReadMappingValues(data, size) *)
Definition read_mapping_values (d : bytes) (size : Z) : option (option (list pair) * list merr) :=
  if (length d <? 1)%nat then Some (None, [MNoData])
  else
    let e0 := if Z.of_nat (length d) >? size then [MBeyond]
              else if size >? Z.of_nat (length d) then [MExceeds] else [] in
    match parse_pairs (S (length d)) d [] e0 [] 0 (length d) with
    | Some (v, e) => Some (Some v, e)
    | None => None
    end.

(* ReadMapping(bytes): mapping, remainder, errors.  None = fuel exhausted (never happens,
   see Proofs) *)
Definition read_mapping (b : bytes) : option (mapping * bytes * list merr) :=
  if (Z.of_nat (length b) <? c_data_MAPPING_MIN_SIZE) then Some (mkMap None None, [], [MZero])
  else
    let sz := firstn 2 b in
    let rem := skipn 2 b in
    let size := integer_int sz in
    if size =? 0 then Some (mkMap (Some sz) (Some []), rem, [])
    else if (Z.of_nat (length rem) <? size) then
      match read_mapping_values rem size with
      | Some (v, e) => Some (mkMap (Some sz) v, [], MExceeds :: e)
      | None => None
      end
    else
      let e0 := if Z.of_nat (length rem) >? size then [MBeyond] else [] in
      match read_mapping_values (firstn (Z.to_nat size) rem) size with
      | Some (v, e) =>
          Some (mkMap (Some sz) v, skipn (Z.to_nat size) rem,
                e0 ++ e ++ (if (length e =? 0)%nat then [] else [MValues]))
      | None => None
      end.

Definition fatal_errors (e : list merr) : list merr := filter merr_fatal e.

(* Mapping.Data(): recomputed from the pairs *)
Definition str_len_ok (s : bytes) : bool := match str_length s with (_, SNone) => true | _ => false end.
Definition serialize_pair (p : pair) : bytes :=
  if str_len_ok (fst p) && str_len_ok (snd p)
  then fst p ++ [EQ] ++ snd p ++ [SEMI]
  else [].
Definition serialize_pairs (v : list pair) : bytes := flat_map serialize_pair v.
Definition mapping_data (m : mapping) : bytes :=
  match m_size m with
  | None => []
  | Some _ =>
      let payload := serialize_pairs (map_values m) in
      be_encode 2 (N.of_nat (length payload) mod 65536) ++ payload
  end.

(* byte-wise lexicographic < on strings (Go string comparison) *)
Fixpoint bytes_ltb (a b : bytes) : bool :=
  match a, b with
  | _, [] => false
  | [], _ :: _ => true
  | x :: a', y :: b' => if (x <? y)%N then true else if (y <? x)%N then false else bytes_ltb a' b'
  end.
(* sort.SliceStable by key content: modelled by stable insertion sort *)
Fixpoint insert_pair (p : pair) (l : list pair) : list pair :=
  match l with
  | [] => [p]
  | q :: t => if bytes_ltb (key_content (fst q)) (key_content (fst p)) then q :: insert_pair p t else p :: l
  end.
Definition mapping_order (l : list pair) : list pair := fold_right insert_pair [] l.

(* ValuesToMapping *)
Definition values_to_mapping (v : list pair) : res mapping :=
  if (MAX_PAIRS <? length v)%nat then Err else
  let s := mapping_order v in
  let base := fold_left (fun acc p => acc + Z.of_nat (length (fst p)) + Z.of_nat (length (snd p))) s (2 * Z.of_nat (length s)) in
  if base >? c_data_MAX_MAPPING_DATA_SIZE then Err
  else do sz <- new_integer_from_int base 2; Ok (mkMap (Some sz) (Some s)).
(* GoMapToMapping on an association list in Go's (arbitrary) iteration order *)
Fixpoint to_pairs (kv : list (bytes * bytes)) : res (list pair) :=
  match kv with
  | [] => Ok []
  | (k, v) :: t =>
      do ks <- to_i2pstring k; do vs <- to_i2pstring v; do r <- to_pairs t; Ok ((ks, vs) :: r)
  end.
Definition go_map_to_mapping (kv : list (bytes * bytes)) : res mapping :=
  do p <- to_pairs kv; values_to_mapping p.

(* MappingValues.Get(key): key is an I2PString *)
Definition values_get (v : list pair) (key : bytes) : option bytes :=
  match str_data key with
  | Ok kd =>
      match find (fun p => match str_data (fst p) with Ok d => bytes_eqb d kd | _ => false end) v with
      | Some p => Some (snd p)
      | None => None
      end
  | _ => None
  end.
(* ToGoMap as an association list: later duplicates overwrite *)
Definition mapping_validate (m : mapping) : bool :=
  match m_size m with
  | None => false
  | Some _ => forallb (fun p => is_ok (str_data (fst p)) && is_ok (str_data (snd p))) (map_values m)
  end.
