(* KAC.v — model of packages keys_and_cert, destination, router_identity. *)
From Model Require Import Bytes Prim Tables Cert.
From Gen Require Import Consts Tables.
Open Scope Z_scope.

Record kac := mkKAC { k_kc : keycert; k_pub : option bytes; k_pad : bytes; k_spk : option bytes }.

Definition KAC_DATA : Z := c_keys_and_cert_KEYS_AND_CERT_DATA_SIZE.      (* 384 *)
Definition KAC_PUB : Z := c_keys_and_cert_KEYS_AND_CERT_PUBKEY_SIZE.     (* 256 *)
Definition KAC_SPK : Z := c_keys_and_cert_KEYS_AND_CERT_SPK_SIZE.        (* 128 *)
Definition KAC_MIN : Z := c_keys_and_cert_KEYS_AND_CERT_MIN_SIZE.        (* 387 *)

(* KeyCertificate.ConstructPublicKey(data): first arm of the generated switch is ElGamal
   (full 256 bytes), second arm the X25519 family (first 32 bytes) *)
Definition construct_public_key (k : keycert) (d : bytes) : res bytes :=
  if (Z.of_nat (length d) <? c_key_certificate_KEYCERT_PUBKEY_SIZE) then Err
  else
    let t := kc_crypto_type k in
    match sw_key_certificate_KeyCertificate_ConstructPublicKey with
    | (a0, _) :: (a1, _) :: _ =>
        if memZ a0 t then slice 0 (Z.to_nat c_key_certificate_KEYCERT_CRYPTO_ELG_SIZE) d
        else if memZ a1 t then slice 0 (Z.to_nat c_key_certificate_KEYCERT_CRYPTO_X25519_SIZE) d
        else Err
    | _ => Err
    end.

(* selectSigningKeyConstructor(type, data) — the per-type constructors *)
Definition SPKF : nat := Z.to_nat c_key_certificate_KEYCERT_SPK_SIZE.   (* 128 *)
Definition construct_left_or_end (size : nat) (d : bytes) : res bytes :=
  if (length d <? size)%nat then Err
  else if (SPKF <=? length d)%nat then slice (SPKF - size) SPKF d
  else slice 0 size d.
Definition construct_signing_by_type (t : Z) (d : bytes) : res bytes :=
  if negb (signing_constructible t) then Err
  else if t =? c_key_certificate_KEYCERT_SIGN_DSA_SHA1 then construct_left_or_end (Z.to_nat c_key_certificate_KEYCERT_SIGN_DSA_SHA1_SIZE) d
  else if t =? c_key_certificate_KEYCERT_SIGN_P256 then construct_left_or_end (Z.to_nat c_key_certificate_KEYCERT_SIGN_P256_SIZE) d
  else if t =? c_key_certificate_KEYCERT_SIGN_P384 then construct_left_or_end (Z.to_nat c_key_certificate_KEYCERT_SIGN_P384_SIZE) d
  else (* Ed25519, Ed25519ph, RedDSA: exactly 32 bytes, copied *)
    if (Z.of_nat (length d) =? c_key_certificate_KEYCERT_SIGN_ED25519_SIZE) then Ok d else Err.
(* KeyCertificate.ConstructSigningPublicKey(data) *)
Definition construct_signing_public_key (k : keycert) (d : bytes) : res bytes :=
  if (Z.of_nat (length d) <? kc_signing_pubkey_size k) then Err
  else construct_signing_by_type (kc_signing_type k) d.

(* extractPaddingFromData(data, c, s) *)
Definition extract_padding (d : bytes) (c s : Z) : res bytes :=
  if (KAC_DATA - c - s <=? 0) then Ok []
  else if (KAC_PUB - c <? 0) || (KAC_SPK - s <? 0) then Ok []
  else
    do p1 <- (if KAC_PUB - c >? 0 then slice (Z.to_nat c) (Z.to_nat KAC_PUB) d else Ok []);
    do p2 <- (if KAC_SPK - s >? 0 then slice (Z.to_nat KAC_PUB) (Z.to_nat (KAC_PUB + (KAC_SPK - s))) d else Ok []);
    Ok (p1 ++ p2).

(* common tail of ReadKeysAndCert once the key certificate is known *)
Definition kac_from_keycert (kc : keycert) (d rem : bytes) : res (kac * bytes) :=
  let c := kc_crypto_size_of kc in
  if c =? 0 then Err
  else if (Z.of_nat (length d) <? KAC_PUB) then Err
  else
    do pk <- (do h <- slice_to (Z.to_nat KAC_PUB) d; construct_public_key kc h);
    let s := kc_signing_pubkey_size kc in
    do pad <- extract_padding d c s;
    if s <=? 0 then Err
    else if s >? KAC_SPK then Err
    else
      do sd <- slice (Z.to_nat (KAC_DATA - s)) (Z.to_nat KAC_DATA) d;
      do sk <- construct_signing_public_key kc sd;
      Ok (mkKAC kc (Some pk) pad (Some sk), rem).

Definition read_keys_and_cert (d : bytes) : res (kac * bytes) :=
  if (Z.of_nat (length d) <? KAC_MIN) then Err
  else
    do ct <- index (Z.to_nat KAC_DATA) d;
    do cd <- slice_from (Z.to_nat KAC_DATA) d;
    if Z.of_N ct =? c_certificate_CERT_KEY then
      do kr <- new_key_certificate cd;
      kac_from_keycert (fst kr) d (snd kr)
    else if Z.of_N ct =? c_certificate_CERT_NULL then
      do cr <- read_certificate cd;
      kac_from_keycert (mkKC (fst cr) [0%N; 0%N] [0%N; 0%N]) d (snd cr)
    else Err.

(* Validate *)
Definition kac_validate (k : kac) : bool :=
  match k_pub k, k_spk k with
  | Some p, Some s =>
      let ec := kc_crypto_size_of (k_kc k) in
      let es := kc_signing_pubkey_size (k_kc k) in
      negb ((ec >? 0) && negb (Z.of_nat (length p) =? ec)) &&
      negb ((es >? 0) && negb (Z.of_nat (length s) =? es))
  | _, _ => false
  end.

(* copy(dst[a:b], src): Go slices dst[a:b] first (panics when out of range), then copies
   min(b-a, len src) bytes *)
Definition blit (base : bytes) (a b : nat) (src : bytes) : res bytes :=
  if ((a <=? b) && (b <=? length base))%nat then
    let n := Nat.min (b - a) (length src) in
    Ok (firstn a base ++ firstn n src ++ skipn (a + n) base)
  else Panic.

(* buildKeysAndCertBlock + Bytes() *)
Definition kac_block (k : kac) : res bytes :=
  let c := kc_crypto_size_of (k_kc k) in
  let s := kc_signing_pubkey_size (k_kc k) in
  let pp := KAC_PUB - c in
  let sp := KAC_SPK - s in
  let b0 := repeatN 0%N (Z.to_nat KAC_DATA) in
  do b1 <- match k_pub k with Some p => blit b0 0 (length p) p | None => Ok b0 end;
  do b2 <- (if (pp >? 0) && (Z.of_nat (length (k_pad k)) >=? pp)
            then do src <- slice_to (Z.to_nat pp) (k_pad k); blit b1 (Z.to_nat c) (Z.to_nat KAC_PUB) src
            else Ok b1);
  do b3 <- (if (sp >? 0) && (Z.of_nat (length (k_pad k)) >=? pp + sp)
            then do src <- slice (Z.to_nat pp) (Z.to_nat (pp + sp)) (k_pad k);
                 blit b2 (Z.to_nat KAC_PUB) (Z.to_nat (KAC_PUB + sp)) src
            else Ok b2);
  match k_spk k with
  | Some sk => if (length sk <=? Z.to_nat KAC_DATA)%nat
               then blit b3 (Z.to_nat KAC_DATA - length sk) (Z.to_nat KAC_DATA) sk else Panic
  | None => Ok b3
  end.
Definition kac_bytes (k : kac) : res bytes :=
  if negb (kac_validate k) then Err
  else do blk <- kac_block k; do cb <- keycert_bytes (k_kc k); Ok (blk ++ cb).

(* NewKeysAndCert(kc, pub, padding, spk); nil keys skip their size check *)
Definition new_keys_and_cert (kc : keycert) (pub : option bytes) (pad : bytes) (spk : option bytes) : res kac :=
  let c := kc_crypto_size_of kc in
  let s := kc_signing_pubkey_size kc in
  if match pub with Some p => negb (Z.of_nat (length p) =? c) | None => false end then Err
  else if match spk with Some p => negb (Z.of_nat (length p) =? s) | None => false end then Err
  else if negb (Z.of_nat (length pad) =? KAC_DATA - c - s) then Err
  else Ok (mkKAC kc pub pad spk).

(* the key-type-specific readers: they do not look at the declared types *)
Definition read_kac_fixed (pubsize : nat) (d : bytes) : res (kac * bytes) :=
  if (length d <? 387)%nat then Err
  else
    do pk <- slice 0 pubsize d;
    do pad <- (if (pubsize =? 256)%nat then slice 256 352 d else extract_padding d (Z.of_nat pubsize) 32);
    do sk <- slice 352 384 d;
    do cd <- slice_from 384 d;
    do kr <- new_key_certificate cd;
    if negb ((kc_crypto_size_of (fst kr) =? Z.of_nat pubsize) && (kc_signing_pubkey_size (fst kr) =? 32)) then Err
    else Ok (mkKAC (fst kr) (Some pk) pad (Some sk), snd kr).
Definition read_kac_elg_ed25519 := read_kac_fixed 256.
Definition read_kac_x25519_ed25519 := read_kac_fixed 32.

(* ---- destination ---- *)
Definition dest_types_ok (k : kac) : bool :=
  negb (dest_crypto_denied (kc_crypto_type (k_kc k))) && negb (dest_signing_denied (kc_signing_type (k_kc k))).
Definition read_destination (d : bytes) : res (kac * bytes) :=
  do r <- read_keys_and_cert d;
  if dest_types_ok (fst r) then Ok r else Err.
Definition new_destination (k : kac) : res kac :=
  if negb (kac_validate k) then Err else if dest_types_ok k then Ok k else Err.

(* Hash / Base32Address / Base64 / Equals: all functions of KeysAndCert.Bytes().  The hash
   function is external: [h] is SHA-256 of the serialisation, supplied by the caller. *)
Definition strip_trailing_pad (s : bytes) : bytes :=
  rev (let fix drop l := match l with x :: t => if (x =? 61)%N then drop t else l | [] => [] end in drop (rev s)).
(* ---- router_identity ---- *)
Definition ri_types_ok (k : kac) : bool :=
  negb (ri_signing_denied (kc_signing_type (k_kc k))) && negb (ri_crypto_denied (kc_crypto_type (k_kc k))).
Definition read_router_identity (d : bytes) : res (kac * bytes) :=
  do r <- read_keys_and_cert d;
  if ri_types_ok (fst r) then Ok r else Err.
Definition new_router_identity (pub spk : option bytes) (c : cert) (pad : bytes) : res kac :=
  do kc <- keycert_from_cert c;
  do k <- new_keys_and_cert kc pub pad spk;
  if ri_types_ok k then Ok k else Err.
