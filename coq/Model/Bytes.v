(* Bytes.v — byte strings, the three-valued result type, and the primitive partial
   operations of the Go code (slice expressions), from which every model function is
   built.  `Panic` can only come from [slice_to]/[slice_from]/[index]/[deref], one per
   Go slice/index/pointer expression, so "does not panic" is a real statement. *)
From Coq Require Export List NArith ZArith Bool Arith Lia.
Export ListNotations.
Open Scope N_scope.

Definition byte := N.
Definition bytes := list N.

Inductive res (A : Type) : Type := Ok (a : A) | Err | Panic.
Arguments Ok {A} a. Arguments Err {A}. Arguments Panic {A}.

Definition rbind {A B} (m : res A) (f : A -> res B) : res B :=
  match m with Ok a => f a | Err => Err | Panic => Panic end.
Notation "'do' x <- m ; f" := (rbind m (fun x => f))
  (at level 200, x pattern, m at level 100, f at level 200, right associativity).

Definition is_ok {A} (r : res A) : bool := match r with Ok _ => true | _ => false end.

(* all bytes below 256: true of every Go []byte *)
Definition wf (l : bytes) : Prop := Forall (fun b => b < 256) l.
Definition wfb (l : bytes) : bool := forallb (fun b => b <? 256) l.

Definition len (l : bytes) : N := N.of_nat (length l).

(* Go: x[:n], x[n:], x[a:b], x[i] — panic outside bounds *)
Definition slice_to (n : nat) (x : bytes) : res bytes :=
  if (n <=? length x)%nat then Ok (firstn n x) else Panic.
Definition slice_from (n : nat) (x : bytes) : res bytes :=
  if (n <=? length x)%nat then Ok (skipn n x) else Panic.
Definition slice (a b : nat) (x : bytes) : res bytes :=
  if ((a <=? b) && (b <=? length x))%nat then Ok (firstn (b - a) (skipn a x)) else Panic.
Definition index (i : nat) (x : bytes) : res N :=
  match nth_error x i with Some b => Ok b | None => Panic end.
Definition deref {A} (o : option A) : res A :=
  match o with Some a => Ok a | None => Panic end.

(* the Go idiom `if len(x) < n { return err }; h, t := x[:n], x[n:]` *)
Definition take (n : nat) (x : bytes) : res (bytes * bytes) :=
  if (length x <? n)%nat then Err
  else do h <- slice_to n x; do t <- slice_from n x; Ok (h, t).

(* big-endian *)
Definition be_decode (l : bytes) : N := fold_left (fun acc b => acc * 256 + b) l 0.
Fixpoint be_encode (n : nat) (v : N) : bytes :=
  match n with
  | O => []
  | S k => be_encode k (v / 256) ++ [v mod 256]
  end.

Definition bytes_eqb (a b : bytes) : bool :=
  (length a =? length b)%nat && forallb (fun p => fst p =? snd p) (combine a b).

Fixpoint repeatN (b : N) (n : nat) : bytes :=
  match n with O => [] | S k => b :: repeatN b k end.

Definition all_zero (l : bytes) : bool := forallb (fun b => b =? 0) l.
