(* AliasReviewed.v — the exported byte-slice functions whose first result is, BY DESIGN, allowed to
   share memory with the input (Integer, I2PString and Mapping are sub-slices of what they were read
   from; RouterAddress, RouterInfo and the options / entry properties of LeaseSet2 and MetaLeaseSet
   contain such strings).  Property C08 names none of them; every other function in the regenerated
   summary (Gen/Aliases.v) must come out as "does not share memory". *)
From Coq Require Import List String Bool.
From Gen Require Import Aliases.
Import ListNotations.
Open Scope string_scope.

Definition views_by_design : list string :=
  [ "data.NewInteger"; "data.ReadInteger"; "data.ReadI2PString"; "data.NewMapping"; "data.ReadMapping"; "data.ReadMappingValues";
    "router_address.ReadRouterAddress"; "router_info.ReadRouterInfo";
    "lease_set2.ReadLeaseSet2"; "meta_leaseset.ReadMetaLeaseSet" ].

Definition is_view_by_design (f : string) : bool := existsb (String.eqb f) views_by_design.
(* a function outside the by-design list is reported as not sharing memory with its argument *)
Definition alias_ok (p : string * bool) : bool := negb (snd p) || is_view_by_design (fst p).

(* the functions that build the structures property C08 names; each must be present in the summary *)
Definition c08_functions : list string :=
  [ "certificate.ReadCertificate"; "key_certificate.NewKeyCertificate";
    "keys_and_cert.ReadKeysAndCert"; "keys_and_cert.ReadKeysAndCertElgAndEd25519"; "keys_and_cert.ReadKeysAndCertX25519AndEd25519";
    "destination.ReadDestination"; "destination.NewDestinationFromBytes"; "lease_set.ReadDestinationFromLeaseSet";
    "router_identity.ReadRouterIdentity"; "router_identity.NewRouterIdentityFromBytes";
    "signature.ReadSignature"; "signature.NewSignature"; "signature.NewSignatureFromBytes";
    "offline_signature.ReadOfflineSignature";
    "lease.ReadLease"; "lease.NewLeaseFromBytes"; "lease.ReadLease2"; "lease.NewLease2FromBytes";
    "lease_set.ReadLeaseSet"; "encrypted_leaseset.ReadEncryptedLeaseSet" ].
Fixpoint alias_lookup (l : list (string * bool)) (f : string) : option bool :=
  match l with [] => None | (g, b) :: t => if String.eqb f g then Some b else alias_lookup t f end.
