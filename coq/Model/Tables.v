(* Tables.v — lookups over the tables regenerated from the Go source (Gen/Tables.v). *)
From Model Require Import Bytes.
From Gen Require Import Consts Tables Validators.
Open Scope Z_scope.

Fixpoint assoc (l : list (Z * Z)) (k : Z) : option Z :=
  match l with
  | [] => None
  | (k', v) :: t => if k =? k' then Some v else assoc t k
  end.
Definition memZ (l : list Z) (k : Z) : bool := existsb (fun x => k =? x) l.
Fixpoint sw_lookup (arms : list (list Z * arm)) (default : arm) (k : Z) : arm :=
  match arms with
  | [] => default
  | (ks, a) :: t => if memZ ks k then a else sw_lookup t default k
  end.
Definition or0 (o : option Z) : Z := match o with Some v => v | None => 0 end.

(* key_certificate: SigningKeySizes / CryptoKeySizes are map[int]; the two *PublicKeySizes
   maps are map[uint16] and are indexed with uint16(type) *)
Definition kc_sig_size (t : Z) : option Z := assoc m_key_certificate_SigningKeySizes_SignatureSize t.
Definition kc_spk_size (t : Z) : option Z := assoc m_key_certificate_SigningKeySizes_SigningPublicKeySize t.
Definition kc_crypto_size (t : Z) : option Z := assoc m_key_certificate_CryptoKeySizes_CryptoPublicKeySize t.
Definition kc_crypto_pub_sizes (t : Z) : option Z := assoc m_key_certificate_CryptoPublicKeySizes (t mod 65536).
Definition kc_sig_pub_sizes (t : Z) : option Z := assoc m_key_certificate_SignaturePublicKeySizes (t mod 65536).

(* signature.getSignatureLength: the function regenerated from its Go body (Gen/Validators.v),
   whatever shape the source gives it; what the model needs of it is proved in Proofs/SigLen.v *)
Definition sig_length (t : Z) : option Z := g_signature_getSignatureLength t.
(* offline_signature.SigningPublicKeySize / SignatureSize (uint16 argument; 0 = unknown): the
   functions regenerated from their Go bodies, whatever shape the source gives them (a switch, a
   table lookup, a call of the signature package); what the model needs is proved in Proofs/SigLen.v *)
Definition off_spk_size (t : Z) : Z := g_offline_signature_SigningPublicKeySize t.
Definition off_sig_size (t : Z) : Z := g_offline_signature_SignatureSize t.

(* supported-constructor sets *)
Definition crypto_constructible (t : Z) : bool :=
  existsb (fun a => memZ (fst a) t) sw_key_certificate_KeyCertificate_ConstructPublicKey.
Definition signing_constructible (t : Z) : bool :=
  match sw_lookup sw_key_certificate_selectSigningKeyConstructor sw_key_certificate_selectSigningKeyConstructor_default t with
  | ACall => true | _ => false end.

(* deny lists *)
Definition dest_crypto_denied (t : Z) : bool :=
  match sw_lookup sw_destination_validateDestinationCryptoType sw_destination_validateDestinationCryptoType_default t with
  | AErr => true | _ => false end.
Definition dest_signing_denied (t : Z) : bool :=
  match sw_lookup sw_destination_validateDestinationSigningType sw_destination_validateDestinationSigningType_default t with
  | AErr => true | _ => false end.
Definition ri_signing_denied (t : Z) : bool := memZ m_router_identity_disallowedSigningKeyTypes_keys t.
Definition ri_crypto_denied (t : Z) : bool := memZ m_router_identity_disallowedCryptoKeyTypes_keys t.

(* certificate.validateCertType: the function regenerated from its Go body *)
Definition cert_type_valid (t : Z) : bool := g_certificate_validateCertType t.
Definition meta_entry_type_valid (t : Z) : bool :=
  match sw_lookup sw_meta_leaseset_validateEntryType sw_meta_leaseset_validateEntryType_default t with
  | ANil => true | _ => false end.
