(* Crypto.v — what each Verify method asks of the signature scheme.  Signature schemes are
   external: a verification is modelled as the list of QUERIES (algorithm, public key,
   message, signature) that must all succeed; [None] means the method refuses without
   asking.  The theorems of C05/C06 are statements about these queries; the signature
   scheme itself appears only as a Section variable there. *)
From Model Require Import Bytes Prim Tables Cert KAC Mapping Sig LS RI.
From Gen Require Import Consts.
Open Scope Z_scope.

Record query := mkQ { q_alg : N; q_key : bytes; q_msg : bytes; q_sig : bytes }.
(* verifier selected by the concrete key type the constructors return *)
Definition ALG_DSA : N := 0. Definition ALG_P256 : N := 1. Definition ALG_P384 : N := 2.
Definition ALG_ED25519 : N := 7. Definition ALG_ED25519PH : N := 108.
Definition alg_of_type (t : Z) : option N :=
  if t =? c_key_certificate_KEYCERT_SIGN_DSA_SHA1 then Some ALG_DSA
  else if t =? c_key_certificate_KEYCERT_SIGN_P256 then Some ALG_P256
  else if t =? c_key_certificate_KEYCERT_SIGN_P384 then Some ALG_P384
  else if (t =? c_key_certificate_KEYCERT_SIGN_ED25519) || (t =? c_key_certificate_KEYCERT_SIGN_ED25519PH)
          || (t =? c_key_certificate_KEYCERT_SIGN_REDDSA_ED25519) then Some ALG_ED25519
  else None.

Definition drop_last (n : nat) (b : bytes) : bytes := firstn (length b - n) b.

(* KeysAndCert.SigningPublicKey(): Validate, then the stored key *)
Definition kac_signing_key (k : kac) : option bytes := if kac_validate k then k_spk k else None.

(* OfflineSignature.VerifySignature(destKey) *)
Definition offline_query (o : offsig) (destkey : bytes) : option query :=
  if negb (off_validate_structure o) then None
  else
    let dt := Z.of_N (o_desttype o) in
    if (dt =? c_signature_SIGNATURE_TYPE_EDDSA_SHA512_ED25519) || (dt =? c_signature_SIGNATURE_TYPE_REDDSA_SHA512_ED25519) then
      if (length destkey =? 32)%nat then Some (mkQ ALG_ED25519 destkey (off_signed_data o) (o_sig o)) else None
    else if dt =? c_signature_SIGNATURE_TYPE_EDDSA_SHA512_ED25519PH then
      if (length destkey =? 32)%nat then Some (mkQ ALG_ED25519PH destkey (off_signed_data o) (o_sig o)) else None
    else None.

(* shared by LeaseSet2 / MetaLeaseSet / EncryptedLeaseSet: the key that verifies the
   structure is the identity's own key, or the transient key after the offline signature
   has been checked under the identity's key *)
Definition final_queries (idkey : option bytes) (idtype : Z) (flags : N) (off : option offsig)
                         (msg sg : bytes) : option (list query) :=
  match off with
  | Some o =>
      if has_offline flags then
        match idkey with
        | None => None
        | Some dk =>
            match offline_query o dk with
            | None => None
            | Some q1 =>
                match construct_signing_by_type (Z.of_N (o_sigtype o)) (o_key o), alg_of_type (Z.of_N (o_sigtype o)) with
                | Ok tk, Some a => Some [q1; mkQ a tk msg sg]
                | _, _ => None
                end
            end
        end
      else
        match idkey, alg_of_type idtype with
        | Some dk, Some a => Some [mkQ a dk msg sg]
        | _, _ => None
        end
  | None =>
      match idkey, alg_of_type idtype with
      | Some dk, Some a => Some [mkQ a dk msg sg]
      | _, _ => None
      end
  end.

Definition ls2_verify_queries (l : leaseset2) : option (list query) :=
  match lease_set2_bytes l with
  | Ok full =>
      let sg := sig_bytes (l2_sig l) in
      if (length full <? length sg)%nat then None
      else final_queries (kac_signing_key (l2_dest l)) (kc_signing_type (k_kc (l2_dest l))) (l2_flags l) (l2_offline l)
             (Z.to_N c_lease_set2_LEASESET2_DBSTORE_TYPE :: drop_last (length sg) full) sg
  | _ => None
  end.
Definition meta_verify_queries (l : metals) : option (list query) :=
  match meta_lease_set_bytes l with
  | Ok full =>
      let sg := sig_bytes (ml_sig l) in
      if (length full <? length sg)%nat then None
      else final_queries (kac_signing_key (ml_dest l)) (kc_signing_type (k_kc (ml_dest l))) (ml_flags l) (ml_offline l)
             (Z.to_N c_meta_leaseset_META_LEASESET_DBSTORE_TYPE :: drop_last (length sg) full) sg
  | _ => None
  end.
(* EncryptedLeaseSet: the identity key is the blinded key, constructed by its declared type *)
Definition els_verify_queries (l : encls) : option (list query) :=
  let msg := Z.to_N c_encrypted_leaseset_ENCRYPTED_LEASESET_DBSTORE_TYPE :: els_bytes_without_sig l in
  let sg := sig_bytes (el_sig l) in
  match el_offline l with
  | Some o =>
      if has_offline (el_flags l) then
        match offline_query o (el_key l) with
        | None => None
        | Some q1 =>
            match construct_signing_by_type (Z.of_N (o_sigtype o)) (o_key o), alg_of_type (Z.of_N (o_sigtype o)) with
            | Ok tk, Some a => Some [q1; mkQ a tk msg sg]
            | _, _ => None
            end
        end
      else
        match construct_signing_by_type (Z.of_N (el_sigtype l)) (el_key l), alg_of_type (Z.of_N (el_sigtype l)) with
        | Ok k, Some a => Some [mkQ a k msg sg]
        | _, _ => None
        end
  | None =>
      match construct_signing_by_type (Z.of_N (el_sigtype l)) (el_key l), alg_of_type (Z.of_N (el_sigtype l)) with
      | Ok k, Some a => Some [mkQ a k msg sg]
      | _, _ => None
      end
  end.
Definition ls_verify_queries (l : leaseset) : option (list query) :=
  match lease_set_bytes l with
  | Ok full =>
      let sg := sig_bytes (ls_sig l) in
      if ((length sg =? 0) || (length full <? length sg))%nat then None
      else match kac_signing_key (ls_dest l), alg_of_type (kc_signing_type (k_kc (ls_dest l))) with
           | Some dk, Some a => Some [mkQ a dk (drop_last (length sg) full) sg]
           | _, _ => None
           end
  | _ => None
  end.
(* RouterInfo.VerifySignature: only signature type 7, plain Ed25519 under the identity key *)
Definition ri_verify_queries (i : rinfo) : option (list query) :=
  match router_info_bytes i with
  | Ok full =>
      match kac_signing_key (ri_ident i) with
      | Some k =>
          if s_type (ri_sig i) =? c_signature_SIGNATURE_TYPE_EDDSA_SHA512_ED25519 then
            if (length k =? 32)%nat then Some [mkQ ALG_ED25519 k (drop_last (length (sig_bytes (ri_sig i))) full) (sig_bytes (ri_sig i))]
            else None
          else None
      | None => None
      end
  | _ => None
  end.
