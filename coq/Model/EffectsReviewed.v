(* EffectsReviewed.v — the potential shared-write sites (function#kind#ordinal, as produced by
   /verif/translator/effects) that are reachable from read-only methods on the reviewed tree,
   each inspected and found NOT to write memory shared between goroutines.  Writes through a
   parameter whose every actual argument is a fresh allocation of the caller are discharged by the
   analysis itself (parameter-conditional summaries) and no longer appear here.  This list is part
   of the trusted base; a site that is not listed makes theorem C18_read_only_methods fail. *)
From Coq Require Import List String.
Import ListNotations.
Open Scope string_scope.

(* exported methods that are mutators by design: not read-only operations *)
Definition mutator_markers : list string := ["CertificateBuilder"; ").AddAddress"; ").SetBytes"; "MappingValues).Add"].

Definition reviewed_sites : list string := [
  (* append onto c.kind, whose every constructor builds it with len = cap = 1, so append always
     reallocates (len = cap is asserted at run time by the frame check) *)
  "(*certificate.Certificate).Bytes#append#0"; "(*certificate.Certificate).Bytes#append#1";
  "(*certificate.Certificate).RawBytes#append#0"; "(*certificate.Certificate).RawBytes#append#1";
  (* append onto a buffer a module callee has just allocated and returned *)
  "(*encrypted_leaseset.EncryptedLeaseSet).Bytes#append#0";
  "(*keys_and_cert.KeysAndCert).Bytes#append#0";
  "(*lease_set2.LeaseSet2).Bytes#append#0";
  (* DecryptInnerData parses the plaintext with ReadLeaseSet2 / ReadMapping: the mapping reader and
     its helpers store into and append to the result variables of ReadMapping (named results and the
     error / pair slices it has just created), reached through pointer parameters whose actual
     arguments are results of in-module calls, which the derivation analysis cannot tell from the
     caller's own data *)
  "data.ReadMapping#store#0"; "data.ReadMapping#store#1";
  "data.appendMaxPairsError#append#0";
  "data.handleInsufficientData#store#0";
  "data.parseKeyValuePairs#append#0";
  "data.parseNextPair#append#0"; "data.parseNextPair#append#1";
  "data.processNormalMappingData#store#0"
].

Fixpoint contains (needle hay : string) : bool :=
  if String.prefix needle hay then true
  else match hay with EmptyString => false | String _ t => contains needle t end.
Definition is_mutator (m : string) : bool := existsb (fun k => contains k m) mutator_markers.
Definition site_reviewed (s : string) : bool := existsb (String.eqb s) reviewed_sites.
(* every site reachable from a method that is not a mutator is a reviewed site *)
Definition method_ok (me : string * list string) : bool :=
  is_mutator (fst me) || forallb site_reviewed (snd me).
