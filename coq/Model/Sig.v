(* Sig.v — model of packages signature, offline_signature, lease. *)
From Model Require Import Bytes Prim Tables.
From Gen Require Import Consts.
Open Scope Z_scope.

(* ---- signature ---- *)
Record sigv := mkSig { s_type : Z; s_data : bytes }.
(* ReadSignature(data, sigType) *)
Definition read_signature (d : bytes) (t : Z) : res (sigv * bytes) :=
  match sig_length t with
  | None => Err
  | Some n =>
      if Z.of_nat (length d) <? n then Err
      else do h <- slice_to (Z.to_nat n) d; do r <- slice_from (Z.to_nat n) d; Ok (mkSig t h, r)
  end.
(* NewSignatureFromBytes(data, sigType): exact length *)
Definition new_signature_from_bytes (d : bytes) (t : Z) : res sigv :=
  match sig_length t with
  | None => Err
  | Some n => if Z.of_nat (length d) =? n then Ok (mkSig t d) else Err
  end.
Definition sig_bytes (s : sigv) : bytes := s_data s.
Definition sig_validate (s : sigv) : bool :=
  match sig_length (s_type s) with
  | None => false
  | Some n => Z.of_nat (length (s_data s)) =? n
  end.

(* ---- offline_signature ---- *)
Record offsig := mkOff { o_expires : N; o_sigtype : N; o_key : bytes; o_sig : bytes; o_desttype : N }.
Definition off_zero : offsig := mkOff 0 0 [] [] 0.
Definition OFF_HDR : nat := Z.to_nat (c_offline_signature_EXPIRES_SIZE + c_offline_signature_SIGTYPE_SIZE).

(* ReadOfflineSignature(data, destSigType uint16): on every error the remainder is the
   whole input; [read_offline_signature_partial] is the struct returned with the error *)
Definition read_offline_signature (d : bytes) (dt : N) : res (offsig * bytes) :=
  if (length d <? OFF_HDR)%nat then Err
  else
    do e <- slice 0 4 d; do st <- slice 4 6 d; do rem <- slice_from OFF_HDR d;
    let sigtype := be_decode st in
    let ks := off_spk_size (Z.of_N sigtype) in
    if ks =? 0 then Err
    else if Z.of_nat (length rem) <? ks then Err
    else
      do key <- slice_to (Z.to_nat ks) rem; do rem2 <- slice_from (Z.to_nat ks) rem;
      let ss := off_sig_size (Z.of_N dt) in
      if ss =? 0 then Err
      else if Z.of_nat (length rem2) <? ss then Err
      else do sg <- slice_to (Z.to_nat ss) rem2; do rem3 <- slice_from (Z.to_nat ss) rem2;
           Ok (mkOff (be_decode e) sigtype key sg dt, rem3).
Definition off_bytes (o : offsig) : bytes :=
  be_encode 4 (o_expires o) ++ be_encode 2 (o_sigtype o) ++ o_key o ++ o_sig o.
Definition off_signed_data (o : offsig) : bytes :=
  be_encode 4 (o_expires o) ++ be_encode 2 (o_sigtype o) ++ o_key o.
Definition off_validate_structure (o : offsig) : bool :=
  negb (o_expires o =? 0)%N &&
  (let ks := off_spk_size (Z.of_N (o_sigtype o)) in negb (ks =? 0) && (Z.of_nat (length (o_key o)) =? ks)) &&
  (let ss := off_sig_size (Z.of_N (o_desttype o)) in negb (ss =? 0) && (Z.of_nat (length (o_sig o)) =? ss)).
(* NewOfflineSignature(expires, transientSigType, key, sig, destSigType) *)
Definition new_offline_signature (e st : N) (key sg : bytes) (dt : N) : res offsig :=
  let ks := off_spk_size (Z.of_N st) in
  if ks =? 0 then Err
  else if negb (Z.of_nat (length key) =? ks) then Err
  else let ss := off_sig_size (Z.of_N dt) in
       if ss =? 0 then Err
       else if negb (Z.of_nat (length sg) =? ss) then Err
       else Ok (mkOff e st key sg dt).

(* ---- lease ---- *)
Definition LEASE_SIZE : nat := Z.to_nat c_lease_LEASE_SIZE.
Definition LEASE2_SIZE : nat := Z.to_nat c_lease_LEASE2_SIZE.
Definition read_lease (d : bytes) : res (bytes * bytes) := take LEASE_SIZE d.
Definition read_lease2 (d : bytes) : res (bytes * bytes) := take LEASE2_SIZE d.
Definition lease_gateway (l : bytes) : bytes := firstn 32 l.
Definition lease_tunnel_id (l : bytes) : N := be_decode (firstn 4 (skipn 32 l)).
Definition lease_date (l : bytes) : bytes := firstn 8 (skipn 36 l).
Definition lease2_end (l : bytes) : N := be_decode (firstn 4 (skipn 36 l)).
