(* SliceLemmas.v — slices of concatenations. *)
From Coq Require Import ZifyN ZifyNat ZifyBool.
From Model Require Import Bytes.
From Proofs Require Import BytesLemmas Frame.

Lemma slice_prefix (a z : bytes) : slice 0 (length a) (a ++ z) = Ok a.
Proof.
  rewrite slice_ok by (rewrite app_length; lia). rewrite Nat.sub_0_r. change (skipn 0 (a ++ z)) with (a ++ z).
  rewrite firstn_app, firstn_all, Nat.sub_diag. cbn [firstn]. rewrite app_nil_r. reflexivity.
Qed.
Lemma slice_mid (a m z : bytes) : slice (length a) (length a + length m) (a ++ m ++ z) = Ok m.
Proof.
  rewrite slice_ok by (rewrite !app_length; lia).
  rewrite skipn_app, skipn_all, Nat.sub_diag. cbn [app skipn].
  replace (length a + length m - length a)%nat with (length m) by lia.
  rewrite firstn_app, firstn_all, Nat.sub_diag. cbn [firstn]. rewrite app_nil_r. reflexivity.
Qed.
Lemma slice_mid' (a m z : bytes) i j : i = length a -> j = (length a + length m)%nat -> slice i j (a ++ m ++ z) = Ok m.
Proof. intros -> ->. apply slice_mid. Qed.
Lemma slice_from_prefix (a z : bytes) : slice_from (length a) (a ++ z) = Ok z.
Proof.
  rewrite slice_from_ok by (rewrite app_length; lia). rewrite skipn_app, skipn_all, Nat.sub_diag. reflexivity.
Qed.
Lemma slice_from_prefix' (a z : bytes) i : i = length a -> slice_from i (a ++ z) = Ok z.
Proof. intros ->. apply slice_from_prefix. Qed.
Lemma slice_to_prefix' (a z : bytes) i : i = length a -> slice_to i (a ++ z) = Ok a.
Proof.
  intros ->. rewrite slice_to_ok by (rewrite app_length; lia).
  rewrite firstn_app, firstn_all, Nat.sub_diag. cbn [firstn]. rewrite app_nil_r. reflexivity.
Qed.
Lemma index_mid (a : bytes) (v : N) (z : bytes) i : i = length a -> index i (a ++ v :: z) = Ok v.
Proof. intros ->. unfold index. rewrite nth_error_app2 by lia. rewrite Nat.sub_diag. reflexivity. Qed.
(* adjacent slices concatenate *)
Lemma slice_values_app a b c (x : bytes) : (a <= b <= c)%nat -> (c <= length x)%nat ->
  firstn (b - a) (skipn a x) ++ firstn (c - b) (skipn b x) = firstn (c - a) (skipn a x).
Proof.
  intros H1 H2. rewrite <- (firstn_skipn (b - a) (firstn (c - a) (skipn a x))).
  rewrite firstn_firstn. replace (Nat.min (b - a) (c - a)) with (b - a)%nat by lia. f_equal.
  rewrite skipn_firstn_comm. replace (c - a - (b - a))%nat with (c - b)%nat by lia.
  rewrite skipn_skipn. replace (a + (b - a))%nat with b by lia. reflexivity.
Qed.
Lemma take_app' (a z : bytes) n : n = length a -> take n (a ++ z) = Ok (a, z).
Proof. intros ->. apply take_app. reflexivity. Qed.
Lemma firstn_exact' (a z : bytes) n : length a = n -> firstn n (a ++ z) = a.
Proof. intros <-. rewrite firstn_app, firstn_all, Nat.sub_diag. cbn. apply app_nil_r. Qed.
