(* KacRT.v — ReadKeysAndCert (and with it ReadDestination / ReadRouterIdentity): every accepted
   input re-serialises to exactly the consumed bytes (C01), appended bytes change neither
   the consumed length nor the serialised value (C03), and no input makes it panic (C04). *)
From Coq Require Import ZifyN ZifyNat ZifyBool.
From Model Require Import Bytes Prim Tables Cert KAC Sig.
From Gen Require Import Consts Tables.
From Spec Require Import SpecTables.
From Proofs Require Import BytesLemmas PrimProofs Frame SliceLemmas LeafProofs TableProofs KacProofs.
Ltac Zify.zify_post_hook ::= Z.div_mod_to_equations.
Open Scope Z_scope.
Local Arguments Z.add : simpl never.
Local Arguments Z.sub : simpl never.
Local Arguments Z.mul : simpl never.
Local Arguments Z.to_nat : simpl never.
Local Arguments Z.of_nat : simpl never.

(* ---- which type codes reach a constructor ---- *)
Lemma signing_constructible_inv t : signing_constructible t = true -> In t [0; 1; 2; 7; 8; 11].
Proof.
  intros H. destruct (in_dec Z.eq_dec t (flat_map fst sw_key_certificate_selectSigningKeyConstructor)) as [I|N].
  - cbn in I. repeat (destruct I as [<-|I]; [first [cbn; tauto | vm_compute in H; discriminate]|]). destruct I.
  - unfold signing_constructible in H. rewrite sw_lookup_notin in H by exact N. discriminate.
Qed.
Lemma construct_signing_inv kc d sk : construct_signing_public_key kc d = Ok sk ->
  In (kc_signing_type kc) [0; 1; 2; 7; 8; 11].
Proof.
  unfold construct_signing_public_key, construct_signing_by_type.
  destruct (Z.of_nat (length d) <? kc_signing_pubkey_size kc); [discriminate|].
  destruct (signing_constructible (kc_signing_type kc)) eqn:E; cbn [negb]; [|discriminate].
  intros _. apply signing_constructible_inv. exact E.
Qed.
Lemma signing_size_of_type kc : In (kc_signing_type kc) [0; 1; 2; 7; 8; 11] ->
  exists sl, kc_signing_pubkey_size kc = Z.of_nat sl /\ (0 < sl <= 128)%nat.
Proof.
  intros T. unfold kc_signing_pubkey_size. cbn [In] in T.
  destruct T as [T|[T|[T|[T|[T|[T|[]]]]]]]; rewrite <- T.
  - exists 128%nat. split; [reflexivity|lia].
  - exists 64%nat. split; [reflexivity|lia].
  - exists 96%nat. split; [reflexivity|lia].
  - exists 32%nat. split; [reflexivity|lia].
  - exists 32%nat. split; [reflexivity|lia].
  - exists 32%nat. split; [reflexivity|lia].
Qed.
Lemma construct_public_key_inv kc d pk : length d = 256%nat -> construct_public_key kc d = Ok pk ->
  exists cl, (cl = 256 \/ cl = 32)%nat /\ kc_crypto_size_of kc = Z.of_nat cl /\
             In (kc_crypto_type kc) [0; 4; 5; 6; 7] /\ pk = firstn cl d /\
             (forall d', length d' = 256%nat -> construct_public_key kc d' = slice 0 cl d').
Proof.
  intros L H.
  assert (T : In (kc_crypto_type kc) [0; 4; 5; 6; 7]).
  { revert H. unfold construct_public_key. rewrite L. change (Z.of_nat 256 <? c_key_certificate_KEYCERT_PUBKEY_SIZE) with false.
    cbv iota. unfold sw_key_certificate_KeyCertificate_ConstructPublicKey.
    destruct (memZ [0] (kc_crypto_type kc)) eqn:E0.
    - apply memZ_In in E0. cbn [In] in *. tauto.
    - destruct (memZ [4; 5; 6; 7] (kc_crypto_type kc)) eqn:E1; [|discriminate].
      apply memZ_In in E1. cbn [In] in *. tauto. }
  cbn [In] in T. destruct T as [T|T].
  - exists 256%nat. split; [auto|]. split; [unfold kc_crypto_size_of; rewrite <- T; reflexivity|].
    split; [cbn [In]; auto|]. split.
    + rewrite construct_public_key_elg in H by auto. rewrite slice_ok in H by lia. injection H as <-. reflexivity.
    + intros d' L'. apply construct_public_key_elg; auto.
  - assert (T' : In (kc_crypto_type kc) [4; 5; 6; 7]) by (cbn [In]; tauto).
    exists 32%nat. split; [auto|]. split.
    { unfold kc_crypto_size_of. destruct T as [T|[T|[T|[T|[]]]]]; rewrite <- T; reflexivity. }
    split; [cbn [In]; tauto|]. split.
    + rewrite construct_public_key_x25519 in H by auto. rewrite slice_ok in H by lia. injection H as <-. reflexivity.
    + intros d' L'. apply construct_public_key_x25519; auto.
Qed.

(* ---- padding ---- *)
Lemma extract_padding_ok d cl sl : (384 <= length d)%nat -> (0 < cl <= 256)%nat -> (0 < sl <= 128)%nat ->
  extract_padding d (Z.of_nat cl) (Z.of_nat sl) =
    Ok (firstn (256 - cl) (skipn cl d) ++ firstn (128 - sl) (skipn 256 d)).
Proof.
  intros Ld Bc Bs. unfold extract_padding. change KAC_PUB with 256. change KAC_SPK with 128. change KAC_DATA with 384.
  destruct (384 - Z.of_nat cl - Z.of_nat sl <=? 0) eqn:E0.
  - replace (256 - cl)%nat with 0%nat by lia. replace (128 - sl)%nat with 0%nat by lia. reflexivity.
  - replace ((256 - Z.of_nat cl <? 0) || (128 - Z.of_nat sl <? 0))%bool with false by lia.
    rewrite Nat2Z.id. change (Z.to_nat 256) with 256%nat. replace (Z.to_nat (256 + (128 - Z.of_nat sl))) with (384 - sl)%nat by lia.
    destruct (256 - Z.of_nat cl >? 0) eqn:E1; destruct (128 - Z.of_nat sl >? 0) eqn:E2.
    + rewrite !slice_ok by lia. cbn [rbind]. replace (384 - sl - 256)%nat with (128 - sl)%nat by lia. reflexivity.
    + rewrite slice_ok by lia. cbn [rbind]. replace (128 - sl)%nat with 0%nat by lia. reflexivity.
    + rewrite slice_ok by lia. cbn [rbind]. replace (256 - cl)%nat with 0%nat by lia.
      replace (384 - sl - 256)%nat with (128 - sl)%nat by lia. reflexivity.
    + exfalso. lia.
Qed.

(* ---- inversion of the common tail ---- *)
Definition kac_of (kc : keycert) (cl sl : nat) (d : bytes) : kac :=
  mkKAC kc (Some (firstn cl d)) (firstn (256 - cl) (skipn cl d) ++ firstn (128 - sl) (skipn 256 d))
        (Some (firstn sl (skipn (384 - sl) d))).

Lemma kac_from_keycert_inv kc d rem k r : (384 <= length d)%nat -> kac_from_keycert kc d rem = Ok (k, r) ->
  exists cl sl, (cl = 256 \/ cl = 32)%nat /\ (0 < sl <= 128)%nat /\
    kc_crypto_size_of kc = Z.of_nat cl /\ kc_signing_pubkey_size kc = Z.of_nat sl /\
    In (kc_crypto_type kc) [0; 4; 5; 6; 7] /\ In (kc_signing_type kc) [0; 1; 2; 7; 8; 11] /\
    r = rem /\ k = kac_of kc cl sl d.
Proof.
  intros Ld. unfold kac_from_keycert. change KAC_PUB with 256. change KAC_SPK with 128. change KAC_DATA with 384.
  destruct (kc_crypto_size_of kc =? 0); [discriminate|].
  replace (Z.of_nat (length d) <? 256) with false by lia.
  change (Z.to_nat 256) with 256%nat. rewrite slice_to_ok by lia. cbn [rbind].
  destruct (construct_public_key kc (firstn 256 d)) as [pk| |] eqn:CP; cbn [rbind]; try discriminate.
  apply construct_public_key_inv in CP; [|rewrite firstn_length; lia].
  destruct CP as [cl [Hcl [SZc [TC [Epk _]]]]].
  rewrite firstn_firstn in Epk. replace (Nat.min cl 256) with cl in Epk by lia.
  destruct (extract_padding d (kc_crypto_size_of kc) (kc_signing_pubkey_size kc)) as [pad| |] eqn:PAD; cbn [rbind]; try discriminate.
  destruct (kc_signing_pubkey_size kc <=? 0) eqn:S0; [discriminate|].
  destruct (kc_signing_pubkey_size kc >? 128) eqn:S1; [discriminate|].
  change (Z.to_nat 384) with 384%nat.
  rewrite slice_ok by lia. cbn [rbind].
  destruct (construct_signing_public_key kc _) as [sk| |] eqn:CS; cbn [rbind]; try discriminate.
  pose proof (construct_signing_inv _ _ _ CS) as TS.
  destruct (signing_size_of_type kc TS) as [sl [SZs Bs]].
  intros H. injection H as <- <-.
  exists cl, sl. repeat (split; [assumption || lia || reflexivity|]).
  rewrite SZs in CS. replace (Z.to_nat (384 - Z.of_nat sl)) with (384 - sl)%nat in CS by lia.
  replace (384 - (384 - sl))%nat with sl in CS by lia.
  rewrite construct_signing_exact in CS; [|exact TS|rewrite firstn_length, skipn_length, SZs; lia].
  injection CS as <-.
  rewrite SZc, SZs, extract_padding_ok in PAD by lia. injection PAD as <-.
  unfold kac_of. rewrite Epk. reflexivity.
Qed.

(* ---- the serialiser's block ---- *)
Lemma repeatN_length b n : length (repeatN b n) = n.
Proof. induction n as [|n IH]; cbn; [reflexivity|]. rewrite IH. reflexivity. Qed.
Lemma blit_ok base a b src : (a <= b <= length base)%nat -> length src = (b - a)%nat ->
  blit base a b src = Ok (firstn a base ++ src ++ skipn b base).
Proof.
  intros H L. unfold blit. replace ((a <=? b)%nat && (b <=? length base)%nat) with true by lia.
  rewrite L, Nat.min_id. rewrite <- L, firstn_all. replace (a + length src)%nat with b by lia. reflexivity.
Qed.

Lemma kac_block_ok kc cl sl pub pad spk :
  kc_crypto_size_of kc = Z.of_nat cl -> kc_signing_pubkey_size kc = Z.of_nat sl ->
  (0 < cl <= 256)%nat -> (0 < sl <= 128)%nat ->
  length pub = cl -> length spk = sl -> length pad = (384 - cl - sl)%nat ->
  kac_block (mkKAC kc (Some pub) pad (Some spk)) = Ok (pub ++ pad ++ spk).
Proof.
  intros Hc Hs Bc Bs Lp Lk Ld. unfold kac_block. cbn [k_kc k_pub k_pad k_spk].
  rewrite Hc, Hs. change KAC_PUB with 256. change KAC_SPK with 128. change KAC_DATA with 384.
  change (Z.to_nat 384) with 384%nat. change (Z.to_nat 256) with 256%nat.
  set (b0 := repeatN 0%N 384).
  assert (L0 : length b0 = 384%nat) by apply repeatN_length.
  rewrite blit_ok by lia. cbn [firstn app rbind].
  set (b1 := pub ++ skipn (length pub) b0).
  assert (L1 : length b1 = 384%nat) by (unfold b1; rewrite app_length, skipn_length; lia).
  (* padding next to the encryption key *)
  match goal with |- rbind ?e _ = _ => assert (B2 : e = Ok (pub ++ firstn (256 - cl) pad ++ skipn 256 b0)) end.
  { destruct (256 - Z.of_nat cl >? 0) eqn:E1; cbn [andb].
    - replace (Z.of_nat (length pad) >=? 256 - Z.of_nat cl) with true by lia.
      replace (Z.to_nat (256 - Z.of_nat cl)) with (256 - cl)%nat by lia. rewrite Nat2Z.id.
      rewrite slice_to_ok by lia. cbn [rbind].
      rewrite blit_ok by (rewrite ?firstn_length; lia). f_equal.
      unfold b1. rewrite <- Lp at 1. rewrite firstn_exact' by reflexivity. f_equal. f_equal.
      rewrite skipn_app, skipn_all2 by lia. cbn [app]. rewrite skipn_skipn. f_equal. lia.
    - replace (256 - cl)%nat with 0%nat by lia. cbn [firstn app]. unfold b1. f_equal. f_equal. f_equal. lia. }
  rewrite B2. cbn [rbind].
  set (b2 := pub ++ firstn (256 - cl) pad ++ skipn 256 b0).
  assert (L2 : length b2 = 384%nat) by (unfold b2; rewrite !app_length, firstn_length, skipn_length; lia).
  match goal with |- rbind ?e _ = _ => assert (B3 : e = Ok (pub ++ pad ++ skipn (384 - sl) b0)) end.
  { destruct (128 - Z.of_nat sl >? 0) eqn:E1; cbn [andb].
    - replace (Z.of_nat (length pad) >=? 256 - Z.of_nat cl + (128 - Z.of_nat sl)) with true by lia.
      replace (Z.to_nat (256 - Z.of_nat cl)) with (256 - cl)%nat by lia.
      replace (Z.to_nat (256 - Z.of_nat cl + (128 - Z.of_nat sl))) with (length pad) by lia.
      replace (Z.to_nat (256 + (128 - Z.of_nat sl))) with (384 - sl)%nat by lia.
      rewrite slice_ok by lia. cbn [rbind].
      rewrite (firstn_all2 (skipn (256 - cl) pad)) by (rewrite skipn_length; lia).
      rewrite blit_ok by (rewrite ?skipn_length; lia). f_equal.
      unfold b2.
      assert (F : firstn 256 (pub ++ firstn (256 - cl) pad ++ skipn 256 b0) = pub ++ firstn (256 - cl) pad).
      { rewrite app_assoc. apply firstn_exact'. rewrite app_length, firstn_length. lia. }
      assert (S : skipn (384 - sl) (pub ++ firstn (256 - cl) pad ++ skipn 256 b0) = skipn (384 - sl) b0).
      { rewrite !skipn_app. rewrite (skipn_all2 pub) by lia. rewrite (skipn_all2 (firstn _ pad)) by (rewrite firstn_length; lia).
        cbn [app]. rewrite firstn_length, skipn_skipn. f_equal. lia. }
      rewrite F, S, <- !app_assoc. f_equal. rewrite app_assoc, firstn_skipn. reflexivity.
    - unfold b2. rewrite (firstn_all2 pad) by lia. f_equal. f_equal. f_equal. f_equal. lia. }
  rewrite B3. cbn [rbind].
  replace (length spk <=? 384)%nat with true by lia.
  rewrite blit_ok by (rewrite ?app_length, ?skipn_length; lia). f_equal.
  assert (F : firstn (384 - length spk) (pub ++ pad ++ skipn (384 - sl) b0) = pub ++ pad).
  { rewrite app_assoc. apply firstn_exact'. rewrite app_length. lia. }
  rewrite F, <- app_assoc. f_equal. f_equal.
  rewrite skipn_all2 by (rewrite !app_length, skipn_length; lia). apply app_nil_r.
Qed.

Lemma kac_validate_ok kc cl sl pub pad spk :
  kc_crypto_size_of kc = Z.of_nat cl -> kc_signing_pubkey_size kc = Z.of_nat sl ->
  length pub = cl -> length spk = sl -> kac_validate (mkKAC kc (Some pub) pad (Some spk)) = true.
Proof.
  intros Hc Hs Lp Lk. unfold kac_validate. cbn [k_kc k_pub k_spk]. rewrite Hc, Hs, Lp, Lk.
  rewrite !Z.eqb_refl. cbn [negb]. rewrite !Bool.andb_false_r. reflexivity.
Qed.

(* the 384-byte block is the concatenation of its three views *)
Lemma block_decompose (x : bytes) cl sl : (384 <= length x)%nat -> (0 < cl <= 256)%nat -> (0 < sl <= 128)%nat ->
  firstn cl x ++ (firstn (256 - cl) (skipn cl x) ++ firstn (128 - sl) (skipn 256 x)) ++ firstn sl (skipn (384 - sl) x)
  = firstn 384 x.
Proof.
  intros L Bc Bs.
  replace (128 - sl)%nat with (384 - sl - 256)%nat by lia.
  rewrite slice_values_app by lia.
  rewrite app_assoc. rewrite firstn_skipn_slices by lia.
  replace sl with (384 - (384 - sl))%nat at 2 by lia. apply firstn_skipn_slices. lia.
Qed.

Lemma kac_of_lengths cl sl (x : bytes) : (384 <= length x)%nat -> (0 < cl <= 256)%nat -> (0 < sl <= 128)%nat ->
  length (firstn cl x) = cl /\ length (firstn sl (skipn (384 - sl) x)) = sl /\
  length (firstn (256 - cl) (skipn cl x) ++ firstn (128 - sl) (skipn 256 x)) = (384 - cl - sl)%nat.
Proof.
  intros L Bc Bs. rewrite app_length, !firstn_length, !skipn_length. lia.
Qed.

Lemma kac_of_bytes kc cl sl x cb : (384 <= length x)%nat -> (0 < cl <= 256)%nat -> (0 < sl <= 128)%nat ->
  kc_crypto_size_of kc = Z.of_nat cl -> kc_signing_pubkey_size kc = Z.of_nat sl ->
  keycert_bytes kc = Ok cb -> kac_bytes (kac_of kc cl sl x) = Ok (firstn 384 x ++ cb).
Proof.
  intros L Bc Bs Hc Hs KB. destruct (kac_of_lengths cl sl x L Bc Bs) as [L1 [L2 L3]].
  unfold kac_bytes, kac_of. rewrite (kac_validate_ok kc cl sl) by assumption. cbn [negb].
  rewrite (kac_block_ok kc cl sl) by assumption. cbn [rbind k_kc]. rewrite KB. cbn [rbind].
  rewrite <- (block_decompose x cl sl L Bc Bs). rewrite <- !app_assoc. reflexivity.
Qed.

(* ---- key certificate: round trip and append ---- *)
Lemma new_key_certificate_RoundTrip x k r : wf x -> new_key_certificate x = Ok (k, r) ->
  exists b, keycert_bytes k = Ok b /\ b ++ r = x.
Proof.
  intros W. unfold new_key_certificate.
  destruct (read_certificate x) as [[c r0]| |] eqn:RC; cbn [rbind fst snd]; try discriminate.
  destruct (keycert_from_cert c) as [k0| |] eqn:KC; cbn [rbind]; try discriminate.
  intros H; injection H as <- <-.
  assert (E : kc_cert k0 = c).
  { revert KC. unfold keycert_from_cert. destruct (cert_type c) as [t| |]; cbn [rbind]; try discriminate.
    destruct (negb (t =? c_certificate_CERT_KEY)); [discriminate|].
    destruct (cert_data c) as [dd| |]; cbn [rbind]; try discriminate.
    destruct (length dd <? 4)%nat; [discriminate|].
    destruct (slice 0 2 dd); cbn [rbind]; try discriminate. destruct (slice 2 4 dd); cbn [rbind]; try discriminate.
    intros H; injection H as <-. reflexivity. }
  unfold keycert_bytes. rewrite E. apply read_certificate_RoundTrip; assumption.
Qed.

Lemma cert_data_app kd ln p y : cert_len_int (mkCert kd ln p) <= Z.of_nat (length p) ->
  cert_data (mkCert kd ln (p ++ y)) = cert_data (mkCert kd ln p).
Proof.
  intros B. unfold cert_data, cert_length_field, cert_is_valid, cert_len_int in *. cbn [c_kind c_len c_payload] in *.
  destruct (negb (length kd =? 0)%nat && negb (length ln =? 0)%nat); [|reflexivity].
  destruct ((integer_int ln <? c_certificate_CERT_EMPTY_PAYLOAD_SIZE) || (integer_int ln >? c_certificate_CERT_MAX_PAYLOAD_SIZE))%bool eqn:E; [reflexivity|].
  cbn [rbind]. rewrite app_length.
  replace (integer_int ln >? Z.of_nat (length p + length y)) with false by lia.
  replace (integer_int ln >? Z.of_nat (length p)) with false by lia.
  apply slice_app. lia.
Qed.

Lemma new_key_certificate_AppendInv x k r y : wf (x ++ y) -> new_key_certificate x = Ok (k, r) ->
  exists k', new_key_certificate (x ++ y) = Ok (k', r ++ y) /\ keycert_bytes k' = keycert_bytes k /\
             kc_spk k' = kc_spk k /\ kc_cpk k' = kc_cpk k.
Proof.
  intros W. assert (Wx : wf x) by (apply wf_app in W; tauto).
  unfold new_key_certificate.
  destruct (read_certificate x) as [[c r0]| |] eqn:RC; cbn [rbind fst snd]; try discriminate.
  destruct (keycert_from_cert c) as [k0| |] eqn:KC; cbn [rbind]; try discriminate.
  intros H; injection H as <- <-.
  destruct (read_certificate_AppendInv x c r0 y Wx RC) as [c' [RC' [CB [CK CL]]]].
  rewrite RC'. cbn [rbind fst snd].
  destruct (read_certificate_shape _ _ _ Wx RC) as [L [Ec [B Er]]].
  destruct (read_certificate_shape _ _ _ W RC') as [L' [Ec' [B' Er']]].
  assert (CD : cert_data c' = cert_data c).
  { rewrite Ec', Ec. rewrite (firstn_app 1), (skipn_app 1), (firstn_app 2), (skipn_app 3).
    replace (1 - length x)%nat with 0%nat by lia. replace (3 - length x)%nat with 0%nat by lia.
    rewrite skipn_length. replace (2 - (length x - 1))%nat with 0%nat by lia.
    change (firstn 0 y) with (@nil N). change (firstn 0 (skipn 0 y)) with (@nil N). change (skipn 0 y) with y. rewrite !app_nil_r.
    apply cert_data_app. rewrite Ec in B. cbn [c_payload]. rewrite skipn_length.
    unfold cert_len_int in *. cbn [c_len] in *. lia. }
  assert (CT : cert_type c' = cert_type c).
  { unfold cert_type, cert_is_valid, cert_kind_int. rewrite CK, CL. reflexivity. }
  revert KC. unfold keycert_from_cert. rewrite CT, CD.
  destruct (cert_type c) as [t| |]; cbn [rbind]; try discriminate.
  destruct (negb (t =? c_certificate_CERT_KEY)); [discriminate|].
  destruct (cert_data c) as [dd| |]; cbn [rbind]; try discriminate.
  destruct (length dd <? 4)%nat; [discriminate|].
  destruct (slice 0 2 dd) as [s1| |]; cbn [rbind]; try discriminate.
  destruct (slice 2 4 dd) as [s2| |]; cbn [rbind]; try discriminate.
  intros H; injection H as <-. eexists. split; [reflexivity|].
  unfold keycert_bytes. cbn [kc_cert kc_spk kc_cpk]. auto.
Qed.

Lemma new_key_certificate_NoPanic x : new_key_certificate x <> Panic.
Proof.
  unfold new_key_certificate. pose proof (read_certificate_NoPanic x) as NP.
  destruct (read_certificate x) as [[c r0]| |]; cbn [rbind fst snd]; try discriminate; [|congruence].
  unfold keycert_from_cert. destruct (cert_type c) as [t| |] eqn:CT; cbn [rbind]; try discriminate.
  { destruct (negb (t =? c_certificate_CERT_KEY)); [discriminate|].
    assert (CDN : cert_data c <> Panic).
    { unfold cert_data. destruct (cert_length_field c) as [l| |] eqn:LF; cbn [rbind]; try discriminate.
      - destruct (l >? Z.of_nat (length (c_payload c))) eqn:G; [discriminate|]. rewrite slice_ok by lia. discriminate.
      - revert LF. unfold cert_length_field. destruct (cert_is_valid c); [|discriminate].
        destruct ((_ <? _) || (_ >? _))%bool; discriminate. }
    destruct (cert_data c) as [dd| |]; cbn [rbind]; try discriminate; [|congruence].
    destruct (length dd <? 4)%nat eqn:E4; [discriminate|]. apply Nat.ltb_ge in E4.
    rewrite !slice_ok by lia. cbn [rbind]. discriminate. }
  revert CT. unfold cert_type. destruct (cert_is_valid c); [|discriminate].
  destruct ((_ <? _) || (_ >? _))%bool; discriminate.
Qed.

(* ---- ReadKeysAndCert ---- *)
Lemma construct_public_key_of_type kc cl : In (kc_crypto_type kc) [0; 4; 5; 6; 7] -> kc_crypto_size_of kc = Z.of_nat cl ->
  forall d', length d' = 256%nat -> construct_public_key kc d' = slice 0 cl d'.
Proof.
  intros T SZ d' L'. cbn [In] in T. destruct T as [T|T].
  - rewrite construct_public_key_elg by auto. unfold kc_crypto_size_of in SZ. rewrite <- T in SZ.
    change (or0 (kc_crypto_size 0)) with 256 in SZ. replace cl with 256%nat by lia. reflexivity.
  - rewrite construct_public_key_x25519 by (cbn [In]; tauto).
    assert (E : kc_crypto_size_of kc = 32).
    { unfold kc_crypto_size_of. destruct T as [T|[T|[T|[T|[]]]]]; rewrite <- T; reflexivity. }
    replace cl with 32%nat by lia. reflexivity.
Qed.

(* acceptance in terms of the input's own three views *)
Lemma kac_accept kc cl sl (x tailb rem : bytes) :
  (384 <= length x)%nat -> (cl = 256 \/ cl = 32)%nat -> (0 < sl <= 128)%nat ->
  kc_crypto_size_of kc = Z.of_nat cl -> kc_signing_pubkey_size kc = Z.of_nat sl ->
  In (kc_crypto_type kc) [0; 4; 5; 6; 7] -> In (kc_signing_type kc) [0; 1; 2; 7; 8; 11] ->
  kac_from_keycert kc (firstn 384 x ++ tailb) rem = Ok (kac_of kc cl sl x, rem).
Proof.
  intros L Hcl Bs SZc SZs TC TS.
  assert (Bc : (0 < cl <= 256)%nat) by lia.
  destruct (kac_of_lengths cl sl x L Bc Bs) as [L1 [L2 L3]].
  rewrite <- (block_decompose x cl sl L Bc Bs). rewrite <- !app_assoc.
  unfold kac_of. rewrite (app_assoc (firstn (256 - cl) (skipn cl x))).
  apply (kac_layout kc cl sl); try assumption.
  - apply construct_public_key_of_type; assumption.
  - intros d Ld. apply construct_signing_exact; [exact TS|]. rewrite SZs. lia.
Qed.

Lemma kac_tail_RoundTrip x kc rem k r cb : (384 <= length x)%nat ->
  kac_from_keycert kc x rem = Ok (k, r) -> keycert_bytes kc = Ok cb -> cb ++ rem = skipn 384 x ->
  exists b, kac_bytes k = Ok b /\ b ++ r = x.
Proof.
  intros L H KB E. destruct (kac_from_keycert_inv _ _ _ _ _ L H) as [cl [sl [Hcl [Bs [SZc [SZs [TC [TS [-> ->]]]]]]]]].
  rewrite (kac_of_bytes kc cl sl x cb) by (assumption || lia). eexists. split; [reflexivity|].
  rewrite <- app_assoc, E. apply firstn_skipn.
Qed.

Theorem read_keys_and_cert_RoundTrip x k r : wf x -> read_keys_and_cert x = Ok (k, r) ->
  exists b, kac_bytes k = Ok b /\ b ++ r = x.
Proof.
  intros W. unfold read_keys_and_cert. change KAC_MIN with 387. change (Z.to_nat KAC_DATA) with 384%nat.
  destruct (Z.of_nat (length x) <? 387) eqn:E; [discriminate|].
  assert (L : (387 <= length x)%nat) by lia.
  destruct (index 384 x) as [ct| |]; cbn [rbind]; try discriminate.
  rewrite slice_from_ok by lia. cbn [rbind].
  assert (Ws : wf (skipn 384 x)) by (apply wf_skipn, W).
  destruct (Z.of_N ct =? c_certificate_CERT_KEY).
  - destruct (new_key_certificate (skipn 384 x)) as [[kc rem]| |] eqn:NK; cbn [rbind fst snd]; try discriminate.
    destruct (new_key_certificate_RoundTrip _ _ _ Ws NK) as [cb [KB Ecb]].
    intros H. apply (kac_tail_RoundTrip x kc rem k r cb); auto. lia.
  - destruct (Z.of_N ct =? c_certificate_CERT_NULL); [|discriminate].
    destruct (read_certificate (skipn 384 x)) as [[c rem]| |] eqn:RC; cbn [rbind fst snd]; try discriminate.
    destruct (read_certificate_RoundTrip _ _ _ Ws RC) as [cb [KB Ecb]].
    intros H. apply (kac_tail_RoundTrip x _ rem k r cb ltac:(lia) H); auto.
Qed.

(* appended bytes: same consumed length, same keys and padding, same serialisation *)
Definition kac_same (k' k : kac) : Prop :=
  kac_bytes k' = kac_bytes k /\ k_pub k' = k_pub k /\ k_pad k' = k_pad k /\ k_spk k' = k_spk k /\
  kc_spk (k_kc k') = kc_spk (k_kc k) /\ kc_cpk (k_kc k') = kc_cpk (k_kc k).

Lemma kac_tail_AppendInv x y kc kc' rem k r cb : (384 <= length x)%nat ->
  kac_from_keycert kc x rem = Ok (k, r) ->
  keycert_bytes kc = Ok cb -> keycert_bytes kc' = Ok cb -> kc_spk kc' = kc_spk kc -> kc_cpk kc' = kc_cpk kc ->
  exists k', kac_from_keycert kc' (x ++ y) (rem ++ y) = Ok (k', r ++ y) /\ kac_same k' k.
Proof.
  intros L H KB KB' E1 E2.
  destruct (kac_from_keycert_inv _ _ _ _ _ L H) as [cl [sl [Hcl [Bs [SZc [SZs [TC [TS [-> ->]]]]]]]]].
  assert (T1 : kc_crypto_type kc' = kc_crypto_type kc) by (unfold kc_crypto_type; rewrite E2; reflexivity).
  assert (T2 : kc_signing_type kc' = kc_signing_type kc) by (unfold kc_signing_type; rewrite E1; reflexivity).
  assert (SZc' : kc_crypto_size_of kc' = Z.of_nat cl) by (unfold kc_crypto_size_of in *; rewrite T1; exact SZc).
  assert (SZs' : kc_signing_pubkey_size kc' = Z.of_nat sl) by (unfold kc_signing_pubkey_size in *; rewrite T2; exact SZs).
  exists (kac_of kc' cl sl x). split.
  - rewrite <- (firstn_skipn 384 x) at 1. rewrite <- app_assoc.
    apply kac_accept; try assumption; try lia; [rewrite T1|rewrite T2]; assumption.
  - unfold kac_same. rewrite (kac_of_bytes kc' cl sl x cb), (kac_of_bytes kc cl sl x cb) by (assumption || lia).
    unfold kac_of. cbn [k_pub k_pad k_spk k_kc]. auto 10.
Qed.

Theorem read_keys_and_cert_AppendInv x k r y : wf (x ++ y) -> read_keys_and_cert x = Ok (k, r) ->
  exists k', read_keys_and_cert (x ++ y) = Ok (k', r ++ y) /\ kac_same k' k.
Proof.
  intros W. assert (Wx : wf x) by (apply wf_app in W; tauto).
  unfold read_keys_and_cert. change KAC_MIN with 387. change (Z.to_nat KAC_DATA) with 384%nat.
  destruct (Z.of_nat (length x) <? 387) eqn:E; [discriminate|].
  assert (L : (387 <= length x)%nat) by lia.
  rewrite app_length. replace (Z.of_nat (length x + length y) <? 387) with false by lia.
  rewrite index_app by lia.
  destruct (index 384 x) as [ct| |]; cbn [rbind]; try discriminate.
  destruct (slice_from_app 384 x y ltac:(lia)) as [S1 S2]. rewrite S1, S2. cbn [rbind].
  assert (Ws : wf (skipn 384 x ++ y)).
  { apply wf_app. split; [apply wf_skipn, Wx|apply wf_app in W; tauto]. }
  assert (Ws0 : wf (skipn 384 x)) by (apply wf_skipn, Wx).
  destruct (Z.of_N ct =? c_certificate_CERT_KEY).
  - destruct (new_key_certificate (skipn 384 x)) as [[kc rem]| |] eqn:NK; cbn [rbind fst snd]; try discriminate.
    destruct (new_key_certificate_RoundTrip _ _ _ Ws0 NK) as [cb [KB Ecb]].
    destruct (new_key_certificate_AppendInv _ _ _ y Ws NK) as [kc' [NK' [KB' [E1 E2]]]].
    rewrite NK'. cbn [rbind fst snd]. intros H.
    apply (kac_tail_AppendInv x y kc kc' rem k r cb); auto; try lia. rewrite KB'. exact KB.
  - destruct (Z.of_N ct =? c_certificate_CERT_NULL); [|discriminate].
    destruct (read_certificate (skipn 384 x)) as [[c rem]| |] eqn:RC; cbn [rbind fst snd]; try discriminate.
    destruct (read_certificate_RoundTrip _ _ _ Ws0 RC) as [cb [KB Ecb]].
    destruct (read_certificate_AppendInv _ _ _ y Ws0 RC) as [c' [RC' [CB' _]]].
    rewrite RC'. cbn [rbind fst snd]. intros H.
    apply (kac_tail_AppendInv x y _ _ rem k r cb ltac:(lia) H); auto.
    unfold keycert_bytes. cbn [kc_cert]. rewrite CB'. exact KB.
Qed.

(* ---- no panic ---- *)
Lemma assoc_nonneg l k : forallb (fun p => 0 <=? snd p) l = true -> 0 <= or0 (assoc l k).
Proof.
  induction l as [|[k' v] l IH]; cbn [assoc forallb snd or0]; intros H; [lia|].
  apply Bool.andb_true_iff in H. destruct H as [H1 H2]. destruct (k =? k'); [cbn [or0]; lia|auto].
Qed.
Lemma signing_pubkey_size_nonneg kc : 0 <= kc_signing_pubkey_size kc.
Proof. unfold kc_signing_pubkey_size, kc_spk_size. apply assoc_nonneg. reflexivity. Qed.

Lemma construct_left_or_end_nopanic size d : (size <= 128)%nat -> construct_left_or_end size d <> Panic.
Proof.
  intros B. unfold construct_left_or_end. change SPKF with 128%nat.
  destruct (length d <? size)%nat eqn:E1; [discriminate|]. apply Nat.ltb_ge in E1.
  destruct (128 <=? length d)%nat eqn:E2.
  - apply Nat.leb_le in E2. rewrite slice_ok by lia. discriminate.
  - rewrite slice_ok by lia. discriminate.
Qed.
Lemma construct_signing_nopanic kc d : construct_signing_public_key kc d <> Panic.
Proof.
  unfold construct_signing_public_key, construct_signing_by_type.
  destruct (_ <? _); [discriminate|]. destruct (negb _); [discriminate|].
  repeat match goal with |- (if ?c then _ else _) <> _ => destruct c end;
    try discriminate; apply construct_left_or_end_nopanic; apply Nat.leb_le; reflexivity.
Qed.
Lemma construct_public_key_nopanic kc d : length d = 256%nat -> construct_public_key kc d <> Panic.
Proof.
  intros L. unfold construct_public_key. destruct (_ <? _); [discriminate|].
  unfold sw_key_certificate_KeyCertificate_ConstructPublicKey.
  destruct (memZ [0] _); [rewrite slice_ok by (rewrite L; split; apply Nat.leb_le; reflexivity); discriminate|].
  destruct (memZ [4; 5; 6; 7] _); [|discriminate].
  rewrite slice_ok by (rewrite L; split; apply Nat.leb_le; reflexivity). discriminate.
Qed.
Lemma extract_padding_nopanic d c s : (384 <= length d)%nat -> 0 < c -> 0 <= s -> extract_padding d c s <> Panic.
Proof.
  intros L Bc Bs. unfold extract_padding. change KAC_PUB with 256. change KAC_SPK with 128. change KAC_DATA with 384.
  destruct (384 - c - s <=? 0); [discriminate|].
  destruct ((256 - c <? 0) || (128 - s <? 0))%bool eqn:G; [discriminate|].
  destruct (256 - c >? 0) eqn:E1; destruct (128 - s >? 0) eqn:E2;
    rewrite ?slice_ok by lia; cbn [rbind]; discriminate.
Qed.

Lemma kac_from_keycert_NoPanic kc d rem : (384 <= length d)%nat -> kac_from_keycert kc d rem <> Panic.
Proof.
  intros L. unfold kac_from_keycert. change KAC_PUB with 256. change KAC_SPK with 128. change KAC_DATA with 384.
  destruct (kc_crypto_size_of kc =? 0) eqn:C0; [discriminate|].
  destruct (Z.of_nat (length d) <? 256); [discriminate|].
  change (Z.to_nat 256) with 256%nat. rewrite slice_to_ok by lia. cbn [rbind].
  pose proof (construct_public_key_nopanic kc (firstn 256 d) ltac:(rewrite firstn_length; lia)) as NP1.
  destruct (construct_public_key kc (firstn 256 d)) as [pk| |] eqn:CP; cbn [rbind]; try discriminate; [|congruence].
  apply construct_public_key_inv in CP; [|rewrite firstn_length; lia].
  destruct CP as [cl [Hcl [SZc _]]].
  pose proof (signing_pubkey_size_nonneg kc) as S0.
  pose proof (extract_padding_nopanic d (kc_crypto_size_of kc) (kc_signing_pubkey_size kc) L ltac:(lia) S0) as NP2.
  destruct (extract_padding d _ _) as [pad| |]; cbn [rbind]; try discriminate; [|congruence].
  destruct (kc_signing_pubkey_size kc <=? 0) eqn:G1; [discriminate|].
  destruct (kc_signing_pubkey_size kc >? 128) eqn:G2; [discriminate|].
  change (Z.to_nat 384) with 384%nat. rewrite slice_ok by lia. cbn [rbind].
  pose proof (construct_signing_nopanic kc (firstn (384 - Z.to_nat (384 - kc_signing_pubkey_size kc)) (skipn (Z.to_nat (384 - kc_signing_pubkey_size kc)) d))) as NP3.
  destruct (construct_signing_public_key kc _) as [sk| |]; cbn [rbind]; try discriminate. congruence.
Qed.

Theorem read_keys_and_cert_NoPanic : NoPanic read_keys_and_cert.
Proof.
  intros x. unfold read_keys_and_cert. change KAC_MIN with 387. change (Z.to_nat KAC_DATA) with 384%nat.
  destruct (Z.of_nat (length x) <? 387) eqn:E; [discriminate|].
  assert (L : (387 <= length x)%nat) by lia.
  destruct (index_ok 384 x ltac:(lia)) as [ct [IX _]]. rewrite IX. cbn [rbind].
  rewrite slice_from_ok by lia. cbn [rbind].
  destruct (Z.of_N ct =? c_certificate_CERT_KEY).
  - pose proof (new_key_certificate_NoPanic (skipn 384 x)) as NP.
    destruct (new_key_certificate (skipn 384 x)) as [[kc rem]| |]; cbn [rbind fst snd]; try discriminate; [|congruence].
    apply kac_from_keycert_NoPanic. lia.
  - destruct (Z.of_N ct =? c_certificate_CERT_NULL); [|discriminate].
    pose proof (read_certificate_NoPanic (skipn 384 x)) as NP.
    destruct (read_certificate (skipn 384 x)) as [[c rem]| |]; cbn [rbind fst snd]; try discriminate; [|congruence].
    apply kac_from_keycert_NoPanic. lia.
Qed.

(* ---- Destination / RouterIdentity are ReadKeysAndCert plus a type filter ---- *)
Theorem read_destination_RoundTrip x k r : wf x -> read_destination x = Ok (k, r) ->
  exists b, kac_bytes k = Ok b /\ b ++ r = x.
Proof.
  intros W. unfold read_destination. destruct (read_keys_and_cert x) as [[k0 r0]| |] eqn:R; cbn [rbind fst]; try discriminate.
  destruct (dest_types_ok k0); [|discriminate]. intros H; injection H as <- <-. apply read_keys_and_cert_RoundTrip; assumption.
Qed.
Theorem read_router_identity_RoundTrip x k r : wf x -> read_router_identity x = Ok (k, r) ->
  exists b, kac_bytes k = Ok b /\ b ++ r = x.
Proof.
  intros W. unfold read_router_identity. destruct (read_keys_and_cert x) as [[k0 r0]| |] eqn:R; cbn [rbind fst]; try discriminate.
  destruct (ri_types_ok k0); [|discriminate]. intros H; injection H as <- <-. apply read_keys_and_cert_RoundTrip; assumption.
Qed.
Lemma kac_same_dest k' k : kac_same k' k -> dest_types_ok k' = dest_types_ok k /\ ri_types_ok k' = ri_types_ok k.
Proof.
  intros [_ [_ [_ [_ [E1 E2]]]]]. unfold dest_types_ok, ri_types_ok, kc_crypto_type, kc_signing_type. rewrite E1, E2. auto.
Qed.
Theorem read_destination_AppendInv x k r y : wf (x ++ y) -> read_destination x = Ok (k, r) ->
  exists k', read_destination (x ++ y) = Ok (k', r ++ y) /\ kac_same k' k.
Proof.
  intros W. unfold read_destination. destruct (read_keys_and_cert x) as [[k0 r0]| |] eqn:R; cbn [rbind fst]; try discriminate.
  destruct (dest_types_ok k0) eqn:T; [|discriminate]. intros H; injection H as <- <-.
  destruct (read_keys_and_cert_AppendInv _ _ _ y W R) as [k' [R' S]]. rewrite R'. cbn [rbind fst].
  destruct (kac_same_dest _ _ S) as [E _]. rewrite E, T. eauto.
Qed.
Theorem read_router_identity_AppendInv x k r y : wf (x ++ y) -> read_router_identity x = Ok (k, r) ->
  exists k', read_router_identity (x ++ y) = Ok (k', r ++ y) /\ kac_same k' k.
Proof.
  intros W. unfold read_router_identity. destruct (read_keys_and_cert x) as [[k0 r0]| |] eqn:R; cbn [rbind fst]; try discriminate.
  destruct (ri_types_ok k0) eqn:T; [|discriminate]. intros H; injection H as <- <-.
  destruct (read_keys_and_cert_AppendInv _ _ _ y W R) as [k' [R' S]]. rewrite R'. cbn [rbind fst].
  destruct (kac_same_dest _ _ S) as [_ E]. rewrite E, T. eauto.
Qed.
Theorem read_destination_NoPanic : NoPanic read_destination.
Proof.
  intros x. unfold read_destination. pose proof (read_keys_and_cert_NoPanic x) as NP.
  destruct (read_keys_and_cert x) as [[k0 r0]| |]; cbn [rbind fst]; try discriminate; [|congruence].
  destruct (dest_types_ok k0); discriminate.
Qed.
Theorem read_router_identity_NoPanic : NoPanic read_router_identity.
Proof.
  intros x. unfold read_router_identity. pose proof (read_keys_and_cert_NoPanic x) as NP.
  destruct (read_keys_and_cert x) as [[k0 r0]| |]; cbn [rbind fst]; try discriminate; [|congruence].
  destruct (ri_types_ok k0); discriminate.
Qed.
