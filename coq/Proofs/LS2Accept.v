(* LS2Accept.v — C14 / C02 for LeaseSet2 values that were *built*, not parsed: any LeaseSet2 value
   whose fields fit their wire widths (ls2_fits) serialises to bytes which, followed by anything,
   ReadLeaseSet2 accepts, consuming exactly the serialisation and returning a value with the same
   fields and the same bytes.  The only condition on the size is the reader's whole-input minimum
   (finding D6). *)
From Coq Require Import ZifyN ZifyNat ZifyBool Sorting Permutation.
From Model Require Import Bytes Prim Tables Cert KAC Mapping Sig LS Validate.
From Gen Require Import Consts Tables.
From Spec Require Import Wire SpecTables.
From Proofs Require Import BytesLemmas PrimProofs Frame SliceLemmas LeafProofs TableProofs SpecProofs KacProofs KacRT OffProofs MappingProofs MapRT SpecRA LS2RT UptoRT Retail.
Ltac Zify.zify_post_hook ::= Z.div_mod_to_equations.
Open Scope Z_scope.
Local Arguments Z.add : simpl never.
Local Arguments Z.sub : simpl never.
Local Arguments Z.mul : simpl never.
Local Arguments Z.of_nat : simpl never.
Local Arguments Z.to_nat : simpl never.

Definition ls2_dt (l : leaseset2) : N := Z.to_N (kc_signing_type (k_kc (l2_dest l)) mod 65536).

Definition offline_fits (dt : N) (o : offsig) : Prop :=
  (o_expires o < 2 ^ 32)%N /\ (o_sigtype o < 65536)%N /\
  off_spk_size (Z.of_N (o_sigtype o)) <> 0 /\ Z.of_nat (length (o_key o)) = off_spk_size (Z.of_N (o_sigtype o)) /\
  off_sig_size (Z.of_N dt) <> 0 /\ Z.of_nat (length (o_sig o)) = off_sig_size (Z.of_N dt) /\ o_desttype o = dt.

Record ls2_fits (l : leaseset2) (opts : list (bytes * bytes)) : Prop := {
  fit_pub : (l2_published l < 2 ^ 32)%N;
  fit_exp : (l2_expires l < 2 ^ 16)%N;
  fit_flags : (l2_flags l < 2 ^ 16)%N;
  fit_off : match l2_offline l with
            | Some o => has_offline (l2_flags l) = true /\ offline_fits (ls2_dt l) o
            | None => has_offline (l2_flags l) = false
            end;
  fit_opts : opts_ok opts /\ options_bytes (l2_options l) = spec_mapping opts;
  fit_keys : (1 <= length (l2_keys l) <= 16)%nat /\ Forall key_fits (l2_keys l);
  fit_leases : (length (l2_leases l) <= 16)%nat /\ Forall (fun x => length x = LEASE2_SIZE) (l2_leases l);
  fit_sig : exists n, sig_length (final_sig_type (l2_dest l) (l2_flags l) (l2_offline l)) = Some n /\
                      Z.of_nat (length (sig_bytes (l2_sig l))) = n
}.

(* everything after the destination *)
Definition ls2_rest (l : leaseset2) : bytes :=
  be_encode 4 (l2_published l) ++ be_encode 2 (l2_expires l) ++ be_encode 2 (l2_flags l)
  ++ (match l2_offline l with Some o => off_bytes o | None => [] end)
  ++ options_bytes (l2_options l)
  ++ [(N.of_nat (length (l2_keys l)) mod 256)%N] ++ flat_map enckey_bytes (l2_keys l)
  ++ [(N.of_nat (length (l2_leases l)) mod 256)%N] ++ concat (l2_leases l) ++ sig_bytes (l2_sig l).

Lemma lease_set2_bytes_split l db : kac_bytes (l2_dest l) = Ok db -> lease_set2_bytes l = Ok (db ++ ls2_rest l).
Proof.
  intros KB. unfold lease_set2_bytes, lease_set2_content, dest_bytes, ls2_rest. rewrite KB. cbn [rbind].
  rewrite <- !app_assoc. reflexivity.
Qed.

Lemma off_bytes_spec o : off_bytes o = spec_offline (o_expires o) (o_sigtype o) (o_key o) (o_sig o).
Proof. reflexivity. Qed.

(* general form: any destination block the destination reader accepts in front of this tail *)
Theorem ls2_accept l opts db d' r :
  ls2_fits l opts -> kac_bytes (l2_dest l) = Ok db ->
  read_destination (db ++ ls2_rest l ++ r) = Ok (d', ls2_rest l ++ r) -> kac_bytes d' = Ok db ->
  kc_signing_type (k_kc d') = kc_signing_type (k_kc (l2_dest l)) ->
  c_lease_set2_LEASESET2_MIN_SIZE <= Z.of_nat (length (db ++ ls2_rest l ++ r)) ->
  exists l', read_lease_set2 ((db ++ ls2_rest l) ++ r) = Ok (l', r) /\
    lease_set2_bytes l' = Ok (db ++ ls2_rest l) /\
    l2_dest l' = d' /\ l2_published l' = l2_published l /\ l2_expires l' = l2_expires l /\ l2_flags l' = l2_flags l /\
    l2_offline l' = l2_offline l /\ map_values (l2_options l') = map wire_pair opts /\
    l2_keys l' = l2_keys l /\ l2_leases l' = l2_leases l /\ sig_bytes (l2_sig l') = sig_bytes (l2_sig l).
Proof.
  intros [Fp Fe Ff Fo [OK OB] [[K1 K16] FK] [L16 FL] [n [SL Lsg]]] KB RD KB' T MS.
  destruct (spec_mapping_accepted opts
     ([(N.of_nat (length (l2_keys l)) mod 256)%N] ++ flat_map enckey_bytes (l2_keys l)
      ++ [(N.of_nat (length (l2_leases l)) mod 256)%N] ++ concat (l2_leases l) ++ sig_bytes (l2_sig l) ++ r) OK) as [sz [e [RM FE]]].
  set (m' := mkMap (Some sz) (Some (map wire_pair opts))) in *.
  assert (OB' : options_bytes m' = spec_mapping opts).
  { unfold options_bytes, m', map_values. cbn [m_vals]. destruct (0 <? length (map wire_pair opts))%nat eqn:E0.
    - apply (spec_mapping_data sz opts OK).
    - apply Nat.ltb_ge in E0. destruct opts; [reflexivity|cbn [map length] in E0; lia]. }
  set (st := final_sig_type (l2_dest l) (l2_flags l) (l2_offline l)) in *.
  exists (mkLS2 d' (l2_published l) (l2_expires l) (l2_flags l) (l2_offline l) m' (l2_keys l) (l2_leases l) (mkSig st (sig_bytes (l2_sig l)))).
  split; [|split].
  - rewrite <- app_assoc.
    pose (h8 := be_encode 4 (l2_published l) ++ be_encode 2 (l2_expires l) ++ be_encode 2 (l2_flags l)).
    pose (ob := match l2_offline l with Some o => off_bytes o | None => [] end).
    pose (tl := [(N.of_nat (length (l2_keys l)) mod 256)%N] ++ flat_map enckey_bytes (l2_keys l)
               ++ [(N.of_nat (length (l2_leases l)) mod 256)%N] ++ concat (l2_leases l) ++ sig_bytes (l2_sig l) ++ r).
    assert (ER : ls2_rest l ++ r = h8 ++ ob ++ options_bytes (l2_options l) ++ tl).
    { unfold ls2_rest, h8, ob, tl. rewrite <- !app_assoc. reflexivity. }
    fold tl in RM.
    assert (L8 : length h8 = 8%nat) by (unfold h8; rewrite !app_length, !be_encode_length; reflexivity).
    assert (S1 : slice 0 4 h8 = Ok (be_encode 4 (l2_published l))) by (unfold h8; apply (slice_prefix (be_encode 4 (l2_published l)))).
    assert (S2 : slice 4 6 h8 = Ok (be_encode 2 (l2_expires l))).
    { unfold h8. apply (slice_mid' (be_encode 4 (l2_published l))); rewrite !be_encode_length; reflexivity. }
    assert (S3 : slice 6 8 h8 = Ok (be_encode 2 (l2_flags l))).
    { unfold h8. rewrite app_assoc. rewrite <- (app_nil_r (be_encode 2 (l2_flags l))) at 1.
      apply (slice_mid' (be_encode 4 (l2_published l) ++ be_encode 2 (l2_expires l))); rewrite ?app_length, !be_encode_length; reflexivity. }
    rewrite ER in *. clearbody h8.
    unfold read_lease_set2, read_ls2_header.
    replace (Z.of_nat (length (db ++ h8 ++ ob ++ options_bytes (l2_options l) ++ tl)) <? c_lease_set2_LEASESET2_MIN_SIZE) with false by lia.
    rewrite RD. cbn [rbind fst snd].
    replace (length (h8 ++ ob ++ options_bytes (l2_options l) ++ tl) <? 8)%nat with false by (rewrite app_length; lia).
    rewrite !(slice_app _ _ h8 _) by lia.
    rewrite (slice_from_prefix' h8 _ 8) by lia.
    rewrite S1, S2, S3. cbn [rbind].
    rewrite !be_decode_encode_small by (change (256 ^ N.of_nat 2)%N with 65536%N; change (256 ^ N.of_nat 4)%N with 4294967296%N; lia).
    (* the offline block *)
    assert (EO : (if has_offline (l2_flags l)
                  then do x <- read_offline_signature (ob ++ options_bytes (l2_options l) ++ tl) (Z.to_N (kc_signing_type (k_kc d') mod 65536)); Ok (Some (fst x), snd x)
                  else Ok (None, ob ++ options_bytes (l2_options l) ++ tl)) = Ok (l2_offline l, options_bytes (l2_options l) ++ tl)).
    { unfold ob. rewrite T. fold (ls2_dt l). destruct (l2_offline l) as [o|].
      - destruct Fo as [HO [O1 [O2 [O3 [O4 [O5 [O6 O7]]]]]]]. rewrite HO. rewrite off_bytes_spec.
        rewrite (spec_offline_accepted _ _ _ _ (ls2_dt l) _ O1 O2 O3 O4 O5 O6). cbn [rbind fst snd].
        destruct o as [oe ot ok os od]. cbn [o_desttype] in O7. subst od. reflexivity.
      - rewrite Fo. reflexivity. }
    match goal with |- context [rbind ?e _] =>
      match e with (if has_offline _ then _ else _) =>
        replace e with (Ok (l2_offline l, options_bytes (l2_options l) ++ tl) : res (option offsig * bytes)) by (symmetry; exact EO)
      end end.
    cbn [rbind fst snd].
    rewrite OB, RM. unfold embedded_mapping_ok. rewrite FE. cbn [Nat.eqb length negb]. unfold tl. cbn [rbind].
    (* keys *)
    cbn [app]. rewrite length_cons_lt1, index0_cons. cbn [rbind]. rewrite slice_from1_cons. cbn [rbind].
    change c_lease_set2_LEASESET2_MAX_ENCRYPTION_KEYS with 16. change c_lease_set2_LEASESET2_MAX_LEASES with 16.
    rewrite N.mod_small by lia.
    replace ((Z.of_N (N.of_nat (length (l2_keys l))) <? 1) || (Z.of_N (N.of_nat (length (l2_keys l))) >? 16))%bool with false by lia.
    rewrite Nat2N.id. rewrite (read_enc_keys_accept (l2_keys l) _ FK). cbn [rbind fst snd].
    rewrite length_cons_lt1, index0_cons. cbn [rbind]. rewrite slice_from1_cons. cbn [rbind].
    rewrite N.mod_small by lia.
    replace (Z.of_N (N.of_nat (length (l2_leases l))) >? 16) with false by lia.
    rewrite Nat2N.id. rewrite (read_n_accept LEASE2_SIZE (l2_leases l) _ FL). cbn [rbind fst snd].
    replace (final_sig_type d' (l2_flags l) (l2_offline l)) with st by (unfold st, final_sig_type; rewrite T; reflexivity).
    rewrite (spec_signature_accepted st (sig_bytes (l2_sig l)) r n SL Lsg). reflexivity.
  - unfold lease_set2_bytes, lease_set2_content, dest_bytes, ls2_rest.
    cbn [l2_dest l2_published l2_expires l2_flags l2_offline l2_options l2_keys l2_leases l2_sig sig_bytes s_data]. rewrite KB'. cbn [rbind].
    rewrite OB', <- OB, <- !app_assoc. reflexivity.
  - cbn [l2_dest l2_published l2_expires l2_flags l2_offline l2_options l2_keys l2_leases l2_sig sig_bytes s_data].
    unfold m', map_values. cbn [m_vals]. repeat split; reflexivity.
Qed.

(* the destination is one the destination reader produces (parsed, or built and serialised):
   then the whole serialisation parses back, whatever follows *)
Theorem ls2_built_value_parses_back l opts b x r0 r :
  ls2_fits l opts -> wf x -> read_destination x = Ok (l2_dest l, r0) ->
  lease_set2_bytes l = Ok b -> wf (b ++ r) ->
  c_lease_set2_LEASESET2_MIN_SIZE <= Z.of_nat (length (b ++ r)) ->
  exists l', read_lease_set2 (b ++ r) = Ok (l', r) /\ lease_set2_bytes l' = Ok b /\
    l2_published l' = l2_published l /\ l2_expires l' = l2_expires l /\ l2_flags l' = l2_flags l /\
    l2_offline l' = l2_offline l /\ map_values (l2_options l') = map wire_pair opts /\
    l2_keys l' = l2_keys l /\ l2_leases l' = l2_leases l /\ sig_bytes (l2_sig l') = sig_bytes (l2_sig l).
Proof.
  intros F Wx RDx B W MS.
  destruct (read_destination_retail x (l2_dest l) r0 (ls2_rest l ++ r) Wx RDx) as [db [d' [KB [_ [RD' [KB' [T _]]]]]]].
  rewrite (lease_set2_bytes_split l db KB) in B. apply Ok_inj in B. subst b.
  rewrite <- app_assoc in MS.
  destruct (ls2_accept l opts db d' r F KB RD' KB' T MS) as [l' [R [B' [_ [E1 [E2 [E3 [E4 [E5 [E6 [E7 E8]]]]]]]]]]].
  exists l'. repeat (split; [assumption|]). assumption.
Qed.
