(* BaseProofs.v — base32 / base64: digit-level inverses, alphabet facts, size guards. *)
From Coq Require Import ZifyN ZifyNat ZifyBool.
From Model Require Import Bytes Prim Base.
From Gen Require Import Consts.
From Proofs Require Import BytesLemmas.
Ltac Zify.zify_post_hook ::= Z.div_mod_to_equations.
Open Scope N_scope.

Lemma digits_length b k v : length (digits b k v) = k.
Proof. revert v; induction k as [|k IH]; intros v; cbn [digits]; [reflexivity|]. rewrite app_length, IH. cbn. lia. Qed.
Lemma undigits_app b a c : undigits b (a ++ c) = undigits b a * b ^ N.of_nat (length c) + undigits b c.
Proof.
  unfold undigits. rewrite fold_left_app.
  generalize (fold_left (fun acc d => acc * b + d) a 0) as s.
  induction c as [|x c IH]; intros s; cbn [fold_left length].
  - cbn. lia.
  - rewrite IH, (IH (0 * b + x)). rewrite Nat2N.inj_succ, N.pow_succ_r'. lia.
Qed.
Lemma undigits_digits b k v : 1 < b -> undigits b (digits b k v) = v mod b ^ N.of_nat k.
Proof.
  intros Hb. revert v; induction k as [|k IH]; intros v.
  - cbn. rewrite N.mod_1_r. reflexivity.
  - cbn [digits]. rewrite undigits_app, IH. cbn [length].
    replace (undigits b [v mod b]) with (v mod b) by (unfold undigits; cbn [fold_left]; lia).
    change (N.of_nat 1) with 1. rewrite N.pow_1_r, Nat2N.inj_succ, N.pow_succ_r'.
    assert (P : b ^ N.of_nat k <> 0) by (apply N.pow_nonzero; lia).
    rewrite (N.mod_mul_r v b) by lia. lia.
Qed.
Lemma digits_bound b k v : 1 < b -> Forall (fun d => d < b) (digits b k v).
Proof.
  intros Hb. revert v; induction k as [|k IH]; intros v; cbn [digits]; [constructor|].
  apply Forall_app. split; [apply IH|]. constructor; [|constructor]. apply N.mod_lt. lia.
Qed.

(* a full group is one number: decoding its digits gives the bytes back *)
Lemma quantum64_full g : length g = 3%nat -> wf g -> quantum64_bytes (digits 64 4 (be_decode g)) = g.
Proof.
  intros L W. unfold quantum64_bytes. rewrite digits_length. change (4 - 4)%nat with 0%nat. cbn [repeatN].
  rewrite app_nil_r, undigits_digits by lia. change (64 ^ N.of_nat 4) with 16777216.
  pose proof (be_decode_bound g W) as B. rewrite L in B. change (256 ^ N.of_nat 3) with 16777216 in B.
  rewrite N.mod_small by lia. change (4 - 1)%nat with 3%nat. rewrite <- L at 2.
  rewrite be_encode_decode by exact W. apply firstn_all2. lia.
Qed.
Lemma quantum32_full g : length g = 5%nat -> wf g -> quantum32_bytes (digits 32 8 (be_decode g)) = g.
Proof.
  intros L W. unfold quantum32_bytes. rewrite digits_length. change (8 - 8)%nat with 0%nat. cbn [repeatN].
  rewrite app_nil_r, undigits_digits by lia. change (32 ^ N.of_nat 8) with 1099511627776.
  pose proof (be_decode_bound g W) as B. rewrite L in B. change (256 ^ N.of_nat 5) with 1099511627776 in B.
  rewrite N.mod_small by lia. cbn [bytes32]. rewrite <- L at 2.
  rewrite be_encode_decode by exact W. apply firstn_all2. lia.
Qed.

(* the alphabets: every digit has a distinct character that decodes back to it; neither
   alphabet contains '=', CR, LF or a byte >= 0x80 *)
Lemma alpha64_inverse : forallb (fun d => match dec64 (chr alpha64 d) with Some d' => d' =? d | None => false end)
                                (map N.of_nat (seq 0 64)) = true.
Proof. vm_compute. reflexivity. Qed.
Lemma alpha32_inverse : forallb (fun d => match dec32 (chr alpha32 d) with Some d' => d' =? d | None => false end)
                                (map N.of_nat (seq 0 32)) = true.
Proof. vm_compute. reflexivity. Qed.
Lemma dec64_chr d : d < 64 -> dec64 (chr alpha64 d) = Some d.
Proof.
  intros H. pose proof alpha64_inverse as A. rewrite forallb_forall in A.
  specialize (A d). assert (I : In d (map N.of_nat (seq 0 64))).
  { apply in_map_iff. exists (N.to_nat d). split; [lia|]. apply in_seq. lia. }
  specialize (A I). destruct (dec64 (chr alpha64 d)) as [d'|]; [|discriminate]. apply N.eqb_eq in A. subst. reflexivity.
Qed.
Lemma dec32_chr d : d < 32 -> dec32 (chr alpha32 d) = Some d.
Proof.
  intros H. pose proof alpha32_inverse as A. rewrite forallb_forall in A.
  specialize (A d). assert (I : In d (map N.of_nat (seq 0 32))).
  { apply in_map_iff. exists (N.to_nat d). split; [lia|]. apply in_seq. lia. }
  specialize (A I). destruct (dec32 (chr alpha32 d)) as [d'|]; [|discriminate]. apply N.eqb_eq in A. subst. reflexivity.
Qed.
Lemma alphabets_clean :
  forallb (fun c => negb (c =? PAD) && negb (is_newline c) && (c <? 128)) (alpha32 ++ alpha64) = true.
Proof. vm_compute. reflexivity. Qed.
(* only alphabet characters decode: everything else is rejected character by character *)
Lemma dec64_only_alphabet c d : dec64 c = Some d -> In c alpha64.
Proof.
  unfold dec64. generalize 0 as i. induction alpha64 as [|x t IH]; intros i; cbn [index_of]; [discriminate|].
  destruct (x =? c) eqn:E; [apply N.eqb_eq in E; subst; left; reflexivity|]. intros H. right. eapply IH. exact H.
Qed.
Lemma dec32_only_alphabet c d : dec32 c = Some d -> In c alpha32.
Proof.
  unfold dec32. generalize 0 as i. induction alpha32 as [|x t IH]; intros i; cbn [index_of]; [discriminate|].
  destruct (x =? c) eqn:E; [apply N.eqb_eq in E; subst; left; reflexivity|]. intros H. right. eapply IH. exact H.
Qed.

(* size-guarded variants: empty and oversize input rejected exactly at the limits *)
Lemma b32_safe_empty : b32_encode_safe [] = Err /\ b32_decode_safe [] = Err /\ b32_decode_safe_nopad [] = Err /\ b64_decode_safe [] = Err.
Proof. repeat split; reflexivity. Qed.
Lemma b32_encode_safe_limit x :
  (Z.of_nat (length x) > c_base32_MAX_ENCODE_SIZE)%Z -> b32_encode_safe x = Err.
Proof.
  intros H. unfold b32_encode_safe. destruct (length x =? 0)%nat; [reflexivity|].
  replace (Z.of_nat (length x) >? c_base32_MAX_ENCODE_SIZE)%Z with true by lia. reflexivity.
Qed.
Lemma b32_encode_safe_within x : x <> [] ->
  (Z.of_nat (length x) <= c_base32_MAX_ENCODE_SIZE)%Z -> b32_encode_safe x = Ok (b32_encode true x).
Proof.
  intros Hne H. unfold b32_encode_safe. destruct x; [congruence|]. cbn [length Nat.eqb].
  replace (Z.of_nat (S (length x)) >? c_base32_MAX_ENCODE_SIZE)%Z with false by (cbn [length] in H; lia). reflexivity.
Qed.
Lemma b32_decode_safe_limit s :
  (Z.of_nat (length s) > c_base32_MAX_DECODE_SIZE)%Z -> b32_decode_safe s = Err /\ b32_decode_safe_nopad s = Err.
Proof.
  intros H. unfold b32_decode_safe, b32_decode_safe_nopad. destruct (length s =? 0)%nat; [auto|].
  replace (Z.of_nat (length s) >? c_base32_MAX_DECODE_SIZE)%Z with true by lia. auto.
Qed.
Lemma b32_decode_safe_within s : s <> [] -> (Z.of_nat (length s) <= c_base32_MAX_DECODE_SIZE)%Z ->
  b32_decode_safe s = b32_decode_string s /\ b32_decode_safe_nopad s = b32_decode_nopad s.
Proof.
  intros Hne H. unfold b32_decode_safe, b32_decode_safe_nopad. destruct s; [congruence|]. cbn [length Nat.eqb].
  replace (Z.of_nat (S (length s)) >? c_base32_MAX_DECODE_SIZE)%Z with false by (cbn [length] in H; lia). auto.
Qed.
Lemma b64_decode_safe_limit s :
  (Z.of_nat (length s) > c_base64_MAX_DECODE_SIZE)%Z -> b64_decode_safe s = Err.
Proof.
  intros H. unfold b64_decode_safe. destruct (length s =? 0)%nat; [auto|].
  replace (Z.of_nat (length s) >? c_base64_MAX_DECODE_SIZE)%Z with true by lia. auto.
Qed.
(* data after the padding is rejected by the padded base32 decoder *)
Lemma b32_data_after_padding_rejected a b c : is_newline c = false -> c <> PAD ->
  b32_decode_string (a ++ [PAD] ++ b ++ [c]) = Err.
Proof.
  intros Hn Hc. unfold b32_decode_string.
  assert (E : forall seen s, padding_is_trailing seen (s ++ [PAD] ++ b ++ [c]) = false).
  { assert (E2 : forall s, padding_is_trailing true (s ++ [c]) = false).
    { induction s as [|x s IH]; cbn [app padding_is_trailing].
      - rewrite Hn. replace (c =? PAD) with false by (symmetry; apply N.eqb_neq; exact Hc). reflexivity.
      - destruct (is_newline x); [exact IH|]. destruct (x =? PAD); [exact IH|]. reflexivity. }
    intros seen s. revert seen. induction s as [|x s IH]; intros seen; cbn [app padding_is_trailing].
    - cbn. apply E2.
    - destruct (is_newline x); [apply IH|]. destruct (x =? PAD); [apply IH|]. destruct seen; [reflexivity|apply IH]. }
  rewrite E. reflexivity.
Qed.
