(* MetaAccept.v — C14 / C02 for MetaLeaseSet values that were built, not parsed: any MetaLeaseSet
   value whose fields fit their wire widths (meta_fits) serialises to bytes which, followed by
   anything, ReadMetaLeaseSet accepts, consuming exactly the serialisation and returning a value
   with the same fields and the same bytes (whole-input minimum aside, finding D6).  The shared
   LeaseSet2-style header gets its own acceptance lemma. *)
From Coq Require Import ZifyN ZifyNat ZifyBool Sorting Permutation.
From Model Require Import Bytes Prim Tables Cert KAC Mapping Sig LS Validate.
From Gen Require Import Consts Tables.
From Spec Require Import Wire SpecTables.
From Proofs Require Import BytesLemmas PrimProofs Frame SliceLemmas LeafProofs TableProofs SpecProofs KacProofs KacRT OffProofs MappingProofs MapRT SpecRA LS2RT UptoRT Retail LS2Accept.
Ltac Zify.zify_post_hook ::= Z.div_mod_to_equations.
Open Scope Z_scope.
Local Arguments Z.add : simpl never.
Local Arguments Z.sub : simpl never.
Local Arguments Z.mul : simpl never.
Local Arguments Z.of_nat : simpl never.
Local Arguments Z.to_nat : simpl never.

Lemma options_bytes_wire sz opts : opts_ok opts ->
  options_bytes (mkMap (Some sz) (Some (map wire_pair opts))) = spec_mapping opts.
Proof.
  intros OK. unfold options_bytes, map_values. cbn [m_vals]. destruct (0 <? length (map wire_pair opts))%nat eqn:E0.
  - apply (spec_mapping_data sz opts OK).
  - apply Nat.ltb_ge in E0. destruct opts; [reflexivity|cbn [map length] in E0; lia].
Qed.

(* ---- the shared header: published (4) expires (2) flags (2) [offline block] options ---- *)
Definition hdr_bytes (pub ex flags : N) (off : option offsig) (ob : bytes) : bytes :=
  be_encode 4 pub ++ be_encode 2 ex ++ be_encode 2 flags
  ++ (match off with Some o => off_bytes o | None => [] end) ++ ob.

Lemma ls2_header_accept minsize db dest d' pub ex flags off opts tl :
  (pub < 2 ^ 32)%N -> (ex < 2 ^ 16)%N -> (flags < 2 ^ 16)%N ->
  match off with
  | Some o => has_offline flags = true /\ offline_fits (Z.to_N (kc_signing_type (k_kc dest) mod 65536)) o
  | None => has_offline flags = false
  end ->
  opts_ok opts ->
  read_destination (db ++ hdr_bytes pub ex flags off (spec_mapping opts) ++ tl) = Ok (d', hdr_bytes pub ex flags off (spec_mapping opts) ++ tl) ->
  kc_signing_type (k_kc d') = kc_signing_type (k_kc dest) ->
  minsize <= Z.of_nat (length (db ++ hdr_bytes pub ex flags off (spec_mapping opts) ++ tl)) ->
  exists sz, read_ls2_header minsize (db ++ hdr_bytes pub ex flags off (spec_mapping opts) ++ tl) =
             Ok (d', pub, ex, flags, off, mkMap (Some sz) (Some (map wire_pair opts)), tl).
Proof.
  intros Fp Fe Ff Fo OK RD T MS.
  destruct (spec_mapping_accepted opts tl OK) as [sz [e [RM FE]]]. exists sz.
  pose (h8 := be_encode 4 pub ++ be_encode 2 ex ++ be_encode 2 flags).
  pose (ob := match off with Some o => off_bytes o | None => [] end).
  assert (ER : hdr_bytes pub ex flags off (spec_mapping opts) ++ tl = h8 ++ ob ++ spec_mapping opts ++ tl).
  { unfold hdr_bytes, h8, ob. rewrite <- !app_assoc. reflexivity. }
  assert (L8 : length h8 = 8%nat) by (unfold h8; rewrite !app_length, !be_encode_length; reflexivity).
  assert (S1 : slice 0 4 h8 = Ok (be_encode 4 pub)) by (unfold h8; apply (slice_prefix (be_encode 4 pub))).
  assert (S2 : slice 4 6 h8 = Ok (be_encode 2 ex)).
  { unfold h8. apply (slice_mid' (be_encode 4 pub)); rewrite !be_encode_length; reflexivity. }
  assert (S3 : slice 6 8 h8 = Ok (be_encode 2 flags)).
  { unfold h8. rewrite app_assoc. rewrite <- (app_nil_r (be_encode 2 flags)) at 1.
    apply (slice_mid' (be_encode 4 pub ++ be_encode 2 ex)); rewrite ?app_length, !be_encode_length; reflexivity. }
  rewrite ER in *. clearbody h8.
  unfold read_ls2_header.
  replace (Z.of_nat (length (db ++ h8 ++ ob ++ spec_mapping opts ++ tl)) <? minsize) with false by lia.
  rewrite RD. cbn [rbind fst snd].
  replace (length (h8 ++ ob ++ spec_mapping opts ++ tl) <? 8)%nat with false by (rewrite app_length; lia).
  rewrite !(slice_app _ _ h8 _) by lia.
  rewrite (slice_from_prefix' h8 _ 8) by lia.
  rewrite S1, S2, S3. cbn [rbind].
  rewrite !be_decode_encode_small by (change (256 ^ N.of_nat 2)%N with 65536%N; change (256 ^ N.of_nat 4)%N with 4294967296%N; lia).
  assert (EO : (if has_offline flags
                then do x <- read_offline_signature (ob ++ spec_mapping opts ++ tl) (Z.to_N (kc_signing_type (k_kc d') mod 65536)); Ok (Some (fst x), snd x)
                else Ok (None, ob ++ spec_mapping opts ++ tl)) = Ok (off, spec_mapping opts ++ tl)).
  { unfold ob. rewrite T. destruct off as [o|].
    - destruct Fo as [HO [O1 [O2 [O3 [O4 [O5 [O6 O7]]]]]]]. rewrite HO. rewrite off_bytes_spec.
      rewrite (spec_offline_accepted _ _ _ _ _ _ O1 O2 O3 O4 O5 O6). cbn [rbind fst snd].
      destruct o as [oe ot ok os od]. cbn [o_desttype] in O7. subst od. reflexivity.
    - rewrite Fo. reflexivity. }
  match goal with |- context [rbind ?e _] =>
    match e with (if has_offline _ then _ else _) =>
      replace e with (Ok (off, spec_mapping opts ++ tl) : res (option offsig * bytes)) by (symmetry; exact EO)
    end end.
  cbn [rbind fst snd].
  rewrite RM. unfold embedded_mapping_ok. rewrite FE. cbn [Nat.eqb length negb]. reflexivity.
Qed.

(* ---- entries ---- *)
Definition mentry_fits (e : mentry) (o : list (bytes * bytes)) : Prop :=
  length (me_hash e) = 32%nat /\ (me_type e < 256)%N /\ meta_entry_type_valid (Z.of_N (me_type e)) = true /\
  (me_expires e < 2 ^ 32)%N /\ (me_cost e < 256)%N /\ opts_ok o /\ options_bytes (me_props e) = spec_mapping o.
(* the parsed entry carries the same fields *)
Definition mentry_same (e e' : mentry) (o : list (bytes * bytes)) : Prop :=
  me_hash e' = me_hash e /\ me_type e' = me_type e /\ me_expires e' = me_expires e /\ me_cost e' = me_cost e /\
  map_values (me_props e') = map wire_pair o.

Lemma read_meta_entries_accept : forall es os t', Forall2 mentry_fits es os ->
  exists es', read_meta_entries (length es) (flat_map mentry_bytes es ++ t') = Ok (es', t') /\
              flat_map mentry_bytes es' = flat_map mentry_bytes es /\
              Forall2 (fun p e' => mentry_same (fst p) e' (snd p)) (combine es os) es'.
Proof.
  induction es as [|e es IH]; intros os t' F.
  - inversion F; subst. exists []. cbn. split; [reflexivity|]. split; [reflexivity|constructor].
  - inversion F as [|? o ? os' Fe Fes]; subst.
    destruct Fe as [Lh [Bt [TV [Be [Bc [OK OB]]]]]].
    destruct (IH os' t' Fes) as [es' [R [B F2]]].
    destruct (spec_mapping_accepted o (flat_map mentry_bytes es ++ t') OK) as [sz [er [RM FE]]].
    set (m' := mkMap (Some sz) (Some (map wire_pair o))) in *.
    exists (mkME (me_hash e) (me_type e) (me_expires e) (me_cost e) m' :: es').
    cbn [length flat_map read_meta_entries]. change ME_MIN with 40%nat.
    set (h38 := me_hash e ++ [me_type e] ++ be_encode 4 (me_expires e) ++ [me_cost e]).
    assert (L38 : length h38 = 38%nat) by (unfold h38; rewrite !app_length, be_encode_length, Lh; reflexivity).
    assert (EX : (mentry_bytes e ++ flat_map mentry_bytes es) ++ t' = h38 ++ spec_mapping o ++ flat_map mentry_bytes es ++ t').
    { unfold mentry_bytes, h38. rewrite OB, <- !app_assoc. reflexivity. }
    rewrite EX.
    assert (Lsm : (2 <= length (spec_mapping o))%nat) by (unfold spec_mapping, u16; rewrite app_length, be_encode_length; lia).
    replace (length (h38 ++ spec_mapping o ++ flat_map mentry_bytes es ++ t') <? 40)%nat with false by (rewrite !app_length; lia).
    rewrite !(slice_app _ _ h38 _) by lia. rewrite !(index_app _ h38 _) by lia.
    rewrite (slice_from_prefix' h38 _ 38) by lia.
    assert (S1 : slice 0 32 h38 = Ok (me_hash e)) by (unfold h38; rewrite <- Lh; apply (slice_prefix (me_hash e))).
    assert (I1 : index 32 h38 = Ok (me_type e)) by (unfold h38; apply index_mid; symmetry; exact Lh).
    assert (S2 : slice 33 37 h38 = Ok (be_encode 4 (me_expires e))).
    { unfold h38. rewrite (app_assoc (me_hash e)). apply slice_mid'; rewrite ?app_length, ?be_encode_length, ?Lh; reflexivity. }
    assert (I2 : index 37 h38 = Ok (me_cost e)).
    { unfold h38. rewrite (app_assoc (me_hash e)), (app_assoc (me_hash e ++ [me_type e])).
      replace [me_cost e] with (me_cost e :: []) by reflexivity. apply index_mid. rewrite !app_length, be_encode_length, Lh. reflexivity. }
    rewrite S1, I1, S2, I2. cbn [rbind]. rewrite TV. cbn [negb].
    rewrite RM. unfold embedded_mapping_ok. rewrite FE. cbn [Nat.eqb length negb].
    rewrite R. cbn [rbind fst snd].
    rewrite be_decode_encode_small by (change (256 ^ N.of_nat 4)%N with 4294967296%N; lia).
    split; [reflexivity|]. split.
    + cbn [flat_map]. rewrite B. f_equal. unfold mentry_bytes. cbn [me_hash me_type me_expires me_cost me_props].
      unfold m'. rewrite (options_bytes_wire sz o OK), OB. reflexivity.
    + cbn [combine]. constructor; [|exact F2]. unfold mentry_same. cbn [fst snd me_hash me_type me_expires me_cost me_props].
      unfold m', map_values. cbn [m_vals]. repeat split; reflexivity.
Qed.

(* ---- MetaLeaseSet ---- *)
Record meta_fits (l : metals) (opts : list (bytes * bytes)) (eopts : list (list (bytes * bytes))) : Prop := {
  mfit_pub : (ml_published l < 2 ^ 32)%N;
  mfit_exp : (ml_expires l < 2 ^ 16)%N;
  mfit_flags : (ml_flags l < 2 ^ 16)%N;
  mfit_off : match ml_offline l with
             | Some o => has_offline (ml_flags l) = true /\
                         offline_fits (Z.to_N (kc_signing_type (k_kc (ml_dest l)) mod 65536)) o
             | None => has_offline (ml_flags l) = false
             end;
  mfit_opts : opts_ok opts /\ options_bytes (ml_options l) = spec_mapping opts;
  mfit_num : ml_num l = N.of_nat (length (ml_entries l)) /\
             c_meta_leaseset_META_LEASESET_MIN_ENTRIES <= Z.of_nat (length (ml_entries l)) <= c_meta_leaseset_META_LEASESET_MAX_ENTRIES;
  mfit_entries : Forall2 mentry_fits (ml_entries l) eopts;
  mfit_sig : exists n, sig_length (final_sig_type (ml_dest l) (ml_flags l) (ml_offline l)) = Some n /\
                       Z.of_nat (length (sig_bytes (ml_sig l))) = n
}.

Definition meta_rest (l : metals) : bytes :=
  hdr_bytes (ml_published l) (ml_expires l) (ml_flags l) (ml_offline l) (options_bytes (ml_options l))
  ++ [ml_num l] ++ flat_map mentry_bytes (ml_entries l) ++ sig_bytes (ml_sig l).

Lemma meta_lease_set_bytes_split l db : kac_bytes (ml_dest l) = Ok db -> meta_lease_set_bytes l = Ok (db ++ meta_rest l).
Proof.
  intros KB. unfold meta_lease_set_bytes, meta_lease_set_content, meta_rest, hdr_bytes. rewrite KB. cbn [rbind].
  rewrite <- !app_assoc. reflexivity.
Qed.

Theorem meta_accept l opts eopts db d' r :
  meta_fits l opts eopts -> kac_bytes (ml_dest l) = Ok db ->
  read_destination (db ++ meta_rest l ++ r) = Ok (d', meta_rest l ++ r) -> kac_bytes d' = Ok db ->
  kc_signing_type (k_kc d') = kc_signing_type (k_kc (ml_dest l)) ->
  c_meta_leaseset_META_LEASESET_MIN_SIZE <= Z.of_nat (length (db ++ meta_rest l ++ r)) ->
  exists l', read_meta_lease_set ((db ++ meta_rest l) ++ r) = Ok (l', r) /\
    meta_lease_set_bytes l' = Ok (db ++ meta_rest l) /\
    ml_published l' = ml_published l /\ ml_expires l' = ml_expires l /\ ml_flags l' = ml_flags l /\
    ml_offline l' = ml_offline l /\ map_values (ml_options l') = map wire_pair opts /\ ml_num l' = ml_num l /\
    Forall2 (fun p e' => mentry_same (fst p) e' (snd p)) (combine (ml_entries l) eopts) (ml_entries l') /\
    sig_bytes (ml_sig l') = sig_bytes (ml_sig l).
Proof.
  intros [Fp Fe Ff Fo [OK OB] [NUM [N1 N2]] FE [n [SL Lsg]]] KB RD KB' T MS.
  set (tl := [ml_num l] ++ flat_map mentry_bytes (ml_entries l) ++ sig_bytes (ml_sig l) ++ r).
  assert (ER : meta_rest l ++ r = hdr_bytes (ml_published l) (ml_expires l) (ml_flags l) (ml_offline l) (spec_mapping opts) ++ tl).
  { unfold meta_rest, tl. rewrite OB, <- !app_assoc. reflexivity. }
  rewrite ER in RD, MS.
  destruct (ls2_header_accept c_meta_leaseset_META_LEASESET_MIN_SIZE db (ml_dest l) d' _ _ _ _ opts tl Fp Fe Ff Fo OK RD T MS) as [sz RH].
  destruct (read_meta_entries_accept (ml_entries l) eopts (sig_bytes (ml_sig l) ++ r) FE) as [es' [RE [EB F2]]].
  set (m' := mkMap (Some sz) (Some (map wire_pair opts))) in *.
  set (st := final_sig_type (ml_dest l) (ml_flags l) (ml_offline l)) in *.
  exists (mkMLS d' (ml_published l) (ml_expires l) (ml_flags l) (ml_offline l) m' (ml_num l) es' (mkSig st (sig_bytes (ml_sig l)))).
  split; [|split].
  - rewrite <- app_assoc, ER. unfold read_meta_lease_set. rewrite RH. cbn [rbind].
    unfold tl. cbn [app]. rewrite length_cons_lt1, index0_cons. cbn [rbind]. rewrite slice_from1_cons. cbn [rbind].
    rewrite NUM.
    replace ((Z.of_N (N.of_nat (length (ml_entries l))) <? c_meta_leaseset_META_LEASESET_MIN_ENTRIES)
             || (Z.of_N (N.of_nat (length (ml_entries l))) >? c_meta_leaseset_META_LEASESET_MAX_ENTRIES))%bool with false by lia.
    rewrite Nat2N.id. rewrite RE. cbn [rbind fst snd].
    replace (final_sig_type d' (ml_flags l) (ml_offline l)) with st by (unfold st, final_sig_type; rewrite T; reflexivity).
    rewrite (spec_signature_accepted st (sig_bytes (ml_sig l)) r n SL Lsg). rewrite <- NUM. reflexivity.
  - unfold meta_lease_set_bytes, meta_lease_set_content, meta_rest, hdr_bytes.
    cbn [ml_dest ml_published ml_expires ml_flags ml_offline ml_options ml_num ml_entries ml_sig sig_bytes s_data]. rewrite KB'. cbn [rbind].
    unfold m'. rewrite (options_bytes_wire sz opts OK), <- OB, EB, <- !app_assoc. reflexivity.
  - cbn [ml_dest ml_published ml_expires ml_flags ml_offline ml_options ml_num ml_entries ml_sig sig_bytes s_data].
    unfold m', map_values. cbn [m_vals]. repeat split; try reflexivity. exact F2.
Qed.

Theorem meta_built_value_parses_back l opts eopts b x r0 r :
  meta_fits l opts eopts -> wf x -> read_destination x = Ok (ml_dest l, r0) ->
  meta_lease_set_bytes l = Ok b -> wf (b ++ r) ->
  c_meta_leaseset_META_LEASESET_MIN_SIZE <= Z.of_nat (length (b ++ r)) ->
  exists l', read_meta_lease_set (b ++ r) = Ok (l', r) /\ meta_lease_set_bytes l' = Ok b /\
    ml_published l' = ml_published l /\ ml_expires l' = ml_expires l /\ ml_flags l' = ml_flags l /\
    ml_offline l' = ml_offline l /\ map_values (ml_options l') = map wire_pair opts /\ ml_num l' = ml_num l /\
    Forall2 (fun p e' => mentry_same (fst p) e' (snd p)) (combine (ml_entries l) eopts) (ml_entries l') /\
    sig_bytes (ml_sig l') = sig_bytes (ml_sig l).
Proof.
  intros F Wx RDx B W MS.
  destruct (read_destination_retail x (ml_dest l) r0 (meta_rest l ++ r) Wx RDx) as [db [d' [KB [_ [RD' [KB' [T _]]]]]]].
  rewrite (meta_lease_set_bytes_split l db KB) in B. apply Ok_inj in B. subst b.
  rewrite <- app_assoc in MS.
  exact (meta_accept l opts eopts db d' r F KB RD' KB' T MS).
Qed.
