From Coq Require Import List NArith Arith Lia Bool.
Import ListNotations.
From Model Require Import Conc.

Lemma alone_read_only h t : read_only t = true -> alone h t = map (fun s => match s with SRead l => h l | SWrite _ _ => 0%N end) t.
Proof.
  induction t as [|[l|l v] r IH]; cbn; intros H; [reflexivity| |discriminate].
  f_equal. apply IH. exact H.
Qed.
Lemma nth_error_set_nth_same {A} i (x : A) l : i < length l -> nth_error (set_nth i x l) i = Some x.
Proof. revert i; induction l as [|y t IH]; intros [|i] H; cbn in *; try lia; [reflexivity|]. apply IH. lia. Qed.
Lemma nth_error_set_nth_other {A} i j (x : A) l : i <> j -> nth_error (set_nth i x l) j = nth_error l j.
Proof. revert i j; induction l as [|y t IH]; intros [|i] [|j] H; cbn; try reflexivity; try lia. apply IH. lia. Qed.
Lemma set_nth_length {A} i (x : A) l : length (set_nth i x l) = length l.
Proof. revert i; induction l as [|y t IH]; intros [|i]; cbn; auto. Qed.
Lemma nth_set_nth_same {A} i (x d : A) l : i < length l -> nth i (set_nth i x l) d = x.
Proof. revert i; induction l as [|y t IH]; intros [|i] H; cbn in *; try lia; [reflexivity|]. apply IH. lia. Qed.
Lemma nth_set_nth_other {A} i j (x d : A) l : i <> j -> nth j (set_nth i x l) d = nth j l d.
Proof. revert i j; induction l as [|y t IH]; intros [|i] [|j] H; cbn; try reflexivity; try lia. apply IH. lia. Qed.

(* invariant of a run of read-only threads from heap h0: the heap is h0, every remaining
   program is a suffix of the original, and every log is what the executed prefix reads in h0 *)
Definition inv (ts : list thread) (h0 : heap) (s : state) : Prop :=
  hp s = h0 /\ length (progs s) = length ts /\ length (logs s) = length ts /\
  forall i t, nth_error ts i = Some t ->
    exists done rest, t = done ++ rest /\ nth_error (progs s) i = Some rest /\ nth i (logs s) [] = alone h0 done.

Lemma inv_init ts h0 : inv ts h0 (init ts h0).
Proof.
  unfold inv, init; cbn. repeat split; try (rewrite map_length; reflexivity).
  intros i t H. exists [], t. repeat split; [exact H|].
  revert i H; induction ts as [|x r IH]; intros [|i] H; cbn in *; try discriminate; auto.
Qed.
Lemma alone_app_read h d l : Forall (fun s => is_read s = true) d -> alone h (d ++ [SRead l]) = alone h d ++ [h l].
Proof. induction d as [|[a|a v] r IH]; intros F; cbn; [reflexivity| |inversion F; discriminate]. inversion F; subst. rewrite IH by assumption. reflexivity. Qed.

Lemma inv_step ts h0 s i : Forall (fun t => read_only t = true) ts -> inv ts h0 s -> inv ts h0 (step_thread i s).
Proof.
  intros RO [Hh [Lp [Ll I]]]. unfold step_thread.
  destruct (nth_error (progs s) i) as [[|[l|l v] r]|] eqn:E; try (repeat split; assumption).
  - (* a read *)
    assert (Hi : i < length ts) by (rewrite <- Lp; apply nth_error_Some; congruence).
    destruct (nth_error ts i) as [t|] eqn:Et; [|apply nth_error_None in Et; lia].
    destruct (I i t Et) as [done [rest [Ed [Ep El]]]]. rewrite E in Ep. injection Ep as <-.
    unfold inv; cbn. repeat split; try (rewrite set_nth_length; assumption); [assumption|].
    intros j tj Hj. destruct (Nat.eq_dec i j) as [<-|N].
    + rewrite Et in Hj. injection Hj as <-. exists (done ++ [SRead l]), r. repeat split.
      * rewrite <- app_assoc. exact Ed.
      * apply nth_error_set_nth_same. lia.
      * rewrite nth_set_nth_same by lia. rewrite El, Hh. symmetry. apply alone_app_read.
        assert (RT : read_only t = true) by (rewrite Forall_forall in RO; apply RO; eapply nth_error_In; exact Et).
        unfold read_only in RT. rewrite Ed, forallb_app in RT. apply andb_true_iff in RT. destruct RT as [RT _].
        apply Forall_forall. rewrite forallb_forall in RT. exact RT.
    + destruct (I j tj Hj) as [d2 [r2 [A [B C]]]]. exists d2, r2. repeat split; [exact A| |].
      * rewrite nth_error_set_nth_other by exact N. exact B.
      * rewrite nth_set_nth_other by exact N. exact C.
  - (* a write: impossible for a read-only thread *)
    exfalso.
    assert (Hi : i < length ts) by (rewrite <- Lp; apply nth_error_Some; congruence).
    destruct (nth_error ts i) as [t|] eqn:Et; [|apply nth_error_None in Et; lia].
    destruct (I i t Et) as [done [rest [Ed [Ep _]]]]. rewrite E in Ep. injection Ep as <-.
    assert (RT : read_only t = true) by (rewrite Forall_forall in RO; apply RO; eapply nth_error_In; exact Et).
    unfold read_only in RT. rewrite Ed, forallb_app in RT. apply andb_true_iff in RT. destruct RT as [_ RT].
    cbn in RT. discriminate.
Qed.
Theorem read_only_noninterference ts h0 sched :
  Forall (fun t => read_only t = true) ts -> inv ts h0 (run sched (init ts h0)).
Proof.
  intros RO. unfold run. generalize (inv_init ts h0). generalize (init ts h0) as s.
  induction sched as [|i r IH]; intros s H; cbn [fold_left]; [exact H|]. apply IH. apply inv_step; assumption.
Qed.
