(* LSRT.v — LeaseSet (version 1): the serialisation of a parsed LeaseSet is a prefix of the
   input (ReadLeaseSet returns no remainder; bytes after the signature are ignored). *)
From Coq Require Import ZifyN ZifyNat ZifyBool.
From Model Require Import Bytes Prim Tables ExtCrypto Cert KAC Mapping Sig LS.
From Gen Require Import Consts Tables.
From Proofs Require Import BytesLemmas PrimProofs Frame SliceLemmas LeafProofs TableProofs KacProofs KacRT OffProofs LS2RT.
Ltac Zify.zify_post_hook ::= Z.div_mod_to_equations.
Open Scope Z_scope.
Local Arguments Z.add : simpl never.
Local Arguments Z.sub : simpl never.
Local Arguments Z.mul : simpl never.
Local Arguments Z.to_nat : simpl never.
Local Arguments Z.of_nat : simpl never.

Lemma kac_remainder x k r : read_keys_and_cert x = Ok (k, r) -> (387 <= length x)%nat /\
  exists c, read_certificate (skipn 384 x) = Ok (c, r).
Proof.
  unfold read_keys_and_cert. change KAC_MIN with 387. change (Z.to_nat KAC_DATA) with 384%nat.
  destruct (Z.of_nat (length x) <? 387) eqn:E; [discriminate|]. split; [lia|]. revert H.
  destruct (index 384 x) as [ct| |]; cbn [rbind]; try discriminate.
  rewrite slice_from_ok by lia. cbn [rbind].
  destruct (Z.of_N ct =? c_certificate_CERT_KEY).
  - unfold new_key_certificate.
    destruct (read_certificate (skipn 384 x)) as [[c r0]| |] eqn:RC; cbn [rbind fst snd]; try discriminate.
    destruct (keycert_from_cert c) as [kc| |]; cbn [rbind fst snd]; try discriminate.
    intros H. apply kac_from_keycert_inv in H; [|lia]. destruct H as [cl [sl [_ [_ [_ [_ [_ [_ [-> _]]]]]]]]]. eauto.
  - destruct (Z.of_N ct =? c_certificate_CERT_NULL); [|discriminate].
    destruct (read_certificate (skipn 384 x)) as [[c r0]| |] eqn:RC; cbn [rbind fst snd]; try discriminate.
    intros H. apply kac_from_keycert_inv in H; [|lia]. destruct H as [cl [sl [_ [_ [_ [_ [_ [_ [-> _]]]]]]]]]. eauto.
Qed.

Lemma cert_length_field_eq c l : cert_length_field c = Ok l -> l = cert_len_int c.
Proof.
  unfold cert_length_field. destruct (cert_is_valid c); [|discriminate].
  destruct ((_ <? _) || (_ >? _))%bool; [discriminate|]. intros H; injection H as <-. reflexivity.
Qed.

Lemma read_destination_from_leaseset_RT d dest rem : wf d -> read_destination_from_leaseset d = Ok (dest, rem) ->
  exists db, kac_bytes dest = Ok db /\ db ++ rem = d /\ wf rem.
Proof.
  intros W. unfold read_destination_from_leaseset.
  destruct (length d <? 387)%nat eqn:E; [discriminate|]. apply Nat.ltb_ge in E.
  rewrite slice_from_ok by lia. cbn [rbind].
  destruct (read_certificate (skipn 384 d)) as [[c rc]| |] eqn:RC; cbn [rbind fst snd]; try discriminate.
  destruct (cert_type c) as [t| |]; cbn [rbind]; try discriminate.
  destruct (cert_length_field c) as [cl| |] eqn:LF; cbn [rbind]; try discriminate.
  pose proof (cert_length_field_eq _ _ LF) as Ecl.
  destruct (read_certificate_shape _ _ _ (wf_skipn 384 _ W) RC) as [L3 [Ec [B _]]].
  rewrite skipn_length in B, L3.
  set (dl := Z.to_nat (384 + 3 + cl)) in *.
  destruct (length d <? dl)%nat eqn:E2; [discriminate|]. apply Nat.ltb_ge in E2.
  rewrite slice_to_ok by lia. cbn [rbind].
  set (dd := firstn dl d).
  assert (Wdd : wf dd) by (apply wf_firstn, W).
  destruct (read_destination dd) as [[dst rr]| |] eqn:RD; cbn [rbind fst snd]; try discriminate.
  rewrite slice_from_ok by lia. cbn [rbind]. intros H. apply Ok_pair_inj in H. destruct H as [<- <-].
  destruct (read_destination_RoundTrip _ _ _ Wdd RD) as [db [KB Ed]].
  assert (RK : read_keys_and_cert dd = Ok (dst, rr)).
  { revert RD. unfold read_destination. destruct (read_keys_and_cert dd) as [[k0 r0]| |]; cbn [rbind fst]; try discriminate.
    destruct (dest_types_ok k0); [|discriminate]. auto. }
  destruct (kac_remainder _ _ _ RK) as [_ [c' RC']].
  destruct (read_certificate_shape _ _ _ (wf_skipn 384 _ Wdd) RC') as [_ [Ec' [_ Er']]].
  assert (Ldd : length dd = dl) by (unfold dd; rewrite firstn_length; lia).
  assert (CL : cert_len_int c' = cert_len_int c).
  { rewrite Ec', Ec. unfold cert_len_int. cbn [c_len]. f_equal.
    unfold dd. rewrite skipn_firstn_comm. rewrite skipn_firstn_comm.
    rewrite firstn_firstn. f_equal. subst cl. lia. }
  assert (RR : rr = []).
  { rewrite Er'. apply skipn_all2. rewrite skipn_length, Ldd, CL. subst cl. lia. }
  rewrite RR, app_nil_r in Ed. exists db. split; [exact KB|]. split.
  - rewrite Ed. apply firstn_skipn.
  - apply wf_skipn, W.
Qed.

Lemma encode_count (c : N) : (c < 256)%N -> new_integer_from_int (Z.of_N c) 1 = Ok [c].
Proof.
  intros H. unfold new_integer_from_int. rewrite encode_int_n_ok by (try lia; unfold two63; lia).
  rewrite N2Z.id. change (Z.to_nat 1) with 1%nat. unfold be_encode. cbn. f_equal. f_equal.
  rewrite N.mod_small by lia. reflexivity.
Qed.

Theorem read_lease_set_RoundTrip d l : wf d -> read_lease_set d = Ok l ->
  exists b r, lease_set_bytes l = Ok b /\ b ++ r = d.
Proof.
  intros W. unfold read_lease_set.
  destruct (length d <? 387)%nat; [discriminate|].
  destruct (read_destination_from_leaseset d) as [[dest r0]| |] eqn:RD; cbn [rbind fst snd]; try discriminate.
  destruct (read_destination_from_leaseset_RT _ _ _ W RD) as [db [KB [E0 W0]]].
  change c_lease_set_LEASE_SET_PUBKEY_SIZE with 256. change (Z.to_nat 256) with 256%nat.
  destruct (Z.of_nat (length r0) <? 256) eqn:L0; [discriminate|].
  rewrite slice_to_ok by lia. cbn [rbind].
  destruct (negb (elg_pubkey_ok (firstn 256 r0))); [discriminate|].
  rewrite slice_from_ok by lia. cbn [rbind].
  destruct (dest_keycert_opt dest) as [kco| |]; cbn [rbind]; try discriminate.
  set (r1 := skipn 256 r0) in *.
  set (sks := match kco with Some kc => kc_signing_pubkey_size kc | None => c_lease_set_LEASE_SET_SPK_SIZE end).
  assert (SKN : 0 <= sks).
  { unfold sks. destruct kco; [apply signing_pubkey_size_nonneg|]. change c_lease_set_LEASE_SET_SPK_SIZE with 128. lia. }
  destruct (Z.of_nat (length r1) <? sks) eqn:L1; [discriminate|].
  rewrite slice_to_ok by lia. cbn [rbind].
  set (skd := firstn (Z.to_nat sks) r1).
  match goal with |- (do sk <- ?e; _) = _ -> _ => destruct e as [sk| |] eqn:SK; cbn [rbind]; try discriminate end.
  assert (ESK : sk = skd).
  { destruct kco as [kc|].
    - pose proof (construct_signing_inv _ _ _ SK) as TS.
      rewrite construct_signing_exact in SK; [injection SK as <-; reflexivity|exact TS|].
      unfold skd. rewrite firstn_length. unfold sks in *. lia.
    - destruct (dsa_pubkey_ok skd); [injection SK as <-; reflexivity|discriminate]. }
  subst sk. rewrite slice_from_ok by lia. cbn [rbind].
  set (r2 := skipn (Z.to_nat sks) r1) in *.
  destruct (length r2 <? 1)%nat eqn:L2; [discriminate|]. apply Nat.ltb_ge in L2.
  destruct (index 0 r2) as [cnt| |] eqn:IX; cbn [rbind]; try discriminate.
  destruct (Z.of_N cnt >? 16) eqn:C16; [discriminate|].
  rewrite slice_from_ok by lia. cbn [rbind].
  destruct (Z.of_nat (length (skipn 1 r2)) <? Z.of_N cnt * c_lease_LEASE_SIZE); [discriminate|].
  destruct (read_n (N.to_nat cnt) LEASE_SIZE (skipn 1 r2)) as [[ls r4]| |] eqn:RN; cbn [rbind fst snd]; try discriminate.
  destruct (read_n_RT _ _ _ _ _ RN) as [EN LN].
  set (ss := match kco with Some kc => kc_signature_size kc | None => c_lease_set_LEASE_SET_SIG_SIZE end).
  destruct (Z.of_nat (length r4) <? ss) eqn:L4; [discriminate|].
  assert (SSN : 0 <= ss \/ ss < 0) by lia.
  destruct (Z_lt_le_dec ss 0) as [NEG|POS].
  { (* a negative size never comes out of the table *)
    exfalso. unfold ss in NEG. destruct kco as [kc|]; [|change c_lease_set_LEASE_SET_SIG_SIZE with 40 in NEG; lia].
    unfold kc_signature_size, kc_sig_size in NEG.
    pose proof (assoc_nonneg m_key_certificate_SigningKeySizes_SignatureSize (kc_signing_type kc) eq_refl). lia. }
  rewrite slice_to_ok by lia. cbn [rbind].
  destruct (new_signature_from_bytes _ _) as [sg| |] eqn:NS; cbn [rbind]; try discriminate.
  intros H. apply Ok_inj in H. subst l.
  assert (SB : sig_bytes sg = firstn (Z.to_nat ss) r4).
  { revert NS. unfold new_signature_from_bytes. destruct (sig_length _); [|discriminate].
    destruct (_ =? _); [|discriminate]. intros H; injection H as <-. reflexivity. }
  unfold lease_set_bytes. cbn [ls_dest ls_enc ls_spk ls_count ls_leases ls_sig]. rewrite KB. cbn [rbind].
  rewrite encode_count by lia. cbn [rbind]. eexists. exists (skipn (Z.to_nat ss) r4). split; [reflexivity|].
  rewrite SB, <- !app_assoc, firstn_skipn, EN.
  change ([cnt] ++ skipn 1 r2) with (cnt :: skipn 1 r2). rewrite <- (index0_split _ _ IX). unfold r2, skd. rewrite firstn_skipn. unfold r1. rewrite firstn_skipn. exact E0.
Qed.
