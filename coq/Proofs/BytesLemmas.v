From Coq Require Import ZifyN ZifyNat ZifyBool.
From Model Require Import Bytes.
Ltac Zify.zify_post_hook ::= Z.div_mod_to_equations.

Lemma wf_app a b : wf (a ++ b) <-> wf a /\ wf b.
Proof. unfold wf. apply Forall_app. Qed.
Lemma wf_firstn n l : wf l -> wf (firstn n l).
Proof. unfold wf. intros H. revert n. induction H; intros [|n]; cbn; constructor; auto. Qed.
Lemma wf_skipn n l : wf l -> wf (skipn n l).
Proof. unfold wf. intros H. revert n. induction H; intros [|n]; cbn; auto. Qed.
Lemma wfb_wf l : wfb l = true <-> wf l.
Proof.
  unfold wfb, wf. rewrite forallb_forall, Forall_forall.
  split; intros H x Hx; specialize (H x Hx); [apply N.ltb_lt in H | apply N.ltb_lt]; auto.
Qed.

Lemma take_ok n x h t : take n x = Ok (h, t) -> x = h ++ t /\ length h = n.
Proof.
  unfold take, slice_to, slice_from.
  destruct (length x <? n)%nat eqn:E; [discriminate|].
  apply Nat.ltb_ge in E.
  replace (n <=? length x)%nat with true by (symmetry; apply Nat.leb_le; lia).
  cbn. intros H; inversion H; subst; clear H. split.
  - symmetry; apply firstn_skipn.
  - apply firstn_length_le; lia.
Qed.
Lemma take_app n h y : length h = n -> take n (h ++ y) = Ok (h, y).
Proof.
  intros L. unfold take, slice_to, slice_from. rewrite app_length.
  replace (length h + length y <? n)%nat with false by (symmetry; apply Nat.ltb_ge; lia).
  replace (n <=? length h + length y)%nat with true by (symmetry; apply Nat.leb_le; lia).
  cbn. subst n.
  rewrite firstn_app, firstn_all, Nat.sub_diag, skipn_app, skipn_all, Nat.sub_diag.
  cbn. rewrite app_nil_r. reflexivity.
Qed.
Lemma take_err n x : take n x = Err <-> (length x < n)%nat.
Proof.
  unfold take, slice_to, slice_from.
  destruct (length x <? n)%nat eqn:E.
  - apply Nat.ltb_lt in E. tauto.
  - apply Nat.ltb_ge in E.
    replace (n <=? length x)%nat with true by (symmetry; apply Nat.leb_le; lia).
    cbn. split; [discriminate | lia].
Qed.
Lemma take_nopanic n x : take n x <> Panic.
Proof.
  unfold take, slice_to, slice_from.
  destruct (length x <? n)%nat eqn:E; [discriminate|].
  apply Nat.ltb_ge in E.
  replace (n <=? length x)%nat with true by (symmetry; apply Nat.leb_le; lia).
  cbn. discriminate.
Qed.
Lemma take_ge n x : (n <= length x)%nat -> take n x = Ok (firstn n x, skipn n x).
Proof.
  intros H. unfold take, slice_to, slice_from.
  replace (length x <? n)%nat with false by (symmetry; apply Nat.ltb_ge; lia).
  replace (n <=? length x)%nat with true by (symmetry; apply Nat.leb_le; lia).
  reflexivity.
Qed.

(* big-endian codec *)
Lemma be_encode_length n v : length (be_encode n v) = n.
Proof. revert v; induction n as [|n IH]; intros v; cbn; [reflexivity|]. rewrite app_length, IH. cbn. lia. Qed.
Lemma be_encode_wf n v : wf (be_encode n v).
Proof.
  revert v; induction n as [|n IH]; intros v; cbn; [constructor|].
  apply wf_app; split; [apply IH|]. constructor; [|constructor]. apply N.mod_lt. lia.
Qed.
Lemma be_decode_app a b : be_decode (a ++ b) = be_decode a * 256 ^ N.of_nat (length b) + be_decode b.
Proof.
  unfold be_decode. rewrite fold_left_app.
  generalize (fold_left (fun acc b0 : N => acc * 256 + b0) a 0) as s.
  induction b as [|x b IH]; intros s.
  - cbn. lia.
  - cbn [fold_left length]. rewrite IH. rewrite (IH (0 * 256 + x)).
    rewrite Nat2N.inj_succ, N.pow_succ_r'. lia.
Qed.
Lemma be_decode_encode n v : be_decode (be_encode n v) = v mod 256 ^ N.of_nat n.
Proof.
  revert v; induction n as [|n IH]; intros v.
  - cbn. rewrite N.mod_1_r. reflexivity.
  - cbn [be_encode]. rewrite be_decode_app, IH. cbn [length].
    unfold be_decode; cbn [fold_left].
    change (N.of_nat 1) with 1. rewrite N.pow_1_r.
    rewrite Nat2N.inj_succ, N.pow_succ_r'.
    assert (P : 256 ^ N.of_nat n <> 0) by (apply N.pow_nonzero; lia).
    rewrite (N.mod_mul_r v 256) by lia. lia.
Qed.
Lemma be_decode_bound l : wf l -> be_decode l < 256 ^ N.of_nat (length l).
Proof.
  induction l as [|x l IH] using rev_ind; intros W.
  - cbn. lia.
  - apply wf_app in W. destruct W as [W1 W2]. inversion W2; subst.
    rewrite be_decode_app, app_length. cbn [length]. unfold be_decode at 2. cbn [fold_left].
    specialize (IH W1). replace (length l + 1)%nat with (S (length l)) by lia.
    change (N.of_nat 1) with 1. rewrite N.pow_1_r, Nat2N.inj_succ, N.pow_succ_r'. lia.
Qed.
Lemma be_encode_decode l : wf l -> be_encode (length l) (be_decode l) = l.
Proof.
  induction l as [|x l IH] using rev_ind; intros W; [reflexivity|].
  apply wf_app in W. destruct W as [W1 W2]. inversion W2; subst.
  rewrite app_length. cbn [length]. replace (length l + 1)%nat with (S (length l)) by lia.
  cbn [be_encode]. rewrite be_decode_app. cbn [length]. change (N.of_nat 1) with 1. rewrite N.pow_1_r.
  replace (be_decode [x]) with x by (unfold be_decode; cbn; lia).
  replace ((be_decode l * 256 + x) / 256) with (be_decode l) by lia.
  rewrite IH by assumption. f_equal. f_equal. lia.
Qed.
Lemma be_encode_inj n v w : v < 256 ^ N.of_nat n -> w < 256 ^ N.of_nat n ->
  be_encode n v = be_encode n w -> v = w.
Proof.
  intros Hv Hw E. apply (f_equal be_decode) in E.
  rewrite !be_decode_encode, !N.mod_small in E; assumption.
Qed.

Lemma bytes_eqb_eq a b : bytes_eqb a b = true <-> a = b.
Proof.
  unfold bytes_eqb. revert b; induction a as [|x a IH]; intros [|y b]; cbn; try (split; (discriminate || reflexivity)).
  specialize (IH b). rewrite andb_true_iff in *. rewrite andb_true_iff. rewrite N.eqb_eq, Nat.eqb_eq in *.
  split.
  - intros [L [E F]]. subst. f_equal. apply IH. split; auto.
  - intros H; inversion H; subst. destruct IH as [_ IH]. specialize (IH eq_refl). tauto.
Qed.
