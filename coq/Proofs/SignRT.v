(* SignRT.v — C06 for RouterInfo and LeaseSet: what the library signs (the serialisation
   without the signature, under the identity's key) is what its verifier checks; so for any
   signature scheme whose correctness law holds, the signed value verifies.  Verification is
   a function of the serialisation, the identity key and the signature alone, so by C01 it is
   unchanged by a trip over the wire. *)
From Coq Require Import ZifyN ZifyNat ZifyBool.
From Model Require Import Bytes Prim Tables Cert KAC Mapping Sig LS RI Crypto.
From Gen Require Import Consts Tables.
From Proofs Require Import BytesLemmas PrimProofs Frame CryptoProofs.
Open Scope Z_scope.

Lemma drop_last_app (m s : bytes) : drop_last (length s) (m ++ s) = m.
Proof.
  unfold drop_last. rewrite app_length. replace (length m + length s - length s)%nat with (length m) by lia.
  rewrite firstn_app, firstn_all, Nat.sub_diag, firstn_O. apply app_nil_r.
Qed.

Section Scheme.
  Variable verify : N -> bytes -> bytes -> bytes -> bool.
  Variable sign : bytes -> bytes -> bytes.
  Variable pub : bytes -> bytes.
  Hypothesis sign_ok : forall sk m, verify ALG_ED25519 (pub sk) m (sign sk m) = true.

  (* RouterInfo: the bytes that are signed *)
  Definition ri_unsigned (i : rinfo) : res bytes :=
    do ib <- kac_bytes (ri_ident i);
    Ok (ib ++ ri_published i ++ ri_size i ++ flat_map router_address_bytes (ri_addrs i)
        ++ ri_peer_size i ++ mapping_data (ri_options i)).
  Definition ri_with_sig (i : rinfo) (sg : sigv) : rinfo :=
    mkRInfo (ri_ident i) (ri_published i) (ri_size i) (ri_addrs i) (ri_peer_size i) (ri_options i) sg.
  Lemma ri_bytes_split i sg m : ri_unsigned i = Ok m -> router_info_bytes (ri_with_sig i sg) = Ok (m ++ sig_bytes sg).
  Proof.
    unfold ri_unsigned, router_info_bytes, ri_with_sig. cbn [ri_ident ri_published ri_size ri_addrs ri_peer_size ri_options ri_sig].
    destruct (kac_bytes (ri_ident i)) as [ib| |]; cbn [rbind]; try discriminate.
    intros H; injection H as <-. rewrite <- !app_assoc. reflexivity.
  Qed.
  Theorem ri_sign_verify i sk m : ri_unsigned i = Ok m ->
    kac_signing_key (ri_ident i) = Some (pub sk) -> length (pub sk) = 32%nat ->
    verdict verify (ri_verify_queries (ri_with_sig i (mkSig 7 (sign sk m)))) = true.
  Proof.
    intros U K L. unfold ri_verify_queries. rewrite (ri_bytes_split i _ m U).
    cbn [ri_with_sig ri_ident ri_sig s_type sig_bytes s_data]. rewrite K.
    change (7 =? c_signature_SIGNATURE_TYPE_EDDSA_SHA512_ED25519) with true. cbv iota. rewrite L. cbn [Nat.eqb].
    cbn [verdict forallb]. rewrite Bool.andb_true_r. unfold holds. cbn [q_alg q_key q_msg q_sig].
    rewrite drop_last_app. apply sign_ok.
  Qed.
  (* verification looks at nothing but the serialisation, the identity key and the signature *)
  Theorem ri_verification_is_function_of_bytes i i' : router_info_bytes i = router_info_bytes i' ->
    kac_signing_key (ri_ident i) = kac_signing_key (ri_ident i') -> ri_sig i = ri_sig i' ->
    ri_verify_queries i = ri_verify_queries i'.
  Proof. intros B K S. unfold ri_verify_queries. rewrite B, K, S. reflexivity. Qed.

  (* LeaseSet (v1) *)
  Definition ls_unsigned (l : leaseset) : res bytes :=
    do db <- kac_bytes (ls_dest l);
    do cnt <- new_integer_from_int (ls_count l) 1;
    Ok (db ++ ls_enc l ++ ls_spk l ++ cnt ++ concat (ls_leases l)).
  Definition ls_with_sig (l : leaseset) (sg : sigv) : leaseset :=
    mkLS (ls_dest l) (ls_enc l) (ls_spk l) (ls_count l) (ls_leases l) sg.
  Lemma ls_bytes_split l sg m : ls_unsigned l = Ok m -> lease_set_bytes (ls_with_sig l sg) = Ok (m ++ sig_bytes sg).
  Proof.
    unfold ls_unsigned, lease_set_bytes, ls_with_sig. cbn [ls_dest ls_enc ls_spk ls_count ls_leases ls_sig].
    destruct (kac_bytes (ls_dest l)) as [db| |]; cbn [rbind]; try discriminate.
    destruct (new_integer_from_int (ls_count l) 1) as [cnt| |]; cbn [rbind]; try discriminate.
    intros H; injection H as <-. rewrite <- !app_assoc. reflexivity.
  Qed.
  Theorem ls_sign_verify l sk m t : ls_unsigned l = Ok m ->
    kac_signing_key (ls_dest l) = Some (pub sk) ->
    alg_of_type (kc_signing_type (k_kc (ls_dest l))) = Some ALG_ED25519 -> sign sk m <> [] ->
    verdict verify (ls_verify_queries (ls_with_sig l (mkSig t (sign sk m)))) = true.
  Proof.
    intros U K A NE. unfold ls_verify_queries. rewrite (ls_bytes_split l _ m U).
    cbn [ls_with_sig ls_dest ls_sig sig_bytes s_data]. rewrite K, A.
    destruct (sign sk m) as [|x sg] eqn:ES; [contradiction|].
    replace ((length (x :: sg) =? 0)%nat || (length (m ++ x :: sg) <? length (x :: sg))%nat)%bool with false
      by (rewrite app_length; cbn [length]; lia).
    cbn [verdict forallb]. rewrite Bool.andb_true_r. unfold holds. cbn [q_alg q_key q_msg q_sig].
    rewrite drop_last_app, <- ES. apply sign_ok.
  Qed.
  Theorem ls_verification_is_function_of_bytes l l' : lease_set_bytes l = lease_set_bytes l' ->
    kac_signing_key (ls_dest l) = kac_signing_key (ls_dest l') -> ls_sig l = ls_sig l' ->
    kc_signing_type (k_kc (ls_dest l)) = kc_signing_type (k_kc (ls_dest l')) ->
    ls_verify_queries l = ls_verify_queries l'.
  Proof. intros B K S T. unfold ls_verify_queries. rewrite B, K, S, T. reflexivity. Qed.
End Scheme.
