(* AddrRT.v — C07: the base32 address and the base64 form of an identity are injective,
   invertible functions of the hash / of the serialised bytes. *)
From Coq Require Import ZifyN ZifyNat ZifyBool.
From Model Require Import Bytes Prim Tables Cert KAC Mapping Sig LS RI Base Addr.
From Gen Require Import Consts.
From Proofs Require Import BytesLemmas BaseProofs BaseRT Frame KacRT.
Ltac Zify.zify_post_hook ::= Z.div_mod_to_equations.
Open Scope N_scope.

Lemma rev_repeatN (b : N) k : rev (repeatN b k) = repeatN b k.
Proof.
  induction k as [|k IH]; [reflexivity|]. cbn [repeatN rev]. rewrite IH. apply repeatN_snoc.
Qed.
Lemma drop_while_pad_pads k l : drop_while_pad (repeatN PAD k ++ l) = drop_while_pad l.
Proof. induction k as [|k IH]; [reflexivity|]. cbn [repeatN app drop_while_pad]. rewrite N.eqb_refl. exact IH. Qed.
Lemma drop_while_pad_clean l : Forall (fun c => c <> PAD) l -> drop_while_pad l = l.
Proof. intros H. destruct H as [|c l Hc _]; [reflexivity|]. cbn [drop_while_pad]. apply N.eqb_neq in Hc. rewrite Hc. reflexivity. Qed.
Lemma trim_right_pad_app l k : Forall (fun c => c <> PAD) l -> trim_right_pad (l ++ repeatN PAD k) = l.
Proof.
  intros H. unfold trim_right_pad. rewrite rev_app_distr, rev_repeatN, drop_while_pad_pads.
  rewrite drop_while_pad_clean by (apply Forall_rev; exact H). apply rev_involutive.
Qed.

Lemma address_is_unpadded_base32 h : wf h -> base32_address h = b32_encode false h ++ s_destination_I2PBase32Suffix.
Proof.
  intros W. unfold base32_address, b32_encode. rewrite b32_encode_pad_split by lia.
  rewrite trim_right_pad_app; [reflexivity|].
  eapply Forall_impl; [|apply b32_encode_nopad_clean; exact W]. cbn. tauto.
Qed.

Theorem address_length h : wf h -> length h = 32%nat -> length (base32_address h) = 60%nat.
Proof.
  intros W L. rewrite address_is_unpadded_base32 by exact W. rewrite app_length. unfold b32_encode.
  rewrite b32_encode_nopad_length by lia. rewrite L. reflexivity.
Qed.

Theorem address_decodes h : wf h -> length h = 32%nat ->
  b32_decode_nopad (firstn 52 (base32_address h)) = Ok h /\ skipn 52 (base32_address h) = s_destination_I2PBase32Suffix.
Proof.
  intros W L. rewrite address_is_unpadded_base32 by exact W.
  assert (L52 : length (b32_encode false h) = 52%nat).
  { unfold b32_encode. rewrite b32_encode_nopad_length by lia. rewrite L. reflexivity. }
  rewrite firstn_app, skipn_app, L52, Nat.sub_diag, firstn_O, app_nil_r, skipn_O.
  rewrite firstn_all2, skipn_all2 by lia. cbn [app]. split; [apply b32_decode_nopad_encode; exact W|reflexivity].
Qed.

Theorem address_injective h1 h2 : wf h1 -> wf h2 -> base32_address h1 = base32_address h2 -> h1 = h2.
Proof.
  intros W1 W2 E. rewrite !address_is_unpadded_base32 in E by assumption.
  apply app_inv_tail in E.
  pose proof (b32_decode_nopad_encode h1 W1) as D1. pose proof (b32_decode_nopad_encode h2 W2) as D2.
  rewrite E in D1. rewrite D1 in D2. injection D2 as ->. reflexivity.
Qed.

(* the base64 form of a parsed identity decodes to exactly the bytes the parser consumed *)
Theorem base64_of_parsed_identity x k r : wf x -> read_keys_and_cert x = Ok (k, r) ->
  exists b s, kac_bytes k = Ok b /\ b ++ r = x /\ dest_base64 k = Ok s /\ b64_decode s = Ok b.
Proof.
  intros W H. destruct (read_keys_and_cert_RoundTrip x k r W H) as [b [KB E]].
  exists b, (b64_encode b). split; [exact KB|]. split; [exact E|]. split.
  - unfold dest_base64. rewrite KB. reflexivity.
  - apply b64_decode_encode. rewrite <- E in W. apply wf_app in W. tauto.
Qed.
Theorem base64_injective b1 b2 : wf b1 -> wf b2 -> b64_encode b1 = b64_encode b2 -> b1 = b2.
Proof.
  intros W1 W2 E. pose proof (b64_decode_encode b1 W1) as D1. rewrite E, (b64_decode_encode b2 W2) in D1.
  injection D1 as ->. reflexivity.
Qed.

(* two accepted identities whose consumed bytes differ have different serialisations (hence,
   SHA-256 collisions aside, different hashes, and by injectivity different addresses) *)
Theorem distinct_wire_distinct_bytes x1 x2 k1 k2 r1 r2 b1 b2 : wf x1 -> wf x2 ->
  read_keys_and_cert x1 = Ok (k1, r1) -> read_keys_and_cert x2 = Ok (k2, r2) ->
  kac_bytes k1 = Ok b1 -> kac_bytes k2 = Ok b2 ->
  (b1 = b2 <-> firstn (length x1 - length r1) x1 = firstn (length x2 - length r2) x2).
Proof.
  intros W1 W2 H1 H2 B1 B2.
  destruct (read_keys_and_cert_RoundTrip _ _ _ W1 H1) as [c1 [C1 E1]].
  destruct (read_keys_and_cert_RoundTrip _ _ _ W2 H2) as [c2 [C2 E2]].
  rewrite B1 in C1. rewrite B2 in C2. injection C1 as <-. injection C2 as <-.
  rewrite <- E1, <- E2. rewrite !app_length, !Nat.add_sub.
  rewrite !firstn_app, !firstn_all, !Nat.sub_diag, !firstn_O, !app_nil_r. tauto.
Qed.
