(* TimeProofs.v — exactness of the expiry arithmetic over the whole range of the wire fields. *)
From Coq Require Import ZifyN ZifyNat ZifyBool.
From Model Require Import Bytes Prim Time.
From Gen Require Import Consts.
From Proofs Require Import BytesLemmas PrimProofs.
Ltac Zify.zify_post_hook ::= Z.div_mod_to_equations.
Open Scope Z_scope.

Lemma expiration_exact p e : (p < 2 ^ 32)%N -> (e < 2 ^ 16)%N ->
  published_unix p = Z.of_N p /\ expiration_unix p e = Z.of_N p + Z.of_N e.
Proof.
  intros Hp He. unfold expiration_unix, published_unix, unix_add, duration_seconds, NS.
  change (2 ^ 32)%N with 4294967296%N in Hp. change (2 ^ 16)%N with 65536%N in He.
  rewrite (wrap64_small (Z.of_N p)) by (unfold two63; lia).
  rewrite (wrap64_small (Z.of_N e * 1000000000)) by (unfold two63; lia).
  split; [reflexivity|].
  replace (Z.of_N e * 1000000000 / 1000000000) with (Z.of_N e) by lia.
  apply wrap64_small. unfold two63. lia.
Qed.

Lemma lease_time_exact d : length d = 8%nat -> wf d -> (be_decode d < 2 ^ 63)%N ->
  lease_time_millis d = Z.of_N (be_decode d).
Proof.
  intros L W B. unfold lease_time_millis. apply wrap64_small. unfold two63.
  change (2 ^ 63)%N with 9223372036854775808%N in B. lia.
Qed.
Lemma lease2_exact e : (e < 2 ^ 32)%N ->
  lease2_time_unix e = Z.of_N e /\ be_decode (lease2_date e) = (e * 1000)%N /\ length (lease2_date e) = 8%nat.
Proof.
  intros H. change (2 ^ 32)%N with 4294967296%N in H. unfold lease2_time_unix, lease2_date.
  split; [apply wrap64_small; unfold two63; lia|]. split; [|apply be_encode_length].
  change (2 ^ 64)%N with 18446744073709551616%N. rewrite N.mod_small by lia.
  apply be_decode_encode_small. change (256 ^ N.of_nat 8)%N with 18446744073709551616%N. lia.
Qed.

Lemma new_lease2_accepts sec nsec : 0 <= nsec < NS -> 0 <= sec <= 4294967295 ->
  new_lease2_end sec nsec = Ok (be_encode 4 (Z.to_N sec)) /\ be_decode (be_encode 4 (Z.to_N sec)) = Z.to_N sec.
Proof.
  intros Hn Hs. unfold new_lease2_end, time_unix, NS in *. change c_lease_LEASE2_MAX_END_DATE with 4294967295.
  replace (nsec / 1000000000) with 0 by lia. rewrite Z.add_0_r, wrap64_small by (unfold two63; lia).
  replace ((sec <? 0) || (sec >? 4294967295))%bool with false by lia. split; [reflexivity|].
  apply be_decode_encode_small. change (256 ^ N.of_nat 4)%N with 4294967296%N. lia.
Qed.
Lemma new_lease2_rejects sec nsec : 0 <= nsec < NS -> - two63 <= sec < two63 - 1 ->
  sec < 0 \/ sec > 4294967295 -> new_lease2_end sec nsec = Err.
Proof.
  intros Hn Hr Hs. unfold new_lease2_end, time_unix, NS, two63 in *. change c_lease_LEASE2_MAX_END_DATE with 4294967295.
  replace (nsec / 1000000000) with 0 by lia. rewrite Z.add_0_r.
  unfold wrap64, two63, two64.
  replace ((sec + 9223372036854775808) mod 18446744073709551616 - 9223372036854775808) with sec by lia.
  replace ((sec <? 0) || (sec >? 4294967295))%bool with true by lia. reflexivity.
Qed.
Lemma offline_expiry_exact e : (e < 2 ^ 32)%N ->
  off_expires_unix e = Z.of_N e /\ be_decode (off_expires_date e) = (e * 1000)%N.
Proof.
  intros H. change (2 ^ 32)%N with 4294967296%N in H. unfold off_expires_unix, off_expires_date.
  split; [apply wrap64_small; unfold two63; lia|].
  unfold date_from_time, unix_milli, date_of_millis, to_u64.
  change (0 / 1000000000) with 0. change (0 mod 1000000000 / 1000000) with 0.
  rewrite !Z.add_0_r. rewrite (wrap64_small (Z.of_N e)) by (unfold two63; lia).
  rewrite wrap64_small by (unfold two63; lia).
  unfold two64. rewrite Z.mod_small by lia.
  rewrite be_decode_encode_small by (change (256 ^ N.of_nat 8)%N with 18446744073709551616%N; lia). lia.
Qed.

(* newest / oldest: members of the list that bound every other date *)
Lemma fold_max_spec (f : bytes -> Z) t d :
  let best := fold_left (fun b x => if f x >? f b then x else b) t d in
  In best (d :: t) /\ forall x, In x (d :: t) -> f x <= f best.
Proof.
  revert d. induction t as [|y t IH]; intros d; cbn [fold_left].
  - split; [left; reflexivity|]. intros x [<-|[]]. lia.
  - destruct (f y >? f d) eqn:E; specialize (IH (if f y >? f d then y else d)); rewrite E in IH;
      cbv zeta in IH; destruct IH as [I B]; split.
    + destruct I as [<-|I]; [right; left; reflexivity | right; right; exact I].
    + intros x [<-|[<-|Hx]].
      * specialize (B y (or_introl eq_refl)). lia.
      * apply B. left. reflexivity.
      * apply B. right. exact Hx.
    + destruct I as [<-|I]; [left; reflexivity | right; right; exact I].
    + intros x [<-|[<-|Hx]].
      * apply B. left. reflexivity.
      * specialize (B d (or_introl eq_refl)). lia.
      * apply B. right. exact Hx.
Qed.
Lemma newest_spec dates n : newest_of dates = Some n ->
  In n dates /\ forall x, In x dates -> lease_time_millis x <= lease_time_millis n.
Proof.
  destruct dates as [|d t]; cbn [newest_of]; [discriminate|]. intros H; injection H as <-.
  apply (fold_max_spec lease_time_millis).
Qed.
Lemma oldest_spec dates o : oldest_of dates = Some o ->
  In o dates /\ forall x, In x dates -> lease_time_millis o <= lease_time_millis x.
Proof.
  destruct dates as [|d t]; cbn [oldest_of]; [discriminate|]. intros H; injection H as <-.
  pose proof (fold_max_spec (fun x => - lease_time_millis x) t d) as S. cbv beta zeta in S.
  assert (E : fold_left (fun b x => if - lease_time_millis x >? - lease_time_millis b then x else b) t d =
              fold_left (fun best x => if lease_time_millis x <? lease_time_millis best then x else best) t d).
  { clear S. revert d. induction t as [|y t IH]; intros d; cbn [fold_left]; [reflexivity|].
    replace (- lease_time_millis y >? - lease_time_millis d) with (lease_time_millis y <? lease_time_millis d) by lia.
    apply IH. }
  rewrite E in S. destruct S as [I B]. split; [exact I|]. intros x Hx. specialize (B x Hx). lia.
Qed.
Lemma newest_nonempty dates : dates <> [] -> exists n, newest_of dates = Some n.
Proof. destruct dates; [congruence|]. intros _. eexists. reflexivity. Qed.
Lemma is_expired_iff now expiry : is_expired now expiry = true <-> now > expiry.
Proof. unfold is_expired. lia. Qed.
