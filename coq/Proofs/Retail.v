(* Retail.v — "replace the tail": if a reader accepts c ++ t leaving t, it accepts c ++ t' leaving
   t', for every t', with a value of the same serialisation.  (Append-invariance is the special
   case t' = t ++ y; the strip case t' = [] is what "Bytes() parses back with an empty
   remainder" needs.)  Proved here for certificates, key certificates, keys-and-cert and
   destinations, by showing the consumed bytes are in the specification's form and using the
   acceptance lemmas of SpecProofs. *)
From Coq Require Import ZifyN ZifyNat ZifyBool.
From Model Require Import Bytes Prim Tables Cert KAC Mapping Sig LS RI.
From Gen Require Import Consts Tables.
From Spec Require Import Wire.
From Proofs Require Import BytesLemmas PrimProofs Frame SliceLemmas LeafProofs TableProofs SpecProofs KacProofs KacRT OffProofs MapRT LS2RT LSRT UptoRT.
Ltac Zify.zify_post_hook ::= Z.div_mod_to_equations.
Open Scope Z_scope.
Local Arguments Z.add : simpl never.
Local Arguments Z.sub : simpl never.
Local Arguments Z.mul : simpl never.
Local Arguments Z.to_nat : simpl never.
Local Arguments Z.of_nat : simpl never.

Lemma be_encode_of_int2 (sz : bytes) n : length sz = 2%nat -> wf sz -> integer_int sz = Z.of_nat n ->
  be_encode 2 (N.of_nat n) = sz.
Proof.
  intros L W I. destruct (integer_int_2bytes sz L W) as [I2 _].
  replace (N.of_nat n) with (be_decode sz) by lia. rewrite <- L. apply be_encode_decode. exact W.
Qed.

(* the bytes a certificate reader consumes are the specification's encoding of (type, payload) *)
Lemma cert_spec_form x c r : wf x -> read_certificate x = Ok (c, r) ->
  exists t payload, (t < 256)%N /\ (nlen payload < 65536)%N /\
    x = spec_cert t payload ++ r /\ c_kind c = [t] /\ cert_len_int c = Z.of_nat (length payload) /\
    payload = firstn (length payload) (c_payload c) /\ cert_bytes c = Ok (spec_cert t payload).
Proof.
  intros W H. destruct (read_certificate_shape _ _ _ W H) as [L [Ec [B Er]]].
  pose proof (cert_bytes_of_read _ _ _ W H) as CB.
  remember (Z.to_nat (cert_len_int c)) as n eqn:En.
  destruct x as [|t x'] eqn:EX; [cbn [length] in L; lia|].
  assert (Wt : (t < 256)%N) by (inversion W; assumption).
  exists t, (firstn n (skipn 3 (t :: x'))).
  assert (Ln : length (firstn n (skipn 3 (t :: x'))) = n) by (rewrite firstn_length, skipn_length; lia).
  assert (L2 : length (firstn 2 (skipn 1 (t :: x'))) = 2%nat) by (rewrite firstn_length, skipn_length; lia).
  assert (W2 : wf (firstn 2 (skipn 1 (t :: x')))) by (apply wf_firstn, wf_skipn, W).
  assert (I2 : integer_int (firstn 2 (skipn 1 (t :: x'))) = Z.of_nat n).
  { assert (E : cert_len_int c = integer_int (firstn 2 (skipn 1 (t :: x')))) by (rewrite Ec; reflexivity). lia. }
  assert (SF : spec_cert t (firstn n (skipn 3 (t :: x'))) = firstn (3 + n) (t :: x')).
  { unfold spec_cert, u8, u16, nlen. rewrite Ln, (be_encode_of_int2 _ n L2 W2 I2).
    assert (A1 : firstn 3 (t :: x') ++ firstn n (skipn 3 (t :: x')) = firstn (3 + n) (t :: x')).
    { pose proof (firstn_skipn_slices 3 (3 + n) (t :: x') ltac:(lia)) as A. replace (3 + n - 3)%nat with n in A by lia. exact A. }
    assert (A2 : firstn 1 (t :: x') ++ firstn 2 (skipn 1 (t :: x')) = firstn 3 (t :: x')).
    { pose proof (firstn_skipn_slices 1 3 (t :: x') ltac:(lia)) as A. change (3 - 1)%nat with 2%nat in A. exact A. }
    rewrite <- A1, <- A2, <- app_assoc. reflexivity. }
  pose proof (integer_int_2 _ L2 W2) as B2.
  split; [exact Wt|]. split; [unfold nlen; rewrite Ln; lia|].
  split; [rewrite SF, Er; symmetry; apply firstn_skipn|].
  split; [rewrite Ec; reflexivity|]. split; [rewrite Ln; lia|].
  split; [rewrite Ln, Ec; cbn [c_payload]; reflexivity|]. rewrite CB, SF. reflexivity.
Qed.

(* replace the tail of a certificate *)
Theorem read_certificate_retail x c r r' : wf x -> read_certificate x = Ok (c, r) ->
  exists b c', cert_bytes c = Ok b /\ x = b ++ r /\ read_certificate (b ++ r') = Ok (c', r') /\
    cert_bytes c' = Ok b /\ c_kind c' = c_kind c /\ cert_len_int c' = cert_len_int c /\ cert_kind_int c' = cert_kind_int c.
Proof.
  intros W H. destruct (cert_spec_form x c r W H) as [t [payload [Ht [Hp [Ex [K [LI [_ CB]]]]]]]].
  destruct (spec_cert_accepted t payload r' Ht Hp) as [c' [R [K' [L' [_ [_ [B' KI']]]]]]].
  exists (spec_cert t payload), c'. repeat split; try assumption; try congruence.
  unfold cert_kind_int in *. rewrite K. rewrite KI'. unfold integer_int.
  destruct (read_certificate_shape _ _ _ W H) as [_ [Ec _]].
  rewrite int_from_bytes_le8 by (cbn; lia). cbn [be_decode fold_left]. rewrite wrap64_small by (unfold two63; lia). lia.
Qed.

(* replace the tail of a key certificate *)
Theorem new_key_certificate_retail x kc r r' : wf x -> new_key_certificate x = Ok (kc, r) ->
  exists b kc', keycert_bytes kc = Ok b /\ x = b ++ r /\ new_key_certificate (b ++ r') = Ok (kc', r') /\
    keycert_bytes kc' = Ok b /\ kc_signing_type kc' = kc_signing_type kc /\ kc_crypto_type kc' = kc_crypto_type kc.
Proof.
  intros W. unfold new_key_certificate.
  destruct (read_certificate x) as [[c r0]| |] eqn:RC; cbn [rbind fst snd]; try discriminate.
  destruct (keycert_from_cert c) as [k0| |] eqn:KC; cbn [rbind]; try discriminate.
  intros H. apply Ok_pair_inj in H. destruct H as [<- <-].
  destruct (cert_spec_form x c r0 W RC) as [t [p [Ht [Hp [Ex [K [LI [PF CB]]]]]]]].
  destruct (read_certificate_shape _ _ _ W RC) as [L3 [Ec [B _]]].
  assert (Wp : wf p).
  { rewrite Ex in W. unfold spec_cert in W. rewrite <- !app_assoc in W.
    apply wf_app in W. destruct W as [_ W]. apply wf_app in W. destruct W as [_ W]. apply wf_app in W. tauto. }
  revert KC. unfold keycert_from_cert.
  destruct (cert_type c) as [ty| |] eqn:CT; cbn [rbind]; try discriminate.
  destruct (ty =? c_certificate_CERT_KEY) eqn:TK; cbn [negb]; [|discriminate].
  assert (T5 : t = 5%N).
  { revert CT. unfold cert_type. destruct (cert_is_valid c); [|discriminate].
    destruct ((cert_kind_int c <? _) || (cert_kind_int c >? _))%bool; [discriminate|]. intros E; injection E as <-.
    change c_certificate_CERT_KEY with 5 in TK. unfold cert_kind_int in TK. rewrite K in TK. unfold integer_int in TK.
    rewrite int_from_bytes_le8 in TK by (cbn; lia). cbn [be_decode fold_left] in TK. rewrite wrap64_small in TK by (unfold two63; lia). lia. }
  assert (CD : cert_data c = Ok p).
  { unfold cert_data, cert_length_field.
    assert (V : cert_is_valid c = true) by (rewrite Ec; apply cert_valid_mk; lia). rewrite V.
    change c_certificate_CERT_EMPTY_PAYLOAD_SIZE with 0. change c_certificate_CERT_MAX_PAYLOAD_SIZE with 65535.
    unfold nlen in Hp. replace ((cert_len_int c <? 0) || (cert_len_int c >? 65535))%bool with false by lia. cbn [rbind].
    assert (PL : (length p <= length (c_payload c))%nat).
    { rewrite Ec. cbn [c_payload]. rewrite skipn_length. lia. }
    replace (cert_len_int c >? Z.of_nat (length (c_payload c))) with false by lia.
    rewrite slice_ok by lia. cbn [skipn]. rewrite Nat.sub_0_r. rewrite LI, Nat2Z.id. rewrite <- PF. reflexivity. }
  rewrite CD. cbn [rbind].
  destruct (length p <? 4)%nat eqn:E4; [discriminate|]. apply Nat.ltb_ge in E4.
  rewrite !slice_ok by lia. cbn [rbind]. change (2 - 0)%nat with 2%nat. change (4 - 2)%nat with 2%nat. change (skipn 0 p) with p.
  intros H. apply Ok_inj in H. subst k0.
  set (s2 := firstn 2 p) in *. set (c2 := firstn 2 (skipn 2 p)) in *.
  assert (Ls : length s2 = 2%nat) by (unfold s2; rewrite firstn_length; lia).
  assert (Lc : length c2 = 2%nat) by (unfold c2; rewrite firstn_length, skipn_length; lia).
  assert (Ws : wf s2) by (apply wf_firstn, Wp). assert (Wc : wf c2) by (apply wf_firstn, wf_skipn, Wp).
  destruct (integer_int_2bytes s2 Ls Ws) as [Is Bs]. destruct (integer_int_2bytes c2 Lc Wc) as [Ic Bc].
  assert (PS : p = u16 (be_decode s2) ++ u16 (be_decode c2) ++ skipn 4 p).
  { unfold u16. rewrite <- Ls at 1. rewrite be_encode_decode by exact Ws. rewrite <- Lc at 1. rewrite be_encode_decode by exact Wc.
    unfold s2, c2. pose proof (firstn_skipn_slices 2 4 p ltac:(lia)) as A. change (4 - 2)%nat with 2%nat in A.
    rewrite app_assoc, A. symmetry. apply firstn_skipn. }
  assert (SK : spec_cert t p = spec_keycert (be_decode s2) (be_decode c2) (skipn 4 p)).
  { unfold spec_keycert. rewrite T5, <- PS. reflexivity. }
  unfold nlen in Hp.
  destruct (spec_keycert_accepted (be_decode s2) (be_decode c2) (skipn 4 p) r' Bs Bc ltac:(rewrite skipn_length; lia))
    as [k' [NK [TS [TC KB]]]].
  exists (spec_cert t p), k'. unfold keycert_bytes at 1. cbn [kc_cert].
  split; [exact CB|]. split; [exact Ex|].
  split. { rewrite SK. unfold new_key_certificate in NK. exact NK. }
  split; [rewrite SK; exact KB|].
  unfold kc_signing_type, kc_crypto_type in *. cbn [kc_spk kc_cpk]. split; lia.
Qed.

(* ---- keys-and-cert ---- *)
Lemma index_at_block (blk : bytes) (v : N) (z : bytes) : length blk = 384%nat -> index 384 (blk ++ v :: z) = Ok v.
Proof. intros L. apply index_mid. lia. Qed.

(* the common tail: a key certificate with the same type codes reads the same block *)
Lemma kac_tail_retail x kc kc' rem k r cb (tl r' : bytes) : (384 <= length x)%nat ->
  kac_from_keycert kc x rem = Ok (k, r) -> keycert_bytes kc = Ok cb -> keycert_bytes kc' = Ok cb ->
  kc_signing_type kc' = kc_signing_type kc -> kc_crypto_type kc' = kc_crypto_type kc ->
  exists k', kac_from_keycert kc' (firstn 384 x ++ tl) r' = Ok (k', r') /\
             kac_bytes k = Ok (firstn 384 x ++ cb) /\ kac_bytes k' = Ok (firstn 384 x ++ cb) /\ k_kc k' = kc' /\ k_kc k = kc /\ r = rem.
Proof.
  intros L H KB KB' T2 T1.
  destruct (kac_from_keycert_inv _ _ _ _ _ L H) as [cl [sl [Hcl [Bs [SZc [SZs [TC [TS [-> ->]]]]]]]]].
  assert (SZc' : kc_crypto_size_of kc' = Z.of_nat cl) by (unfold kc_crypto_size_of in *; rewrite T1; exact SZc).
  assert (SZs' : kc_signing_pubkey_size kc' = Z.of_nat sl) by (unfold kc_signing_pubkey_size in *; rewrite T2; exact SZs).
  exists (kac_of kc' cl sl x). split.
  - apply kac_accept; try assumption; try lia; [rewrite T1|rewrite T2]; assumption.
  - rewrite (kac_of_bytes kc' cl sl x cb), (kac_of_bytes kc cl sl x cb) by (assumption || lia).
    unfold kac_of. cbn [k_kc]. auto 10.
Qed.

Theorem read_keys_and_cert_retail x k r r' : wf x -> read_keys_and_cert x = Ok (k, r) ->
  exists b k', kac_bytes k = Ok b /\ x = b ++ r /\ read_keys_and_cert (b ++ r') = Ok (k', r') /\ kac_bytes k' = Ok b /\
    kc_signing_type (k_kc k') = kc_signing_type (k_kc k) /\ kc_crypto_type (k_kc k') = kc_crypto_type (k_kc k).
Proof.
  intros W. unfold read_keys_and_cert at 1. change KAC_MIN with 387. change (Z.to_nat KAC_DATA) with 384%nat.
  destruct (Z.of_nat (length x) <? 387) eqn:E; [discriminate|].
  assert (L : (387 <= length x)%nat) by lia.
  destruct (index 384 x) as [ct| |] eqn:IX; cbn [rbind]; try discriminate.
  rewrite slice_from_ok by lia. cbn [rbind].
  assert (Ws : wf (skipn 384 x)) by (apply wf_skipn, W).
  assert (LB : length (firstn 384 x) = 384%nat) by (rewrite firstn_length; lia).
  (* the first byte of the certificate region is what index 384 reads *)
  assert (HD : exists z, skipn 384 x = ct :: z).
  { revert IX. unfold index. rewrite <- (firstn_skipn 384 x) at 1. rewrite nth_error_app2 by lia. rewrite LB, Nat.sub_diag.
    destruct (skipn 384 x) as [|h z]; cbn [nth_error]; [discriminate|]. intros H; injection H as ->. eauto. }
  destruct HD as [z HD].
  (* how the reader behaves on block ++ (certificate bytes ++ r') once the certificate part is known *)
  assert (STEP : forall (cb : bytes) (tl : bytes), (3 <= length cb)%nat -> (exists z', cb = ct :: z') ->
            read_keys_and_cert ((firstn 384 x ++ cb) ++ tl) =
            (if Z.of_N ct =? c_certificate_CERT_KEY then
               do kr <- new_key_certificate (cb ++ tl); kac_from_keycert (fst kr) ((firstn 384 x ++ cb) ++ tl) (snd kr)
             else if Z.of_N ct =? c_certificate_CERT_NULL then
               do cr <- read_certificate (cb ++ tl); kac_from_keycert (mkKC (fst cr) [0%N; 0%N] [0%N; 0%N]) ((firstn 384 x ++ cb) ++ tl) (snd cr)
             else Err)).
  { intros cb tl L3 [z' ->]. unfold read_keys_and_cert. change KAC_MIN with 387. change (Z.to_nat KAC_DATA) with 384%nat.
    rewrite !app_length, LB. cbn [length] in *. replace (Z.of_nat (384 + S (length z') + length tl) <? 387) with false by lia.
    rewrite <- app_assoc. cbn [app]. rewrite (index_at_block _ ct (z' ++ tl) LB). cbn [rbind].
    rewrite (slice_from_prefix' (firstn 384 x) (ct :: z' ++ tl)) by lia. cbn [rbind]. reflexivity. }
  destruct (Z.of_N ct =? c_certificate_CERT_KEY) eqn:CK.
  - destruct (new_key_certificate (skipn 384 x)) as [[kc rem]| |] eqn:NK; cbn [rbind fst snd]; try discriminate.
    intros H.
    destruct (new_key_certificate_retail _ _ _ r' Ws NK) as [cb [kc' [KB [Ex [NK' [KB' [T2 T1]]]]]]].
    assert (L3 : (3 <= length cb)%nat /\ exists z', cb = ct :: z').
    { assert (LC : (3 <= length cb)%nat).
      { revert KB. unfold keycert_bytes. intros KB.
        revert NK. unfold new_key_certificate. destruct (read_certificate (skipn 384 x)) as [[c r0]| |] eqn:RC; cbn [rbind fst snd]; try discriminate.
        destruct (keycert_from_cert c) as [k0| |] eqn:KC; cbn [rbind]; try discriminate. intros HH. apply Ok_pair_inj in HH. destruct HH as [<- <-].
        destruct (cert_spec_form _ _ _ Ws RC) as [t [p [_ [_ [_ [_ [_ [_ CB]]]]]]]].
        assert (EK : kc_cert k0 = c).
        { revert KC. unfold keycert_from_cert. destruct (cert_type c) as [t0| |]; cbn [rbind]; try discriminate.
          destruct (negb (t0 =? c_certificate_CERT_KEY)); [discriminate|].
          destruct (cert_data c) as [dd| |]; cbn [rbind]; try discriminate.
          destruct (length dd <? 4)%nat; [discriminate|].
          destruct (slice 0 2 dd); cbn [rbind]; try discriminate. destruct (slice 2 4 dd); cbn [rbind]; try discriminate.
          intros HH; injection HH as <-. reflexivity. }
        rewrite EK, CB in KB. injection KB as <-. unfold spec_cert, u8, u16. rewrite !app_length, be_encode_length. cbn [length]. lia. }
      split; [exact LC|]. rewrite HD in Ex. destruct cb as [|h z']; [cbn [length] in LC; lia|]. cbn [app] in Ex. injection Ex as -> _. eauto. }
    destruct L3 as [L3 HZ].
    destruct (kac_tail_retail x kc kc' rem k r cb (cb ++ r') r' ltac:(lia) H KB KB' T2 T1) as [k' [KF [B1 [B2 [KK' [KK ->]]]]]].
    exists (firstn 384 x ++ cb), k'. split; [exact B1|].
    split. { rewrite <- app_assoc, <- Ex. symmetry. apply firstn_skipn. }
    split. { rewrite (STEP cb r' L3 HZ), NK'. cbn [rbind fst snd]. rewrite <- app_assoc. exact KF. }
    split; [exact B2|]. rewrite KK', KK. auto.
  - destruct (Z.of_N ct =? c_certificate_CERT_NULL) eqn:CN; [|discriminate].
    destruct (read_certificate (skipn 384 x)) as [[c rem]| |] eqn:RC; cbn [rbind fst snd]; try discriminate.
    intros H.
    destruct (read_certificate_retail _ _ _ r' Ws RC) as [cb [c' [CB [Ex [RC' [CB' _]]]]]].
    assert (L3 : (3 <= length cb)%nat /\ exists z', cb = ct :: z').
    { assert (LC : (3 <= length cb)%nat).
      { destruct (cert_spec_form _ _ _ Ws RC) as [t [p [_ [_ [_ [_ [_ [_ CB2]]]]]]]]. rewrite CB2 in CB. injection CB as <-.
        unfold spec_cert, u8, u16. rewrite !app_length, be_encode_length. cbn [length]. lia. }
      split; [exact LC|]. rewrite HD in Ex. destruct cb as [|h z']; [cbn [length] in LC; lia|]. cbn [app] in Ex. injection Ex as -> _. eauto. }
    destruct L3 as [L3 HZ].
    destruct (kac_tail_retail x (mkKC c [0%N; 0%N] [0%N; 0%N]) (mkKC c' [0%N; 0%N] [0%N; 0%N]) rem k r cb (cb ++ r') r' ltac:(lia) H CB CB' eq_refl eq_refl)
      as [k' [KF [B1 [B2 [KK' [KK ->]]]]]].
    exists (firstn 384 x ++ cb), k'. split; [exact B1|].
    split. { rewrite <- app_assoc, <- Ex. symmetry. apply firstn_skipn. }
    split. { rewrite (STEP cb r' L3 HZ), RC'. cbn [rbind fst snd]. rewrite <- app_assoc. exact KF. }
    split; [exact B2|]. rewrite KK', KK. auto.
Qed.

(* destinations and router identities: the type filters look at the type codes only *)
Theorem read_destination_retail x k r r' : wf x -> read_destination x = Ok (k, r) ->
  exists b k', kac_bytes k = Ok b /\ x = b ++ r /\ read_destination (b ++ r') = Ok (k', r') /\ kac_bytes k' = Ok b /\
    kc_signing_type (k_kc k') = kc_signing_type (k_kc k) /\ kc_crypto_type (k_kc k') = kc_crypto_type (k_kc k).
Proof.
  intros W. unfold read_destination at 1.
  destruct (read_keys_and_cert x) as [[k0 r0]| |] eqn:RK; cbn [rbind fst snd]; try discriminate.
  destruct (dest_types_ok k0) eqn:TO; [|discriminate]. intros H. apply Ok_pair_inj in H. destruct H as [<- <-].
  destruct (read_keys_and_cert_retail x k0 r0 r' W RK) as [b [k' [KB [Ex [RK' [KB' [T2 T1]]]]]]].
  exists b, k'. repeat split; try assumption.
  unfold read_destination. rewrite RK'. cbn [rbind fst snd].
  replace (dest_types_ok k') with (dest_types_ok k0) by (unfold dest_types_ok; rewrite T1, T2; reflexivity).
  rewrite TO. reflexivity.
Qed.

(* ---- mapping: an error-free parse of c ++ r that leaves r reads c alone to the same mapping ---- *)
Lemma Some_triple_inj {A B C} (a a' : A) (b b' : B) (c c' : C) : Some (a, b, c) = Some (a', b', c') -> a = a' /\ b = b' /\ c = c'.
Proof. intros H. inversion H. auto. Qed.
Lemma read_mapping_strip (c r : bytes) m e : wf (c ++ r) -> read_mapping (c ++ r) = Some (m, r, e) -> fatal_errors e = [] ->
  exists e0, read_mapping c = Some (m, [], e0) /\ fatal_errors e0 = [].
Proof.
  intros W. unfold read_mapping. change c_data_MAPPING_MIN_SIZE with 2.
  destruct (Z.of_nat (length (c ++ r)) <? 2) eqn:E2.
  { intros H. apply Some_triple_inj in H. destruct H as [<- [<- <-]]. cbn. discriminate. }
  assert (L2 : length (firstn 2 (c ++ r)) = 2%nat) by (rewrite firstn_length; lia).
  pose proof (integer_int_2 _ L2 (wf_firstn 2 _ W)) as B.
  set (size := integer_int (firstn 2 (c ++ r))) in *.
  destruct (size =? 0) eqn:E0.
  { intros H _. apply Some_triple_inj in H. destruct H as [<- [HR <-]].
    assert (LC : length c = 2%nat).
    { apply (f_equal (@length _)) in HR. rewrite skipn_length, app_length in HR. rewrite app_length in E2. lia. }
    replace (Z.of_nat (length c) <? 2) with false by lia.
    assert (F2 : firstn 2 c = firstn 2 (c ++ r)) by (rewrite firstn_app, LC, Nat.sub_diag, firstn_O, app_nil_r; reflexivity).
    rewrite F2. fold size. rewrite E0. exists []. split; [|reflexivity].
    rewrite skipn_all2 by lia. reflexivity. }
  destruct (Z.of_nat (length (skipn 2 (c ++ r))) <? size) eqn:E1.
  { destruct (read_mapping_values _ _) as [[v e']|]; [|discriminate]. intros H. apply Some_triple_inj in H. destruct H as [<- [<- <-]]. cbn. discriminate. }
  destruct (read_mapping_values (firstn (Z.to_nat size) (skipn 2 (c ++ r))) size) as [[v e']|] eqn:RV; [|discriminate].
  intros H F. apply Some_triple_inj in H. destruct H as [<- [HR <-]].
  assert (LC : length c = (2 + Z.to_nat size)%nat).
  { apply (f_equal (@length _)) in HR. rewrite !skipn_length, app_length in HR. rewrite skipn_length, app_length in E1. lia. }
  replace (Z.of_nat (length c) <? 2) with false by lia.
  assert (F2 : firstn 2 c = firstn 2 (c ++ r)).
  { rewrite firstn_app. replace (2 - length c)%nat with 0%nat by lia. rewrite firstn_O, app_nil_r. reflexivity. }
  rewrite F2. fold size. rewrite E0.
  assert (LS : length (skipn 2 c) = Z.to_nat size) by (rewrite skipn_length; lia).
  replace (Z.of_nat (length (skipn 2 c)) <? size) with false by lia.
  assert (FD : firstn (Z.to_nat size) (skipn 2 (c ++ r)) = firstn (Z.to_nat size) (skipn 2 c)).
  { rewrite skipn_app. replace (2 - length c)%nat with 0%nat by lia. rewrite skipn_O.
    rewrite firstn_app. replace (Z.to_nat size - length (skipn 2 c))%nat with 0%nat by lia. rewrite firstn_O, app_nil_r. reflexivity. }
  rewrite <- FD, RV.
  replace (Z.of_nat (length (skipn 2 c)) >? size) with false by lia.
  rewrite skipn_all2 by lia. eexists. split; [reflexivity|].
  unfold fatal_errors in *. rewrite !filter_app in *. apply app_eq_nil in F. destruct F as [_ F]. cbn [app filter]. exact F.
Qed.

Theorem read_mapping_retail (c r r' : bytes) m e : wf (c ++ r) -> read_mapping (c ++ r) = Some (m, r, e) -> fatal_errors e = [] ->
  exists e', read_mapping (c ++ r') = Some (m, r', e') /\ fatal_errors e' = [].
Proof.
  intros W H F. destruct (read_mapping_strip c r m e W H F) as [e0 [H0 F0]].
  destruct (read_mapping_app c m [] e0 r' H0 F0) as [e' [H' F']]. exists e'. split; [exact H'|exact F'].
Qed.

(* ---- repeated fixed-size records and encryption keys ---- *)
Lemma read_n_lengths size : forall k d ls r, read_n k size d = Ok (ls, r) -> Forall (fun l => length l = size) ls /\ length ls = k.
Proof.
  induction k as [|k IH]; intros d ls r H; cbn [read_n] in H.
  - apply Ok_pair_inj in H. destruct H as [<- _]. split; [constructor|reflexivity].
  - destruct (take size d) as [[h t]| |] eqn:T; cbn [rbind fst snd] in H; try discriminate.
    destruct (read_n k size t) as [[ls' r']| |] eqn:R; cbn [rbind fst snd] in H; try discriminate.
    apply Ok_pair_inj in H. destruct H as [<- _]. destruct (IH _ _ _ R) as [F L].
    destruct (take_ok _ _ _ _ T) as [_ Lh]. split; [constructor; assumption|cbn [length]; lia].
Qed.
Lemma read_n_accept size : forall ls r', Forall (fun l => length l = size) ls ->
  read_n (length ls) size (concat ls ++ r') = Ok (ls, r').
Proof.
  induction ls as [|l ls IH]; intros r' F; cbn [length read_n concat app]; [reflexivity|].
  inversion F as [|? ? Hl Hls]; subst. rewrite <- app_assoc. rewrite (take_app' l (concat ls ++ r') (length l) eq_refl).
  cbn [rbind fst snd]. rewrite (IH r' Hls). reflexivity.
Qed.

Definition key_fits (k : enckey) : Prop := (ek_type k < 65536)%N /\ (ek_len k < 65536)%N /\ N.of_nat (length (ek_data k)) = ek_len k.
Lemma read_enc_keys_fits : forall k d ks r, wf d -> read_enc_keys k d = Ok (ks, r) -> Forall key_fits ks /\ length ks = k.
Proof.
  induction k as [|k IH]; intros d ks r W H; cbn [read_enc_keys] in H.
  - apply Ok_pair_inj in H. destruct H as [<- _]. split; [constructor|reflexivity].
  - destruct (length d <? 4)%nat eqn:E4; [discriminate|]. apply Nat.ltb_ge in E4.
    rewrite !slice_ok, slice_from_ok in H by lia. cbn [rbind] in H.
    change (2 - 0)%nat with 2%nat in H. change (4 - 2)%nat with 2%nat in H. change (skipn 0 d) with d in H.
    set (r0 := skipn 4 d) in *. set (kl := be_decode (firstn 2 (skipn 2 d))) in *.
    destruct (length r0 <? N.to_nat kl)%nat eqn:EK; [discriminate|]. apply Nat.ltb_ge in EK.
    rewrite slice_to_ok, slice_from_ok in H by lia. cbn [rbind] in H.
    destruct (read_enc_keys k (skipn (N.to_nat kl) r0)) as [[ks' r']| |] eqn:R; cbn [rbind fst snd] in H; try discriminate.
    apply Ok_pair_inj in H. destruct H as [<- _].
    assert (W0 : wf r0) by (apply wf_skipn, W).
    destruct (IH _ _ _ (wf_skipn _ _ W0) R) as [F L].
    split; [|cbn [length]; lia]. constructor; [|exact F].
    unfold key_fits. cbn [ek_type ek_len ek_data]. split; [|split].
    + pose proof (be_decode_bound (firstn 2 d) (wf_firstn 2 d W)) as B. rewrite firstn_length in B.
      replace (Nat.min 2 (length d)) with 2%nat in B by lia. exact B.
    + pose proof (be_decode_bound (firstn 2 (skipn 2 d)) (wf_firstn 2 _ (wf_skipn 2 d W))) as B. rewrite firstn_length, skipn_length in B.
      replace (Nat.min 2 (length d - 2)) with 2%nat in B by lia. exact B.
    + rewrite firstn_length. lia.
Qed.
Lemma read_enc_keys_accept : forall ks r', Forall key_fits ks ->
  read_enc_keys (length ks) (flat_map enckey_bytes ks ++ r') = Ok (ks, r').
Proof.
  induction ks as [|k ks IH]; intros r' F; [reflexivity|].
  inversion F as [|? ? [Ht [Hl Hd]] Hks]; subst.
  cbn [length flat_map]. rewrite <- app_assoc.
  remember (flat_map enckey_bytes ks ++ r') as rest eqn:ER.
  assert (EX : enckey_bytes k ++ rest = be_encode 2 (ek_type k) ++ be_encode 2 (ek_len k) ++ ek_data k ++ rest).
  { unfold enckey_bytes. rewrite <- !app_assoc. reflexivity. }
  rewrite EX. remember (be_encode 2 (ek_type k) ++ be_encode 2 (ek_len k) ++ ek_data k ++ rest) as x eqn:Ex.
  assert (Lx : (4 <= length x)%nat) by (rewrite Ex, !app_length, !be_encode_length; lia).
  assert (A1 : slice 0 2 x = Ok (be_encode 2 (ek_type k))) by (rewrite Ex; apply (slice_prefix (be_encode 2 (ek_type k)))).
  assert (A2 : slice 2 4 x = Ok (be_encode 2 (ek_len k))).
  { rewrite Ex. apply (slice_mid' (be_encode 2 (ek_type k))); rewrite !be_encode_length; reflexivity. }
  assert (A3 : slice_from 4 x = Ok (ek_data k ++ rest)).
  { rewrite Ex, app_assoc. apply slice_from_prefix'. rewrite app_length, !be_encode_length. reflexivity. }
  cbn [read_enc_keys].
  replace (length x <? 4)%nat with false by lia.
  rewrite A1, A2, A3. cbn [rbind].
  rewrite !be_decode_encode_small by (change (256 ^ N.of_nat 2)%N with 65536%N; lia).
  rewrite app_length. replace (length (ek_data k) + length rest <? N.to_nat (ek_len k))%nat with false by lia.
  rewrite (slice_to_prefix' (ek_data k) rest) by lia. rewrite (slice_from_prefix' (ek_data k) rest) by lia. cbn [rbind].
  rewrite ER, (IH r' Hks). cbn [rbind fst snd]. destruct k; reflexivity.
Qed.

(* ---- offline signature: replace the tail ---- *)
Lemma read_offline_retail d dt o r r' : wf d -> read_offline_signature d dt = Ok (o, r) ->
  d = off_bytes o ++ r /\ read_offline_signature (off_bytes o ++ r') dt = Ok (o, r').
Proof.
  intros W H. split; [symmetry; exact (read_offline_RoundTrip _ _ _ _ W H)|].
  destruct (read_offline_shape d dt o r H) as [ks [ss [L6 [K [S [Kp [Sp [LL [Eo _]]]]]]]]].
  assert (B4 : (be_decode (firstn 4 d) < 2 ^ 32)%N).
  { pose proof (be_decode_bound (firstn 4 d) (wf_firstn 4 d W)) as B. rewrite firstn_length in B.
    replace (Nat.min 4 (length d)) with 4%nat in B by lia. exact B. }
  assert (B2 : (be_decode (firstn 2 (skipn 4 d)) < 65536)%N).
  { pose proof (be_decode_bound (firstn 2 (skipn 4 d)) (wf_firstn 2 _ (wf_skipn 4 d W))) as B. rewrite firstn_length, skipn_length in B.
    replace (Nat.min 2 (length d - 4)) with 2%nat in B by lia. exact B. }
  assert (OB : off_bytes o = spec_offline (o_expires o) (o_sigtype o) (o_key o) (o_sig o)).
  { unfold off_bytes, spec_offline, u32, u16. rewrite <- ?app_assoc. reflexivity. }
  rewrite OB, Eo. cbn [o_expires o_sigtype o_key o_sig].
  apply (spec_offline_accepted (be_decode (firstn 4 d)) (be_decode (firstn 2 (skipn 4 d))) (firstn ks (skipn 6 d))
           (firstn ss (skipn (6 + ks) d)) dt r' B4 B2).
  - rewrite K. lia.
  - rewrite K, firstn_length, skipn_length. lia.
  - rewrite S. lia.
  - rewrite S, firstn_length, skipn_length. lia.
Qed.

(* ---- the LeaseSet2 / MetaLeaseSet header ---- *)
Lemma read_ls2_header_retail minsize x dest pub ex flags off opts r2 : wf x ->
  read_ls2_header minsize x = Ok (dest, pub, ex, flags, off, opts, r2) ->
  exists hb, x = hb ++ r2 /\
    forall t', wf t' -> minsize <= Z.of_nat (length (hb ++ t')) ->
      exists dest', read_ls2_header minsize (hb ++ t') = Ok (dest', pub, ex, flags, off, opts, t') /\
                    kac_bytes dest' = kac_bytes dest /\ kc_signing_type (k_kc dest') = kc_signing_type (k_kc dest).
Proof.
  intros W. unfold read_ls2_header at 1.
  destruct (Z.of_nat (length x) <? minsize); [discriminate|].
  destruct (read_destination x) as [[dst r0]| |] eqn:RD; cbn [rbind fst snd]; try discriminate.
  destruct (read_destination_RoundTrip _ _ _ W RD) as [db0 [KB0 Ed0]].
  assert (W0 : wf r0) by (rewrite <- Ed0 in W; apply wf_app in W; tauto).
  destruct (length r0 <? 8)%nat eqn:E8; [discriminate|]. apply Nat.ltb_ge in E8.
  (* r0 = h8 ++ r1 *)
  set (h8 := firstn 8 r0). set (r1 := skipn 8 r0).
  assert (ER0 : r0 = h8 ++ r1) by (symmetry; apply firstn_skipn).
  assert (L8 : length h8 = 8%nat) by (unfold h8; rewrite firstn_length; lia).
  assert (W1 : wf r1) by (apply wf_skipn, W0).
  assert (Wh : wf h8) by (apply wf_firstn, W0).
  rewrite ER0. rewrite !(slice_app _ _ h8 r1) by lia.
  rewrite (slice_from_prefix' h8 r1 8) by lia. cbn [rbind].
  destruct (slice 0 4 h8) as [pb| |] eqn:S1; cbn [rbind]; try discriminate.
  destruct (slice 4 6 h8) as [eb| |] eqn:S2; cbn [rbind]; try discriminate.
  destruct (slice 6 8 h8) as [fb| |] eqn:S3; cbn [rbind]; try discriminate.
  set (dt := Z.to_N (kc_signing_type (k_kc dst) mod 65536)).
  match goal with |- (do orr <- ?e; _) = _ -> _ => destruct e as [[oo r1']| |] eqn:EO; cbn [rbind fst snd]; try discriminate end.
  (* the offline block, with any tail *)
  assert (OFF : exists ob, r1 = ob ++ r1' /\ forall t, (if has_offline (be_decode fb)
                  then do x0 <- read_offline_signature (ob ++ t) dt; Ok (Some (fst x0), snd x0)
                  else Ok (None, ob ++ t)) = Ok (oo, t)).
  { revert EO. destruct (has_offline (be_decode fb)).
    - destruct (read_offline_signature r1 dt) as [[o r3']| |] eqn:RO; cbn [rbind fst snd]; try discriminate.
      intros H. apply Ok_pair_inj in H. destruct H as [<- <-].
      exists (off_bytes o). split; [exact (proj1 (read_offline_retail _ _ _ _ [] W1 RO))|].
      intros t. rewrite (proj2 (read_offline_retail _ _ _ _ t W1 RO)). reflexivity.
    - intros H. apply Ok_pair_inj in H. destruct H as [<- <-]. exists []. split; [reflexivity|]. intros t. reflexivity. }
  destruct OFF as [ob [ER1 OFF]].
  assert (W1' : wf r1') by (rewrite ER1 in W1; apply wf_app in W1; tauto).
  destruct (read_mapping r1') as [[[m rr] errs]|] eqn:RM; [|discriminate].
  destruct (embedded_mapping_ok errs) eqn:EM; cbn [negb]; [|discriminate].
  intros H. apply Ok_inj in H.
  repeat (let H2 := fresh "HH" in apply pair_equal_spec in H; destruct H as [H H2]).
  subst dest pub ex flags off opts r2.
  assert (FE : fatal_errors errs = []).
  { unfold embedded_mapping_ok in EM. apply Nat.eqb_eq in EM. destruct (fatal_errors errs); [reflexivity|discriminate]. }
  destruct (read_mapping_inv _ _ _ _ RM FE) as [slack [Eb _]].
  set (mb := firstn 2 r1' ++ serialize_pairs (map_values m) ++ slack).
  assert (EM1 : r1' = mb ++ rr) by (unfold mb; rewrite <- !app_assoc; exact Eb).
  destruct (read_destination_retail x dst r0 [] W RD) as [db [_ [KB [Ex _]]]].
  exists (db ++ h8 ++ ob ++ mb). split.
  { rewrite Ex, ER0, ER1, EM1, <- !app_assoc. reflexivity. }
  intros t' Wt' MS.
  destruct (read_destination_retail x dst r0 (h8 ++ ob ++ mb ++ t') W RD) as [db2 [dest' [KB2 [_ [RD' [KB' [T2 T1]]]]]]].
  assert (db2 = db) by congruence. subst db2.
  exists dest'. split; [|split; [rewrite KB', KB; reflexivity|exact T2]].
  unfold read_ls2_header. rewrite <- !app_assoc.
  replace (Z.of_nat (length (db ++ h8 ++ ob ++ mb ++ t')) <? minsize) with false by (rewrite <- !app_assoc in MS; lia).
  rewrite RD'. cbn [rbind fst snd].
  replace (length (h8 ++ ob ++ mb ++ t') <? 8)%nat with false by (rewrite app_length; lia).
  rewrite !(slice_app _ _ h8 (ob ++ mb ++ t')) by lia.
  rewrite (slice_from_prefix' h8 (ob ++ mb ++ t') 8) by lia. rewrite S1, S2, S3. cbn [rbind].
  replace (Z.to_N (kc_signing_type (k_kc dest') mod 65536)) with dt by (unfold dt; rewrite T2; reflexivity).
  match goal with |- (do orr <- ?e; _) = _ => let E := fresh "E" in assert (E : e = Ok (oo, mb ++ t')) by (exact (OFF (mb ++ t'))); rewrite E end.
  cbn [rbind fst snd].
  assert (Wm : wf (mb ++ rr)) by (rewrite <- EM1; exact W1').
  rewrite EM1 in RM.
  destruct (read_mapping_retail mb rr t' m errs Wm RM FE) as [e' [RM' FE']].
  rewrite RM'. unfold embedded_mapping_ok. rewrite FE'. reflexivity.
Qed.

(* ---- signature ---- *)
Lemma read_signature_retail d t sg r r' : read_signature d t = Ok (sg, r) ->
  d = sig_bytes sg ++ r /\ read_signature (sig_bytes sg ++ r') t = Ok (sg, r').
Proof.
  intros H. pose proof (read_signature_RoundTrip _ _ _ _ H) as [sb [SB D]]. injection SB as <-.
  split; [symmetry; exact D|].
  revert H. unfold read_signature. destruct (sig_length t) as [n|] eqn:SL; [|discriminate].
  pose proof (sig_length_bounds _ _ SL) as B.
  destruct (Z.of_nat (length d) <? n) eqn:E; [discriminate|].
  rewrite slice_to_ok, slice_from_ok by lia. cbn [rbind]. intros H. apply Ok_pair_inj in H. destruct H as [<- _].
  unfold sig_bytes. cbn [s_data].
  assert (L : length (firstn (Z.to_nat n) d) = Z.to_nat n) by (rewrite firstn_length; lia).
  rewrite app_length, L. replace (Z.of_nat (Z.to_nat n + length r') <? n) with false by lia.
  rewrite (slice_to_prefix' (firstn (Z.to_nat n) d) r') by lia. rewrite (slice_from_prefix' (firstn (Z.to_nat n) d) r') by lia. reflexivity.
Qed.

Lemma index0_cons (v : N) (z : bytes) : index 0 (v :: z) = Ok v.
Proof. reflexivity. Qed.
Lemma slice_from1_cons (v : N) (z : bytes) : slice_from 1 (v :: z) = Ok z.
Proof. apply (slice_from_prefix' [v] z 1). reflexivity. Qed.
Lemma length_cons_lt1 (v : N) (z : bytes) : (length (v :: z) <? 1)%nat = false.
Proof. reflexivity. Qed.

(* ---- LeaseSet2: replace the tail ---- *)
Theorem read_lease_set2_retail x l r r' : wf x -> wf r' -> read_lease_set2 x = Ok (l, r) ->
  exists c, x = c ++ r /\
    (c_lease_set2_LEASESET2_MIN_SIZE <= Z.of_nat (length (c ++ r')) ->
     exists l', read_lease_set2 (c ++ r') = Ok (l', r') /\ lease_set2_bytes l' = lease_set2_bytes l).
Proof.
  intros W Wr'. unfold read_lease_set2 at 1.
  destruct (read_ls2_header c_lease_set2_LEASESET2_MIN_SIZE x) as [[[[[[[dest pub] ex] flags] off] opts] r2]| |] eqn:RH; cbn [rbind]; try discriminate.
  destruct (read_ls2_header_retail _ _ _ _ _ _ _ _ _ W RH) as [hb [Ex HR]].
  assert (W2 : wf r2) by (rewrite Ex in W; apply wf_app in W; tauto).
  destruct (length r2 <? 1)%nat eqn:E1; [discriminate|]. apply Nat.ltb_ge in E1.
  destruct (index 0 r2) as [nk| |] eqn:IX; cbn [rbind]; try discriminate.
  rewrite slice_from_ok by lia. cbn [rbind].
  destruct ((Z.of_N nk <? 1) || (Z.of_N nk >? c_lease_set2_LEASESET2_MAX_ENCRYPTION_KEYS))%bool eqn:NKB; [discriminate|].
  destruct (read_enc_keys (N.to_nat nk) (skipn 1 r2)) as [[ks r4]| |] eqn:RK; cbn [rbind fst snd]; try discriminate.
  destruct (read_enc_keys_RT _ _ _ _ (wf_skipn 1 _ W2) RK) as [EK [LK W4]].
  destruct (read_enc_keys_fits _ _ _ _ (wf_skipn 1 _ W2) RK) as [FK _].
  destruct (length r4 <? 1)%nat eqn:E4; [discriminate|]. apply Nat.ltb_ge in E4.
  destruct (index 0 r4) as [nl| |] eqn:IX4; cbn [rbind]; try discriminate.
  rewrite slice_from_ok by lia. cbn [rbind].
  destruct (Z.of_N nl >? c_lease_set2_LEASESET2_MAX_LEASES) eqn:NLB; [discriminate|].
  destruct (read_n (N.to_nat nl) LEASE2_SIZE (skipn 1 r4)) as [[ls r6]| |] eqn:RN; cbn [rbind fst snd]; try discriminate.
  destruct (read_n_RT _ _ _ _ _ RN) as [EN LN].
  destruct (read_n_lengths _ _ _ _ _ RN) as [FL _].
  destruct (read_signature r6 (final_sig_type dest flags off)) as [[sg r7]| |] eqn:RS; cbn [rbind fst snd]; try discriminate.
  intros H. apply Ok_pair_inj in H. destruct H as [<- <-].
  destruct (read_signature_retail _ _ _ _ r' RS) as [E6 RS'].
  (* the consumed bytes after the header *)
  set (body := [nk] ++ flat_map enckey_bytes ks ++ [nl] ++ concat ls ++ sig_bytes sg).
  assert (ER2 : r2 = body ++ r7).
  { unfold body. rewrite <- !app_assoc. rewrite (index0_split _ _ IX) at 1. cbn [app]. f_equal. rewrite <- EK. f_equal.
    rewrite (index0_split _ _ IX4) at 1. cbn [app]. f_equal. rewrite <- EN. f_equal. exact E6. }
  exists (hb ++ body). split; [rewrite Ex, ER2, <- app_assoc; reflexivity|].
  intros MS.
  assert (Wt : wf (body ++ r')).
  { rewrite ER2 in W2. apply wf_app in W2. destruct W2 as [Wb _]. apply wf_app. split; assumption. }
  rewrite <- app_assoc in MS. rewrite <- app_assoc.
  destruct (HR (body ++ r') Wt MS) as [dest' [RH' [KB' T']]].
  exists (mkLS2 dest' pub ex flags off opts ks ls sg). split.
  - unfold read_lease_set2. rewrite RH'. cbn [rbind].
    unfold body. rewrite <- !app_assoc. cbn [app].
    rewrite length_cons_lt1, index0_cons. cbn [rbind]. rewrite slice_from1_cons. cbn [rbind]. rewrite NKB.
    rewrite <- LK. rewrite (read_enc_keys_accept ks _ FK). cbn [rbind fst snd].
    rewrite length_cons_lt1, index0_cons. cbn [rbind]. rewrite slice_from1_cons. cbn [rbind]. rewrite NLB.
    rewrite <- LN. rewrite (read_n_accept LEASE2_SIZE ls _ FL). cbn [rbind fst snd].
    replace (final_sig_type dest' flags off) with (final_sig_type dest flags off) by (unfold final_sig_type; rewrite T'; reflexivity).
    rewrite RS'. reflexivity.
  - unfold lease_set2_bytes, lease_set2_content, dest_bytes.
    cbn [l2_dest l2_published l2_expires l2_flags l2_offline l2_options l2_keys l2_leases l2_sig]. rewrite KB'. reflexivity.
Qed.

(* C14 for a parsed LeaseSet2: when its serialisation reproduces the consumed bytes (no mapping
   slack: the round trip of C01 holds for this input) and is not shorter than the reader's
   whole-input minimum (finding D6), Bytes() parses back, with an empty remainder, to a value
   with the same serialisation *)
Theorem read_lease_set2_reparse x l r b : wf x -> read_lease_set2 x = Ok (l, r) ->
  lease_set2_bytes l = Ok b -> b ++ r = x -> c_lease_set2_LEASESET2_MIN_SIZE <= Z.of_nat (length b) ->
  exists l', read_lease_set2 b = Ok (l', []) /\ lease_set2_bytes l' = Ok b.
Proof.
  intros W H B E MS. destruct (read_lease_set2_retail x l r [] W (Forall_nil _) H) as [c [Ex K]].
  assert (c = b).
  { rewrite <- E in Ex. apply (f_equal (@rev _)) in Ex. rewrite !rev_app_distr in Ex. apply app_inv_head in Ex.
    apply (f_equal (@rev _)) in Ex. rewrite !rev_involutive in Ex. symmetry. exact Ex. }
  subst c. rewrite app_nil_r in K. destruct (K MS) as [l' [R' B']]. exists l'. split; [exact R'|rewrite B'; exact B].
Qed.

(* ---- MetaLeaseSet: replace the tail ---- *)
Lemma read_meta_entries_retail : forall k d el r, wf d -> read_meta_entries k d = Ok (el, r) ->
  exists eb, d = eb ++ r /\ wf r /\ forall t', wf t' -> read_meta_entries k (eb ++ t') = Ok (el, t').
Proof.
  induction k as [|k IH]; intros d el r W H; cbn [read_meta_entries] in H.
  - apply Ok_pair_inj in H. destruct H as [<- <-]. exists []. split; [reflexivity|]. split; [exact W|]. intros t' _. reflexivity.
  - change ME_MIN with 40%nat in H.
    destruct (length d <? 40)%nat eqn:E40; [discriminate|]. apply Nat.ltb_ge in E40.
    set (h38 := firstn 38 d) in *. set (r38 := skipn 38 d) in *.
    assert (ED : d = h38 ++ r38) by (symmetry; apply firstn_skipn).
    assert (L38 : length h38 = 38%nat) by (unfold h38; rewrite firstn_length; lia).
    assert (W38 : wf r38) by (apply wf_skipn, W).
    rewrite ED in H. rewrite !(slice_app _ _ h38 r38) in H by lia. rewrite !(index_app _ h38 r38) in H by lia.
    rewrite (slice_from_prefix' h38 r38 38) in H by lia.
    destruct (slice 0 32 h38) as [hh| |] eqn:S1; cbn [rbind] in H; try discriminate.
    destruct (index 32 h38) as [t| |] eqn:I1; cbn [rbind] in H; try discriminate.
    destruct (slice 33 37 h38) as [e| |] eqn:S2; cbn [rbind] in H; try discriminate.
    destruct (index 37 h38) as [cst| |] eqn:I2; cbn [rbind] in H; try discriminate.
    destruct (negb (meta_entry_type_valid (Z.of_N t))) eqn:TV; [discriminate|].
    destruct (read_mapping r38) as [[[m rr] errs]|] eqn:RM; [|discriminate].
    destruct (embedded_mapping_ok errs) eqn:EM; cbn [negb] in H; [|discriminate].
    assert (FE : fatal_errors errs = []).
    { unfold embedded_mapping_ok in EM. apply Nat.eqb_eq in EM. destruct (fatal_errors errs); [reflexivity|discriminate]. }
    destruct (read_mapping_inv _ _ _ _ RM FE) as [slack [Eb [_ [Lf _]]]].
    set (mb := firstn 2 r38 ++ serialize_pairs (map_values m) ++ slack) in *.
    assert (EM1 : r38 = mb ++ rr) by (unfold mb; rewrite <- !app_assoc; exact Eb).
    assert (Wrr : wf rr) by (rewrite EM1 in W38; apply wf_app in W38; tauto).
    assert (Lmb : (2 <= length mb)%nat) by (unfold mb; rewrite app_length; lia).
    destruct (read_meta_entries k rr) as [[el' r']| |] eqn:RR; cbn [rbind fst snd] in H; try discriminate.
    apply Ok_pair_inj in H. destruct H as [<- <-].
    destruct (IH _ _ _ Wrr RR) as [eb2 [E2 [Wr2 K2]]].
    exists (h38 ++ mb ++ eb2). split; [rewrite ED, EM1, E2, <- !app_assoc; reflexivity|]. split; [exact Wr2|].
    intros t' Wt'. cbn [read_meta_entries]. change ME_MIN with 40%nat. rewrite <- !app_assoc.
    replace (length (h38 ++ mb ++ eb2 ++ t') <? 40)%nat with false by (rewrite !app_length; lia).
    rewrite !(slice_app _ _ h38 (mb ++ eb2 ++ t')) by lia. rewrite !(index_app _ h38 (mb ++ eb2 ++ t')) by lia.
    rewrite (slice_from_prefix' h38 (mb ++ eb2 ++ t') 38) by lia. rewrite S1, I1, S2, I2. cbn [rbind]. rewrite TV.
    assert (Wm : wf (mb ++ rr)) by (rewrite <- EM1; exact W38).
    rewrite EM1 in RM.
    destruct (read_mapping_retail mb rr (eb2 ++ t') m errs Wm RM FE) as [e' [RM' FE']].
    rewrite RM'. unfold embedded_mapping_ok. rewrite FE'. cbn [Nat.eqb length negb].
    rewrite (K2 t' Wt'). reflexivity.
Qed.

Theorem read_meta_lease_set_retail x l r r' : wf x -> wf r' -> read_meta_lease_set x = Ok (l, r) ->
  exists c, x = c ++ r /\
    (c_meta_leaseset_META_LEASESET_MIN_SIZE <= Z.of_nat (length (c ++ r')) ->
     exists l', read_meta_lease_set (c ++ r') = Ok (l', r') /\ meta_lease_set_bytes l' = meta_lease_set_bytes l).
Proof.
  intros W Wr'. unfold read_meta_lease_set at 1.
  destruct (read_ls2_header c_meta_leaseset_META_LEASESET_MIN_SIZE x) as [[[[[[[dest pub] ex] flags] off] opts] r2]| |] eqn:RH; cbn [rbind]; try discriminate.
  destruct (read_ls2_header_retail _ _ _ _ _ _ _ _ _ W RH) as [hb [Ex HR]].
  assert (W2 : wf r2) by (rewrite Ex in W; apply wf_app in W; tauto).
  destruct (length r2 <? 1)%nat eqn:E1; [discriminate|]. apply Nat.ltb_ge in E1.
  destruct (index 0 r2) as [ne| |] eqn:IX; cbn [rbind]; try discriminate.
  rewrite slice_from_ok by lia. cbn [rbind].
  destruct ((Z.of_N ne <? _) || (Z.of_N ne >? _))%bool eqn:NEB; [discriminate|].
  destruct (read_meta_entries (N.to_nat ne) (skipn 1 r2)) as [[el r3]| |] eqn:RE; cbn [rbind fst snd]; try discriminate.
  destruct (read_meta_entries_retail _ _ _ _ (wf_skipn 1 _ W2) RE) as [eb [Ee [W3 KE]]].
  destruct (read_signature r3 (final_sig_type dest flags off)) as [[sg r4]| |] eqn:RS; cbn [rbind fst snd]; try discriminate.
  intros H. apply Ok_pair_inj in H. destruct H as [<- <-].
  destruct (read_signature_retail _ _ _ _ r' RS) as [E6 RS'].
  set (body := [ne] ++ eb ++ sig_bytes sg).
  assert (ER2 : r2 = body ++ r4).
  { unfold body. rewrite <- !app_assoc. rewrite (index0_split _ _ IX) at 1. cbn [app]. f_equal. rewrite Ee. f_equal. exact E6. }
  exists (hb ++ body). split; [rewrite Ex, ER2, <- app_assoc; reflexivity|].
  intros MS.
  assert (Wt : wf (body ++ r')).
  { rewrite ER2 in W2. apply wf_app in W2. destruct W2 as [Wb _]. apply wf_app. split; assumption. }
  rewrite <- app_assoc in MS. rewrite <- app_assoc.
  destruct (HR (body ++ r') Wt MS) as [dest' [RH' [KB' T']]].
  exists (mkMLS dest' pub ex flags off opts ne el sg). split.
  - unfold read_meta_lease_set. rewrite RH'. cbn [rbind].
    unfold body. rewrite <- !app_assoc. cbn [app].
    rewrite length_cons_lt1, index0_cons. cbn [rbind]. rewrite slice_from1_cons. cbn [rbind]. rewrite NEB.
    assert (Ws : wf (sig_bytes sg ++ r')).
    { apply wf_app. split; [|exact Wr']. rewrite E6 in W3. apply wf_app in W3. tauto. }
    rewrite (KE (sig_bytes sg ++ r') Ws). cbn [rbind fst snd].
    replace (final_sig_type dest' flags off) with (final_sig_type dest flags off) by (unfold final_sig_type; rewrite T'; reflexivity).
    rewrite RS'. reflexivity.
  - unfold meta_lease_set_bytes, meta_lease_set_content.
    cbn [ml_dest ml_published ml_expires ml_flags ml_offline ml_options ml_num ml_entries ml_sig]. rewrite KB'. reflexivity.
Qed.

Theorem read_meta_lease_set_reparse x l r b : wf x -> read_meta_lease_set x = Ok (l, r) ->
  meta_lease_set_bytes l = Ok b -> b ++ r = x -> c_meta_leaseset_META_LEASESET_MIN_SIZE <= Z.of_nat (length b) ->
  exists l', read_meta_lease_set b = Ok (l', []) /\ meta_lease_set_bytes l' = Ok b.
Proof.
  intros W H B E MS. destruct (read_meta_lease_set_retail x l r [] W (Forall_nil _) H) as [c [Ex K]].
  assert (c = b).
  { rewrite <- E in Ex. apply (f_equal (@rev _)) in Ex. rewrite !rev_app_distr in Ex. apply app_inv_head in Ex.
    apply (f_equal (@rev _)) in Ex. rewrite !rev_involutive in Ex. symmetry. exact Ex. }
  subst c. rewrite app_nil_r in K. destruct (K MS) as [l' [R' B']]. exists l'. split; [exact R'|rewrite B'; exact B].
Qed.

(* ---- RouterAddress ---- *)
Theorem read_router_address_retail d a r : wf d -> read_router_address d = Ok (a, r) ->
  exists c, d = c ++ r /\ wf r /\ (12 <= length c)%nat /\ forall t', wf t' -> read_router_address (c ++ t') = Ok (a, t').
Proof.
  intros W. unfold read_router_address at 1. change c_router_address_ROUTER_ADDRESS_MIN_SIZE with 12.
  destruct (length d =? 0)%nat eqn:L0; [discriminate|].
  destruct (Z.of_nat (length d) <? 12) eqn:L12; [discriminate|].
  destruct (read_integer d 1) as [[ci r0]| |] eqn:RI; cbn [rbind fst snd]; try discriminate.
  destruct (read_integer_spec _ _ _ _ RI ltac:(lia)) as [_ B]. destruct (B ltac:(lia)) as [E0 Lci].
  destruct (read_date r0) as [[dt r1]| |] eqn:RD; cbn [rbind fst snd]; try discriminate.
  destruct (read_date_frame _ _ _ RD) as [E1 Ldt].
  destruct (read_i2pstring r1) as [[st r2]| |] eqn:RS; cbn [rbind fst snd]; try discriminate.
  destruct (read_i2pstring_valid _ _ _ RS) as [SV E2].
  assert (W2 : wf r2).
  { rewrite E0, E1, E2 in W. repeat (apply wf_app in W; destruct W as [_ W]). exact W. }
  destruct (read_mapping r2) as [[[m rr] errs]|] eqn:RM; [|discriminate].
  destruct (embedded_mapping_ok errs) eqn:EM; [|discriminate].
  intros H. apply Ok_pair_inj in H. destruct H as [<- <-].
  assert (FE : fatal_errors errs = []).
  { unfold embedded_mapping_ok in EM. apply Nat.eqb_eq in EM. destruct (fatal_errors errs); [reflexivity|discriminate]. }
  destruct (read_mapping_inv _ _ _ _ RM FE) as [slack [Eb [_ [Lf _]]]].
  set (mb := firstn 2 r2 ++ serialize_pairs (map_values m) ++ slack) in *.
  assert (EM1 : r2 = mb ++ rr) by (unfold mb; rewrite <- !app_assoc; exact Eb).
  assert (Wrr : wf rr) by (rewrite EM1 in W2; apply wf_app in W2; tauto).
  assert (Lmb : (2 <= length mb)%nat) by (unfold mb; rewrite app_length; lia).
  assert (Lst : (1 <= length st)%nat) by (destruct st; [discriminate|cbn [length]; lia]).
  exists (ci ++ dt ++ st ++ mb). split; [rewrite E0, E1, E2, EM1, <- !app_assoc; reflexivity|]. split; [exact Wrr|].
  split; [rewrite !app_length; lia|].
  intros t' Wt'. unfold read_router_address. change c_router_address_ROUTER_ADDRESS_MIN_SIZE with 12.
  rewrite <- !app_assoc.
  assert (LL : (12 <= length (ci ++ dt ++ st ++ mb ++ t'))%nat) by (rewrite !app_length; lia).
  replace (length (ci ++ dt ++ st ++ mb ++ t') =? 0)%nat with false by lia.
  replace (Z.of_nat (length (ci ++ dt ++ st ++ mb ++ t')) <? 12) with false by lia.
  unfold read_integer. rewrite MAXI_8. change ((1 <=? 0) || (1 >? 8))%bool with false. cbv iota.
  replace (Z.of_nat (length (ci ++ dt ++ st ++ mb ++ t')) <? 1) with false by lia.
  rewrite (slice_to_prefix' ci (dt ++ st ++ mb ++ t')) by lia. rewrite (slice_from_prefix' ci (dt ++ st ++ mb ++ t')) by lia.
  cbn [rbind fst snd]. unfold read_date. rewrite (take_app' dt (st ++ mb ++ t') DATE_SIZE) by (rewrite Ldt; reflexivity).
  cbn [rbind fst snd]. rewrite (read_i2pstring_app st (mb ++ t') SV). cbn [rbind fst snd].
  assert (Wm : wf (mb ++ rr)) by (rewrite <- EM1; exact W2).
  rewrite EM1 in RM.
  destruct (read_mapping_retail mb rr t' m errs Wm RM FE) as [e' [RM' FE']].
  rewrite RM'. unfold embedded_mapping_ok. rewrite FE'. reflexivity.
Qed.

(* ---- RouterInfo ---- *)
(* the type of the trailing signature as ReadRouterInfo derives it from the identity's certificate *)
Definition ri_sig_type (k : kac) : res Z :=
  let c := dest_cert k in
  do t <- cert_type c; do _d <- cert_data c;
  if t =? c_certificate_CERT_KEY then cert_sig_type c else Ok c_signature_SIGNATURE_TYPE_DSA_SHA1.

Lemma cert_data_of_read x c r : wf x -> read_certificate x = Ok (c, r) -> exists d, cert_data c = Ok d.
Proof.
  intros W H. destruct (cert_spec_form x c r W H) as [t [p [Ht [Hp [Ex [K [LI [PF CB]]]]]]]].
  destruct (read_certificate_shape _ _ _ W H) as [L3 [Ec [B _]]].
  unfold cert_data, cert_length_field.
  assert (V : cert_is_valid c = true) by (rewrite Ec; apply cert_valid_mk; lia). rewrite V.
  change c_certificate_CERT_EMPTY_PAYLOAD_SIZE with 0. change c_certificate_CERT_MAX_PAYLOAD_SIZE with 65535.
  unfold nlen in Hp. replace ((cert_len_int c <? 0) || (cert_len_int c >? 65535))%bool with false by lia. cbn [rbind].
  assert (PL : (length p <= length (c_payload c))%nat) by (rewrite Ec; cbn [c_payload]; rewrite skipn_length; lia).
  replace (cert_len_int c >? Z.of_nat (length (c_payload c))) with false by lia.
  rewrite slice_ok by lia. eauto.
Qed.

Lemma keycert_cert_facts x kc r : wf x -> new_key_certificate x = Ok (kc, r) ->
  cert_type (kc_cert kc) = Ok 5 /\ (exists d, cert_data (kc_cert kc) = Ok d) /\ cert_sig_type (kc_cert kc) = Ok (kc_signing_type kc).
Proof.
  intros W. unfold new_key_certificate.
  destruct (read_certificate x) as [[c r0]| |] eqn:RC; cbn [rbind fst snd]; try discriminate.
  destruct (keycert_from_cert c) as [k0| |] eqn:KC; cbn [rbind]; try discriminate.
  intros H. apply Ok_pair_inj in H. destruct H as [<- <-].
  destruct (read_certificate_shape _ _ _ W RC) as [L3 [Ec _]].
  assert (Wp : wf (c_payload c)) by (rewrite Ec; cbn [c_payload]; apply wf_skipn, W).
  revert KC. unfold keycert_from_cert.
  destruct (cert_type c) as [ty| |] eqn:CT; cbn [rbind]; try discriminate.
  destruct (ty =? c_certificate_CERT_KEY) eqn:TK; cbn [negb]; [|discriminate].
  assert (ty = 5) by (change c_certificate_CERT_KEY with 5 in TK; lia). subst ty.
  destruct (cert_data c) as [d| |] eqn:CD; cbn [rbind]; try discriminate.
  destruct (length d <? 4)%nat eqn:E4; [discriminate|]. apply Nat.ltb_ge in E4.
  rewrite !slice_ok by lia. cbn [rbind]. change (2 - 0)%nat with 2%nat. change (skipn 0 d) with d.
  intros H. apply Ok_inj in H. subst k0. cbn [kc_cert]. split; [exact CT|]. split; [eauto|].
  (* d is a prefix of the payload *)
  assert (PD : d = firstn (length d) (c_payload c)).
  { revert CD. unfold cert_data. destruct (cert_length_field c) as [l| |]; cbn [rbind]; try discriminate.
    destruct (l >? Z.of_nat (length (c_payload c))) eqn:EL.
    - intros H. apply Ok_inj in H. subst d. rewrite firstn_all. reflexivity.
    - destruct (Z_lt_le_dec l 0) as [N|N].
      + replace (Z.to_nat l) with 0%nat by lia. unfold slice. cbn. intros H. apply Ok_inj in H. subst d. reflexivity.
      + rewrite slice_ok by lia. cbn [skipn]. rewrite Nat.sub_0_r. intros H. apply Ok_inj in H. subst d.
        rewrite firstn_length. replace (Nat.min (Z.to_nat l) (length (c_payload c))) with (Z.to_nat l) by lia. reflexivity. }
  assert (LP : (length d <= length (c_payload c))%nat).
  { rewrite PD at 1. rewrite firstn_length. lia. }
  unfold cert_sig_type, cert_key_type_at. rewrite CT. cbn [rbind]. change (5 =? c_certificate_CERT_KEY) with true. cbn [negb].
  change c_certificate_CERT_MIN_KEY_PAYLOAD_SIZE with 4.
  replace (Z.of_nat (length (c_payload c)) <? 4) with false by lia.
  change (Z.to_nat c_certificate_CERT_KEY_SIG_TYPE_OFFSET) with 0%nat. rewrite slice_ok by lia. cbn [rbind skipn]. change (0 + 2 - 0)%nat with 2%nat.
  assert (F2 : firstn 2 (c_payload c) = firstn 2 d).
  { rewrite PD. rewrite firstn_firstn. replace (Nat.min 2 (length d)) with 2%nat by lia. reflexivity. }
  rewrite F2. unfold kc_signing_type. cbn [kc_spk].
  assert (L2 : length (firstn 2 d) = 2%nat) by (rewrite firstn_length; lia).
  assert (W2 : wf (firstn 2 d)) by (rewrite <- F2; apply wf_firstn, Wp).
  destruct (integer_int_2bytes _ L2 W2) as [I _]. rewrite I. reflexivity.
Qed.

Lemma ri_sig_type_parsed x k r : wf x -> read_keys_and_cert x = Ok (k, r) ->
  ri_sig_type k = Ok (if Z.of_N (nth 384 x 0%N) =? 5 then kc_signing_type (k_kc k) else 0).
Proof.
  intros W. unfold read_keys_and_cert. change KAC_MIN with 387. change (Z.to_nat KAC_DATA) with 384%nat.
  destruct (Z.of_nat (length x) <? 387) eqn:E; [discriminate|].
  assert (L : (387 <= length x)%nat) by lia.
  destruct (index 384 x) as [ct| |] eqn:IX; cbn [rbind]; try discriminate.
  assert (NT : nth 384 x 0%N = ct).
  { revert IX. unfold index. destruct (nth_error x 384) as [v|] eqn:NE; [|discriminate]. intros H. apply Ok_inj in H. subst v.
    apply nth_error_nth. exact NE. }
  rewrite NT. rewrite slice_from_ok by lia. cbn [rbind].
  assert (Ws : wf (skipn 384 x)) by (apply wf_skipn, W).
  assert (L4 : (384 <= length x)%nat) by lia.
  change c_certificate_CERT_KEY with 5. change c_certificate_CERT_NULL with 0.
  destruct (Z.of_N ct =? 5) eqn:CK.
  - destruct (new_key_certificate (skipn 384 x)) as [[kc rem]| |] eqn:NK; cbn [rbind fst snd]; try discriminate.
    intros H. destruct (kac_from_keycert_inv _ _ _ _ _ L4 H) as [cl [sl [_ [_ [_ [_ [_ [_ [_ ->]]]]]]]]].
    destruct (keycert_cert_facts _ _ _ Ws NK) as [CT [[d CD] CS]].
    unfold ri_sig_type, dest_cert, kac_of. cbn [k_kc]. rewrite CT, CD. cbn [rbind]. change (5 =? c_certificate_CERT_KEY) with true. cbv iota. exact CS.
  - destruct (Z.of_N ct =? 0) eqn:CN; [|discriminate].
    destruct (read_certificate (skipn 384 x)) as [[c rem]| |] eqn:RC; cbn [rbind fst snd]; try discriminate.
    intros H. destruct (kac_from_keycert_inv _ _ _ _ _ L4 H) as [cl [sl [_ [_ [_ [_ [_ [_ [_ ->]]]]]]]]].
    destruct (cert_data_of_read _ _ _ Ws RC) as [d CD].
    destruct (read_certificate_shape _ _ _ Ws RC) as [L3 [Ec _]].
    assert (CT : cert_type c = Ok 0).
    { unfold cert_type. assert (V : cert_is_valid c = true) by (rewrite Ec; apply cert_valid_mk; lia). rewrite V.
      assert (KI : cert_kind_int c = 0).
      { unfold cert_kind_int. rewrite Ec. cbn [c_kind].
        assert (F1 : firstn 1 (skipn 384 x) = [ct]).
        { revert IX. unfold index. rewrite <- (firstn_skipn 384 x) at 1. rewrite nth_error_app2 by (rewrite firstn_length; lia).
          rewrite firstn_length. replace (384 - Nat.min 384 (length x))%nat with 0%nat by lia.
          destruct (skipn 384 x) as [|h z]; cbn [nth_error]; [discriminate|]. intros HH. apply Ok_inj in HH. subst h. reflexivity. }
        rewrite F1. unfold integer_int. rewrite int_from_bytes_le8 by (cbn; lia). cbn [be_decode fold_left].
        assert (ct < 256)%N by (rewrite <- NT; clear -W L; revert L; generalize 384%nat; induction W; intros [|n] Ln; cbn [nth length] in *; try lia; auto; apply IHW; lia).
        rewrite wrap64_small by (unfold two63; lia). lia. }
      rewrite KI. reflexivity. }
    unfold ri_sig_type, dest_cert, kac_of. cbn [k_kc kc_cert]. rewrite CT, CD. cbn [rbind]. reflexivity.
Qed.

Theorem read_router_identity_retail x k r r' : wf x -> read_router_identity x = Ok (k, r) ->
  exists b k', kac_bytes k = Ok b /\ x = b ++ r /\ (387 <= length b)%nat /\
    read_router_identity (b ++ r') = Ok (k', r') /\ kac_bytes k' = Ok b /\
    (wf r' -> ri_sig_type k' = ri_sig_type k).
Proof.
  intros W. unfold read_router_identity at 1.
  destruct (read_keys_and_cert x) as [[k0 r0]| |] eqn:RK; cbn [rbind fst snd]; try discriminate.
  destruct (ri_types_ok k0) eqn:TO; [|discriminate]. intros H. apply Ok_pair_inj in H. destruct H as [<- <-].
  destruct (read_keys_and_cert_retail x k0 r0 r' W RK) as [b [k' [KB [Ex [RK' [KB' [T2 T1]]]]]]].
  assert (LB : (387 <= length b)%nat).
  { destruct (kac_remainder _ _ _ RK) as [L387 [c RC]].
    destruct (read_certificate_shape _ _ _ (wf_skipn 384 _ W) RC) as [L3 [_ [Bc Er]]].
    assert (LR : (length r0 <= length x - 387)%nat) by (rewrite Er, !skipn_length; lia).
    assert (LX : length x = (length b + length r0)%nat) by (rewrite Ex at 1; apply app_length).
    lia. }
  exists b, k'. split; [exact KB|]. split; [exact Ex|]. split; [exact LB|]. split.
  - unfold read_router_identity. rewrite RK'. cbn [rbind fst snd].
    replace (ri_types_ok k') with (ri_types_ok k0) by (unfold ri_types_ok; rewrite T1, T2; reflexivity).
    rewrite TO. reflexivity.
  - split; [exact KB'|]. intros Wr'.
    assert (Wb : wf (b ++ r')).
    { apply wf_app. split; [|exact Wr']. rewrite Ex in W. apply wf_app in W. tauto. }
    rewrite (ri_sig_type_parsed _ _ _ Wb RK'), (ri_sig_type_parsed _ _ _ W RK), T2.
    rewrite Ex. rewrite !app_nth1 by lia. reflexivity.
Qed.

Lemma read_addresses_retail : forall k d al r, wf d -> read_addresses k d = Ok (al, r) ->
  exists c, d = c ++ r /\ wf r /\ forall t', wf t' -> read_addresses k (c ++ t') = Ok (al, t').
Proof.
  induction k as [|k IH]; intros d al r W H; cbn [read_addresses] in H.
  - apply Ok_pair_inj in H. destruct H as [<- <-]. exists []. split; [reflexivity|]. split; [exact W|]. intros t' _. reflexivity.
  - destruct (read_router_address d) as [[a r0]| |] eqn:RA; cbn [rbind fst snd] in H; try discriminate.
    destruct (read_router_address_retail _ _ _ W RA) as [c1 [E1 [W0 [_ K1]]]].
    destruct (read_addresses k r0) as [[al' r']| |] eqn:RR; cbn [rbind fst snd] in H; try discriminate.
    apply Ok_pair_inj in H. destruct H as [<- <-].
    destruct (IH _ _ _ W0 RR) as [c2 [E2 [Wr K2]]].
    exists (c1 ++ c2). split; [rewrite E1, E2, app_assoc; reflexivity|]. split; [exact Wr|].
    intros t' Wt'. cbn [read_addresses]. rewrite <- app_assoc.
    assert (Wc : wf (c2 ++ t')).
    { apply wf_app. split; [|exact Wt']. rewrite E2 in W0. apply wf_app in W0. tauto. }
    rewrite (K1 (c2 ++ t') Wc). cbn [rbind fst snd]. rewrite (K2 t' Wt'). reflexivity.
Qed.

Lemma ri_sig_bind {A} (k : kac) (K : Z -> res A) :
  (do t <- cert_type (dest_cert k); do _d <- cert_data (dest_cert k);
   do st <- (if t =? c_certificate_CERT_KEY then cert_sig_type (dest_cert k) else Ok c_signature_SIGNATURE_TYPE_DSA_SHA1); K st)
  = (do st <- ri_sig_type k; K st).
Proof.
  unfold ri_sig_type. destruct (cert_type (dest_cert k)); cbn [rbind]; try reflexivity.
  destruct (cert_data (dest_cert k)); cbn [rbind]; reflexivity.
Qed.

Theorem read_router_info_retail d i r r' : wf d -> wf r' -> read_router_info d = Ok (i, r) ->
  exists c i', d = c ++ r /\ read_router_info (c ++ r') = Ok (i', r') /\ router_info_bytes i' = router_info_bytes i.
Proof.
  intros W Wr'. unfold read_router_info at 1.
  destruct (read_router_identity d) as [[id r0]| |] eqn:RID; cbn [rbind fst snd]; try discriminate.
  assert (W0 : wf r0).
  { destruct (read_router_identity_RoundTrip _ _ _ W RID) as [ib0 [_ E0]]. rewrite <- E0 in W. apply wf_app in W. tauto. }
  destruct (read_date r0) as [[pub r1]| |] eqn:RD; cbn [rbind fst snd]; try discriminate.
  destruct (read_date_frame _ _ _ RD) as [E1 Lp].
  destruct (read_integer r1 1) as [[sz r2]| |] eqn:RI1; cbn [rbind fst snd]; try discriminate.
  pose proof (read_integer1_split _ _ _ RI1) as E2.
  assert (W2 : wf r2).
  { rewrite E1, E2 in W0. repeat (apply wf_app in W0; destruct W0 as [_ W0]). exact W0. }
  destruct (read_addresses (Z.to_nat (integer_int sz)) r2) as [[al r3]| |] eqn:RA; cbn [rbind fst snd]; try discriminate.
  destruct (read_addresses_retail _ _ _ _ W2 RA) as [ca [E3 [W3 KA]]].
  destruct (read_integer r3 1) as [[ps r4]| |] eqn:RI2; cbn [rbind fst snd]; try discriminate.
  pose proof (read_integer1_split _ _ _ RI2) as E4.
  assert (W4 : wf r4) by (rewrite E4 in W3; apply wf_app in W3; tauto).
  destruct (read_mapping r4) as [[[m r5] errs]|] eqn:RM; [|discriminate].
  destruct (embedded_mapping_ok errs) eqn:EM; cbn [negb]; [|discriminate].
  assert (FE : fatal_errors errs = []).
  { unfold embedded_mapping_ok in EM. apply Nat.eqb_eq in EM. destruct (fatal_errors errs); [reflexivity|discriminate]. }
  destruct (read_mapping_inv _ _ _ _ RM FE) as [slack [Eb _]].
  set (mb := firstn 2 r4 ++ serialize_pairs (map_values m) ++ slack) in *.
  assert (EM1 : r4 = mb ++ r5) by (unfold mb; rewrite <- !app_assoc; exact Eb).
  (* the signature type, as a function of the identity *)
  rewrite ri_sig_bind.
  destruct (ri_sig_type id) as [st| |] eqn:ST; cbn [rbind]; try discriminate.
  destruct (sig_length st) as [sn|] eqn:SL; [|discriminate].
  destruct (read_signature r5 st) as [[sg r6]| |] eqn:RS; cbn [rbind fst snd]; try discriminate.
  intros H. apply Ok_pair_inj in H. destruct H as [<- <-].
  destruct (read_signature_retail _ _ _ _ r' RS) as [E6 RS'].
  (* everything after the identity, with the new tail *)
  set (rest := pub ++ sz ++ ca ++ ps ++ mb ++ sig_bytes sg).
  assert (ER0 : r0 = rest ++ r6).
  { unfold rest. rewrite E1, E2, E3, E4, EM1, E6, <- !app_assoc. reflexivity. }
  assert (Wrest : wf (rest ++ r')).
  { rewrite ER0 in W0. apply wf_app in W0. destruct W0 as [Wa _]. apply wf_app. split; assumption. }
  destruct (read_router_identity_retail d id r0 (rest ++ r') W RID) as [ib [id' [KB [Ed [LB [RID' [KB' ST']]]]]]].
  exists (ib ++ rest), (mkRInfo id' pub sz al ps m sg). split; [rewrite Ed, ER0, <- app_assoc; reflexivity|]. split.
  - unfold read_router_info. rewrite <- app_assoc. rewrite RID'. cbn [rbind fst snd].
    unfold rest. rewrite <- !app_assoc.
    unfold read_date. rewrite (take_app' pub _ DATE_SIZE) by (rewrite Lp; reflexivity). cbn [rbind fst snd].
    (* size byte *)
    assert (Lsz : length sz = 1%nat /\ length ps = 1%nat).
    { destruct (read_integer_spec _ _ _ _ RI1 ltac:(lia)) as [A1 B1]. destruct (read_integer_spec _ _ _ _ RI2 ltac:(lia)) as [A2 B2].
      (* both integers are followed by at least a signature, so they were not truncated reads *)
      assert (L3 : (1 <= length r3)%nat).
      { destruct (Z_lt_le_dec (Z.of_nat (length r3)) 1) as [S|S]; [|lia].
        exfalso. destruct (A2 S) as [_ E]. rewrite E in RM. cbn in RM. apply Some_triple_inj in RM. destruct RM as [_ [_ EE]].
        rewrite <- EE in EM. cbn in EM. discriminate. }
      destruct (B2 ltac:(lia)) as [_ L2]. split; [|lia].
      destruct (Z_lt_le_dec (Z.of_nat (length r1)) 1) as [S|S]; [|destruct (B1 S) as [_ L1]; lia].
      destruct (A1 S) as [_ E]. exfalso. rewrite E in RA. rewrite E3 in E. apply (f_equal (@length _)) in E. rewrite !app_length in E. cbn [length] in E. lia. }
    destruct Lsz as [Lsz Lps].
    unfold read_integer. rewrite MAXI_8. change ((1 <=? 0) || (1 >? 8))%bool with false. cbv iota.
    match goal with |- context [Z.of_nat (length (sz ++ ?z)) <? 1] => replace (Z.of_nat (length (sz ++ z)) <? 1) with false by (rewrite app_length; lia) end.
    rewrite (slice_to_prefix' sz _ (Z.to_nat 1)) by (rewrite Lsz; reflexivity).
    rewrite (slice_from_prefix' sz _ (Z.to_nat 1)) by (rewrite Lsz; reflexivity). cbn [rbind fst snd].
    assert (Wa : wf (ps ++ mb ++ sig_bytes sg ++ r')).
    { pose proof Wrest as Wx. unfold rest in Wx. rewrite <- !app_assoc in Wx. do 3 (apply wf_app in Wx; destruct Wx as [_ Wx]). exact Wx. }
    rewrite (KA _ Wa). cbn [rbind fst snd].
    match goal with |- context [Z.of_nat (length (ps ++ ?z)) <? 1] => replace (Z.of_nat (length (ps ++ z)) <? 1) with false by (rewrite app_length; lia) end.
    rewrite (slice_to_prefix' ps _ (Z.to_nat 1)) by (rewrite Lps; reflexivity).
    rewrite (slice_from_prefix' ps _ (Z.to_nat 1)) by (rewrite Lps; reflexivity). cbn [rbind fst snd].
    assert (Wm : wf (mb ++ r5)) by (rewrite <- EM1; exact W4).
    rewrite EM1 in RM.
    destruct (read_mapping_retail mb r5 (sig_bytes sg ++ r') m errs Wm RM FE) as [e' [RM' FE']].
    rewrite RM'. unfold embedded_mapping_ok. rewrite FE'. cbn [Nat.eqb length negb].
    rewrite ri_sig_bind. rewrite (ST' Wrest), ST. cbn [rbind]. rewrite SL. rewrite RS'. reflexivity.
  - unfold router_info_bytes. cbn [ri_ident ri_published ri_size ri_addrs ri_peer_size ri_options ri_sig]. rewrite KB', KB. reflexivity.
Qed.

Theorem read_router_info_reparse d i r b : wf d -> read_router_info d = Ok (i, r) ->
  router_info_bytes i = Ok b -> b ++ r = d ->
  exists i', read_router_info b = Ok (i', []) /\ router_info_bytes i' = Ok b.
Proof.
  intros W H B E. destruct (read_router_info_retail d i r [] W (Forall_nil _) H) as [c [i' [Ex [R' B']]]].
  assert (c = b).
  { rewrite <- E in Ex. apply (f_equal (@rev _)) in Ex. rewrite !rev_app_distr in Ex. apply app_inv_head in Ex.
    apply (f_equal (@rev _)) in Ex. rewrite !rev_involutive in Ex. symmetry. exact Ex. }
  subst c. rewrite app_nil_r in R'. exists i'. split; [exact R'|rewrite B'; exact B].
Qed.
