(* TypedRT.v — C19: the key-type-specific keys-and-cert readers agree with the generic reader
   on every input (both directions). *)
From Coq Require Import ZifyN ZifyNat ZifyBool.
From Model Require Import Bytes Prim Tables Cert KAC Sig.
From Gen Require Import Consts Tables.
From Proofs Require Import BytesLemmas PrimProofs Frame SliceLemmas LeafProofs TableProofs SpecProofs KacProofs KacRT.
Ltac Zify.zify_post_hook ::= Z.div_mod_to_equations.
Open Scope Z_scope.
Local Arguments Z.add : simpl never.
Local Arguments Z.sub : simpl never.
Local Arguments Z.mul : simpl never.
Local Arguments Z.to_nat : simpl never.
Local Arguments Z.of_nat : simpl never.

(* which declared types have the sizes the typed readers insist on *)
Lemma crypto_size_inv kc : kc_crypto_size_of kc = 256 \/ kc_crypto_size_of kc = 32 ->
  In (kc_crypto_type kc) [0; 4; 5; 6; 7] /\ (kc_crypto_size_of kc = 256 <-> kc_crypto_type kc = 0).
Proof.
  unfold kc_crypto_size_of, kc_crypto_size. set (t := kc_crypto_type kc). intros H.
  destruct (in_dec Z.eq_dec t (map fst m_key_certificate_CryptoKeySizes_CryptoPublicKeySize)) as [I|N].
  - cbn in I. repeat (destruct I as [<-|I]; [first [split; [cbn; tauto|split; intros X; [reflexivity || (vm_compute in X; discriminate X)|reflexivity || discriminate X]] | exfalso; vm_compute in H; destruct H as [H|H]; discriminate H]|]). destruct I.
  - rewrite assoc_notin in H by exact N. cbn in H. destruct H; discriminate.
Qed.
Lemma signing_size_inv kc : kc_signing_pubkey_size kc = 32 -> In (kc_signing_type kc) [7; 8; 11].
Proof.
  unfold kc_signing_pubkey_size, kc_spk_size. set (t := kc_signing_type kc). intros H.
  destruct (in_dec Z.eq_dec t (map fst m_key_certificate_SigningKeySizes_SigningPublicKeySize)) as [I|N].
  - cbn in I. repeat (destruct I as [<-|I]; [first [cbn; tauto | exfalso; vm_compute in H; discriminate H]|]). destruct I.
  - rewrite assoc_notin in H by exact N. cbn in H. discriminate.
Qed.

Lemma Ok_pair_inj' {A B} (a c : A) (b d : B) : @Ok (A * B) (a, b) = Ok (c, d) -> a = c /\ b = d.
Proof. intros H. injection H as -> ->. auto. Qed.
Lemma firstn1_skipn (x : bytes) n c : nth_error x n = Some c -> firstn 1 (skipn n x) = [c].
Proof.
  revert x; induction n as [|n IH]; intros [|a x]; cbn [nth_error skipn]; try discriminate.
  - intros H; injection H as ->. reflexivity.
  - apply IH.
Qed.

Lemma typed_padding d ps : (384 <= length d)%nat -> (ps = 256 \/ ps = 32)%nat ->
  (if (ps =? 256)%nat then slice 256 352 d else extract_padding d (Z.of_nat ps) 32) =
  Ok (firstn (256 - ps) (skipn ps d) ++ firstn (128 - 32) (skipn 256 d)).
Proof.
  intros L [->| ->].
  - cbn [Nat.eqb]. rewrite slice_ok by lia. reflexivity.
  - cbn [Nat.eqb]. exact (extract_padding_ok d 32 32 L ltac:(lia) ltac:(lia)).
Qed.

(* a key certificate starts with the KEY type byte *)
Lemma key_certificate_first_byte y kc rem ct : (ct < 256)%N -> nth_error y 0 = Some ct -> new_key_certificate y = Ok (kc, rem) ->
  Z.of_N ct = c_certificate_CERT_KEY.
Proof.
  intros LT NE. unfold new_key_certificate, keycert_from_cert.
  destruct (read_certificate y) as [[c r0]| |] eqn:RC; cbn [rbind fst snd]; try discriminate.
  destruct (cert_type c) as [t| |] eqn:CT; cbn [rbind]; try discriminate.
  destruct (t =? c_certificate_CERT_KEY) eqn:TK; cbn [negb]; [|discriminate]. intros _.
  assert (CK : c_kind c = firstn 1 y).
  { revert RC. unfold read_certificate. change CERT_MIN with 3%nat.
    destruct (length y <? 3)%nat eqn:E3; [discriminate|]. apply Nat.ltb_ge in E3.
    rewrite !slice_ok, slice_from_ok by lia. cbn [rbind]. change (1 - 0)%nat with 1%nat. change (skipn 0 y) with y.
    destruct (_ >? _); [discriminate|]. destruct (_ >? _).
    - destruct (slice_from _ _); cbn [rbind]; try discriminate. intros H; apply Ok_pair_inj' in H. destruct H as [<- _]. reflexivity.
    - intros H; apply Ok_pair_inj' in H. destruct H as [<- _]. reflexivity. }
  revert CT. unfold cert_type. destruct (cert_is_valid c); [|discriminate].
  destruct ((_ <? _) || (_ >? _))%bool; [discriminate|]. intros H; injection H as <-.
  apply Z.eqb_eq in TK. unfold cert_kind_int in TK.
  assert (F1 : firstn 1 y = [ct]) by exact (firstn1_skipn y 0 ct NE).
  rewrite CK, F1, integer_int_byte in TK by exact LT. exact TK.
Qed.

Lemma null_keycert_sizes c : kc_signing_pubkey_size (mkKC c [0%N; 0%N] [0%N; 0%N]) = 128.
Proof. reflexivity. Qed.

Theorem typed_reader_agrees ps x k r : wf x -> (ps = 256 \/ ps = 32)%nat ->
  (read_kac_fixed ps x = Ok (k, r) <->
   (read_keys_and_cert x = Ok (k, r) /\ kc_crypto_size_of (k_kc k) = Z.of_nat ps /\ kc_signing_pubkey_size (k_kc k) = 32)).
Proof.
  intros W PS. unfold read_kac_fixed, read_keys_and_cert. change KAC_MIN with 387. change (Z.to_nat KAC_DATA) with 384%nat.
  destruct (length x <? 387)%nat eqn:E.
  { replace (Z.of_nat (length x) <? 387) with true by lia. split; [discriminate|intros [H _]; discriminate]. }
  apply Nat.ltb_ge in E. replace (Z.of_nat (length x) <? 387) with false by lia.
  rewrite slice_ok by lia. cbn [rbind]. rewrite Nat.sub_0_r. change (skipn 0 x) with x.
  rewrite typed_padding by lia. cbn [rbind]. rewrite slice_ok by lia. cbn [rbind]. change (384 - 352)%nat with 32%nat.
  rewrite slice_from_ok by lia. cbn [rbind].
  destruct (index_ok 384 x ltac:(lia)) as [ct [IX NE]]. rewrite IX. cbn [rbind].
  assert (LT : (ct < 256)%N).
  { unfold wf in W. rewrite Forall_forall in W. apply W. eapply nth_error_In. exact NE. }
  assert (NE0 : nth_error (skipn 384 x) 0 = Some ct).
  { rewrite <- NE. rewrite <- (firstn_skipn 384 x) at 2. rewrite nth_error_app2 by (rewrite firstn_length; lia).
    rewrite firstn_length. replace (384 - Nat.min 384 (length x))%nat with 0%nat by lia. reflexivity. }
  split.
  - (* typed accepts *)
    destruct (new_key_certificate (skipn 384 x)) as [[kc rem]| |] eqn:NK; cbn [rbind fst snd]; try discriminate.
    rewrite (key_certificate_first_byte _ kc rem ct LT NE0 NK), Z.eqb_refl.
    destruct ((kc_crypto_size_of kc =? Z.of_nat ps) && (kc_signing_pubkey_size kc =? 32))%bool eqn:SZ; cbn [negb]; [|discriminate].
    apply Bool.andb_true_iff in SZ. destruct SZ as [SC SS]. apply Z.eqb_eq in SC, SS.
    intros H. apply Ok_pair_inj' in H. destruct H as [<- <-]. cbn [k_kc].
    split; [|split; assumption].
    destruct (crypto_size_inv kc ltac:(destruct PS as [->| ->]; rewrite SC; auto)) as [TC _].
    pose proof (signing_size_inv kc SS) as TS.
    rewrite <- (firstn_skipn 384 x) at 1.
    rewrite (kac_accept kc ps 32 x (skipn 384 x) rem); try assumption; try lia.
    + unfold kac_of. change (384 - 32)%nat with 352%nat. reflexivity.
    + cbn [In] in TS |- *. tauto.
  - (* generic accepts with those sizes *)
    intros [H [SC SS]]. revert H.
    destruct (Z.of_N ct =? c_certificate_CERT_KEY).
    + destruct (new_key_certificate (skipn 384 x)) as [[kc rem]| |] eqn:NK; cbn [rbind fst snd]; try discriminate.
      intros H. apply kac_from_keycert_inv in H; [|lia]. destruct H as [cl [sl [_ [_ [SZc [SZs [_ [_ [-> ->]]]]]]]]].
      unfold kac_of in SC, SS. cbn [k_kc] in SC, SS.
      rewrite SC, SS, !Z.eqb_refl. cbn [andb negb].
      assert (cl = ps) by lia. assert (sl = 32%nat) by lia. subst cl sl. unfold kac_of.
      change (384 - 32)%nat with 352%nat. reflexivity.
    + destruct (Z.of_N ct =? c_certificate_CERT_NULL); [|discriminate].
      destruct (read_certificate (skipn 384 x)) as [[c r0]| |] eqn:RC; cbn [rbind fst snd]; try discriminate.
      intros H. apply kac_from_keycert_inv in H; [|lia]. destruct H as [cl [sl [_ [_ [_ [_ [_ [_ [_ ->]]]]]]]]].
      unfold kac_of in SS. cbn [k_kc] in SS. rewrite null_keycert_sizes in SS. discriminate.
Qed.

Corollary elg_ed25519_reader_agrees x k r : wf x ->
  (read_kac_elg_ed25519 x = Ok (k, r) <->
   (read_keys_and_cert x = Ok (k, r) /\ kc_crypto_size_of (k_kc k) = 256 /\ kc_signing_pubkey_size (k_kc k) = 32)).
Proof. intros W. apply (typed_reader_agrees 256 x k r W). auto. Qed.
Corollary x25519_ed25519_reader_agrees x k r : wf x ->
  (read_kac_x25519_ed25519 x = Ok (k, r) <->
   (read_keys_and_cert x = Ok (k, r) /\ kc_crypto_size_of (k_kc k) = 32 /\ kc_signing_pubkey_size (k_kc k) = 32)).
Proof. intros W. apply (typed_reader_agrees 32 x k r W). auto. Qed.
