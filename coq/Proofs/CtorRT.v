(* CtorRT.v — C14 for KeysAndCert: a value the constructor returns validates, serialises and
   parses back to the same keys, padding and bytes — for every key-type pair the wire reader
   supports; and the faithful model refutes it for the other known pairs (finding D22). *)
From Coq Require Import ZifyN ZifyNat ZifyBool.
From Model Require Import Bytes Prim Tables Cert KAC Sig.
From Gen Require Import Consts Tables.
From Spec Require Import Wire.
From Proofs Require Import BytesLemmas PrimProofs Frame SliceLemmas LeafProofs TableProofs SpecProofs KacProofs KacRT TypedRT CtorProofs.
Ltac Zify.zify_post_hook ::= Z.div_mod_to_equations.
Open Scope Z_scope.
Local Arguments Z.add : simpl never.
Local Arguments Z.sub : simpl never.
Local Arguments Z.mul : simpl never.
Local Arguments Z.to_nat : simpl never.
Local Arguments Z.of_nat : simpl never.

Lemma crypto_size_of_type kc : In (kc_crypto_type kc) [0; 4; 5; 6; 7] ->
  exists cl, kc_crypto_size_of kc = Z.of_nat cl /\ (cl = 256 \/ cl = 32)%nat.
Proof.
  intros T. unfold kc_crypto_size_of. cbn [In] in T.
  destruct T as [T|[T|[T|[T|[T|[]]]]]]; rewrite <- T; [exists 256%nat|exists 32%nat|exists 32%nat|exists 32%nat|exists 32%nat]; split; auto.
Qed.

Theorem new_kac_roundtrip y kc p pad s k r :
  wf y -> new_key_certificate y = Ok (kc, []) -> wf (y ++ r) ->
  new_keys_and_cert kc (Some p) pad (Some s) = Ok k ->
  In (kc_crypto_type kc) [0; 4; 5; 6; 7] -> In (kc_signing_type kc) [0; 1; 2; 7; 8; 11] ->
  kac_validate k = true /\
  exists b k', kac_bytes k = Ok b /\ read_keys_and_cert (b ++ r) = Ok (k', r) /\ kac_bytes k' = Ok b /\
               k_pub k' = Some p /\ k_pad k' = pad /\ k_spk k' = Some s.
Proof.
  intros Wy NK Wyr H TC TS.
  pose proof (new_kac_valid _ _ _ _ _ H) as V. split; [exact V|].
  destruct (crypto_size_of_type kc TC) as [cl [SZc Hcl]].
  destruct (signing_size_of_type kc TS) as [sl [SZs Bs]].
  revert H. unfold new_keys_and_cert. rewrite SZc, SZs. change KAC_DATA with 384.
  destruct (negb (Z.of_nat (length p) =? Z.of_nat cl)) eqn:A; [discriminate|].
  destruct (negb (Z.of_nat (length s) =? Z.of_nat sl)) eqn:B; [discriminate|].
  destruct (negb (Z.of_nat (length pad) =? 384 - Z.of_nat cl - Z.of_nat sl)) eqn:C; [discriminate|].
  intros H; injection H as <-.
  assert (Lp : length p = cl) by lia. assert (Ls : length s = sl) by lia. assert (Lpad : length pad = (384 - cl - sl)%nat) by lia.
  (* the key certificate on its own round-trips, and tolerates trailing bytes *)
  destruct (new_key_certificate_RoundTrip _ _ _ Wy NK) as [cb [KB Ecb]]. rewrite app_nil_r in Ecb. subst cb.
  destruct (new_key_certificate_AppendInv y kc [] r Wyr NK) as [kc' [NK' [KB' [E1 E2]]]]. cbn [app] in NK'.
  assert (T1 : kc_crypto_type kc' = kc_crypto_type kc) by (unfold kc_crypto_type; rewrite E2; reflexivity).
  assert (T2 : kc_signing_type kc' = kc_signing_type kc) by (unfold kc_signing_type; rewrite E1; reflexivity).
  assert (SZc' : kc_crypto_size_of kc' = Z.of_nat cl) by (unfold kc_crypto_size_of in *; rewrite T1; exact SZc).
  assert (SZs' : kc_signing_pubkey_size kc' = Z.of_nat sl) by (unfold kc_signing_pubkey_size in *; rewrite T2; exact SZs).
  assert (Bc : (0 < cl <= 256)%nat) by lia.
  exists ((p ++ pad ++ s) ++ y), (mkKAC kc' (Some p) pad (Some s)).
  split.
  { unfold kac_bytes. rewrite V. cbn [negb]. rewrite (kac_block_ok kc cl sl) by assumption. cbn [rbind k_kc]. rewrite KB. reflexivity. }
  split.
  { (* parse *)
    assert (L384 : length (p ++ pad ++ s) = 384%nat) by (rewrite !app_length; lia).
    destruct y as [|ct yt] eqn:EY.
    { exfalso. revert NK. unfold new_key_certificate, read_certificate. cbn. discriminate. }
    assert (LT : (ct < 256)%N) by (unfold wf in Wy; inversion Wy; assumption).
    pose proof (key_certificate_first_byte (ct :: yt) kc [] ct LT eq_refl NK) as CK.
    unfold read_keys_and_cert. change KAC_MIN with 387. change (Z.to_nat KAC_DATA) with 384%nat.
    assert (Ly : (3 <= length (ct :: yt))%nat).
    { revert NK. unfold new_key_certificate, read_certificate. change CERT_MIN with 3%nat.
      destruct (length (ct :: yt) <? 3)%nat eqn:E3; [discriminate|]. intros _. apply Nat.ltb_ge in E3. exact E3. }
    rewrite <- app_assoc.
    match goal with |- context [Z.of_nat (length ?l) <? 387] => replace (Z.of_nat (length l) <? 387) with false by (rewrite !app_length in *; lia) end.
    assert (X5 : index 384 ((p ++ pad ++ s) ++ (ct :: yt) ++ r) = Ok ct).
    { cbn [app]. apply index_mid. lia. }
    rewrite X5. cbn [rbind].
    rewrite (slice_from_prefix' (p ++ pad ++ s) ((ct :: yt) ++ r) 384) by lia. cbn [rbind].
    rewrite CK, Z.eqb_refl. rewrite NK'. cbn [rbind fst snd].
    rewrite <- !app_assoc.
    apply (kac_layout kc' cl sl p pad s ((ct :: yt) ++ r) r SZc' SZs' Bc Bs Lp Ls Lpad).
    - apply construct_public_key_of_type; [rewrite T1; exact TC|exact SZc'].
    - intros d Ld. apply construct_signing_exact; [rewrite T2; exact TS|]. rewrite SZs'. lia. }
  split.
  { unfold kac_bytes. rewrite (kac_validate_ok kc' cl sl) by assumption. cbn [negb].
    rewrite (kac_block_ok kc' cl sl) by assumption. cbn [rbind k_kc]. rewrite KB', KB. reflexivity. }
  cbn [k_pub k_pad k_spk]. auto.
Qed.

(* finding D22, as a theorem about the faithful model: signing type 7, crypto type 1 *)
Definition d22_kc : keycert := mkKC (mkCert [5%N] [0%N; 4%N] [0%N; 7%N; 0%N; 1%N]) [0%N; 7%N] [0%N; 1%N].
Lemma kac_unparseable_types_gap :
  match new_keys_and_cert d22_kc (Some (repeatN 1 64)) (repeatN 2 288) (Some (repeatN 3 32)) with
  | Ok k => kac_validate k = true /\
            match kac_bytes k with Ok b => read_keys_and_cert b = Err | _ => False end
  | _ => False
  end.
Proof. vm_compute. split; reflexivity. Qed.

(* OfflineSignature: constructor success => the serialisation parses back to the same value *)
Theorem new_offline_roundtrip e st key sg dt o r : new_offline_signature e st key sg dt = Ok o ->
  (e < 2 ^ 32)%N -> (st < 65536)%N -> read_offline_signature (off_bytes o ++ r) dt = Ok (o, r).
Proof.
  unfold new_offline_signature.
  destruct (off_spk_size (Z.of_N st) =? 0) eqn:K; [discriminate|].
  destruct (negb (Z.of_nat (length key) =? off_spk_size (Z.of_N st))) eqn:K2; [discriminate|].
  destruct (off_sig_size (Z.of_N dt) =? 0) eqn:S; [discriminate|].
  destruct (negb (Z.of_nat (length sg) =? off_sig_size (Z.of_N dt))) eqn:S2; [discriminate|].
  intros H Be Bs; injection H as <-.
  apply (spec_offline_accepted e st key sg dt r Be Bs); lia.
Qed.

(* ---- C19: NewKeyCertificateWithTypes agrees with the from-bytes entry point ---- *)
Theorem keycert_with_types_agrees s c kc : new_key_certificate_with_types s c = Ok kc ->
  0 <= s < 65536 -> 0 <= c < 65536 ->
  kc_signing_type kc = s /\ kc_crypto_type kc = c /\
  keycert_bytes kc = Ok (spec_keycert (Z.to_N s) (Z.to_N c) []) /\
  exists k', new_key_certificate (spec_keycert (Z.to_N s) (Z.to_N c) []) = Ok (k', []) /\
             keycert_bytes k' = keycert_bytes kc /\ kc_signing_type k' = s /\ kc_crypto_type k' = c.
Proof.
  unfold new_key_certificate_with_types.
  destruct (negb (kc_valid_signing_type s)); [discriminate|]. destruct (negb (kc_valid_crypto_type c)); [discriminate|].
  destruct (new_certificate_with_type c_certificate_CERT_KEY (key_type_payload s c)) as [ce| |] eqn:NC; cbn [rbind]; try discriminate.
  intros KF Bs Bc.
  assert (PL : key_type_payload s c = u16 (Z.to_N s) ++ u16 (Z.to_N c)).
  { unfold key_type_payload, u16. rewrite !Z.mod_small by lia. reflexivity. }
  destruct (spec_keycert_accepted (Z.to_N s) (Z.to_N c) [] [] ltac:(lia) ltac:(lia) ltac:(cbn; lia)) as [k' [NK [TS [TC KB]]]].
  rewrite app_nil_r in NK.
  (* the constructed certificate is the one the parser builds from the same bytes *)
  assert (CE : ce = mkCert [5%N] (be_encode 2 4) (u16 (Z.to_N s) ++ u16 (Z.to_N c))).
  { revert NC. unfold new_certificate_with_type. rewrite PL.
    destruct (negb (cert_type_valid c_certificate_CERT_KEY)); [discriminate|].
    assert (L4 : Z.of_nat (length (u16 (Z.to_N s) ++ u16 (Z.to_N c))) = 4) by (unfold u16; rewrite app_length, !be_encode_length; reflexivity).
    rewrite L4. change (4 >? c_certificate_CERT_MAX_PAYLOAD_SIZE) with false. cbv iota.
    change (c_certificate_CERT_KEY =? c_certificate_CERT_NULL) with false. change (c_certificate_CERT_KEY =? c_certificate_CERT_HIDDEN) with false.
    change (c_certificate_CERT_KEY =? c_certificate_CERT_SIGNED) with false. cbn [andb].
    change (new_integer_from_int 4 c_certificate_CERT_LENGTH_FIELD_SIZE) with (Ok (be_encode 2 4)). cbn [rbind].
    intros H; injection H as <-. reflexivity. }
  assert (K' : k' = kc).
  { revert NK. unfold new_key_certificate, spec_keycert, spec_cert, u8, nlen. rewrite app_nil_r.
    assert (RC : read_certificate ([5%N] ++ u16 (N.of_nat (length (u16 (Z.to_N s) ++ u16 (Z.to_N c)))) ++ u16 (Z.to_N s) ++ u16 (Z.to_N c)) = Ok (ce, [])).
    { rewrite CE. unfold u16. rewrite app_length, !be_encode_length. change (N.of_nat (2 + 2)) with 4%N.
      set (p := be_encode 2 (Z.to_N s) ++ be_encode 2 (Z.to_N c)).
      assert (Lp : length p = 4%nat) by (unfold p; rewrite app_length, !be_encode_length; reflexivity).
      destruct p as [|p0 [|p1 [|p2 [|p3 [|]]]]]; cbn [length] in Lp; try discriminate.
      vm_compute. reflexivity. }
    rewrite RC. cbn [rbind fst snd]. rewrite KF. cbn [rbind]. intros H; injection H as <-. reflexivity. }
  subst k'. split; [exact TS' || (rewrite TS; lia)|]. split; [rewrite TC; lia|]. split; [exact KB|].
  exists kc. split; [exact NK|]. split; [reflexivity|]. split; [rewrite TS; lia|rewrite TC; lia].
Qed.
