(* NoPanicAll.v — C04 for the composite parsers: no input makes RouterAddress, RouterInfo,
   LeaseSet, LeaseSet2, MetaLeaseSet or EncryptedLeaseSet parsing reach an out-of-range slice,
   index or nil dereference.  No well-formedness of the byte values is assumed. *)
From Coq Require Import ZifyN ZifyNat ZifyBool.
From Model Require Import Bytes Prim Tables ExtCrypto Cert KAC Mapping Sig LS RI.
From Gen Require Import Consts Tables.
From Proofs Require Import BytesLemmas PrimProofs Frame SliceLemmas LeafProofs TableProofs KacProofs KacRT OffProofs MapRT.
Ltac Zify.zify_post_hook ::= Z.div_mod_to_equations.
Open Scope Z_scope.
Local Arguments Z.add : simpl never.
Local Arguments Z.sub : simpl never.
Local Arguments Z.mul : simpl never.
Local Arguments Z.to_nat : simpl never.
Local Arguments Z.of_nat : simpl never.

Lemma rbind_np {A B} (m : res A) (f : A -> res B) : m <> Panic -> (forall v, m = Ok v -> f v <> Panic) -> rbind m f <> Panic.
Proof. intros H1 H2. destruct m as [v| |]; cbn [rbind]; [apply H2; reflexivity|discriminate|congruence]. Qed.

(* guards: peel one [if] *)
Ltac peel := match goal with |- (if ?c then _ else _) <> Panic => destruct c eqn:?; [discriminate|] end.
Ltac peel2 := match goal with |- (if ?c then _ else _) <> Panic => destruct c eqn:?; [|discriminate] end.

Lemma take_np n d : take n d <> Panic. Proof. apply take_nopanic. Qed.

Lemma cert_type_np c : cert_type c <> Panic.
Proof. unfold cert_type. destruct (cert_is_valid c); [|discriminate]. destruct ((_ <? _) || (_ >? _))%bool; discriminate. Qed.
Lemma cert_length_field_np c : cert_length_field c <> Panic.
Proof. unfold cert_length_field. destruct (cert_is_valid c); [|discriminate]. destruct ((_ <? _) || (_ >? _))%bool; discriminate. Qed.
Lemma cert_data_np c : cert_data c <> Panic.
Proof.
  unfold cert_data. apply rbind_np; [apply cert_length_field_np|]. intros l _.
  destruct (l >? Z.of_nat (length (c_payload c))) eqn:G; [discriminate|]. rewrite slice_ok by lia. discriminate.
Qed.
Lemma keycert_from_cert_np c : keycert_from_cert c <> Panic.
Proof.
  unfold keycert_from_cert. apply rbind_np; [apply cert_type_np|]. intros t _. peel.
  apply rbind_np; [apply cert_data_np|]. intros dd _. peel. rewrite !slice_ok by lia. cbn [rbind]. discriminate.
Qed.
Lemma cert_key_type_at_np off c : (off + 2 <= 4)%nat -> cert_key_type_at off c <> Panic.
Proof.
  intros O. unfold cert_key_type_at. apply rbind_np; [apply cert_type_np|]. intros t _. peel. peel.
  change c_certificate_CERT_MIN_KEY_PAYLOAD_SIZE with 4 in *. rewrite slice_ok by lia. cbn [rbind]. discriminate.
Qed.

(* ---- RouterAddress / RouterInfo ---- *)
Theorem read_router_address_NoPanic : NoPanic read_router_address.
Proof.
  intros d. unfold read_router_address. peel. peel.
  apply rbind_np; [apply read_integer_nopanic|]. intros cr _.
  apply rbind_np; [apply take_np|]. intros dr _.
  apply rbind_np; [apply read_i2pstring_nopanic|]. intros sr _.
  destruct (read_mapping (snd sr)) as [[[m r] errs]|]; [|discriminate]. destruct (embedded_mapping_ok errs); discriminate.
Qed.
Lemma read_addresses_NoPanic : forall k d, read_addresses k d <> Panic.
Proof.
  induction k as [|k IH]; intros d; cbn [read_addresses]; [discriminate|].
  apply rbind_np; [apply read_router_address_NoPanic|]. intros a _.
  apply rbind_np; [apply IH|]. discriminate.
Qed.
Theorem read_router_info_NoPanic : NoPanic read_router_info.
Proof.
  intros d. unfold read_router_info.
  apply rbind_np; [apply read_router_identity_NoPanic|]. intros ir _.
  apply rbind_np; [apply take_np|]. intros pr _.
  apply rbind_np; [apply read_integer_nopanic|]. intros sz _.
  apply rbind_np; [apply read_addresses_NoPanic|]. intros ar _.
  apply rbind_np; [apply read_integer_nopanic|]. intros ps _.
  destruct (read_mapping (snd ps)) as [[[m r] errs]|]; [|discriminate]. peel.
  apply rbind_np; [apply cert_type_np|]. intros t _.
  apply rbind_np; [apply cert_data_np|]. intros cd _.
  apply rbind_np.
  { destruct (t =? c_certificate_CERT_KEY); [|discriminate]. unfold cert_sig_type. apply cert_key_type_at_np. apply Nat.leb_le. reflexivity. }
  intros st _. destruct (sig_length st); [|discriminate].
  apply rbind_np; [apply read_signature_NoPanic|]. discriminate.
Qed.

(* ---- LeaseSet2 / MetaLeaseSet ---- *)
Lemma read_n_NoPanic size : forall k d, read_n k size d <> Panic.
Proof.
  induction k as [|k IH]; intros d; cbn [read_n]; [discriminate|].
  apply rbind_np; [apply take_np|]. intros p _. apply rbind_np; [apply IH|]. discriminate.
Qed.
Lemma read_enc_keys_NoPanic : forall k d, read_enc_keys k d <> Panic.
Proof.
  induction k as [|k IH]; intros d; cbn [read_enc_keys]; [discriminate|]. peel.
  apply Nat.ltb_ge in Heqb. rewrite !slice_ok, slice_from_ok by lia. cbn [rbind]. peel.
  apply Nat.ltb_ge in Heqb0. rewrite slice_to_ok, slice_from_ok by lia. cbn [rbind].
  apply rbind_np; [apply IH|]. discriminate.
Qed.
Lemma read_ls2_header_NoPanic minsize d : read_ls2_header minsize d <> Panic.
Proof.
  unfold read_ls2_header. peel.
  apply rbind_np; [apply read_destination_NoPanic|]. intros dr _. peel.
  apply Nat.ltb_ge in Heqb0. rewrite !slice_ok, slice_from_ok by lia. cbn [rbind].
  apply rbind_np.
  { destruct (has_offline _); [|discriminate]. apply rbind_np; [apply read_offline_NoPanic|]. discriminate. }
  intros orr _. destruct (read_mapping (snd orr)) as [[[m r] errs]|]; [|discriminate]. peel. discriminate.
Qed.
Theorem read_lease_set2_NoPanic : NoPanic read_lease_set2.
Proof.
  intros d. unfold read_lease_set2. apply rbind_np; [apply read_ls2_header_NoPanic|].
  intros [[[[[[dest pub] ex] flags] off] opts] r2] _. peel. apply Nat.ltb_ge in Heqb.
  destruct (index_ok 0 r2 ltac:(lia)) as [nk [IX _]]. rewrite IX. cbn [rbind].
  rewrite slice_from_ok by lia. cbn [rbind]. peel.
  apply rbind_np; [apply read_enc_keys_NoPanic|]. intros kr _. peel. apply Nat.ltb_ge in Heqb1.
  destruct (index_ok 0 (snd kr) ltac:(lia)) as [nl [IX2 _]]. rewrite IX2. cbn [rbind].
  rewrite slice_from_ok by lia. cbn [rbind]. peel.
  apply rbind_np; [apply read_n_NoPanic|]. intros lr _.
  apply rbind_np; [apply read_signature_NoPanic|]. discriminate.
Qed.
Lemma read_meta_entries_NoPanic : forall k d, read_meta_entries k d <> Panic.
Proof.
  induction k as [|k IH]; intros d; cbn [read_meta_entries]; [discriminate|]. change ME_MIN with 40%nat. peel.
  apply Nat.ltb_ge in Heqb. rewrite !slice_ok, slice_from_ok by lia.
  destruct (index_ok 32 d ltac:(lia)) as [t [IT _]]. destruct (index_ok 37 d ltac:(lia)) as [cst [IC _]].
  rewrite IT, IC. cbn [rbind]. peel.
  destruct (read_mapping (skipn 38 d)) as [[[m r] errs]|]; [|discriminate]. peel.
  apply rbind_np; [apply IH|]. discriminate.
Qed.
Theorem read_meta_lease_set_NoPanic : NoPanic read_meta_lease_set.
Proof.
  intros d. unfold read_meta_lease_set. apply rbind_np; [apply read_ls2_header_NoPanic|].
  intros [[[[[[dest pub] ex] flags] off] opts] r2] _. peel. apply Nat.ltb_ge in Heqb.
  destruct (index_ok 0 r2 ltac:(lia)) as [ne [IX _]]. rewrite IX. cbn [rbind].
  rewrite slice_from_ok by lia. cbn [rbind]. peel.
  apply rbind_np; [apply read_meta_entries_NoPanic|]. intros er _.
  apply rbind_np; [apply read_signature_NoPanic|]. discriminate.
Qed.

(* ---- EncryptedLeaseSet ---- *)
Theorem read_encrypted_lease_set_NoPanic : NoPanic read_encrypted_lease_set.
Proof.
  intros d. unfold read_encrypted_lease_set. change c_encrypted_leaseset_ENCRYPTED_LEASESET_MIN_SIZE with 109. peel.
  rewrite slice_ok, slice_from_ok by lia. cbn [rbind].
  destruct (kc_spk_size _) as [ks|] eqn:KS; [|discriminate]. pose proof (kc_spk_size_nonneg _ _ KS). peel.
  rewrite slice_to_ok, slice_from_ok by lia. cbn [rbind]. peel. apply Nat.ltb_ge in Heqb1.
  rewrite !slice_ok, slice_from_ok by lia. cbn [rbind]. peel.
  apply rbind_np.
  { destruct (has_offline _); [|discriminate]. apply rbind_np; [apply read_offline_NoPanic|]. discriminate. }
  intros orr _. peel. apply Nat.ltb_ge in Heqb3. rewrite slice_ok, slice_from_ok by lia. cbn [rbind]. peel. peel.
  apply Nat.ltb_ge in Heqb5. rewrite slice_to_ok, slice_from_ok by lia. cbn [rbind].
  apply rbind_np; [apply read_signature_NoPanic|]. intros sr _. destruct (els_validate _); discriminate.
Qed.

(* ---- LeaseSet (v1) ---- *)
Lemma read_destination_from_leaseset_NoPanic d : read_destination_from_leaseset d <> Panic.
Proof.
  unfold read_destination_from_leaseset. peel. apply Nat.ltb_ge in Heqb. rewrite slice_from_ok by lia. cbn [rbind].
  apply rbind_np; [apply read_certificate_NoPanic|]. intros cr _.
  apply rbind_np; [apply cert_type_np|]. intros t _.
  apply rbind_np; [apply cert_length_field_np|]. intros cl _. peel. apply Nat.ltb_ge in Heqb0.
  rewrite slice_to_ok by lia. cbn [rbind].
  apply rbind_np; [apply read_destination_NoPanic|]. intros r _. rewrite slice_from_ok by lia. cbn [rbind]. discriminate.
Qed.
Theorem read_lease_set_NoPanic d : read_lease_set d <> Panic.
Proof.
  unfold read_lease_set. peel.
  apply rbind_np; [apply read_destination_from_leaseset_NoPanic|]. intros dr _.
  change c_lease_set_LEASE_SET_PUBKEY_SIZE with 256. change (Z.to_nat 256) with 256%nat. peel.
  rewrite slice_to_ok by lia. cbn [rbind]. peel. rewrite slice_from_ok by lia. cbn [rbind].
  apply rbind_np.
  { unfold dest_keycert_opt. apply rbind_np; [apply cert_type_np|]. intros t _.
    destruct (t =? c_certificate_CERT_KEY); [|discriminate].
    pose proof (keycert_from_cert_np (dest_cert (fst dr))). destruct (keycert_from_cert _); congruence || discriminate. }
  intros kco _.
  set (sks := match kco with Some kc => kc_signing_pubkey_size kc | None => c_lease_set_LEASE_SET_SPK_SIZE end).
  peel. rewrite slice_to_ok by lia. cbn [rbind].
  apply rbind_np.
  { destruct kco as [kc|]; [apply construct_signing_nopanic|]. destruct (dsa_pubkey_ok _); discriminate. }
  intros sk _. rewrite slice_from_ok by lia. cbn [rbind]. peel. apply Nat.ltb_ge in Heqb3.
  match goal with |- context [index 0 ?r] => destruct (index_ok 0 r ltac:(lia)) as [cnt [IX _]]; rewrite IX end. cbn [rbind].
  peel. rewrite slice_from_ok by lia. cbn [rbind]. peel.
  apply rbind_np; [apply read_n_NoPanic|]. intros lr _. peel.
  rewrite slice_to_ok by lia. cbn [rbind].
  apply rbind_np; [|discriminate].
  unfold new_signature_from_bytes. destruct (sig_length _); [|discriminate]. destruct (_ =? _); discriminate.
Qed.
