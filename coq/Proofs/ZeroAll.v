(* ZeroAll.v — C20 beyond the zero values: ANY value whose identity part is not a valid KeysAndCert
   (the zero value, and every partial value a reader returns together with an error before or while
   reading the destination / router identity) never verifies, whatever its other fields hold, for any
   signature scheme; likewise an offline signature that is structurally invalid authorises nothing,
   and an EncryptedLeaseSet whose blinded key cannot be constructed for its declared type asks no
   query.  Serialising such values returns an error value, never a panic. *)
From Coq Require Import ZifyN ZifyNat ZifyBool.
From Model Require Import Bytes Prim Tables Cert KAC Mapping Sig LS RI Crypto.
From Proofs Require Import BytesLemmas PrimProofs CryptoProofs.
Open Scope Z_scope.

Lemma no_identity_no_bytes k : kac_validate k = false -> kac_bytes k = Err.
Proof. intros H. unfold kac_bytes. rewrite H. reflexivity. Qed.

Theorem ls2_without_identity_never_verifies verify l : kac_validate (l2_dest l) = false ->
  lease_set2_bytes l = Err /\ verdict verify (ls2_verify_queries l) = false.
Proof.
  intros H. assert (B : lease_set2_bytes l = Err).
  { unfold lease_set2_bytes, lease_set2_content, dest_bytes. rewrite (no_identity_no_bytes _ H). reflexivity. }
  split; [exact B|]. unfold ls2_verify_queries. rewrite B. reflexivity.
Qed.
Theorem meta_without_identity_never_verifies verify l : kac_validate (ml_dest l) = false ->
  meta_lease_set_bytes l = Err /\ verdict verify (meta_verify_queries l) = false.
Proof.
  intros H. assert (B : meta_lease_set_bytes l = Err).
  { unfold meta_lease_set_bytes, meta_lease_set_content. rewrite (no_identity_no_bytes _ H). reflexivity. }
  split; [exact B|]. unfold meta_verify_queries. rewrite B. reflexivity.
Qed.
Theorem ls_without_identity_never_verifies verify l : kac_validate (ls_dest l) = false ->
  lease_set_bytes l = Err /\ verdict verify (ls_verify_queries l) = false.
Proof.
  intros H. assert (B : lease_set_bytes l = Err).
  { unfold lease_set_bytes. rewrite (no_identity_no_bytes _ H). reflexivity. }
  split; [exact B|]. unfold ls_verify_queries. rewrite B. reflexivity.
Qed.
Theorem ri_without_identity_never_verifies verify i : kac_validate (ri_ident i) = false ->
  router_info_bytes i = Err /\ verdict verify (ri_verify_queries i) = false.
Proof.
  intros H. assert (B : router_info_bytes i = Err).
  { unfold router_info_bytes. rewrite (no_identity_no_bytes _ H). reflexivity. }
  split; [exact B|]. unfold ri_verify_queries. rewrite B. reflexivity.
Qed.
(* an offline signature that fails its own structural validation authorises no key *)
Theorem invalid_offline_authorises_nothing o k : off_validate_structure o = false -> offline_query o k = None.
Proof. intros H. unfold offline_query. rewrite H. reflexivity. Qed.
(* an EncryptedLeaseSet without offline keys whose blinded key cannot be constructed for its
   declared type (wrong length, unknown type: the zero value, a value cut off inside the key) *)
Theorem els_without_key_never_verifies verify l : el_offline l = None ->
  construct_signing_by_type (Z.of_N (el_sigtype l)) (el_key l) = Err ->
  verdict verify (els_verify_queries l) = false.
Proof. intros HO HK. unfold els_verify_queries. rewrite HO, HK. reflexivity. Qed.
(* ... and with the offline flag but no offline signature (a value cut off inside that block), the
   flag alone changes nothing: the same holds *)
Theorem els_flag_without_block_never_verifies verify l : el_offline l = None ->
  construct_signing_by_type (Z.of_N (el_sigtype l)) (el_key l) = Err ->
  forall flags, verdict verify (els_verify_queries (mkELS (el_sigtype l) (el_key l) (el_published l) (el_expires l) flags None (el_inner_len l) (el_inner l) (el_sig l))) = false.
Proof. intros HO HK flags. unfold els_verify_queries. cbn [el_offline el_sigtype el_key]. rewrite HK. reflexivity. Qed.
