(* DenyProofs.v — C09: prohibited key types never come out of a reader or constructor, called
   directly or embedded in the parsing of RouterInfo, LeaseSet, LeaseSet2, MetaLeaseSet. *)
From Model Require Import Bytes Prim Tables ExtCrypto Cert KAC Mapping Sig LS RI.
From Spec Require Import SpecTables.
From Proofs Require Import TableProofs.
Open Scope Z_scope.

Definition dest_permitted (k : kac) : Prop :=
  spec_crypto_prohibited (kc_crypto_type (k_kc k)) = false /\
  spec_dest_sig_prohibited (kc_signing_type (k_kc k)) = false.
Definition ri_permitted (k : kac) : Prop :=
  spec_crypto_prohibited (kc_crypto_type (k_kc k)) = false /\
  spec_ri_sig_prohibited (kc_signing_type (k_kc k)) = false.

Lemma deny_sets_equal_spec t :
  dest_crypto_denied t = spec_crypto_prohibited t /\
  dest_signing_denied t = spec_dest_sig_prohibited t /\
  ri_crypto_denied t = spec_crypto_prohibited t /\
  ri_signing_denied t = spec_ri_sig_prohibited t.
Proof.
  pose proof (deny_agree_all t) as H. unfold deny_agree in H.
  repeat rewrite Bool.andb_true_iff in H. destruct H as [[[A B] C] D].
  repeat split; apply Bool.eqb_prop; assumption.
Qed.

Lemma dest_types_ok_permitted k : dest_types_ok k = true -> dest_permitted k.
Proof.
  intros E. unfold dest_types_ok in E. apply Bool.andb_true_iff in E. destruct E as [E1 E2].
  destruct (deny_sets_equal_spec (kc_crypto_type (k_kc k))) as [A _].
  destruct (deny_sets_equal_spec (kc_signing_type (k_kc k))) as [_ [B _]].
  unfold dest_permitted. rewrite <- A, <- B. split; apply Bool.negb_true_iff; assumption.
Qed.
Lemma ri_types_ok_permitted k : ri_types_ok k = true -> ri_permitted k.
Proof.
  intros E. unfold ri_types_ok in E. apply Bool.andb_true_iff in E. destruct E as [E1 E2].
  destruct (deny_sets_equal_spec (kc_crypto_type (k_kc k))) as [_ [_ [A _]]].
  destruct (deny_sets_equal_spec (kc_signing_type (k_kc k))) as [_ [_ [_ B]]].
  unfold ri_permitted. rewrite <- A, <- B. split; apply Bool.negb_true_iff; assumption.
Qed.

Lemma read_destination_permitted x k r : read_destination x = Ok (k, r) -> dest_permitted k.
Proof.
  unfold read_destination. destruct (read_keys_and_cert x) as [[k0 r0]| |]; try discriminate. cbn [rbind fst].
  destruct (dest_types_ok k0) eqn:E; [|discriminate]. intros H; injection H as <- <-. apply dest_types_ok_permitted, E.
Qed.
Lemma new_destination_permitted k k' : new_destination k = Ok k' -> dest_permitted k'.
Proof.
  unfold new_destination. destruct (negb (kac_validate k)); [discriminate|].
  destruct (dest_types_ok k) eqn:E; [|discriminate]. intros H; injection H as <-. apply dest_types_ok_permitted, E.
Qed.
Lemma read_router_identity_permitted x k r : read_router_identity x = Ok (k, r) -> ri_permitted k.
Proof.
  unfold read_router_identity. destruct (read_keys_and_cert x) as [[k0 r0]| |]; try discriminate. cbn [rbind fst].
  destruct (ri_types_ok k0) eqn:E; [|discriminate]. intros H; injection H as <- <-. apply ri_types_ok_permitted, E.
Qed.
Lemma new_router_identity_permitted pub spk c pad k : new_router_identity pub spk c pad = Ok k -> ri_permitted k.
Proof.
  unfold new_router_identity. destruct (keycert_from_cert c) as [kc| |]; try discriminate. cbn [rbind].
  destruct (new_keys_and_cert kc pub pad spk) as [k0| |]; try discriminate. cbn [rbind].
  destruct (ri_types_ok k0) eqn:E; [|discriminate]. intros H; injection H as <-. apply ri_types_ok_permitted, E.
Qed.
Lemma permitted_not_rejected s c : spec_crypto_prohibited c = false -> spec_dest_sig_prohibited s = false ->
  dest_crypto_denied c = false /\ dest_signing_denied s = false.
Proof.
  intros Hc Hs. destruct (deny_sets_equal_spec c) as [A _]. destruct (deny_sets_equal_spec s) as [_ [B _]]. rewrite A, B. auto.
Qed.

(* ---- embedded ---- *)
Lemma ls2_header_permitted minsize d dest pub ex flags off opts r2 :
  read_ls2_header minsize d = Ok (dest, pub, ex, flags, off, opts, r2) -> dest_permitted dest.
Proof.
  unfold read_ls2_header. destruct (_ <? _); [discriminate|].
  destruct (read_destination d) as [[dst r0]| |] eqn:RD; cbn [rbind fst snd]; try discriminate.
  pose proof (read_destination_permitted _ _ _ RD) as P.
  destruct (length r0 <? 8)%nat; [discriminate|].
  destruct (slice 0 4 r0); cbn [rbind]; try discriminate. destruct (slice 4 6 r0); cbn [rbind]; try discriminate.
  destruct (slice 6 8 r0); cbn [rbind]; try discriminate. destruct (slice_from 8 r0); cbn [rbind]; try discriminate.
  match goal with |- (do orr <- ?e; _) = _ -> _ => destruct e as [orr| |]; cbn [rbind]; try discriminate end.
  destruct (read_mapping (snd orr)) as [[[m rr] errs]|]; [|discriminate].
  destruct (negb (embedded_mapping_ok errs)); [discriminate|].
  intros H. injection H as <- _ _ _ _ _ _. exact P.
Qed.
Theorem lease_set2_destination_permitted x l r : read_lease_set2 x = Ok (l, r) -> dest_permitted (l2_dest l).
Proof.
  unfold read_lease_set2.
  destruct (read_ls2_header _ x) as [[[[[[[dest pub] ex] flags] off] opts] r2]| |] eqn:RH; cbn [rbind]; try discriminate.
  pose proof (ls2_header_permitted _ _ _ _ _ _ _ _ _ RH) as P.
  destruct (length r2 <? 1)%nat; [discriminate|].
  destruct (index 0 r2); cbn [rbind]; try discriminate. destruct (slice_from 1 r2); cbn [rbind]; try discriminate.
  destruct ((_ <? _) || (_ >? _))%bool; [discriminate|].
  destruct (read_enc_keys _ _) as [kr| |]; cbn [rbind]; try discriminate.
  destruct (length (snd kr) <? 1)%nat; [discriminate|].
  destruct (index 0 (snd kr)); cbn [rbind]; try discriminate. destruct (slice_from 1 (snd kr)); cbn [rbind]; try discriminate.
  destruct (_ >? _); [discriminate|].
  destruct (read_n _ _ _) as [lr| |]; cbn [rbind]; try discriminate.
  destruct (read_signature _ _) as [sr| |]; cbn [rbind]; try discriminate.
  intros H. injection H as <- _. exact P.
Qed.
Theorem meta_lease_set_destination_permitted x l r : read_meta_lease_set x = Ok (l, r) -> dest_permitted (ml_dest l).
Proof.
  unfold read_meta_lease_set.
  destruct (read_ls2_header _ x) as [[[[[[[dest pub] ex] flags] off] opts] r2]| |] eqn:RH; cbn [rbind]; try discriminate.
  pose proof (ls2_header_permitted _ _ _ _ _ _ _ _ _ RH) as P.
  destruct (length r2 <? 1)%nat; [discriminate|].
  destruct (index 0 r2); cbn [rbind]; try discriminate. destruct (slice_from 1 r2); cbn [rbind]; try discriminate.
  destruct ((_ <? _) || (_ >? _))%bool; [discriminate|].
  destruct (read_meta_entries _ _) as [er| |]; cbn [rbind]; try discriminate.
  destruct (read_signature _ _) as [sr| |]; cbn [rbind]; try discriminate.
  intros H. injection H as <- _. exact P.
Qed.
Theorem router_info_identity_permitted x i r : read_router_info x = Ok (i, r) -> ri_permitted (ri_ident i).
Proof.
  unfold read_router_info.
  destruct (read_router_identity x) as [ir| |] eqn:RI; cbn [rbind]; try discriminate.
  destruct ir as [id r0]. pose proof (read_router_identity_permitted _ _ _ RI) as P. cbn [fst snd].
  destruct (read_date r0) as [pr| |]; cbn [rbind]; try discriminate.
  destruct (read_integer (snd pr) 1) as [sz| |]; cbn [rbind]; try discriminate.
  destruct (read_addresses _ _) as [ar| |]; cbn [rbind]; try discriminate.
  destruct (read_integer (snd ar) 1) as [ps| |]; cbn [rbind]; try discriminate.
  destruct (read_mapping (snd ps)) as [[[m rr] errs]|]; [|discriminate].
  destruct (negb (embedded_mapping_ok errs)); [discriminate|].
  destruct (cert_type _); cbn [rbind]; try discriminate. destruct (cert_data _); cbn [rbind]; try discriminate.
  match goal with |- (do st <- ?e; _) = _ -> _ => destruct e as [st| |]; cbn [rbind]; try discriminate end.
  destruct (sig_length st); [|discriminate].
  destruct (read_signature _ _) as [sr| |]; cbn [rbind]; try discriminate.
  intros H. injection H as <- _. exact P.
Qed.
Theorem lease_set_destination_permitted x l : read_lease_set x = Ok l -> dest_permitted (ls_dest l).
Proof.
  unfold read_lease_set. destruct (length x <? 387)%nat; [discriminate|].
  destruct (read_destination_from_leaseset x) as [dr| |] eqn:RD; cbn [rbind]; try discriminate.
  assert (P : dest_permitted (fst dr)).
  { revert RD. unfold read_destination_from_leaseset. destruct (length x <? 387)%nat; [discriminate|].
    destruct (slice_from 384 x); cbn [rbind]; try discriminate.
    destruct (read_certificate _) as [cr| |]; cbn [rbind]; try discriminate.
    destruct (cert_type _); cbn [rbind]; try discriminate. destruct (cert_length_field _); cbn [rbind]; try discriminate.
    destruct (_ <? _)%nat; [discriminate|]. destruct (slice_to _ x) as [dd| |]; cbn [rbind]; try discriminate.
    destruct (read_destination dd) as [[k r0]| |] eqn:R; cbn [rbind fst snd]; try discriminate.
    destruct (slice_from _ x); cbn [rbind]; try discriminate. intros H; injection H as <-. cbn [fst].
    apply (read_destination_permitted _ _ _ R). }
  destruct (_ <? _); [discriminate|]. destruct (slice_to _ (snd dr)) as [ek| |]; cbn [rbind]; try discriminate.
  destruct (negb (elg_pubkey_ok ek)); [discriminate|].
  destruct (slice_from _ (snd dr)) as [r1| |]; cbn [rbind]; try discriminate.
  destruct (dest_keycert_opt (fst dr)) as [kco| |]; cbn [rbind]; try discriminate.
  destruct (_ <? _); [discriminate|]. destruct (slice_to _ r1) as [skd| |]; cbn [rbind]; try discriminate.
  match goal with |- (do sk <- ?e; _) = _ -> _ => destruct e as [sk| |]; cbn [rbind]; try discriminate end.
  destruct (slice_from _ r1) as [r2| |]; cbn [rbind]; try discriminate.
  destruct (length r2 <? 1)%nat; [discriminate|]. destruct (index 0 r2) as [cnt| |]; cbn [rbind]; try discriminate.
  destruct (_ >? 16); [discriminate|]. destruct (slice_from 1 r2) as [r3| |]; cbn [rbind]; try discriminate.
  destruct (_ <? _); [discriminate|]. destruct (read_n _ _ r3) as [lr| |]; cbn [rbind]; try discriminate.
  destruct (_ <? _); [discriminate|]. destruct (slice_to _ (snd lr)) as [sd| |]; cbn [rbind]; try discriminate.
  destruct (new_signature_from_bytes _ _) as [sg| |]; cbn [rbind]; try discriminate.
  intros H. injection H as <-. exact P.
Qed.
