(* AppendAll.v — C03 for the composite parsers: appended bytes change neither the consumed
   length nor the value (RouterAddress, EncryptedLeaseSet: exactly; structures holding an
   identity: up to the certificate's view of trailing bytes, see KacRT.kac_same). *)
From Coq Require Import ZifyN ZifyNat ZifyBool.
From Model Require Import Bytes Prim Tables ExtCrypto Cert KAC Mapping Sig LS RI.
From Gen Require Import Consts Tables.
From Proofs Require Import BytesLemmas PrimProofs Frame SliceLemmas LeafProofs TableProofs KacProofs KacRT OffProofs MappingProofs MapRT LS2RT UptoRT.
Ltac Zify.zify_post_hook ::= Z.div_mod_to_equations.
Open Scope Z_scope.
Local Arguments Z.add : simpl never.
Local Arguments Z.sub : simpl never.
Local Arguments Z.mul : simpl never.
Local Arguments Z.to_nat : simpl never.
Local Arguments Z.of_nat : simpl never.

Lemma read_integer1_app b i r y : (1 <= length b)%nat -> read_integer b 1 = Ok (i, r) -> read_integer (b ++ y) 1 = Ok (i, r ++ y).
Proof.
  intros L. unfold read_integer. rewrite MAXI_8. change ((1 <=? 0) || (1 >? 8))%bool with false. cbv iota.
  rewrite app_length. replace (Z.of_nat (length b) <? 1) with false by lia.
  replace (Z.of_nat (length b + length y) <? 1) with false by lia.
  change (Z.to_nat 1) with 1%nat. destruct (cut_app 1 b y L) as [C1 C2]. rewrite C1, C2.
  rewrite slice_to_ok, slice_from_ok by lia. cbn [rbind]. intros H. apply Ok_pair_inj in H. destruct H as [<- <-]. reflexivity.
Qed.
Lemma read_i2pstring_append r s t y : read_i2pstring r = Ok (s, t) -> read_i2pstring (r ++ y) = Ok (s, t ++ y).
Proof.
  intros H. destruct (read_i2pstring_valid _ _ _ H) as [V E]. rewrite E, <- app_assoc. apply read_i2pstring_app. exact V.
Qed.

Theorem read_router_address_AppendInv : AppendInv read_router_address.
Proof.
  intros d a r y. unfold read_router_address.
  destruct (length d =? 0)%nat eqn:E0; [discriminate|]. apply Nat.eqb_neq in E0.
  change c_router_address_ROUTER_ADDRESS_MIN_SIZE with 12.
  destruct (Z.of_nat (length d) <? 12) eqn:E1; [discriminate|].
  rewrite app_length. replace (length d + length y =? 0)%nat with false by lia.
  replace (Z.of_nat (length d + length y) <? 12) with false by lia.
  destruct (read_integer d 1) as [[ci r0]| |] eqn:RI; cbn [rbind fst snd]; try discriminate.
  rewrite (read_integer1_app d ci r0 y ltac:(lia) RI). cbn [rbind fst snd].
  destruct (read_date r0) as [[dt r1]| |] eqn:RD; cbn [rbind fst snd]; try discriminate.
  unfold read_date in *. rewrite (take_AppendInv _ _ _ _ y RD). cbn [rbind fst snd].
  destruct (read_i2pstring r1) as [[st r2]| |] eqn:RS; cbn [rbind fst snd]; try discriminate.
  rewrite (read_i2pstring_append _ _ _ y RS). cbn [rbind fst snd].
  destruct (read_mapping r2) as [[[m rr] errs]|] eqn:RM; [|discriminate].
  destruct (embedded_mapping_ok errs) eqn:EM; [|discriminate].
  destruct (read_mapping_app _ _ _ _ y RM (embedded_ok_fatal _ EM)) as [e' [RM' F']]. rewrite RM'.
  assert (EM' : embedded_mapping_ok e' = true) by (unfold embedded_mapping_ok; rewrite F'; reflexivity).
  rewrite EM'. intros H. apply Ok_pair_inj in H. destruct H as [<- <-]. reflexivity.
Qed.
Lemma read_addresses_AppendInv : forall k, AppendInv (read_addresses k).
Proof.
  induction k as [|k IH]; intros d al r y H; cbn [read_addresses] in *.
  - apply Ok_pair_inj in H. destruct H as [<- <-]. reflexivity.
  - destruct (read_router_address d) as [[a r0]| |] eqn:RA; cbn [rbind fst snd] in H; try discriminate.
    rewrite (read_router_address_AppendInv _ _ _ y RA). cbn [rbind fst snd].
    destruct (read_addresses k r0) as [[al' r']| |] eqn:RR; cbn [rbind fst snd] in H; try discriminate.
    rewrite (IH _ _ _ y RR). cbn [rbind fst snd]. apply Ok_pair_inj in H. destruct H as [<- <-]. reflexivity.
Qed.
Lemma read_n_AppendInv size : forall k, AppendInv (read_n k size).
Proof.
  induction k as [|k IH]; intros d ls r y H; cbn [read_n] in *.
  - apply Ok_pair_inj in H. destruct H as [<- <-]. reflexivity.
  - destruct (take size d) as [[h t]| |] eqn:T; cbn [rbind fst snd] in H; try discriminate.
    rewrite (take_AppendInv _ _ _ _ y T). cbn [rbind fst snd].
    destruct (read_n k size t) as [[ls' r']| |] eqn:R; cbn [rbind fst snd] in H; try discriminate.
    rewrite (IH _ _ _ y R). cbn [rbind fst snd]. apply Ok_pair_inj in H. destruct H as [<- <-]. reflexivity.
Qed.
Lemma read_enc_keys_AppendInv : forall k, AppendInv (read_enc_keys k).
Proof.
  induction k as [|k IH]; intros d ks r y H; cbn [read_enc_keys] in *.
  - apply Ok_pair_inj in H. destruct H as [<- <-]. reflexivity.
  - destruct (length d <? 4)%nat eqn:E4; [discriminate|]. apply Nat.ltb_ge in E4.
    rewrite app_length. replace (length d + length y <? 4)%nat with false by lia.
    rewrite (slice_app 0 2 d y), (slice_app 2 4 d y) by lia.
    destruct (slice_from_app 4 d y ltac:(lia)) as [SF1 SF2]. rewrite SF1. rewrite SF2 in H.
    rewrite !slice_ok in * by lia. cbn [rbind] in *.
    set (r0 := skipn 4 d) in *. set (kl := be_decode (firstn (4 - 2) (skipn 2 d))) in *.
    destruct (length r0 <? N.to_nat kl)%nat eqn:EK; [discriminate|]. apply Nat.ltb_ge in EK.
    rewrite app_length. replace (length r0 + length y <? N.to_nat kl)%nat with false by lia.
    destruct (cut_app (N.to_nat kl) r0 y EK) as [C1 C2]. rewrite C1, C2.
    rewrite slice_to_ok, slice_from_ok in H by lia. cbn [rbind] in *.
    destruct (read_enc_keys k (skipn (N.to_nat kl) r0)) as [[ks' r']| |] eqn:R; cbn [rbind fst snd] in H; try discriminate.
    rewrite (IH _ _ _ y R). cbn [rbind fst snd]. apply Ok_pair_inj in H. destruct H as [<- <-]. reflexivity.
Qed.

(* ---- LeaseSet2 / MetaLeaseSet ---- *)
Lemma kac_same_sigtype k' k : kac_same k' k -> kc_signing_type (k_kc k') = kc_signing_type (k_kc k).
Proof. intros [_ [_ [_ [_ [E _]]]]]. unfold kc_signing_type. rewrite E. reflexivity. Qed.

Lemma read_ls2_header_app minsize d dest pub ex flags off opts r2 y : wf (d ++ y) ->
  read_ls2_header minsize d = Ok (dest, pub, ex, flags, off, opts, r2) ->
  exists dest', read_ls2_header minsize (d ++ y) = Ok (dest', pub, ex, flags, off, opts, r2 ++ y) /\ kac_same dest' dest.
Proof.
  intros W. unfold read_ls2_header.
  destruct (Z.of_nat (length d) <? minsize) eqn:E0; [discriminate|].
  rewrite app_length. replace (Z.of_nat (length d + length y) <? minsize) with false by lia.
  destruct (read_destination d) as [[dst r0]| |] eqn:RD; cbn [rbind fst snd]; try discriminate.
  destruct (read_destination_AppendInv _ _ _ y W RD) as [dst' [RD' KS]]. rewrite RD'. cbn [rbind fst snd].
  destruct (length r0 <? 8)%nat eqn:E8; [discriminate|]. apply Nat.ltb_ge in E8.
  rewrite app_length. replace (length r0 + length y <? 8)%nat with false by lia.
  rewrite (slice_app 0 4 r0 y), (slice_app 4 6 r0 y), (slice_app 6 8 r0 y) by lia.
  destruct (slice_from_app 8 r0 y ltac:(lia)) as [SF1 SF2]. rewrite SF1, SF2.
  rewrite !slice_ok by lia. cbn [rbind].
  rewrite (kac_same_sigtype _ _ KS).
  match goal with |- (do orr <- ?e; _) = _ -> _ => destruct e as [[oo r1']| |] eqn:EO; cbn [rbind fst snd]; try discriminate end.
  destruct (read_mapping r1') as [[[m rr] errs]|] eqn:RM; [|discriminate].
  destruct (embedded_mapping_ok errs) eqn:EM; cbn [negb]; [|discriminate].
  intros H. apply Ok_inj in H.
  repeat (let H2 := fresh "HH" in apply pair_equal_spec in H; destruct H as [H H2]).
  subst dest pub ex flags off opts r2.
  exists dst'. split; [|exact KS].
  match goal with |- (do orr <- ?e2; _) = _ => assert (EO' : e2 = Ok (oo, r1' ++ y)) end.
  { revert EO. destruct (has_offline _).
    - destruct (read_offline_signature (skipn 8 r0) _) as [[o r3']| |] eqn:RO; cbn [rbind fst snd]; try discriminate.
      intros H. apply Ok_pair_inj in H. destruct H as [<- <-].
      rewrite (read_offline_AppendInv _ _ _ _ y RO). reflexivity.
    - intros H. apply Ok_pair_inj in H. destruct H as [<- <-]. reflexivity. }
  rewrite EO'. cbn [rbind fst snd].
  destruct (read_mapping_app _ _ _ _ y RM (embedded_ok_fatal _ EM)) as [e' [RM' F']]. rewrite RM'.
  assert (EM' : embedded_mapping_ok e' = true) by (unfold embedded_mapping_ok; rewrite F'; reflexivity).
  rewrite EM'. cbn [negb]. reflexivity.
Qed.

Definition ls2_same (l' l : leaseset2) : Prop :=
  kac_same (l2_dest l') (l2_dest l) /\ l2_published l' = l2_published l /\ l2_expires l' = l2_expires l /\
  l2_flags l' = l2_flags l /\ l2_offline l' = l2_offline l /\ l2_options l' = l2_options l /\
  l2_keys l' = l2_keys l /\ l2_leases l' = l2_leases l /\ l2_sig l' = l2_sig l.

Theorem read_lease_set2_AppendInv : AppendInvR read_lease_set2 ls2_same.
Proof.
  intros x l r y W. unfold read_lease_set2.
  destruct (read_ls2_header _ x) as [[[[[[[dest pub] ex] flags] off] opts] r2]| |] eqn:RH; cbn [rbind]; try discriminate.
  destruct (read_ls2_header_app _ _ _ _ _ _ _ _ _ y W RH) as [dest' [RH' KS]]. rewrite RH'. cbn [rbind].
  destruct (length r2 <? 1)%nat eqn:E1; [discriminate|]. apply Nat.ltb_ge in E1.
  rewrite app_length. replace (length r2 + length y <? 1)%nat with false by lia.
  rewrite index_app by lia.
  destruct (index 0 r2) as [nk| |] eqn:IX; cbn [rbind]; try discriminate.
  destruct (slice_from_app 1 r2 y ltac:(lia)) as [SF1 SF2]. rewrite SF1, SF2. cbn [rbind].
  destruct ((Z.of_N nk <? 1) || (Z.of_N nk >? _))%bool; [discriminate|].
  destruct (read_enc_keys (N.to_nat nk) (skipn 1 r2)) as [[ks r4]| |] eqn:RK; cbn [rbind fst snd]; try discriminate.
  rewrite (read_enc_keys_AppendInv _ _ _ _ y RK). cbn [rbind fst snd].
  destruct (length r4 <? 1)%nat eqn:E4; [discriminate|]. apply Nat.ltb_ge in E4.
  rewrite app_length. replace (length r4 + length y <? 1)%nat with false by lia.
  rewrite index_app by lia.
  destruct (index 0 r4) as [nl| |] eqn:IX4; cbn [rbind]; try discriminate.
  destruct (slice_from_app 1 r4 y ltac:(lia)) as [SF3 SF4]. rewrite SF3, SF4. cbn [rbind].
  destruct (Z.of_N nl >? _); [discriminate|].
  destruct (read_n (N.to_nat nl) LEASE2_SIZE (skipn 1 r4)) as [[ls r6]| |] eqn:RN; cbn [rbind fst snd]; try discriminate.
  rewrite (read_n_AppendInv _ _ _ _ _ y RN). cbn [rbind fst snd].
  assert (FT : final_sig_type dest' flags off = final_sig_type dest flags off).
  { unfold final_sig_type. rewrite (kac_same_sigtype _ _ KS). reflexivity. }
  rewrite FT.
  destruct (read_signature r6 _) as [[sg r7]| |] eqn:RS; cbn [rbind fst snd]; try discriminate.
  rewrite (read_signature_AppendInv _ _ _ _ y RS). cbn [rbind fst snd].
  intros H. apply Ok_pair_inj in H. destruct H as [<- <-].
  eexists. split; [reflexivity|]. unfold ls2_same. cbn. auto 12.
Qed.

Lemma read_meta_entries_AppendInv : forall k, AppendInv (read_meta_entries k).
Proof.
  induction k as [|k IH]; intros d el r y H; cbn [read_meta_entries] in *.
  - apply Ok_pair_inj in H. destruct H as [<- <-]. reflexivity.
  - change ME_MIN with 40%nat in *.
    destruct (length d <? 40)%nat eqn:E40; [discriminate|]. apply Nat.ltb_ge in E40.
    rewrite app_length. replace (length d + length y <? 40)%nat with false by lia.
    rewrite (slice_app 0 32 d y), (slice_app 33 37 d y) by lia. rewrite !index_app by lia.
    destruct (slice_from_app 38 d y ltac:(lia)) as [SF1 SF2]. rewrite SF1. rewrite SF2 in H.
    rewrite !slice_ok in * by lia.
    destruct (index 32 d) as [t| |]; cbn [rbind] in *; try discriminate.
    destruct (index 37 d) as [cst| |]; cbn [rbind] in *; try discriminate.
    destruct (negb (meta_entry_type_valid (Z.of_N t))); [discriminate|].
    destruct (read_mapping (skipn 38 d)) as [[[m rr] errs]|] eqn:RM; [|discriminate].
    destruct (embedded_mapping_ok errs) eqn:EM; cbn [negb] in *; [|discriminate].
    destruct (read_mapping_app _ _ _ _ y RM (embedded_ok_fatal _ EM)) as [e' [RM' F']]. rewrite RM'.
    assert (EM' : embedded_mapping_ok e' = true) by (unfold embedded_mapping_ok; rewrite F'; reflexivity).
    rewrite EM'. cbn [negb].
    destruct (read_meta_entries k rr) as [[el' r']| |] eqn:RR; cbn [rbind fst snd] in H; try discriminate.
    rewrite (IH _ _ _ y RR). cbn [rbind fst snd]. apply Ok_pair_inj in H. destruct H as [<- <-]. reflexivity.
Qed.

Definition meta_same (l' l : metals) : Prop :=
  kac_same (ml_dest l') (ml_dest l) /\ ml_published l' = ml_published l /\ ml_expires l' = ml_expires l /\
  ml_flags l' = ml_flags l /\ ml_offline l' = ml_offline l /\ ml_options l' = ml_options l /\
  ml_num l' = ml_num l /\ ml_entries l' = ml_entries l /\ ml_sig l' = ml_sig l.

Theorem read_meta_lease_set_AppendInv : AppendInvR read_meta_lease_set meta_same.
Proof.
  intros x l r y W. unfold read_meta_lease_set.
  destruct (read_ls2_header _ x) as [[[[[[[dest pub] ex] flags] off] opts] r2]| |] eqn:RH; cbn [rbind]; try discriminate.
  destruct (read_ls2_header_app _ _ _ _ _ _ _ _ _ y W RH) as [dest' [RH' KS]]. rewrite RH'. cbn [rbind].
  destruct (length r2 <? 1)%nat eqn:E1; [discriminate|]. apply Nat.ltb_ge in E1.
  rewrite app_length. replace (length r2 + length y <? 1)%nat with false by lia.
  rewrite index_app by lia.
  destruct (index 0 r2) as [ne| |] eqn:IX; cbn [rbind]; try discriminate.
  destruct (slice_from_app 1 r2 y ltac:(lia)) as [SF1 SF2]. rewrite SF1, SF2. cbn [rbind].
  destruct ((Z.of_N ne <? _) || (Z.of_N ne >? _))%bool; [discriminate|].
  destruct (read_meta_entries (N.to_nat ne) (skipn 1 r2)) as [[el r3]| |] eqn:RE; cbn [rbind fst snd]; try discriminate.
  rewrite (read_meta_entries_AppendInv _ _ _ _ y RE). cbn [rbind fst snd].
  assert (FT : final_sig_type dest' flags off = final_sig_type dest flags off).
  { unfold final_sig_type. rewrite (kac_same_sigtype _ _ KS). reflexivity. }
  rewrite FT.
  destruct (read_signature r3 _) as [[sg r4]| |] eqn:RS; cbn [rbind fst snd]; try discriminate.
  rewrite (read_signature_AppendInv _ _ _ _ y RS). cbn [rbind fst snd].
  intros H. apply Ok_pair_inj in H. destruct H as [<- <-].
  eexists. split; [reflexivity|]. unfold meta_same. cbn. auto 12.
Qed.

(* ---- the certificate inside a parsed identity, with and without appended bytes ---- *)
Lemma keycert_from_cert_cert c kc : keycert_from_cert c = Ok kc -> kc_cert kc = c.
Proof.
  unfold keycert_from_cert. destruct (cert_type c) as [t| |]; cbn [rbind]; try discriminate.
  destruct (negb (t =? c_certificate_CERT_KEY)); [discriminate|].
  destruct (cert_data c) as [dd| |]; cbn [rbind]; try discriminate.
  destruct (length dd <? 4)%nat; [discriminate|].
  destruct (slice 0 2 dd); cbn [rbind]; try discriminate. destruct (slice 2 4 dd); cbn [rbind]; try discriminate.
  intros H; injection H as <-. reflexivity.
Qed.
Lemma kac_certificate x k r : read_keys_and_cert x = Ok (k, r) -> (387 <= length x)%nat /\
  read_certificate (skipn 384 x) = Ok (dest_cert k, r).
Proof.
  unfold read_keys_and_cert, dest_cert. change KAC_MIN with 387. change (Z.to_nat KAC_DATA) with 384%nat.
  destruct (Z.of_nat (length x) <? 387) eqn:E; [discriminate|]. split; [lia|]. revert H.
  destruct (index 384 x) as [ct| |]; cbn [rbind]; try discriminate.
  rewrite slice_from_ok by lia. cbn [rbind].
  destruct (Z.of_N ct =? c_certificate_CERT_KEY).
  - unfold new_key_certificate.
    destruct (read_certificate (skipn 384 x)) as [[c r0]| |] eqn:RC; cbn [rbind fst snd]; try discriminate.
    destruct (keycert_from_cert c) as [kc| |] eqn:KC; cbn [rbind fst snd]; try discriminate.
    intros H. apply kac_from_keycert_inv in H; [|lia]. destruct H as [cl [sl [_ [_ [_ [_ [_ [_ [-> ->]]]]]]]]].
    unfold kac_of. cbn [k_kc]. rewrite (keycert_from_cert_cert _ _ KC). reflexivity.
  - destruct (Z.of_N ct =? c_certificate_CERT_NULL); [|discriminate].
    destruct (read_certificate (skipn 384 x)) as [[c r0]| |] eqn:RC; cbn [rbind fst snd]; try discriminate.
    intros H. apply kac_from_keycert_inv in H; [|lia]. destruct H as [cl [sl [_ [_ [_ [_ [_ [_ [-> ->]]]]]]]]].
    unfold kac_of. cbn [k_kc kc_cert]. reflexivity.
Qed.

Definition cert_view (c' c : cert) (y : bytes) : Prop :=
  c_kind c' = c_kind c /\ c_len c' = c_len c /\ c_payload c' = c_payload c ++ y /\
  cert_len_int c <= Z.of_nat (length (c_payload c)).

Lemma kac_cert_view x k r y k' : wf (x ++ y) -> read_keys_and_cert x = Ok (k, r) ->
  read_keys_and_cert (x ++ y) = Ok (k', r ++ y) -> cert_view (dest_cert k') (dest_cert k) y.
Proof.
  intros W H H'. assert (Wx : wf x) by (apply wf_app in W; tauto).
  destruct (kac_certificate _ _ _ H) as [L RC]. destruct (kac_certificate _ _ _ H') as [_ RC'].
  rewrite skipn_app in RC'. replace (384 - length x)%nat with 0%nat in RC' by lia. rewrite skipn_O in RC'.
  destruct (read_certificate_shape _ _ _ (wf_skipn 384 _ Wx) RC) as [L3 [Ec [B _]]].
  assert (Wz : wf (skipn 384 x ++ y)) by (apply wf_app; split; [apply wf_skipn, Wx|apply wf_app in W; tauto]).
  destruct (read_certificate_shape _ _ _ Wz RC') as [_ [Ec' _]].
  set (z := skipn 384 x) in *.
  unfold cert_view. rewrite Ec', Ec. cbn [c_kind c_len c_payload].
  rewrite (firstn_app 1), (skipn_app 1), (firstn_app 2), (skipn_app 3), skipn_length.
  replace (1 - length z)%nat with 0%nat by lia. replace (2 - (length z - 1))%nat with 0%nat by lia.
  replace (3 - length z)%nat with 0%nat by lia. rewrite !firstn_O, !skipn_O, !app_nil_r.
  repeat split. rewrite Ec in B. unfold cert_len_int in *. cbn [c_len] in *. rewrite skipn_length. lia.
Qed.

Lemma cert_view_type c' c y : cert_view c' c y -> cert_type c' = cert_type c /\ cert_data c' = cert_data c.
Proof.
  intros [K [L [P B]]]. split.
  - unfold cert_type, cert_is_valid, cert_kind_int. rewrite K, L. reflexivity.
  - destruct c as [kd ln p], c' as [kd' ln' p']. cbn [c_kind c_len c_payload] in *. subst kd' ln' p'.
    apply cert_data_app. exact B.
Qed.
Lemma cert_view_key_type c' c y off : cert_view c' c y -> (off + 2 <= 4)%nat ->
  (4 <= length (c_payload c))%nat -> cert_key_type_at off c' = cert_key_type_at off c.
Proof.
  intros V O L4. destruct (cert_view_type _ _ _ V) as [CT _]. destruct V as [K [L [P B]]].
  unfold cert_key_type_at. rewrite CT. destruct (cert_type c) as [t| |]; cbn [rbind]; try reflexivity.
  destruct (negb (t =? c_certificate_CERT_KEY)); [reflexivity|].
  change c_certificate_CERT_MIN_KEY_PAYLOAD_SIZE with 4. rewrite P, app_length.
  replace (Z.of_nat (length (c_payload c) + length y) <? 4) with false by lia.
  replace (Z.of_nat (length (c_payload c)) <? 4) with false by lia.
  rewrite slice_app by lia. reflexivity.
Qed.
Lemma cert_view_key_type' c' c y off v : cert_view c' c y -> (off + 2 <= 4)%nat ->
  cert_key_type_at off c = Ok v -> cert_key_type_at off c' = Ok v.
Proof.
  intros V O. destruct (cert_view_type _ _ _ V) as [CT _]. destruct V as [K [L [P B]]].
  unfold cert_key_type_at. rewrite CT. destruct (cert_type c) as [t| |]; cbn [rbind]; try discriminate.
  destruct (negb (t =? c_certificate_CERT_KEY)); [discriminate|].
  change c_certificate_CERT_MIN_KEY_PAYLOAD_SIZE with 4. rewrite P, app_length.
  destruct (Z.of_nat (length (c_payload c)) <? 4) eqn:E4; [discriminate|].
  replace (Z.of_nat (length (c_payload c) + length y) <? 4) with false by lia.
  rewrite slice_app by lia. auto.
Qed.

(* ---- RouterInfo ---- *)
Definition ri_same (i' i : rinfo) : Prop :=
  kac_same (ri_ident i') (ri_ident i) /\ ri_published i' = ri_published i /\ ri_size i' = ri_size i /\
  ri_addrs i' = ri_addrs i /\ ri_peer_size i' = ri_peer_size i /\ ri_options i' = ri_options i /\ ri_sig i' = ri_sig i.

Lemma read_router_identity_generic x k r : read_router_identity x = Ok (k, r) -> read_keys_and_cert x = Ok (k, r).
Proof.
  unfold read_router_identity. destruct (read_keys_and_cert x) as [[k0 r0]| |]; cbn [rbind fst]; try discriminate.
  destruct (ri_types_ok k0); [|discriminate]. auto.
Qed.

Theorem read_router_info_AppendInv : AppendInvR read_router_info ri_same.
Proof.
  intros d i r y W. unfold read_router_info.
  destruct (read_router_identity d) as [[id r0]| |] eqn:RID; cbn [rbind fst snd]; try discriminate.
  destruct (read_router_identity_AppendInv _ _ _ y W RID) as [id' [RID' KS]]. rewrite RID'. cbn [rbind fst snd].
  pose proof (kac_cert_view _ _ _ y _ W (read_router_identity_generic _ _ _ RID) (read_router_identity_generic _ _ _ RID')) as CV.
  destruct (read_date r0) as [[pub r1]| |] eqn:RD; cbn [rbind fst snd]; try discriminate.
  unfold read_date in *. rewrite (take_AppendInv _ _ _ _ y RD). cbn [rbind fst snd].
  destruct r1 as [|b1 r1t]; [intros H; exfalso; vm_compute in H; discriminate H|]. set (r1 := b1 :: r1t) in *.
  destruct (read_integer r1 1) as [[sz r2]| |] eqn:RI1; cbn [rbind fst snd]; try discriminate.
  rewrite (read_integer1_app r1 sz r2 y ltac:(unfold r1; cbn [length]; lia) RI1). cbn [rbind fst snd].
  destruct (read_addresses _ r2) as [[al r3]| |] eqn:RA; cbn [rbind fst snd]; try discriminate.
  rewrite (read_addresses_AppendInv _ _ _ _ y RA). cbn [rbind fst snd].
  destruct r3 as [|b3 r3t]; [intros H; exfalso; vm_compute in H; discriminate H|]. set (r3 := b3 :: r3t) in *.
  destruct (read_integer r3 1) as [[ps r4]| |] eqn:RI2; cbn [rbind fst snd]; try discriminate.
  rewrite (read_integer1_app r3 ps r4 y ltac:(unfold r3; cbn [length]; lia) RI2). cbn [rbind fst snd].
  destruct (read_mapping r4) as [[[m r5] errs]|] eqn:RM; [|discriminate].
  destruct (embedded_mapping_ok errs) eqn:EM; cbn [negb]; [|discriminate].
  destruct (read_mapping_app _ _ _ _ y RM (embedded_ok_fatal _ EM)) as [e' [RM' F']]. rewrite RM'.
  assert (EM' : embedded_mapping_ok e' = true) by (unfold embedded_mapping_ok; rewrite F'; reflexivity).
  rewrite EM'. cbn [negb].
  destruct (cert_view_type _ _ _ CV) as [CT CD]. rewrite CT, CD.
  destruct (cert_type (dest_cert id)) as [t| |]; cbn [rbind]; try discriminate.
  destruct (cert_data (dest_cert id)) as [cd| |]; cbn [rbind]; try discriminate.
  match goal with |- (do st <- ?e; _) = _ -> _ => destruct e as [st| |] eqn:ST; cbn [rbind]; try discriminate end.
  match goal with |- _ -> exists v', (do st <- ?e2; _) = _ /\ _ => assert (ST' : e2 = Ok st) end.
  { destruct (t =? c_certificate_CERT_KEY); [|exact ST]. unfold cert_sig_type in *.
    apply (cert_view_key_type' _ _ y _ _ CV); [apply Nat.leb_le; reflexivity|exact ST]. }
  rewrite ST'. cbn [rbind].
  destruct (sig_length st); [|discriminate].
  destruct (read_signature r5 st) as [[sg r6]| |] eqn:RS; cbn [rbind fst snd]; try discriminate.
  rewrite (read_signature_AppendInv _ _ _ _ y RS). cbn [rbind fst snd].
  intros H. apply Ok_pair_inj in H. destruct H as [<- <-].
  eexists. split; [reflexivity|]. unfold ri_same. cbn. auto 10.
Qed.

(* ---- LeaseSet (v1): the result ignores whatever follows the signature ---- *)
Lemma read_destination_from_leaseset_app d dest rem y : wf (d ++ y) ->
  read_destination_from_leaseset d = Ok (dest, rem) ->
  read_destination_from_leaseset (d ++ y) = Ok (dest, rem ++ y).
Proof.
  intros W. assert (Wd : wf d) by (apply wf_app in W; tauto). unfold read_destination_from_leaseset.
  destruct (length d <? 387)%nat eqn:E; [discriminate|]. apply Nat.ltb_ge in E.
  rewrite app_length. replace (length d + length y <? 387)%nat with false by lia.
  destruct (slice_from_app 384 d y ltac:(lia)) as [SF1 SF2]. rewrite SF1, SF2. cbn [rbind].
  destruct (read_certificate (skipn 384 d)) as [[c rc]| |] eqn:RC; cbn [rbind fst snd]; try discriminate.
  destruct (read_certificate_AppendInv _ _ _ y (wf_skipn 384 _ Wd) RC) as [c' [RC' [_ [CK CL]]]].
  rewrite RC'. cbn [rbind fst snd].
  assert (CT : cert_type c' = cert_type c) by (unfold cert_type, cert_is_valid, cert_kind_int; rewrite CK, CL; reflexivity).
  assert (LF : cert_length_field c' = cert_length_field c) by (unfold cert_length_field, cert_is_valid, cert_len_int; rewrite CK, CL; reflexivity).
  rewrite CT, LF.
  destruct (cert_type c) as [t| |]; cbn [rbind]; try discriminate.
  destruct (cert_length_field c) as [cl| |]; cbn [rbind]; try discriminate.
  set (dl := Z.to_nat (384 + 3 + cl)).
  destruct (length d <? dl)%nat eqn:E2; [discriminate|]. apply Nat.ltb_ge in E2.
  replace (length d + length y <? dl)%nat with false by lia.
  rewrite slice_to_app by lia. rewrite slice_to_ok by lia. cbn [rbind].
  destruct (read_destination (firstn dl d)) as [[dst rr]| |]; cbn [rbind fst snd]; try discriminate.
  destruct (slice_from_app dl d y E2) as [SF3 SF4]. rewrite SF3, SF4. cbn [rbind].
  intros H. apply Ok_pair_inj in H. destruct H as [<- <-]. reflexivity.
Qed.

Theorem read_lease_set_ignores_trailing d l y : wf (d ++ y) -> read_lease_set d = Ok l -> read_lease_set (d ++ y) = Ok l.
Proof.
  intros W. unfold read_lease_set.
  destruct (length d <? 387)%nat eqn:E; [discriminate|]. apply Nat.ltb_ge in E.
  rewrite app_length. replace (length d + length y <? 387)%nat with false by lia.
  destruct (read_destination_from_leaseset d) as [[dest r0]| |] eqn:RD; cbn [rbind fst snd]; try discriminate.
  rewrite (read_destination_from_leaseset_app _ _ _ y W RD). cbn [rbind fst snd].
  change c_lease_set_LEASE_SET_PUBKEY_SIZE with 256. change (Z.to_nat 256) with 256%nat.
  destruct (Z.of_nat (length r0) <? 256) eqn:L0; [discriminate|].
  rewrite app_length. replace (Z.of_nat (length r0 + length y) <? 256) with false by lia.
  destruct (cut_app 256 r0 y ltac:(lia)) as [C1 C2]. rewrite C1, C2. rewrite slice_to_ok, slice_from_ok by lia. cbn [rbind].
  destruct (negb (elg_pubkey_ok (firstn 256 r0))); [discriminate|].
  destruct (dest_keycert_opt dest) as [kco| |]; cbn [rbind]; try discriminate.
  set (r1 := skipn 256 r0).
  set (sks := match kco with Some kc => kc_signing_pubkey_size kc | None => c_lease_set_LEASE_SET_SPK_SIZE end).
  assert (SKN : 0 <= sks).
  { unfold sks. destruct kco; [apply signing_pubkey_size_nonneg|]. change c_lease_set_LEASE_SET_SPK_SIZE with 128. lia. }
  destruct (Z.of_nat (length r1) <? sks) eqn:L1; [discriminate|].
  rewrite app_length. replace (Z.of_nat (length r1 + length y) <? sks) with false by lia.
  destruct (cut_app (Z.to_nat sks) r1 y ltac:(lia)) as [C3 C4]. rewrite C3, C4. rewrite slice_to_ok, slice_from_ok by lia. cbn [rbind].
  match goal with |- (do sk <- ?e; _) = _ -> _ => destruct e as [sk| |]; cbn [rbind]; try discriminate end.
  set (r2 := skipn (Z.to_nat sks) r1).
  destruct (length r2 <? 1)%nat eqn:L2; [discriminate|]. apply Nat.ltb_ge in L2.
  rewrite app_length. replace (length r2 + length y <? 1)%nat with false by lia.
  rewrite index_app by lia.
  destruct (index 0 r2) as [cnt| |]; cbn [rbind]; try discriminate.
  destruct (Z.of_N cnt >? 16); [discriminate|].
  destruct (slice_from_app 1 r2 y ltac:(lia)) as [SF1 SF2]. rewrite SF1, SF2. cbn [rbind].
  destruct (Z.of_nat (length (skipn 1 r2)) <? Z.of_N cnt * c_lease_LEASE_SIZE) eqn:L3; [discriminate|].
  rewrite app_length. replace (Z.of_nat (length (skipn 1 r2) + length y) <? Z.of_N cnt * c_lease_LEASE_SIZE) with false by lia.
  destruct (read_n (N.to_nat cnt) LEASE_SIZE (skipn 1 r2)) as [[ls r4]| |] eqn:RN; cbn [rbind fst snd]; try discriminate.
  rewrite (read_n_AppendInv _ _ _ _ _ y RN). cbn [rbind fst snd].
  set (ss := match kco with Some kc => kc_signature_size kc | None => c_lease_set_LEASE_SET_SIG_SIZE end).
  destruct (Z.of_nat (length r4) <? ss) eqn:L4; [discriminate|].
  rewrite app_length. replace (Z.of_nat (length r4 + length y) <? ss) with false by lia.
  rewrite slice_to_app by lia. auto.
Qed.
