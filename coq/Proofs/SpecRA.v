(* SpecRA.v — C02: the model's RouterAddress and Mapping parsers accept the specification's
   encodings (Spec/Wire.v) followed by arbitrary bytes and return exactly the encoded fields. *)
From Coq Require Import ZifyN ZifyNat ZifyBool Sorting Permutation.
From Model Require Import Bytes Prim Mapping Sig LS RI.
From Gen Require Import Consts.
From Spec Require Import Wire.
From Proofs Require Import BytesLemmas PrimProofs Frame SliceLemmas MappingProofs MapRT.
Ltac Zify.zify_post_hook ::= Z.div_mod_to_equations.
Open Scope Z_scope.
Local Arguments Z.add : simpl never.
Local Arguments Z.mul : simpl never.
Local Arguments Z.of_nat : simpl never.
Local Arguments Z.to_nat : simpl never.

Lemma spec_string_istr s : spec_string s = istr s.
Proof. reflexivity. Qed.
Lemma spec_pairs_serialize kvs : flat_map spec_pair kvs = serialize_pairs (map wire_pair kvs).
Proof.
  induction kvs as [|kv t IH]; [reflexivity|]. cbn [flat_map map serialize_pairs]. fold (serialize_pairs (map wire_pair t)).
  rewrite IH. f_equal. rewrite (serialize_pair_ok _ (wire_pair_ok kv)). reflexivity.
Qed.

Definition opts_ok (opts : list (bytes * bytes)) : Prop :=
  Forall (fun e => (length (fst e) <= 255)%nat /\ (length (snd e) <= 255)%nat) opts /\ NoDup (map fst opts) /\
  (length opts <= 1000)%nat /\ (N.of_nat (length (flat_map spec_pair opts)) < 65536)%N.

Theorem spec_mapping_accepted opts r : opts_ok opts ->
  exists sz e, read_mapping (spec_mapping opts ++ r) = Some (mkMap (Some sz) (Some (map wire_pair opts)), r, e) /\
               fatal_errors e = [].
Proof.
  intros [F [ND [LN LP]]]. unfold spec_mapping, u16, nlen. rewrite spec_pairs_serialize in *. rewrite <- app_assoc.
  pose proof (read_mapping_serialized (map wire_pair opts) r) as R. cbn zeta in R.
  rewrite R.
  - eexists. eexists. split; [reflexivity|]. destruct (map wire_pair opts); [reflexivity|]. destruct r; reflexivity.
  - apply Forall_forall. intros x Hx. apply in_map_iff in Hx. destruct Hx as [e [<- _]]. apply wire_pair_ok.
  - rewrite keys_of_wire by exact F. exact ND.
  - rewrite map_length. exact LN.
  - exact LP.
Qed.

Lemma spec_mapping_data sz opts : opts_ok opts ->
  mapping_data (mkMap (Some sz) (Some (map wire_pair opts))) = spec_mapping opts.
Proof.
  intros [_ [_ [_ LP]]]. unfold mapping_data, spec_mapping, map_values, u16, nlen. cbn [m_size m_vals].
  rewrite spec_pairs_serialize in *. rewrite N.mod_small by exact LP. reflexivity.
Qed.

Theorem spec_router_address_accepted cost date style opts r :
  (cost < 256)%N -> (date < 2 ^ 64)%N -> (length style <= 255)%nat -> opts_ok opts ->
  exists sz, read_router_address (spec_router_address cost date style opts ++ r) =
    Ok (mkRA [cost] (be_encode 8 date) (istr style) (mkMap (Some sz) (Some (map wire_pair opts))), r).
Proof.
  intros Bc Bd Ls OK. destruct (spec_mapping_accepted opts r OK) as [sz [e [RM FE]]].
  exists sz. unfold spec_router_address, u8, u64. rewrite <- !app_assoc.
  set (x := [cost] ++ be_encode 8 date ++ spec_string style ++ spec_mapping opts ++ r).
  assert (Lx : (12 <= length x)%nat).
  { unfold x, spec_string, spec_mapping, u8, u16. rewrite !app_length, !be_encode_length. cbn [length]. lia. }
  unfold read_router_address. replace (length x =? 0)%nat with false by lia.
  change c_router_address_ROUTER_ADDRESS_MIN_SIZE with 12. replace (Z.of_nat (length x) <? 12) with false by lia.
  assert (RI : read_integer x 1 = Ok ([cost], be_encode 8 date ++ spec_string style ++ spec_mapping opts ++ r)).
  { unfold read_integer. rewrite MAXI_8. change ((1 <=? 0) || (1 >? 8))%bool with false. cbv iota.
    replace (Z.of_nat (length x) <? 1) with false by lia. change (Z.to_nat 1) with 1%nat. unfold x.
    rewrite (slice_to_prefix' [cost]) by reflexivity. rewrite (slice_from_prefix' [cost]) by reflexivity. reflexivity. }
  rewrite RI. cbn [rbind fst snd].
  unfold read_date. change DATE_SIZE with 8%nat. rewrite take_app' by (rewrite be_encode_length; reflexivity). cbn [rbind fst snd].
  rewrite spec_string_istr. rewrite read_i2pstring_app by apply istr_valid. cbn [rbind fst snd].
  rewrite RM. unfold embedded_mapping_ok. rewrite FE. reflexivity.
Qed.
