(* BaseRT.v — decode (encode x) = x for every byte string, for I2P base64 and for padded and
   unpadded I2P base32 (C13), and the facts about encoded strings that the address functions
   of C07 rest on. *)
From Coq Require Import ZifyN ZifyNat ZifyBool.
From Model Require Import Bytes Prim Base.
From Gen Require Import Consts.
From Proofs Require Import BytesLemmas BaseProofs.
Ltac Zify.zify_post_hook ::= Z.div_mod_to_equations.
Open Scope N_scope.

(* ---- digits with trailing zeros ---- *)
Lemma repeatN_snoc (b : N) n : repeatN b n ++ [b] = repeatN b (S n).
Proof. induction n as [|n IH]; cbn [repeatN app]; [reflexivity|]. rewrite IH. reflexivity. Qed.
Lemma repeatN_length' (b : N) n : length (repeatN b n) = n.
Proof. induction n as [|n IH]; cbn; [reflexivity|]. rewrite IH. reflexivity. Qed.
Lemma be_decode_zeros n : be_decode (repeatN 0 n) = 0.
Proof.
  unfold be_decode. induction n as [|n IH]; cbn [repeatN fold_left]; [reflexivity|].
  change (0 * 256 + 0) with 0. exact IH.
Qed.
Lemma digits_trailing_zeros b k m : 1 < b -> forall v, v mod b ^ N.of_nat m = 0 ->
  digits b (k + m) v = digits b k (v / b ^ N.of_nat m) ++ repeatN 0 m.
Proof.
  intros Hb. induction m as [|m IH]; intros v Hv.
  - rewrite Nat.add_0_r. cbn [repeatN]. rewrite app_nil_r. change (b ^ N.of_nat 0) with 1. rewrite N.div_1_r. reflexivity.
  - rewrite Nat.add_succ_r. cbn [digits].
    rewrite Nat2N.inj_succ, N.pow_succ_r' in Hv.
    assert (P : b ^ N.of_nat m <> 0) by (apply N.pow_nonzero; lia).
    rewrite (N.mod_mul_r v b) in Hv by lia. apply N.eq_add_0 in Hv. destruct Hv as [V0 V1].
    apply N.eq_mul_0 in V1. destruct V1 as [V1|V1]; [lia|].
    rewrite (IH (v / b) V1). rewrite V0, <- app_assoc, repeatN_snoc.
    rewrite N.div_div by lia. rewrite Nat2N.inj_succ, N.pow_succ_r'. reflexivity.
Qed.

Lemma filter_id {A} (p : A -> bool) l : forallb p l = true -> filter p l = l.
Proof.
  induction l as [|x t IH]; cbn [forallb filter]; [reflexivity|]. intros H.
  apply Bool.andb_true_iff in H. destruct H as [H1 H2]. rewrite H1, IH by exact H2. reflexivity.
Qed.

(* characters of the alphabets *)
Lemma chr64_props d : d < 64 -> is_newline (chr alpha64 d) = false /\ chr alpha64 d <> PAD /\ chr alpha64 d < 128.
Proof.
  intros H. pose proof alphabets_clean as A. rewrite forallb_forall in A.
  assert (I : In (chr alpha64 d) (alpha32 ++ alpha64)).
  { apply in_or_app. right. unfold chr. apply nth_In. change (length alpha64) with 64%nat. lia. }
  specialize (A _ I). apply Bool.andb_true_iff in A. destruct A as [A A3]. apply Bool.andb_true_iff in A. destruct A as [A1 A2].
  apply Bool.negb_true_iff in A1, A2. apply N.eqb_neq in A1. apply N.ltb_lt in A3. auto.
Qed.
Lemma chr32_props d : d < 32 -> is_newline (chr alpha32 d) = false /\ chr alpha32 d <> PAD /\ chr alpha32 d < 128.
Proof.
  intros H. pose proof alphabets_clean as A. rewrite forallb_forall in A.
  assert (I : In (chr alpha32 d) (alpha32 ++ alpha64)).
  { apply in_or_app. left. unfold chr. apply nth_In. change (length alpha32) with 32%nat. lia. }
  specialize (A _ I). apply Bool.andb_true_iff in A. destruct A as [A A3]. apply Bool.andb_true_iff in A. destruct A as [A1 A2].
  apply Bool.negb_true_iff in A1, A2. apply N.eqb_neq in A1. apply N.ltb_lt in A3. auto.
Qed.

Lemma Forall_firstn' {A} (P : A -> Prop) n l : Forall P l -> Forall P (firstn n l).
Proof. intros H. revert n. induction H as [|x l Hx _ IH]; intros [|n]; cbn [firstn]; constructor; auto. Qed.

(* ================= base64 ================= *)
Lemma read_quantum64_data ds : Forall (fun d => d < 64) ds -> forall j f rest acc,
  read_quantum64 j (length ds + f) (map (chr alpha64) ds ++ rest) acc =
  read_quantum64 (j + length ds) f rest (acc ++ ds).
Proof.
  induction 1 as [|d ds Hd _ IH]; intros j f rest acc.
  - cbn [length map app Nat.add]. rewrite Nat.add_0_r, app_nil_r. reflexivity.
  - cbn [length map app Nat.add read_quantum64]. rewrite (dec64_chr d Hd).
    rewrite IH. rewrite <- app_assoc. cbn [app]. f_equal. lia.
Qed.

Lemma group64_zero_tail g : (1 <= length g <= 3)%nat -> wf g ->
  let n := length g in
  let v := be_decode (g ++ repeatN 0 (3 - n)) in
  digits 64 4 v = firstn (chars64 n) (digits 64 4 v) ++ repeatN 0 (4 - chars64 n) /\ v < 16777216.
Proof.
  intros L W n v.
  assert (Wz : wf (g ++ repeatN 0 (3 - n))).
  { apply wf_app. split; [exact W|]. unfold wf. clear. induction (3 - n)%nat; cbn [repeatN]; constructor; [lia|assumption]. }
  assert (B : v < 16777216).
  { pose proof (be_decode_bound _ Wz) as B. rewrite app_length, repeatN_length' in B.
    replace (length g + (3 - n))%nat with 3%nat in B by (unfold n; lia). exact B. }
  split; [|exact B].
  assert (E : v = be_decode g * 256 ^ N.of_nat (3 - n)).
  { unfold v. rewrite be_decode_app, repeatN_length', be_decode_zeros. lia. }
  destruct g as [|a [|b [|c [|]]]]; cbn [length] in L; try lia; cbn [length] in n; unfold n in *; cbn [chars64 Nat.sub] in *.
  - (* one byte: 2 characters, 2 zero digits *)
    assert (Z : v mod 64 ^ N.of_nat 2 = 0).
    { rewrite E. change (256 ^ N.of_nat 2) with (16 * 4096). change (64 ^ N.of_nat 2) with 4096. rewrite N.mul_assoc. apply N.mod_mul. lia. }
    assert (D : digits 64 4 v = digits 64 2 (v / 64 ^ N.of_nat 2) ++ repeatN 0 2) by (apply (digits_trailing_zeros 64 2 2); [lia|exact Z]).
    rewrite D. rewrite firstn_app, digits_length, Nat.sub_diag.
    rewrite firstn_O, app_nil_r, firstn_all2 by (rewrite digits_length; lia). reflexivity.
  - assert (Z : v mod 64 ^ N.of_nat 1 = 0).
    { rewrite E. change (256 ^ N.of_nat 1) with (4 * 64). change (64 ^ N.of_nat 1) with 64. rewrite N.mul_assoc. apply N.mod_mul. lia. }
    assert (D : digits 64 4 v = digits 64 3 (v / 64 ^ N.of_nat 1) ++ repeatN 0 1) by (apply (digits_trailing_zeros 64 3 1); [lia|exact Z]).
    rewrite D. rewrite firstn_app, digits_length, Nat.sub_diag.
    rewrite firstn_O, app_nil_r, firstn_all2 by (rewrite digits_length; lia). reflexivity.
  - cbn [repeatN]. rewrite app_nil_r. rewrite firstn_all2 by (rewrite digits_length; lia). reflexivity.
Qed.

Lemma quantum64_group g : (1 <= length g <= 3)%nat -> wf g ->
  quantum64_bytes (firstn (chars64 (length g)) (digits 64 4 (be_decode (g ++ repeatN 0 (3 - length g))))) = g.
Proof.
  intros L W. destruct (group64_zero_tail g L W) as [Z B]. cbn zeta in Z, B.
  set (v := be_decode (g ++ repeatN 0 (3 - length g))) in *.
  assert (LC : length (firstn (chars64 (length g)) (digits 64 4 v)) = chars64 (length g)).
  { rewrite firstn_length, digits_length. destruct (length g) as [|[|[|[|]]]]; cbn; lia. }
  unfold quantum64_bytes. rewrite LC, <- Z.
  rewrite undigits_digits by lia. change (64 ^ N.of_nat 4) with 16777216. rewrite N.mod_small by exact B.
  assert (Wz : wf (g ++ repeatN 0 (3 - length g))).
  { apply wf_app. split; [exact W|]. unfold wf. clear. induction (3 - length g)%nat; cbn [repeatN]; constructor; [lia|assumption]. }
  assert (L3 : length (g ++ repeatN 0 (3 - length g)) = 3%nat) by (rewrite app_length, repeatN_length'; lia).
  unfold v. rewrite <- L3 at 1. rewrite be_encode_decode by exact Wz.
  replace (chars64 (length g) - 1)%nat with (length g) by (destruct (length g) as [|[|[|[|]]]]; cbn; lia).
  rewrite firstn_app, firstn_all, Nat.sub_diag. cbn [firstn]. apply app_nil_r.
Qed.

Lemma enc64_group_shape g : (1 <= length g <= 3)%nat -> wf g ->
  exists ds, ds = firstn (chars64 (length g)) (digits 64 4 (be_decode (g ++ repeatN 0 (3 - length g)))) /\
    enc64_group g = map (chr alpha64) ds ++ repeatN PAD (4 - chars64 (length g)) /\
    Forall (fun d => d < 64) ds /\ length ds = chars64 (length g).
Proof.
  intros L W. eexists. split; [reflexivity|]. split; [reflexivity|]. split.
  - apply Forall_firstn'. apply digits_bound. lia.
  - rewrite firstn_length, digits_length. destruct (length g) as [|[|[|[|]]]]; cbn; lia.
Qed.

Lemma dec64_pad : dec64 PAD = None.
Proof. vm_compute. reflexivity. Qed.

(* one encoded group in front of the decoder *)
Lemma read_quantum64_group g rest : (1 <= length g <= 3)%nat -> wf g ->
  (length g < 3 -> rest = [])%nat ->
  exists ds, read_quantum64 0 4 (enc64_group g ++ rest) [] = Ok (ds, negb (length g =? 3)%nat, if (length g =? 3)%nat then rest else [])
             /\ quantum64_bytes ds = g.
Proof.
  intros L W R. destruct (enc64_group_shape g L W) as [ds [Eds [EE [F LD]]]].
  exists ds. split; [|rewrite Eds; apply quantum64_group; assumption].
  rewrite EE, <- app_assoc.
  destruct (length g) as [|[|[|[|]]]] eqn:LG; try lia; cbn [chars64 Nat.sub] in *.
  - (* 1 byte: 2 characters and "==" *)
    rewrite (R ltac:(lia)). change 4%nat with (2 + 2)%nat. rewrite <- LD at 1.
    rewrite read_quantum64_data by exact F. rewrite LD. cbn [Nat.add app repeatN read_quantum64].
    rewrite dec64_pad. rewrite N.eqb_refl. cbn [negb length Nat.eqb]. reflexivity.
  - rewrite (R ltac:(lia)). change 4%nat with (3 + 1)%nat. rewrite <- LD at 1.
    rewrite read_quantum64_data by exact F. rewrite LD. cbn [Nat.add app repeatN read_quantum64].
    rewrite dec64_pad. rewrite N.eqb_refl. cbn [negb length Nat.eqb]. reflexivity.
  - cbn [repeatN app]. change 4%nat with (4 + 0)%nat at 1. rewrite <- LD at 1.
    rewrite read_quantum64_data by exact F. cbn [read_quantum64 Nat.eqb negb app]. reflexivity.
Qed.

Lemma enc64_group_length g : (1 <= length g <= 3)%nat -> length (enc64_group g) = 4%nat.
Proof.
  intros L. unfold enc64_group. rewrite app_length, map_length, firstn_length, digits_length, repeatN_length'.
  destruct (length g) as [|[|[|[|]]]]; cbn; lia.
Qed.

Lemma b64_roundtrip_fuel : forall fe x fd, wf x -> (length x < fe)%nat ->
  (length (b64_encode_fuel fe x) < fd)%nat ->
  b64_decode_fuel fd (b64_encode_fuel fe x) = Ok x.
Proof.
  induction fe as [|fe IH]; intros x fd W Lx Ld; [lia|].
  destruct x as [|a x'].
  - cbn [b64_encode_fuel] in *. destruct fd; [cbn in Ld; lia|]. reflexivity.
  - cbn [b64_encode_fuel] in *. set (x := a :: x') in *.
    assert (Lg : (1 <= length (firstn 3 x) <= 3)%nat) by (rewrite firstn_length; unfold x; cbn [length]; lia).
    assert (Wg : wf (firstn 3 x)) by (apply wf_firstn, W).
    assert (Wr : wf (skipn 3 x)) by (apply wf_skipn, W).
    assert (Rr : (length (firstn 3 x) < 3)%nat -> b64_encode_fuel fe (skipn 3 x) = []).
    { intros H. rewrite firstn_length in H. rewrite skipn_all2 by lia. destruct fe; reflexivity. }
    destruct (read_quantum64_group (firstn 3 x) (b64_encode_fuel fe (skipn 3 x)) Lg Wg Rr) as [ds [RQ QB]].
    rewrite app_length, enc64_group_length in Ld by exact Lg.
    destruct fd as [|fd]; [lia|]. cbn [b64_decode_fuel].
    destruct (enc64_group (firstn 3 x) ++ b64_encode_fuel fe (skipn 3 x)) as [|c0 t0] eqn:EE.
    { apply (f_equal (@length _)) in EE. rewrite app_length, enc64_group_length in EE by exact Lg. cbn in EE. lia. }
    rewrite RQ. cbn [rbind]. rewrite QB.
    destruct (length (firstn 3 x) =? 3)%nat eqn:E3; cbn [negb].
    + rewrite IH; [cbn [rbind]; rewrite firstn_skipn; reflexivity|exact Wr| |lia].
      rewrite skipn_length. unfold x in *. cbn [length] in *. lia.
    + apply Nat.eqb_neq in E3. rewrite firstn_length in E3. rewrite firstn_all2 by lia. reflexivity.
Qed.

Lemma enc64_no_newline g : (1 <= length g <= 3)%nat -> wf g -> forallb (fun c => negb (is_newline c)) (enc64_group g) = true.
Proof.
  intros L W. destruct (enc64_group_shape g L W) as [ds [_ [EE [F _]]]]. rewrite EE, forallb_app.
  apply Bool.andb_true_iff. split.
  - apply forallb_forall. intros c Hc. apply in_map_iff in Hc. destruct Hc as [d [<- Hd]].
    rewrite Forall_forall in F. destruct (chr64_props d (F d Hd)) as [A _]. rewrite A. reflexivity.
  - clear. induction (4 - chars64 (length g))%nat; cbn [repeatN forallb]; [reflexivity|]. rewrite IHn. reflexivity.
Qed.
Lemma b64_encode_no_newline : forall fe x, wf x -> forallb (fun c => negb (is_newline c)) (b64_encode_fuel fe x) = true.
Proof.
  induction fe as [|fe IH]; intros x W; [reflexivity|]. destruct x as [|a x']; [reflexivity|].
  cbn [b64_encode_fuel]. rewrite forallb_app. apply Bool.andb_true_iff. split.
  - apply enc64_no_newline; [rewrite firstn_length; cbn [length]; lia|apply wf_firstn, W].
  - apply IH. apply wf_skipn, W.
Qed.

Theorem b64_decode_encode x : wf x -> b64_decode (b64_encode x) = Ok x.
Proof.
  intros W. unfold b64_decode, b64_encode, strip_newlines.
  rewrite filter_id by (apply b64_encode_no_newline; exact W).
  apply b64_roundtrip_fuel; [exact W|lia|lia].
Qed.

(* ================= base32 ================= *)
Definition padc_of (pad : bool) : N := if pad then PAD else 255.

Lemma read_quantum32_data pad ds : Forall (fun d => d < 32) ds -> forall j f rest acc,
  read_quantum32 pad (padc_of pad) j (length ds + f) (map (chr alpha32) ds ++ rest) acc =
  read_quantum32 pad (padc_of pad) (j + length ds) f rest (acc ++ ds).
Proof.
  induction 1 as [|d ds Hd _ IH]; intros j f rest acc.
  - cbn [length map app Nat.add]. rewrite Nat.add_0_r, app_nil_r. reflexivity.
  - cbn [length map app Nat.add read_quantum32].
    destruct (chr32_props d Hd) as [_ [NP LT]].
    assert (NE : (chr alpha32 d =? padc_of pad) = false).
    { apply N.eqb_neq. unfold padc_of. destruct pad; [exact NP|lia]. }
    rewrite NE. cbn [andb]. rewrite (dec32_chr d Hd).
    rewrite IH. rewrite <- app_assoc. cbn [app]. f_equal. lia.
Qed.

Lemma wf_zeros n : wf (repeatN 0 n).
Proof. unfold wf. induction n; cbn [repeatN]; constructor; [lia|assumption]. Qed.

Lemma group32_zero_tail g : (1 <= length g <= 5)%nat -> wf g ->
  let n := length g in
  let v := be_decode (g ++ repeatN 0 (5 - n)) in
  digits 32 8 v = firstn (chars32 n) (digits 32 8 v) ++ repeatN 0 (8 - chars32 n) /\ v < 1099511627776.
Proof.
  intros L W n v.
  assert (Wz : wf (g ++ repeatN 0 (5 - n))) by (apply wf_app; split; [exact W|apply wf_zeros]).
  assert (B : v < 1099511627776).
  { pose proof (be_decode_bound _ Wz) as B. rewrite app_length, repeatN_length' in B.
    replace (length g + (5 - n))%nat with 5%nat in B by (unfold n; lia). exact B. }
  split; [|exact B].
  assert (E : v = be_decode g * 256 ^ N.of_nat (5 - n)).
  { unfold v. rewrite be_decode_app, repeatN_length', be_decode_zeros. lia. }
  assert (FIN : forall k m q, (k + m = 8)%nat -> 256 ^ N.of_nat (5 - n) = q * 32 ^ N.of_nat m -> chars32 n = k ->
                digits 32 8 v = firstn (chars32 n) (digits 32 8 v) ++ repeatN 0 (8 - chars32 n)).
  { intros k m q KM Q CK.
    assert (Z : v mod 32 ^ N.of_nat m = 0).
    { rewrite E, Q, N.mul_assoc. apply N.mod_mul. apply N.pow_nonzero. lia. }
    assert (D : digits 32 8 v = digits 32 k (v / 32 ^ N.of_nat m) ++ repeatN 0 m).
    { rewrite <- KM. apply digits_trailing_zeros; [lia|exact Z]. }
    rewrite D, CK. rewrite firstn_app, digits_length, Nat.sub_diag, firstn_O, app_nil_r.
    rewrite firstn_all2 by (rewrite digits_length; lia). replace (8 - k)%nat with m by lia. reflexivity. }
  destruct g as [|a [|b [|c [|d [|e [|]]]]]]; cbn [length] in L; try lia; cbn [length] in n; unfold n in *; cbn [Nat.sub] in *.
  - apply (FIN 2%nat 6%nat 4); reflexivity.
  - apply (FIN 4%nat 4%nat 16); reflexivity.
  - apply (FIN 5%nat 3%nat 2); reflexivity.
  - apply (FIN 7%nat 1%nat 8); reflexivity.
  - apply (FIN 8%nat 0%nat 1); reflexivity.
Qed.

Lemma chars32_bytes32 n : (1 <= n <= 5)%nat -> bytes32 (chars32 n) = n.
Proof. intros H. destruct n as [|[|[|[|[|[|]]]]]]; cbn; lia. Qed.
Lemma chars32_range n : (1 <= n <= 5)%nat -> (2 <= chars32 n <= 8)%nat.
Proof. intros H. destruct n as [|[|[|[|[|[|]]]]]]; cbn; lia. Qed.

Lemma quantum32_group g : (1 <= length g <= 5)%nat -> wf g ->
  quantum32_bytes (firstn (chars32 (length g)) (digits 32 8 (be_decode (g ++ repeatN 0 (5 - length g))))) = g.
Proof.
  intros L W. destruct (group32_zero_tail g L W) as [Z B]. cbn zeta in Z, B.
  set (v := be_decode (g ++ repeatN 0 (5 - length g))) in *.
  pose proof (chars32_range _ L) as CR.
  assert (LC : length (firstn (chars32 (length g)) (digits 32 8 v)) = chars32 (length g)).
  { rewrite firstn_length, digits_length. lia. }
  unfold quantum32_bytes. rewrite LC, <- Z.
  rewrite undigits_digits by lia. change (32 ^ N.of_nat 8) with 1099511627776. rewrite N.mod_small by exact B.
  assert (Wz : wf (g ++ repeatN 0 (5 - length g))) by (apply wf_app; split; [exact W|apply wf_zeros]).
  assert (L5 : length (g ++ repeatN 0 (5 - length g)) = 5%nat) by (rewrite app_length, repeatN_length'; lia).
  unfold v. rewrite <- L5 at 1. rewrite be_encode_decode by exact Wz.
  rewrite chars32_bytes32 by exact L.
  rewrite firstn_app, firstn_all, Nat.sub_diag, firstn_O. apply app_nil_r.
Qed.

Lemma enc32_group_shape pad g : (1 <= length g <= 5)%nat -> wf g ->
  exists ds, ds = firstn (chars32 (length g)) (digits 32 8 (be_decode (g ++ repeatN 0 (5 - length g)))) /\
    enc32_group pad g = map (chr alpha32) ds ++ (if pad then repeatN PAD (8 - chars32 (length g)) else []) /\
    Forall (fun d => d < 32) ds /\ length ds = chars32 (length g).
Proof.
  intros L W. eexists. split; [reflexivity|]. split.
  - unfold enc32_group. destruct pad; [reflexivity|rewrite app_nil_r; reflexivity].
  - split; [apply Forall_firstn', digits_bound; lia|].
    pose proof (chars32_range _ L). rewrite firstn_length, digits_length. lia.
Qed.

Lemma forallb_pad k : forallb (fun x => x =? PAD) (repeatN PAD k) = true.
Proof. induction k; cbn [repeatN forallb]; [reflexivity|]. rewrite N.eqb_refl, IHk. reflexivity. Qed.

Lemma read_quantum32_group pad g rest : (1 <= length g <= 5)%nat -> wf g ->
  (length g < 5 -> rest = [])%nat ->
  exists ds tail, read_quantum32 pad (padc_of pad) 0 8 (enc32_group pad g ++ rest) [] =
                    Ok (ds, negb (length g =? 5)%nat, if (length g =? 5)%nat then rest else tail)
             /\ quantum32_bytes ds = g.
Proof.
  intros L W R. destruct (enc32_group_shape pad g L W) as [ds [Eds [EE [F LD]]]].
  pose proof (chars32_range _ L) as CR.
  exists ds. 
  assert (Q : quantum32_bytes ds = g) by (rewrite Eds; apply quantum32_group; assumption).
  rewrite EE, <- app_assoc.
  destruct (length g =? 5)%nat eqn:E5.
  - apply Nat.eqb_eq in E5. rewrite E5 in *. cbn [chars32 Nat.sub repeatN] in *.
    exists []. split; [|exact Q].
    replace (if pad then [] else []) with (@nil N) by (destruct pad; reflexivity). cbn [app].
    pose proof (read_quantum32_data pad ds F 0 0 rest []) as RD.
    replace (length ds + 0)%nat with 8%nat in RD by lia. rewrite RD. cbn [read_quantum32 negb app]. reflexivity.
  - apply Nat.eqb_neq in E5. rewrite (R ltac:(lia)). rewrite app_nil_r.
    set (c := chars32 (length g)) in *.
    assert (C8 : (c < 8)%nat) by (unfold c; destruct (length g) as [|[|[|[|[|[|]]]]]]; cbn; lia).
    assert (CN : (c <> 3 /\ c <> 6 /\ c <> 1)%nat) by (unfold c; destruct (length g) as [|[|[|[|[|[|]]]]]]; cbn; lia).
    destruct pad.
    + exists (repeatN PAD (7 - c)). split; [|exact Q].
      pose proof (read_quantum32_data true ds F 0 (8 - c) (repeatN PAD (8 - c)) []) as RD.
      replace (length ds + (8 - c))%nat with 8%nat in RD by lia. rewrite RD. clear RD.
      rewrite LD. cbn [Nat.add app].
      replace (8 - c)%nat with (S (7 - c)) by lia. cbn [repeatN read_quantum32 padc_of].
      rewrite N.eqb_refl, repeatN_length'.
      replace (2 <=? c)%nat with true by lia. replace (7 - c <? 8)%nat with true by lia. cbn [andb].
      replace (7 - c + c <? 7)%nat with false by lia.
      rewrite firstn_all2 by (rewrite repeatN_length'; lia). rewrite forallb_pad. cbn [negb].
      replace ((c =? 1) || (c =? 3) || (c =? 6))%nat with false by lia. cbn [negb]. reflexivity.
    + exists []. split; [|exact Q].
      pose proof (read_quantum32_data false ds F 0 (8 - c) [] []) as RD.
      replace (length ds + (8 - c))%nat with 8%nat in RD by lia. rewrite RD. clear RD.
      rewrite LD. cbn [Nat.add app].
      replace (8 - c)%nat with (S (7 - c)) by lia. cbn [read_quantum32 negb]. reflexivity.
Qed.

Lemma enc32_group_length_pos pad g : (1 <= length g <= 5)%nat -> (2 <= length (enc32_group pad g))%nat.
Proof.
  intros L. unfold enc32_group. pose proof (chars32_range _ L).
  destruct pad; rewrite ?app_length, map_length, firstn_length, digits_length; lia.
Qed.

Lemma b32_roundtrip_fuel pad : forall fe x fd, wf x -> (length x < fe)%nat ->
  (length (b32_encode_fuel fe pad x) < fd)%nat ->
  b32_decode_fuel fd pad (padc_of pad) (b32_encode_fuel fe pad x) = Ok x.
Proof.
  induction fe as [|fe IH]; intros x fd W Lx Ld; [lia|].
  destruct x as [|a x'].
  - cbn [b32_encode_fuel] in *. destruct fd; [cbn in Ld; lia|]. reflexivity.
  - cbn [b32_encode_fuel] in *. set (x := a :: x') in *.
    assert (Lg : (1 <= length (firstn 5 x) <= 5)%nat) by (rewrite firstn_length; unfold x; cbn [length]; lia).
    assert (Wg : wf (firstn 5 x)) by (apply wf_firstn, W).
    assert (Wr : wf (skipn 5 x)) by (apply wf_skipn, W).
    assert (Rr : (length (firstn 5 x) < 5)%nat -> b32_encode_fuel fe pad (skipn 5 x) = []).
    { intros H. rewrite firstn_length in H. rewrite skipn_all2 by lia. destruct fe; reflexivity. }
    destruct (read_quantum32_group pad (firstn 5 x) (b32_encode_fuel fe pad (skipn 5 x)) Lg Wg Rr) as [ds [tl [RQ QB]]].
    pose proof (enc32_group_length_pos pad _ Lg) as L2.
    rewrite app_length in Ld.
    destruct fd as [|fd]; [lia|]. cbn [b32_decode_fuel].
    destruct (enc32_group pad (firstn 5 x) ++ b32_encode_fuel fe pad (skipn 5 x)) as [|c0 t0] eqn:EE.
    { apply (f_equal (@length _)) in EE. rewrite app_length in EE. change (length (@nil N)) with 0%nat in EE. lia. }
    rewrite RQ. cbn [rbind]. rewrite QB.
    destruct (length (firstn 5 x) =? 5)%nat eqn:E5; cbn [negb].
    + rewrite IH; [cbn [rbind]; rewrite firstn_skipn; reflexivity|exact Wr| |lia].
      rewrite skipn_length. unfold x in *. cbn [length] in *. lia.
    + apply Nat.eqb_neq in E5. rewrite firstn_length in E5. rewrite firstn_all2 by lia. reflexivity.
Qed.

(* characters of an encoded string: alphabet only, then '=' only *)
Lemma enc32_data_clean ds : Forall (fun d => d < 32) ds ->
  Forall (fun c => is_newline c = false /\ c <> PAD /\ c < 128) (map (chr alpha32) ds).
Proof. induction 1 as [|d ds Hd _ IH]; cbn [map]; constructor; [apply chr32_props; exact Hd|exact IH]. Qed.

Lemma b32_encode_no_newline pad : forall fe x, wf x ->
  forallb (fun c => negb (is_newline c)) (b32_encode_fuel fe pad x) = true.
Proof.
  induction fe as [|fe IH]; intros x W; [reflexivity|]. destruct x as [|a x']; [reflexivity|].
  cbn [b32_encode_fuel]. rewrite forallb_app. apply Bool.andb_true_iff. split; [|apply IH, wf_skipn, W].
  assert (Lg : (1 <= length (firstn 5 (a :: x')) <= 5)%nat) by (rewrite firstn_length; cbn [length]; lia).
  destruct (enc32_group_shape pad _ Lg (wf_firstn 5 _ W)) as [ds [_ [EE [F _]]]]. rewrite EE, forallb_app.
  apply Bool.andb_true_iff. split.
  - apply forallb_forall. intros c Hc. pose proof (enc32_data_clean ds F) as CL. rewrite Forall_forall in CL.
    destruct (CL c Hc) as [A _]. rewrite A. reflexivity.
  - destruct pad; [|reflexivity]. clear. induction (8 - chars32 (length (firstn 5 (a :: x'))))%nat; cbn [repeatN forallb]; [reflexivity|].
    rewrite IHn. reflexivity.
Qed.

Theorem b32_decode_std_encode pad x : wf x -> b32_decode_std pad (b32_encode pad x) = Ok x.
Proof.
  intros W. unfold b32_decode_std, b32_encode, strip_newlines.
  rewrite filter_id by (apply b32_encode_no_newline; exact W).
  apply (b32_roundtrip_fuel pad); [exact W|lia|lia].
Qed.

(* the library's own pre-checks accept every encoded string *)
Lemma pit_data l : Forall (fun c => is_newline c = false /\ c <> PAD /\ c < 128) l -> forall rest,
  padding_is_trailing false (l ++ rest) = padding_is_trailing false rest.
Proof.
  induction 1 as [|c l [A [B _]] _ IH]; intros rest; [reflexivity|]. cbn [app padding_is_trailing].
  rewrite A. apply N.eqb_neq in B. rewrite B. apply IH.
Qed.
Lemma pit_pads s k : padding_is_trailing s (repeatN PAD k) = true.
Proof. revert s. induction k as [|k IH]; intros s; cbn [repeatN padding_is_trailing]; [reflexivity|]. change (is_newline PAD) with false. rewrite N.eqb_refl. apply IH. Qed.

Lemma b32_encode_padding_trailing : forall fe x, wf x -> padding_is_trailing false (b32_encode_fuel fe true x) = true.
Proof.
  induction fe as [|fe IH]; intros x W; [reflexivity|]. destruct x as [|a x']; [reflexivity|].
  cbn [b32_encode_fuel].
  assert (Lg : (1 <= length (firstn 5 (a :: x')) <= 5)%nat) by (rewrite firstn_length; cbn [length]; lia).
  destruct (enc32_group_shape true _ Lg (wf_firstn 5 _ W)) as [ds [_ [EE [F _]]]]. rewrite EE, <- app_assoc.
  rewrite pit_data by (apply enc32_data_clean; exact F).
  destruct (length (firstn 5 (a :: x')) =? 5)%nat eqn:E5.
  - apply Nat.eqb_eq in E5. rewrite E5. cbn [chars32 Nat.sub repeatN app]. apply IH, wf_skipn, W.
  - apply Nat.eqb_neq in E5. rewrite firstn_length in E5. rewrite (skipn_all2 (n := 5)) by lia.
    replace (b32_encode_fuel fe true []) with (@nil N) by (destruct fe; reflexivity). rewrite app_nil_r. apply pit_pads.
Qed.
Lemma b32_encode_no_ff : forall fe x, wf x -> existsb (fun c => c =? 255) (b32_encode_fuel fe false x) = false.
Proof.
  induction fe as [|fe IH]; intros x W; [reflexivity|]. destruct x as [|a x']; [reflexivity|].
  cbn [b32_encode_fuel]. rewrite existsb_app. apply Bool.orb_false_iff. split; [|apply IH, wf_skipn, W].
  assert (Lg : (1 <= length (firstn 5 (a :: x')) <= 5)%nat) by (rewrite firstn_length; cbn [length]; lia).
  destruct (enc32_group_shape false _ Lg (wf_firstn 5 _ W)) as [ds [_ [EE [F _]]]]. rewrite EE, app_nil_r.
  apply Bool.not_true_is_false. intros H. apply existsb_exists in H. destruct H as [c [Hc E]].
  pose proof (enc32_data_clean ds F) as CL. rewrite Forall_forall in CL. destruct (CL c Hc) as [_ [_ LT]].
  apply N.eqb_eq in E. lia.
Qed.

Theorem b32_decode_string_encode x : wf x -> b32_decode_string (b32_encode true x) = Ok x.
Proof.
  intros W. unfold b32_decode_string. unfold b32_encode at 1. rewrite b32_encode_padding_trailing by exact W.
  apply b32_decode_std_encode. exact W.
Qed.
Theorem b32_decode_nopad_encode x : wf x -> b32_decode_nopad (b32_encode false x) = Ok x.
Proof.
  intros W. unfold b32_decode_nopad. unfold b32_encode at 1. rewrite b32_encode_no_ff by exact W.
  apply b32_decode_std_encode. exact W.
Qed.

(* ================= encoded strings: alphabet, length, padding ================= *)
Lemma enc32_group_nopad_length g : (1 <= length g <= 5)%nat -> length (enc32_group false g) = chars32 (length g).
Proof.
  intros L. unfold enc32_group. rewrite map_length, firstn_length, digits_length. pose proof (chars32_range _ L). lia.
Qed.
Lemma enc32_group_pad_split g : enc32_group true g = enc32_group false g ++ repeatN PAD (8 - chars32 (length g)).
Proof. reflexivity. Qed.

Lemma b32_encode_nopad_length : forall fe x, (length x < fe)%nat ->
  length (b32_encode_fuel fe false x) = (8 * (length x / 5) + chars32 (length x mod 5))%nat.
Proof.
  induction fe as [|fe IH]; intros x Lx; [lia|]. destruct x as [|a x']; [reflexivity|].
  cbn [b32_encode_fuel]. set (x := a :: x') in *.
  assert (Lg : (1 <= length (firstn 5 x) <= 5)%nat) by (rewrite firstn_length; unfold x; cbn [length]; lia).
  rewrite app_length, enc32_group_nopad_length by exact Lg. rewrite IH by (rewrite skipn_length; unfold x in *; cbn [length] in *; lia).
  rewrite firstn_length, skipn_length.
  destruct (Nat.le_gt_cases 5 (length x)) as [G|G].
  - replace (Nat.min 5 (length x)) with 5%nat by lia. cbn [chars32].
    replace ((length x - 5) mod 5)%nat with (length x mod 5)%nat by lia.
    replace ((length x - 5) / 5)%nat with (length x / 5 - 1)%nat by lia.
    assert (1 <= length x / 5)%nat by lia. lia.
  - replace (Nat.min 5 (length x)) with (length x) by lia.
    replace (length x / 5)%nat with 0%nat by lia. replace (length x mod 5)%nat with (length x) by lia.
    replace (length x - 5)%nat with 0%nat by lia. change (0 / 5)%nat with 0%nat. change (0 mod 5)%nat with 0%nat.
    change (chars32 0) with 0%nat. lia.
Qed.

Definition pads32 (n : nat) : nat := if (n mod 5 =? 0)%nat then 0%nat else (8 - chars32 (n mod 5))%nat.
Lemma b32_encode_pad_split : forall fe x, (length x < fe)%nat ->
  b32_encode_fuel fe true x = b32_encode_fuel fe false x ++ repeatN PAD (pads32 (length x)).
Proof.
  induction fe as [|fe IH]; intros x Lx; [lia|]. destruct x as [|a x']; [reflexivity|].
  cbn [b32_encode_fuel]. set (x := a :: x') in *.
  rewrite enc32_group_pad_split. rewrite firstn_length.
  destruct (Nat.le_gt_cases 5 (length x)) as [G|G].
  - replace (Nat.min 5 (length x)) with 5%nat by lia. cbn [chars32 Nat.sub repeatN]. rewrite app_nil_r.
    rewrite IH by (rewrite skipn_length; unfold x in *; cbn [length] in *; lia).
    rewrite <- app_assoc. f_equal. f_equal. f_equal. unfold pads32. rewrite skipn_length.
    replace ((length x - 5) mod 5)%nat with (length x mod 5)%nat by lia. reflexivity.
  - replace (Nat.min 5 (length x)) with (length x) by lia. rewrite (skipn_all2 (n := 5)) by lia.
    replace (b32_encode_fuel fe true []) with (@nil N) by (destruct fe; reflexivity).
    replace (b32_encode_fuel fe false []) with (@nil N) by (destruct fe; reflexivity).
    rewrite !app_nil_r. f_equal. f_equal. unfold pads32.
    replace (length x mod 5)%nat with (length x) by lia.
    replace (length x =? 0)%nat with false by (unfold x; cbn [length]; lia). reflexivity.
Qed.

Lemma b32_encode_nopad_clean : forall fe x, wf x ->
  Forall (fun c => is_newline c = false /\ c <> PAD /\ c < 128) (b32_encode_fuel fe false x).
Proof.
  induction fe as [|fe IH]; intros x W; [constructor|]. destruct x as [|a x']; [constructor|].
  cbn [b32_encode_fuel]. apply Forall_app. split; [|apply IH, wf_skipn, W].
  assert (Lg : (1 <= length (firstn 5 (a :: x')) <= 5)%nat) by (rewrite firstn_length; cbn [length]; lia).
  destruct (enc32_group_shape false _ Lg (wf_firstn 5 _ W)) as [ds [_ [EE [F _]]]]. rewrite EE, app_nil_r.
  apply enc32_data_clean. exact F.
Qed.
