(* AuthRT.v — C05 "over exactly the bytes it was parsed from": for a parsed structure whose
   re-serialisation reproduces the consumed bytes (always for LeaseSet / EncryptedLeaseSet;
   for RouterInfo / LeaseSet2 / MetaLeaseSet exactly when no mapping holds slack, see UptoRT),
   a reported success rests on a valid signature over the RECEIVED bytes minus the signature. *)
From Coq Require Import ZifyN ZifyNat ZifyBool.
From Model Require Import Bytes Prim Tables Cert KAC Mapping Sig LS RI Crypto.
From Gen Require Import Consts Tables.
From Proofs Require Import BytesLemmas PrimProofs Frame LeafProofs CryptoProofs KacRT OffProofs MapRT LS2RT UptoRT LSRT.
Open Scope Z_scope.

(* the covered region of the received bytes *)
Definition covered (d r sg : bytes) : bytes := firstn (length d - length r - length sg) d.
Lemma covered_of_bytes b r sg pre : b ++ r = pre -> forall body, b = body ++ sg -> covered pre r sg = body /\ drop_last (length sg) b = body.
Proof.
  intros <- body ->. unfold covered, drop_last. rewrite !app_length.
  replace (length body + length sg + length r - length r - length sg)%nat with (length body) by lia.
  replace (length body + length sg - length sg)%nat with (length body) by lia.
  rewrite <- app_assoc. rewrite !firstn_app, !firstn_all, !Nat.sub_diag, !firstn_O, !app_nil_r. auto.
Qed.

Theorem router_info_verified_over_wire verify d i r : wf d -> read_router_info d = Ok (i, r) ->
  verdict verify (ri_verify_queries i) = true ->
  forall b, router_info_bytes i = Ok b -> b ++ r = d ->
  exists k, kac_signing_key (ri_ident i) = Some k /\
            verify ALG_ED25519 k (covered d r (sig_bytes (ri_sig i))) (sig_bytes (ri_sig i)) = true.
Proof.
  intros W H V b EB E. destruct (ri_verify_sound verify i V) as [full [k [EF [KK VV]]]].
  rewrite EB in EF. injection EF as <-. exists k. split; [exact KK|].
  assert (S : exists body, b = body ++ sig_bytes (ri_sig i)).
  { revert EB. unfold router_info_bytes. destruct (kac_bytes (ri_ident i)) as [ib| |]; cbn [rbind]; try discriminate.
    intros X; injection X as <-. eexists. rewrite !app_assoc. reflexivity. }
  destruct S as [body S]. destruct (covered_of_bytes b r _ d E body S) as [C D]. rewrite C, <- D. exact VV.
Qed.

Theorem encrypted_leaseset_message_is_wire d l r : wf d -> read_encrypted_lease_set d = Ok (l, r) ->
  els_bytes_without_sig l = covered d r (sig_bytes (el_sig l)).
Proof.
  intros W H. pose proof (read_els_RoundTrip d l r W H) as E. unfold els_bytes in E.
  destruct (covered_of_bytes (els_bytes_without_sig l ++ sig_bytes (el_sig l)) r _ d E _ eq_refl) as [C _]. symmetry. exact C.
Qed.

Theorem lease_set2_verified_over_wire verify x l r : wf x -> read_lease_set2 x = Ok (l, r) ->
  verdict verify (ls2_verify_queries l) = true ->
  forall b, lease_set2_bytes l = Ok b -> b ++ r = x ->
  exists dk, kac_signing_key (l2_dest l) = Some dk /\
    verdict verify (final_queries (Some dk) (kc_signing_type (k_kc (l2_dest l))) (l2_flags l) (l2_offline l)
                      (3%N :: covered x r (sig_bytes (l2_sig l))) (sig_bytes (l2_sig l))) = true.
Proof.
  intros W H V b EB E. destruct (ls2_verify_sound verify l V) as [full [dk [EF [KK VV]]]].
  rewrite EB in EF. injection EF as <-. exists dk. split; [exact KK|]. cbn zeta in VV.
  assert (S : exists body, b = body ++ sig_bytes (l2_sig l)).
  { revert EB. unfold lease_set2_bytes. destruct (lease_set2_content l) as [c| |]; cbn [rbind]; try discriminate.
    intros X; injection X as <-. eauto. }
  destruct S as [body S]. destruct (covered_of_bytes b r _ x E body S) as [C D]. rewrite C, <- D. exact VV.
Qed.

Theorem meta_lease_set_verified_over_wire verify x l r : wf x -> read_meta_lease_set x = Ok (l, r) ->
  verdict verify (meta_verify_queries l) = true ->
  forall b, meta_lease_set_bytes l = Ok b -> b ++ r = x ->
  exists dk, kac_signing_key (ml_dest l) = Some dk /\
    verdict verify (final_queries (Some dk) (kc_signing_type (k_kc (ml_dest l))) (ml_flags l) (ml_offline l)
                      (7%N :: covered x r (sig_bytes (ml_sig l))) (sig_bytes (ml_sig l))) = true.
Proof.
  intros W H V b EB E. destruct (meta_verify_sound verify l V) as [full [dk [EF [KK VV]]]].
  rewrite EB in EF. injection EF as <-. exists dk. split; [exact KK|]. cbn zeta in VV.
  assert (S : exists body, b = body ++ sig_bytes (ml_sig l)).
  { revert EB. unfold meta_lease_set_bytes. destruct (meta_lease_set_content l) as [c| |]; cbn [rbind]; try discriminate.
    intros X; injection X as <-. eauto. }
  destruct S as [body S]. destruct (covered_of_bytes b r _ x E body S) as [C D]. rewrite C, <- D. exact VV.
Qed.

Theorem lease_set_verified_over_wire verify d l : wf d -> read_lease_set d = Ok l ->
  verdict verify (ls_verify_queries l) = true ->
  exists b r dk a, lease_set_bytes l = Ok b /\ b ++ r = d /\ kac_signing_key (ls_dest l) = Some dk /\
    alg_of_type (kc_signing_type (k_kc (ls_dest l))) = Some a /\
    verify a dk (covered d r (sig_bytes (ls_sig l))) (sig_bytes (ls_sig l)) = true.
Proof.
  intros W H V. destruct (read_lease_set_RoundTrip d l W H) as [b [r [EB E]]].
  destruct (ls_verify_sound verify l V) as [full [dk [a [EF [KK [AA VV]]]]]].
  rewrite EB in EF. injection EF as <-. exists b, r, dk, a. repeat (split; [assumption|]).
  assert (S : exists body, b = body ++ sig_bytes (ls_sig l)).
  { revert EB. unfold lease_set_bytes. destruct (kac_bytes (ls_dest l)) as [db| |]; cbn [rbind]; try discriminate.
    destruct (new_integer_from_int _ _) as [cnt| |]; cbn [rbind]; try discriminate.
    intros X; injection X as <-. eexists. rewrite !app_assoc. reflexivity. }
  destruct S as [body S]. destruct (covered_of_bytes b r _ d E body S) as [C D]. rewrite C, <- D. exact VV.
Qed.
