(* MapRT.v — the mapping codec: the parser inverts the serialiser on every list of valid,
   distinct pairs (C11 round trip), so GoMapToMapping followed by ReadMapping returns the
   same pairs without errors. *)
From Coq Require Import ZifyN ZifyNat ZifyBool Sorting Permutation.
From Model Require Import Bytes Prim Mapping.
From Gen Require Import Consts.
From Proofs Require Import BytesLemmas PrimProofs MappingProofs.
Ltac Zify.zify_post_hook ::= Z.div_mod_to_equations.
Open Scope Z_scope.
Local Arguments Z.add : simpl never.
Local Arguments Z.mul : simpl never.
Local Arguments Z.of_nat : simpl never.
Local Arguments Z.to_nat : simpl never.

(* an I2PString with content s *)
Definition istr (s : bytes) : bytes := N.of_nat (length s) :: s.
Definition pair_ok (p : pair) : Prop := str_is_valid (fst p) = true /\ str_is_valid (snd p) = true.

Lemma str_valid_len_ok s : str_is_valid s = true -> str_len_ok s = true.
Proof.
  unfold str_is_valid, str_len_ok, str_length. destruct s as [|l rest]; [discriminate|].
  intros H. apply N.eqb_eq in H. rewrite H, N.ltb_irrefl. reflexivity.
Qed.
Lemma serialize_pair_ok p : pair_ok p -> serialize_pair p = fst p ++ [EQ] ++ snd p ++ [SEMI].
Proof. intros [A B]. unfold serialize_pair. rewrite (str_valid_len_ok _ A), (str_valid_len_ok _ B). reflexivity. Qed.
Lemma str_valid_nonempty s : str_is_valid s = true -> (1 <= length s)%nat.
Proof. destruct s; [discriminate|]. cbn [length]. lia. Qed.
Lemma serialize_pair_length p : pair_ok p -> (4 <= length (serialize_pair p))%nat.
Proof.
  intros H. rewrite (serialize_pair_ok p H). destruct H as [A B].
  apply str_valid_nonempty in A, B. rewrite !app_length. cbn [length]. lia.
Qed.

(* one pair at the head of the buffer *)
Lemma parse_pair_serialized p rest seen : pair_ok p ->
  existsb (bytes_eqb (key_content (fst p))) seen = false ->
  parse_pair (serialize_pair p ++ rest) seen = PPair rest p None.
Proof.
  intros OK D. rewrite (serialize_pair_ok p OK). destruct OK as [A B]. destruct p as [k v]. cbn [fst snd] in *.
  unfold parse_pair. rewrite <- !app_assoc.
  rewrite (read_i2pstring_app k _ A). cbn [app begins_with]. rewrite N.eqb_refl. cbn [negb tl].
  rewrite (read_i2pstring_app v _ B). cbn [app begins_with]. rewrite N.eqb_refl. cbn [negb tl fst].
  rewrite D. reflexivity.
Qed.

Lemma has_min_bytes_pair p rest : pair_ok p -> has_min_bytes (serialize_pair p ++ rest) = true.
Proof.
  intros OK. rewrite (serialize_pair_ok p OK). destruct OK as [A B]. destruct p as [k v]. cbn [fst snd] in *.
  unfold has_min_bytes.
  destruct (length ((k ++ [EQ] ++ v ++ [SEMI]) ++ rest) <? 6)%nat eqn:E6; [|reflexivity].
  cbn [andb]. apply Bool.negb_true_iff, Bool.negb_false_iff.
  unfold holds_complete_short_pair.
  destruct k as [|kl kb]; [discriminate|]. destruct v as [|vl vb]; [discriminate|].
  unfold str_is_valid in A, B. apply N.eqb_eq in A, B.
  change (((kl :: kb) ++ [EQ] ++ (vl :: vb) ++ [SEMI]) ++ rest) with (kl :: (kb ++ EQ :: vl :: vb ++ [SEMI]) ++ rest) in *.
  set (T := (kb ++ EQ :: vl :: vb ++ [SEMI]) ++ rest) in *.
  assert (L : (length T = 3 + length kb + length vb + length rest)%nat).
  { unfold T. rewrite !app_length. cbn [length]. rewrite !app_length. cbn [length]. lia. }
  cbn [length]. replace (S (length T) <? 4)%nat with false by lia.
  replace (N.to_nat kl) with (length kb) by lia.
  replace (S (length T) <=? 2 + length kb)%nat with false by lia.
  assert (NT : nth_error (kl :: T) (2 + length kb) = Some vl).
  { change (nth_error (kl :: T) (2 + length kb)) with (nth_error T (S (length kb))). unfold T.
    rewrite <- app_assoc. rewrite nth_error_app2 by lia.
    replace (S (length kb) - length kb)%nat with 1%nat by lia. reflexivity. }
  rewrite NT. apply Nat.leb_le. lia.
Qed.

(* the loop over a serialised list of pairs *)
Definition keys_of (ps : list pair) : list bytes := map (fun p => key_content (fst p)) ps.

Lemma existsb_notin (kc : bytes) seen : ~ In kc seen -> existsb (bytes_eqb kc) seen = false.
Proof.
  intros H. apply Bool.not_true_is_false. intros E. apply existsb_exists in E.
  destruct E as [x [Hx E]]. apply bytes_eqb_eq in E. subst. auto.
Qed.

Lemma serialize_pairs_cons p ps : serialize_pairs (p :: ps) = serialize_pair p ++ serialize_pairs ps.
Proof. reflexivity. Qed.

Lemma parse_pairs_serialized : forall ps p fuel vals errs seen count prev,
  Forall pair_ok (p :: ps) -> NoDup (keys_of (p :: ps)) ->
  (forall q, In q (keys_of (p :: ps)) -> ~ In q seen) ->
  (count + length (p :: ps) <= 1000)%nat ->
  (length (serialize_pairs (p :: ps)) < fuel)%nat ->
  (count = 0%nat \/ (length (serialize_pairs (p :: ps)) < prev)%nat) ->
  parse_pairs fuel (serialize_pairs (p :: ps)) vals errs seen count prev = Some (vals ++ p :: ps, errs).
Proof.
  induction ps as [|q ps IH]; intros p fuel vals errs seen count prev OK ND NS CNT FU PR.
  - destruct fuel as [|f]; [lia|]. cbn [parse_pairs]. change MAX_PAIRS with 1000%nat.
    cbn [length] in CNT. replace (1000 <=? count)%nat with false by lia.
    inversion OK as [|? ? OKp _]; subst.
    assert (EE : serialize_pairs [p] = serialize_pair p ++ []) by reflexivity. rewrite EE in *. clear EE.
    rewrite (has_min_bytes_pair p [] OKp). cbn [negb].
    replace ((prev <=? length (serialize_pair p ++ []))%nat && (0 <? count)%nat)%bool with false by lia.
    rewrite parse_pair_serialized; [|exact OKp|apply existsb_notin, NS; cbn; auto].
    cbn [length Nat.eqb]. reflexivity.
  - destruct fuel as [|f]; [lia|]. cbn [parse_pairs]. change MAX_PAIRS with 1000%nat.
    cbn [length] in CNT. replace (1000 <=? count)%nat with false by lia.
    inversion OK as [|? ? OKp OKr]; subst.
    rewrite (serialize_pairs_cons p). rewrite (has_min_bytes_pair p _ OKp). cbn [negb].
    rewrite (serialize_pairs_cons p) in FU, PR. rewrite app_length in FU, PR.
    pose proof (serialize_pair_length p OKp) as L4.
    replace ((prev <=? length (serialize_pair p ++ serialize_pairs (q :: ps)))%nat && (0 <? count)%nat)%bool with false
      by (rewrite app_length; lia).
    rewrite parse_pair_serialized; [|exact OKp|apply existsb_notin, NS; cbn; auto].
    inversion OKr as [|? ? OKq _]; subst.
    pose proof (serialize_pair_length q OKq) as L4q.
    assert (LN : (4 <= length (serialize_pairs (q :: ps)))%nat) by (rewrite serialize_pairs_cons, app_length; lia).
    replace (length (serialize_pairs (q :: ps)) =? 0)%nat with false by lia.
    rewrite IH.
    + rewrite <- app_assoc. reflexivity.
    + exact OKr.
    + change (keys_of (p :: q :: ps)) with (key_content (fst p) :: keys_of (q :: ps)) in ND.
      apply NoDup_cons_iff in ND. tauto.
    + intros k Hk [E|Hs].
      * change (keys_of (p :: q :: ps)) with (key_content (fst p) :: keys_of (q :: ps)) in ND.
        apply NoDup_cons_iff in ND. destruct ND as [NI _]. apply NI. rewrite E. exact Hk.
      * apply (NS k); [cbn; right; exact Hk|exact Hs].
    + cbn [length]. lia.
    + lia.
    + right. rewrite app_length. lia.
Qed.

(* ReadMappingValues / ReadMapping on a serialised list *)
Lemma serialize_pairs_length_pos p ps : Forall pair_ok (p :: ps) -> (4 <= length (serialize_pairs (p :: ps)))%nat.
Proof.
  intros OK. inversion OK as [|? ? OKp _]; subst. rewrite serialize_pairs_cons, app_length.
  pose proof (serialize_pair_length p OKp). lia.
Qed.

Lemma integer_int_be2' v : (v < 65536)%N -> integer_int (be_encode 2 v) = Z.of_N v.
Proof.
  intros H. unfold integer_int. rewrite int_from_bytes_le8 by (rewrite be_encode_length; lia).
  rewrite be_decode_encode_small by (change (256 ^ N.of_nat 2)%N with 65536%N; lia).
  apply wrap64_small. unfold two63. lia.
Qed.

Theorem read_mapping_serialized ps rest :
  Forall pair_ok ps -> NoDup (keys_of ps) -> (length ps <= 1000)%nat ->
  (N.of_nat (length (serialize_pairs ps)) < 65536)%N ->
  let payload := serialize_pairs ps in
  let sz := be_encode 2 (N.of_nat (length payload)) in
  read_mapping (sz ++ payload ++ rest) =
    Some (mkMap (Some sz) (Some ps), rest,
          match ps, rest with [], _ => [] | _, [] => [] | _, _ => [MBeyond] end).
Proof.
  intros OK ND LN LP payload sz. assert (LP' : (N.of_nat (length payload) < 65536)%N) by exact LP. unfold read_mapping. change c_data_MAPPING_MIN_SIZE with 2.
  assert (Lsz : length sz = 2%nat) by apply be_encode_length.
  rewrite app_length, Lsz. replace (Z.of_nat (2 + length (payload ++ rest)) <? 2) with false by lia.
  rewrite (firstn_exact sz _ 2 Lsz). rewrite skipn_app, Lsz, Nat.sub_diag, skipn_all2 by lia.
  cbn [app skipn].
  assert (IS : integer_int sz = Z.of_N (N.of_nat (length payload))) by (unfold sz; apply integer_int_be2'; lia).
  rewrite !IS.
  destruct ps as [|p ps].
  - change payload with (@nil N). cbn [length app]. reflexivity.
  - pose proof (serialize_pairs_length_pos p ps OK) as L4. fold payload in L4.
    replace (Z.of_N (N.of_nat (length payload)) =? 0) with false by lia.
    rewrite app_length. replace (Z.of_nat (length payload + length rest) <? Z.of_N (N.of_nat (length payload))) with false by lia.
    replace (Z.to_nat (Z.of_N (N.of_nat (length payload)))) with (length payload) by lia.
    rewrite (firstn_exact payload rest _ eq_refl). rewrite skipn_app, Nat.sub_diag, skipn_all2 by lia. cbn [app skipn].
    unfold read_mapping_values. replace (length payload <? 1)%nat with false by lia.
    replace (Z.of_nat (length payload) >? Z.of_N (N.of_nat (length payload))) with false by lia.
    replace (Z.of_N (N.of_nat (length payload)) >? Z.of_nat (length payload)) with false by lia.
    unfold payload. rewrite parse_pairs_serialized; try assumption; try lia.
    + cbn [app length Nat.eqb]. rewrite app_nil_r.
      destruct rest as [|b rest].
      * cbn [length]. replace (Z.of_nat (length (serialize_pairs (p :: ps)) + 0) >? Z.of_N (N.of_nat (length (serialize_pairs (p :: ps))))) with false by lia.
        reflexivity.
      * cbn [length]. replace (Z.of_nat (length (serialize_pairs (p :: ps)) + S (length rest)) >? Z.of_N (N.of_nat (length (serialize_pairs (p :: ps))))) with true by lia.
        reflexivity.
    + intros q _ [].
Qed.

(* ---- GoMapToMapping, then ReadMapping ---- *)
Definition wire_pair (e : bytes * bytes) : pair := (istr (fst e), istr (snd e)).

Lemma istr_valid s : str_is_valid (istr s) = true.
Proof. unfold istr, str_is_valid. apply N.eqb_refl. Qed.
Lemma wire_pair_ok e : pair_ok (wire_pair e).
Proof. split; apply istr_valid. Qed.
Lemma key_content_istr s : (length s <= 255)%nat -> key_content (istr s) = s.
Proof. intros H. unfold key_content, istr. destruct (to_i2pstring_ok s H) as [_ [_ D]]. rewrite D. reflexivity. Qed.

Lemma to_pairs_shape kv p : to_pairs kv = Ok p ->
  p = map wire_pair kv /\ Forall (fun e => (length (fst e) <= 255)%nat /\ (length (snd e) <= 255)%nat) kv.
Proof.
  revert p. induction kv as [|[k v] t IH]; intros p H.
  - cbn in H. injection H as <-. split; [reflexivity|constructor].
  - cbn [to_pairs] in H. unfold to_i2pstring in H at 1. change STRING_MAX with 255 in H.
    destruct (Z.of_nat (length k) >? 255) eqn:Ek; [discriminate|]. cbn [rbind] in H.
    unfold to_i2pstring in H at 1. change STRING_MAX with 255 in H.
    destruct (Z.of_nat (length v) >? 255) eqn:Ev; [discriminate|]. cbn [rbind] in H.
    destruct (to_pairs t) as [r| |]; cbn [rbind] in H; try discriminate.
    destruct (IH r eq_refl) as [-> F]. injection H as <-. split; [reflexivity|].
    constructor; [cbn [fst snd]; lia|exact F].
Qed.

Lemma fold_sizes s : Forall pair_ok s -> forall a,
  fold_left (fun acc p => acc + Z.of_nat (length (fst p)) + Z.of_nat (length (snd p))) s a =
  a + Z.of_nat (length (serialize_pairs s)) - 2 * Z.of_nat (length s).
Proof.
  induction 1 as [|p s OKp _ IH]; intros a; cbn [fold_left]; [cbn; lia|].
  rewrite IH, serialize_pairs_cons, app_length, (serialize_pair_ok p OKp), !app_length. cbn [length].
  unfold pair, bytes in *. lia.
Qed.

Lemma keys_of_wire kv : Forall (fun e => (length (fst e) <= 255)%nat /\ (length (snd e) <= 255)%nat) kv ->
  keys_of (map wire_pair kv) = map fst kv.
Proof.
  induction 1 as [|e t [Hk _] _ IH]; [reflexivity|]. cbn [map keys_of]. unfold keys_of in IH. rewrite IH.
  unfold wire_pair at 1. cbn [fst]. rewrite key_content_istr by exact Hk. reflexivity.
Qed.

Theorem go_map_roundtrip kv m : NoDup (map fst kv) -> go_map_to_mapping kv = Ok m ->
  exists sz, read_mapping (mapping_data m) = Some (mkMap (Some sz) (Some (map_values m)), [], []) /\
    Permutation (map_values m) (map wire_pair kv) /\ Sorted key_le (map_values m) /\
    be_decode sz = N.of_nat (length (serialize_pairs (map_values m))).
Proof.
  intros ND H. unfold go_map_to_mapping in H.
  destruct (to_pairs kv) as [p| |] eqn:TP; cbn [rbind] in H; try discriminate.
  destruct (to_pairs_shape _ _ TP) as [-> F].
  unfold values_to_mapping in H. change MAX_PAIRS with 1000%nat in H.
  destruct (1000 <? length (map wire_pair kv))%nat eqn:E1; [discriminate|]. apply Nat.ltb_ge in E1.
  set (s := mapping_order (map wire_pair kv)) in *.
  assert (PM : Permutation (map wire_pair kv) s) by apply mapping_order_perm.
  assert (OK : Forall pair_ok s).
  { apply (Permutation_Forall PM). apply Forall_forall. intros x Hx. apply in_map_iff in Hx.
    destruct Hx as [e [<- _]]. apply wire_pair_ok. }
  rewrite (fold_sizes s OK) in H.
  change c_data_MAX_MAPPING_DATA_SIZE with 65535 in H.
  destruct (2 * Z.of_nat (length s) + Z.of_nat (length (serialize_pairs s)) - 2 * Z.of_nat (length s) >? 65535) eqn:E2; [discriminate|].
  destruct (new_integer_from_int _ 2) as [szf| |]; cbn [rbind] in H; try discriminate.
  injection H as <-.
  assert (LP : (N.of_nat (length (serialize_pairs s)) < 65536)%N) by lia.
  unfold mapping_data, map_values. cbn [m_size m_vals].
  rewrite N.mod_small by exact LP.
  assert (NDs : NoDup (keys_of s)).
  { apply (Permutation_NoDup (l := keys_of (map wire_pair kv))).
    - unfold keys_of. apply Permutation_map. exact PM.
    - rewrite keys_of_wire by exact F. exact ND. }
  assert (LNs : (length s <= 1000)%nat) by (unfold s; rewrite mapping_order_length; exact E1).
  pose proof (read_mapping_serialized s [] OK NDs LNs LP) as R. cbn zeta in R. rewrite app_nil_r in R.
  exists (be_encode 2 (N.of_nat (length (serialize_pairs s)))). split.
  - rewrite R. f_equal. f_equal. destruct s; reflexivity.
  - split; [symmetry; exact PM|]. split; [apply mapping_order_sorted|].
    apply be_decode_encode_small. change (256 ^ N.of_nat 2)%N with 65536%N. exact LP.
Qed.

(* the deterministic encoding: any two orders of the same entries give the same bytes *)
Lemma go_map_rejects_over_size kv p : to_pairs kv = Ok p ->
  (65535 < Z.of_nat (length (serialize_pairs (mapping_order p)))) -> go_map_to_mapping kv = Err.
Proof.
  intros TP H. unfold go_map_to_mapping. rewrite TP. cbn [rbind]. unfold values_to_mapping.
  destruct (MAX_PAIRS <? length p)%nat; [reflexivity|].
  destruct (to_pairs_shape _ _ TP) as [-> F].
  assert (OK : Forall pair_ok (mapping_order (map wire_pair kv))).
  { apply (Permutation_Forall (mapping_order_perm _)). apply Forall_forall. intros x Hx. apply in_map_iff in Hx.
    destruct Hx as [e [<- _]]. apply wire_pair_ok. }
  rewrite (fold_sizes _ OK). change c_data_MAX_MAPPING_DATA_SIZE with 65535.
  match goal with |- (if ?c then _ else _) = _ => replace c with true by lia end. reflexivity.
Qed.

(* ---- termination: the fuel of the pair loop is never exhausted (C04: time bounded by the
   input length) ---- *)
Lemma read_i2pstring_shorter r s t : read_i2pstring r = Ok (s, t) -> (length t < length r)%nat.
Proof.
  intros H. destruct (read_i2pstring_ok _ _ _ H) as [l [rest [_ [E L]]]]. rewrite E, app_length. lia.
Qed.
Lemma tl_length (l : bytes) : (length (tl l) <= length l)%nat.
Proof. destruct l; cbn; lia. Qed.
Lemma parse_pair_progress r seen r' p e : parse_pair r seen = PPair r' p e -> (length r' < length r)%nat.
Proof.
  unfold parse_pair.
  destruct (read_i2pstring r) as [[s t]| |] eqn:RK.
  - pose proof (read_i2pstring_shorter _ _ _ RK) as L1.
    destruct (negb (begins_with t EQ)); [discriminate|].
    destruct (read_i2pstring (tl t)) as [[s2 t2]| |] eqn:RV.
    + pose proof (read_i2pstring_shorter _ _ _ RV) as L2. pose proof (tl_length t). pose proof (tl_length t2).
      destruct (negb (begins_with t2 SEMI)); [discriminate|]. intros HH; injection HH as <- _ _. lia.
    + cbn [begins_with negb]. discriminate.
    + cbn [begins_with negb]. discriminate.
  - cbn [begins_with negb]. discriminate.
  - cbn [begins_with negb]. discriminate.
Qed.

Lemma parse_pairs_terminates : forall fuel r vals errs seen count prev, (length r < fuel)%nat ->
  parse_pairs fuel r vals errs seen count prev <> None.
Proof.
  induction fuel as [|f IH]; intros r vals errs seen count prev L; [lia|].
  cbn [parse_pairs].
  destruct (MAX_PAIRS <=? count)%nat; [discriminate|].
  destruct (negb (has_min_bytes r)); [discriminate|].
  destruct ((prev <=? length r)%nat && (0 <? count)%nat)%bool; [discriminate|].
  destruct (parse_pair r seen) as [r0 e|r' p e] eqn:PP; [discriminate|].
  pose proof (parse_pair_progress _ _ _ _ _ PP) as PR.
  destruct (length r' =? 0)%nat; [discriminate|]. apply IH. lia.
Qed.

Theorem read_mapping_terminates b : read_mapping b <> None.
Proof.
  unfold read_mapping. destruct (Z.of_nat (length b) <? c_data_MAPPING_MIN_SIZE); [discriminate|].
  destruct (integer_int (firstn 2 b) =? 0); [discriminate|].
  assert (RV : forall d size, read_mapping_values d size <> None).
  { intros d size. unfold read_mapping_values. destruct (length d <? 1)%nat; [discriminate|].
    pose proof (parse_pairs_terminates (S (length d)) d []
      (if Z.of_nat (length d) >? size then [MBeyond] else if size >? Z.of_nat (length d) then [MExceeds] else []) [] 0 (length d) ltac:(lia)) as T.
    destruct (parse_pairs _ _ _ _ _ _ _) as [[v e]|]; [discriminate|congruence]. }
  destruct (Z.of_nat (length (skipn 2 b)) <? integer_int (firstn 2 b)).
  - pose proof (RV (skipn 2 b) (integer_int (firstn 2 b))) as T.
    destruct (read_mapping_values _ _) as [[v e]|]; [discriminate|congruence].
  - pose proof (RV (firstn (Z.to_nat (integer_int (firstn 2 b))) (skipn 2 b)) (integer_int (firstn 2 b))) as T.
    destruct (read_mapping_values _ _) as [[v e]|]; [discriminate|congruence].
Qed.

(* the number of pairs never exceeds the limit: a parsed mapping holds at most 1000 pairs *)
Lemma parse_pairs_bounded : forall fuel r vals errs seen count prev v e,
  parse_pairs fuel r vals errs seen count prev = Some (v, e) -> (length vals <= count)%nat -> (count <= 1000)%nat ->
  (length v <= 1000)%nat.
Proof.
  induction fuel as [|f IH]; intros r vals errs seen count prev v e H LV LC; [discriminate|].
  cbn [parse_pairs] in H. change MAX_PAIRS with 1000%nat in H.
  destruct (1000 <=? count)%nat eqn:EC; [injection H as <- _; lia|]. apply Nat.leb_gt in EC.
  destruct (negb (has_min_bytes r)); [injection H as <- _; lia|].
  destruct ((prev <=? length r)%nat && (0 <? count)%nat)%bool; [injection H as <- _; lia|].
  destruct (parse_pair r seen) as [r0 e0|r' p e0]; [injection H as <- _; lia|].
  destruct (length r' =? 0)%nat; [injection H as <- _; rewrite app_length; cbn [length]; lia|].
  apply (IH _ _ _ _ _ _ _ _ H); [rewrite app_length; cbn [length]; lia|lia].
Qed.

(* ---- parse-side inversion: what an error-free parse says about the input ---- *)
Lemma read_i2pstring_valid r s t : read_i2pstring r = Ok (s, t) -> str_is_valid s = true /\ r = s ++ t.
Proof.
  intros H. destruct (read_i2pstring_ok _ _ _ H) as [l [rest [E1 [E2 L]]]]. split; [|exact E2].
  destruct s as [|a s']; [cbn in L; lia|]. rewrite E2 in E1. cbn [app] in E1. injection E1 as -> _.
  unfold str_is_valid. apply N.eqb_eq. cbn [length] in L. lia.
Qed.
Lemma begins_with_inv r c : begins_with r c = true -> r = c :: tl r.
Proof. destruct r as [|x t]; cbn [begins_with tl]; [discriminate|]. intros H. apply N.eqb_eq in H. subst. reflexivity. Qed.

Lemma parse_pair_inv r seen r' p e : parse_pair r seen = PPair r' p e -> pair_ok p /\ r = serialize_pair p ++ r'.
Proof.
  unfold parse_pair.
  destruct (read_i2pstring r) as [[s t]| |] eqn:RK; try (cbn [begins_with negb]; discriminate).
  destruct (read_i2pstring_valid _ _ _ RK) as [VK EK].
  destruct (begins_with t EQ) eqn:BE; cbn [negb]; [|discriminate].
  destruct (read_i2pstring (tl t)) as [[s2 t2]| |] eqn:RV; try (cbn [begins_with negb]; discriminate).
  destruct (read_i2pstring_valid _ _ _ RV) as [VV EV].
  destruct (begins_with t2 SEMI) eqn:BS; cbn [negb]; [|discriminate].
  intros H. injection H as <- <- _.
  assert (OK : pair_ok (s, s2)) by (split; assumption). split; [exact OK|].
  rewrite (serialize_pair_ok _ OK). cbn [fst snd]. rewrite <- !app_assoc. cbn [app].
  rewrite EK at 1. f_equal. rewrite (begins_with_inv _ _ BE) at 1. f_equal. rewrite EV at 1. f_equal.
  apply begins_with_inv. exact BS.
Qed.

Lemma parse_pairs_inv : forall fuel r vals errs seen count prev v e,
  parse_pairs fuel r vals errs seen count prev = Some (v, e) ->
  exists new, e = errs ++ new /\
    (new = [] -> exists ps slack, v = vals ++ ps /\ r = serialize_pairs ps ++ slack /\
                   (slack = [] \/ has_min_bytes slack = false) /\ Forall pair_ok ps).
Proof.
  induction fuel as [|f IH]; intros r vals errs seen count prev v e H; [discriminate|].
  cbn [parse_pairs] in H.
  destruct (MAX_PAIRS <=? count)%nat.
  { injection H as <- <-. exists [MMaxPairs]. split; [reflexivity|discriminate]. }
  destruct (has_min_bytes r) eqn:HM; cbn [negb] in H.
  2:{ injection H as <- <-. exists []. split; [rewrite app_nil_r; reflexivity|]. intros _.
      exists [], r. rewrite app_nil_r. repeat split; auto. }
  destruct ((prev <=? length r)%nat && (0 <? count)%nat)%bool.
  { injection H as <- <-. exists [MProgress]. split; [reflexivity|discriminate]. }
  destruct (parse_pair r seen) as [r0 e0|r' p e0] eqn:PP.
  { injection H as <- <-. exists [e0]. split; [reflexivity|discriminate]. }
  destruct (parse_pair_inv _ _ _ _ _ PP) as [OKp Er].
  destruct (length r' =? 0)%nat eqn:E0.
  - injection H as <- <-. apply Nat.eqb_eq in E0. destruct r'; [|discriminate].
    exists (match e0 with Some x => [x] | None => [] end). split; [destruct e0; [reflexivity|rewrite app_nil_r; reflexivity]|].
    intros N0. exists [p], []. rewrite !app_nil_r in *. repeat split; auto.
    cbn [serialize_pairs flat_map]. rewrite app_nil_r. exact Er.
  - destruct (IH _ _ _ _ _ _ _ _ H) as [new' [Ee K]].
    exists ((match e0 with Some x => [x] | None => [] end) ++ new'). split.
    + rewrite Ee. destruct e0; rewrite <- ?app_assoc; reflexivity.
    + intros N0. apply app_eq_nil in N0. destruct N0 as [N1 N2].
      destruct (K N2) as [ps [slack [Ev [Er' [SL F]]]]].
      exists (p :: ps), slack. split; [rewrite Ev, <- app_assoc; reflexivity|].
      split; [rewrite serialize_pairs_cons, <- app_assoc, <- Er'; exact Er|]. split; [exact SL|].
      constructor; assumption.
Qed.

(* an error-free (warnings aside) ReadMapping: the input is size field, the serialised pairs,
   at most 5 bytes of slack that cannot hold a pair, and the remainder *)
Theorem read_mapping_inv b m r e : read_mapping b = Some (m, r, e) -> fatal_errors e = [] ->
  exists slack, b = firstn 2 b ++ serialize_pairs (map_values m) ++ slack ++ r /\
    m_size m = Some (firstn 2 b) /\ length (firstn 2 b) = 2%nat /\
    integer_int (firstn 2 b) = Z.of_nat (length (serialize_pairs (map_values m) ++ slack)) /\
    (slack = [] \/ has_min_bytes slack = false) /\ Forall pair_ok (map_values m).
Proof.
  unfold read_mapping. change c_data_MAPPING_MIN_SIZE with 2.
  destruct (Z.of_nat (length b) <? 2) eqn:E2.
  { intros H. injection H as <- <- <-. cbn. discriminate. }
  assert (L2 : length (firstn 2 b) = 2%nat) by (rewrite firstn_length; lia).
  destruct (integer_int (firstn 2 b) =? 0) eqn:E0.
  { intros H _. injection H as <- <- <-. exists []. cbn [map_values m_vals m_size serialize_pairs flat_map app].
    rewrite firstn_skipn. repeat split; auto. cbn [length]. lia. }
  destruct (Z.of_nat (length (skipn 2 b)) <? integer_int (firstn 2 b)) eqn:E1.
  { destruct (read_mapping_values _ _) as [[v e']|]; [|discriminate]. intros H. injection H as <- <- <-. cbn. discriminate. }
  set (size := integer_int (firstn 2 b)) in *.
  set (d := firstn (Z.to_nat size) (skipn 2 b)).
  assert (Ld : length d = Z.to_nat size) by (unfold d; rewrite firstn_length; lia).
  unfold read_mapping_values. destruct (length d <? 1)%nat eqn:Ed.
  { intros H. injection H as <- <- <-. intros F. exfalso.
    unfold fatal_errors in F. rewrite !filter_app in F. cbn in F. destruct (_ >? _); cbn in F; discriminate. }
  replace (Z.of_nat (length d) >? size) with false by lia. replace (size >? Z.of_nat (length d)) with false by lia.
  destruct (parse_pairs (S (length d)) d [] [] [] 0 (length d)) as [[v e']|] eqn:PP; [|discriminate].
  destruct (parse_pairs_inv _ _ _ _ _ _ _ _ _ PP) as [new [Ee K]]. cbn [app] in Ee. subst e'.
  intros H. injection H as <- <- <-. intros F.
  assert (N0 : new = []).
  { destruct new as [|x new']; [reflexivity|]. exfalso. cbn [length Nat.eqb] in F.
    unfold fatal_errors in F. rewrite !filter_app in F. apply app_eq_nil in F. destruct F as [_ F].
    apply app_eq_nil in F. destruct F as [_ F]. cbn in F. discriminate. }
  destruct (K N0) as [ps [slack [Ev [Er [SL FO]]]]]. cbn [app] in Ev. subst v.
  exists slack. cbn [map_values m_vals m_size]. split.
  - rewrite (app_assoc (serialize_pairs ps)), <- Er. unfold d.
    rewrite (app_assoc (firstn 2 b)). rewrite <- (firstn_skipn 2 b) at 1. rewrite <- app_assoc. f_equal.
    symmetry. apply firstn_skipn.
  - repeat split; auto. rewrite <- Er, Ld. lia.
Qed.

(* hence: Data() reproduces the consumed bytes exactly when there is no slack — the precise
   extent of known finding D2 *)
Lemma integer_int_2bytes l : length l = 2%nat -> wf l -> integer_int l = Z.of_N (be_decode l) /\ (be_decode l < 65536)%N.
Proof.
  intros L W. pose proof (be_decode_bound l W) as B. rewrite L in B. change (256 ^ N.of_nat 2)%N with 65536%N in B.
  split; [|exact B]. unfold integer_int. rewrite int_from_bytes_le8 by lia. apply wrap64_small. unfold two63. lia.
Qed.

Theorem mapping_roundtrip_iff_no_slack b m r e : wf b -> read_mapping b = Some (m, r, e) -> fatal_errors e = [] ->
  exists slack, b = firstn 2 b ++ serialize_pairs (map_values m) ++ slack ++ r /\
                (slack = [] \/ has_min_bytes slack = false) /\
                (mapping_data m ++ r = b <-> slack = []).
Proof.
  intros W H F. destruct (read_mapping_inv _ _ _ _ H F) as [slack [Eb [MS [L2 [II [SL FO]]]]]].
  exists slack. split; [exact Eb|]. split; [exact SL|].
  destruct (integer_int_2bytes _ L2 (wf_firstn 2 _ W)) as [I2 B2].
  unfold mapping_data. rewrite MS.
  set (payload := serialize_pairs (map_values m)) in *.
  split.
  - intros E. apply (f_equal (@length _)) in E. apply (f_equal (@length _)) in Eb.
    rewrite !app_length in E. rewrite be_encode_length in E. rewrite !app_length in Eb. rewrite L2 in Eb.
    destruct slack; [reflexivity|cbn [length] in *; lia].
  - intros ->. rewrite app_nil_r in II. cbn [app] in Eb.
    assert (EN : N.of_nat (length payload) = be_decode (firstn 2 b)) by lia.
    rewrite EN, N.mod_small by exact B2.
    rewrite <- L2 at 1. rewrite be_encode_decode by (apply wf_firstn, W).
    rewrite <- app_assoc. symmetry. exact Eb.
Qed.

(* ---- appended bytes: same mapping, remainder extended, at most the non-fatal warning added ---- *)
Theorem read_mapping_app b m r e y : read_mapping b = Some (m, r, e) -> fatal_errors e = [] ->
  exists e', read_mapping (b ++ y) = Some (m, r ++ y, e') /\ fatal_errors e' = [].
Proof.
  unfold read_mapping. change c_data_MAPPING_MIN_SIZE with 2.
  destruct (Z.of_nat (length b) <? 2) eqn:E2.
  { intros H. injection H as <- <- <-. cbn. discriminate. }
  rewrite app_length. replace (Z.of_nat (length b + length y) <? 2) with false by lia.
  rewrite (firstn_app 2), (skipn_app 2). replace (2 - length b)%nat with 0%nat by lia.
  rewrite firstn_O, app_nil_r, skipn_O.
  destruct (integer_int (firstn 2 b) =? 0) eqn:E0.
  { intros H _. injection H as <- <- <-. exists []. auto. }
  set (size := integer_int (firstn 2 b)) in *.
  destruct (Z.of_nat (length (skipn 2 b)) <? size) eqn:E1.
  { destruct (read_mapping_values _ _) as [[v e']|]; [|discriminate]. intros H. injection H as <- <- <-. cbn. discriminate. }
  rewrite app_length. replace (Z.of_nat (length (skipn 2 b) + length y) <? size) with false by lia.
  assert (SP : (0 <= size) \/ size < 0) by lia.
  rewrite firstn_app, skipn_app.
  replace (Z.to_nat size - length (skipn 2 b))%nat with 0%nat by lia. rewrite firstn_O, app_nil_r, skipn_O.
  destruct (read_mapping_values (firstn (Z.to_nat size) (skipn 2 b)) size) as [[v e']|]; [|discriminate].
  intros H F. injection H as <- <- <-.
  eexists. split; [reflexivity|].
  unfold fatal_errors in *. rewrite !filter_app in *. apply app_eq_nil in F. destruct F as [_ F]. rewrite F, app_nil_r.
  destruct (_ >? _); reflexivity.
Qed.
