(* GuardTie.v — the parsers' own guards, regenerated from their Go bodies (Gen/Validators.v), are
   the comparisons the hand-written model makes, and an input the source's guard refuses is
   refused by the model's parser.  A change of a guard's operator, operand or constant in the
   source changes the regenerated definition and breaks a theorem here before any input is run. *)
From Coq Require Import ZifyN ZifyNat ZifyBool.
From Model Require Import Bytes Prim Tables Cert KAC Mapping Sig LS Enc Validate.
From Gen Require Import Consts Tables Validators.
From Proofs Require Import BytesLemmas PrimProofs ValidatorTie.
Ltac Zify.zify_post_hook ::= Z.div_mod_to_equations.
Open Scope Z_scope.
Local Arguments Z.of_nat : simpl never.

(* innermost conditionals first, so that every hypothesis is a plain comparison *)
Ltac split_ifs_goal :=
  repeat (match goal with
          | |- context [if ?c then _ else _] =>
              lazymatch c with
              | context [if _ then _ else _] => fail
              | _ => let E := fresh "E" in destruct c eqn:E
              end
          end; cbv beta iota).
(* A guard tie is proved without looking at how the Go function arranges its comparison (if n < K
   { return err }, the inverted if n >= K { return nil }, a named bound ...): lengths become opaque
   integers, every definition is unfolded down to comparisons on Z, each conditional on either side is
   decided by case analysis and the cases closed by linear arithmetic. *)
Ltac tie_cases :=
  repeat match goal with
         | |- context [Z.of_nat (@length ?A ?d)] =>
             let n := fresh "n" in let En := fresh "En" in
             remember (Z.of_nat (@length A d)) as n eqn:En; clear En
         end;
  cbv -[Z.ltb Z.gtb Z.leb Z.geb Z.eqb Z.lt Z.gt Z.le Z.ge Z.sub Z.add Z.of_nat Z.to_nat];
  repeat match goal with
         | |- context [Z.of_nat ?c] => let v := eval vm_compute in (Z.of_nat c) in change (Z.of_nat c) with v
         end;
  split_ifs_goal;
  first [reflexivity | lia | exfalso; lia].

(* ---- offline signature ---- *)
Theorem tie_off_min_data n : g_offline_signature_validateMinimumOfflineSignatureData n = negb (n <? Z.of_nat OFF_HDR).
Proof. unfold g_offline_signature_validateMinimumOfflineSignatureData. tie_cases. Qed.
Theorem off_min_data_rejects d dt :
  g_offline_signature_validateMinimumOfflineSignatureData (Z.of_nat (length d)) = false -> read_offline_signature d dt = Err.
Proof.
  rewrite tie_off_min_data. intros H. unfold read_offline_signature.
  replace (length d <? OFF_HDR)%nat with true by (change (Z.of_nat OFF_HDR) with 6 in H; change OFF_HDR with 6%nat; lia). reflexivity.
Qed.
Theorem tie_off_transient_key_type t :
  g_offline_signature_validateTransientKeyType t = (if off_spk_size t =? 0 then None else Some (off_spk_size t)).
Proof. unfold g_offline_signature_validateTransientKeyType. rewrite tie_off_spk_size. reflexivity. Qed.
Theorem tie_off_dest_sig_type t :
  g_offline_signature_validateDestinationSignatureType t = (if off_sig_size t =? 0 then None else Some (off_sig_size t)).
Proof. unfold g_offline_signature_validateDestinationSignatureType. rewrite tie_off_sig_size. reflexivity. Qed.

(* ---- MetaLeaseSet ---- *)
Theorem tie_meta_min_size n : g_meta_leaseset_validateMinSize n = negb (n <? c_meta_leaseset_META_LEASESET_MIN_SIZE).
Proof. unfold g_meta_leaseset_validateMinSize. tie_cases. Qed.
Theorem meta_min_size_rejects d : g_meta_leaseset_validateMinSize (Z.of_nat (length d)) = false -> read_meta_lease_set d = Err.
Proof.
  rewrite tie_meta_min_size. intros H. unfold read_meta_lease_set, read_ls2_header.
  replace (Z.of_nat (length d) <? c_meta_leaseset_META_LEASESET_MIN_SIZE) with true by (destruct (_ <? _); [reflexivity|discriminate]).
  reflexivity.
Qed.
Theorem tie_meta_entry_count n : g_meta_leaseset_validateEntryCount n =
  negb ((n <? c_meta_leaseset_META_LEASESET_MIN_ENTRIES) || (n >? c_meta_leaseset_META_LEASESET_MAX_ENTRIES)).
Proof. unfold g_meta_leaseset_validateEntryCount. tie_cases. Qed.
Theorem tie_meta_entry_min_size i n : g_meta_leaseset_validateEntryMinSize i n = negb (n <? Z.of_nat ME_MIN).
Proof. unfold g_meta_leaseset_validateEntryMinSize. tie_cases. Qed.
Theorem tie_meta_header_size n : g_meta_leaseset_validateHeaderDataSize n = negb (n <? 8).
Proof. unfold g_meta_leaseset_validateHeaderDataSize. tie_cases. Qed.

(* ---- EncryptedLeaseSet ---- *)
Theorem tie_els_min_size d : g_encrypted_leaseset_validateEncryptedLeaseSetSize d =
  negb (Z.of_nat (length d) <? c_encrypted_leaseset_ENCRYPTED_LEASESET_MIN_SIZE).
Proof. unfold g_encrypted_leaseset_validateEncryptedLeaseSetSize. tie_cases. Qed.
Theorem els_min_size_rejects d : g_encrypted_leaseset_validateEncryptedLeaseSetSize d = false -> read_encrypted_lease_set d = Err.
Proof.
  rewrite tie_els_min_size. intros H. unfold read_encrypted_lease_set.
  destruct (Z.of_nat (length d) <? c_encrypted_leaseset_ENCRYPTED_LEASESET_MIN_SIZE); [reflexivity|discriminate].
Qed.
Theorem tie_els_encrypted_data_length d : g_encrypted_leaseset_validateEncryptedDataLength d =
  negb (Z.of_nat (length d) <? Z.of_nat (ELS_EPH + ELS_NONCE + ELS_TAG)).
Proof. unfold g_encrypted_leaseset_validateEncryptedDataLength. tie_cases. Qed.

(* ---- KeysAndCert ---- *)
Theorem tie_kac_data_size n : g_keys_and_cert_validateKeysAndCertDataSize n = negb (n <? KAC_MIN).
Proof. unfold g_keys_and_cert_validateKeysAndCertDataSize. tie_cases. Qed.
Theorem kac_data_size_rejects d : g_keys_and_cert_validateKeysAndCertDataSize (Z.of_nat (length d)) = false -> read_keys_and_cert d = Err.
Proof.
  rewrite tie_kac_data_size. intros H. unfold read_keys_and_cert.
  destruct (Z.of_nat (length d) <? KAC_MIN); [reflexivity|discriminate].
Qed.
Theorem tie_kac_min_data_length n m : g_keys_and_cert_validateMinimumDataLength n m = negb (n <? m).
Proof. unfold g_keys_and_cert_validateMinimumDataLength. tie_cases. Qed.
(* NewKeysAndCert's padding check *)
Theorem tie_kac_padding_size pad c s : g_keys_and_cert_validatePaddingSize pad c s = (Z.of_nat (length pad) =? KAC_DATA - c - s).
Proof. unfold g_keys_and_cert_validatePaddingSize. tie_cases. Qed.
Theorem kac_padding_size_rejects kc p pad s :
  g_keys_and_cert_validatePaddingSize pad (kc_crypto_size_of kc) (kc_signing_pubkey_size kc) = false ->
  new_keys_and_cert kc p pad s = Err.
Proof.
  rewrite tie_kac_padding_size. intros H. unfold new_keys_and_cert.
  destruct (match p with Some p0 => _ | None => false end); [reflexivity|].
  destruct (match s with Some p0 => _ | None => false end); [reflexivity|].
  rewrite H. reflexivity.
Qed.

(* ---- Certificate ---- *)
Theorem tie_cert_type_valid t : g_certificate_validateCertType t = cert_type_valid t.
Proof. reflexivity. Qed.
(* innermost conditionals of a hypothesis first *)
Ltac split_ifs_in H :=
  repeat (match type of H with
          | context [if ?c then _ else _] =>
              lazymatch c with
              | context [if _ then _ else _] => fail
              | _ => let E := fresh "E" in destruct c eqn:E
              end
          end; cbv beta iota in H).
(* NewCertificateWithType refuses whatever validateCertType / validateCertPayload refuse.  The proof
   does not depend on how the Go function arranges its comparisons (a chain of ifs, a switch over
   the type with an if per case, a named length): each conditional of the regenerated definition is
   decided by case analysis, and the model's own conditions by linear arithmetic. *)
Theorem cert_ctor_guards t payload :
  g_certificate_validateCertType t && g_certificate_validateCertPayload t payload = false ->
  new_certificate_with_type t payload = Err.
Proof.
  intros H. unfold new_certificate_with_type, cert_type_valid.
  destruct (g_certificate_validateCertType t); cbn [negb andb] in *; [|reflexivity].
  change c_certificate_CERT_MAX_PAYLOAD_SIZE with 65535. change c_certificate_CERT_NULL with 0. change c_certificate_CERT_HIDDEN with 2.
  change c_certificate_CERT_SIGNED with 3. change c_certificate_CERT_EMPTY_PAYLOAD_SIZE with 0.
  change c_certificate_CERT_SIGNED_PAYLOAD_SHORT with 40. change c_certificate_CERT_SIGNED_PAYLOAD_LONG with 72.
  cbv zeta. remember (Z.of_nat (length payload)) as n eqn:En.
  repeat match goal with |- (if ?c then Err else _) = Err => let E := fresh "C" in destruct c eqn:E; [reflexivity|] end.
  exfalso. unfold g_certificate_validateCertPayload in H. cbv zeta in H. rewrite <- En in H.
  clear En. cbv -[Z.ltb Z.gtb Z.leb Z.geb Z.eqb Z.lt Z.gt Z.le Z.ge] in H.
  split_ifs_in H; try discriminate H; lia.
Qed.

