(* UptoRT.v — structures that embed mappings (RouterAddress, RouterInfo, MetaLeaseSet):
   the serialisation of a parsed value is the consumed input up to the mappings' slack.
   [upto x b n]: b has n bytes fewer than x, and equals x when n = 0. *)
From Coq Require Import ZifyN ZifyNat ZifyBool.
From Model Require Import Bytes Prim Tables Cert KAC Mapping Sig LS RI.
From Gen Require Import Consts Tables.
From Proofs Require Import BytesLemmas PrimProofs Frame SliceLemmas LeafProofs TableProofs KacRT OffProofs MappingProofs MapRT LS2RT.
Ltac Zify.zify_post_hook ::= Z.div_mod_to_equations.
Open Scope Z_scope.
Local Arguments Z.add : simpl never.
Local Arguments Z.sub : simpl never.
Local Arguments Z.mul : simpl never.
Local Arguments Z.to_nat : simpl never.
Local Arguments Z.of_nat : simpl never.

Definition upto (x b : bytes) (n : nat) : Prop := length x = (length b + n)%nat /\ (n = 0%nat -> x = b).
Lemma upto_refl x : upto x x 0.
Proof. split; [lia|auto]. Qed.
Lemma upto_app x1 b1 n1 x2 b2 n2 : upto x1 b1 n1 -> upto x2 b2 n2 -> upto (x1 ++ x2) (b1 ++ b2) (n1 + n2).
Proof.
  intros [L1 E1] [L2 E2]. split; [rewrite !app_length; lia|]. intros H.
  rewrite E1, E2 by lia. reflexivity.
Qed.
Lemma upto_iff x b n r : upto x b n -> (b ++ r = x ++ r <-> n = 0%nat).
Proof.
  intros [L E]. split.
  - intros H. apply (f_equal (@length _)) in H. rewrite !app_length in H. lia.
  - intros H. rewrite (E H). reflexivity.
Qed.

(* a mapping *)
Lemma read_mapping_upto bb m r e : wf bb -> read_mapping bb = Some (m, r, e) -> fatal_errors e = [] ->
  exists M n, bb = M ++ r /\ upto M (mapping_data m) n /\ wf r /\
              options_bytes m = mapping_data m.
Proof.
  intros W H F. destruct (read_mapping_inv _ _ _ _ H F) as [slack [Eb [MS [L2 [II [SL FO]]]]]].
  set (payload := serialize_pairs (map_values m)) in *.
  exists (firstn 2 bb ++ payload ++ slack), (length slack).
  assert (Wsz : wf (firstn 2 bb)) by (apply wf_firstn, W).
  destruct (integer_int_2bytes _ L2 Wsz) as [I2 B2].
  assert (PL : (N.of_nat (length payload) < 65536)%N) by (rewrite app_length in II; lia).
  assert (MD : mapping_data m = be_encode 2 (N.of_nat (length payload)) ++ payload).
  { unfold mapping_data. rewrite MS. fold payload. rewrite N.mod_small by exact PL. reflexivity. }
  split; [rewrite <- !app_assoc; exact Eb|]. split; [|split].
  - rewrite MD. split.
    + rewrite !app_length, be_encode_length, L2. lia.
    + intros N0. destruct slack; [|discriminate]. rewrite app_nil_r in *.
      rewrite (sz_of_payload _ payload L2 Wsz II). reflexivity.
  - rewrite Eb in W. repeat (apply wf_app in W; destruct W as [_ W]). exact W.
  - rewrite (options_bytes_eq m _ MS). fold payload. rewrite N.mod_small by exact PL. symmetry. exact MD.
Qed.

Lemma embedded_ok_fatal errs : embedded_mapping_ok errs = true -> fatal_errors errs = [].
Proof. unfold embedded_mapping_ok. intros H. apply Nat.eqb_eq in H. destruct (fatal_errors errs); [reflexivity|discriminate]. Qed.

Lemma read_integer1_split b i r : read_integer b 1 = Ok (i, r) -> b = i ++ r.
Proof.
  intros H. destruct (read_integer_spec _ _ _ _ H ltac:(lia)) as [A B].
  destruct (Z_lt_le_dec (Z.of_nat (length b)) 1) as [S|S].
  - destruct (A S) as [-> ->]. rewrite app_nil_r. reflexivity.
  - destruct (B S) as [E _]. exact E.
Qed.

(* ---- RouterAddress ---- *)
Theorem read_router_address_upto d a r : wf d -> read_router_address d = Ok (a, r) ->
  exists c n, d = c ++ r /\ upto c (router_address_bytes a) n /\ wf r.
Proof.
  intros W. unfold read_router_address.
  destruct (length d =? 0)%nat; [discriminate|].
  destruct (Z.of_nat (length d) <? c_router_address_ROUTER_ADDRESS_MIN_SIZE); [discriminate|].
  destruct (read_integer d 1) as [[ci r0]| |] eqn:RI; cbn [rbind fst snd]; try discriminate.
  pose proof (read_integer1_split _ _ _ RI) as E0.
  destruct (read_date r0) as [[dt r1]| |] eqn:RD; cbn [rbind fst snd]; try discriminate.
  destruct (read_date_frame _ _ _ RD) as [E1 _].
  destruct (read_i2pstring r1) as [[st r2]| |] eqn:RS; cbn [rbind fst snd]; try discriminate.
  destruct (read_i2pstring_valid _ _ _ RS) as [_ E2].
  assert (W2 : wf r2).
  { rewrite E0, E1, E2 in W. repeat (apply wf_app in W; destruct W as [_ W]). exact W. }
  destruct (read_mapping r2) as [[[m rr] errs]|] eqn:RM; [|discriminate].
  destruct (embedded_mapping_ok errs) eqn:EM; [|discriminate].
  intros H. apply Ok_pair_inj in H. destruct H as [<- <-].
  destruct (read_mapping_upto _ _ _ _ W2 RM (embedded_ok_fatal _ EM)) as [M [n [EM2 [U [Wr _]]]]].
  exists (ci ++ dt ++ st ++ M), n. split; [|split; [|exact Wr]].
  - rewrite E0, E1, E2, EM2, <- !app_assoc. reflexivity.
  - unfold router_address_bytes. cbn [ra_cost ra_date ra_style ra_opts].
    replace n with (0 + (0 + (0 + n)))%nat by lia. repeat (apply upto_app; [apply upto_refl|]). exact U.
Qed.

Lemma read_addresses_upto : forall k d al r, wf d -> read_addresses k d = Ok (al, r) ->
  exists c n, d = c ++ r /\ upto c (flat_map router_address_bytes al) n /\ wf r /\ length al = k.
Proof.
  induction k as [|k IH]; intros d al r W H; cbn [read_addresses] in H.
  - apply Ok_pair_inj in H. destruct H as [<- <-]. exists [], 0%nat. repeat split; auto.
  - destruct (read_router_address d) as [[a r0]| |] eqn:RA; cbn [rbind fst snd] in H; try discriminate.
    destruct (read_router_address_upto _ _ _ W RA) as [c1 [n1 [E1 [U1 W0]]]].
    destruct (read_addresses k r0) as [[al' r']| |] eqn:RR; cbn [rbind fst snd] in H; try discriminate.
    apply Ok_pair_inj in H. destruct H as [<- <-].
    destruct (IH _ _ _ W0 RR) as [c2 [n2 [E2 [U2 [Wr L]]]]].
    exists (c1 ++ c2), (n1 + n2)%nat. split; [rewrite E1, E2, app_assoc; reflexivity|].
    split; [cbn [flat_map]; apply upto_app; assumption|]. split; [exact Wr|cbn [length]; lia].
Qed.

(* ---- RouterInfo ---- *)
Theorem read_router_info_upto d i r : wf d -> read_router_info d = Ok (i, r) ->
  exists b n, router_info_bytes i = Ok b /\ length d = (length b + n + length r)%nat /\ (b ++ r = d <-> n = 0%nat).
Proof.
  intros W. unfold read_router_info.
  destruct (read_router_identity d) as [[id r0]| |] eqn:RID; cbn [rbind fst snd]; try discriminate.
  destruct (read_router_identity_RoundTrip _ _ _ W RID) as [ib [KB E0]].
  assert (W0 : wf r0) by (rewrite <- E0 in W; apply wf_app in W; tauto).
  destruct (read_date r0) as [[pub r1]| |] eqn:RD; cbn [rbind fst snd]; try discriminate.
  destruct (read_date_frame _ _ _ RD) as [E1 _].
  destruct (read_integer r1 1) as [[sz r2]| |] eqn:RI1; cbn [rbind fst snd]; try discriminate.
  pose proof (read_integer1_split _ _ _ RI1) as E2.
  assert (W2 : wf r2).
  { rewrite E1, E2 in W0. repeat (apply wf_app in W0; destruct W0 as [_ W0]). exact W0. }
  destruct (read_addresses _ r2) as [[al r3]| |] eqn:RA; cbn [rbind fst snd]; try discriminate.
  destruct (read_addresses_upto _ _ _ _ W2 RA) as [ca [na [E3 [UA [W3 _]]]]].
  destruct (read_integer r3 1) as [[ps r4]| |] eqn:RI2; cbn [rbind fst snd]; try discriminate.
  pose proof (read_integer1_split _ _ _ RI2) as E4.
  assert (W4 : wf r4) by (rewrite E4 in W3; apply wf_app in W3; tauto).
  destruct (read_mapping r4) as [[[m r5] errs]|] eqn:RM; [|discriminate].
  destruct (embedded_mapping_ok errs) eqn:EM; cbn [negb]; [|discriminate].
  destruct (read_mapping_upto _ _ _ _ W4 RM (embedded_ok_fatal _ EM)) as [M [nm [E5 [UM [W5 _]]]]].
  destruct (cert_type _) as [t| |]; cbn [rbind]; try discriminate.
  destruct (cert_data _) as [cd| |]; cbn [rbind]; try discriminate.
  match goal with |- (do st <- ?e; _) = _ -> _ => destruct e as [st| |]; cbn [rbind]; try discriminate end.
  destruct (sig_length st); [|discriminate].
  destruct (read_signature r5 st) as [[sg r6]| |] eqn:RS; cbn [rbind fst snd]; try discriminate.
  destruct (read_signature_RoundTrip _ _ _ _ RS) as [sb [SB E6]]. injection SB as <-.
  intros H. apply Ok_pair_inj in H. destruct H as [<- <-].
  unfold router_info_bytes. cbn [ri_ident ri_published ri_size ri_addrs ri_peer_size ri_options ri_sig].
  rewrite KB. cbn [rbind]. eexists. exists (na + nm)%nat. split; [reflexivity|].
  assert (ED : d = (ib ++ pub ++ sz ++ ca ++ ps ++ M ++ sig_bytes sg) ++ r6).
  { rewrite <- E0, E1, E2, E3, E4, E5, <- E6, <- !app_assoc. reflexivity. }
  assert (U : upto (ib ++ pub ++ sz ++ ca ++ ps ++ M ++ sig_bytes sg)
                   (ib ++ pub ++ sz ++ flat_map router_address_bytes al ++ ps ++ mapping_data m ++ sig_bytes sg) (na + nm)).
  { replace (na + nm)%nat with (0 + (0 + (0 + (na + (0 + (nm + 0))))))%nat by lia.
    repeat (apply upto_app; [first [apply upto_refl|assumption]|]). apply upto_refl. }
  split.
  - rewrite ED, app_length. destruct U as [L _]. lia.
  - rewrite ED. apply upto_iff. exact U.
Qed.

(* ---- MetaLeaseSet ---- *)
Lemma read_ls2_header_upto minsize d dest pub ex flags off opts r2 : wf d ->
  read_ls2_header minsize d = Ok (dest, pub, ex, flags, off, opts, r2) ->
  exists db c n, kac_bytes dest = Ok db /\ d = c ++ r2 /\ wf r2 /\
    upto c (db ++ be_encode 4 pub ++ be_encode 2 ex ++ be_encode 2 flags ++ opt_off_bytes off ++ options_bytes opts) n.
Proof.
  intros W H. destruct (read_ls2_header_inv _ _ _ _ _ _ _ _ _ W H) as [db [sz [slack [KB [Ex [MS [L2 [Wsz [II [SL W2]]]]]]]]]].
  set (payload := serialize_pairs (map_values opts)) in *.
  destruct (integer_int_2bytes _ L2 Wsz) as [I2 B2].
  assert (PL : (N.of_nat (length payload) < 65536)%N) by (rewrite app_length in II; lia).
  exists db, (db ++ be_encode 4 pub ++ be_encode 2 ex ++ be_encode 2 flags ++ opt_off_bytes off ++ sz ++ payload ++ slack), (length slack).
  split; [exact KB|]. split; [rewrite Ex, <- !app_assoc; reflexivity|]. split; [exact W2|].
  rewrite (options_bytes_eq opts sz MS). fold payload. rewrite N.mod_small by exact PL.
  replace (length slack) with (0 + (0 + (0 + (0 + (0 + length slack)))))%nat by lia.
  repeat (apply upto_app; [apply upto_refl|]).
  split; [rewrite !app_length, be_encode_length, L2; lia|].
  intros N0. destruct slack; [|discriminate]. rewrite app_nil_r in *. rewrite (sz_of_payload _ payload L2 Wsz II). reflexivity.
Qed.

Lemma index_split (d : bytes) i c : index i d = Ok c -> firstn 1 (skipn i d) = [c].
Proof.
  unfold index. destruct (nth_error d i) eqn:E; [|discriminate]. intros H; injection H as ->.
  revert d E. induction i as [|i IH]; intros [|a d] E; cbn [nth_error skipn] in *; try discriminate.
  - injection E as ->. reflexivity.
  - apply IH. exact E.
Qed.

Lemma read_meta_entries_upto : forall k d el r, wf d -> read_meta_entries k d = Ok (el, r) ->
  exists c n, d = c ++ r /\ upto c (flat_map mentry_bytes el) n /\ wf r.
Proof.
  induction k as [|k IH]; intros d el r W H; cbn [read_meta_entries] in H.
  - apply Ok_pair_inj in H. destruct H as [<- <-]. exists [], 0%nat. repeat split; auto.
  - change ME_MIN with 40%nat in H.
    destruct (length d <? 40)%nat eqn:E40; [discriminate|]. apply Nat.ltb_ge in E40.
    rewrite !slice_ok, slice_from_ok in H by lia.
    destruct (index_ok 32 d ltac:(lia)) as [t [IT _]]. destruct (index_ok 37 d ltac:(lia)) as [cst [IC _]].
    rewrite IT, IC in H. cbn [rbind] in H.
    change (32 - 0)%nat with 32%nat in H. change (37 - 33)%nat with 4%nat in H. change (skipn 0 d) with d in H.
    destruct (negb (meta_entry_type_valid (Z.of_N t))); [discriminate|].
    assert (W38 : wf (skipn 38 d)) by (apply wf_skipn, W).
    destruct (read_mapping (skipn 38 d)) as [[[m rr] errs]|] eqn:RM; [|discriminate].
    destruct (embedded_mapping_ok errs) eqn:EM; cbn [negb] in H; [|discriminate].
    destruct (read_mapping_upto _ _ _ _ W38 RM (embedded_ok_fatal _ EM)) as [M [nm [E5 [UM [Wr OB]]]]].
    destruct (read_meta_entries k rr) as [[el' r']| |] eqn:RR; cbn [rbind fst snd] in H; try discriminate.
    apply Ok_pair_inj in H. destruct H as [<- <-].
    destruct (IH _ _ _ Wr RR) as [c2 [n2 [E2 [U2 Wr2]]]].
    exists ((firstn 38 d ++ M) ++ c2), (nm + n2)%nat. split.
    + rewrite <- !app_assoc, <- E2, <- E5. symmetry. apply firstn_skipn.
    + split; [|exact Wr2]. cbn [flat_map]. apply upto_app; [|exact U2].
      unfold mentry_bytes. cbn [me_hash me_type me_expires me_cost me_props]. rewrite OB.
      rewrite (be_encode_decode_n 4) by (rewrite ?firstn_length, ?skipn_length; try lia; apply wf_firstn, wf_skipn, W).
      assert (F38 : firstn 38 d = firstn 32 d ++ [t] ++ firstn 4 (skipn 33 d) ++ [cst]).
      { pose proof (firstn_skipn_slices 32 33 d ltac:(lia)) as A1. change (33 - 32)%nat with 1%nat in A1.
        pose proof (firstn_skipn_slices 33 37 d ltac:(lia)) as A2. change (37 - 33)%nat with 4%nat in A2.
        pose proof (firstn_skipn_slices 37 38 d ltac:(lia)) as A3. change (38 - 37)%nat with 1%nat in A3.
        rewrite (index_split _ _ _ IT) in A1. rewrite (index_split _ _ _ IC) in A3.
        rewrite <- A3, <- A2, <- A1, <- !app_assoc. reflexivity. }
      rewrite F38, <- !app_assoc.
      replace nm with (0 + (0 + (0 + (0 + nm))))%nat by lia.
      repeat (apply upto_app; [apply upto_refl|]). exact UM.
Qed.

Theorem read_meta_lease_set_upto d l r : wf d -> read_meta_lease_set d = Ok (l, r) ->
  exists b n, meta_lease_set_bytes l = Ok b /\ length d = (length b + n + length r)%nat /\ (b ++ r = d <-> n = 0%nat).
Proof.
  intros W. unfold read_meta_lease_set.
  destruct (read_ls2_header c_meta_leaseset_META_LEASESET_MIN_SIZE d) as [[[[[[[dest pub] ex] flags] off] opts] r2]| |] eqn:RH; cbn [rbind]; try discriminate.
  destruct (read_ls2_header_upto _ _ _ _ _ _ _ _ _ W RH) as [db [ch [nh [KB [Eh [W2 UH]]]]]].
  destruct (length r2 <? 1)%nat eqn:E1; [discriminate|]. apply Nat.ltb_ge in E1.
  destruct (index 0 r2) as [ne| |] eqn:IX; cbn [rbind]; try discriminate.
  rewrite slice_from_ok by lia. cbn [rbind].
  destruct ((Z.of_N ne <? _) || (Z.of_N ne >? _))%bool; [discriminate|].
  destruct (read_meta_entries (N.to_nat ne) (skipn 1 r2)) as [[el r3]| |] eqn:RE; cbn [rbind fst snd]; try discriminate.
  destruct (read_meta_entries_upto _ _ _ _ (wf_skipn 1 _ W2) RE) as [ce [nE [Ee [UE W3]]]].
  destruct (read_signature r3 _) as [[sg r4]| |] eqn:RS; cbn [rbind fst snd]; try discriminate.
  destruct (read_signature_RoundTrip _ _ _ _ RS) as [sb [SB E6]]. injection SB as <-.
  intros H. apply Ok_pair_inj in H. destruct H as [<- <-].
  unfold meta_lease_set_bytes, meta_lease_set_content.
  cbn [ml_dest ml_published ml_expires ml_flags ml_offline ml_options ml_num ml_entries ml_sig].
  rewrite KB. cbn [rbind]. fold (opt_off_bytes off).
  set (HDR := db ++ be_encode 4 pub ++ be_encode 2 ex ++ be_encode 2 flags ++ opt_off_bytes off ++ options_bytes opts) in *.
  exists (HDR ++ [ne] ++ flat_map mentry_bytes el ++ sig_bytes sg), (nh + nE)%nat.
  split; [f_equal; unfold HDR; rewrite <- !app_assoc; reflexivity|].
  assert (ED : d = (ch ++ [ne] ++ ce ++ sig_bytes sg) ++ r4).
  { rewrite Eh. rewrite (index0_split _ _ IX) at 1. rewrite Ee, <- E6, <- !app_assoc. reflexivity. }
  assert (U : upto (ch ++ [ne] ++ ce ++ sig_bytes sg) (HDR ++ [ne] ++ flat_map mentry_bytes el ++ sig_bytes sg) (nh + nE)).
  { replace (nh + nE)%nat with (nh + (0 + (nE + 0)))%nat by lia.
    apply upto_app; [exact UH|]. apply upto_app; [apply upto_refl|]. apply upto_app; [exact UE|apply upto_refl]. }
  split.
  - rewrite ED, app_length. destruct U as [L _]. lia.
  - rewrite ED. apply upto_iff. exact U.
Qed.

(* LeaseSet2 in the same form *)
Theorem read_lease_set2_upto x l r : wf x -> read_lease_set2 x = Ok (l, r) ->
  exists b n, lease_set2_bytes l = Ok b /\ length x = (length b + n + length r)%nat /\ (b ++ r = x <-> n = 0%nat).
Proof.
  intros W H. destruct (read_lease_set2_RoundTrip_iff x l r W H) as [b [slack [EB [_ [L I]]]]].
  exists b, (length slack). split; [exact EB|]. split; [lia|]. rewrite I. destruct slack; cbn [length]; split; intros; try reflexivity; discriminate.
Qed.
