From Coq Require Import ZifyN ZifyNat ZifyBool.
From Model Require Import Bytes Prim.
From Gen Require Import Consts.
From Proofs Require Import BytesLemmas.
Ltac Zify.zify_post_hook ::= Z.div_mod_to_equations.
Open Scope Z_scope.

Lemma MAXI_8 : MAXI = 8. Proof. reflexivity. Qed.
Lemma BITS_8 : c_data_BITS_PER_BYTE = 8. Proof. reflexivity. Qed.

Ltac width_cases n :=
  let H := fresh in
  assert (H : n = 1 \/ n = 2 \/ n = 3 \/ n = 4 \/ n = 5 \/ n = 6 \/ n = 7 \/ n = 8) by lia;
  destruct H as [H|[H|[H|[H|[H|[H|[H|H]]]]]]]; subst n.

Lemma pow256_nat n : (256 ^ N.of_nat n)%N = Z.to_N (2 ^ (8 * Z.of_nat n)).
Proof.
  induction n as [|n IH]; [reflexivity|].
  rewrite Nat2N.inj_succ, N.pow_succ_r', IH.
  replace (8 * Z.of_nat (S n)) with (8 + 8 * Z.of_nat n) by lia.
  rewrite Z.pow_add_r by lia. rewrite Z2N.inj_mul by (try apply Z.pow_nonneg; lia). reflexivity.
Qed.

Lemma wrap64_small v : 0 <= v < two63 -> wrap64 v = v.
Proof. unfold wrap64, two63, two64. intros H. lia. Qed.

(* ---- Integer ---- *)
Lemma int_from_bytes_le8 b : (0 < length b <= 8)%nat ->
  int_from_bytes b = Ok (wrap64 (Z.of_N (be_decode b))).
Proof.
  intros H. unfold int_from_bytes. rewrite MAXI_8. destruct b as [|x l]; [cbn in H; lia|].
  rewrite firstn_all2 by (change (Z.to_nat 8) with 8%nat; lia). reflexivity.
Qed.
Lemma encode_int_n_ok v n :
  1 <= n <= 8 -> 0 <= v -> v < 2 ^ (8 * n) -> v < two63 ->
  encode_int_n v n = Ok (be_encode (Z.to_nat n) (Z.to_N v)).
Proof.
  intros Hn Hv Hb H63. unfold encode_int_n. rewrite MAXI_8, BITS_8.
  replace (v <? 0) with false by lia.
  replace ((n <? 1) || (n >? 8))%bool with false by lia.
  destruct (n <? 8) eqn:E8; cbn [andb]; [|reflexivity].
  replace (n * 8) with (8 * n) by lia.
  replace (v >? 2 ^ (8 * n) - 1) with false by lia. reflexivity.
Qed.

Lemma be_decode_encode_small n v : (v < 256 ^ N.of_nat n)%N -> be_decode (be_encode n v) = v.
Proof. intros H. rewrite be_decode_encode. apply N.mod_small. exact H. Qed.

Lemma decode_encode_int v n b :
  1 <= n <= 8 -> 0 <= v -> v < 2 ^ (8 * n) -> v < two63 ->
  encode_int_n v n = Ok b ->
  Z.of_nat (length b) = n /\ Z.of_N (be_decode b) = v /\ decode_int_n b = Ok v /\ integer_int b = v.
Proof.
  intros Hn Hv Hb H63 E. rewrite encode_int_n_ok in E by assumption. inversion E; subst b; clear E.
  assert (L : length (be_encode (Z.to_nat n) (Z.to_N v)) = Z.to_nat n) by apply be_encode_length.
  assert (D : be_decode (be_encode (Z.to_nat n) (Z.to_N v)) = Z.to_N v).
  { apply be_decode_encode_small. rewrite pow256_nat. rewrite Z2Nat.id by lia.
    apply Z2N.inj_lt; try lia; apply Z.pow_nonneg; lia. }
  split; [lia|]. split; [rewrite D; lia|]. split.
  - unfold decode_int_n. rewrite L, D.
    replace (Z.to_nat n =? 0)%nat with false by lia.
    replace (Z.of_nat (Z.to_nat n) >? 8) with false by lia.
    cbv zeta. rewrite Z2N.id by lia. replace (v >? two63 - 1) with false by lia. reflexivity.
  - unfold integer_int. rewrite int_from_bytes_le8 by lia. rewrite D, Z2N.id by lia.
    apply wrap64_small. lia.
Qed.

Lemma encode_int_n_reject v n :
  v < 0 \/ n < 1 \/ n > 8 \/ (n < 8 /\ v >= 2 ^ (8 * n)) -> encode_int_n v n = Err.
Proof.
  intros H. unfold encode_int_n. rewrite MAXI_8, BITS_8.
  destruct (v <? 0) eqn:E1; [reflexivity|].
  destruct ((n <? 1) || (n >? 8))%bool eqn:E2; [reflexivity|].
  destruct H as [H|[H|[H|[H1 H2]]]]; try lia.
  replace (n <? 8) with true by lia. replace (n * 8) with (8 * n) by lia.
  replace (v >? 2 ^ (8 * n) - 1) with true by lia. reflexivity.
Qed.

Lemma read_integer_nopanic b size : read_integer b size <> Panic.
Proof.
  unfold read_integer. destruct ((size <=? 0) || (size >? MAXI))%bool eqn:E; [discriminate|].
  destruct (Z.of_nat (length b) <? size) eqn:E2; [discriminate|].
  unfold slice_to, slice_from.
  replace (Z.to_nat size <=? length b)%nat with true by lia. cbn. discriminate.
Qed.
Lemma read_integer_spec b size i r :
  read_integer b size = Ok (i, r) -> 1 <= size <= 8 ->
  (Z.of_nat (length b) < size -> i = b /\ r = []) /\
  (size <= Z.of_nat (length b) -> b = i ++ r /\ Z.of_nat (length i) = size).
Proof.
  unfold read_integer. rewrite MAXI_8. intros H Hs.
  replace ((size <=? 0) || (size >? 8))%bool with false in H by lia.
  destruct (Z.of_nat (length b) <? size) eqn:E2.
  - inversion H; subst. split; [auto | lia].
  - unfold slice_to, slice_from in H.
    replace (Z.to_nat size <=? length b)%nat with true in H by lia. cbn in H. inversion H; subst.
    split; [lia|]. intros _. split; [symmetry; apply firstn_skipn|].
    rewrite firstn_length_le by lia. lia.
Qed.

Lemma uint_safe_full b : length b = 8%nat -> integer_uint_safe b = Ok (be_decode b).
Proof. intros L. unfold integer_uint_safe. rewrite L, MAXI_8. reflexivity. Qed.
Lemma uint_safe_range v : (v < 2 ^ 64)%N -> integer_uint_safe (be_encode 8 v) = Ok v.
Proof.
  intros H. rewrite uint_safe_full by apply be_encode_length.
  rewrite be_decode_encode_small; [reflexivity|]. exact H.
Qed.

(* ---- fixed-width helpers ---- *)
Lemma fixed_uint_roundtrip n v : (v < 256 ^ N.of_nat n)%N ->
  decode_uint (encode_uint n v) = v /\ length (encode_uint n v) = n.
Proof. intros H. unfold decode_uint, encode_uint. split; [apply be_decode_encode_small; exact H | apply be_encode_length]. Qed.
Lemma fixed_sint_roundtrip n v : (n = 2 \/ n = 4 \/ n = 8)%nat ->
  - 2 ^ (8 * Z.of_nat n - 1) <= v < 2 ^ (8 * Z.of_nat n - 1) ->
  decode_sint n (encode_sint n v) = v /\ length (encode_sint n v) = n.
Proof.
  intros Hn Hv. unfold decode_sint, encode_sint, wrapk. split; [|apply be_encode_length].
  destruct Hn as [Hn|[Hn|Hn]]; subst n.
  - change (8 * Z.of_nat 2) with 16 in *. change (2 ^ (16 - 1)) with 32768 in *. change (2 ^ 16) with 65536.
    rewrite be_decode_encode_small by (change (256 ^ N.of_nat 2)%N with 65536%N; lia). lia.
  - change (8 * Z.of_nat 4) with 32 in *. change (2 ^ (32 - 1)) with 2147483648 in *. change (2 ^ 32) with 4294967296.
    rewrite be_decode_encode_small by (change (256 ^ N.of_nat 4)%N with 4294967296%N; lia). lia.
  - change (8 * Z.of_nat 8) with 64 in *. change (2 ^ (64 - 1)) with 9223372036854775808 in *. change (2 ^ 64) with 18446744073709551616.
    rewrite be_decode_encode_small by (change (256 ^ N.of_nat 8)%N with 18446744073709551616%N; lia). lia.
Qed.

(* ---- Date ---- *)
Lemma unix_milli_of_millis ms : 0 <= ms < two63 ->
  unix_milli (Z.quot ms 1000) (Z.rem ms 1000 * 1000000) = ms.
Proof.
  intros H. unfold unix_milli.
  rewrite Z.quot_div_nonneg, Z.rem_mod_nonneg by lia.
  unfold two63 in H.
  assert (A : ms mod 1000 * 1000000 / 1000000000 = 0) by lia.
  rewrite A, Z.add_0_r. rewrite (wrap64_small (ms / 1000)) by (unfold two63; lia).
  replace ((ms mod 1000 * 1000000) mod 1000000000) with (ms mod 1000 * 1000000) by lia.
  replace (ms mod 1000 * 1000000 / 1000000) with (ms mod 1000) by lia.
  rewrite wrap64_small by (unfold two63; lia). lia.
Qed.
Lemma date_millis_roundtrip ms : 0 <= ms < two63 ->
  exists d, new_date_from_millis ms = Ok d /\ length d = 8%nat /\ date_int d = ms /\ Z.of_N (be_decode d) = ms.
Proof.
  intros H. unfold new_date_from_millis. replace (ms <? 0) with false by lia.
  eexists; split; [reflexivity|]. unfold date_from_time. rewrite unix_milli_of_millis by exact H.
  unfold date_of_millis, to_u64. unfold two63, two64 in *.
  rewrite Z.mod_small by lia.
  assert (D : be_decode (be_encode 8 (Z.to_N ms)) = Z.to_N ms).
  { apply be_decode_encode_small. change (256 ^ N.of_nat 8)%N with 18446744073709551616%N. lia. }
  split; [apply be_encode_length|]. split; [|rewrite D; lia].
  unfold date_int, integer_int. rewrite int_from_bytes_le8 by (rewrite be_encode_length; lia).
  rewrite D, Z2N.id by lia. apply wrap64_small. unfold two63; lia.
Qed.
Lemma date_millis_reject ms : ms < 0 -> new_date_from_millis ms = Err.
Proof. intros H. unfold new_date_from_millis. replace (ms <? 0) with true by lia. reflexivity. Qed.
Lemma date_unix_exact s : 0 <= s <= (two63 - 1) / 1000 ->
  new_date_from_unix s = Ok (be_encode 8 (Z.to_N (s * 1000))).
Proof.
  intros H. unfold new_date_from_unix. unfold two63 in *.
  replace (s <? 0) with false by lia. replace (s >? (9223372036854775808 - 1) / 1000) with false by lia.
  unfold date_from_time, unix_milli, date_of_millis, to_u64.
  replace (0 / 1000000000) with 0 by reflexivity. rewrite Z.add_0_r.
  rewrite Z.add_0_r, (wrap64_small s) by (unfold two63; lia).
  rewrite wrap64_small by (unfold two63; lia). unfold two64. rewrite Z.mod_small by lia. reflexivity.
Qed.
(* one instant, every way of making a Date of it: the same eight bytes *)
Lemma date_entry_points_agree ms rest : 0 <= ms < two63 ->
  let d := be_encode 8 (Z.to_N ms) in
  new_date_from_millis ms = Ok d /\
  date_from_time (ms / 1000) (ms mod 1000 * 1000000) = d /\
  (ms mod 1000 = 0 -> new_date_from_unix (ms / 1000) = Ok d) /\
  read_date (d ++ rest) = Ok (d, rest) /\
  date_int d = ms.
Proof.
  intros H d.
  assert (M : date_of_millis ms = d).
  { unfold date_of_millis, to_u64, d. unfold two63, two64 in *. rewrite Z.mod_small by lia. reflexivity. }
  assert (U : unix_milli (ms / 1000) (ms mod 1000 * 1000000) = ms).
  { pose proof (unix_milli_of_millis ms H) as Q. rewrite Z.quot_div_nonneg, Z.rem_mod_nonneg in Q by lia. exact Q. }
  split; [|split; [|split; [|split]]].
  - unfold new_date_from_millis. replace (ms <? 0) with false by lia.
    unfold date_from_time. rewrite unix_milli_of_millis by exact H. rewrite M. reflexivity.
  - unfold date_from_time. rewrite U. exact M.
  - intros Z0. rewrite date_unix_exact by (unfold two63 in *; lia).
    unfold d. replace (ms / 1000 * 1000) with ms by lia. reflexivity.
  - unfold read_date. apply take_app. unfold d. apply be_encode_length.
  - destruct (date_millis_roundtrip ms H) as (d' & E & _ & I & _).
    assert (E' : new_date_from_millis ms = Ok d).
    { unfold new_date_from_millis. replace (ms <? 0) with false by lia.
      unfold date_from_time. rewrite unix_milli_of_millis by exact H. rewrite M. reflexivity. }
    rewrite E in E'. inversion E'. subst d'. exact I.
Qed.
Lemma read_date_short b : (length b < 8)%nat -> read_date b = Err.
Proof. intros H. unfold read_date. apply take_err. exact H. Qed.
Lemma read_date_frame b d r : read_date b = Ok (d, r) -> b = d ++ r /\ length d = 8%nat.
Proof. apply take_ok. Qed.
Lemma read_hash_short b : (length b < 32)%nat -> read_hash b = Err.
Proof. intros H. unfold read_hash. apply take_err. exact H. Qed.

(* ---- I2PString ---- *)
Lemma read_i2pstring_ok b s r : read_i2pstring b = Ok (s, r) ->
  exists l rest, b = l :: rest /\ b = s ++ r /\ length s = (N.to_nat l + 1)%nat.
Proof.
  unfold read_i2pstring. destruct b as [|l rest]; [discriminate|].
  destruct (length (l :: rest) <? N.to_nat l + 1)%nat eqn:E; [discriminate|].
  unfold slice_to, slice_from. replace (N.to_nat l + 1 <=? length (l :: rest))%nat with true by lia.
  cbn [rbind]. intros H; inversion H; subst. exists l, rest. split; [reflexivity|]. split.
  - symmetry; apply firstn_skipn.
  - apply firstn_length_le. lia.
Qed.
Lemma read_i2pstring_short b : (match b with [] => True | l :: _ => (length b < N.to_nat l + 1)%nat end) ->
  read_i2pstring b = Err.
Proof.
  unfold read_i2pstring. destruct b as [|l rest]; [reflexivity|]. intros H.
  replace (length (l :: rest) <? N.to_nat l + 1)%nat with true by lia. reflexivity.
Qed.
Lemma read_i2pstring_nopanic b : read_i2pstring b <> Panic.
Proof.
  unfold read_i2pstring. destruct b as [|l rest]; [discriminate|].
  destruct (length (l :: rest) <? N.to_nat l + 1)%nat eqn:E; [discriminate|].
  unfold slice_to, slice_from. replace (N.to_nat l + 1 <=? length (l :: rest))%nat with true by lia.
  cbn. discriminate.
Qed.
Lemma read_i2pstring_app s r : str_is_valid s = true -> read_i2pstring (s ++ r) = Ok (s, r).
Proof.
  unfold str_is_valid, read_i2pstring. destruct s as [|l rest]; [discriminate|]. intros V.
  apply N.eqb_eq in V. cbn [app]. change (l :: rest ++ r) with ((l :: rest) ++ r).
  assert (L : length (l :: rest) = (N.to_nat l + 1)%nat) by (cbn [length]; lia).
  replace (length ((l :: rest) ++ r) <? N.to_nat l + 1)%nat with false by (rewrite app_length; lia).
  unfold slice_to, slice_from.
  replace (N.to_nat l + 1 <=? length ((l :: rest) ++ r))%nat with true by (rewrite app_length; lia).
  cbn [rbind]. rewrite <- L. rewrite firstn_app, firstn_all, Nat.sub_diag, skipn_app, skipn_all, Nat.sub_diag.
  cbn [firstn skipn]. rewrite app_nil_r. reflexivity.
Qed.
Lemma to_i2pstring_ok s : (length s <= 255)%nat ->
  to_i2pstring s = Ok (N.of_nat (length s) :: s) /\
  str_is_valid (N.of_nat (length s) :: s) = true /\
  str_data (N.of_nat (length s) :: s) = Ok s.
Proof.
  intros H. unfold to_i2pstring. change STRING_MAX with 255.
  replace (Z.of_nat (length s) >? 255) with false by lia.
  split; [reflexivity|]. split; [cbn; apply N.eqb_refl|].
  unfold str_data, str_length.
  rewrite N.ltb_irrefl. destruct (N.of_nat (length s) =? 0)%N eqn:E.
  - destruct s; [reflexivity | cbn in E; lia].
  - unfold slice. cbn [length].
    replace ((1 <=? N.to_nat (N.of_nat (length s)) + 1)%nat && (N.to_nat (N.of_nat (length s)) + 1 <=? S (length s))%nat)%bool with true by lia.
    cbn [skipn]. rewrite Nat2N.id. replace (length s + 1 - 1)%nat with (length s) by lia.
    rewrite firstn_all. reflexivity.
Qed.
Lemma to_i2pstring_reject s : (length s > 255)%nat -> to_i2pstring s = Err.
Proof. intros H. unfold to_i2pstring. change STRING_MAX with 255. replace (Z.of_nat (length s) >? 255) with true by lia. reflexivity. Qed.
Lemma str_data_nopanic s : str_data s <> Panic.
Proof.
  unfold str_data, str_length. destruct s as [|l rest]; [discriminate|].
  destruct (N.of_nat (length rest) <? l)%N eqn:E1; [discriminate|].
  destruct (l <? N.of_nat (length rest))%N eqn:E2; [discriminate|].
  destruct (l =? 0)%N; [discriminate|]. unfold slice. cbn [length].
  replace ((1 <=? N.to_nat l + 1)%nat && (N.to_nat l + 1 <=? S (length rest))%nat)%bool with true by lia.
  discriminate.
Qed.
