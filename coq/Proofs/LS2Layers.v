(* LS2Layers.v — which part of LeaseSet2.Validate (the validator regenerated from the Go source)
   the parser already guarantees, and which part it does not: the three layers (constructor
   checks, Validate, parser) do NOT describe the same set of values, and this is the exact
   difference. *)
From Coq Require Import ZifyN ZifyNat ZifyBool.
From Model Require Import Bytes Prim Tables Cert KAC Mapping Sig LS Validate.
From Gen Require Import Consts Tables Validators.
From Proofs Require Import BytesLemmas PrimProofs Frame SliceLemmas LeafProofs OffProofs LS2RT ValidatorTie.
Ltac Zify.zify_post_hook ::= Z.div_mod_to_equations.
Open Scope Z_scope.
Local Arguments Z.add : simpl never.
Local Arguments Z.sub : simpl never.
Local Arguments Z.mul : simpl never.
Local Arguments Z.to_nat : simpl never.
Local Arguments Z.of_nat : simpl never.
Local Arguments Z.land : simpl never.

(* the keys the parser returns: declared length = actual length, type code a 16-bit number *)
Definition key_wellformed (k : enckey) : Prop := (ek_type k < 65536)%N /\ N.of_nat (length (ek_data k)) = ek_len k.
Lemma read_enc_keys_wellformed : forall k d ks r, wf d -> read_enc_keys k d = Ok (ks, r) -> Forall key_wellformed ks.
Proof.
  induction k as [|k IH]; intros d ks r W H; cbn [read_enc_keys] in H.
  - apply Ok_pair_inj in H. destruct H as [<- _]. constructor.
  - destruct (length d <? 4)%nat eqn:E4; [discriminate|]. apply Nat.ltb_ge in E4.
    rewrite !slice_ok, slice_from_ok in H by lia. cbn [rbind] in H.
    change (2 - 0)%nat with 2%nat in H. change (4 - 2)%nat with 2%nat in H. change (skipn 0 d) with d in H.
    set (r0 := skipn 4 d) in *. set (kl := be_decode (firstn 2 (skipn 2 d))) in *.
    destruct (length r0 <? N.to_nat kl)%nat eqn:EK; [discriminate|]. apply Nat.ltb_ge in EK.
    rewrite slice_to_ok, slice_from_ok in H by lia. cbn [rbind] in H.
    destruct (read_enc_keys k (skipn (N.to_nat kl) r0)) as [[ks' r']| |] eqn:R; cbn [rbind fst snd] in H; try discriminate.
    apply Ok_pair_inj in H. destruct H as [<- _].
    assert (W0 : wf r0) by (apply wf_skipn, W).
    constructor; [|exact (IH _ _ _ (wf_skipn _ _ W0) R)].
    unfold key_wellformed. cbn [ek_type ek_len ek_data]. split.
    + pose proof (be_decode_bound (firstn 2 d) (wf_firstn 2 d W)) as B. rewrite firstn_length in B.
      replace (Nat.min 2 (length d)) with 2%nat in B by lia. exact B.
    + rewrite firstn_length. lia.
Qed.

(* the part of the key rule the parser does not check: the length the table gives the type *)
Definition key_length_matches_type (k : enckey) : bool :=
  match kc_crypto_pub_sizes (Z.of_N (ek_type k)) with Some sz => Z.of_N (ek_len k) =? sz | None => true end.
Lemma enckey_valid_wellformed k : key_wellformed k -> enckey_valid k = key_length_matches_type k.
Proof. intros [_ L]. unfold enckey_valid, key_length_matches_type. rewrite L, N.eqb_refl. reflexivity. Qed.

Theorem read_lease_set2_layers x l r : wf x -> read_lease_set2 x = Ok (l, r) ->
  (1 <= length (l2_keys l) <= 16)%nat /\ (length (l2_leases l) <= 16)%nat /\
  has_offline (l2_flags l) = (match l2_offline l with Some _ => true | None => false end) /\
  Forall key_wellformed (l2_keys l).
Proof.
  intros W. unfold read_lease_set2.
  destruct (read_ls2_header c_lease_set2_LEASESET2_MIN_SIZE x) as [[[[[[[dest pub] ex] flags] off] opts] r2]| |] eqn:RH; cbn [rbind]; try discriminate.
  destruct (read_ls2_header_inv _ _ _ _ _ _ _ _ _ W RH) as [db [sz [slack [KB [Ex [MS [L2 [Wsz [II [SL W2]]]]]]]]]].
  (* flag / offline consistency comes from the header reader *)
  assert (OC : has_offline flags = match off with Some _ => true | None => false end).
  { revert RH. unfold read_ls2_header.
    destruct (Z.of_nat (length x) <? _); [discriminate|].
    destruct (read_destination x) as [[dst r0]| |]; cbn [rbind fst snd]; try discriminate.
    destruct (length r0 <? 8)%nat eqn:E8; [discriminate|]. apply Nat.ltb_ge in E8.
    rewrite !slice_ok, slice_from_ok by lia. cbn [rbind].
    match goal with |- context [has_offline ?f] => set (fl := f) end.
    destruct (has_offline fl) eqn:HO.
    - destruct (read_offline_signature _ _) as [[o r3']| |]; cbn [rbind fst snd]; try discriminate.
      destruct (read_mapping r3') as [[[m rr] errs]|]; [|discriminate].
      destruct (negb (embedded_mapping_ok errs)); [discriminate|].
      intros H. apply Ok_inj in H. repeat (let H2 := fresh "HH" in apply pair_equal_spec in H; destruct H as [H H2]).
      subst. rewrite HO. reflexivity.
    - cbn [rbind fst snd]. destruct (read_mapping _) as [[[m rr] errs]|]; [|discriminate].
      destruct (negb (embedded_mapping_ok errs)); [discriminate|].
      intros H. apply Ok_inj in H. repeat (let H2 := fresh "HH" in apply pair_equal_spec in H; destruct H as [H H2]).
      subst. rewrite HO. reflexivity. }
  destruct (length r2 <? 1)%nat eqn:E1; [discriminate|]. apply Nat.ltb_ge in E1.
  destruct (index 0 r2) as [nk| |] eqn:IX; cbn [rbind]; try discriminate.
  rewrite slice_from_ok by lia. cbn [rbind].
  destruct ((Z.of_N nk <? 1) || (Z.of_N nk >? c_lease_set2_LEASESET2_MAX_ENCRYPTION_KEYS))%bool eqn:NKB; [discriminate|].
  change c_lease_set2_LEASESET2_MAX_ENCRYPTION_KEYS with 16 in NKB.
  destruct (read_enc_keys (N.to_nat nk) (skipn 1 r2)) as [[ks r4]| |] eqn:RK; cbn [rbind fst snd]; try discriminate.
  destruct (read_enc_keys_RT _ _ _ _ (wf_skipn 1 _ W2) RK) as [EK [LK W4]].
  pose proof (read_enc_keys_wellformed _ _ _ _ (wf_skipn 1 _ W2) RK) as KW.
  destruct (length r4 <? 1)%nat eqn:E4; [discriminate|]. apply Nat.ltb_ge in E4.
  destruct (index 0 r4) as [nl| |] eqn:IX4; cbn [rbind]; try discriminate.
  rewrite slice_from_ok by lia. cbn [rbind].
  destruct (Z.of_N nl >? c_lease_set2_LEASESET2_MAX_LEASES) eqn:NLB; [discriminate|].
  change c_lease_set2_LEASESET2_MAX_LEASES with 16 in NLB.
  destruct (read_n (N.to_nat nl) LEASE2_SIZE (skipn 1 r4)) as [[ls r6]| |] eqn:RN; cbn [rbind fst snd]; try discriminate.
  destruct (read_n_RT _ _ _ _ _ RN) as [EN LN].
  destruct (read_signature r6 _) as [[sg r7]| |] eqn:RS; cbn [rbind fst snd]; try discriminate.
  intros H. apply Ok_pair_inj in H. destruct H as [<- <-].
  cbn [l2_keys l2_leases l2_flags l2_offline].
  split; [lia|]. split; [lia|]. split; [exact OC|exact KW].
Qed.

(* what Validate adds to a parse: exactly the key-length-for-type rule and the reserved bits *)
Theorem ls2_validate_of_parsed x l r : wf x -> read_lease_set2 x = Ok (l, r) ->
  ls2_validate l = forallb key_length_matches_type (l2_keys l) && (Z.land (Z.of_N (l2_flags l)) 65528 =? 0).
Proof.
  intros W H. destruct (read_lease_set2_layers x l r W H) as [[K1 K2] [L [O KW]]].
  assert (TK : Forall (fun k => (ek_type k < 65536)%N) (l2_keys l)).
  { apply (Forall_impl _ (P := key_wellformed)); [intros k [T _]; exact T|exact KW]. }
  rewrite (ls2_validate_spec l TK).
  unfold bytes in *.
  repeat match goal with |- context [?a <=? ?b] =>
    let E := fresh "E" in assert (E : (a <=? b) = true) by lia; rewrite E; clear E end.
  rewrite O, Bool.eqb_reflx. cbn [andb]. rewrite !Bool.andb_true_r.
  f_equal. clear -KW. induction KW as [|k ks Hk _ IH]; cbn [forallb]; [reflexivity|].
  rewrite (enckey_valid_wellformed k Hk), IH. reflexivity.
Qed.

(* ... and the parser does accept values Validate refuses: an X25519 key (type 4) of 31 bytes,
   and a reserved flag bit.  (The constructor refuses both: gen_ls2_defects.) *)
Definition ls2_key31 : bytes :=
  repeatN 1 384 ++ [5; 0; 4; 0; 7; 0; 4]%N ++ [0; 0; 0; 1; 0; 1; 0; 0]%N ++ [0; 0]%N ++ [1]%N ++
  [0; 4; 0; 31]%N ++ repeatN 2 31 ++ [0]%N ++ repeatN 3 64.
Definition ls2_reserved_flag : bytes :=
  repeatN 1 384 ++ [5; 0; 4; 0; 7; 0; 4]%N ++ [0; 0; 0; 1; 0; 1; 0; 8]%N ++ [0; 0]%N ++ [1]%N ++
  [0; 4; 0; 32]%N ++ repeatN 2 32 ++ [0]%N ++ repeatN 3 64.
Lemma parser_accepts_key_length_validate_rejects :
  match read_lease_set2 ls2_key31 with Ok (l, []) => ls2_validate l = false | _ => False end.
Proof. vm_compute. reflexivity. Qed.
Lemma parser_accepts_reserved_flag_validate_rejects :
  match read_lease_set2 ls2_reserved_flag with Ok (l, []) => ls2_validate l = false | _ => False end.
Proof. vm_compute. reflexivity. Qed.
