(* TableProofs.v — facts about the regenerated tables for EVERY integer code: a finite
   check over the union of the tables' keys, lifted to all of Z by the "unknown code"
   lemmas. *)
From Coq Require Import ZifyBool.
From Model Require Import Bytes Tables.
From Gen Require Import Consts Tables.
From Spec Require Import SpecTables.
From Proofs Require Export SigLen.
Open Scope Z_scope.

Lemma assoc_notin l k : ~ In k (map fst l) -> assoc l k = None.
Proof.
  induction l as [|[k' v] l IH]; cbn; intros H; [reflexivity|].
  destruct (Z.eqb_spec k k'); [exfalso; apply H; left; auto|]. apply IH. tauto.
Qed.
Lemma lookup_notin {A} (l : list (Z * A)) k : ~ In k (map fst l) -> lookup l k = None.
Proof.
  induction l as [|[k' v] l IH]; cbn; intros H; [reflexivity|].
  destruct (Z.eqb_spec k k'); [exfalso; apply H; left; auto|]. apply IH. tauto.
Qed.
Lemma memZ_In l k : memZ l k = true <-> In k l.
Proof.
  unfold memZ. rewrite existsb_exists. split.
  - intros [x [Hx E]]. apply Z.eqb_eq in E. subst. exact Hx.
  - intros H. exists k. split; [exact H | apply Z.eqb_refl].
Qed.
Lemma sw_lookup_notin arms d k : ~ In k (flat_map fst arms) -> sw_lookup arms d k = d.
Proof.
  induction arms as [|[ks a] t IH]; cbn; intros H; [reflexivity|].
  destruct (memZ ks k) eqn:E.
  - exfalso. apply H. apply in_or_app. left. apply memZ_In. exact E.
  - apply IH. intros X. apply H. apply in_or_app. right. exact X.
Qed.

(* the codes mentioned anywhere in a table: everything else is "unknown" everywhere *)
Definition known_codes : list Z :=
  map fst m_key_certificate_SigningKeySizes_SignatureSize ++
  map fst m_key_certificate_SigningKeySizes_SigningPublicKeySize ++
  map fst m_key_certificate_CryptoKeySizes_CryptoPublicKeySize ++
  map fst m_key_certificate_CryptoPublicKeySizes ++
  map fst m_key_certificate_SignaturePublicKeySizes ++
  map fst spec_signing ++ map fst spec_crypto.


(* the agreement statement for one code in 0..65535 *)
Definition agree_kc (t : Z) : bool :=
  optZ_eqb (kc_sig_size t) (spec_sig_len t) &&
  optZ_eqb (kc_spk_size t) (spec_spk_len t) &&
  optZ_eqb (kc_sig_pub_sizes t) (spec_spk_len t) &&
  optZ_eqb (kc_crypto_size t) (spec_crypto_len t) &&
  optZ_eqb (kc_crypto_pub_sizes t) (spec_crypto_len t).
Definition agree_code (t : Z) : bool :=
  optZ_eqb (kc_sig_size t) (spec_sig_len t) &&
  optZ_eqb (kc_spk_size t) (spec_spk_len t) &&
  optZ_eqb (kc_sig_pub_sizes t) (spec_spk_len t) &&
  optZ_eqb (nz (off_spk_size t)) (spec_spk_len t) &&
  optZ_eqb (nz (off_sig_size t)) (spec_sig_len t) &&
  optZ_eqb (kc_crypto_size t) (spec_crypto_len t) &&
  optZ_eqb (kc_crypto_pub_sizes t) (spec_crypto_len t).

Lemma agree_known : forallb agree_kc known_codes = true.
Proof. vm_compute. reflexivity. Qed.
Lemma known_codes_range : forallb (fun t => (0 <=? t) && (t <=? 65535)) known_codes = true.
Proof. vm_compute. reflexivity. Qed.

Lemma agree_unknown t : 0 <= t <= 65535 -> ~ In t known_codes -> agree_kc t = true.
Proof.
  intros R H. unfold known_codes in H. repeat rewrite in_app_iff in H.
  unfold agree_kc, kc_sig_size, kc_spk_size, kc_sig_pub_sizes, kc_crypto_size, kc_crypto_pub_sizes,
    spec_sig_len, spec_spk_len, spec_crypto_len.
  rewrite (Z.mod_small t 65536) by lia.
  rewrite !assoc_notin, !lookup_notin by tauto.
  reflexivity.
Qed.

Lemma optZ_eqb_refl a : optZ_eqb a a = true.
Proof. destruct a; cbn; [apply Z.eqb_refl|reflexivity]. Qed.

(* the key-certificate maps by the known / unknown split over the regenerated tables; the two
   offline_signature size functions by the 65 536-code sweep of Proofs/SigLen.v *)
Theorem tables_agree_all : forall t, 0 <= t <= 65535 -> agree_code t = true.
Proof.
  intros t R.
  assert (K : agree_kc t = true).
  { destruct (in_dec Z.eq_dec t known_codes) as [I|N].
    - pose proof agree_known as K. rewrite forallb_forall in K. apply K. exact I.
    - apply agree_unknown; assumption. }
  destruct (off_sizes_in_range t R) as (OA & OB & _ & _).
  unfold agree_kc in K. repeat rewrite Bool.andb_true_iff in K. destruct K as [[[[A B] C] G] I].
  unfold agree_code. rewrite A, B, C, G, I, OA, OB, !optZ_eqb_refl. reflexivity.
Qed.

Lemma C10_aux_crypto t : 0 <= t <= 65535 -> kc_crypto_size t = spec_crypto_len t /\ kc_crypto_pub_sizes t = spec_crypto_len t.
Proof.
  intros R. pose proof (tables_agree_all t R) as H. unfold agree_code in H.
  repeat rewrite Bool.andb_true_iff in H. destruct H as [[[[[[A B] C] E] F] G] I].
  split; apply optZ_eqb_eq; assumption.
Qed.
Lemma C10_aux_signing t : 0 <= t <= 65535 -> kc_spk_size t = spec_spk_len t /\ kc_sig_size t = spec_sig_len t.
Proof.
  intros R. pose proof (tables_agree_all t R) as H. unfold agree_code in H.
  repeat rewrite Bool.andb_true_iff in H. destruct H as [[[[[[A B] C] E] F] G] I].
  split; apply optZ_eqb_eq; assumption.
Qed.

(* deny lists: the library's sets equal the specification's, for every integer *)
Definition deny_codes : list Z :=
  flat_map fst sw_destination_validateDestinationCryptoType ++
  flat_map fst sw_destination_validateDestinationSigningType ++
  m_router_identity_disallowedSigningKeyTypes_keys ++ m_router_identity_disallowedCryptoKeyTypes_keys ++
  [4; 5; 6; 7; 8; 11].
Definition deny_agree (t : Z) : bool :=
  Bool.eqb (dest_crypto_denied t) (spec_crypto_prohibited t) &&
  Bool.eqb (dest_signing_denied t) (spec_dest_sig_prohibited t) &&
  Bool.eqb (ri_crypto_denied t) (spec_crypto_prohibited t) &&
  Bool.eqb (ri_signing_denied t) (spec_ri_sig_prohibited t).
Lemma deny_agree_known : forallb deny_agree deny_codes = true.
Proof. vm_compute. reflexivity. Qed.
Lemma existsb_eqb_notin l t : ~ In t l -> existsb (Z.eqb t) l = false.
Proof.
  intros H. apply not_true_is_false. intros E. apply existsb_exists in E.
  destruct E as [x [Hx E]]. apply Z.eqb_eq in E. subst. auto.
Qed.
Lemma memZ_notin l t : ~ In t l -> memZ l t = false.
Proof.
  intros H. apply not_true_is_false. intros E. apply memZ_In in E. auto.
Qed.
Theorem deny_agree_all : forall t, deny_agree t = true.
Proof.
  intros t. destruct (in_dec Z.eq_dec t deny_codes) as [I|N].
  - pose proof deny_agree_known as K. rewrite forallb_forall in K. apply K. exact I.
  - unfold deny_codes in N. repeat rewrite in_app_iff in N.
    unfold deny_agree, dest_crypto_denied, dest_signing_denied, ri_crypto_denied, ri_signing_denied,
      spec_crypto_prohibited, spec_dest_sig_prohibited, spec_ri_sig_prohibited.
    rewrite !sw_lookup_notin by tauto. rewrite !memZ_notin by tauto.
    rewrite !existsb_eqb_notin; [reflexivity| | |]; cbn in N |- *; intuition lia.
Qed.
