(* MappingProofs.v — properties of the mapping codec model. *)
From Coq Require Import ZifyN ZifyNat ZifyBool Sorting Permutation.
From Model Require Import Bytes Prim Mapping.
From Gen Require Import Consts.
From Proofs Require Import BytesLemmas PrimProofs.
Ltac Zify.zify_post_hook ::= Z.div_mod_to_equations.
Open Scope Z_scope.
Local Arguments Z.add : simpl never.
Local Arguments Z.mul : simpl never.
Local Arguments Z.of_nat : simpl never.

Lemma firstn_exact (a b : bytes) n : length a = n -> firstn n (a ++ b) = a.
Proof. intros <-. rewrite firstn_app, firstn_all, Nat.sub_diag. cbn. apply app_nil_r. Qed.

(* the two-byte size field equals the number of bytes that follow *)
Lemma mapping_data_size_field m sz : m_size m = Some sz ->
  (N.of_nat (length (serialize_pairs (map_values m))) < 65536)%N ->
  exists payload, mapping_data m = be_encode 2 (N.of_nat (length payload)) ++ payload /\
                  payload = serialize_pairs (map_values m) /\
                  be_decode (firstn 2 (mapping_data m)) = N.of_nat (length payload).
Proof.
  intros Hs Hl. unfold mapping_data. rewrite Hs. eexists. split; [|split; [reflexivity|]].
  - rewrite N.mod_small by lia. reflexivity.
  - rewrite N.mod_small by lia. rewrite (firstn_exact _ _ 2) by apply be_encode_length.
    apply be_decode_encode_small. change (256 ^ N.of_nat 2)%N with 65536%N. lia.
Qed.

(* inputs beyond the limits are rejected, not truncated *)
Lemma to_i2pstring_cases s : to_i2pstring s = Err \/ exists t, to_i2pstring s = Ok t.
Proof. unfold to_i2pstring. destruct (Z.of_nat (length s) >? STRING_MAX); eauto. Qed.
Lemma to_pairs_rejects_long kv : Exists (fun p => (length (fst p) > 255 \/ length (snd p) > 255)%nat) kv ->
  to_pairs kv = Err.
Proof.
  induction kv as [|[k v] t IH]; intros H; [inversion H|].
  cbn [to_pairs]. inversion H as [? ? Hh | ? ? Ht]; subst.
  - cbn [fst snd] in Hh. destruct Hh as [Hk|Hv].
    + rewrite to_i2pstring_reject by lia. reflexivity.
    + destruct (to_i2pstring_cases k) as [E|[ks E]]; rewrite E; cbn [rbind]; [reflexivity|].
      rewrite to_i2pstring_reject by lia. reflexivity.
  - specialize (IH Ht). destruct (to_i2pstring_cases k) as [E|[ks E]]; rewrite E; cbn [rbind]; [reflexivity|].
    destruct (to_i2pstring_cases v) as [E2|[vs E2]]; rewrite E2; cbn [rbind]; [reflexivity|]. rewrite IH. reflexivity.
Qed.
Lemma go_map_rejects_long kv : Exists (fun p => (length (fst p) > 255 \/ length (snd p) > 255)%nat) kv ->
  go_map_to_mapping kv = Err.
Proof. intros H. unfold go_map_to_mapping. rewrite to_pairs_rejects_long by exact H. reflexivity. Qed.
Lemma values_to_mapping_rejects_many v : (length v > 1000)%nat -> values_to_mapping v = Err.
Proof.
  intros H. unfold values_to_mapping. change MAX_PAIRS with 1000%nat.
  replace (1000 <? length v)%nat with true by lia. reflexivity.
Qed.

(* insertion sort: output is a permutation of the input and sorted by key content *)
Lemma insert_pair_perm p l : Permutation (p :: l) (insert_pair p l).
Proof.
  induction l as [|q t IH]; cbn [insert_pair]; [reflexivity|].
  destruct (bytes_ltb (key_content (fst q)) (key_content (fst p))).
  - rewrite perm_swap. constructor. exact IH.
  - reflexivity.
Qed.
Lemma mapping_order_perm l : Permutation l (mapping_order l).
Proof.
  unfold mapping_order. induction l as [|p t IH]; cbn [fold_right]; [constructor|].
  rewrite <- insert_pair_perm. constructor. exact IH.
Qed.
Lemma mapping_order_length l : length (mapping_order l) = length l.
Proof. symmetry. apply Permutation_length, mapping_order_perm. Qed.

Definition key_le (p q : pair) : Prop := bytes_ltb (key_content (fst q)) (key_content (fst p)) = false.
Lemma insert_pair_sorted p l : Sorted key_le l -> Sorted key_le (insert_pair p l).
Proof.
  induction l as [|q t IH]; intros S; cbn [insert_pair]; [repeat constructor|].
  destruct (bytes_ltb (key_content (fst q)) (key_content (fst p))) eqn:E.
  - inversion S as [|? ? S' H]; subst. constructor; [apply IH; exact S'|].
    destruct t as [|q' t']; cbn [insert_pair].
    + constructor. unfold key_le. clear -E.
      (* q < p implies not p < q *)
      revert E. generalize (key_content (fst q)) (key_content (fst p)). intros a; induction a as [|x a IHa]; intros [|y b]; cbn; try discriminate; auto.
      destruct (x <? y)%N eqn:E1; destruct (y <? x)%N eqn:E2; try lia; auto; intros; try discriminate.
    + destruct (bytes_ltb (key_content (fst q')) (key_content (fst p))) eqn:E2.
      * inversion H; subst. constructor. assumption.
      * constructor. unfold key_le. clear -E.
        revert E. generalize (key_content (fst q)) (key_content (fst p)). intros a; induction a as [|x a IHa]; intros [|y b]; cbn; try discriminate; auto.
        destruct (x <? y)%N eqn:E1; destruct (y <? x)%N eqn:E3; try lia; auto; intros; try discriminate.
  - constructor; [exact S|]. constructor. unfold key_le. exact E.
Qed.
Lemma mapping_order_sorted l : Sorted key_le (mapping_order l).
Proof.
  unfold mapping_order. induction l as [|p t IH]; cbn [fold_right]; [constructor|].
  apply insert_pair_sorted. exact IH.
Qed.
