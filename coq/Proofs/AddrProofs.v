(* AddrProofs.v — identity equality/addresses (C07) and router-address accessors (C17). *)
From Coq Require Import ZifyN ZifyNat ZifyBool.
From Model Require Import Bytes Prim Tables Cert KAC Mapping Sig LS RI Base Addr.
From Gen Require Import Consts.
From Proofs Require Import BytesLemmas.
Open Scope N_scope.

(* two identities compare equal exactly when their serialisations are equal *)
Lemma dest_equals_iff a b : dest_equals a b = true <-> exists x, kac_bytes a = Ok x /\ kac_bytes b = Ok x.
Proof.
  unfold dest_equals. destruct (kac_bytes a) as [x| |]; destruct (kac_bytes b) as [y| |]; split;
    try discriminate; try (intros [z [H1 H2]]; discriminate).
  - intros H. apply bytes_eqb_eq in H. subst. eauto.
  - intros [z [H1 H2]]. injection H1 as <-. injection H2 as <-. apply bytes_eqb_eq. reflexivity.
Qed.

(* IPv4 literal: only digits and dots, exactly four octets, each below 256 *)
Lemma ipv4_fields_chars s : forall val dl acc f, ipv4_fields s val dl acc = Some f ->
  Forall (fun c => is_digit c = true \/ c = 46) s.
Proof.
  induction s as [|c t IH]; intros val dl acc f H; [constructor|]. cbn [ipv4_fields] in H.
  destruct (is_digit c) eqn:D.
  - destruct ((dl =? 1)%nat && (val =? 0)); [discriminate|].
    destruct (255 <? val * 10 + (c - 48)); [discriminate|]. constructor; [left; exact D|]. eapply IH; exact H.
  - destruct (c =? 46) eqn:E; [|discriminate]. apply N.eqb_eq in E.
    destruct (dl =? 0)%nat; [discriminate|]. destruct (3 <=? length acc)%nat; [discriminate|].
    constructor; [right; exact E|]. eapply IH; exact H.
Qed.
Lemma ipv4_fields_bound s : forall val dl acc f, val <= 255 -> Forall (fun x => x <= 255) acc ->
  ipv4_fields s val dl acc = Some f -> Forall (fun x => x <= 255) f.
Proof.
  induction s as [|c t IH]; intros val dl acc f Hv Ha H; cbn [ipv4_fields] in H.
  - destruct (dl =? 0)%nat; [discriminate|]. injection H as <-. apply Forall_app. split; [exact Ha|]. constructor; [exact Hv|constructor].
  - destruct (is_digit c).
    + destruct ((dl =? 1)%nat && (val =? 0)); [discriminate|].
      destruct (255 <? val * 10 + (c - 48)) eqn:E; [discriminate|]. eapply IH; [| exact Ha | exact H]. lia.
    + destruct (c =? 46); [|discriminate]. destruct (dl =? 0)%nat; [discriminate|]. destruct (3 <=? length acc)%nat; [discriminate|].
      eapply IH; [| | exact H]; [lia|]. apply Forall_app. split; [exact Ha|]. constructor; [exact Hv|constructor].
Qed.
Lemma parse_ipv4_spec s f : parse_ipv4 s = Some f ->
  length f = 4%nat /\ Forall (fun x => x <= 255) f /\ Forall (fun c => is_digit c = true \/ c = 46) s.
Proof.
  unfold parse_ipv4. destruct (ipv4_fields s 0 0 []) as [g|] eqn:E; [|discriminate].
  destruct (length g =? 4)%nat eqn:L; [|discriminate]. intros H; injection H as <-.
  split; [apply Nat.eqb_eq; exact L|]. split.
  - eapply ipv4_fields_bound; [| | exact E]; [lia|constructor].
  - eapply ipv4_fields_chars; exact E.
Qed.
(* a hostname (any letter outside a-f / A-F, or any other character) is never accepted *)
Lemma parse_ip_needs_separator s ip : parse_ip s = Some ip -> first_special s = 46 \/ first_special s = 58.
Proof.
  unfold parse_ip. destruct (first_special s =? 46) eqn:E1; [apply N.eqb_eq in E1; auto|].
  destruct (first_special s =? 58) eqn:E2; [apply N.eqb_eq in E2; auto|]. discriminate.
Qed.
Lemma parse_ip_v4_literal s ip : first_special s = 46 -> parse_ip s = Some ip ->
  Forall (fun c => is_digit c = true \/ c = 46) s /\ is_v4 ip = true /\ length ip = 16%nat.
Proof.
  intros F. unfold parse_ip. rewrite F. cbn [N.eqb Pos.eqb].
  destruct (parse_ipv4 s) as [f|] eqn:E; [|discriminate]. cbn [option_map]. intros H; injection H as <-.
  destruct (parse_ipv4_spec _ _ E) as [L [_ C]]. split; [exact C|]. split.
  - unfold is_v4, v4_in_v6. cbn. reflexivity.
  - unfold v4_in_v6. rewrite !app_length, L. reflexivity.
Qed.

(* accessors and their boolean helpers agree by construction *)
Lemma has_valid_host_iff a : ra_has_valid_host a = true <-> exists ip, ra_host a = Some ip.
Proof. unfold ra_has_valid_host. destruct (ra_host a); split; eauto; try discriminate. intros [ip H]; discriminate. Qed.
Lemma has_valid_port_iff a : ra_has_valid_port a = true <-> exists p, ra_port a = Some p.
Proof. unfold ra_has_valid_port. destruct (ra_port a); split; eauto; try discriminate. intros [ip H]; discriminate. Qed.
(* the port accessor returns the canonical decimal form of a number in 1..65535 *)
Lemma port_canonical a p : ra_port a = Some p -> exists n, (1 <= n <= 65535)%Z /\ p = itoa (Z.to_N n).
Proof.
  unfold ra_port. destruct (ra_option_content a s_router_address_PORT_OPTION_KEY) as [s|]; [|discriminate].
  destruct (atoi s) as [v|]; [|discriminate]. destruct ((v <? 1) || (v >? 65535))%Z eqn:E; [discriminate|].
  intros H; injection H as <-. exists v. split; [lia|reflexivity].
Qed.
(* the reported IP version is the family of the address returned by the host accessor *)
Lemma ip_version_matches_host a ip : ra_host a = Some ip ->
  ra_ip_version a = if is_v4 ip then s_router_address_IPV4_VERSION_STRING else s_router_address_IPV6_VERSION_STRING.
Proof. intros H. unfold ra_ip_version. rewrite H. reflexivity. Qed.
(* the host accessor succeeds only for an IP literal: its text is the host option's content *)
Lemma host_is_ip_literal a ip : ra_host a = Some ip ->
  exists h, ra_option_content a s_router_address_HOST_OPTION_KEY = Some h /\ parse_ip h = Some ip /\ h <> [].
Proof.
  unfold ra_host. destruct (ra_option_content a s_router_address_HOST_OPTION_KEY) as [h|] eqn:E; [|discriminate].
  intros H. exists h. split; [reflexivity|]. split; [exact H|].
  unfold ra_option_content in E. destruct (ra_option a s_router_address_HOST_OPTION_KEY); [|discriminate].
  destruct (str_data b) as [d| |]; try discriminate. destruct (length d =? 0)%nat eqn:L; [discriminate|].
  injection E as <-. intros ->. discriminate.
Qed.
(* option lookup: the value of the first pair whose key content equals the requested key *)
Lemma values_get_exact v key x : values_get v key = Some x ->
  exists kd p, str_data key = Ok kd /\ In p v /\ str_data (fst p) = Ok kd /\ snd p = x.
Proof.
  unfold values_get. destruct (str_data key) as [kd| |] eqn:K; try discriminate.
  match goal with |- context [find ?f v] => destruct (find f v) as [p|] eqn:F end; [|discriminate]. intros H; injection H as <-.
  apply find_some in F. destruct F as [I E]. destruct (str_data (fst p)) as [d| |] eqn:D; try discriminate.
  apply bytes_eqb_eq in E. subst. exists kd, p. auto.
Qed.
(* static key / IV accessors succeed exactly for 32- / 16-byte values *)
Lemma fixed_key_length a key size d : ra_fixed_key a key size = Some d -> Z.of_nat (length d) = size.
Proof.
  unfold ra_fixed_key. destruct (ra_option a key); [|discriminate]. destruct (str_data b) as [x| |]; try discriminate.
  destruct (Z.of_nat (length x) =? size)%Z eqn:E; [|discriminate]. intros H; injection H as <-. lia.
Qed.
