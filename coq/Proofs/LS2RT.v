(* LS2RT.v — LeaseSet2 / MetaLeaseSet: the serialisation of a parsed value is the consumed
   input with the options mapping's slack (if any) removed; so it reproduces the consumed
   bytes exactly when the mapping holds no slack (C01, and the exact extent of finding D2). *)
From Coq Require Import ZifyN ZifyNat ZifyBool.
From Model Require Import Bytes Prim Tables Cert KAC Mapping Sig LS.
From Gen Require Import Consts Tables.
From Proofs Require Import BytesLemmas PrimProofs Frame SliceLemmas LeafProofs TableProofs KacRT OffProofs MappingProofs MapRT.
Ltac Zify.zify_post_hook ::= Z.div_mod_to_equations.
Open Scope Z_scope.
Local Arguments Z.add : simpl never.
Local Arguments Z.sub : simpl never.
Local Arguments Z.mul : simpl never.
Local Arguments Z.to_nat : simpl never.
Local Arguments Z.of_nat : simpl never.

Lemma Ok_inj {A} (a b : A) : Ok a = Ok b -> a = b.
Proof. intros H. injection H as ->. reflexivity. Qed.

(* n fixed-size records *)
Lemma read_n_RT size : forall k d ls r, read_n k size d = Ok (ls, r) -> concat ls ++ r = d /\ length ls = k.
Proof.
  induction k as [|k IH]; intros d ls r H; cbn [read_n] in H.
  - apply Ok_pair_inj in H. destruct H as [<- <-]. auto.
  - destruct (take size d) as [[h t]| |] eqn:T; cbn [rbind fst snd] in H; try discriminate.
    destruct (read_n k size t) as [[ls' r']| |] eqn:R; cbn [rbind fst snd] in H; try discriminate.
    apply Ok_pair_inj in H. destruct H as [<- <-]. destruct (IH _ _ _ R) as [E L].
    destruct (take_ok _ _ _ _ T) as [Ed _]. cbn [concat length]. rewrite <- app_assoc, E, <- Ed. auto.
Qed.

(* encryption keys *)
Lemma read_enc_keys_RT : forall k d ks r, wf d -> read_enc_keys k d = Ok (ks, r) ->
  flat_map enckey_bytes ks ++ r = d /\ length ks = k /\ wf r.
Proof.
  induction k as [|k IH]; intros d ks r W H; cbn [read_enc_keys] in H.
  - apply Ok_pair_inj in H. destruct H as [<- <-]. auto.
  - destruct (length d <? 4)%nat eqn:E4; [discriminate|]. apply Nat.ltb_ge in E4.
    rewrite !slice_ok, slice_from_ok in H by lia. cbn [rbind] in H.
    change (2 - 0)%nat with 2%nat in H. change (4 - 2)%nat with 2%nat in H. change (skipn 0 d) with d in H.
    set (r0 := skipn 4 d) in *. set (kl := be_decode (firstn 2 (skipn 2 d))) in *.
    destruct (length r0 <? N.to_nat kl)%nat eqn:EK; [discriminate|]. apply Nat.ltb_ge in EK.
    rewrite slice_to_ok, slice_from_ok in H by lia. cbn [rbind] in H.
    destruct (read_enc_keys k (skipn (N.to_nat kl) r0)) as [[ks' r']| |] eqn:R; cbn [rbind fst snd] in H; try discriminate.
    apply Ok_pair_inj in H. destruct H as [<- <-].
    assert (W0 : wf r0) by (apply wf_skipn, W).
    destruct (IH _ _ _ (wf_skipn _ _ W0) R) as [E [L Wr]].
    split; [|split; [cbn [length]; lia|exact Wr]].
    cbn [flat_map]. unfold enckey_bytes at 1. cbn [ek_type ek_len ek_data].
    rewrite (be_encode_decode_n 2) by (rewrite ?firstn_length; try lia; apply wf_firstn, W).
    unfold kl at 1. rewrite (be_encode_decode_n 2) by (rewrite ?firstn_length, ?skipn_length; try lia; apply wf_firstn, wf_skipn, W).
    rewrite <- !app_assoc, E, firstn_skipn. unfold r0.
    pose proof (firstn_skipn_slices 2 4 d ltac:(lia)) as A. change (4 - 2)%nat with 2%nat in A.
    rewrite app_assoc, A. apply firstn_skipn.
Qed.

(* the options field as serialised *)
Lemma options_bytes_eq m sz : m_size m = Some sz ->
  options_bytes m = be_encode 2 (N.of_nat (length (serialize_pairs (map_values m))) mod 65536) ++ serialize_pairs (map_values m).
Proof.
  intros MS. unfold options_bytes, mapping_data. rewrite MS.
  destruct (map_values m) as [|p ps] eqn:E; [reflexivity|]. cbn [length Nat.ltb Nat.leb]. reflexivity.
Qed.

Definition opt_off_bytes (o : option offsig) : bytes := match o with Some x => off_bytes x | None => [] end.

Lemma read_ls2_header_inv minsize d dest pub ex flags off opts r2 : wf d ->
  read_ls2_header minsize d = Ok (dest, pub, ex, flags, off, opts, r2) ->
  exists db sz slack, kac_bytes dest = Ok db /\
    d = db ++ be_encode 4 pub ++ be_encode 2 ex ++ be_encode 2 flags ++ opt_off_bytes off ++
        sz ++ serialize_pairs (map_values opts) ++ slack ++ r2 /\
    m_size opts = Some sz /\ length sz = 2%nat /\ wf sz /\
    integer_int sz = Z.of_nat (length (serialize_pairs (map_values opts) ++ slack)) /\
    (slack = [] \/ has_min_bytes slack = false) /\ wf r2.
Proof.
  intros W. unfold read_ls2_header.
  destruct (Z.of_nat (length d) <? minsize); [discriminate|].
  destruct (read_destination d) as [[dst r0]| |] eqn:RD; cbn [rbind fst snd]; try discriminate.
  destruct (read_destination_RoundTrip _ _ _ W RD) as [db [KB Ed]].
  assert (W0 : wf r0) by (rewrite <- Ed in W; apply wf_app in W; tauto).
  destruct (length r0 <? 8)%nat eqn:E8; [discriminate|]. apply Nat.ltb_ge in E8.
  rewrite !slice_ok, slice_from_ok by lia. cbn [rbind].
  change (4 - 0)%nat with 4%nat. change (6 - 4)%nat with 2%nat. change (8 - 6)%nat with 2%nat. change (skipn 0 r0) with r0.
  assert (D0 : r0 = firstn 4 r0 ++ firstn 2 (skipn 4 r0) ++ firstn 2 (skipn 6 r0) ++ skipn 8 r0).
  { pose proof (firstn_skipn_slices 4 6 r0 ltac:(lia)) as A1. change (6 - 4)%nat with 2%nat in A1.
    pose proof (firstn_skipn_slices 6 8 r0 ltac:(lia)) as A2. change (8 - 6)%nat with 2%nat in A2.
    rewrite app_assoc, A1, app_assoc, A2. symmetry. apply firstn_skipn. }
  assert (W1 : wf (skipn 8 r0)) by (apply wf_skipn, W0).
  set (r1 := skipn 8 r0) in *. set (fl := be_decode (firstn 2 (skipn 6 r0))) in *.
  match goal with |- (do orr <- ?e; _) = _ -> _ => destruct e as [[oo r1']| |] eqn:EO; cbn [rbind fst snd]; try discriminate end.
  assert (OFF : opt_off_bytes oo ++ r1' = r1).
  { revert EO. destruct (has_offline fl).
    - destruct (read_offline_signature r1 _) as [[o r3']| |] eqn:RO; cbn [rbind fst snd]; try discriminate.
      intros H. apply Ok_pair_inj in H. destruct H as [<- <-]. apply (read_offline_RoundTrip _ _ _ _ W1 RO).
    - intros H. apply Ok_pair_inj in H. destruct H as [<- <-]. reflexivity. }
  assert (W1' : wf r1') by (rewrite <- OFF in W1; apply wf_app in W1; tauto).
  destruct (read_mapping r1') as [[[m rr] errs]|] eqn:RM; [|discriminate].
  destruct (embedded_mapping_ok errs) eqn:EM; cbn [negb]; [|discriminate].
  intros H. apply Ok_inj in H.
  repeat (let H2 := fresh "HH" in apply pair_equal_spec in H; destruct H as [H H2]).
  subst dest pub ex flags off opts r2.
  assert (FE : fatal_errors errs = []).
  { unfold embedded_mapping_ok in EM. apply Nat.eqb_eq in EM. destruct (fatal_errors errs); [reflexivity|discriminate]. }
  destruct (read_mapping_inv _ _ _ _ RM FE) as [slack [Eb [MS [L2 [II [SL FO]]]]]].
  exists db, (firstn 2 r1'), slack. split; [exact KB|].
  assert (Wr : wf rr).
  { rewrite Eb in W1'. repeat (apply wf_app in W1'; destruct W1' as [_ W1']). exact W1'. }
  split.
  - rewrite (be_encode_decode_n 4) by (rewrite ?firstn_length; try lia; apply wf_firstn, W0).
    rewrite (be_encode_decode_n 2) by (rewrite ?firstn_length, ?skipn_length; try lia; apply wf_firstn, wf_skipn, W0).
    unfold fl. rewrite (be_encode_decode_n 2) by (rewrite ?firstn_length, ?skipn_length; try lia; apply wf_firstn, wf_skipn, W0).
    rewrite <- Eb, OFF. fold r1 in D0. rewrite <- D0. symmetry. exact Ed.
  - repeat split; auto. apply wf_firstn, W1'.
Qed.

Lemma index0_split (r : bytes) c : index 0 r = Ok c -> r = c :: skipn 1 r.
Proof. unfold index. destruct r as [|x t]; cbn [nth_error]; [discriminate|]. intros H; injection H as ->. reflexivity. Qed.

Theorem read_lease_set2_shape x l r : wf x -> read_lease_set2 x = Ok (l, r) ->
  exists pre sz slack post,
    x = pre ++ sz ++ serialize_pairs (map_values (l2_options l)) ++ slack ++ post ++ r /\
    lease_set2_bytes l = Ok (pre ++ be_encode 2 (N.of_nat (length (serialize_pairs (map_values (l2_options l))))) ++
                             serialize_pairs (map_values (l2_options l)) ++ post) /\
    length sz = 2%nat /\ wf sz /\
    integer_int sz = Z.of_nat (length (serialize_pairs (map_values (l2_options l)) ++ slack)) /\
    (slack = [] \/ has_min_bytes slack = false).
Proof.
  intros W. unfold read_lease_set2.
  destruct (read_ls2_header c_lease_set2_LEASESET2_MIN_SIZE x) as [[[[[[[dest pub] ex] flags] off] opts] r2]| |] eqn:RH; cbn [rbind]; try discriminate.
  destruct (read_ls2_header_inv _ _ _ _ _ _ _ _ _ W RH) as [db [sz [slack [KB [Ex [MS [L2 [Wsz [II [SL W2]]]]]]]]]].
  destruct (length r2 <? 1)%nat eqn:E1; [discriminate|]. apply Nat.ltb_ge in E1.
  destruct (index 0 r2) as [nk| |] eqn:IX; cbn [rbind]; try discriminate.
  rewrite slice_from_ok by lia. cbn [rbind].
  destruct ((Z.of_N nk <? 1) || (Z.of_N nk >? c_lease_set2_LEASESET2_MAX_ENCRYPTION_KEYS))%bool eqn:NKB; [discriminate|].
  change c_lease_set2_LEASESET2_MAX_ENCRYPTION_KEYS with 16 in NKB.
  destruct (read_enc_keys (N.to_nat nk) (skipn 1 r2)) as [[ks r4]| |] eqn:RK; cbn [rbind fst snd]; try discriminate.
  destruct (read_enc_keys_RT _ _ _ _ (wf_skipn 1 _ W2) RK) as [EK [LK W4]].
  destruct (length r4 <? 1)%nat eqn:E4; [discriminate|]. apply Nat.ltb_ge in E4.
  destruct (index 0 r4) as [nl| |] eqn:IX4; cbn [rbind]; try discriminate.
  rewrite slice_from_ok by lia. cbn [rbind].
  destruct (Z.of_N nl >? c_lease_set2_LEASESET2_MAX_LEASES) eqn:NLB; [discriminate|].
  change c_lease_set2_LEASESET2_MAX_LEASES with 16 in NLB.
  destruct (read_n (N.to_nat nl) LEASE2_SIZE (skipn 1 r4)) as [[ls r6]| |] eqn:RN; cbn [rbind fst snd]; try discriminate.
  destruct (read_n_RT _ _ _ _ _ RN) as [EN LN].
  destruct (read_signature r6 _) as [[sg r7]| |] eqn:RS; cbn [rbind fst snd]; try discriminate.
  destruct (read_signature_RoundTrip _ _ _ _ RS) as [sb [SB ES]]. injection SB as <-.
  intros H. apply Ok_pair_inj in H. destruct H as [<- <-].
  set (payload := serialize_pairs (map_values opts)) in *.
  exists (db ++ be_encode 4 pub ++ be_encode 2 ex ++ be_encode 2 flags ++ opt_off_bytes off), sz, slack,
         ([nk] ++ flat_map enckey_bytes ks ++ [nl] ++ concat ls ++ sig_bytes sg).
  cbn [l2_options].
  assert (PL : (N.of_nat (length payload) < 65536)%N).
  { destruct (integer_int_2bytes sz L2 Wsz) as [I2 B2]. rewrite app_length in II. lia. }
  split; [|split].
  - rewrite Ex. rewrite <- !app_assoc. repeat f_equal.
    rewrite (index0_split _ _ IX) at 1. cbn [app]. f_equal. rewrite <- EK. f_equal.
    rewrite (index0_split _ _ IX4) at 1. f_equal. rewrite <- EN. f_equal. symmetry. exact ES.
  - unfold lease_set2_bytes, lease_set2_content, dest_bytes.
    cbn [l2_dest l2_published l2_expires l2_flags l2_offline l2_options l2_keys l2_leases l2_sig].
    rewrite KB. cbn [rbind]. rewrite (options_bytes_eq opts sz MS). fold payload. rewrite N.mod_small by exact PL.
    rewrite LK, LN, !N2Nat.id. rewrite !N.mod_small by lia.
    fold (opt_off_bytes off). rewrite <- !app_assoc. reflexivity.
  - auto.
Qed.

Lemma sz_of_payload sz (payload : bytes) : length sz = 2%nat -> wf sz -> integer_int sz = Z.of_nat (length payload) ->
  be_encode 2 (N.of_nat (length payload)) = sz.
Proof.
  intros L W I. destruct (integer_int_2bytes sz L W) as [I2 _].
  replace (N.of_nat (length payload)) with (be_decode sz) by lia. rewrite <- L. apply be_encode_decode. exact W.
Qed.

Theorem read_lease_set2_RoundTrip_iff x l r : wf x -> read_lease_set2 x = Ok (l, r) ->
  exists b slack, lease_set2_bytes l = Ok b /\ (slack = [] \/ has_min_bytes slack = false) /\
    length x = (length b + length slack + length r)%nat /\ (b ++ r = x <-> slack = []).
Proof.
  intros W H. destruct (read_lease_set2_shape x l r W H) as [pre [sz [slack [post [Ex [EB [L2 [Wsz [II SL]]]]]]]]].
  eexists. exists slack. split; [exact EB|]. split; [exact SL|].
  set (payload := serialize_pairs (map_values (l2_options l))) in *.
  split.
  - rewrite Ex. rewrite !app_length, be_encode_length, L2. lia.
  - split.
    + intros E. rewrite Ex in E. apply (f_equal (@length _)) in E. rewrite !app_length, be_encode_length, L2 in E.
      destruct slack; [reflexivity|cbn [length] in E; lia].
    + intros ->. rewrite app_nil_r in II. cbn [app] in Ex. rewrite (sz_of_payload sz payload L2 Wsz II).
      rewrite Ex. rewrite <- !app_assoc. reflexivity.
Qed.
