(* EncProofs.v — EncryptedLeaseSet inner encryption layout and the blinding date. *)
From Coq Require Import ZifyN ZifyNat ZifyBool Sorting.
From Model Require Import Bytes Prim Enc.
From Proofs Require Import BytesLemmas Frame.
Ltac Zify.zify_post_hook ::= Z.div_mod_to_equations.
Open Scope Z_scope.

(* the split is a partition of the data: every byte is part of exactly one of the four inputs
   of the key agreement / AEAD *)
Lemma split4_partition a b tg d e n c t : split4 a b tg d = Ok (e, n, c, t) ->
  d = e ++ n ++ c ++ t /\ length e = a /\ length n = b /\ length t = tg.
Proof.
  unfold split4. destruct (length d <? a + b + tg)%nat eqn:E; [discriminate|].
  rewrite slice_ok, slice_ok, slice_from_ok by lia. cbn [rbind].
  rewrite skipn_length. replace (length d - (a + b) <? tg)%nat with false by lia.
  rewrite slice_to_ok, slice_from_ok by (rewrite skipn_length; lia). cbn [rbind].
  intros H; injection H as <- <- <- <-. split.
  - rewrite firstn_skipn. replace (a + b - a)%nat with b by lia. rewrite Nat.sub_0_r.
    replace (skipn 0 d) with d by reflexivity.
    rewrite <- (firstn_skipn a d) at 1. f_equal.
    rewrite <- (firstn_skipn b (skipn a d)) at 1. f_equal. rewrite skipn_skipn. reflexivity.
  - rewrite !firstn_length, !skipn_length. repeat split; lia.
Qed.
Lemma split4_app a b tg e n c t : length e = a -> length n = b -> length t = tg ->
  split4 a b tg (e ++ n ++ c ++ t) = Ok (e, n, c, t).
Proof.
  intros La Lb Lt. unfold split4.
  replace (length (e ++ n ++ c ++ t) <? a + b + tg)%nat with false by (rewrite !app_length; lia).
  rewrite slice_ok by (rewrite !app_length; lia). rewrite Nat.sub_0_r. replace (skipn 0 (e ++ n ++ c ++ t)) with (e ++ n ++ c ++ t) by reflexivity.
  rewrite firstn_app, <- La, Nat.sub_diag, firstn_all. cbn [firstn]. rewrite app_nil_r.
  rewrite slice_ok by (rewrite !app_length; lia).
  rewrite skipn_app, skipn_all, Nat.sub_diag. cbn [app skipn]. replace (length e + b - length e)%nat with b by lia.
  rewrite firstn_app, <- Lb, Nat.sub_diag, firstn_all. cbn [firstn]. rewrite app_nil_r.
  rewrite slice_from_ok by (rewrite !app_length; lia).
  replace (skipn (length e + length n) (e ++ n ++ c ++ t)) with (c ++ t).
  2:{ rewrite <- skipn_skipn. rewrite skipn_app, skipn_all, Nat.sub_diag. cbn [app skipn].
      rewrite skipn_app, skipn_all, Nat.sub_diag. reflexivity. }
  cbn [rbind]. rewrite app_length. replace (length c + length t <? tg)%nat with false by lia.
  replace (length c + length t - tg)%nat with (length c) by lia.
  rewrite slice_to_ok, slice_from_ok by (rewrite app_length; lia). cbn [rbind].
  rewrite firstn_app, firstn_all, Nat.sub_diag, skipn_app, skipn_all, Nat.sub_diag. cbn [firstn skipn].
  rewrite app_nil_r. reflexivity.
Qed.
Lemma els_split_partition d e n c t : els_split d = Ok (e, n, c, t) ->
  d = e ++ n ++ c ++ t /\ length e = 32%nat /\ length n = 12%nat /\ length t = 16%nat.
Proof. apply split4_partition. Qed.
Lemma els_split_injective d d' s : els_split d = Ok s -> els_split d' = Ok s -> d = d'.
Proof.
  destruct s as [[[e n] c] t]. intros H1 H2.
  destruct (els_split_partition _ _ _ _ _ H1) as [E1 _]. destruct (els_split_partition _ _ _ _ _ H2) as [E2 _]. congruence.
Qed.

Section Cipher.
  Variable dh : bytes -> bytes -> bytes.
  Variable pubof : bytes -> bytes.
  Variable kdf : bytes -> bytes.
  Variable aead_enc : bytes -> bytes -> bytes -> bytes * bytes.
  Variable aead_dec : bytes -> bytes -> bytes -> bytes -> option bytes.
  Hypothesis dh_agree : forall a b, dh a (pubof b) = dh b (pubof a).
  Hypothesis aead_ok : forall k n p, let '(c, t) := aead_enc k n p in aead_dec k n c t = Some p /\ length t = 16%nat.
  Hypothesis pub_len : forall a, length (pubof a) = 32%nat.
  Hypothesis pub_canonical : forall a, canonical_pub (pubof a) = true.

  Lemma els_decrypt_encrypt sk esk nonce pt cookie : length nonce = 12%nat -> length cookie = 32%nat ->
    els_decrypt dh kdf aead_dec cookie sk (els_encrypt dh pubof kdf aead_enc (pubof sk) esk nonce pt) = Ok pt.
  Proof.
    intros Ln Lc. unfold els_decrypt, els_encrypt. rewrite Lc. cbn [Nat.eqb negb].
    pose proof (aead_ok (kdf (dh esk (pubof sk))) nonce pt) as A.
    destruct (aead_enc (kdf (dh esk (pubof sk))) nonce pt) as [ct tag]. destruct A as [A Lt].
    assert (S : els_split (pubof esk ++ nonce ++ ct ++ tag) = Ok (pubof esk, nonce, ct, tag)).
    { apply split4_app; [apply pub_len | exact Ln | exact Lt]. }
    rewrite S. cbn [rbind]. rewrite pub_canonical. cbn [negb]. rewrite <- dh_agree. rewrite A. reflexivity.
  Qed.
End Cipher.

(* a wrong cookie length, or data too short to hold key, nonce and tag, is an error *)
Lemma els_decrypt_short dh kdf aead_dec cookie sk d : (length d < 60)%nat -> els_decrypt dh kdf aead_dec cookie sk d = Err.
Proof.
  intros H. unfold els_decrypt. destruct (negb (length cookie =? 32)%nat); [reflexivity|].
  unfold els_split, split4, ELS_EPH, ELS_NONCE, ELS_TAG. replace (length d <? 32 + 12 + 16)%nat with true by lia. reflexivity.
Qed.
(* decryption depends on the data only through its four parts, which partition it: a
   modified ciphertext changes an input of the key agreement or of the AEAD *)
Lemma els_decrypt_inputs dh kdf aead_dec cookie sk d e n c t p : els_split d = Ok (e, n, c, t) ->
  els_decrypt dh kdf aead_dec cookie sk d = Ok p -> aead_dec (kdf (dh sk e)) n c t = Some p.
Proof.
  intros S H. unfold els_decrypt in H. destruct (negb (length cookie =? 32)%nat); [discriminate|].
  rewrite S in H. cbn [rbind] in H. destruct (negb (canonical_pub e)); [discriminate|].
  destruct (aead_dec (kdf (dh sk e)) n c t); [|discriminate]. injection H as <-. reflexivity.
Qed.
(* the second spelling of an X25519 key (most significant bit set) is refused: without this the
   key agreement, which ignores that bit, would make byte 31 of the data malleable (defect D23) *)
Lemma els_decrypt_noncanonical dh kdf aead_dec cookie sk d e n c t : els_split d = Ok (e, n, c, t) ->
  canonical_pub e = false -> els_decrypt dh kdf aead_dec cookie sk d = Err.
Proof.
  intros S NC. unfold els_decrypt. destruct (negb (length cookie =? 32)%nat); [reflexivity|].
  rewrite S. cbn [rbind]. rewrite NC. reflexivity.
Qed.
Lemma els_decrypt_accepts_canonical_only dh kdf aead_dec cookie sk d e n c t p : els_split d = Ok (e, n, c, t) ->
  els_decrypt dh kdf aead_dec cookie sk d = Ok p -> canonical_pub e = true.
Proof.
  intros S H. destruct (canonical_pub e) eqn:E; [reflexivity|]. rewrite (els_decrypt_noncanonical _ _ _ _ _ _ _ _ _ _ S E) in H. discriminate.
Qed.

(* ---- blinding date ---- *)
Lemma date_string_of_day s s' : s / 86400 = s' / 86400 -> date_string s = date_string s'.
Proof. intros H. unfold date_string, days_of_unix. rewrite H. reflexivity. Qed.
(* distinct days give distinct date strings, for every day from 1970-01-01 to 2106-02-07
   (all 32-bit second values): checked exhaustively, the bound stated *)
Definition day_code (d : Z) : Z := let '(y, m, dd) := civil_of_days d in y * 10000 + m * 100 + dd.
Definition DAYS : nat := Z.to_nat 49711.
Lemma DAYS_Z : Z.of_nat DAYS = 49711. Proof. unfold DAYS. rewrite Z2Nat.id; lia. Qed.
Fixpoint increasing (k : nat) (d : Z) : bool :=
  match k with O => true | S k' => (day_code d <? day_code (d + 1)) && increasing k' (d + 1) end.
Lemma day_codes_increasing : increasing DAYS 0 = true.
Proof. vm_compute. reflexivity. Qed.
Lemma increasing_lt k : forall d i j, increasing k d = true -> 0 <= i -> i < j -> j <= Z.of_nat k ->
  day_code (d + i) < day_code (d + j).
Proof.
  induction k as [|k IH]; intros d i j H Hi Hij Hj; [lia|].
  cbn [increasing] in H. apply Bool.andb_true_iff in H. destruct H as [H1 H2]. apply Z.ltb_lt in H1.
  destruct (Z.eq_dec i 0) as [->|Ni].
  - rewrite Z.add_0_r. destruct (Z.eq_dec j 1) as [->|Nj]; [exact H1|].
    specialize (IH (d + 1) 0 (j - 1) H2 ltac:(lia) ltac:(lia) ltac:(lia)).
    replace (d + 1 + 0) with (d + 1) in IH by lia. replace (d + 1 + (j - 1)) with (d + j) in IH by lia. lia.
  - specialize (IH (d + 1) (i - 1) (j - 1) H2 ltac:(lia) ltac:(lia) ltac:(lia)).
    replace (d + 1 + (i - 1)) with (d + i) in IH by lia. replace (d + 1 + (j - 1)) with (d + j) in IH by lia. exact IH.
Qed.
Lemma day_code_injective a b : 0 <= a <= 49711 -> 0 <= b <= 49711 -> day_code a = day_code b -> a = b.
Proof.
  intros Ha Hb E. destruct (Z.lt_trichotomy a b) as [L|[->|L]]; [|reflexivity|].
  - pose proof (increasing_lt DAYS 0 a b day_codes_increasing ltac:(lia) L ltac:(rewrite DAYS_Z; lia)) as X. rewrite !Z.add_0_l in X. lia.
  - pose proof (increasing_lt DAYS 0 b a day_codes_increasing ltac:(lia) L ltac:(rewrite DAYS_Z; lia)) as X. rewrite !Z.add_0_l in X. lia.
Qed.
