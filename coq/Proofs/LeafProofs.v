(* LeafProofs.v — round trip, append-invariance and panic-freedom for the leaf parsers:
   certificate, key certificate, signature, offline signature, leases, session keys/tags. *)
From Coq Require Import ZifyN ZifyNat ZifyBool.
From Model Require Import Bytes Prim Tables Cert Sig.
From Gen Require Import Consts.
From Proofs Require Import BytesLemmas PrimProofs Frame.
From Proofs Require Export SigLen.
Ltac Zify.zify_post_hook ::= Z.div_mod_to_equations.
Open Scope Z_scope.
Local Arguments Z.add : simpl never.
Local Arguments Z.sub : simpl never.
Local Arguments Z.mul : simpl never.
Local Arguments Z.to_nat : simpl never.
Local Arguments Z.of_nat : simpl never.

(* a 2-byte length field is below 65536 *)
Lemma integer_int_2 l : length l = 2%nat -> wf l -> 0 <= integer_int l < 65536.
Proof.
  intros L W. unfold integer_int. rewrite int_from_bytes_le8 by lia.
  pose proof (be_decode_bound l W) as B. rewrite L in B. change (256 ^ N.of_nat 2)%N with 65536%N in B.
  rewrite wrap64_small by (unfold two63; lia). lia.
Qed.
Lemma integer_int_nonneg_le8 l : (0 < length l <= 2)%nat -> wf l -> 0 <= integer_int l < 65536.
Proof.
  intros L W. unfold integer_int. rewrite int_from_bytes_le8 by lia.
  pose proof (be_decode_bound l W) as B.
  assert (256 ^ N.of_nat (length l) <= 65536)%N.
  { destruct l as [|a [|b [|c l]]]; cbn in L; try lia; cbn; lia. }
  rewrite wrap64_small by (unfold two63; lia). lia.
Qed.

(* ---- certificate ---- *)
Lemma cert_valid_mk (x p : bytes) : (3 <= length x)%nat ->
  cert_is_valid (mkCert (firstn 1 x) (firstn 2 (skipn 1 x)) p) = true.
Proof.
  intros H. unfold cert_is_valid. cbn [c_kind c_len]. rewrite !firstn_length, skipn_length.
  replace (Nat.min 1 (length x)) with 1%nat by lia. replace (Nat.min 2 (length x - 1)) with 2%nat by lia. reflexivity.
Qed.
Lemma read_certificate_shape x c r : wf x -> read_certificate x = Ok (c, r) ->
  (3 <= length x)%nat /\ c = mkCert (firstn 1 x) (firstn 2 (skipn 1 x)) (skipn 3 x) /\
  0 <= cert_len_int c <= Z.of_nat (length x) - 3 /\
  r = skipn (3 + Z.to_nat (cert_len_int c)) x.
Proof.
  intros W. unfold read_certificate. change CERT_MIN with 3%nat. change c_certificate_CERT_MIN_SIZE with 3.
  destruct (length x <? 3)%nat eqn:E; [discriminate|]. apply Nat.ltb_ge in E.
  rewrite slice_ok, slice_ok, slice_from_ok by lia. cbn [rbind].
  change (1 - 0)%nat with 1%nat. change (3 - 1)%nat with 2%nat. change (skipn 0 x) with x.
  set (c0 := mkCert (firstn 1 x) (firstn 2 (skipn 1 x)) (skipn 3 x)).
  assert (L2 : length (c_len c0) = 2%nat).
  { unfold c0; cbn [c_len]. rewrite firstn_length, skipn_length. lia. }
  assert (W2 : wf (c_len c0)) by (unfold c0; cbn [c_len]; apply wf_firstn, wf_skipn, W).
  pose proof (integer_int_2 _ L2 W2) as B. fold (cert_len_int c0) in B.
  destruct (cert_len_int c0 >? Z.of_nat (length x) - 3) eqn:E2; [discriminate|].
  assert (V : cert_is_valid c0 = true).
  { apply cert_valid_mk; lia. }
  unfold cert_length. rewrite V. change c_certificate_CERT_MIN_SIZE with 3.
  assert (PL : length (c_payload c0) = (length x - 3)%nat) by (try unfold c0; cbn [c_payload]; rewrite skipn_length; lia).
  rewrite PL. replace (Z.min (cert_len_int c0) (Z.of_nat (length x - 3))) with (cert_len_int c0) by lia.
  destruct (Z.of_nat (length x) >? 3 + cert_len_int c0) eqn:E3.
  - rewrite slice_from_ok by lia. cbn [rbind]. intros H; injection H as Hc Hr; subst c r.
    split; [lia|]. split; [reflexivity|]. split; [lia|].
    f_equal. lia.
  - intros H; injection H as Hc Hr; subst c r. split; [lia|]. split; [reflexivity|]. split; [lia|].
    rewrite skipn_all2 by lia. reflexivity.
Qed.

Lemma cert_bytes_of_read x c r : wf x -> read_certificate x = Ok (c, r) ->
  cert_bytes c = Ok (firstn (3 + Z.to_nat (cert_len_int c)) x).
Proof.
  intros W H. destruct (read_certificate_shape _ _ _ W H) as [L [Ec [B Er]]].
  assert (V : cert_is_valid c = true).
  { subst c. apply cert_valid_mk; lia. }
  unfold cert_bytes, cert_data, cert_length_field. rewrite V.
  change c_certificate_CERT_EMPTY_PAYLOAD_SIZE with 0. change c_certificate_CERT_MAX_PAYLOAD_SIZE with 65535.
  assert (B2 : 0 <= cert_len_int c < 65536).
  { apply integer_int_2; subst c; cbn [c_len].
    - rewrite firstn_length, skipn_length. lia.
    - apply wf_firstn, wf_skipn, W. }
  replace ((cert_len_int c <? 0) || (cert_len_int c >? 65535))%bool with false by lia.
  cbn [rbind].
  assert (PL : length (c_payload c) = (length x - 3)%nat) by (subst c; cbn [c_payload]; rewrite skipn_length; lia).
  rewrite PL. replace (cert_len_int c >? Z.of_nat (length x - 3)) with false by lia.
  rewrite slice_ok by (rewrite PL; lia). cbn [skipn]. rewrite Nat.sub_0_r.
  f_equal. remember (Z.to_nat (cert_len_int c)) as n.
  assert (Hn : (n <= length x - 3)%nat) by lia.
  rewrite Ec at 1 2 3. cbn [c_kind c_len c_payload].
  rewrite <- (firstn_skipn_slices 3 (3 + n) x) by lia. replace (3 + n - 3)%nat with n by lia.
  rewrite <- (firstn_skipn_slices 1 3 x) by lia. change (3 - 1)%nat with 2%nat.
  rewrite <- app_assoc. reflexivity.
Qed.

Lemma read_certificate_RoundTrip x c r : wf x -> read_certificate x = Ok (c, r) ->
  exists b, cert_bytes c = Ok b /\ b ++ r = x.
Proof.
  intros W H. destruct (read_certificate_shape _ _ _ W H) as [L [Ec [B Er]]].
  rewrite (cert_bytes_of_read _ _ _ W H). eexists; split; [reflexivity|].
  rewrite Er. apply firstn_skipn.
Qed.

Lemma read_certificate_NoPanic : NoPanic read_certificate.
Proof.
  intros x. unfold read_certificate. change CERT_MIN with 3%nat. change c_certificate_CERT_MIN_SIZE with 3.
  destruct (length x <? 3)%nat eqn:E; [discriminate|]. apply Nat.ltb_ge in E.
  rewrite slice_ok, slice_ok, slice_from_ok by lia. cbn [rbind].
  match goal with |- (if ?c then _ else _) <> _ => destruct c eqn:E2; [discriminate|] end.
  match goal with |- (if ?c then _ else _) <> _ => destruct c eqn:E3; [|discriminate] end.
  unfold cert_length in *.
  match goal with |- context [cert_is_valid ?c] => destruct (cert_is_valid c) end.
  - rewrite slice_from_ok; [cbn; discriminate|]. change c_certificate_CERT_MIN_SIZE with 3 in *. lia.
  - rewrite slice_from_ok; [cbn; discriminate|]. cbn. lia.
Qed.

Lemma read_certificate_AppendInv x c r y : wf x -> read_certificate x = Ok (c, r) ->
  exists c', read_certificate (x ++ y) = Ok (c', r ++ y) /\ cert_bytes c' = cert_bytes c
             /\ c_kind c' = c_kind c /\ c_len c' = c_len c.
Proof.
  (* the returned payload keeps every byte after the header (ExcessBytes exposes trailing
     data by design), so the value differs exactly there; its serialisation does not *)
  intros W H. destruct (read_certificate_shape _ _ _ W H) as [L [Ec [B Er]]].
  unfold read_certificate. change CERT_MIN with 3%nat. change c_certificate_CERT_MIN_SIZE with 3.
  rewrite app_length. replace (length x + length y <? 3)%nat with false by lia.
  rewrite (slice_app 0 1 x y) by lia. rewrite (slice_app 1 3 x y) by lia.
  rewrite slice_ok, slice_ok by lia.
  destruct (slice_from_app 3 x y ltac:(lia)) as [S1 _]. rewrite S1. cbn [rbind].
  change (1 - 0)%nat with 1%nat. change (3 - 1)%nat with 2%nat. change (skipn 0 x) with x.
  set (c' := mkCert (firstn 1 x) (firstn 2 (skipn 1 x)) (skipn 3 x ++ y)).
  assert (EL : cert_len_int c' = cert_len_int c) by (subst c; reflexivity).
  rewrite EL. replace (cert_len_int c >? Z.of_nat (length x + length y) - 3) with false by lia.
  assert (V : cert_is_valid c' = true).
  { apply cert_valid_mk; lia. }
  unfold cert_length. rewrite V, EL. change c_certificate_CERT_MIN_SIZE with 3.
  assert (PL : length (c_payload c') = (length x - 3 + length y)%nat) by (unfold c'; cbn [c_payload]; rewrite app_length, skipn_length; lia).
  rewrite PL. replace (Z.min (cert_len_int c) (Z.of_nat (length x - 3 + length y))) with (cert_len_int c) by lia.
  destruct (Z.of_nat (length x + length y) >? 3 + cert_len_int c) eqn:E3.
  - destruct (slice_from_app (Z.to_nat (3 + cert_len_int c)) x y ltac:(lia)) as [S2 _]. rewrite S2. cbn [rbind].
    exists c'. split.
    + f_equal. f_equal. rewrite Er. f_equal. f_equal. lia.
    + split; [|subst c; auto].
      unfold cert_bytes, cert_data, cert_length_field. rewrite V.
      assert (Vc : cert_is_valid c = true) by (subst c; exact V). rewrite Vc.
      rewrite EL.
      destruct ((cert_len_int c <? c_certificate_CERT_EMPTY_PAYLOAD_SIZE) || (cert_len_int c >? c_certificate_CERT_MAX_PAYLOAD_SIZE))%bool; [subst c; reflexivity|].
      cbn [rbind]. rewrite PL.
      assert (PLc : length (c_payload c) = (length x - 3)%nat) by (subst c; cbn [c_payload]; rewrite skipn_length; lia).
      rewrite PLc. replace (cert_len_int c >? Z.of_nat (length x - 3 + length y)) with false by lia.
      replace (cert_len_int c >? Z.of_nat (length x - 3)) with false by lia.
      assert (SE : slice 0 (Z.to_nat (cert_len_int c)) (c_payload c') = slice 0 (Z.to_nat (cert_len_int c)) (c_payload c)).
      { replace (c_payload c') with (c_payload c ++ y) by (subst c; reflexivity). apply slice_app. rewrite PLc. lia. }
      rewrite SE. subst c. reflexivity.
  - (* x ++ y no longer than the certificate: then y = [] *)
    assert (length y = 0)%nat by lia. destruct y; [|cbn in *; lia].
    exists c'. rewrite !app_nil_r in *. split.
    + f_equal. f_equal. rewrite Er. rewrite skipn_all2 by lia. reflexivity.
    + unfold c'. rewrite app_nil_r. subst c. auto.
Qed.

(* ---- signature ---- *)
Lemma read_signature_RoundTrip t : RoundTrip (fun x => read_signature x t) (fun s => Ok (sig_bytes s)).
Proof.
  intros x v r H. unfold read_signature in H. destruct (sig_length t) as [n|] eqn:E; [|discriminate].
  pose proof (sig_length_bounds _ _ E) as B.
  destruct (Z.of_nat (length x) <? n) eqn:E2; [discriminate|].
  rewrite slice_to_ok, slice_from_ok in H by lia. cbn in H. inversion H; subst.
  eexists; split; [reflexivity|]. cbn. apply firstn_skipn.
Qed.
Lemma read_signature_AppendInv t : AppendInv (fun x => read_signature x t).
Proof.
  intros x v r y H. unfold read_signature in *. destruct (sig_length t) as [n|] eqn:E; [|discriminate].
  pose proof (sig_length_bounds _ _ E) as B.
  destruct (Z.of_nat (length x) <? n) eqn:E2; [discriminate|].
  rewrite slice_to_ok, slice_from_ok in H by lia. cbn in H. inversion H; subst.
  rewrite app_length. replace (Z.of_nat (length x + length y) <? n) with false by lia.
  rewrite slice_to_app by lia. rewrite slice_to_ok by lia.
  destruct (slice_from_app (Z.to_nat n) x y ltac:(lia)) as [S1 _]. rewrite S1. reflexivity.
Qed.
Lemma read_signature_NoPanic t : NoPanic (fun x => read_signature x t).
Proof.
  intros x. unfold read_signature. destruct (sig_length t) as [n|] eqn:E; [|discriminate].
  pose proof (sig_length_bounds _ _ E) as B.
  destruct (Z.of_nat (length x) <? n) eqn:E2; [discriminate|].
  rewrite slice_to_ok, slice_from_ok by lia. cbn. discriminate.
Qed.
