(* LSPrefix.v — LeaseSet (version 1), which reports no remainder, accepts no proper prefix of an
   input it consumes completely *)
From Coq Require Import List Arith Lia ZArith.
From Model Require Import Bytes Prim LS.
From Proofs Require Import BytesLemmas AppendAll LSStrip.
Import ListNotations.

(* LeaseSet (v1) reports no remainder; still no proper prefix of an input it consumes completely
   (its serialisation is the whole input) is accepted *)
Theorem read_lease_set_prefix_free w l : wf w -> read_lease_set w = Ok l -> lease_set_bytes l = Ok w ->
  forall k, (k < length w)%nat -> forall l', read_lease_set (firstn k w) <> Ok l'.
Proof.
  intros W R B k K l' P.
  assert (Wk : wf (firstn k w)) by (apply wf_firstn; exact W).
  assert (E : firstn k w ++ skipn k w = w) by apply firstn_skipn.
  pose proof (read_lease_set_ignores_trailing (firstn k w) l' (skipn k w)) as T.
  rewrite E in T. specialize (T W P). rewrite R in T. inversion T; subst l'.
  destruct (read_lease_set_strip _ _ Wk P) as (b & r & Bb & Er & _).
  rewrite B in Bb. inversion Bb; subst b.
  assert (L : length (w ++ r) = length (firstn k w)) by (rewrite Er; reflexivity).
  rewrite app_length, firstn_length in L. lia.
Qed.

(* the premises are met by every accepted input: its own serialisation is such a w *)
Theorem read_lease_set_accepted_prefix_free d l : wf d -> read_lease_set d = Ok l ->
  exists b, lease_set_bytes l = Ok b /\ read_lease_set b = Ok l /\
    forall k, (k < length b)%nat -> forall l', read_lease_set (firstn k b) <> Ok l'.
Proof.
  intros W R. destruct (read_lease_set_strip d l W R) as (b & r & B & E & Rb).
  exists b. split; [exact B|]. split; [exact Rb|].
  assert (Wb : wf b). { rewrite <- E in W. apply wf_app in W. exact (proj1 W). }
  exact (read_lease_set_prefix_free b l Wb Rb B).
Qed.
