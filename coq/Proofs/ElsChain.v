(* ElsChain.v — the full C14 chain for EncryptedLeaseSet: a value that satisfies the structural
   validation (the one regenerated from the Go source, by ValidatorTie) and whose fields fit
   their wire widths serialises to bytes that — followed by anything — parse back to the same
   value, leaving exactly what followed.  Instances: values the reader returned (reparse with
   an empty remainder) and values built from arguments the constructor's checks accept. *)
From Coq Require Import ZifyN ZifyNat ZifyBool.
From Model Require Import Bytes Prim Tables Cert KAC Mapping Sig LS Validate.
From Gen Require Import Consts Tables Validators.
From Spec Require Import Wire.
From Proofs Require Import BytesLemmas PrimProofs Frame SliceLemmas LeafProofs TableProofs SpecProofs OffProofs ValidatorTie.
Ltac Zify.zify_post_hook ::= Z.div_mod_to_equations.
Open Scope Z_scope.
Local Arguments Z.add : simpl never.
Local Arguments Z.sub : simpl never.
Local Arguments Z.mul : simpl never.
Local Arguments Z.to_nat : simpl never.
Local Arguments Z.of_nat : simpl never.
Local Arguments Z.land : simpl never.

(* the fields fit their wire widths, and an offline block is one the offline reader returns *)
Definition offline_fits (st : N) (o : offsig) : Prop :=
  (o_expires o < 2 ^ 32)%N /\ (o_sigtype o < 65536)%N /\ o_desttype o = st /\
  off_spk_size (Z.of_N (o_sigtype o)) <> 0 /\ Z.of_nat (length (o_key o)) = off_spk_size (Z.of_N (o_sigtype o)) /\
  off_sig_size (Z.of_N st) <> 0 /\ Z.of_nat (length (o_sig o)) = off_sig_size (Z.of_N st).
Definition els_fits (l : encls) : Prop :=
  (el_sigtype l < 65536)%N /\ (el_published l < 2 ^ 32)%N /\ (el_expires l < 65536)%N /\ (el_flags l < 65536)%N /\
  (N.of_nat (length (el_inner l)) < 65536)%N /\
  match el_offline l with Some o => offline_fits (el_sigtype l) o | None => True end /\
  s_type (el_sig l) = match el_offline l with Some o => Z.of_N (o_sigtype o) | None => Z.of_N (el_sigtype l) end.

Lemma slice_prefix' (a z : bytes) n : n = length a -> slice 0 n (a ++ z) = Ok a.
Proof. intros ->. apply slice_prefix. Qed.
(* the smallest public key is 32 bytes, the smallest signature 40: every structure that passes
   validation is longer than the reader's whole-input minimum (109) *)
Lemma assoc_min l k v m : forallb (fun p => m <=? snd p) l = true -> assoc l k = Some v -> m <= v.
Proof.
  induction l as [|[k' v'] l IH]; cbn [assoc forallb snd]; intros H; [discriminate|].
  apply Bool.andb_true_iff in H. destruct H as [H1 H2]. destruct (k =? k'); [intros [= <-]; lia|auto].
Qed.
Lemma kc_spk_size_min t v : kc_spk_size t = Some v -> 32 <= v.
Proof. unfold kc_spk_size. apply assoc_min. reflexivity. Qed.
Lemma off_bytes_spec o : off_bytes o = spec_offline (o_expires o) (o_sigtype o) (o_key o) (o_sig o).
Proof. unfold off_bytes, spec_offline, u32, u16. rewrite <- ?app_assoc. reflexivity. Qed.

Theorem els_accept l r : els_validate l = true -> els_fits l ->
  read_encrypted_lease_set (els_bytes l ++ r) = Ok (l, r).
Proof.
  intros V [Bst [Bp [Be [Bf [Bi [Fo Ts]]]]]].
  pose proof V as V0. unfold els_validate in V.
  destruct (kc_spk_size (Z.of_N (el_sigtype l))) as [ks|] eqn:KS; [|discriminate].
  pose proof (kc_spk_size_min _ _ KS) as KSn.
  repeat rewrite Bool.andb_true_iff in V. destruct V as [[[[[[[Vk Ve] Vf] Vo] Vi0] Vi1] Vil] Vs].
  change c_encrypted_leaseset_ENCRYPTED_LEASESET_MIN_ENCRYPTED_SIZE with 61 in Vi1.
  assert (Lk : length (el_key l) = Z.to_nat ks) by lia.
  assert (Li : (61 <= length (el_inner l))%nat) by lia.
  assert (IL : el_inner_len l = N.of_nat (length (el_inner l))).
  { apply N.eqb_eq in Vil. rewrite Vil. apply N.mod_small. lia. }
  (* the signature: valid for its own type *)
  unfold sig_validate in Vs. destruct (sig_length (s_type (el_sig l))) as [sn|] eqn:SL; [|discriminate].
  pose proof (sig_length_bounds _ _ SL) as SB. pose proof (sig_length_min _ _ SL) as SM.
  assert (Lsg : Z.of_nat (length (s_data (el_sig l))) = sn) by lia.
  unfold read_encrypted_lease_set, els_bytes, els_bytes_without_sig.
  change c_encrypted_leaseset_ENCRYPTED_LEASESET_MIN_SIZE with 109.
  rewrite <- !app_assoc.
  match goal with |- context [?m ++ be_encode 2 (el_inner_len l) ++ _] => set (ob := m) end.
  set (t5 := sig_bytes (el_sig l) ++ r).
  set (t4 := el_inner l ++ t5).
  set (t3 := be_encode 2 (el_inner_len l) ++ t4).
  set (t2 := ob ++ t3).
  set (t1 := be_encode 4 (el_published l) ++ be_encode 2 (el_expires l) ++ be_encode 2 (el_flags l) ++ t2).
  set (t0 := el_key l ++ t1).
  assert (L5 : (Z.to_nat sn <= length t5)%nat) by (unfold t5, sig_bytes; rewrite app_length; lia).
  assert (L4 : length t4 = (length (el_inner l) + length t5)%nat) by (unfold t4; rewrite app_length; reflexivity).
  assert (L3 : length t3 = (2 + length t4)%nat) by (unfold t3; rewrite app_length, be_encode_length; reflexivity).
  assert (L2 : length t2 = (length ob + length t3)%nat) by (unfold t2; rewrite app_length; reflexivity).
  assert (L1 : length t1 = (8 + length t2)%nat) by (unfold t1; rewrite !app_length, !be_encode_length; lia).
  assert (L0 : length t0 = (Z.to_nat ks + length t1)%nat) by (unfold t0; rewrite app_length; lia).
  rewrite app_length, be_encode_length.
  replace (Z.of_nat (2 + length t0) <? 109) with false by lia.
  rewrite (slice_prefix' (be_encode 2 (el_sigtype l)) t0 2) by (rewrite be_encode_length; reflexivity).
  rewrite (slice_from_prefix' (be_encode 2 (el_sigtype l)) t0 2) by (rewrite be_encode_length; reflexivity).
  cbn [rbind].
  rewrite be_decode_encode_small by (change (256 ^ N.of_nat 2)%N with 65536%N; lia).
  rewrite KS.
  replace (Z.of_nat (length t0) <? ks) with false by lia.
  unfold t0 at 1 2.
  rewrite (slice_to_prefix' (el_key l) t1) by lia. rewrite (slice_from_prefix' (el_key l) t1) by lia. cbn [rbind].
  replace (length t1 <? 8)%nat with false by lia.
  assert (A1 : slice 0 4 t1 = Ok (be_encode 4 (el_published l))).
  { unfold t1. apply slice_prefix'. rewrite be_encode_length. reflexivity. }
  assert (A2 : slice 4 6 t1 = Ok (be_encode 2 (el_expires l))).
  { unfold t1. apply (slice_mid' (be_encode 4 (el_published l))); rewrite !be_encode_length; reflexivity. }
  assert (A3 : slice 6 8 t1 = Ok (be_encode 2 (el_flags l))).
  { unfold t1. rewrite (app_assoc (be_encode 4 (el_published l))).
    apply (slice_mid' (be_encode 4 (el_published l) ++ be_encode 2 (el_expires l))); rewrite !app_length, !be_encode_length; reflexivity. }
  assert (A4 : slice_from 8 t1 = Ok t2).
  { unfold t1. rewrite (app_assoc (be_encode 4 (el_published l))), (app_assoc (be_encode 4 (el_published l) ++ _)).
    apply slice_from_prefix'. rewrite !app_length, !be_encode_length. reflexivity. }
  rewrite A1, A2, A3, A4. cbn [rbind].
  rewrite !be_decode_encode_small by (change (256 ^ N.of_nat 2)%N with 65536%N; change (256 ^ N.of_nat 4)%N with 4294967296%N; change (2 ^ 32)%N with 4294967296%N in Bp; lia).
  rewrite Vf. cbn [negb].
  (* the optional offline block *)
  match goal with |- (do orr <- ?e; _) = _ => assert (OFF : e = Ok (el_offline l, t3)) end.
  { apply Bool.eqb_prop in Vo. rewrite Vo. unfold t2. subst ob. destruct (el_offline l) as [o|] eqn:EO.
    - destruct Fo as [Oe [Ot [Od [K1 [K2 [S1 S2]]]]]].
      rewrite off_bytes_spec. rewrite (spec_offline_accepted _ _ _ _ (el_sigtype l) t3 Oe Ot K1 K2 S1 S2).
      cbn [rbind fst snd]. rewrite <- Od. destruct o; reflexivity.
    - reflexivity. }
  rewrite OFF. cbn [rbind fst snd].
  replace (length t3 <? 2)%nat with false by lia.
  unfold t3 at 1 2.
  rewrite (slice_prefix' (be_encode 2 (el_inner_len l)) t4 2) by (rewrite be_encode_length; reflexivity).
  rewrite (slice_from_prefix' (be_encode 2 (el_inner_len l)) t4 2) by (rewrite be_encode_length; reflexivity).
  cbn [rbind].
  rewrite be_decode_encode_small by (change (256 ^ N.of_nat 2)%N with 65536%N; lia).
  replace (el_inner_len l =? 0)%N with false by lia.
  replace (length t4 <? N.to_nat (el_inner_len l))%nat with false by lia.
  unfold t4 at 1 2.
  rewrite (slice_to_prefix' (el_inner l) t5) by lia. rewrite (slice_from_prefix' (el_inner l) t5) by lia. cbn [rbind].
  assert (FT : match el_offline l with Some os => Z.of_N (o_sigtype os) | None => Z.of_N (el_sigtype l) end = s_type (el_sig l)) by (symmetry; exact Ts).
  rewrite FT. unfold t5, sig_bytes.
  rewrite (spec_signature_accepted (s_type (el_sig l)) (s_data (el_sig l)) r sn SL Lsg). cbn [rbind fst snd].
  assert (EL : mkELS (el_sigtype l) (el_key l) (el_published l) (el_expires l) (el_flags l) (el_offline l) (el_inner_len l) (el_inner l)
                 (mkSig (s_type (el_sig l)) (s_data (el_sig l))) = l).
  { destruct l as [a b c d e f g h [st sd]]. reflexivity. }
  rewrite EL, V0. reflexivity.
Qed.

(* ---- what the readers return fits ---- *)
Lemma read_offline_fits d dt o r : wf d -> read_offline_signature d dt = Ok (o, r) -> offline_fits dt o.
Proof.
  intros W H. destruct (read_offline_shape d dt o r H) as [ks [ss [L6 [K [S [Kp [Sp [LL [-> _]]]]]]]]].
  unfold offline_fits. cbn [o_expires o_sigtype o_desttype o_key o_sig].
  assert (B4 : (be_decode (firstn 4 d) < 2 ^ 32)%N).
  { pose proof (be_decode_bound (firstn 4 d) (wf_firstn 4 d W)) as B. rewrite firstn_length in B.
    replace (Nat.min 4 (length d)) with 4%nat in B by lia. exact B. }
  assert (B2 : (be_decode (firstn 2 (skipn 4 d)) < 65536)%N).
  { pose proof (be_decode_bound (firstn 2 (skipn 4 d)) (wf_firstn 2 _ (wf_skipn 4 d W))) as B. rewrite firstn_length, skipn_length in B.
    replace (Nat.min 2 (length d - 4)) with 2%nat in B by lia. exact B. }
  split; [exact B4|]. split; [exact B2|]. split; [reflexivity|].
  rewrite K, S, !firstn_length, !skipn_length. repeat split; lia.
Qed.

Theorem read_els_inv d l r : wf d -> read_encrypted_lease_set d = Ok (l, r) -> els_validate l = true /\ els_fits l.
Proof.
  intros W. unfold read_encrypted_lease_set.
  change c_encrypted_leaseset_ENCRYPTED_LEASESET_MIN_SIZE with 109.
  destruct (Z.of_nat (length d) <? 109) eqn:E0; [discriminate|].
  rewrite slice_ok, slice_from_ok by lia. cbn [rbind]. change (2 - 0)%nat with 2%nat. change (skipn 0 d) with d.
  assert (Bst : (be_decode (firstn 2 d) < 65536)%N).
  { pose proof (be_decode_bound (firstn 2 d) (wf_firstn 2 d W)) as B. rewrite firstn_length in B.
    replace (Nat.min 2 (length d)) with 2%nat in B by lia. exact B. }
  set (st := be_decode (firstn 2 d)) in *. set (r0 := skipn 2 d).
  assert (W0 : wf r0) by (apply wf_skipn, W).
  destruct (kc_spk_size (Z.of_N st)) as [ks|] eqn:KS; [|discriminate].
  pose proof (kc_spk_size_nonneg _ _ KS) as KSn.
  destruct (Z.of_nat (length r0) <? ks) eqn:E1; [discriminate|].
  destruct (cut (Z.to_nat ks) r0 ltac:(lia)) as [C1 [C2 [D1 L1]]]. rewrite C1, C2. cbn [rbind].
  set (key := firstn (Z.to_nat ks) r0). set (r1 := skipn (Z.to_nat ks) r0).
  assert (W1 : wf r1) by (apply wf_skipn, W0).
  destruct (length r1 <? 8)%nat eqn:E2; [discriminate|]. apply Nat.ltb_ge in E2.
  rewrite !slice_ok, slice_from_ok by lia. cbn [rbind].
  change (4 - 0)%nat with 4%nat. change (6 - 4)%nat with 2%nat. change (8 - 6)%nat with 2%nat. change (skipn 0 r1) with r1.
  assert (Bp : (be_decode (firstn 4 r1) < 2 ^ 32)%N).
  { pose proof (be_decode_bound (firstn 4 r1) (wf_firstn 4 r1 W1)) as B. rewrite firstn_length in B.
    replace (Nat.min 4 (length r1)) with 4%nat in B by lia. exact B. }
  assert (Be : (be_decode (firstn 2 (skipn 4 r1)) < 65536)%N).
  { pose proof (be_decode_bound _ (wf_firstn 2 _ (wf_skipn 4 r1 W1))) as B. rewrite firstn_length, skipn_length in B.
    replace (Nat.min 2 (length r1 - 4)) with 2%nat in B by lia. exact B. }
  assert (Bf : (be_decode (firstn 2 (skipn 6 r1)) < 65536)%N).
  { pose proof (be_decode_bound _ (wf_firstn 2 _ (wf_skipn 6 r1 W1))) as B. rewrite firstn_length, skipn_length in B.
    replace (Nat.min 2 (length r1 - 6)) with 2%nat in B by lia. exact B. }
  set (pb := be_decode (firstn 4 r1)) in *. set (eb := be_decode (firstn 2 (skipn 4 r1))) in *. set (fb := be_decode (firstn 2 (skipn 6 r1))) in *.
  set (r2 := skipn 8 r1). assert (W2 : wf r2) by (apply wf_skipn, W1).
  destruct (negb (Z.land (Z.of_N fb) c_encrypted_leaseset_ENCRYPTED_LEASESET_RESERVED_FLAGS_MASK =? 0)); [discriminate|].
  match goal with |- (do orr <- ?e; _) = _ -> _ => destruct e as [[oo r3]| |] eqn:EO; cbn [rbind fst snd]; try discriminate end.
  assert (OF : match oo with Some o => offline_fits st o | None => True end /\ wf r3).
  { destruct (has_offline fb).
    - destruct (read_offline_signature r2 st) as [[o r3']| |] eqn:RO; cbn [rbind fst snd] in EO; try discriminate.
      apply Ok_pair_inj in EO. destruct EO as [<- <-]. split; [exact (read_offline_fits _ _ _ _ W2 RO)|].
      pose proof (read_offline_RoundTrip _ _ _ _ W2 RO) as RT. rewrite <- RT in W2. apply wf_app in W2. tauto.
    - apply Ok_pair_inj in EO. destruct EO as [<- <-]. split; [exact I|exact W2]. }
  destruct OF as [OF W3].
  destruct (length r3 <? 2)%nat eqn:E3; [discriminate|]. apply Nat.ltb_ge in E3.
  rewrite slice_ok, slice_from_ok by lia. cbn [rbind]. change (2 - 0)%nat with 2%nat. change (skipn 0 r3) with r3.
  assert (Bil : (be_decode (firstn 2 r3) < 65536)%N).
  { pose proof (be_decode_bound (firstn 2 r3) (wf_firstn 2 r3 W3)) as B. rewrite firstn_length in B.
    replace (Nat.min 2 (length r3)) with 2%nat in B by lia. exact B. }
  set (il := be_decode (firstn 2 r3)) in *. set (r4 := skipn 2 r3).
  destruct (il =? 0)%N; [discriminate|].
  destruct (length r4 <? N.to_nat il)%nat eqn:E4; [discriminate|]. apply Nat.ltb_ge in E4.
  destruct (cut (N.to_nat il) r4 E4) as [C3 [C4 [D4 L4]]]. rewrite C3, C4. cbn [rbind].
  match goal with |- (do sr <- read_signature ?r5 ?t; _) = _ -> _ =>
    destruct (read_signature r5 t) as [[sg r6]| |] eqn:RS; cbn [rbind fst snd]; try discriminate end.
  match goal with |- (if ?c then _ else _) = _ -> _ => destruct c eqn:V; [|discriminate] end.
  intros H. apply Ok_pair_inj in H. destruct H as [<- <-].
  split; [exact V|].
  unfold els_fits. cbn [el_sigtype el_published el_expires el_flags el_inner el_offline el_sig].
  split; [exact Bst|]. split; [exact Bp|]. split; [exact Be|]. split; [exact Bf|].
  split; [rewrite L4; lia|]. split; [exact OF|].
  revert RS. unfold read_signature. destruct (sig_length _); [|discriminate].
  match goal with |- (if ?c then _ else _) = _ -> _ => destruct c; [discriminate|] end.
  match goal with |- (do h <- ?a; _) = _ -> _ => destruct a as [h| |]; cbn [rbind]; try discriminate end.
  match goal with |- (do q <- ?a; _) = _ -> _ => destruct a as [q| |]; cbn [rbind]; try discriminate end.
  intros H. apply Ok_pair_inj in H. destruct H as [<- _]. reflexivity.
Qed.

(* values the reader returns re-serialise to bytes that parse back, with an empty remainder,
   to the same value: the "parse back" half of C14 for every parsed EncryptedLeaseSet *)
Theorem read_els_reparse d l r : wf d -> read_encrypted_lease_set d = Ok (l, r) ->
  read_encrypted_lease_set (els_bytes l) = Ok (l, []).
Proof.
  intros W H. destruct (read_els_inv d l r W H) as [V F].
  rewrite <- (app_nil_r (els_bytes l)). apply els_accept; assumption.
Qed.

(* the full chain from constructor arguments: what the regenerated constructor checks accept,
   with the signature the constructor then stores (valid for the signing key's type), validates
   and serialises to bytes that — followed by anything — parse back to the same value *)
Theorem els_ctor_chain st key pub e f off inner sg r :
  g_encrypted_leaseset_validateInputs (Z.of_N st) key (Z.of_N e) (Z.of_N f) (option_map view_off off) inner = true ->
  sig_validate sg = true ->
  els_fits (mkELS st key pub e f off (N.of_nat (length inner) mod 65536) inner sg) ->
  let l := mkELS st key pub e f off (N.of_nat (length inner) mod 65536) inner sg in
  els_validate l = true /\ read_encrypted_lease_set (els_bytes l ++ r) = Ok (l, r).
Proof.
  intros C SV F l.
  assert (V : els_validate l = true).
  { rewrite <- tie_els_validate. rewrite <- tie_signature_validate in SV.
    pose proof (gen_els_ctor_validates _ _ _ _ _ _ _ C SV) as G.
    replace (view_els l) with (built_els (Z.of_N st) key (Z.of_N e) (Z.of_N f) (option_map view_off off) inner (view_sig sg)); [exact G|].
    unfold built_els, view_els, l. cbn [el_flags el_sigtype el_key el_expires el_offline el_inner el_inner_len el_sig].
    f_equal. lia. }
  split; [exact V|]. apply els_accept; assumption.
Qed.
