(* OffProofs.v — OfflineSignature and EncryptedLeaseSet parsers: round trip (C01), append
   invariance (C03), no panic (C04). *)
From Coq Require Import ZifyN ZifyNat ZifyBool.
From Model Require Import Bytes Prim Tables Cert KAC Mapping Sig LS.
From Gen Require Import Consts Tables.
From Proofs Require Import BytesLemmas PrimProofs Frame SliceLemmas LeafProofs TableProofs KacRT.
Ltac Zify.zify_post_hook ::= Z.div_mod_to_equations.
Open Scope Z_scope.
Local Arguments Z.add : simpl never.
Local Arguments Z.sub : simpl never.
Local Arguments Z.mul : simpl never.
Local Arguments Z.to_nat : simpl never.
Local Arguments Z.of_nat : simpl never.

Lemma Ok_pair_inj {A B} (a c : A) (b d : B) : @Ok (A * B) (a, b) = Ok (c, d) -> a = c /\ b = d.
Proof. intros H. injection H as -> ->. auto. Qed.
Lemma be_encode_decode_n n l : length l = n -> wf l -> be_encode n (be_decode l) = l.
Proof. intros <- W. apply be_encode_decode. exact W. Qed.
Lemma split_at (a : nat) (d : bytes) : firstn a d ++ skipn a d = d.
Proof. apply firstn_skipn. Qed.
Lemma split3 (a b : nat) (d : bytes) : (a <= b <= length d)%nat ->
  firstn a d ++ firstn (b - a) (skipn a d) ++ skipn b d = d.
Proof. intros H. rewrite app_assoc, firstn_skipn_slices by lia. apply firstn_skipn. Qed.

(* shape of an accepted offline signature *)
Lemma read_offline_shape d dt o r : read_offline_signature d dt = Ok (o, r) ->
  exists ks ss, (6 <= length d)%nat /\ off_spk_size (Z.of_N (be_decode (firstn 2 (skipn 4 d)))) = Z.of_nat ks /\
    off_sig_size (Z.of_N dt) = Z.of_nat ss /\ (0 < ks)%nat /\ (0 < ss)%nat /\ (6 + ks + ss <= length d)%nat /\
    o = mkOff (be_decode (firstn 4 d)) (be_decode (firstn 2 (skipn 4 d))) (firstn ks (skipn 6 d))
              (firstn ss (skipn (6 + ks) d)) dt /\
    r = skipn (6 + ks + ss) d.
Proof.
  unfold read_offline_signature. change OFF_HDR with 6%nat.
  destruct (length d <? 6)%nat eqn:E; [discriminate|]. apply Nat.ltb_ge in E.
  rewrite !slice_ok, slice_from_ok by lia. cbn [rbind]. change (4 - 0)%nat with 4%nat. change (6 - 4)%nat with 2%nat.
  change (skipn 0 d) with d.
  set (st := be_decode (firstn 2 (skipn 4 d))).
  destruct (off_spk_size (Z.of_N st) =? 0) eqn:K0; [discriminate|].
  destruct (Z.of_nat (length (skipn 6 d)) <? off_spk_size (Z.of_N st)) eqn:K1; [discriminate|].
  rewrite skipn_length in K1.
  pose proof (off_spk_size_nonneg (Z.of_N st)) as Pos.
  rewrite slice_to_ok, slice_from_ok by (rewrite skipn_length; lia). cbn [rbind].
  destruct (off_sig_size (Z.of_N dt) =? 0) eqn:S0; [discriminate|].
  destruct (Z.of_nat (length (skipn (Z.to_nat (off_spk_size (Z.of_N st))) (skipn 6 d))) <? off_sig_size (Z.of_N dt)) eqn:S1; [discriminate|].
  rewrite !skipn_length in S1.
  pose proof (off_sig_size_nonneg (Z.of_N dt)) as Pos2.
  rewrite slice_to_ok, slice_from_ok by (rewrite !skipn_length; lia). cbn [rbind].
  intros H. apply Ok_pair_inj in H. destruct H as [<- <-].
  exists (Z.to_nat (off_spk_size (Z.of_N st))), (Z.to_nat (off_sig_size (Z.of_N dt))).
  split; [lia|]. split; [lia|]. split; [lia|]. split; [lia|]. split; [lia|]. split; [lia|].
  rewrite !skipn_skipn. split; reflexivity.
Qed.

Lemma off_bytes_of_shape d ks ss dt : wf d -> (6 + ks + ss <= length d)%nat ->
  off_bytes (mkOff (be_decode (firstn 4 d)) (be_decode (firstn 2 (skipn 4 d))) (firstn ks (skipn 6 d))
                   (firstn ss (skipn (6 + ks) d)) dt) = firstn (6 + ks + ss) d.
Proof.
  intros W L. unfold off_bytes. cbn [o_expires o_sigtype o_key o_sig].
  rewrite (be_encode_decode_n 4) by (rewrite ?firstn_length; try lia; apply wf_firstn, W).
  rewrite (be_encode_decode_n 2) by (rewrite ?firstn_length, ?skipn_length; try lia; apply wf_firstn, wf_skipn, W).
  pose proof (firstn_skipn_slices 4 6 d ltac:(lia)) as A1. change (6 - 4)%nat with 2%nat in A1.
  pose proof (firstn_skipn_slices 6 (6 + ks) d ltac:(lia)) as A2. replace (6 + ks - 6)%nat with ks in A2 by lia.
  pose proof (firstn_skipn_slices (6 + ks) (6 + ks + ss) d ltac:(lia)) as A3. replace (6 + ks + ss - (6 + ks))%nat with ss in A3 by lia.
  rewrite <- A3, <- A2, <- A1, <- !app_assoc. reflexivity.
Qed.

Theorem read_offline_RoundTrip d dt o r : wf d -> read_offline_signature d dt = Ok (o, r) -> off_bytes o ++ r = d.
Proof.
  intros W H. destruct (read_offline_shape _ _ _ _ H) as [ks [ss [L6 [_ [_ [_ [_ [L [-> ->]]]]]]]]].
  rewrite off_bytes_of_shape by assumption. apply firstn_skipn.
Qed.

Lemma read_offline_accept d dt ks ss : (6 + ks + ss <= length d)%nat -> (0 < ks)%nat -> (0 < ss)%nat ->
  off_spk_size (Z.of_N (be_decode (firstn 2 (skipn 4 d)))) = Z.of_nat ks -> off_sig_size (Z.of_N dt) = Z.of_nat ss ->
  read_offline_signature d dt =
    Ok (mkOff (be_decode (firstn 4 d)) (be_decode (firstn 2 (skipn 4 d))) (firstn ks (skipn 6 d))
              (firstn ss (skipn (6 + ks) d)) dt, skipn (6 + ks + ss) d).
Proof.
  intros L Pk Ps Ek Es. unfold read_offline_signature. change OFF_HDR with 6%nat.
  replace (length d <? 6)%nat with false by lia.
  rewrite !slice_ok, slice_from_ok by lia. cbn [rbind]. change (4 - 0)%nat with 4%nat. change (6 - 4)%nat with 2%nat.
  change (skipn 0 d) with d. rewrite Ek, Es.
  replace (Z.of_nat ks =? 0) with false by lia. rewrite skipn_length.
  replace (Z.of_nat (length d - 6) <? Z.of_nat ks) with false by lia. rewrite Nat2Z.id.
  rewrite slice_to_ok, slice_from_ok by (rewrite skipn_length; lia). cbn [rbind].
  replace (Z.of_nat ss =? 0) with false by lia. rewrite !skipn_length.
  replace (Z.of_nat (length d - 6 - ks) <? Z.of_nat ss) with false by lia. rewrite Nat2Z.id.
  rewrite slice_to_ok, slice_from_ok by (rewrite !skipn_length; lia). cbn [rbind].
  rewrite !skipn_skipn. reflexivity.
Qed.

Theorem read_offline_AppendInv dt : AppendInv (fun d => read_offline_signature d dt).
Proof.
  intros d o r y H. destruct (read_offline_shape _ _ _ _ H) as [ks [ss [L6 [Ek [Es [Pk [Ps [L [-> ->]]]]]]]]].
  rewrite (read_offline_accept (d ++ y) dt ks ss); try assumption.
  - rewrite (firstn_app 4), (skipn_app 4), (firstn_app 2), (skipn_app 6), (firstn_app ks), (skipn_app (6 + ks)), (firstn_app ss), (skipn_app (6 + ks + ss)).
    rewrite !skipn_length.
    replace (4 - length d)%nat with 0%nat by lia. replace (2 - (length d - 4))%nat with 0%nat by lia.
    replace (6 - length d)%nat with 0%nat by lia. replace (ks - (length d - 6))%nat with 0%nat by lia.
    replace (6 + ks - length d)%nat with 0%nat by lia. replace (ss - (length d - (6 + ks)))%nat with 0%nat by lia.
    replace (6 + ks + ss - length d)%nat with 0%nat by lia.
    change (skipn 0 y) with y. change (firstn 0 y) with (@nil N). rewrite !app_nil_r. reflexivity.
  - rewrite app_length. lia.
  - rewrite (skipn_app 4), (firstn_app 2), skipn_length. replace (2 - (length d - 4))%nat with 0%nat by lia.
    replace (4 - length d)%nat with 0%nat by lia. change (skipn 0 y) with y. change (firstn 0 y) with (@nil N).
    rewrite app_nil_r. exact Ek.
Qed.

Theorem read_offline_NoPanic dt : NoPanic (fun d => read_offline_signature d dt).
Proof.
  intros d. unfold read_offline_signature. change OFF_HDR with 6%nat.
  destruct (length d <? 6)%nat eqn:E; [discriminate|]. apply Nat.ltb_ge in E.
  rewrite !slice_ok, slice_from_ok by lia. cbn [rbind].
  match goal with |- (if ?c then _ else _) <> _ => destruct c; [discriminate|] end.
  match goal with |- (if ?c then _ else _) <> _ => destruct c eqn:K1; [discriminate|] end.
  rewrite slice_to_ok, slice_from_ok by lia. cbn [rbind].
  match goal with |- (if ?c then _ else _) <> _ => destruct c; [discriminate|] end.
  match goal with |- (if ?c then _ else _) <> _ => destruct c eqn:S1; [discriminate|] end.
  rewrite slice_to_ok, slice_from_ok by lia. cbn [rbind]. discriminate.
Qed.

(* ---- EncryptedLeaseSet ---- *)
(* [slice_to n r] / [slice_from n r] split r *)
Lemma cut (n : nat) (r : bytes) : (n <= length r)%nat ->
  slice_to n r = Ok (firstn n r) /\ slice_from n r = Ok (skipn n r) /\ r = firstn n r ++ skipn n r /\ length (firstn n r) = n.
Proof.
  intros H. rewrite slice_to_ok, slice_from_ok by lia. repeat split; [symmetry; apply firstn_skipn|rewrite firstn_length; lia].
Qed.
Lemma kc_spk_size_nonneg t v : kc_spk_size t = Some v -> 0 <= v.
Proof.
  intros H. pose proof (assoc_nonneg m_key_certificate_SigningKeySizes_SigningPublicKeySize t eq_refl) as P.
  unfold kc_spk_size in H. rewrite H in P. exact P.
Qed.

Definition els_same_shape := True.

Theorem read_els_RoundTrip d l r : wf d -> read_encrypted_lease_set d = Ok (l, r) -> els_bytes l ++ r = d.
Proof.
  intros W. unfold read_encrypted_lease_set.
  change c_encrypted_leaseset_ENCRYPTED_LEASESET_MIN_SIZE with 109.
  destruct (Z.of_nat (length d) <? 109) eqn:E0; [discriminate|].
  rewrite slice_ok, slice_from_ok by lia. cbn [rbind]. change (2 - 0)%nat with 2%nat. change (skipn 0 d) with d.
  pose proof (firstn_skipn 2 d) as D0.
  assert (W0 : wf (firstn 2 d) /\ wf (skipn 2 d)) by (split; [apply wf_firstn|apply wf_skipn]; exact W).
  assert (L0 : length (firstn 2 d) = 2%nat) by (rewrite firstn_length; lia).
  remember (firstn 2 d) as st eqn:Hst. remember (skipn 2 d) as r0 eqn:Hr0. destruct W0 as [Wst W0].
  destruct (kc_spk_size (Z.of_N (be_decode st))) as [ks|] eqn:KS; [|discriminate].
  pose proof (kc_spk_size_nonneg _ _ KS) as KSn.
  destruct (Z.of_nat (length r0) <? ks) eqn:E1; [discriminate|].
  destruct (cut (Z.to_nat ks) r0 ltac:(lia)) as [C1 [C2 [D1 L1]]]. rewrite C1, C2. cbn [rbind].
  assert (W1 : wf (firstn (Z.to_nat ks) r0) /\ wf (skipn (Z.to_nat ks) r0)) by (split; [apply wf_firstn|apply wf_skipn]; exact W0).
  remember (firstn (Z.to_nat ks) r0) as key eqn:Hkey. remember (skipn (Z.to_nat ks) r0) as r1 eqn:Hr1. destruct W1 as [Wkey W1].
  destruct (length r1 <? 8)%nat eqn:E2; [discriminate|]. apply Nat.ltb_ge in E2.
  rewrite !slice_ok, slice_from_ok by lia. cbn [rbind].
  change (4 - 0)%nat with 4%nat. change (6 - 4)%nat with 2%nat. change (8 - 6)%nat with 2%nat. change (skipn 0 r1) with r1.
  assert (D2 : r1 = firstn 4 r1 ++ firstn 2 (skipn 4 r1) ++ firstn 2 (skipn 6 r1) ++ skipn 8 r1).
  { pose proof (firstn_skipn_slices 4 6 r1 ltac:(lia)) as A1. change (6 - 4)%nat with 2%nat in A1.
    pose proof (firstn_skipn_slices 6 8 r1 ltac:(lia)) as A2. change (8 - 6)%nat with 2%nat in A2.
    rewrite app_assoc, A1, app_assoc, A2. symmetry. apply firstn_skipn. }
  assert (W2 : wf (skipn 8 r1)) by (apply wf_skipn, W1).
  assert (Wp : wf (firstn 4 r1)) by (apply wf_firstn, W1).
  assert (We : wf (firstn 2 (skipn 4 r1))) by (apply wf_firstn, wf_skipn, W1).
  assert (Wf : wf (firstn 2 (skipn 6 r1))) by (apply wf_firstn, wf_skipn, W1).
  assert (Lp : length (firstn 4 r1) = 4%nat) by (rewrite firstn_length; lia).
  assert (Le : length (firstn 2 (skipn 4 r1)) = 2%nat) by (rewrite firstn_length, skipn_length; lia).
  assert (Lf : length (firstn 2 (skipn 6 r1)) = 2%nat) by (rewrite firstn_length, skipn_length; lia).
  remember (firstn 4 r1) as pb. remember (firstn 2 (skipn 4 r1)) as eb. remember (firstn 2 (skipn 6 r1)) as fb.
  remember (skipn 8 r1) as r2 eqn:Hr2.
  destruct (negb (Z.land (Z.of_N (be_decode fb)) c_encrypted_leaseset_ENCRYPTED_LEASESET_RESERVED_FLAGS_MASK =? 0)); [discriminate|].
  (* optional offline signature *)
  assert (OFF : forall oo r3, (if has_offline (be_decode fb)
                  then do x <- read_offline_signature r2 (be_decode st); Ok (Some (fst x), snd x)
                  else Ok (None, r2)) = Ok (oo, r3) ->
                 (match oo with Some o => off_bytes o | None => [] end) ++ r3 = r2).
  { intros oo r3. destruct (has_offline (be_decode fb)).
    - destruct (read_offline_signature r2 (be_decode st)) as [[o r3']| |] eqn:RO; cbn [rbind fst snd]; try discriminate.
      intros H. apply Ok_pair_inj in H. destruct H as [<- <-]. apply (read_offline_RoundTrip _ _ _ _ W2 RO).
    - intros H. apply Ok_pair_inj in H. destruct H as [<- <-]. reflexivity. }
  match goal with |- (do orr <- ?e; _) = _ -> _ => destruct e as [[oo r3]| |] eqn:EO; cbn [rbind fst snd]; try discriminate end.
  specialize (OFF oo r3 EO).
  assert (W3 : wf r3) by (rewrite <- OFF in W2; apply wf_app in W2; tauto).
  destruct (length r3 <? 2)%nat eqn:E3; [discriminate|]. apply Nat.ltb_ge in E3.
  rewrite slice_ok, slice_from_ok by lia. cbn [rbind]. change (2 - 0)%nat with 2%nat. change (skipn 0 r3) with r3.
  pose proof (firstn_skipn 2 r3) as D3.
  assert (Wil : wf (firstn 2 r3)) by (apply wf_firstn, W3).
  assert (Lil : length (firstn 2 r3) = 2%nat) by (rewrite firstn_length; lia).
  assert (W4 : wf (skipn 2 r3)) by (apply wf_skipn, W3).
  remember (firstn 2 r3) as il. remember (skipn 2 r3) as r4 eqn:Hr4.
  destruct (be_decode il =? 0)%N; [discriminate|].
  destruct (length r4 <? N.to_nat (be_decode il))%nat eqn:E4; [discriminate|]. apply Nat.ltb_ge in E4.
  destruct (cut (N.to_nat (be_decode il)) r4 E4) as [C3 [C4 [D4 L4]]]. rewrite C3, C4. cbn [rbind].
  remember (firstn (N.to_nat (be_decode il)) r4) as inner. remember (skipn (N.to_nat (be_decode il)) r4) as r5 eqn:Hr5.
  match goal with |- (do sr <- read_signature r5 ?t; _) = _ -> _ =>
    destruct (read_signature r5 t) as [[sg r6]| |] eqn:RS; cbn [rbind fst snd]; try discriminate end.
  pose proof (read_signature_RoundTrip _ _ _ _ RS) as [sb [SB D5]]. injection SB as <-.
  match goal with |- (if ?c then _ else _) = _ -> _ => destruct c; [|discriminate] end.
  intros H. apply Ok_pair_inj in H. destruct H as [<- <-].
  unfold els_bytes, els_bytes_without_sig.
  cbn [el_sigtype el_key el_published el_expires el_flags el_offline el_inner_len el_inner el_sig].
  rewrite (be_encode_decode_n 2 st), (be_encode_decode_n 4 pb), (be_encode_decode_n 2 eb), (be_encode_decode_n 2 fb), (be_encode_decode_n 2 il) by assumption.
  rewrite <- !app_assoc. rewrite D5, <- D4, D3, OFF. rewrite <- D2, <- D1. exact D0.
Qed.

(* ---- EncryptedLeaseSet: appended bytes change neither the value nor the consumed length ---- *)
Lemma cut_app (n : nat) (r y : bytes) : (n <= length r)%nat ->
  slice_to n (r ++ y) = Ok (firstn n r) /\ slice_from n (r ++ y) = Ok (skipn n r ++ y).
Proof.
  intros H. rewrite slice_to_app by exact H. rewrite slice_to_ok by exact H.
  destruct (slice_from_app n r y H) as [A _]. rewrite A. auto.
Qed.

Theorem read_els_AppendInv : AppendInv read_encrypted_lease_set.
Proof.
  intros d l r y. unfold read_encrypted_lease_set.
  change c_encrypted_leaseset_ENCRYPTED_LEASESET_MIN_SIZE with 109.
  destruct (Z.of_nat (length d) <? 109) eqn:E0; [discriminate|].
  rewrite app_length. replace (Z.of_nat (length d + length y) <? 109) with false by lia.
  rewrite (slice_app 0 2 d y) by lia. rewrite slice_ok by lia.
  destruct (slice_from_app 2 d y ltac:(lia)) as [SF1 SF2]. rewrite SF1, SF2. cbn [rbind].
  set (r0 := skipn 2 d).
  destruct (kc_spk_size _) as [ks|] eqn:KS; [|discriminate].
  pose proof (kc_spk_size_nonneg _ _ KS) as KSn.
  destruct (Z.of_nat (length r0) <? ks) eqn:E1; [discriminate|].
  rewrite app_length. replace (Z.of_nat (length r0 + length y) <? ks) with false by lia.
  destruct (cut_app (Z.to_nat ks) r0 y ltac:(lia)) as [C1 C2]. rewrite C1, C2.
  rewrite slice_to_ok, slice_from_ok by lia. cbn [rbind].
  set (r1 := skipn (Z.to_nat ks) r0).
  destruct (length r1 <? 8)%nat eqn:E2; [discriminate|]. apply Nat.ltb_ge in E2.
  rewrite app_length. replace (length r1 + length y <? 8)%nat with false by lia.
  rewrite (slice_app 0 4 r1 y), (slice_app 4 6 r1 y), (slice_app 6 8 r1 y) by lia.
  destruct (slice_from_app 8 r1 y ltac:(lia)) as [SF3 SF4]. rewrite SF3, SF4.
  rewrite !slice_ok by lia. cbn [rbind].
  set (r2 := skipn 8 r1).
  destruct (negb (Z.land _ _ =? 0)); [discriminate|].
  (* offline signature *)
  match goal with |- (do orr <- ?e; _) = _ -> _ => destruct e as [[oo r3]| |] eqn:EO; cbn [rbind fst snd]; try discriminate end.
  match goal with |- _ -> (do orr <- ?e2; _) = _ => assert (EO' : e2 = Ok (oo, r3 ++ y)) end.
  { revert EO. destruct (has_offline _).
    - destruct (read_offline_signature r2 _) as [[o r3']| |] eqn:RO; cbn [rbind fst snd]; try discriminate.
      intros H. apply Ok_pair_inj in H. destruct H as [<- <-].
      rewrite (read_offline_AppendInv _ _ _ _ y RO). reflexivity.
    - intros H. apply Ok_pair_inj in H. destruct H as [<- <-]. reflexivity. }
  rewrite EO'. cbn [rbind fst snd].
  destruct (length r3 <? 2)%nat eqn:E3; [discriminate|]. apply Nat.ltb_ge in E3.
  rewrite app_length. replace (length r3 + length y <? 2)%nat with false by lia.
  rewrite (slice_app 0 2 r3 y) by lia.
  destruct (slice_from_app 2 r3 y ltac:(lia)) as [SF5 SF6]. rewrite SF5, SF6. rewrite slice_ok by lia. cbn [rbind].
  set (r4 := skipn 2 r3).
  destruct (be_decode _ =? 0)%N; [discriminate|].
  match goal with |- context [(length r4 <? ?n)%nat] => destruct (length r4 <? n)%nat eqn:E4; [discriminate|]; apply Nat.ltb_ge in E4;
    rewrite app_length; replace (length r4 + length y <? n)%nat with false by lia;
    destruct (cut_app n r4 y E4) as [C3 C4]; rewrite C3, C4; rewrite slice_to_ok, slice_from_ok by lia end.
  cbn [rbind].
  match goal with |- (do sr <- read_signature ?r5 ?t; _) = _ -> _ =>
    destruct (read_signature r5 t) as [[sg r6]| |] eqn:RS; cbn [rbind fst snd]; try discriminate;
    rewrite (read_signature_AppendInv t _ _ _ y RS) end.
  cbn [rbind fst snd].
  match goal with |- (if ?c then _ else _) = _ -> _ => destruct c; [|discriminate] end.
  intros H. apply Ok_pair_inj in H. destruct H as [<- <-]. reflexivity.
Qed.
