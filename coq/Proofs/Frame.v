(* Frame.v — the three per-parser obligations behind C01 / C03 / C04 and the lemmas that
   let them be proved step by step for parsers written with the slice primitives. *)
From Coq Require Import ZifyN ZifyNat ZifyBool.
From Model Require Import Bytes.
From Proofs Require Import BytesLemmas.
Ltac Zify.zify_post_hook ::= Z.div_mod_to_equations.

Definition parser (A : Type) := bytes -> res (A * bytes).

(* C01 + first half of C03: serialising the value gives the consumed bytes, and consumed
   ++ remainder is the input *)
Definition RoundTrip {A} (P : parser A) (S : A -> res bytes) : Prop :=
  forall x v r, P x = Ok (v, r) -> exists b, S v = Ok b /\ b ++ r = x.
(* C03: appended bytes change neither the value nor the consumed length *)
Definition AppendInv {A} (P : parser A) : Prop :=
  forall x v r y, P x = Ok (v, r) -> P (x ++ y) = Ok (v, r ++ y).
(* C04: no out-of-range slice/index/nil dereference *)
Definition NoPanic {A} (P : parser A) : Prop := forall x, P x <> Panic.
(* C03: no proper prefix of a completely consumed encoding parses *)
Definition PrefixFree {A} (P : parser A) : Prop :=
  forall w v, P w = Ok (v, []) -> forall k, (k < length w)%nat ->
    forall v' r', P (firstn k w) <> Ok (v', r').

(* prefix-freeness follows from append-invariance alone *)
Lemma AppendInv_PrefixFree {A} (P : parser A) : AppendInv P -> PrefixFree P.
Proof.
  intros HA w v Hw k Hk v' r' Hp.
  specialize (HA _ _ _ (skipn k w) Hp). rewrite firstn_skipn, Hw in HA.
  inversion HA as [[Hv Hr]]. symmetry in Hr. apply app_eq_nil in Hr. destruct Hr as [_ Hs].
  apply (f_equal (@length _)) in Hs. rewrite skipn_length in Hs. cbn in Hs. lia.
Qed.
(* the consumed length does not depend on what follows *)
Lemma AppendInv_consumed {A} (P : parser A) x v r y v' r' :
  AppendInv P -> P x = Ok (v, r) -> P (x ++ y) = Ok (v', r') ->
  v' = v /\ (length (x ++ y) - length r' = length x - length r)%nat.
Proof.
  intros HA H1 H2. rewrite (HA _ _ _ y H1) in H2. inversion H2; subst. split; [reflexivity|].
  rewrite !app_length. lia.
Qed.

(* the same, for parsers whose returned value keeps a view of the trailing bytes (certificate
   payloads): appended bytes leave the consumed length alone and the value changes only up
   to a relation R (same serialisation, same fields) *)
Definition AppendInvR {A} (P : parser A) (R : A -> A -> Prop) : Prop :=
  forall x v r y, wf (x ++ y) -> P x = Ok (v, r) -> exists v', P (x ++ y) = Ok (v', r ++ y) /\ R v' v.
Lemma AppendInvR_PrefixFree {A} (P : parser A) R : AppendInvR P R ->
  forall w v, wf w -> P w = Ok (v, []) -> forall k, (k < length w)%nat -> forall v' r', P (firstn k w) <> Ok (v', r').
Proof.
  intros HA w v W Hw k Hk v' r' Hp.
  assert (W' : wf (firstn k w ++ skipn k w)) by (rewrite firstn_skipn; exact W).
  destruct (HA _ _ _ (skipn k w) W' Hp) as [v2 [H2 _]]. rewrite firstn_skipn, Hw in H2.
  inversion H2 as [[Hv Hr]]. symmetry in Hr. apply app_eq_nil in Hr. destruct Hr as [_ Hs].
  apply (f_equal (@length _)) in Hs. rewrite skipn_length in Hs. cbn in Hs. lia.
Qed.

(* ---- slices under append ---- *)
Lemma slice_to_app n x y : (n <= length x)%nat -> slice_to n (x ++ y) = slice_to n x.
Proof.
  intros H. unfold slice_to. rewrite app_length.
  replace (n <=? length x + length y)%nat with true by lia. replace (n <=? length x)%nat with true by lia.
  rewrite firstn_app. replace (n - length x)%nat with 0%nat by lia. cbn. rewrite app_nil_r. reflexivity.
Qed.
Lemma slice_from_app n x y : (n <= length x)%nat ->
  slice_from n (x ++ y) = Ok (skipn n x ++ y) /\ slice_from n x = Ok (skipn n x).
Proof.
  intros H. unfold slice_from. rewrite app_length.
  replace (n <=? length x + length y)%nat with true by lia. replace (n <=? length x)%nat with true by lia.
  rewrite skipn_app. replace (n - length x)%nat with 0%nat by lia. cbn. auto.
Qed.
Lemma slice_app a b x y : (b <= length x)%nat -> slice a b (x ++ y) = slice a b x.
Proof.
  intros H. unfold slice. rewrite app_length.
  destruct (a <=? b)%nat eqn:E; cbn [andb]; [|reflexivity].
  replace (b <=? length x + length y)%nat with true by lia. replace (b <=? length x)%nat with true by lia.
  rewrite skipn_app, firstn_app, skipn_length. replace (b - a - (length x - a))%nat with 0%nat by lia.
  cbn. rewrite app_nil_r. reflexivity.
Qed.
Lemma index_app i x y : (i < length x)%nat -> index i (x ++ y) = index i x.
Proof. intros H. unfold index. rewrite nth_error_app1 by lia. reflexivity. Qed.
Lemma slice_to_ok n x : (n <= length x)%nat -> slice_to n x = Ok (firstn n x).
Proof. intros H. unfold slice_to. replace (n <=? length x)%nat with true by lia. reflexivity. Qed.
Lemma slice_from_ok n x : (n <= length x)%nat -> slice_from n x = Ok (skipn n x).
Proof. intros H. unfold slice_from. replace (n <=? length x)%nat with true by lia. reflexivity. Qed.
Lemma slice_ok a b x : (a <= b <= length x)%nat -> slice a b x = Ok (firstn (b - a) (skipn a x)).
Proof. intros H. unfold slice. replace ((a <=? b)%nat && (b <=? length x)%nat) with true by lia. reflexivity. Qed.
Lemma index_ok i x : (i < length x)%nat -> exists b, index i x = Ok b /\ nth_error x i = Some b.
Proof.
  intros H. unfold index. destruct (nth_error x i) eqn:E; [eauto|].
  apply nth_error_None in E. lia.
Qed.
Lemma firstn_skipn_slices a b (x : bytes) : (a <= b <= length x)%nat ->
  firstn a x ++ firstn (b - a) (skipn a x) = firstn b x.
Proof.
  intros H. rewrite <- (firstn_skipn a x) at 3. rewrite firstn_app.
  rewrite (firstn_all2 (firstn a x)) by (rewrite firstn_length; lia).
  rewrite firstn_length. replace (Nat.min a (length x)) with a by lia. reflexivity.
Qed.

Lemma skipn_skipn (a b : nat) (l : bytes) : skipn a (skipn b l) = skipn (b + a) l.
Proof.
  revert l; induction b as [|b IH]; intros l; [reflexivity|].
  destruct l as [|x l]; [destruct a; reflexivity|]. cbn [skipn Nat.add]. apply IH.
Qed.

(* ---- take n : the fixed-size parsers ---- *)
Lemma take_RoundTrip n : RoundTrip (take n) (fun v => Ok v).
Proof. intros x v r H. apply take_ok in H. destruct H as [E _]. eexists; split; [reflexivity|]. auto. Qed.
Lemma take_AppendInv n : AppendInv (take n).
Proof.
  intros x v r y H. destruct (take_ok _ _ _ _ H) as [E L]. subst x.
  rewrite <- app_assoc. apply take_app. exact L.
Qed.
Lemma take_NoPanic n : NoPanic (take n).
Proof. intros x. apply take_nopanic. Qed.
