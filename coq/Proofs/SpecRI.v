(* SpecRI.v — C02 / C14 / C06 for RouterInfo as a whole: the model's ReadRouterInfo accepts the
   specification's encoding of a RouterInfo (Spec/Wire.v) followed by arbitrary bytes, consumes
   exactly the encoding, exposes exactly the encoded fields, and the value it returns serialises
   back to the encoding.  Stated for any identity block the identity reader accepts (general
   form) and, as a corollary, for the specification's identity block with a key certificate of any
   supported type pair. *)
From Coq Require Import ZifyN ZifyNat ZifyBool Sorting Permutation.
From Model Require Import Bytes Prim Tables Cert KAC Mapping Sig LS RI Crypto.
From Gen Require Import Consts Tables.
From Spec Require Import Wire SpecTables.
From Proofs Require Import BytesLemmas PrimProofs Frame SliceLemmas LeafProofs TableProofs SpecProofs KacProofs KacRT MappingProofs MapRT SpecRA UptoRT Retail CryptoProofs SignRT.
Ltac Zify.zify_post_hook ::= Z.div_mod_to_equations.
Open Scope Z_scope.
Local Arguments Z.add : simpl never.
Local Arguments Z.mul : simpl never.
Local Arguments Z.of_nat : simpl never.
Local Arguments Z.to_nat : simpl never.

Definition ra_tuple := (N * N * bytes * list (bytes * bytes))%type.
Definition spec_ra (a : ra_tuple) : bytes := let '(c, d, s, o) := a in spec_router_address c d s o.
Definition ra_tuple_ok (a : ra_tuple) : Prop :=
  let '(c, d, s, o) := a in (c < 256)%N /\ (d < 2 ^ 64)%N /\ (length s <= 255)%nat /\ opts_ok o.
(* the parsed address carries exactly the encoded fields *)
Definition ra_of_tuple (a : ra_tuple) (x : raddr) : Prop :=
  let '(c, d, s, o) := a in
  ra_cost x = [c] /\ ra_date x = be_encode 8 d /\ ra_style x = istr s /\
  m_vals (ra_opts x) = Some (map wire_pair o) /\ m_size (ra_opts x) <> None.

(* RouterInfo: identity || published (8) || size (1) || addresses || peer_size (1) = 0 || options || signature *)
Definition spec_router_info (ident : bytes) (published : N) (addrs : list ra_tuple)
    (opts : list (bytes * bytes)) (sg : bytes) : bytes :=
  ident ++ u64 published ++ u8 (N.of_nat (length addrs)) ++ flat_map spec_ra addrs ++ u8 0 ++ spec_mapping opts ++ sg.

Lemma ra_bytes_of_tuple a x : ra_tuple_ok a -> ra_of_tuple a x -> router_address_bytes x = spec_ra a.
Proof.
  destruct a as [[[c d] s] o]. intros [_ [_ [_ OK]]] [E1 [E2 [E3 [E4 E5]]]].
  unfold router_address_bytes, spec_ra, spec_router_address, u8, u64. rewrite E1, E2, E3. change (spec_string s) with (istr s).
  destruct (ra_opts x) as [[sz|] mv]; cbn [m_size m_vals] in *; [|congruence]. subst mv.
  rewrite (spec_mapping_data sz o OK). reflexivity.
Qed.

Lemma spec_addresses_accepted : forall addrs r, Forall ra_tuple_ok addrs ->
  exists al, read_addresses (length addrs) (flat_map spec_ra addrs ++ r) = Ok (al, r) /\
             Forall2 ra_of_tuple addrs al /\ flat_map router_address_bytes al = flat_map spec_ra addrs.
Proof.
  induction addrs as [|a t IH]; intros r F.
  - exists []. cbn. split; [reflexivity|]. split; [constructor|reflexivity].
  - inversion F as [|? ? Fa Ft]; subst. destruct (IH r Ft) as [al [R [F2 B]]].
    destruct a as [[[c d] s] o]. pose proof Fa as Fa'. destruct Fa as [Bc [Bd [Ls OK]]].
    destruct (spec_router_address_accepted c d s o (flat_map spec_ra t ++ r) Bc Bd Ls OK) as [sz RA].
    set (x := mkRA [c] (be_encode 8 d) (istr s) (mkMap (Some sz) (Some (map wire_pair o)))) in *.
    exists (x :: al). cbn [length read_addresses flat_map]. rewrite <- app_assoc. unfold spec_ra at 1. rewrite RA.
    cbn [rbind fst snd]. rewrite R. cbn [rbind fst snd]. split; [reflexivity|].
    assert (X : ra_of_tuple (c, d, s, o) x).
    { unfold ra_of_tuple, x. cbn [ra_cost ra_date ra_style ra_opts m_vals m_size]. repeat split; congruence. }
    split; [constructor; assumption|].
    rewrite B. f_equal. apply (ra_bytes_of_tuple (c, d, s, o) x Fa' X).
Qed.

Lemma read_integer1_byte v z : (v < 256)%N -> read_integer ([v] ++ z) 1 = Ok ([v], z).
Proof.
  intros B. unfold read_integer. rewrite MAXI_8. change ((1 <=? 0) || (1 >? 8))%bool with false. cbv iota.
  replace (Z.of_nat (length ([v] ++ z)) <? 1) with false by (rewrite app_length; cbn [length]; lia).
  change (Z.to_nat 1) with 1%nat.
  rewrite (slice_to_prefix' [v]) by reflexivity. rewrite (slice_from_prefix' [v]) by reflexivity. reflexivity.
Qed.


(* everything after the identity block *)
Definition spec_ri_rest (published : N) (addrs : list ra_tuple) (opts : list (bytes * bytes)) (sg : bytes) : bytes :=
  u64 published ++ u8 (N.of_nat (length addrs)) ++ flat_map spec_ra addrs ++ u8 0 ++ spec_mapping opts ++ sg.
Lemma spec_router_info_split ident published addrs opts sg :
  spec_router_info ident published addrs opts sg = ident ++ spec_ri_rest published addrs opts sg.
Proof. reflexivity. Qed.

(* general form: any identity block the identity reader accepts in front of this tail *)
Theorem spec_router_info_accepted ident k published addrs opts st n sg r :
  read_router_identity (ident ++ spec_ri_rest published addrs opts sg ++ r) = Ok (k, spec_ri_rest published addrs opts sg ++ r) ->
  kac_bytes k = Ok ident ->
  ri_sig_type k = Ok st -> sig_length st = Some n -> Z.of_nat (length sg) = n ->
  (published < 2 ^ 64)%N -> (length addrs <= 255)%nat -> Forall ra_tuple_ok addrs -> opts_ok opts ->
  exists i, read_router_info (spec_router_info ident published addrs opts sg ++ r) = Ok (i, r) /\
    ri_ident i = k /\ ri_published i = be_encode 8 published /\
    ri_size i = [N.of_nat (length addrs)] /\ Forall2 ra_of_tuple addrs (ri_addrs i) /\
    ri_peer_size i = [0%N] /\ m_vals (ri_options i) = Some (map wire_pair opts) /\ ri_sig i = mkSig st sg /\
    router_info_bytes i = Ok (spec_router_info ident published addrs opts sg).
Proof.
  intros RID KB ST SL Lsg Bp La Fa OK.
  destruct (spec_mapping_accepted opts (sg ++ r) OK) as [sz [e [RM FE]]].
  destruct (spec_addresses_accepted addrs ([0%N] ++ spec_mapping opts ++ sg ++ r) Fa) as [al [RA [F2 AB]]].
  exists (mkRInfo k (be_encode 8 published) [N.of_nat (length addrs)] al [0%N] (mkMap (Some sz) (Some (map wire_pair opts))) (mkSig st sg)).
  split.
  - rewrite spec_router_info_split, <- app_assoc. unfold read_router_info. rewrite RID. cbn [rbind fst snd].
    unfold spec_ri_rest, u8, u64. rewrite <- !app_assoc.
    unfold read_date. change DATE_SIZE with 8%nat. rewrite take_app' by (rewrite be_encode_length; reflexivity). cbn [rbind fst snd].
    rewrite read_integer1_byte by lia. cbn [rbind fst snd].
    rewrite integer_int_byte by lia. replace (Z.to_nat (Z.of_N (N.of_nat (length addrs)))) with (length addrs) by lia.
    rewrite RA. cbn [rbind fst snd]. rewrite read_integer1_byte by lia. cbn [rbind fst snd].
    rewrite RM. unfold embedded_mapping_ok. rewrite FE. cbn [Nat.eqb length negb].
    rewrite ri_sig_bind, ST. cbn [rbind]. rewrite SL.
    rewrite (spec_signature_accepted st sg r n SL Lsg). reflexivity.
  - cbn [ri_ident ri_published ri_size ri_addrs ri_peer_size ri_options ri_sig m_vals].
    repeat (split; [reflexivity || assumption|]).
    unfold router_info_bytes. cbn [ri_ident ri_published ri_size ri_addrs ri_peer_size ri_options ri_sig]. rewrite KB. cbn [rbind].
    rewrite AB, (spec_mapping_data sz opts OK). reflexivity.
Qed.

(* with the specification's identity block: key certificate, any supported router type pair *)
Theorem spec_router_info_keycert_accepted (s c : N) (cl sl : nat) pub pad spk extra published addrs opts n sg r :
  In s [0; 1; 2; 7; 8; 11]%N -> In c [0; 4; 5; 6; 7]%N ->
  spec_crypto_len (Z.of_N c) = Some (Z.of_nat cl) -> spec_spk_len (Z.of_N s) = Some (Z.of_nat sl) ->
  length pub = cl -> length spk = sl -> length pad = (384 - cl - sl)%nat ->
  (N.of_nat (length extra) < 65532)%N ->
  ri_signing_denied (Z.of_N s) = false -> ri_crypto_denied (Z.of_N c) = false ->
  sig_length (Z.of_N s) = Some n -> Z.of_nat (length sg) = n ->
  (published < 2 ^ 64)%N -> (length addrs <= 255)%nat -> Forall ra_tuple_ok addrs -> opts_ok opts ->
  let ident := spec_identity pub pad spk (spec_keycert s c extra) in
  wf (spec_router_info ident published addrs opts sg ++ r) ->
  exists i, read_router_info (spec_router_info ident published addrs opts sg ++ r) = Ok (i, r) /\
    k_pub (ri_ident i) = Some pub /\ k_pad (ri_ident i) = pad /\ k_spk (ri_ident i) = Some spk /\
    kc_signing_type (k_kc (ri_ident i)) = Z.of_N s /\ kc_crypto_type (k_kc (ri_ident i)) = Z.of_N c /\
    ri_published i = be_encode 8 published /\ Forall2 ra_of_tuple addrs (ri_addrs i) /\
    m_vals (ri_options i) = Some (map wire_pair opts) /\ ri_sig i = mkSig (Z.of_N s) sg /\
    router_info_bytes i = Ok (spec_router_info ident published addrs opts sg).
Proof.
  intros Hs Hc Ec Es Lp Lk Ld He DS DC SL Lsg Bp La Fa OK ident W.
  rewrite spec_router_info_split, <- app_assoc in W.
  set (tl := spec_ri_rest published addrs opts sg ++ r) in *.
  destruct (spec_identity_accepted s c cl sl pub pad spk extra tl Hs Hc Ec Es Lp Lk Ld He) as [k [RK [Kp [Kd [Ks [Ts [Tc _]]]]]]].
  fold ident in RK.
  assert (TOK : ri_types_ok k = true) by (unfold ri_types_ok; rewrite Ts, Tc, DS, DC; reflexivity).
  assert (RID : read_router_identity (ident ++ tl) = Ok (k, tl)).
  { unfold read_router_identity. rewrite RK. cbn [rbind fst]. rewrite TOK. reflexivity. }
  destruct (read_keys_and_cert_RoundTrip _ _ _ W RK) as [ib [KB Eib]]. apply app_inv_tail in Eib. subst ib.
  assert (ST : ri_sig_type k = Ok (Z.of_N s)).
  { rewrite (ri_sig_type_parsed _ _ _ W RK).
    assert (Bcl : (0 < cl <= 256)%nat).
    { cbn [In] in Hc. destruct Hc as [<-|[<-|[<-|[<-|[<-|[]]]]]]; cbn in Ec; injection Ec as Ec; lia. }
    assert (Bsl : (0 < sl <= 128)%nat).
    { cbn [In] in Hs. destruct Hs as [<-|[<-|[<-|[<-|[<-|[<-|[]]]]]]]; cbn in Es; injection Es as Es; lia. }
    assert (N5 : nth 384 (ident ++ tl) 0%N = 5%N).
    { unfold ident, spec_identity, spec_keycert, spec_cert, u8. rewrite <- !app_assoc.
      rewrite app_nth2 by lia. rewrite app_nth2 by lia. rewrite app_nth2 by lia.
      replace (384 - length pub - length pad - length spk)%nat with 0%nat by lia. reflexivity. }
    rewrite N5. change (Z.of_N 5 =? 5) with true. cbv iota. rewrite Ts. reflexivity. }
  destruct (spec_router_info_accepted ident k published addrs opts (Z.of_N s) n sg r RID KB ST SL Lsg Bp La Fa OK)
    as [i [R [E1 [E2 [E3 [E4 [E5 [E6 [E7 E8]]]]]]]]].
  exists i. split; [exact R|]. rewrite E1. repeat (split; [assumption|]). exact E8.
Qed.

(* C14, constructed values: the serialisation of a RouterInfo with the specification's fields
   parses back, with an empty remainder, to a value with those fields and the same bytes *)
Corollary spec_router_info_parses_back (s c : N) (cl sl : nat) pub pad spk extra published addrs opts n sg :
  In s [0; 1; 2; 7; 8; 11]%N -> In c [0; 4; 5; 6; 7]%N ->
  spec_crypto_len (Z.of_N c) = Some (Z.of_nat cl) -> spec_spk_len (Z.of_N s) = Some (Z.of_nat sl) ->
  length pub = cl -> length spk = sl -> length pad = (384 - cl - sl)%nat ->
  (N.of_nat (length extra) < 65532)%N ->
  ri_signing_denied (Z.of_N s) = false -> ri_crypto_denied (Z.of_N c) = false ->
  sig_length (Z.of_N s) = Some n -> Z.of_nat (length sg) = n ->
  (published < 2 ^ 64)%N -> (length addrs <= 255)%nat -> Forall ra_tuple_ok addrs -> opts_ok opts ->
  let b := spec_router_info (spec_identity pub pad spk (spec_keycert s c extra)) published addrs opts sg in
  wf b ->
  exists i, read_router_info b = Ok (i, []) /\ router_info_bytes i = Ok b.
Proof.
  intros Hs Hc Ec Es Lp Lk Ld He DS DC SL Lsg Bp La Fa OK b W.
  destruct (spec_router_info_keycert_accepted s c cl sl pub pad spk extra published addrs opts n sg []
              Hs Hc Ec Es Lp Lk Ld He DS DC SL Lsg Bp La Fa OK) as [i [R [_ [_ [_ [_ [_ [_ [_ [_ [_ B]]]]]]]]]]].
  - rewrite app_nil_r. exact W.
  - exists i. rewrite app_nil_r in R. split; assumption.
Qed.

(* C06 after the wire: a RouterInfo under an Ed25519 identity whose trailing signature is the
   identity key's signature over everything before it — what NewRouterInfo produces — serialises
   to bytes that ReadRouterInfo accepts with an empty remainder, and the parsed value verifies *)
Section AfterWire.
  Variable verify : N -> bytes -> bytes -> bytes -> bool.
  Variable sign : bytes -> bytes -> bytes.
  Variable pubkey : bytes -> bytes.
  Hypothesis sign_ok : forall sk m, verify ALG_ED25519 (pubkey sk) m (sign sk m) = true.
  Hypothesis sign_len : forall sk m, length (sign sk m) = 64%nat.

  Theorem router_info_verifies_after_wire (c : N) (cl : nat) pub pad extra published addrs opts sk :
    In c [0; 4; 5; 6; 7]%N -> spec_crypto_len (Z.of_N c) = Some (Z.of_nat cl) ->
    length pub = cl -> length (pubkey sk) = 32%nat -> length pad = (384 - cl - 32)%nat ->
    (N.of_nat (length extra) < 65532)%N -> ri_crypto_denied (Z.of_N c) = false ->
    (published < 2 ^ 64)%N -> (length addrs <= 255)%nat -> Forall ra_tuple_ok addrs -> opts_ok opts ->
    let ident := spec_identity pub pad (pubkey sk) (spec_keycert 7 c extra) in
    let unsigned := spec_router_info ident published addrs opts [] in
    let b := spec_router_info ident published addrs opts (sign sk unsigned) in
    wf b ->
    exists i, read_router_info b = Ok (i, []) /\ router_info_bytes i = Ok b /\
              verdict verify (ri_verify_queries i) = true.
  Proof.
    intros Hc Ec Lp Lk Ld He DC Bp La Fa OK ident unsigned b W.
    assert (DS : ri_signing_denied (Z.of_N 7) = false) by reflexivity.
    assert (SL : sig_length (Z.of_N 7) = Some 64) by reflexivity.
    assert (Lsg : Z.of_nat (length (sign sk unsigned)) = 64) by (rewrite sign_len; reflexivity).
    destruct (spec_router_info_keycert_accepted 7 c cl 32 pub pad (pubkey sk) extra published addrs opts 64 (sign sk unsigned) []
                ltac:(cbn [In]; tauto) Hc Ec ltac:(reflexivity) Lp Lk Ld He DS DC SL Lsg Bp La Fa OK)
      as [i [R [_ [_ [Ks [_ [_ [_ [_ [_ [Sg B]]]]]]]]]]].
    - rewrite app_nil_r. exact W.
    - rewrite app_nil_r in R. exists i. split; [exact R|]. split; [exact B|].
      unfold ri_verify_queries. fold ident in B. fold b in B. rewrite B.
      assert (V : kac_validate (ri_ident i) = true).
      { unfold router_info_bytes in B. destruct (kac_bytes (ri_ident i)) as [ib| |] eqn:KB; cbn [rbind] in B; try discriminate.
        unfold kac_bytes in KB. destruct (kac_validate (ri_ident i)); [reflexivity|discriminate]. }
      unfold kac_signing_key. rewrite V, Ks, Sg. cbn [s_type sig_bytes s_data].
      change (Z.of_N 7 =? c_signature_SIGNATURE_TYPE_EDDSA_SHA512_ED25519) with true. cbv iota.
      rewrite Lk. cbn [Nat.eqb]. cbn [verdict forallb holds q_alg q_key q_msg q_sig]. rewrite Bool.andb_true_r.
      assert (E : drop_last (length (sign sk unsigned)) b = unsigned).
      { unfold b, unsigned, spec_router_info. rewrite !app_nil_r.
        repeat rewrite (app_assoc _ _ (sign sk _)) || idtac.
        replace (ident ++ u64 published ++ u8 (N.of_nat (length addrs)) ++ flat_map spec_ra addrs ++ u8 0 ++ spec_mapping opts ++ sign sk (ident ++ u64 published ++ u8 (N.of_nat (length addrs)) ++ flat_map spec_ra addrs ++ u8 0 ++ spec_mapping opts))
          with ((ident ++ u64 published ++ u8 (N.of_nat (length addrs)) ++ flat_map spec_ra addrs ++ u8 0 ++ spec_mapping opts) ++ sign sk (ident ++ u64 published ++ u8 (N.of_nat (length addrs)) ++ flat_map spec_ra addrs ++ u8 0 ++ spec_mapping opts))
          by (rewrite <- !app_assoc; reflexivity).
        apply drop_last_app. }
      rewrite E. apply sign_ok.
  Qed.
End AfterWire.
