(* KacProofs.v — the 384-byte key block: the generic keys-and-cert reader accepts the
   specification's layout for every supported (signing, crypto) pair and returns exactly the
   encoded keys and padding (C02 / C10); and it re-serialises to the consumed bytes (C01). *)
From Coq Require Import ZifyN ZifyNat ZifyBool.
From Model Require Import Bytes Prim Tables Cert KAC Sig.
From Gen Require Import Consts Tables.
From Spec Require Import Wire SpecTables.
From Proofs Require Import BytesLemmas PrimProofs Frame SliceLemmas LeafProofs TableProofs SpecProofs.
Ltac Zify.zify_post_hook ::= Z.div_mod_to_equations.
Open Scope Z_scope.
Local Arguments Z.add : simpl never.
Local Arguments Z.sub : simpl never.
Local Arguments Z.mul : simpl never.
Local Arguments Z.to_nat : simpl never.
Local Arguments Z.of_nat : simpl never.

(* the per-type constructors *)
Lemma construct_public_key_elg kc d : kc_crypto_type kc = 0 -> length d = 256%nat ->
  construct_public_key kc d = slice 0 256 d.
Proof.
  intros T L. unfold construct_public_key. rewrite L, T. reflexivity.
Qed.
Lemma construct_public_key_x25519 kc d : In (kc_crypto_type kc) [4; 5; 6; 7] -> length d = 256%nat ->
  construct_public_key kc d = slice 0 32 d.
Proof.
  intros T L. unfold construct_public_key. rewrite L.
  cbn [In] in T. destruct T as [T|[T|[T|[T|[]]]]]; rewrite <- T; reflexivity.
Qed.
Lemma construct_signing_exact kc d : In (kc_signing_type kc) [0; 1; 2; 7; 8; 11] ->
  Z.of_nat (length d) = kc_signing_pubkey_size kc -> construct_signing_public_key kc d = Ok d.
Proof.
  intros T L. unfold construct_signing_public_key. replace (Z.of_nat (length d) <? kc_signing_pubkey_size kc) with false by lia.
  unfold kc_signing_pubkey_size, kc_spk_size in L. cbn [In] in T.
  destruct T as [T|[T|[T|[T|[T|[T|[]]]]]]]; rewrite <- T in *; cbn in L;
    unfold construct_signing_by_type; cbn [signing_constructible sw_lookup memZ existsb Z.eqb orb negb];
    cbn -[slice length Nat.leb Nat.ltb Z.of_nat].
  - (* DSA: 128 bytes *) unfold construct_left_or_end. change SPKF with 128%nat. change (Z.to_nat c_key_certificate_KEYCERT_SIGN_DSA_SHA1_SIZE) with 128%nat.
    assert (Ld : length d = 128%nat) by lia. rewrite Ld. cbn [Nat.ltb Nat.leb]. change (128 - 128)%nat with 0%nat.
    rewrite <- Ld. rewrite <- (app_nil_r d) at 2. apply slice_prefix.
  - unfold construct_left_or_end. change SPKF with 128%nat. change (Z.to_nat c_key_certificate_KEYCERT_SIGN_P256_SIZE) with 64%nat.
    assert (Ld : length d = 64%nat) by lia. rewrite Ld. cbn [Nat.ltb Nat.leb]. rewrite <- Ld. rewrite <- (app_nil_r d) at 2. apply slice_prefix.
  - unfold construct_left_or_end. change SPKF with 128%nat. change (Z.to_nat c_key_certificate_KEYCERT_SIGN_P384_SIZE) with 96%nat.
    assert (Ld : length d = 96%nat) by lia. rewrite Ld. cbn [Nat.ltb Nat.leb]. rewrite <- Ld. rewrite <- (app_nil_r d) at 2. apply slice_prefix.
  - change c_key_certificate_KEYCERT_SIGN_ED25519_SIZE with 32. replace (Z.of_nat (length d) =? 32) with true by lia. reflexivity.
  - change c_key_certificate_KEYCERT_SIGN_ED25519_SIZE with 32. replace (Z.of_nat (length d) =? 32) with true by lia. reflexivity.
  - change c_key_certificate_KEYCERT_SIGN_ED25519_SIZE with 32. replace (Z.of_nat (length d) =? 32) with true by lia. reflexivity.
Qed.

(* the block: crypto key at the start, signing key at the end, padding exactly between *)
Lemma kac_layout kc cl sl pub pad spk tailb rem :
  kc_crypto_size_of kc = Z.of_nat cl -> kc_signing_pubkey_size kc = Z.of_nat sl ->
  (0 < cl <= 256)%nat -> (0 < sl <= 128)%nat ->
  length pub = cl -> length spk = sl -> length pad = (384 - cl - sl)%nat ->
  (forall d, length d = 256%nat -> construct_public_key kc d = slice 0 cl d) ->
  (forall d, length d = sl -> construct_signing_public_key kc d = Ok d) ->
  kac_from_keycert kc (pub ++ pad ++ spk ++ tailb) rem = Ok (mkKAC kc (Some pub) pad (Some spk), rem).
Proof.
  intros Hc Hs Bc Bs Lp Lk Ld CP CS.
  set (x := pub ++ pad ++ spk ++ tailb).
  assert (Lx : (384 <= length x)%nat) by (unfold x; rewrite !app_length; lia).
  unfold kac_from_keycert. change KAC_PUB with 256. change KAC_SPK with 128. change KAC_DATA with 384.
  rewrite Hc, Hs. replace (Z.of_nat cl =? 0) with false by lia.
  replace (Z.of_nat (length x) <? 256) with false by lia.
  change (Z.to_nat 256) with 256%nat. rewrite slice_to_ok by lia. cbn [rbind].
  rewrite CP by (rewrite firstn_length; lia).
  assert (P1 : slice 0 cl (firstn 256 x) = Ok pub).
  { rewrite slice_ok by (rewrite firstn_length; lia). rewrite Nat.sub_0_r. change (skipn 0 ?l) with l.
    rewrite firstn_firstn. replace (Nat.min cl 256) with cl by lia. unfold x. f_equal. apply firstn_exact'. exact Lp. }
  rewrite P1. cbn [rbind].
  (* padding *)
  assert (PAD : extract_padding x (Z.of_nat cl) (Z.of_nat sl) = Ok pad).
  { unfold extract_padding. change KAC_PUB with 256. change KAC_SPK with 128. change KAC_DATA with 384.
    destruct (384 - Z.of_nat cl - Z.of_nat sl <=? 0) eqn:E0.
    - destruct pad; [reflexivity|cbn [length] in Ld; lia].
    - replace ((256 - Z.of_nat cl <? 0) || (128 - Z.of_nat sl <? 0))%bool with false by lia.
      rewrite Nat2Z.id. change (Z.to_nat 256) with 256%nat. replace (Z.to_nat (256 + (128 - Z.of_nat sl))) with (384 - sl)%nat by lia.
      assert (V : firstn (256 - cl) (skipn cl x) ++ firstn (384 - sl - 256) (skipn 256 x) = pad).
      { rewrite slice_values_app by lia. unfold x. rewrite skipn_app, <- Lp, skipn_all, Nat.sub_diag. cbn [skipn app].
        apply firstn_exact'. lia. }
      destruct (256 - Z.of_nat cl >? 0) eqn:E1; destruct (128 - Z.of_nat sl >? 0) eqn:E2.
      + rewrite !slice_ok by lia. cbn [rbind]. rewrite V. reflexivity.
      + rewrite slice_ok by lia. cbn [rbind]. replace (384 - sl - 256)%nat with 0%nat in V by lia.
        cbn [firstn] in V. rewrite V. reflexivity.
      + rewrite slice_ok by lia. cbn [rbind]. replace (256 - cl)%nat with 0%nat in V by lia.
        cbn [firstn app] in V. cbn [app]. rewrite V. reflexivity.
      + exfalso. lia. }
  rewrite PAD. cbn [rbind].
  replace (Z.of_nat sl <=? 0) with false by lia. replace (Z.of_nat sl >? 128) with false by lia.
  replace (Z.to_nat (384 - Z.of_nat sl)) with (384 - sl)%nat by lia. change (Z.to_nat 384) with 384%nat.
  assert (SK : slice (384 - sl) 384 x = Ok spk).
  { unfold x. rewrite app_assoc. apply slice_mid'; rewrite app_length; lia. }
  rewrite SK. cbn [rbind]. rewrite CS by exact Lk. reflexivity.
Qed.

(* C02 / C10: every supported (signing, crypto) pair, any key, padding and extra certificate
   payload bytes: the specification's encoding is accepted, exactly consumed, and the fields
   returned are the encoded ones *)
Theorem spec_identity_accepted (s c : N) (cl sl : nat) pub pad spk extra r :
  In s [0; 1; 2; 7; 8; 11]%N -> In c [0; 4; 5; 6; 7]%N ->
  spec_crypto_len (Z.of_N c) = Some (Z.of_nat cl) -> spec_spk_len (Z.of_N s) = Some (Z.of_nat sl) ->
  length pub = cl -> length spk = sl -> length pad = (384 - cl - sl)%nat ->
  (N.of_nat (length extra) < 65532)%N ->
  exists k, read_keys_and_cert (spec_identity pub pad spk (spec_keycert s c extra) ++ r) = Ok (k, r) /\
            k_pub k = Some pub /\ k_pad k = pad /\ k_spk k = Some spk /\
            kc_signing_type (k_kc k) = Z.of_N s /\ kc_crypto_type (k_kc k) = Z.of_N c /\
            kc_crypto_size_of (k_kc k) = Z.of_nat (length pub) /\ kc_signing_pubkey_size (k_kc k) = Z.of_nat (length spk).
Proof.
  intros Hs Hc Ec Es Lp Lk Ld He.
  assert (Bs : (s < 65536)%N) by (cbn [In] in Hs; lia).
  assert (Bc : (c < 65536)%N) by (cbn [In] in Hc; lia).
  destruct (spec_keycert_accepted s c extra r Bs Bc He) as [kc [KR [KS [KC KB]]]].
  assert (Bcl : (0 < cl <= 256)%nat).
  { cbn [In] in Hc. destruct Hc as [<-|[<-|[<-|[<-|[<-|[]]]]]]; cbn in Ec; injection Ec as Ec; lia. }
  assert (Bsl : (0 < sl <= 128)%nat).
  { cbn [In] in Hs. destruct Hs as [<-|[<-|[<-|[<-|[<-|[<-|[]]]]]]]; cbn in Es; injection Es as Es; lia. }
  assert (SZc : kc_crypto_size_of kc = Z.of_nat cl).
  { unfold kc_crypto_size_of. rewrite KC. destruct (C10_aux_crypto (Z.of_N c)) as [A _]; [lia|]. rewrite A, Ec. reflexivity. }
  assert (SZs : kc_signing_pubkey_size kc = Z.of_nat sl).
  { unfold kc_signing_pubkey_size. rewrite KS. destruct (C10_aux_signing (Z.of_N s)) as [A _]; [lia|]. rewrite A, Es. reflexivity. }
  unfold spec_identity. rewrite <- !app_assoc.
  set (cert := spec_keycert s c extra).
  set (x := pub ++ pad ++ spk ++ cert ++ r).
  assert (Lc : (7 <= length cert)%nat) by (unfold cert, spec_keycert, spec_cert, u8, u16; rewrite !app_length, !be_encode_length; cbn [length]; lia).
  assert (Lx : (387 <= length x)%nat) by (unfold x; rewrite !app_length; lia).
  assert (EC : exists T, cert = 5%N :: T).
  { unfold cert, spec_keycert, spec_cert, u8. cbn [app]. eexists. reflexivity. }
  destruct EC as [T EC].
  assert (X5 : index 384 x = Ok 5%N).
  { replace x with ((pub ++ pad ++ spk) ++ 5%N :: (T ++ r)) by (unfold x; rewrite EC, <- !app_assoc; reflexivity).
    apply index_mid. rewrite !app_length. lia. }
  assert (XF : slice_from 384 x = Ok (cert ++ r)).
  { replace x with ((pub ++ pad ++ spk) ++ cert ++ r) by (unfold x; rewrite <- !app_assoc; reflexivity).
    apply slice_from_prefix'. rewrite !app_length. lia. }
  unfold read_keys_and_cert. change KAC_MIN with 387. change (Z.to_nat KAC_DATA) with 384%nat.
  replace (Z.of_nat (length x) <? 387) with false by lia. rewrite X5, XF. cbn [rbind].
  change (Z.of_N 5 =? c_certificate_CERT_KEY) with true. cbv iota. fold cert in KR. rewrite KR. cbn [rbind fst snd].
  assert (TC : In (kc_crypto_type kc) [0; 4; 5; 6; 7]).
  { rewrite KC. cbn [In] in Hc |- *. destruct Hc as [<-|[<-|[<-|[<-|[<-|[]]]]]]; cbn; tauto. }
  assert (TS : In (kc_signing_type kc) [0; 1; 2; 7; 8; 11]).
  { rewrite KS. cbn [In] in Hs |- *. destruct Hs as [<-|[<-|[<-|[<-|[<-|[<-|[]]]]]]]; cbn; tauto. }
  unfold x. rewrite (kac_layout kc cl sl pub pad spk (cert ++ r) r SZc SZs Bcl Bsl Lp Lk Ld).
  - eexists. split; [reflexivity|]. cbn [k_pub k_pad k_spk k_kc]. rewrite Lp, Lk. auto 10.
  - intros d Ld256. cbn [In] in TC. destruct TC as [TT|TT].
    + rewrite construct_public_key_elg by (auto). rewrite <- TT in KC.
      assert (E0 : c = 0%N) by lia. rewrite E0 in Ec. cbn in Ec. injection Ec as Ec. replace cl with 256%nat by lia. reflexivity.
    + rewrite construct_public_key_x25519 by (cbn [In]; tauto || auto).
      assert (E32 : cl = 32%nat); [|rewrite E32; reflexivity].
      cbn [In] in Hc. destruct Hc as [<-|[<-|[<-|[<-|[<-|[]]]]]]; cbn in Ec; injection Ec as Ec; try lia;
        exfalso; rewrite KC in TT; cbn in TT; lia.
  - intros d Ldd. apply construct_signing_exact; [exact TS|]. rewrite SZs. lia.
Qed.
