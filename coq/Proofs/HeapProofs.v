(* HeapProofs.v — the provenance model of C08: fresh fields ignore the caller's buffer. *)
From Model Require Import Bytes Entries Prim Cert KAC Mapping Sig LS RI Heap.
Open Scope N_scope.

(* a value all of whose fields are fresh copies reports the same bytes whatever is later
   written into the buffer it was parsed from — for every sequence of overwrites, since only
   the final buffer contents matter *)
Lemma fresh_fields_ignore_buffer : forall fields buf buf',
  all_fresh fields = true -> map (observe buf) fields = map (observe buf') fields.
Proof.
  induction fields as [|p t IH]; intros buf buf' H; [reflexivity|].
  cbn [all_fresh forallb] in H. apply Bool.andb_true_iff in H. destruct H as [Hp Ht].
  cbn [map]. f_equal; [destruct p; [reflexivity|discriminate]|]. apply IH. exact Ht.
Qed.
Lemma view_follows_buffer : forall o l buf buf',
  firstn l (skipn o buf) <> firstn l (skipn o buf') -> observe buf (View o l) <> observe buf' (View o l).
Proof. intros o l buf buf' H. exact H. Qed.

(* the structures named by the property keep no view of the input *)
Definition in_scope : list N :=
  [E_ReadCertificate; E_NewKeyCertificate; E_ReadKeysAndCert; E_ReadKACElgEd25519; E_ReadKACX25519Ed25519;
   E_ReadDestination; E_ReadRouterIdentity; E_ReadSignature; E_ReadOfflineSignature; E_ReadLease; E_ReadLease2;
   E_ReadLeaseSet; E_ReadEncryptedLeaseSet].
Ltac unfold_entries H :=
  unfold E_ReadLeaseSet2, E_ReadMetaLeaseSet, E_ReadRouterAddress, E_ReadRouterInfo, E_ReadMapping, E_ReadI2PString,
    E_ReadCertificate, E_NewKeyCertificate, E_ReadKeysAndCert, E_ReadKACElgEd25519, E_ReadKACX25519Ed25519,
    E_ReadDestination, E_ReadRouterIdentity, E_ReadSignature, E_ReadOfflineSignature, E_ReadLease, E_ReadLease2,
    E_ReadLeaseSet, E_ReadEncryptedLeaseSet, E_ReadDate, E_ReadHash, E_ReadSessionKey, E_ReadSessionTag,
    E_ReadECIESSessionTag in H.
Ltac scope_case :=
  intros x extra b H; unfold bytes_change in H; unfold_entries H; cbn [N.eqb Pos.eqb] in H;
  repeat match type of H with
  | (do _ <- ?m; _) = Ok _ => destruct m as [?| |]; cbn [rbind] in H; try discriminate
  end; injection H as <-; reflexivity.
Lemma scope_cert : forall x extra b, bytes_change E_ReadCertificate x extra = Ok b -> b = false. Proof. scope_case. Qed.
Lemma scope_kc : forall x extra b, bytes_change E_NewKeyCertificate x extra = Ok b -> b = false. Proof. scope_case. Qed.
Lemma scope_kac : forall x extra b, bytes_change E_ReadKeysAndCert x extra = Ok b -> b = false. Proof. scope_case. Qed.
Lemma scope_kac1 : forall x extra b, bytes_change E_ReadKACElgEd25519 x extra = Ok b -> b = false. Proof. scope_case. Qed.
Lemma scope_kac2 : forall x extra b, bytes_change E_ReadKACX25519Ed25519 x extra = Ok b -> b = false. Proof. scope_case. Qed.
Lemma scope_dest : forall x extra b, bytes_change E_ReadDestination x extra = Ok b -> b = false. Proof. scope_case. Qed.
Lemma scope_ri : forall x extra b, bytes_change E_ReadRouterIdentity x extra = Ok b -> b = false. Proof. scope_case. Qed.
Lemma scope_sig : forall x extra b, bytes_change E_ReadSignature x extra = Ok b -> b = false. Proof. scope_case. Qed.
Lemma scope_off : forall x extra b, bytes_change E_ReadOfflineSignature x extra = Ok b -> b = false. Proof. scope_case. Qed.
Lemma scope_lease : forall x extra b, bytes_change E_ReadLease x extra = Ok b -> b = false. Proof. scope_case. Qed.
Lemma scope_lease2 : forall x extra b, bytes_change E_ReadLease2 x extra = Ok b -> b = false. Proof. scope_case. Qed.
Lemma scope_ls : forall x extra b, bytes_change E_ReadLeaseSet x extra = Ok b -> b = false. Proof. scope_case. Qed.
Lemma scope_els : forall x extra b, bytes_change E_ReadEncryptedLeaseSet x extra = Ok b -> b = false. Proof. scope_case. Qed.
Lemma in_scope_structures_are_copies : forall e, In e in_scope ->
  forall x extra b, bytes_change e x extra = Ok b -> b = false.
Proof.
  intros e He. unfold in_scope in He. cbn [In] in He.
  destruct He as [<-|[<-|[<-|[<-|[<-|[<-|[<-|[<-|[<-|[<-|[<-|[<-|[<-|[]]]]]]]]]]]]]].
  - exact scope_cert. - exact scope_kc. - exact scope_kac. - exact scope_kac1. - exact scope_kac2.
  - exact scope_dest. - exact scope_ri. - exact scope_sig. - exact scope_off. - exact scope_lease.
  - exact scope_lease2. - exact scope_ls. - exact scope_els.
Qed.
(* LeaseSet2 / MetaLeaseSet: only the options / entry properties (mappings, whose strings
   are sub-slices by design) can follow the buffer *)
Lemma leaseset2_only_options_alias : forall x extra,
  bytes_change E_ReadLeaseSet2 x extra = Ok true ->
  exists l r, read_lease_set2 x = Ok (l, r) /\ has_pairs (l2_options l) = true.
Proof.
  intros x extra H. unfold bytes_change in H. unfold_entries H. cbn [N.eqb Pos.eqb] in H.
  destruct (read_lease_set2 x) as [[l r]| |]; cbn [rbind fst] in H; try discriminate.
  injection H as H. eauto.
Qed.
