(* SpecLS2.v — C02 for LeaseSet2 as a whole, in the specification's own encoders (Spec/Wire.v):
   destination || published (4) || expires (2) || flags (2) || [offline signature] || options ||
   key count (1) || keys (type (2) length (2) data) || lease count (1) || Lease2 x n || signature.
   ReadLeaseSet2 accepts the encoding followed by anything, consumes exactly the encoding, exposes
   the encoded fields, and the value serialises back to the encoding. *)
From Coq Require Import ZifyN ZifyNat ZifyBool Sorting Permutation.
From Model Require Import Bytes Prim Tables Cert KAC Mapping Sig LS Validate.
From Gen Require Import Consts Tables.
From Spec Require Import Wire SpecTables.
From Proofs Require Import BytesLemmas PrimProofs Frame SliceLemmas LeafProofs TableProofs SpecProofs KacProofs KacRT OffProofs MappingProofs MapRT SpecRA LS2RT UptoRT Retail LS2Accept MetaAccept.
Ltac Zify.zify_post_hook ::= Z.div_mod_to_equations.
Open Scope Z_scope.
Local Arguments Z.add : simpl never.
Local Arguments Z.sub : simpl never.
Local Arguments Z.mul : simpl never.
Local Arguments Z.of_nat : simpl never.
Local Arguments Z.to_nat : simpl never.

Definition spec_off := (N * N * bytes * bytes)%type.   (* expires, transient type, transient key, signature *)
Definition spec_offline_opt (o : option spec_off) : bytes :=
  match o with Some (e, st, k, sg) => spec_offline e st k sg | None => [] end.
Definition spec_keys (keys : list (N * bytes)) : bytes := flat_map (fun k => spec_enckey (fst k) (snd k)) keys.

Definition spec_ls2_body (published expires flags : N) (off : option spec_off) (opts : list (bytes * bytes))
    (keys : list (N * bytes)) (leases : list bytes) (sg : bytes) : bytes :=
  spec_ls2_header published expires flags ++ spec_offline_opt off ++ spec_mapping opts
  ++ u8 (N.of_nat (length keys)) ++ spec_keys keys ++ u8 (N.of_nat (length leases)) ++ concat leases ++ sg.

(* the model value with exactly these fields *)
Definition ls2_of_spec (dest : kac) (published expires flags : N) (off : option spec_off) (opts : list (bytes * bytes))
    (keys : list (N * bytes)) (leases : list bytes) (sg : bytes) : leaseset2 :=
  mkLS2 dest published expires flags
    (match off with Some (e, st, k, s) => Some (mkOff e st k s (Z.to_N (kc_signing_type (k_kc dest) mod 65536))) | None => None end)
    (mkMap (Some (u16 (nlen (flat_map spec_pair opts)))) (Some (map wire_pair opts)))
    (map (fun k => mkEK (fst k) (nlen (snd k)) (snd k)) keys) leases
    (mkSig (match off with Some (_, st, _, _) => if has_offline flags then Z.of_N st else kc_signing_type (k_kc dest)
                          | None => kc_signing_type (k_kc dest) end) sg).

Lemma spec_keys_bytes keys : flat_map enckey_bytes (map (fun k => mkEK (fst k) (nlen (snd k)) (snd k)) keys) = spec_keys keys.
Proof. unfold spec_keys. induction keys as [|k t IH]; [reflexivity|]. cbn [map flat_map]. rewrite IH. reflexivity. Qed.

Lemma ls2_rest_of_spec dest published expires flags off opts keys leases sg :
  opts_ok opts -> (length keys < 256)%nat -> (length leases < 256)%nat ->
  ls2_rest (ls2_of_spec dest published expires flags off opts keys leases sg) =
  spec_ls2_body published expires flags off opts keys leases sg.
Proof.
  intros OK Lk Ll. unfold ls2_rest, ls2_of_spec, spec_ls2_body, spec_ls2_header, u32, u16, u8.
  cbn [l2_published l2_expires l2_flags l2_offline l2_options l2_keys l2_leases l2_sig sig_bytes s_data].
  rewrite map_length, spec_keys_bytes. rewrite !N.mod_small by lia.
  rewrite (options_bytes_wire _ opts OK).
  destruct off as [[[[e st] k] s]|]; cbn [spec_offline_opt]; [rewrite off_bytes_spec; cbn [o_expires o_sigtype o_key o_sig]|];
    rewrite <- !app_assoc; reflexivity.
Qed.

Definition spec_final_sig_type (dest : kac) (flags : N) (off : option spec_off) : Z :=
  match off with
  | Some (_, st, _, _) => if has_offline flags then Z.of_N st else kc_signing_type (k_kc dest)
  | None => kc_signing_type (k_kc dest)
  end.

Theorem spec_lease_set2_accepted db dest d' published expires flags off opts keys leases n sg r :
  let body := spec_ls2_body published expires flags off opts keys leases sg in
  kac_bytes dest = Ok db ->
  read_destination (db ++ body ++ r) = Ok (d', body ++ r) -> kac_bytes d' = Ok db ->
  kc_signing_type (k_kc d') = kc_signing_type (k_kc dest) ->
  (published < 2 ^ 32)%N -> (expires < 2 ^ 16)%N -> (flags < 2 ^ 16)%N ->
  match off with
  | Some (e, st, k, s) => has_offline flags = true /\
      offline_fits (Z.to_N (kc_signing_type (k_kc dest) mod 65536)) (mkOff e st k s (Z.to_N (kc_signing_type (k_kc dest) mod 65536)))
  | None => has_offline flags = false
  end ->
  opts_ok opts ->
  (1 <= length keys <= 16)%nat -> Forall (fun k => (fst k < 65536)%N /\ (nlen (snd k) < 65536)%N) keys ->
  (length leases <= 16)%nat -> Forall (fun x => length x = LEASE2_SIZE) leases ->
  sig_length (spec_final_sig_type dest flags off) = Some n -> Z.of_nat (length sg) = n ->
  c_lease_set2_LEASESET2_MIN_SIZE <= Z.of_nat (length (db ++ body ++ r)) ->
  exists l', read_lease_set2 ((db ++ body) ++ r) = Ok (l', r) /\
    lease_set2_bytes l' = Ok (db ++ body) /\
    l2_dest l' = d' /\ l2_published l' = published /\ l2_expires l' = expires /\ l2_flags l' = flags /\
    map_values (l2_options l') = map wire_pair opts /\
    l2_keys l' = map (fun k => mkEK (fst k) (nlen (snd k)) (snd k)) keys /\ l2_leases l' = leases /\
    sig_bytes (l2_sig l') = sg.
Proof.
  intros body KB RD KB' T Fp Fe Ff Fo OK [K1 K16] FK L16 FL SL Lsg MS.
  set (l := ls2_of_spec dest published expires flags off opts keys leases sg).
  assert (ER : ls2_rest l = body) by (apply ls2_rest_of_spec; [exact OK|lia|lia]).
  assert (FIT : ls2_fits l opts).
  { constructor; unfold l, ls2_of_spec; cbn [l2_dest l2_published l2_expires l2_flags l2_offline l2_options l2_keys l2_leases l2_sig].
    - exact Fp.
    - exact Fe.
    - exact Ff.
    - unfold ls2_dt. cbn [l2_dest]. destruct off as [[[[e st] k] s]|]; exact Fo.
    - split; [exact OK|apply options_bytes_wire; exact OK].
    - rewrite map_length. split; [lia|]. apply Forall_forall. intros x Hx. apply in_map_iff in Hx. destruct Hx as [k [<- Hk]].
      rewrite Forall_forall in FK. destruct (FK k Hk) as [A B]. unfold key_fits, nlen in *. cbn [ek_type ek_len ek_data]. auto.
    - split; assumption.
    - exists n. split; [|exact Lsg]. unfold final_sig_type. cbn [sig_bytes s_data].
      revert SL. unfold spec_final_sig_type. destruct off as [[[[e st] k] s]|]; cbn [o_sigtype]; auto. }
  rewrite <- ER in RD, MS |- *.
  destruct (ls2_accept l opts db d' r FIT KB RD KB' T MS) as [l' [R [B [E0 [E1 [E2 [E3 [E4 [E5 [E6 [E7 E8]]]]]]]]]]].
  exists l'. split; [exact R|]. split; [exact B|].
  unfold l, ls2_of_spec in E1, E2, E3, E6, E7, E8. cbn [l2_published l2_expires l2_flags l2_keys l2_leases l2_sig sig_bytes s_data] in *.
  repeat split; assumption.
Qed.

(* ---- EncryptedLeaseSet in the specification's encoders ---- *)
From Proofs Require Import ElsChain.
Definition spec_els (st : N) (key : bytes) (published expires flags : N) (off : option spec_off) (inner sg : bytes) : bytes :=
  u16 st ++ key ++ u32 published ++ u16 expires ++ u16 flags ++ spec_offline_opt off ++ u16 (nlen inner) ++ inner ++ sg.
Definition els_off_spec (o : option offsig) : option spec_off :=
  match o with Some x => Some (o_expires x, o_sigtype x, o_key x, o_sig x) | None => None end.

Theorem spec_els_accepted l r : els_validate l = true -> els_fits l ->
  els_bytes l = spec_els (el_sigtype l) (el_key l) (el_published l) (el_expires l) (el_flags l)
                         (els_off_spec (el_offline l)) (el_inner l) (sig_bytes (el_sig l)) /\
  read_encrypted_lease_set (els_bytes l ++ r) = Ok (l, r).
Proof.
  intros V F. split; [|apply els_accept; assumption].
  unfold els_bytes, els_bytes_without_sig, spec_els, u16, u32, nlen.
  assert (IL : el_inner_len l = N.of_nat (length (el_inner l))).
  { unfold els_validate in V. destruct (kc_spk_size (Z.of_N (el_sigtype l))); [|discriminate].
    repeat rewrite Bool.andb_true_iff in V. destruct V as [[[[[[[_ _] _] _] _] Vi1] Vil] _].
    destruct F as [_ [_ [_ [_ [Bi _]]]]].
    apply N.eqb_eq in Vil. rewrite Vil. apply N.mod_small. lia. }
  rewrite IL. destruct (el_offline l) as [o|]; cbn [els_off_spec spec_offline_opt]; [rewrite off_bytes_spec|]; rewrite <- !app_assoc; reflexivity.
Qed.

Lemma Forall2_len {A B} (R : A -> B -> Prop) l l' : Forall2 R l l' -> length l = length l'.
Proof. induction 1; cbn [length]; congruence. Qed.

(* ---- MetaLeaseSet in the specification's encoders ---- *)
Definition spec_mentry := (bytes * N * N * N * list (bytes * bytes))%type.   (* hash, type, expires, cost, properties *)
Definition spec_meta_entry (e : spec_mentry) : bytes :=
  let '(h, t, ex, c, props) := e in h ++ u8 t ++ u32 ex ++ u8 c ++ spec_mapping props.
Definition spec_meta_body (published expires flags : N) (off : option spec_off) (opts : list (bytes * bytes))
    (entries : list spec_mentry) (sg : bytes) : bytes :=
  spec_ls2_header published expires flags ++ spec_offline_opt off ++ spec_mapping opts
  ++ u8 (N.of_nat (length entries)) ++ flat_map spec_meta_entry entries ++ sg.
Definition mentry_of_spec (e : spec_mentry) : mentry :=
  let '(h, t, ex, c, props) := e in
  mkME h t ex c (mkMap (Some (u16 (nlen (flat_map spec_pair props)))) (Some (map wire_pair props))).
Definition mentry_props (e : spec_mentry) : list (bytes * bytes) := let '(_, _, _, _, props) := e in props.
Definition spec_mentry_ok (e : spec_mentry) : Prop :=
  let '(h, t, ex, c, props) := e in
  length h = 32%nat /\ (t < 256)%N /\ meta_entry_type_valid (Z.of_N t) = true /\ (ex < 2 ^ 32)%N /\ (c < 256)%N /\ opts_ok props.

Definition meta_of_spec (dest : kac) (published expires flags : N) (off : option spec_off) (opts : list (bytes * bytes))
    (entries : list spec_mentry) (sg : bytes) : metals :=
  mkMLS dest published expires flags
    (match off with Some (e, st, k, s) => Some (mkOff e st k s (Z.to_N (kc_signing_type (k_kc dest) mod 65536))) | None => None end)
    (mkMap (Some (u16 (nlen (flat_map spec_pair opts)))) (Some (map wire_pair opts)))
    (N.of_nat (length entries)) (map mentry_of_spec entries)
    (mkSig (spec_final_sig_type dest flags off) sg).

Lemma spec_meta_entries_bytes entries : Forall spec_mentry_ok entries ->
  flat_map mentry_bytes (map mentry_of_spec entries) = flat_map spec_meta_entry entries.
Proof.
  induction 1 as [|e t He Ht IH]; [reflexivity|]. cbn [map flat_map]. rewrite IH. f_equal.
  destruct e as [[[[h ty] ex] c] props]. destruct He as [_ [_ [_ [_ [_ OK]]]]].
  unfold mentry_bytes, mentry_of_spec, spec_meta_entry, u8, u32. cbn [me_hash me_type me_expires me_cost me_props].
  rewrite (options_bytes_wire _ props OK). reflexivity.
Qed.

Theorem spec_meta_lease_set_accepted db dest d' published expires flags off opts entries n sg r :
  let body := spec_meta_body published expires flags off opts entries sg in
  kac_bytes dest = Ok db ->
  read_destination (db ++ body ++ r) = Ok (d', body ++ r) -> kac_bytes d' = Ok db ->
  kc_signing_type (k_kc d') = kc_signing_type (k_kc dest) ->
  (published < 2 ^ 32)%N -> (expires < 2 ^ 16)%N -> (flags < 2 ^ 16)%N ->
  match off with
  | Some (e, st, k, s) => has_offline flags = true /\
      LS2Accept.offline_fits (Z.to_N (kc_signing_type (k_kc dest) mod 65536)) (mkOff e st k s (Z.to_N (kc_signing_type (k_kc dest) mod 65536)))
  | None => has_offline flags = false
  end ->
  opts_ok opts ->
  c_meta_leaseset_META_LEASESET_MIN_ENTRIES <= Z.of_nat (length entries) <= c_meta_leaseset_META_LEASESET_MAX_ENTRIES ->
  Forall spec_mentry_ok entries ->
  sig_length (spec_final_sig_type dest flags off) = Some n -> Z.of_nat (length sg) = n ->
  c_meta_leaseset_META_LEASESET_MIN_SIZE <= Z.of_nat (length (db ++ body ++ r)) ->
  exists l', read_meta_lease_set ((db ++ body) ++ r) = Ok (l', r) /\
    meta_lease_set_bytes l' = Ok (db ++ body) /\
    ml_published l' = published /\ ml_expires l' = expires /\ ml_flags l' = flags /\
    map_values (ml_options l') = map wire_pair opts /\ ml_num l' = N.of_nat (length entries) /\
    length (ml_entries l') = length entries /\ sig_bytes (ml_sig l') = sg.
Proof.
  intros body KB RD KB' T Fp Fe Ff Fo OK NE FE SL Lsg MS.
  change c_meta_leaseset_META_LEASESET_MAX_ENTRIES with 16 in NE.
  set (l := meta_of_spec dest published expires flags off opts entries sg).
  assert (ER : meta_rest l = body).
  { unfold meta_rest, hdr_bytes, l, meta_of_spec, body, spec_meta_body, spec_ls2_header, u32, u16, u8.
    cbn [ml_published ml_expires ml_flags ml_offline ml_options ml_num ml_entries ml_sig sig_bytes s_data].
    rewrite (spec_meta_entries_bytes entries FE), (options_bytes_wire _ opts OK).
    destruct off as [[[[e st] k] s]|]; cbn [spec_offline_opt]; [rewrite LS2Accept.off_bytes_spec; cbn [o_expires o_sigtype o_key o_sig]|];
      rewrite <- !app_assoc; reflexivity. }
  assert (FIT : meta_fits l opts (map mentry_props entries)).
  { constructor; unfold l, meta_of_spec; cbn [ml_dest ml_published ml_expires ml_flags ml_offline ml_options ml_num ml_entries ml_sig].
    - exact Fp.
    - exact Fe.
    - exact Ff.
    - destruct off as [[[[e st] k] s]|]; exact Fo.
    - split; [exact OK|apply options_bytes_wire; exact OK].
    - rewrite map_length. split; [reflexivity|]. change c_meta_leaseset_META_LEASESET_MAX_ENTRIES with 16. exact NE.
    - clear - FE. induction FE as [|e t He Ht IH]; cbn [map]; constructor; [|exact IH].
      destruct e as [[[[h ty] ex] c] props]. destruct He as [A [B [C [D [E F]]]]].
      unfold mentry_fits, mentry_of_spec, mentry_props. cbn [me_hash me_type me_expires me_cost me_props].
      split; [exact A|]. split; [exact B|]. split; [exact C|]. split; [exact D|]. split; [exact E|]. split; [exact F|apply options_bytes_wire; exact F].
    - exists n. split; [|exact Lsg]. cbn [sig_bytes s_data]. revert SL. unfold spec_final_sig_type, final_sig_type.
      destruct off as [[[[e st] k] s]|]; cbn [o_sigtype]; auto. }
  rewrite <- ER in RD, MS |- *.
  destruct (meta_accept l opts (map mentry_props entries) db d' r FIT KB RD KB' T MS) as [l' [R [B [E1 [E2 [E3 [E4 [E5 [E6 [F2 E8]]]]]]]]]].
  exists l'. split; [exact R|]. split; [exact B|].
  unfold l, meta_of_spec in E1, E2, E3, E6, E8, F2. cbn [ml_published ml_expires ml_flags ml_num ml_entries ml_sig sig_bytes s_data] in *.
  repeat split; try assumption.
  apply Forall2_len in F2. rewrite <- F2, combine_length, !map_length. lia.
Qed.
