(* CtorProofs.v — constructor success implies structural validity implies a clean round trip,
   for the modelled constructor/validator pairs. *)
From Coq Require Import ZifyN ZifyNat ZifyBool.
From Model Require Import Bytes Prim Tables Cert KAC Mapping Sig.
From Gen Require Import Consts.
From Proofs Require Import BytesLemmas PrimProofs Frame LeafProofs.
Ltac Zify.zify_post_hook ::= Z.div_mod_to_equations.
Open Scope Z_scope.

(* Signature *)
Lemma new_signature_valid d t s : new_signature_from_bytes d t = Ok s ->
  sig_validate s = true /\ read_signature (sig_bytes s) t = Ok (s, []).
Proof.
  unfold new_signature_from_bytes. destruct (sig_length t) as [n|] eqn:E; [|discriminate].
  pose proof (sig_length_bounds _ _ E) as B.
  destruct (Z.of_nat (length d) =? n) eqn:L; [|discriminate]. intros H; injection H as <-.
  split.
  - unfold sig_validate. cbn [s_type s_data]. rewrite E. exact L.
  - unfold read_signature. cbn [sig_bytes s_data]. rewrite E.
    replace (Z.of_nat (length d) <? n) with false by lia.
    rewrite slice_to_ok, slice_from_ok by lia. cbn [rbind]. rewrite firstn_all2, skipn_all2 by lia. reflexivity.
Qed.
Lemma signature_wrong_length_rejected d t n : sig_length t = Some n -> Z.of_nat (length d) <> n ->
  new_signature_from_bytes d t = Err /\ sig_validate (mkSig t d) = false.
Proof.
  intros E L. unfold new_signature_from_bytes, sig_validate. cbn [s_type s_data]. rewrite E.
  replace (Z.of_nat (length d) =? n) with false by lia. auto.
Qed.
Lemma signature_unknown_type_rejected d t : sig_length t = None ->
  new_signature_from_bytes d t = Err /\ sig_validate (mkSig t d) = false.
Proof. intros E. unfold new_signature_from_bytes, sig_validate. cbn [s_type s_data]. rewrite E. auto. Qed.

(* OfflineSignature *)
Lemma new_offline_valid e st key sg dt o : new_offline_signature e st key sg dt = Ok o ->
  e <> 0%N -> off_validate_structure o = true.
Proof.
  unfold new_offline_signature.
  destruct (off_spk_size (Z.of_N st) =? 0) eqn:K; [discriminate|].
  destruct (negb (Z.of_nat (length key) =? off_spk_size (Z.of_N st))) eqn:K2; [discriminate|].
  destruct (off_sig_size (Z.of_N dt) =? 0) eqn:S; [discriminate|].
  destruct (negb (Z.of_nat (length sg) =? off_sig_size (Z.of_N dt))) eqn:S2; [discriminate|].
  intros H He; injection H as <-. unfold off_validate_structure. cbn [o_expires o_sigtype o_key o_sig o_desttype].
  rewrite K, S. apply Bool.negb_false_iff in K2, S2. rewrite K2, S2.
  replace (e =? 0)%N with false by lia. reflexivity.
Qed.
Lemma offline_defects_rejected e st key sg dt :
  (off_spk_size (Z.of_N st) = 0 \/ Z.of_nat (length key) <> off_spk_size (Z.of_N st) \/
   off_sig_size (Z.of_N dt) = 0 \/ Z.of_nat (length sg) <> off_sig_size (Z.of_N dt)) ->
  new_offline_signature e st key sg dt = Err /\ off_validate_structure (mkOff e st key sg dt) = false.
Proof.
  intros H. unfold new_offline_signature, off_validate_structure. cbn [o_expires o_sigtype o_key o_sig o_desttype].
  destruct (off_spk_size (Z.of_N st) =? 0) eqn:K.
  { split; [reflexivity|]. cbn [negb]. rewrite ?Bool.andb_false_r, ?Bool.andb_false_l. reflexivity. }
  destruct (Z.of_nat (length key) =? off_spk_size (Z.of_N st)) eqn:K2; cbn [negb].
  2:{ split; [reflexivity|]. cbn [negb]. rewrite ?Bool.andb_false_r, ?Bool.andb_false_l. reflexivity. }
  destruct (off_sig_size (Z.of_N dt) =? 0) eqn:S.
  { split; [reflexivity|]. cbn [negb]. rewrite ?Bool.andb_false_r, ?Bool.andb_false_l. reflexivity. }
  destruct (Z.of_nat (length sg) =? off_sig_size (Z.of_N dt)) eqn:S2; cbn [negb].
  2:{ split; [reflexivity|]. cbn [negb]. rewrite ?Bool.andb_false_r, ?Bool.andb_false_l. reflexivity. }
  exfalso. lia.
Qed.
(* the recorded gap D21, as a theorem about the faithful model *)
Lemma offline_zero_expires_gap :
  match new_offline_signature 0 7 (repeatN 1 32) (repeatN 2 64) 7 with Ok o => off_validate_structure o = false | _ => False end.
Proof. vm_compute. reflexivity. Qed.

(* KeysAndCert *)
Lemma new_kac_valid kc p pad s k : new_keys_and_cert kc (Some p) pad (Some s) = Ok k -> kac_validate k = true.
Proof.
  unfold new_keys_and_cert.
  destruct (negb (Z.of_nat (length p) =? kc_crypto_size_of kc)) eqn:A; [discriminate|].
  destruct (negb (Z.of_nat (length s) =? kc_signing_pubkey_size kc)) eqn:B; [discriminate|].
  destruct (negb (Z.of_nat (length pad) =? KAC_DATA - kc_crypto_size_of kc - kc_signing_pubkey_size kc)); [discriminate|].
  intros H; injection H as <-. unfold kac_validate. cbn [k_pub k_spk k_kc].
  apply Bool.negb_false_iff in A, B. rewrite A, B. cbn [negb]. rewrite !Bool.andb_false_r. reflexivity.
Qed.
Definition gap_kc : keycert := mkKC (mkCert [5%N] [0%N; 4%N] [0%N; 99%N; 0%N; 99%N]) [0%N; 99%N] [0%N; 99%N].
Lemma kac_nil_keys_gap :
  match new_keys_and_cert gap_kc None (repeatN 0 384) None with Ok k => kac_validate k = false | _ => False end.
Proof. vm_compute. reflexivity. Qed.
Lemma kac_key_size_defect_rejected kc p pad s :
  Z.of_nat (length p) <> kc_crypto_size_of kc \/ Z.of_nat (length s) <> kc_signing_pubkey_size kc ->
  new_keys_and_cert kc (Some p) pad (Some s) = Err.
Proof.
  intros H. unfold new_keys_and_cert.
  destruct (Z.of_nat (length p) =? kc_crypto_size_of kc) eqn:A; cbn [negb]; [|reflexivity].
  destruct (Z.of_nat (length s) =? kc_signing_pubkey_size kc) eqn:B; cbn [negb]; [|reflexivity]. exfalso. lia.
Qed.

(* Certificate *)
Lemma new_certificate_valid t p c : new_certificate_with_type t p = Ok c ->
  cert_is_valid c = true /\ c_kind c = [Z.to_N t] /\ c_payload c = p /\ Z.of_nat (length p) <= 65535.
Proof.
  unfold new_certificate_with_type.
  destruct (negb (cert_type_valid t)); [discriminate|].
  change c_certificate_CERT_MAX_PAYLOAD_SIZE with 65535.
  destruct (Z.of_nat (length p) >? 65535) eqn:L; [discriminate|].
  repeat match goal with |- context [if ?c then Err else _] => destruct c; [discriminate|] end.
  unfold new_integer_from_int, encode_int_n. change c_certificate_CERT_LENGTH_FIELD_SIZE with 2.
  rewrite MAXI_8, BITS_8.
  replace (Z.of_nat (length p) <? 0) with false by lia. cbn [orb andb Z.ltb Z.gtb Z.compare Z.mul].
  change (2 <? 1) with false. change (2 >? 8) with false. change (2 <? 8) with true. cbn [orb andb].
  change (2 ^ Z.pos (2 * 8)) with 65536.
  replace (Z.of_nat (length p) >? 65536 - 1) with false by lia. cbn [rbind].
  intros H; injection H as <-. cbn [c_kind c_len c_payload]. split; [|repeat split; lia].
  unfold cert_is_valid. cbn [c_kind c_len c_payload].
  replace (length (be_encode (Z.to_nat 2) (Z.to_N (Z.of_nat (length p))))) with 2%nat by (symmetry; apply be_encode_length).
  reflexivity.
Qed.
