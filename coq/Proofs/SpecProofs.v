(* SpecProofs.v — the model's parsers accept the specification's encodings, consume exactly
   them and expose exactly the encoded field values (C02, decode direction). *)
From Coq Require Import ZifyN ZifyNat ZifyBool.
From Model Require Import Bytes Prim Tables Cert KAC Sig.
From Gen Require Import Consts.
From Spec Require Import Wire SpecTables.
From Proofs Require Import BytesLemmas PrimProofs Frame SliceLemmas LeafProofs TableProofs.
Ltac Zify.zify_post_hook ::= Z.div_mod_to_equations.
Open Scope Z_scope.
Local Arguments Z.add : simpl never.
Local Arguments Z.sub : simpl never.
Local Arguments Z.mul : simpl never.
Local Arguments Z.to_nat : simpl never.
Local Arguments Z.of_nat : simpl never.

Lemma integer_int_be2 v : (v < 65536)%N -> integer_int (be_encode 2 v) = Z.of_N v.
Proof.
  intros H. unfold integer_int. rewrite int_from_bytes_le8 by (rewrite be_encode_length; lia).
  rewrite be_decode_encode_small by (change (256 ^ N.of_nat 2)%N with 65536%N; lia).
  apply wrap64_small. unfold two63. lia.
Qed.
Lemma integer_int_byte v : (v < 256)%N -> integer_int [v] = Z.of_N v.
Proof.
  intros H. unfold integer_int. rewrite int_from_bytes_le8 by (cbn; lia).
  unfold be_decode. cbn [fold_left]. rewrite wrap64_small by (unfold two63; lia). lia.
Qed.

(* ---- Certificate ---- *)
Lemma spec_cert_accepted t payload r : (t < 256)%N -> (nlen payload < 65536)%N ->
  exists c, read_certificate (spec_cert t payload ++ r) = Ok (c, r) /\
            c_kind c = [t] /\ cert_len_int c = Z.of_nat (length payload) /\ c_payload c = payload ++ r /\
            cert_data c = Ok payload /\ cert_bytes c = Ok (spec_cert t payload) /\ cert_kind_int c = Z.of_N t.
Proof.
  intros Ht Hp. unfold nlen in Hp.
  set (x := spec_cert t payload ++ r).
  assert (Lx : length x = (3 + length payload + length r)%nat).
  { unfold x, spec_cert, u8, u16. rewrite !app_length, be_encode_length. cbn [length]. lia. }
  assert (S1 : slice 0 1 x = Ok [t]).
  { unfold x, spec_cert, u8. rewrite <- !app_assoc. apply (slice_prefix [t]). }
  assert (S2 : slice 1 3 x = Ok (be_encode 2 (N.of_nat (length payload)))).
  { unfold x, spec_cert, u8, u16, nlen. rewrite <- !app_assoc. apply (slice_mid' [t]); [reflexivity|]. rewrite be_encode_length. reflexivity. }
  assert (S3 : slice_from 3 x = Ok (payload ++ r)).
  { unfold x, spec_cert, u8, u16, nlen. rewrite <- !app_assoc.
    rewrite app_assoc. apply slice_from_prefix'. rewrite app_length, be_encode_length. reflexivity. }
  set (c := mkCert [t] (be_encode 2 (N.of_nat (length payload))) (payload ++ r)).
  assert (CL : cert_len_int c = Z.of_nat (length payload)).
  { unfold cert_len_int, c. cbn [c_len]. rewrite integer_int_be2 by exact Hp. lia. }
  assert (V : cert_is_valid c = true).
  { unfold cert_is_valid, c. cbn [c_kind c_len]. rewrite be_encode_length. reflexivity. }
  exists c. split.
  - unfold read_certificate. change CERT_MIN with 3%nat. change c_certificate_CERT_MIN_SIZE with 3.
    replace (length x <? 3)%nat with false by lia. rewrite S1, S2, S3. cbn [rbind]. fold c.
    rewrite CL. replace (Z.of_nat (length payload) >? Z.of_nat (length x) - 3) with false by lia.
    unfold cert_length. rewrite V, CL. change c_certificate_CERT_MIN_SIZE with 3.
    replace (length (c_payload c)) with (length payload + length r)%nat by (unfold c; cbn [c_payload]; rewrite app_length; reflexivity).
    replace (Z.min (Z.of_nat (length payload)) (Z.of_nat (length payload + length r))) with (Z.of_nat (length payload)) by lia.
    destruct (Z.of_nat (length x) >? 3 + Z.of_nat (length payload)) eqn:E.
    + replace (Z.to_nat (3 + Z.of_nat (length payload))) with (3 + length payload)%nat by lia.
      assert (S4 : slice_from (3 + length payload) x = Ok r).
      { unfold x. apply slice_from_prefix'. unfold spec_cert, u8, u16. rewrite !app_length, be_encode_length. cbn [length]. lia. }
      rewrite S4. reflexivity.
    + assert (length r = 0)%nat by lia. destruct r; [reflexivity|cbn in *; lia].
  - split; [reflexivity|]. split; [exact CL|]. split; [reflexivity|].
    assert (D : cert_data c = Ok payload).
    { unfold cert_data, cert_length_field. rewrite V, CL.
      change c_certificate_CERT_EMPTY_PAYLOAD_SIZE with 0. change c_certificate_CERT_MAX_PAYLOAD_SIZE with 65535.
      replace ((Z.of_nat (length payload) <? 0) || (Z.of_nat (length payload) >? 65535))%bool with false by lia.
      cbn [rbind]. unfold c. cbn [c_payload]. rewrite app_length.
      replace (Z.of_nat (length payload) >? Z.of_nat (length payload + length r)) with false by lia.
      rewrite Nat2Z.id. apply slice_prefix. }
    split; [exact D|]. split.
    + unfold cert_bytes. rewrite V, D. reflexivity.
    + unfold cert_kind_int, c. cbn [c_kind]. apply integer_int_byte. exact Ht.
Qed.

(* ---- Key certificate ---- *)
Lemma spec_keycert_accepted s c extra r : (s < 65536)%N -> (c < 65536)%N -> (N.of_nat (length extra) < 65532)%N ->
  exists k, new_key_certificate (spec_keycert s c extra ++ r) = Ok (k, r) /\
            kc_signing_type k = Z.of_N s /\ kc_crypto_type k = Z.of_N c /\
            keycert_bytes k = Ok (spec_keycert s c extra).
Proof.
  intros Hs Hc He. unfold spec_keycert.
  set (payload := u16 s ++ u16 c ++ extra).
  assert (Lp : length payload = (4 + length extra)%nat) by (unfold payload, u16; rewrite !app_length, !be_encode_length; lia).
  destruct (spec_cert_accepted 5 payload r ltac:(lia) ltac:(unfold nlen; lia)) as [ce [R [K [L [P [D [B KI]]]]]]].
  unfold new_key_certificate. rewrite R. cbn [rbind fst snd].
  assert (T : cert_type ce = Ok 5).
  { unfold cert_type. assert (V : cert_is_valid ce = true) by (unfold cert_is_valid; rewrite K; destruct (c_len ce) eqn:E; [unfold cert_len_int in L; rewrite E in L; cbn in L; lia|reflexivity]).
    rewrite V. fold (cert_kind_int ce). rewrite KI. reflexivity. }
  unfold keycert_from_cert. rewrite T. cbn [rbind]. change (5 =? c_certificate_CERT_KEY) with true. cbn [negb].
  rewrite D. cbn [rbind]. replace (length payload <? 4)%nat with false by lia.
  assert (S1 : slice 0 2 payload = Ok (u16 s)).
  { unfold payload. apply (slice_prefix (u16 s)). }
  assert (S2 : slice 2 4 payload = Ok (u16 c)).
  { unfold payload. apply (slice_mid' (u16 s)); unfold u16; rewrite !be_encode_length; reflexivity. }
  rewrite S1, S2. cbn [rbind]. eexists. split; [reflexivity|].
  unfold kc_signing_type, kc_crypto_type, keycert_bytes. cbn [kc_spk kc_cpk kc_cert].
  unfold u16. rewrite !integer_int_be2 by assumption. auto.
Qed.

(* ---- Signature, OfflineSignature ---- *)
Lemma spec_signature_accepted t sg r n : sig_length t = Some n -> Z.of_nat (length sg) = n ->
  read_signature (sg ++ r) t = Ok (mkSig t sg, r).
Proof.
  intros E L. unfold read_signature. rewrite E. pose proof (sig_length_bounds _ _ E) as B.
  rewrite app_length. replace (Z.of_nat (length sg + length r) <? n) with false by lia.
  rewrite (slice_to_prefix' sg r) by lia. rewrite (slice_from_prefix' sg r) by lia. reflexivity.
Qed.
Lemma spec_offline_accepted e st key sg dt r : (e < 2 ^ 32)%N -> (st < 65536)%N ->
  off_spk_size (Z.of_N st) <> 0 -> Z.of_nat (length key) = off_spk_size (Z.of_N st) ->
  off_sig_size (Z.of_N dt) <> 0 -> Z.of_nat (length sg) = off_sig_size (Z.of_N dt) ->
  read_offline_signature (spec_offline e st key sg ++ r) dt = Ok (mkOff e st key sg dt, r).
Proof.
  intros He Hst K1 K2 S1 S2. change (2 ^ 32)%N with 4294967296%N in He.
  unfold read_offline_signature, spec_offline, u32, u16. change OFF_HDR with 6%nat.
  rewrite <- !app_assoc.
  set (x := be_encode 4 e ++ be_encode 2 st ++ key ++ sg ++ r).
  assert (Lx : (6 <= length x)%nat) by (unfold x; rewrite !app_length, !be_encode_length; lia).
  replace (length x <? 6)%nat with false by lia.
  assert (A1 : slice 0 4 x = Ok (be_encode 4 e)) by (unfold x; apply (slice_prefix (be_encode 4 e))).
  assert (A2 : slice 4 6 x = Ok (be_encode 2 st)).
  { unfold x. apply (slice_mid' (be_encode 4 e)); rewrite !be_encode_length; reflexivity. }
  assert (A3 : slice_from 6 x = Ok (key ++ sg ++ r)).
  { unfold x. rewrite app_assoc. apply slice_from_prefix'. rewrite app_length, !be_encode_length. reflexivity. }
  rewrite A1, A2, A3. cbn [rbind].
  rewrite !be_decode_encode_small by (change (256 ^ N.of_nat 2)%N with 65536%N; change (256 ^ N.of_nat 4)%N with 4294967296%N; lia).
  replace (off_spk_size (Z.of_N st) =? 0) with false by lia.
  replace (Z.of_nat (length (key ++ sg ++ r)) <? off_spk_size (Z.of_N st)) with false by (rewrite app_length; lia).
  rewrite (slice_to_prefix' key (sg ++ r)) by lia. rewrite (slice_from_prefix' key (sg ++ r)) by lia. cbn [rbind].
  replace (off_sig_size (Z.of_N dt) =? 0) with false by lia.
  replace (Z.of_nat (length (sg ++ r)) <? off_sig_size (Z.of_N dt)) with false by (rewrite app_length; lia).
  rewrite (slice_to_prefix' sg r) by lia. rewrite (slice_from_prefix' sg r) by lia. reflexivity.
Qed.
(* fixed-size structures: Lease / Lease2 *)
Lemma spec_lease_accepted gw tid date r : length gw = 32%nat ->
  read_lease (Wire.spec_lease gw tid date ++ r) = Ok (Wire.spec_lease gw tid date, r).
Proof.
  intros L. unfold read_lease. apply take_app'. change LEASE_SIZE with 44%nat.
  unfold Wire.spec_lease, u32, u64. rewrite !app_length, !be_encode_length. lia.
Qed.
Lemma spec_lease2_accepted gw tid e r : length gw = 32%nat ->
  read_lease2 (Wire.spec_lease2 gw tid e ++ r) = Ok (Wire.spec_lease2 gw tid e, r).
Proof.
  intros L. unfold read_lease2. apply take_app'. change LEASE2_SIZE with 40%nat.
  unfold Wire.spec_lease2, u32. rewrite !app_length, !be_encode_length. lia.
Qed.
Lemma spec_lease_fields gw tid date : length gw = 32%nat -> (tid < 2 ^ 32)%N -> (date < 2 ^ 64)%N ->
  lease_gateway (Wire.spec_lease gw tid date) = gw /\ lease_tunnel_id (Wire.spec_lease gw tid date) = tid /\
  be_decode (lease_date (Wire.spec_lease gw tid date)) = date.
Proof.
  intros L Ht Hd. change (2 ^ 32)%N with 4294967296%N in Ht. change (2 ^ 64)%N with 18446744073709551616%N in Hd.
  unfold lease_gateway, lease_tunnel_id, lease_date, Wire.spec_lease, u32, u64. repeat split.
  - rewrite firstn_app, <- L, firstn_all, Nat.sub_diag. cbn [firstn]. apply app_nil_r.
  - rewrite skipn_app, <- L, skipn_all, Nat.sub_diag. cbn [skipn app].
    rewrite (firstn_exact' (be_encode 4 tid)) by apply be_encode_length.
    apply be_decode_encode_small. change (256 ^ N.of_nat 4)%N with 4294967296%N. lia.
  - replace 36%nat with (length (gw ++ be_encode 4 tid)) by (rewrite app_length, be_encode_length; lia).
    rewrite app_assoc, skipn_app, skipn_all, Nat.sub_diag. cbn [skipn app].
    rewrite firstn_all2 by (rewrite be_encode_length; lia).
    apply be_decode_encode_small. change (256 ^ N.of_nat 8)%N with 18446744073709551616%N. lia.
Qed.
