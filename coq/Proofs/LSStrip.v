(* LSStrip.v — LeaseSet (version 1): the reader looks at nothing beyond the bytes the parsed value
   serialises to.  ReadLeaseSet returns no remainder; if it accepts b ++ y and the value's
   serialisation is b, it accepts b alone, as the very same value.  Hence C14's parse-back for
   LeaseSet v1 and the after-the-wire half of C06. *)
From Coq Require Import ZifyN ZifyNat ZifyBool.
From Model Require Import Bytes Prim Tables ExtCrypto Cert KAC Mapping Sig LS.
From Gen Require Import Consts Tables.
From Spec Require Import Wire.
From Proofs Require Import BytesLemmas PrimProofs Frame SliceLemmas LeafProofs TableProofs SpecProofs KacProofs KacRT OffProofs LS2RT LSRT UptoRT Retail.
Ltac Zify.zify_post_hook ::= Z.div_mod_to_equations.
Open Scope Z_scope.
Local Arguments Z.add : simpl never.
Local Arguments Z.sub : simpl never.
Local Arguments Z.mul : simpl never.
Local Arguments Z.to_nat : simpl never.
Local Arguments Z.of_nat : simpl never.

Lemma cert_valid_of_read x c r : wf x -> read_certificate x = Ok (c, r) -> cert_is_valid c = true.
Proof.
  intros W H. destruct (read_certificate_shape _ _ _ W H) as [L3 [Ec _]]. subst c.
  unfold cert_is_valid. cbn [c_kind c_len]. rewrite !firstn_length, skipn_length.
  replace (Nat.min 1 (length x)) with 1%nat by lia. replace (Nat.min 2 (length x - 1)) with 2%nat by lia. reflexivity.
Qed.

(* the destination in front of a LeaseSet: replace what follows it *)
Lemma read_dfl_retail d dest rem t' : wf d -> wf t' -> read_destination_from_leaseset d = Ok (dest, rem) ->
  exists db, kac_bytes dest = Ok db /\ d = db ++ rem /\ (387 <= length db)%nat /\
             read_destination_from_leaseset (db ++ t') = Ok (dest, t').
Proof.
  intros W Wt' H. pose proof H as H0. revert H. unfold read_destination_from_leaseset at 1.
  destruct (length d <? 387)%nat eqn:E; [discriminate|]. apply Nat.ltb_ge in E.
  rewrite slice_from_ok by lia. cbn [rbind].
  destruct (read_certificate (skipn 384 d)) as [[c rc]| |] eqn:RC; cbn [rbind fst snd]; try discriminate.
  destruct (cert_type c) as [t| |] eqn:CT; cbn [rbind]; try discriminate.
  destruct (cert_length_field c) as [cl| |] eqn:LF; cbn [rbind]; try discriminate.
  pose proof (cert_length_field_eq _ _ LF) as Ecl.
  destruct (read_certificate_shape _ _ _ (wf_skipn 384 _ W) RC) as [L3 [Ec [B Erc]]].
  rewrite skipn_length in B, L3.
  set (dl := Z.to_nat (384 + 3 + cl)) in *.
  destruct (length d <? dl)%nat eqn:E2; [discriminate|]. apply Nat.ltb_ge in E2.
  rewrite slice_to_ok by lia. cbn [rbind].
  set (dd := firstn dl d).
  assert (Wdd : wf dd) by (apply wf_firstn, W).
  destruct (read_destination dd) as [[dst rr]| |] eqn:RD; cbn [rbind fst snd]; try discriminate.
  rewrite slice_from_ok by lia. cbn [rbind]. intros H. apply Ok_pair_inj in H. destruct H as [<- <-].
  destruct (read_destination_RoundTrip _ _ _ Wdd RD) as [db [KB Ed]].
  assert (RK : read_keys_and_cert dd = Ok (dst, rr)).
  { revert RD. unfold read_destination. destruct (read_keys_and_cert dd) as [[k0 r0]| |]; cbn [rbind fst]; try discriminate.
    destruct (dest_types_ok k0); [|discriminate]. auto. }
  destruct (kac_remainder _ _ _ RK) as [_ [c' RC']].
  destruct (read_certificate_shape _ _ _ (wf_skipn 384 _ Wdd) RC') as [_ [Ec' [_ Er']]].
  assert (Ldd : length dd = dl) by (unfold dd; rewrite firstn_length; lia).
  assert (CL : cert_len_int c' = cert_len_int c).
  { rewrite Ec', Ec. unfold cert_len_int. cbn [c_len]. f_equal.
    unfold dd. rewrite skipn_firstn_comm. rewrite skipn_firstn_comm.
    rewrite firstn_firstn. f_equal. subst cl. lia. }
  assert (RR : rr = []).
  { rewrite Er'. apply skipn_all2. rewrite skipn_length, Ldd, CL. subst cl. lia. }
  rewrite RR in Ed, RD, RC'. clear Er'. rewrite app_nil_r in Ed. subst db.
  exists dd. split; [exact KB|]. split; [symmetry; apply firstn_skipn|]. split; [lia|].
  (* the same reader on dd ++ t' *)
  assert (Wx : wf (dd ++ t')) by (apply wf_app; split; assumption).
  unfold read_destination_from_leaseset.
  replace (length (dd ++ t') <? 387)%nat with false by (rewrite app_length; lia).
  rewrite slice_from_ok by (rewrite app_length; lia). cbn [rbind].
  rewrite skipn_app. replace (384 - length dd)%nat with 0%nat by lia. change (skipn 0 t') with t'.
  (* the certificate inside dd, followed by t' *)
  assert (RCd : read_certificate (skipn 384 dd ++ []) = Ok (c', [])) by (rewrite app_nil_r; exact RC').
  destruct (read_certificate_retail (skipn 384 dd ++ []) c' [] t' ltac:(rewrite app_nil_r; apply wf_skipn, Wdd) RCd)
    as [cb [c'' [CB [Ex [RC'' [CB'' [K'' [LI'' KI'']]]]]]]].
  rewrite app_nil_r in Ex. rewrite app_nil_r in Ex. rewrite Ex. rewrite RC''. cbn [rbind fst snd].
  assert (Wcb : wf (cb ++ t')).
  { apply wf_app. split; [|exact Wt']. rewrite <- Ex. apply wf_skipn, Wdd. }
  pose proof (cert_valid_of_read _ _ _ Wcb RC'') as V''.
  pose proof (cert_valid_of_read _ _ _ (wf_skipn 384 _ W) RC) as V.
  assert (KIc : cert_kind_int c' = cert_kind_int c).
  { rewrite Ec', Ec. unfold cert_kind_int. cbn [c_kind]. f_equal. unfold dd. rewrite skipn_firstn_comm. rewrite firstn_firstn. f_equal. lia. }
  assert (CT'' : cert_type c'' = Ok t).
  { rewrite <- CT. unfold cert_type. rewrite V'', V, KI'', KIc. reflexivity. }
  assert (LF'' : cert_length_field c'' = Ok cl).
  { rewrite <- LF. unfold cert_length_field. rewrite V'', V, LI'', CL. reflexivity. }
  rewrite CT'', LF''. cbn [rbind]. fold dl.
  replace (length (dd ++ t') <? dl)%nat with false by (rewrite app_length; lia).
  rewrite (slice_to_prefix' dd t' dl) by (symmetry; exact Ldd). cbn [rbind]. rewrite RD. cbn [rbind fst snd].
  rewrite (slice_from_prefix' dd t' dl) by (symmetry; exact Ldd). reflexivity.
Qed.

Lemma read_dfl_exact d dest rem : wf d -> read_destination_from_leaseset d = Ok (dest, rem) ->
  exists db, d = db ++ rem /\ read_destination db = Ok (dest, []).
Proof.
  intros W H. revert H. unfold read_destination_from_leaseset at 1.
  destruct (length d <? 387)%nat eqn:E; [discriminate|]. apply Nat.ltb_ge in E.
  rewrite slice_from_ok by lia. cbn [rbind].
  destruct (read_certificate (skipn 384 d)) as [[c rc]| |] eqn:RC; cbn [rbind fst snd]; try discriminate.
  destruct (cert_type c) as [t| |] eqn:CT; cbn [rbind]; try discriminate.
  destruct (cert_length_field c) as [cl| |] eqn:LF; cbn [rbind]; try discriminate.
  pose proof (cert_length_field_eq _ _ LF) as Ecl.
  destruct (read_certificate_shape _ _ _ (wf_skipn 384 _ W) RC) as [L3 [Ec [B Erc]]].
  rewrite skipn_length in B, L3.
  set (dl := Z.to_nat (384 + 3 + cl)) in *.
  destruct (length d <? dl)%nat eqn:E2; [discriminate|]. apply Nat.ltb_ge in E2.
  rewrite slice_to_ok by lia. cbn [rbind].
  set (dd := firstn dl d).
  assert (Wdd : wf dd) by (apply wf_firstn, W).
  destruct (read_destination dd) as [[dst rr]| |] eqn:RD; cbn [rbind fst snd]; try discriminate.
  rewrite slice_from_ok by lia. cbn [rbind]. intros H. apply Ok_pair_inj in H. destruct H as [<- <-].
  destruct (read_destination_RoundTrip _ _ _ Wdd RD) as [db [KB Ed]].
  assert (RK : read_keys_and_cert dd = Ok (dst, rr)).
  { revert RD. unfold read_destination. destruct (read_keys_and_cert dd) as [[k0 r0]| |]; cbn [rbind fst]; try discriminate.
    destruct (dest_types_ok k0); [|discriminate]. auto. }
  destruct (kac_remainder _ _ _ RK) as [_ [c' RC']].
  destruct (read_certificate_shape _ _ _ (wf_skipn 384 _ Wdd) RC') as [_ [Ec' [_ Er']]].
  assert (Ldd : length dd = dl) by (unfold dd; rewrite firstn_length; lia).
  assert (CL : cert_len_int c' = cert_len_int c).
  { rewrite Ec', Ec. unfold cert_len_int. cbn [c_len]. f_equal.
    unfold dd. rewrite skipn_firstn_comm. rewrite skipn_firstn_comm.
    rewrite firstn_firstn. f_equal. subst cl. lia. }
  assert (RR : rr = []).
  { rewrite Er'. apply skipn_all2. rewrite skipn_length, Ldd, CL. subst cl. lia. }
  rewrite RR in Ed, RD, RC'. clear Er'. rewrite app_nil_r in Ed. subst db.
  exists dd. split; [symmetry; apply firstn_skipn|exact RD].
Qed.

(* C19: the destination reader used in front of a LeaseSet agrees with ReadDestination on the same
   input: same remainder, a destination with the same serialisation and the same key types *)
Theorem dfl_agrees_with_read_destination d dest rem : wf d -> read_destination_from_leaseset d = Ok (dest, rem) ->
  exists dest', read_destination d = Ok (dest', rem) /\ kac_bytes dest' = kac_bytes dest /\
    kc_signing_type (k_kc dest') = kc_signing_type (k_kc dest) /\ kc_crypto_type (k_kc dest') = kc_crypto_type (k_kc dest).
Proof.
  intros W H. destruct (read_dfl_exact d dest rem W H) as [db [Ed RD]].
  assert (Wdb : wf db) by (rewrite Ed in W; apply wf_app in W; tauto).
  destruct (read_destination_retail (db ++ []) dest [] rem ltac:(rewrite app_nil_r; exact Wdb) ltac:(rewrite app_nil_r; exact RD))
    as [b [k' [KB [Ex [RD' [KB' [T2 T1]]]]]]].
  rewrite !app_nil_r in Ex. subst b. exists k'. rewrite Ed. split; [exact RD'|]. split; [rewrite KB', KB; reflexivity|]. split; assumption.
Qed.

Lemma concat_length_uniform (n : nat) (ls : list bytes) : Forall (fun l => length l = n) ls ->
  length (concat ls) = (length ls * n)%nat.
Proof. induction 1 as [|x t Hx Ht IH]; [reflexivity|]. cbn [concat length]. rewrite app_length, Hx, IH. lia. Qed.

Theorem read_lease_set_strip d l : wf d -> read_lease_set d = Ok l ->
  exists b r, lease_set_bytes l = Ok b /\ b ++ r = d /\ read_lease_set b = Ok l.
Proof.
  intros W. unfold read_lease_set.
  destruct (length d <? 387)%nat; [discriminate|].
  destruct (read_destination_from_leaseset d) as [[dest r0]| |] eqn:RD; cbn [rbind fst snd]; try discriminate.
  destruct (read_destination_from_leaseset_RT _ _ _ W RD) as [db [KB [E0 W0]]].
  pose proof RD as RD0.
  change c_lease_set_LEASE_SET_PUBKEY_SIZE with 256. change (Z.to_nat 256) with 256%nat.
  destruct (Z.of_nat (length r0) <? 256) eqn:L0; [discriminate|].
  rewrite slice_to_ok by lia. cbn [rbind].
  destruct (negb (elg_pubkey_ok (firstn 256 r0))) eqn:EOK0; [discriminate|].
  rewrite slice_from_ok by lia. cbn [rbind].
  destruct (dest_keycert_opt dest) as [kco| |] eqn:DK; cbn [rbind]; try discriminate.
  set (r1 := skipn 256 r0) in *.
  set (sks := match kco with Some kc => kc_signing_pubkey_size kc | None => c_lease_set_LEASE_SET_SPK_SIZE end).
  assert (SKN : 0 <= sks).
  { unfold sks. destruct kco; [apply signing_pubkey_size_nonneg|]. change c_lease_set_LEASE_SET_SPK_SIZE with 128. lia. }
  destruct (Z.of_nat (length r1) <? sks) eqn:L1; [discriminate|].
  rewrite slice_to_ok by lia. cbn [rbind].
  set (skd := firstn (Z.to_nat sks) r1).
  match goal with |- (do sk <- ?e; _) = _ -> _ => destruct e as [sk| |] eqn:SK; cbn [rbind]; try discriminate end.
  assert (ESK : sk = skd).
  { destruct kco as [kc|].
    - pose proof (construct_signing_inv _ _ _ SK) as TS.
      rewrite construct_signing_exact in SK; [injection SK as <-; reflexivity|exact TS|].
      unfold skd. rewrite firstn_length. unfold sks in *. lia.
    - destruct (dsa_pubkey_ok skd); [injection SK as <-; reflexivity|discriminate]. }
  subst sk. rewrite slice_from_ok by lia. cbn [rbind].
  set (r2 := skipn (Z.to_nat sks) r1) in *.
  destruct (length r2 <? 1)%nat eqn:L2; [discriminate|]. apply Nat.ltb_ge in L2.
  destruct (index 0 r2) as [cnt| |] eqn:IX; cbn [rbind]; try discriminate.
  destruct (Z.of_N cnt >? 16) eqn:C16; [discriminate|].
  rewrite slice_from_ok by lia. cbn [rbind].
  destruct (Z.of_nat (length (skipn 1 r2)) <? Z.of_N cnt * c_lease_LEASE_SIZE); [discriminate|].
  destruct (read_n (N.to_nat cnt) LEASE_SIZE (skipn 1 r2)) as [[ls r4]| |] eqn:RN; cbn [rbind fst snd]; try discriminate.
  destruct (read_n_RT _ _ _ _ _ RN) as [EN LN].
  set (ss := match kco with Some kc => kc_signature_size kc | None => c_lease_set_LEASE_SET_SIG_SIZE end).
  destruct (Z.of_nat (length r4) <? ss) eqn:L4; [discriminate|].
  assert (SSN : 0 <= ss \/ ss < 0) by lia.
  destruct (Z_lt_le_dec ss 0) as [NEG|POS].
  { (* a negative size never comes out of the table *)
    exfalso. unfold ss in NEG. destruct kco as [kc|]; [|change c_lease_set_LEASE_SET_SIG_SIZE with 40 in NEG; lia].
    unfold kc_signature_size, kc_sig_size in NEG.
    pose proof (assoc_nonneg m_key_certificate_SigningKeySizes_SignatureSize (kc_signing_type kc) eq_refl). lia. }
  rewrite slice_to_ok by lia. cbn [rbind].
  destruct (new_signature_from_bytes _ _) as [sg| |] eqn:NS; cbn [rbind]; try discriminate.
  intros H. apply Ok_inj in H. subst l.
  assert (SB : sig_bytes sg = firstn (Z.to_nat ss) r4).
  { revert NS. unfold new_signature_from_bytes. destruct (sig_length _); [|discriminate].
    destruct (_ =? _); [|discriminate]. intros H; injection H as <-. reflexivity. }
  unfold lease_set_bytes. cbn [ls_dest ls_enc ls_spk ls_count ls_leases ls_sig]. rewrite KB. cbn [rbind].
  rewrite encode_count by lia. cbn [rbind]. eexists. exists (skipn (Z.to_nat ss) r4). split; [reflexivity|].
  split.
  { rewrite SB, <- !app_assoc, firstn_skipn, EN.
    change ([cnt] ++ skipn 1 r2) with (cnt :: skipn 1 r2). rewrite <- (index0_split _ _ IX). unfold r2, skd. rewrite firstn_skipn. unfold r1. rewrite firstn_skipn. exact E0. }
  (* the same reader on the serialisation alone *)
  set (ek := firstn 256 r0) in *.
  set (sgb := firstn (Z.to_nat ss) r4) in *.
  set (rest := ek ++ skd ++ [cnt] ++ concat ls ++ sgb).
  assert (Wrest : wf rest).
  { unfold rest, ek, skd, sgb. repeat (apply wf_app; split); try (apply wf_firstn); try assumption.
    - unfold r1. apply wf_skipn, W0.
    - constructor; [|constructor]. apply index0_split in IX. assert (Wr2 : wf r2) by (unfold r2, r1; apply wf_skipn, wf_skipn, W0).
      rewrite IX in Wr2. inversion Wr2; assumption.
    - destruct (read_n_RT _ _ _ _ _ RN) as [EN' _]. assert (Ws : wf (skipn 1 r2)) by (unfold r2, r1; do 3 apply wf_skipn; exact W0).
      rewrite <- EN' in Ws. apply wf_app in Ws. tauto.
    - destruct (read_n_RT _ _ _ _ _ RN) as [EN' _]. assert (Ws : wf (skipn 1 r2)) by (unfold r2, r1; do 3 apply wf_skipn; exact W0).
      rewrite <- EN' in Ws. apply wf_app in Ws. tauto. }
  destruct (read_dfl_retail d dest r0 rest W Wrest RD0) as [db' [KB' [Ed' [L387 RD']]]].
  assert (db' = db) by congruence. subst db'.
  rewrite SB. fold sgb. fold rest.
  unfold read_lease_set.
  replace (length (db ++ rest) <? 387)%nat with false by (rewrite app_length; lia).
  rewrite RD'. cbn [rbind fst snd].
  change c_lease_set_LEASE_SET_PUBKEY_SIZE with 256. change (Z.to_nat 256) with 256%nat.
  assert (Lek : length ek = 256%nat) by (unfold ek; rewrite firstn_length; lia).
  assert (Lskd : length skd = Z.to_nat sks) by (unfold skd; rewrite firstn_length; lia).
  assert (Lsgb : length sgb = Z.to_nat ss) by (unfold sgb; rewrite firstn_length; lia).
  unfold rest at 1. replace (Z.of_nat (length (ek ++ skd ++ [cnt] ++ concat ls ++ sgb)) <? 256) with false by (rewrite app_length; lia).
  unfold rest. rewrite (slice_to_prefix' ek _ 256) by (symmetry; exact Lek). cbn [rbind].
  fold ek in EOK0. rewrite EOK0.
  rewrite (slice_from_prefix' ek _ 256) by (symmetry; exact Lek). cbn [rbind].
  rewrite DK. cbn [rbind]. fold sks.
  replace (Z.of_nat (length (skd ++ [cnt] ++ concat ls ++ sgb)) <? sks) with false by (rewrite app_length; lia).
  rewrite (slice_to_prefix' skd _ (Z.to_nat sks)) by (symmetry; exact Lskd). cbn [rbind].
  rewrite SK. cbn [rbind].
  rewrite (slice_from_prefix' skd _ (Z.to_nat sks)) by (symmetry; exact Lskd). cbn [rbind].
  cbn [app]. rewrite length_cons_lt1, index0_cons. cbn [rbind]. rewrite C16.
  rewrite slice_from1_cons. cbn [rbind].
  destruct (read_n_lengths _ _ _ _ _ RN) as [FL LNl].
  assert (Lcat : length (concat ls) = (N.to_nat cnt * LEASE_SIZE)%nat).
  { rewrite (concat_length_uniform LEASE_SIZE ls FL), LNl. reflexivity. }
  replace (Z.of_nat (length (concat ls ++ sgb)) <? Z.of_N cnt * c_lease_LEASE_SIZE) with false
    by (rewrite app_length, Lcat; change c_lease_LEASE_SIZE with 44; change LEASE_SIZE with 44%nat; lia).
  rewrite <- LNl. pose proof (read_n_accept LEASE_SIZE ls sgb FL) as RA. unfold bytes in RA |- *. rewrite RA. cbn [rbind fst snd]. fold ss.
  replace (Z.of_nat (length sgb) <? ss) with false by lia.
  rewrite slice_to_ok by lia. rewrite firstn_all2 by lia. cbn [rbind].
  rewrite NS. reflexivity.
Qed.

(* ---- LeaseSet (v1) built from parts: accepted, whatever follows ---- *)
Definition ls_sks (kco : option keycert) : Z := match kco with Some kc => kc_signing_pubkey_size kc | None => c_lease_set_LEASE_SET_SPK_SIZE end.
Definition ls_ss (kco : option keycert) : Z := match kco with Some kc => kc_signature_size kc | None => c_lease_set_LEASE_SET_SIG_SIZE end.
Definition ls_st (kco : option keycert) : Z := match kco with Some kc => kc_signing_type kc | None => c_signature_SIGNATURE_TYPE_DSA_SHA1 end.

Theorem lease_set_built_accepted db dest kco ek skd (ls : list bytes) sgb sg y :
  let rest := ek ++ skd ++ [N.of_nat (length ls)] ++ concat ls ++ sgb in
  (387 <= length db)%nat ->
  read_destination_from_leaseset (db ++ rest ++ y) = Ok (dest, rest ++ y) ->
  length ek = 256%nat -> elg_pubkey_ok ek = true ->
  dest_keycert_opt dest = Ok kco ->
  0 <= ls_sks kco -> Z.of_nat (length skd) = ls_sks kco ->
  match kco with
  | Some kc => construct_signing_public_key kc skd
  | None => if dsa_pubkey_ok skd then Ok skd else Err
  end = Ok skd ->
  (length ls <= 16)%nat -> Forall (fun l => length l = LEASE_SIZE) ls ->
  0 <= ls_ss kco -> Z.of_nat (length sgb) = ls_ss kco ->
  new_signature_from_bytes sgb (ls_st kco) = Ok sg ->
  read_lease_set ((db ++ rest) ++ y) = Ok (mkLS dest ek skd (Z.of_nat (length ls)) ls sg) /\
  lease_set_bytes (mkLS dest ek skd (Z.of_nat (length ls)) ls sg) =
    (do dbb <- kac_bytes dest; Ok (dbb ++ ek ++ skd ++ [N.of_nat (length ls)] ++ concat ls ++ sig_bytes sg)).
Proof.
  intros rest L387 RD Lek EOK DK SKN Lskd SK L16 FL SSN Lsgb NS. split.
  - rewrite <- app_assoc. unfold read_lease_set.
    replace (length (db ++ rest ++ y) <? 387)%nat with false by (rewrite app_length; lia).
    rewrite RD. cbn [rbind fst snd].
    change c_lease_set_LEASE_SET_PUBKEY_SIZE with 256. change (Z.to_nat 256) with 256%nat.
    unfold rest. rewrite <- !app_assoc.
    replace (Z.of_nat (length (ek ++ skd ++ [N.of_nat (length ls)] ++ concat ls ++ sgb ++ y)) <? 256) with false by (rewrite app_length; lia).
    rewrite (slice_to_prefix' ek _ 256) by (symmetry; exact Lek). cbn [rbind].
    rewrite EOK. cbn [negb].
    rewrite (slice_from_prefix' ek _ 256) by (symmetry; exact Lek). cbn [rbind].
    rewrite DK. cbn [rbind]. fold (ls_sks kco).
    replace (Z.of_nat (length (skd ++ [N.of_nat (length ls)] ++ concat ls ++ sgb ++ y)) <? ls_sks kco) with false by (rewrite app_length; lia).
    rewrite (slice_to_prefix' skd _ (Z.to_nat (ls_sks kco))) by lia. cbn [rbind].
    match goal with |- context [rbind ?e _] =>
      lazymatch e with (match kco with Some _ => _ | None => _ end) => replace e with (Ok skd : res bytes) by (symmetry; exact SK) end end.
    cbn [rbind].
    rewrite (slice_from_prefix' skd _ (Z.to_nat (ls_sks kco))) by lia. cbn [rbind].
    cbn [app]. rewrite length_cons_lt1, index0_cons. cbn [rbind].
    replace (Z.of_N (N.of_nat (length ls)) >? 16) with false by lia.
    rewrite slice_from1_cons. cbn [rbind].
    assert (Lcat : length (concat ls) = (length ls * LEASE_SIZE)%nat) by (apply concat_length_uniform; exact FL).
    replace (Z.of_nat (length (concat ls ++ sgb ++ y)) <? Z.of_N (N.of_nat (length ls)) * c_lease_LEASE_SIZE) with false
      by (rewrite app_length, Lcat; change c_lease_LEASE_SIZE with 44; change LEASE_SIZE with 44%nat; lia).
    rewrite Nat2N.id. pose proof (read_n_accept LEASE_SIZE ls (sgb ++ y) FL) as RA. unfold bytes in RA |- *. rewrite RA. cbn [rbind fst snd].
    fold (ls_ss kco).
    replace (Z.of_nat (length (sgb ++ y)) <? ls_ss kco) with false by (rewrite app_length; lia).
    rewrite (slice_to_prefix' sgb y (Z.to_nat (ls_ss kco))) by lia. cbn [rbind].
    fold (ls_st kco). rewrite NS. cbn [rbind]. f_equal. f_equal. lia.
  - unfold lease_set_bytes. cbn [ls_dest ls_enc ls_spk ls_count ls_leases ls_sig].
    destruct (kac_bytes dest) as [dbb| |]; cbn [rbind]; try reflexivity.
    replace (Z.of_nat (length ls)) with (Z.of_N (N.of_nat (length ls))) by lia.
    rewrite encode_count by lia. cbn [rbind]. reflexivity.
Qed.

