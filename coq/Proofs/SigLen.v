(* SigLen.v — signature.getSignatureLength, as regenerated from its Go body (Gen/Validators.v),
   equals the specification's table for EVERY integer.  The proof does not depend on the shape of
   the generated definition (one switch, several helper functions, if-chains ...): inside the 16-bit
   range it is a finite check over all 65 536 codes lifted by forallb_forall; outside, every
   comparison in the unfolded definition is decided by case analysis and linear arithmetic. *)
From Coq Require Import ZArith List Lia Bool ZifyBool.
From Model Require Import Bytes Tables.
From Spec Require Import SpecTables.
Import ListNotations.
Open Scope Z_scope.

Definition optZ_eqb (a b : option Z) : bool :=
  match a, b with Some x, Some y => x =? y | None, None => true | _, _ => false end.
Lemma optZ_eqb_eq a b : optZ_eqb a b = true -> a = b.
Proof. destruct a, b; cbn; intros H; try discriminate; [apply Z.eqb_eq in H; subst|]; reflexivity. Qed.

Fixpoint zrange (from : Z) (n : nat) : list Z :=
  match n with O => [] | S k => from :: zrange (from + 1) k end.
Lemma zrange_in : forall n from t, from <= t < from + Z.of_nat n -> In t (zrange from n).
Proof.
  induction n as [|n IH]; intros from t H; [lia|]. cbn [zrange].
  destruct (Z.eq_dec t from) as [->|N]; [left; reflexivity|]. right. apply IH. lia.
Qed.

Lemma sig_length_16bit_all :
  forallb (fun t => optZ_eqb (sig_length t) (spec_sig_len t)) (zrange 0 (Z.to_nat 65536)) = true.
Proof. vm_compute. reflexivity. Qed.

Theorem sig_length_in_range t : 0 <= t <= 65535 -> sig_length t = spec_sig_len t.
Proof.
  intros R. pose proof sig_length_16bit_all as K. rewrite forallb_forall in K.
  apply optZ_eqb_eq, K, zrange_in. lia.
Qed.

(* innermost conditionals first, so that every hypothesis is a plain comparison *)
Ltac split_ifs :=
  repeat (match goal with
          | |- context [if ?c then _ else _] =>
              lazymatch c with
              | context [if _ then _ else _] => fail
              | _ => let E := fresh "E" in destruct c eqn:E
              end
          end; cbv beta iota).

Theorem sig_length_out_of_range t : t < 0 \/ t > 65535 -> sig_length t = None.
Proof.
  intros H. unfold sig_length.
  cbv -[Z.ltb Z.gtb Z.leb Z.geb Z.eqb Z.lt Z.gt Z.le Z.ge].
  split_ifs; try reflexivity; exfalso; lia.
Qed.

(* consequences, through the specification's table only *)
Lemma spec_sig_len_cases t n : spec_sig_len t = Some n ->
  In (t, n) [(0, 40); (1, 64); (2, 96); (3, 132); (4, 256); (5, 384); (6, 512); (7, 64); (8, 64); (11, 64)].
Proof.
  unfold spec_sig_len, spec_signing. cbn [lookup option_map].
  repeat match goal with |- context [Z.eqb ?a ?b] => destruct (Z.eqb_spec a b); [subst; cbn; intros X; inversion X; subst; cbn; tauto|] end.
  cbn. discriminate.
Qed.
Lemma sig_length_cases t n : sig_length t = Some n ->
  In (t, n) [(0, 40); (1, 64); (2, 96); (3, 132); (4, 256); (5, 384); (6, 512); (7, 64); (8, 64); (11, 64)].
Proof.
  intros H. destruct (Z_lt_dec t 0) as [L|L]; [rewrite sig_length_out_of_range in H by lia; discriminate|].
  destruct (Z_gt_dec t 65535) as [G|G]; [rewrite sig_length_out_of_range in H by lia; discriminate|].
  rewrite sig_length_in_range in H by lia. apply spec_sig_len_cases. exact H.
Qed.
Lemma sig_length_bounds t n : sig_length t = Some n -> 0 < n <= 512.
Proof. intros H. apply sig_length_cases in H. cbn [In] in H. repeat (destruct H as [H|H]; [inversion H; lia|]). destruct H. Qed.
Lemma sig_length_min t n : sig_length t = Some n -> 40 <= n.
Proof. intros H. apply sig_length_cases in H. cbn [In] in H. repeat (destruct H as [H|H]; [inversion H; lia|]). destruct H. Qed.
Lemma sig_length_unknown t : ~ In t [0;1;2;3;4;5;6;7;8;11] -> sig_length t = None.
Proof.
  intros H. destruct (sig_length t) as [n|] eqn:E; [|reflexivity]. exfalso. apply H.
  apply sig_length_cases in E. cbn [In] in E |- *.
  repeat (destruct E as [E|E]; [inversion E; subst; tauto|]). destruct E.
Qed.

(* ---- offline_signature.SigningPublicKeySize / SignatureSize, shape-independently ---- *)
Definition nz (v : Z) : option Z := if v =? 0 then None else Some v.
Definition agree_off (t : Z) : bool :=
  optZ_eqb (nz (off_spk_size t)) (spec_spk_len t) && optZ_eqb (nz (off_sig_size t)) (spec_sig_len t) &&
  (0 <=? off_spk_size t) && (0 <=? off_sig_size t).
Lemma off_sizes_16bit_all : forallb agree_off (zrange 0 (Z.to_nat 65536)) = true.
Proof. vm_compute. reflexivity. Qed.
Theorem off_sizes_in_range t : 0 <= t <= 65535 ->
  nz (off_spk_size t) = spec_spk_len t /\ nz (off_sig_size t) = spec_sig_len t /\
  0 <= off_spk_size t /\ 0 <= off_sig_size t.
Proof.
  intros R. pose proof off_sizes_16bit_all as K. rewrite forallb_forall in K.
  assert (I : In t (zrange 0 (Z.to_nat 65536))) by (apply zrange_in; lia).
  specialize (K t I). unfold agree_off in K.
  repeat rewrite Bool.andb_true_iff in K. destruct K as [[[A B] C] D].
  repeat split; try (apply optZ_eqb_eq; assumption); lia.
Qed.
Lemma off_spk_size_out_of_range t : t < 0 \/ t > 65535 -> 0 <= off_spk_size t.
Proof.
  (* a negative argument (which the uint16 parameter of the Go function excludes) is analysed by
     constructor, so that an index computation such as Z.to_nat t evaluates *)
  intros [L|G]; [destruct t as [|p|p]; try lia|];
    unfold off_spk_size; cbv -[Z.ltb Z.gtb Z.leb Z.geb Z.eqb Z.lt Z.gt Z.le Z.ge];
    split_ifs; lia.
Qed.
Lemma off_sig_size_out_of_range t : t < 0 \/ t > 65535 -> 0 <= off_sig_size t.
Proof.
  (* a negative argument (which the uint16 parameter of the Go function excludes) is analysed by
     constructor, so that an index computation such as Z.to_nat t evaluates *)
  intros [L|G]; [destruct t as [|p|p]; try lia|];
    unfold off_sig_size; cbv -[Z.ltb Z.gtb Z.leb Z.geb Z.eqb Z.lt Z.gt Z.le Z.ge];
    split_ifs; lia.
Qed.
Lemma off_spk_size_nonneg t : 0 <= off_spk_size t.
Proof.
  destruct (Z_lt_dec t 0) as [L|L]; [apply off_spk_size_out_of_range; lia|].
  destruct (Z_gt_dec t 65535) as [G|G]; [apply off_spk_size_out_of_range; lia|].
  destruct (off_sizes_in_range t) as (_ & _ & P & _); [lia|exact P].
Qed.
Lemma off_sig_size_nonneg t : 0 <= off_sig_size t.
Proof.
  destruct (Z_lt_dec t 0) as [L|L]; [apply off_sig_size_out_of_range; lia|].
  destruct (Z_gt_dec t 65535) as [G|G]; [apply off_sig_size_out_of_range; lia|].
  destruct (off_sizes_in_range t) as (_ & _ & _ & P); [lia|exact P].
Qed.
