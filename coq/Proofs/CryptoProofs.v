(* CryptoProofs.v — what a successful verification implies (C05) and that the library's
   own signatures verify (C06), for an ARBITRARY signature scheme: [verify] and [sign] are
   Section variables; the only assumption, where one is needed, is the correctness law of
   the scheme and it appears as an explicit premise of the closed theorems. *)
From Coq Require Import ZifyN ZifyNat ZifyBool.
From Model Require Import Bytes Prim Tables Cert KAC Mapping Sig LS RI Crypto.
From Gen Require Import Consts.
From Proofs Require Import BytesLemmas.
Open Scope Z_scope.

Section Scheme.
  (* algorithm, public key, message, signature *)
  Variable verify : N -> bytes -> bytes -> bytes -> bool.

  Definition holds (q : query) : bool := verify (q_alg q) (q_key q) (q_msg q) (q_sig q).
  Definition verdict (o : option (list query)) : bool :=
    match o with Some qs => forallb holds qs | None => false end.

  (* the heart of C05 for LeaseSet2 / MetaLeaseSet: success needs a valid signature under the
     identity's own key — over the message itself, or over the offline block that names the
     transient key which in turn signed the message *)
  Lemma final_queries_sound idkey idtype flags off msg sg :
    verdict (final_queries idkey idtype flags off msg sg) = true ->
    exists dk, idkey = Some dk /\
      ((exists a, alg_of_type idtype = Some a /\ verify a dk msg sg = true /\
                  (off = None \/ has_offline flags = false))
       \/
       (exists o tk a, off = Some o /\ has_offline flags = true /\
                  off_validate_structure o = true /\
                  (verify ALG_ED25519 dk (off_signed_data o) (o_sig o) = true \/
                   verify ALG_ED25519PH dk (off_signed_data o) (o_sig o) = true) /\
                  construct_signing_by_type (Z.of_N (o_sigtype o)) (o_key o) = Ok tk /\
                  alg_of_type (Z.of_N (o_sigtype o)) = Some a /\
                  verify a tk msg sg = true)).
  Proof.
    unfold final_queries. destruct off as [o|].
    - destruct (has_offline flags) eqn:F.
      + destruct idkey as [dk|]; [|discriminate].
        destruct (offline_query o dk) as [q1|] eqn:Q; [|discriminate].
        destruct (construct_signing_by_type (Z.of_N (o_sigtype o)) (o_key o)) as [tk| |] eqn:C; try discriminate.
        destruct (alg_of_type (Z.of_N (o_sigtype o))) as [a|] eqn:A; [|discriminate].
        cbn [verdict forallb]. intros H. apply Bool.andb_true_iff in H. destruct H as [H1 H2].
        apply Bool.andb_true_iff in H2. destruct H2 as [H2 _].
        exists dk. split; [reflexivity|]. right. exists o, tk, a.
        unfold offline_query in Q. destruct (off_validate_structure o) eqn:V; [|discriminate]. cbn [negb] in Q.
        repeat split; auto.
        destruct ((Z.of_N (o_desttype o) =? c_signature_SIGNATURE_TYPE_EDDSA_SHA512_ED25519)
                  || (Z.of_N (o_desttype o) =? c_signature_SIGNATURE_TYPE_REDDSA_SHA512_ED25519))%bool.
        * destruct (length dk =? 32)%nat; [|discriminate]. injection Q as <-. left. exact H1.
        * destruct (Z.of_N (o_desttype o) =? c_signature_SIGNATURE_TYPE_EDDSA_SHA512_ED25519PH); [|discriminate].
          destruct (length dk =? 32)%nat; [|discriminate]. injection Q as <-. right. exact H1.
      + destruct idkey as [dk|]; [|discriminate]. destruct (alg_of_type idtype) as [a|] eqn:A; [|discriminate].
        cbn [verdict forallb holds q_alg q_key q_msg q_sig]. intros H. apply Bool.andb_true_iff in H. destruct H as [H1 _].
        exists dk. split; [reflexivity|]. left. exists a. auto.
    - destruct idkey as [dk|]; [|discriminate]. destruct (alg_of_type idtype) as [a|] eqn:A; [|discriminate].
      cbn [verdict forallb holds q_alg q_key q_msg q_sig]. intros H. apply Bool.andb_true_iff in H. destruct H as [H1 _].
      exists dk. split; [reflexivity|]. left. exists a. auto.
  Qed.

  (* the message verified is the store-type prefix followed by the serialisation minus the
     signature, and the key is the one of the contained destination *)
  Lemma ls2_verify_sound l : verdict (ls2_verify_queries l) = true ->
    exists full dk, lease_set2_bytes l = Ok full /\ kac_signing_key (l2_dest l) = Some dk /\
      let msg := 3%N :: drop_last (length (sig_bytes (l2_sig l))) full in
      verdict (final_queries (Some dk) (kc_signing_type (k_kc (l2_dest l))) (l2_flags l) (l2_offline l) msg (sig_bytes (l2_sig l))) = true.
  Proof.
    unfold ls2_verify_queries. destruct (lease_set2_bytes l) as [full| |]; try discriminate.
    destruct (length full <? length (sig_bytes (l2_sig l)))%nat; [discriminate|].
    intros H. destruct (final_queries_sound _ _ _ _ _ _ H) as [dk [E _]].
    exists full, dk. rewrite E in H. repeat split; auto.
  Qed.
  Lemma meta_verify_sound l : verdict (meta_verify_queries l) = true ->
    exists full dk, meta_lease_set_bytes l = Ok full /\ kac_signing_key (ml_dest l) = Some dk /\
      let msg := 7%N :: drop_last (length (sig_bytes (ml_sig l))) full in
      verdict (final_queries (Some dk) (kc_signing_type (k_kc (ml_dest l))) (ml_flags l) (ml_offline l) msg (sig_bytes (ml_sig l))) = true.
  Proof.
    unfold meta_verify_queries. destruct (meta_lease_set_bytes l) as [full| |]; try discriminate.
    destruct (length full <? length (sig_bytes (ml_sig l)))%nat; [discriminate|].
    intros H. destruct (final_queries_sound _ _ _ _ _ _ H) as [dk [E _]].
    exists full, dk. rewrite E in H. repeat split; auto.
  Qed.
  (* LeaseSet (v1): exactly one query, under the destination's key, over everything before the signature *)
  Lemma ls_verify_sound l : verdict (ls_verify_queries l) = true ->
    exists full dk a, lease_set_bytes l = Ok full /\ kac_signing_key (ls_dest l) = Some dk /\
      alg_of_type (kc_signing_type (k_kc (ls_dest l))) = Some a /\
      verify a dk (drop_last (length (sig_bytes (ls_sig l))) full) (sig_bytes (ls_sig l)) = true.
  Proof.
    unfold ls_verify_queries. destruct (lease_set_bytes l) as [full| |]; try discriminate.
    destruct ((length (sig_bytes (ls_sig l)) =? 0) || (length full <? length (sig_bytes (ls_sig l))))%nat; [discriminate|].
    destruct (kac_signing_key (ls_dest l)) as [dk|]; [|discriminate].
    destruct (alg_of_type (kc_signing_type (k_kc (ls_dest l)))) as [a|]; [|discriminate].
    cbn [verdict forallb holds q_alg q_key q_msg q_sig]. intros H. apply Bool.andb_true_iff in H. destruct H as [H _].
    exists full, dk, a. auto.
  Qed.
  (* RouterInfo: Ed25519 under the router identity's key over everything before the signature *)
  Lemma ri_verify_sound i : verdict (ri_verify_queries i) = true ->
    exists full k, router_info_bytes i = Ok full /\ kac_signing_key (ri_ident i) = Some k /\
      verify ALG_ED25519 k (drop_last (length (sig_bytes (ri_sig i))) full) (sig_bytes (ri_sig i)) = true.
  Proof.
    unfold ri_verify_queries. destruct (router_info_bytes i) as [full| |]; try discriminate.
    destruct (kac_signing_key (ri_ident i)) as [k|]; [|discriminate].
    destruct (s_type (ri_sig i) =? c_signature_SIGNATURE_TYPE_EDDSA_SHA512_ED25519); [|discriminate].
    destruct (length k =? 32)%nat; [|discriminate].
    cbn [verdict forallb holds q_alg q_key q_msg q_sig]. intros H. apply Bool.andb_true_iff in H. destruct H as [H _].
    exists full, k. auto.
  Qed.
  (* EncryptedLeaseSet: the identity key is the blinded key *)
  Lemma els_verify_sound l : verdict (els_verify_queries l) = true ->
    let msg := 5%N :: els_bytes_without_sig l in
    (exists k a, construct_signing_by_type (Z.of_N (el_sigtype l)) (el_key l) = Ok k /\
                 alg_of_type (Z.of_N (el_sigtype l)) = Some a /\ verify a k msg (sig_bytes (el_sig l)) = true /\
                 (el_offline l = None \/ has_offline (el_flags l) = false))
    \/
    (exists o tk a, el_offline l = Some o /\ has_offline (el_flags l) = true /\
                 (verify ALG_ED25519 (el_key l) (off_signed_data o) (o_sig o) = true \/
                  verify ALG_ED25519PH (el_key l) (off_signed_data o) (o_sig o) = true) /\
                 construct_signing_by_type (Z.of_N (o_sigtype o)) (o_key o) = Ok tk /\
                 alg_of_type (Z.of_N (o_sigtype o)) = Some a /\ verify a tk msg (sig_bytes (el_sig l)) = true).
  Proof.
    unfold els_verify_queries. cbv zeta. destruct (el_offline l) as [o|].
    - destruct (has_offline (el_flags l)) eqn:F.
      + destruct (offline_query o (el_key l)) as [q1|] eqn:Q; [|discriminate].
        destruct (construct_signing_by_type (Z.of_N (o_sigtype o)) (o_key o)) as [tk| |] eqn:C; try discriminate.
        destruct (alg_of_type (Z.of_N (o_sigtype o))) as [a|] eqn:A; [|discriminate].
        cbn [verdict forallb]. intros H. apply Bool.andb_true_iff in H. destruct H as [H1 H2].
        apply Bool.andb_true_iff in H2. destruct H2 as [H2 _].
        right. exists o, tk, a. repeat split; auto.
        unfold offline_query in Q. destruct (negb (off_validate_structure o)); [discriminate|].
        destruct ((Z.of_N (o_desttype o) =? c_signature_SIGNATURE_TYPE_EDDSA_SHA512_ED25519)
                  || (Z.of_N (o_desttype o) =? c_signature_SIGNATURE_TYPE_REDDSA_SHA512_ED25519))%bool.
        * destruct (length (el_key l) =? 32)%nat; [|discriminate]. injection Q as <-. left. exact H1.
        * destruct (Z.of_N (o_desttype o) =? c_signature_SIGNATURE_TYPE_EDDSA_SHA512_ED25519PH); [|discriminate].
          destruct (length (el_key l) =? 32)%nat; [|discriminate]. injection Q as <-. right. exact H1.
      + destruct (construct_signing_by_type (Z.of_N (el_sigtype l)) (el_key l)) as [k| |] eqn:C; try discriminate.
        destruct (alg_of_type (Z.of_N (el_sigtype l))) as [a|] eqn:A; [|discriminate].
        cbn [verdict forallb holds q_alg q_key q_msg q_sig]. intros H. apply Bool.andb_true_iff in H. destruct H as [H1 _].
        left. exists k, a. auto.
    - destruct (construct_signing_by_type (Z.of_N (el_sigtype l)) (el_key l)) as [k| |] eqn:C; try discriminate.
      destruct (alg_of_type (Z.of_N (el_sigtype l))) as [a|] eqn:A; [|discriminate].
      cbn [verdict forallb holds q_alg q_key q_msg q_sig]. intros H. apply Bool.andb_true_iff in H. destruct H as [H1 _].
      left. exists k, a. auto.
  Qed.
  (* OfflineSignature alone: its single query is over expires || type || transient key *)
  Lemma offline_verify_sound o dk q : offline_query o dk = Some q ->
    q_key q = dk /\ q_msg q = be_encode 4 (o_expires o) ++ be_encode 2 (o_sigtype o) ++ o_key o /\ q_sig q = o_sig o
    /\ off_validate_structure o = true.
  Proof.
    unfold offline_query. destruct (off_validate_structure o); [|discriminate]. cbn [negb].
    destruct ((Z.of_N (o_desttype o) =? c_signature_SIGNATURE_TYPE_EDDSA_SHA512_ED25519)
              || (Z.of_N (o_desttype o) =? c_signature_SIGNATURE_TYPE_REDDSA_SHA512_ED25519))%bool.
    - destruct (length dk =? 32)%nat; [|discriminate]. intros H; injection H as <-. auto.
    - destruct (Z.of_N (o_desttype o) =? c_signature_SIGNATURE_TYPE_EDDSA_SHA512_ED25519PH); [|discriminate].
      destruct (length dk =? 32)%nat; [|discriminate]. intros H; injection H as <-. auto.
  Qed.

  (* ---- C06: sign then verify, for a scheme satisfying its correctness law ---- *)
  Variable sign : bytes -> bytes -> bytes.     (* private key, message *)
  Variable pub : bytes -> bytes.               (* private key -> public key *)
  Hypothesis sign_ok : forall sk m, verify ALG_ED25519 (pub sk) m (sign sk m) = true.

  (* EncryptedLeaseSet signed by the library (no offline keys): data = 0x05 || content *)
  Definition els_signed (l : encls) (sk : bytes) : encls :=
    mkELS (el_sigtype l) (el_key l) (el_published l) (el_expires l) (el_flags l) (el_offline l)
          (el_inner_len l) (el_inner l) (mkSig (Z.of_N (el_sigtype l)) (sign sk (5%N :: els_bytes_without_sig l))).
  Lemma els_sign_verify l sk : el_offline l = None -> el_key l = pub sk -> length (pub sk) = 32%nat ->
    (el_sigtype l = 7 \/ el_sigtype l = 11)%N ->
    verdict (els_verify_queries (els_signed l sk)) = true.
  Proof.
    intros Ho Hk Hl Ht. unfold els_verify_queries, els_signed. cbn [el_offline el_sigtype el_key el_sig sig_bytes s_data].
    rewrite Ho.
    assert (C : construct_signing_by_type (Z.of_N (el_sigtype l)) (el_key l) = Ok (el_key l) /\
                alg_of_type (Z.of_N (el_sigtype l)) = Some ALG_ED25519).
    { rewrite Hk. destruct Ht as [-> | ->]; unfold construct_signing_by_type; cbn; rewrite Hl; cbn; auto. }
    destruct C as [C1 C2]. rewrite C1, C2.
    cbn [verdict forallb]. rewrite Bool.andb_true_r.
    unfold holds. cbn [q_alg q_key q_msg q_sig]. unfold els_bytes_without_sig.
    cbn [el_sigtype el_key el_published el_expires el_flags el_offline el_inner_len el_inner].
    rewrite Ho, Hk. change (Z.to_N c_encrypted_leaseset_ENCRYPTED_LEASESET_DBSTORE_TYPE) with 5%N. apply sign_ok.
  Qed.
  (* OfflineSignature created by the library verifies under the signer's public key *)
  Definition offline_created (e st : N) (tkey : bytes) (sk : bytes) (dt : N) : offsig :=
    mkOff e st tkey (sign sk (be_encode 4 e ++ be_encode 2 st ++ tkey)) dt.
  Lemma offline_create_verify e st tkey sk dt q :
    offline_query (offline_created e st tkey sk dt) (pub sk) = Some q -> q_alg q = ALG_ED25519 -> holds q = true.
  Proof.
    intros H A. destruct (offline_verify_sound _ _ _ H) as [K [M [S _]]].
    unfold holds. rewrite A, K, M, S. unfold offline_created. cbn [o_expires o_sigtype o_key o_sig]. apply sign_ok.
  Qed.
End Scheme.
