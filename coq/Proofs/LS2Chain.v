(* LS2Chain.v — C14's chain for LeaseSet2: Validate success implies a clean wire round trip.
   What LeaseSet2.Validate (regenerated from the Go source) checks, together with what Go's types
   already guarantee of any LeaseSet2 value (ls2_typed: 32/16-bit header fields, 16-bit key type and
   length fields, 40-byte leases, an offline block and a signature of the sizes their types dictate,
   options that are a valid options list), is exactly what the acceptance theorem needs (ls2_fits). *)
From Coq Require Import ZifyN ZifyNat ZifyBool.
From Model Require Import Bytes Prim Tables Cert KAC Mapping Sig LS Validate.
From Gen Require Import Consts Tables Validators.
From Spec Require Import Wire.
From Proofs Require Import BytesLemmas PrimProofs Frame SliceLemmas LeafProofs TableProofs SpecProofs MapRT SpecRA ValidatorTie Retail LS2Accept.
Ltac Zify.zify_post_hook ::= Z.div_mod_to_equations.
Open Scope Z_scope.

Record ls2_typed (l : leaseset2) (opts : list (bytes * bytes)) : Prop := {
  ty_pub : (l2_published l < 2 ^ 32)%N;
  ty_exp : (l2_expires l < 2 ^ 16)%N;
  ty_flags : (l2_flags l < 2 ^ 16)%N;
  ty_keys : Forall (fun k => (ek_type k < 65536)%N /\ (ek_len k < 65536)%N) (l2_keys l);
  ty_leases : Forall (fun x => length x = LEASE2_SIZE) (l2_leases l);
  ty_off : match l2_offline l with Some o => LS2Accept.offline_fits (ls2_dt l) o | None => True end;
  ty_opts : opts_ok opts /\ options_bytes (l2_options l) = spec_mapping opts;
  ty_sig : exists n, sig_length (final_sig_type (l2_dest l) (l2_flags l) (l2_offline l)) = Some n /\
                     Z.of_nat (length (sig_bytes (l2_sig l))) = n
}.

Theorem ls2_validated_fits l opts : ls2_validate l = true -> ls2_typed l opts -> ls2_fits l opts.
Proof.
  intros V [Tp Te Tf Tk Tl To Topts Ts].
  rewrite ls2_validate_spec in V by (eapply Forall_impl; [|exact Tk]; cbn; tauto).
  repeat rewrite Bool.andb_true_iff in V. destruct V as [[[[[K1 K16] KV] OF] _] L16].
  constructor; try assumption.
  - destruct (l2_offline l) as [o|].
    + split; [|exact To]. destruct (has_offline (l2_flags l)); [reflexivity|discriminate].
    + destruct (has_offline (l2_flags l)); [discriminate|reflexivity].
  - split; [lia|]. rewrite forallb_forall in KV. apply Forall_forall. intros k Hk.
    rewrite Forall_forall in Tk. destruct (Tk k Hk) as [A B]. unfold key_fits. split; [exact A|]. split; [exact B|].
    specialize (KV k Hk). unfold enckey_valid in KV. apply Bool.andb_true_iff in KV. destruct KV as [E _]. lia.
  - split; [lia|exact Tl].
Qed.

(* Validate success (plus what the types guarantee) implies: Bytes() parses back, followed by
   anything, to a value with the same fields and the same bytes (D6's whole-input minimum aside) *)
Theorem ls2_validated_value_parses_back l opts b x r0 r :
  ls2_validate l = true -> ls2_typed l opts ->
  wf x -> read_destination x = Ok (l2_dest l, r0) ->
  lease_set2_bytes l = Ok b -> wf (b ++ r) ->
  c_lease_set2_LEASESET2_MIN_SIZE <= Z.of_nat (length (b ++ r)) ->
  exists l', read_lease_set2 (b ++ r) = Ok (l', r) /\ lease_set2_bytes l' = Ok b /\
    l2_published l' = l2_published l /\ l2_expires l' = l2_expires l /\ l2_flags l' = l2_flags l /\
    l2_offline l' = l2_offline l /\ map_values (l2_options l') = map wire_pair opts /\
    l2_keys l' = l2_keys l /\ l2_leases l' = l2_leases l /\ sig_bytes (l2_sig l') = sig_bytes (l2_sig l).
Proof.
  intros V T. apply ls2_built_value_parses_back. apply ls2_validated_fits; assumption.
Qed.
