(* ValidatorTie.v — the validators of the hand-written model are the ones the translator
   regenerates from the Go source on every run (Gen/Validators.v), and the constructor /
   Validate layer inclusions of C14 are stated over the regenerated definitions themselves.
   A change to a Go validator changes Gen/Validators.v; it then either still satisfies these
   theorems (a harmless rewrite) or breaks them. *)
From Coq Require Import ZifyN ZifyNat ZifyBool.
From Model Require Import Bytes Prim Tables Cert KAC Mapping Sig LS Validate.
From Gen Require Import Consts Tables Validators.
Open Scope Z_scope.
Local Arguments Z.add : simpl never.
Local Arguments Z.sub : simpl never.
Local Arguments Z.mul : simpl never.
Local Arguments Z.of_nat : simpl never.
Local Arguments Z.land : simpl never.
Local Arguments Z.modulo : simpl never.

(* ---- lookups: the generated helpers against the model's ---- *)
Lemma g_memZ_memZ k l : g_memZ k l = memZ l k.
Proof. unfold g_memZ, memZ. induction l as [|a l IH]; cbn [existsb]; [reflexivity|]. rewrite IH. reflexivity. Qed.
Lemma g_lookupZ_assoc l k : g_lookupZ l k = or0 (assoc l k).
Proof.
  induction l as [|[a b] l IH]; cbn [g_lookupZ assoc or0]; [reflexivity|].
  rewrite (Z.eqb_sym a k). destruct (k =? a); [reflexivity|exact IH].
Qed.
Lemma memZ_keys_assoc l k : memZ (map fst l) k = match assoc l k with Some _ => true | None => false end.
Proof.
  unfold memZ. induction l as [|[a b] l IH]; cbn [map fst existsb assoc]; [reflexivity|].
  destruct (k =? a); [reflexivity|exact IH].
Qed.

(* a function of an integer decided by comparisons with finitely many constants *)
Ltac split_on t ks :=
  lazymatch ks with
  | @nil _ => idtac
  | ?k :: ?r => destruct (Z.eqb_spec t k) as [->|?]; [vm_compute; reflexivity|split_on t r]
  end.
Ltac neq_false :=
  repeat match goal with H : ?t <> ?k |- _ => rewrite (proj2 (Z.eqb_neq t k) H) in *; clear H end.

(* ---- signature ---- *)
(* since the model's sig_length IS the regenerated function, this tie is definitional; what the
   model needs of it is proved, independently of its shape, in Proofs/SigLen.v *)
Theorem tie_signature_length t : g_signature_getSignatureLength t = sig_length t.
Proof. reflexivity. Qed.
Theorem tie_signature_validate s : g_signature_Signature_Validate (view_sig s) = sig_validate s.
Proof.
  unfold g_signature_Signature_Validate, sig_validate, view_sig. cbn [g_signature_Signature__sigType g_signature_Signature__data].
  rewrite tie_signature_length. destruct (sig_length (s_type s)); [|reflexivity].
  destruct (Z.of_nat (length (s_data s)) =? z); reflexivity.
Qed.

(* ---- offline signature ---- *)
(* definitional since the model's off_spk_size / off_sig_size ARE the regenerated functions; what
   the model needs of them is proved shape-independently in Proofs/SigLen.v *)
Theorem tie_off_spk_size t : g_offline_signature_SigningPublicKeySize t = off_spk_size t.
Proof. reflexivity. Qed.
Theorem tie_off_sig_size t : g_offline_signature_SignatureSize t = off_sig_size t.
Proof. reflexivity. Qed.
Theorem tie_offline_validate o : g_offline_signature_OfflineSignature_ValidateStructure (view_off o) = off_validate_structure o.
Proof.
  unfold g_offline_signature_OfflineSignature_ValidateStructure, g_offline_signature_validateTransientKeySize,
    g_offline_signature_validateDestinationSigSize, off_validate_structure, view_off.
  cbn [g_offline_signature_OfflineSignature__expires g_offline_signature_OfflineSignature__sigtype
       g_offline_signature_OfflineSignature__transientPublicKey g_offline_signature_OfflineSignature__destinationSigType
       g_offline_signature_OfflineSignature__signature].
  rewrite tie_off_spk_size, tie_off_sig_size.
  replace (Z.of_N (o_expires o) =? 0) with (o_expires o =? 0)%N by lia.
  destruct (o_expires o =? 0)%N; cbn [negb andb]; [reflexivity|].
  destruct (off_spk_size (Z.of_N (o_sigtype o)) =? 0); cbn [negb andb]; [reflexivity|].
  destruct (Z.of_nat (length (o_key o)) =? off_spk_size (Z.of_N (o_sigtype o))); cbn [negb andb]; [|reflexivity].
  destruct (off_sig_size (Z.of_N (o_desttype o)) =? 0); cbn [negb andb]; [reflexivity|].
  destruct (Z.of_nat (length (o_sig o)) =? off_sig_size (Z.of_N (o_desttype o))); reflexivity.
Qed.
Theorem tie_new_offline e st key sg dt :
  g_offline_signature_NewOfflineSignature (Z.of_N e) (Z.of_N st) key sg (Z.of_N dt) =
  match new_offline_signature e st key sg dt with Ok _ => true | _ => false end.
Proof.
  unfold g_offline_signature_NewOfflineSignature, new_offline_signature.
  rewrite tie_off_spk_size, tie_off_sig_size.
  destruct (off_spk_size (Z.of_N st) =? 0); [reflexivity|].
  destruct (negb (Z.of_nat (length key) =? off_spk_size (Z.of_N st))); [reflexivity|].
  destruct (off_sig_size (Z.of_N dt) =? 0); [reflexivity|].
  destruct (negb (Z.of_nat (length sg) =? off_sig_size (Z.of_N dt))); reflexivity.
Qed.

(* C14, offline signature, over the regenerated definitions: what the constructor accepts
   validates, provided the expiry is non-zero; with expires = 0 it does not (finding D21) *)
Definition built_offline (e st : Z) (key sg : list N) (dt : Z) : g_offline_signature_OfflineSignature :=
  {| g_offline_signature_OfflineSignature__expires := e; g_offline_signature_OfflineSignature__sigtype := st;
     g_offline_signature_OfflineSignature__transientPublicKey := key;
     g_offline_signature_OfflineSignature__destinationSigType := dt;
     g_offline_signature_OfflineSignature__signature := sg |}.
Theorem gen_offline_ctor_validates e st key sg dt :
  g_offline_signature_NewOfflineSignature e st key sg dt = true -> e <> 0 ->
  g_offline_signature_OfflineSignature_ValidateStructure (built_offline e st key sg dt) = true.
Proof.
  unfold g_offline_signature_NewOfflineSignature, g_offline_signature_OfflineSignature_ValidateStructure,
    g_offline_signature_validateTransientKeySize, g_offline_signature_validateDestinationSigSize, built_offline.
  cbn [g_offline_signature_OfflineSignature__expires g_offline_signature_OfflineSignature__sigtype
       g_offline_signature_OfflineSignature__transientPublicKey g_offline_signature_OfflineSignature__destinationSigType
       g_offline_signature_OfflineSignature__signature].
  intros H Ne.
  destruct (g_offline_signature_SigningPublicKeySize st =? 0); [discriminate|].
  destruct (negb (Z.of_nat (length key) =? g_offline_signature_SigningPublicKeySize st)); [discriminate|].
  destruct (g_offline_signature_SignatureSize dt =? 0); [discriminate|].
  destruct (negb (Z.of_nat (length sg) =? g_offline_signature_SignatureSize dt)); [discriminate|].
  replace (e =? 0) with false by lia. reflexivity.
Qed.
Theorem gen_offline_zero_expires_gap :
  exists st key sg dt, g_offline_signature_NewOfflineSignature 0 st key sg dt = true /\
    g_offline_signature_OfflineSignature_ValidateStructure (built_offline 0 st key sg dt) = false.
Proof. exists 7, (repeat 0%N 32), (repeat 0%N 64), 7. vm_compute. split; reflexivity. Qed.

(* ---- EncryptedLeaseSet ---- *)
Lemma has_offline_land f : negb (Z.land (Z.of_N f) 1 =? 0) = has_offline f.
Proof. unfold has_offline. destruct f as [|[p|p|]]; reflexivity. Qed.

Theorem tie_els_validate l : g_encrypted_leaseset_EncryptedLeaseSet_Validate (view_els l) = els_validate l.
Proof.
  unfold g_encrypted_leaseset_EncryptedLeaseSet_Validate, g_encrypted_leaseset_validateSigTypeAndKey,
    g_encrypted_leaseset_validateEncryptedLeaseSetFields, g_encrypted_leaseset_validateEncryptedInnerDataIntegrity,
    g_encrypted_leaseset_EncryptedLeaseSet_HasOfflineKeys, els_validate, view_els.
  cbn [g_encrypted_leaseset_EncryptedLeaseSet__flags g_encrypted_leaseset_EncryptedLeaseSet__sigType
       g_encrypted_leaseset_EncryptedLeaseSet__blindedPublicKey g_encrypted_leaseset_EncryptedLeaseSet__expires
       g_encrypted_leaseset_EncryptedLeaseSet__offlineSignature g_encrypted_leaseset_EncryptedLeaseSet__encryptedInnerData
       g_encrypted_leaseset_EncryptedLeaseSet__innerLength g_encrypted_leaseset_EncryptedLeaseSet__signature].
  rewrite tie_signature_validate, has_offline_land, g_memZ_memZ, g_lookupZ_assoc.
  change m_key_certificate_SigningKeySizes_keys with (map fst m_key_certificate_SigningKeySizes_SigningPublicKeySize).
  rewrite memZ_keys_assoc. unfold kc_spk_size.
  destruct (assoc m_key_certificate_SigningKeySizes_SigningPublicKeySize (Z.of_N (el_sigtype l))) as [ks|]; cbn [negb or0]; [|reflexivity].
  destruct (Z.of_nat (length (el_key l)) =? ks); cbn [negb andb]; [|reflexivity].
  replace (Z.of_N (el_expires l) =? 0) with (el_expires l =? 0)%N by lia.
  destruct (el_expires l =? 0)%N; cbn [negb andb]; [reflexivity|].
  change c_encrypted_leaseset_ENCRYPTED_LEASESET_RESERVED_FLAGS_MASK with 65532.
  destruct (Z.land (Z.of_N (el_flags l)) 65532 =? 0); cbn [negb andb]; [|reflexivity].
  assert (O : g_is_none (option_map view_off (el_offline l)) = negb (match el_offline l with Some _ => true | None => false end)).
  { destruct (el_offline l); reflexivity. }
  rewrite O.
  destruct (has_offline (el_flags l)), (match el_offline l with Some _ => true | None => false end); cbn [negb andb Bool.eqb]; try reflexivity.
  all: change c_encrypted_leaseset_ENCRYPTED_LEASESET_MIN_ENCRYPTED_SIZE with 61.
  all: replace (length (el_inner l) =? 0)%nat with (Z.of_nat (length (el_inner l)) =? 0) by lia.
  all: destruct (Z.of_nat (length (el_inner l)) =? 0); cbn [negb andb]; [reflexivity|].
  all: destruct (Z.of_nat (length (el_inner l)) <? 61); cbn [negb andb]; [reflexivity|].
  all: replace (Z.of_N (el_inner_len l) =? Z.of_nat (length (el_inner l)) mod 65536) with (el_inner_len l =? N.of_nat (length (el_inner l)) mod 65536)%N by lia.
  all: destruct (el_inner_len l =? N.of_nat (length (el_inner l)) mod 65536)%N; reflexivity.
Qed.

(* C14, EncryptedLeaseSet, over the regenerated definitions: arguments the constructor's
   checks accept, with a trailing signature that is valid for its own type, make a value
   that Validate accepts.  (The trailing signature's type is the transient key's when offline
   keys are used: nothing here ties it to sig_type.) *)
Definition built_els (st : Z) (key : list N) (e f : Z) (off : option g_offline_signature_OfflineSignature)
  (inner : list N) (sg : g_signature_Signature) : g_encrypted_leaseset_EncryptedLeaseSet :=
  {| g_encrypted_leaseset_EncryptedLeaseSet__flags := f; g_encrypted_leaseset_EncryptedLeaseSet__sigType := st;
     g_encrypted_leaseset_EncryptedLeaseSet__blindedPublicKey := key; g_encrypted_leaseset_EncryptedLeaseSet__expires := e;
     g_encrypted_leaseset_EncryptedLeaseSet__offlineSignature := off;
     g_encrypted_leaseset_EncryptedLeaseSet__encryptedInnerData := inner;
     g_encrypted_leaseset_EncryptedLeaseSet__innerLength := Z.of_nat (length inner) mod 65536;
     g_encrypted_leaseset_EncryptedLeaseSet__signature := sg |}.
Theorem gen_els_ctor_validates st key e f off inner sg :
  g_encrypted_leaseset_validateInputs st key e f off inner = true ->
  g_signature_Signature_Validate sg = true ->
  g_encrypted_leaseset_EncryptedLeaseSet_Validate (built_els st key e f off inner sg) = true.
Proof.
  unfold g_encrypted_leaseset_validateInputs, g_encrypted_leaseset_validateSigTypeAndKeySize,
    g_encrypted_leaseset_validateConstructorFlags, g_encrypted_leaseset_validateEncryptedPayload,
    g_encrypted_leaseset_EncryptedLeaseSet_Validate, g_encrypted_leaseset_validateSigTypeAndKey,
    g_encrypted_leaseset_validateEncryptedLeaseSetFields, g_encrypted_leaseset_validateEncryptedInnerDataIntegrity,
    g_encrypted_leaseset_EncryptedLeaseSet_HasOfflineKeys, built_els.
  cbn [g_encrypted_leaseset_EncryptedLeaseSet__flags g_encrypted_leaseset_EncryptedLeaseSet__sigType
       g_encrypted_leaseset_EncryptedLeaseSet__blindedPublicKey g_encrypted_leaseset_EncryptedLeaseSet__expires
       g_encrypted_leaseset_EncryptedLeaseSet__offlineSignature g_encrypted_leaseset_EncryptedLeaseSet__encryptedInnerData
       g_encrypted_leaseset_EncryptedLeaseSet__innerLength g_encrypted_leaseset_EncryptedLeaseSet__signature].
  intros H SV. rewrite SV. revert H.
  destruct (g_memZ st m_key_certificate_SigningKeySizes_keys); cbn [negb andb]; [|discriminate].
  destruct (Z.of_nat (length key) =? g_lookupZ m_key_certificate_SigningKeySizes_SigningPublicKeySize st); cbn [negb andb]; [|discriminate].
  destruct (e =? 0); [discriminate|].
  destruct (Z.land f 65532 =? 0); cbn [negb andb]; [|discriminate].
  destruct (Z.land f 1 =? 0), (g_is_none off); cbn [negb andb]; try discriminate.
  all: destruct (Z.of_nat (length inner) =? 0); [discriminate|].
  all: destruct (Z.of_nat (length inner) <? 61); [discriminate|].
  all: rewrite Z.eqb_refl; reflexivity.
Qed.
(* the documented single defects are refused by the constructor checks and by Validate alike *)
Theorem gen_els_defects st key e f off inner sg :
  (g_memZ st m_key_certificate_SigningKeySizes_keys = false \/
   Z.of_nat (length key) <> g_lookupZ m_key_certificate_SigningKeySizes_SigningPublicKeySize st \/
   e = 0 \/ Z.land f 65532 <> 0 \/
   (Z.land f 1 <> 0 /\ off = None) \/ (Z.land f 1 = 0 /\ off <> None) \/
   (Z.of_nat (length inner) < 61)) ->
  g_encrypted_leaseset_validateInputs st key e f off inner = false /\
  g_encrypted_leaseset_EncryptedLeaseSet_Validate (built_els st key e f off inner sg) = false.
Proof.
  unfold g_encrypted_leaseset_validateInputs, g_encrypted_leaseset_validateSigTypeAndKeySize,
    g_encrypted_leaseset_validateConstructorFlags, g_encrypted_leaseset_validateEncryptedPayload,
    g_encrypted_leaseset_EncryptedLeaseSet_Validate, g_encrypted_leaseset_validateSigTypeAndKey,
    g_encrypted_leaseset_validateEncryptedLeaseSetFields, g_encrypted_leaseset_validateEncryptedInnerDataIntegrity,
    g_encrypted_leaseset_EncryptedLeaseSet_HasOfflineKeys, built_els.
  cbn [g_encrypted_leaseset_EncryptedLeaseSet__flags g_encrypted_leaseset_EncryptedLeaseSet__sigType
       g_encrypted_leaseset_EncryptedLeaseSet__blindedPublicKey g_encrypted_leaseset_EncryptedLeaseSet__expires
       g_encrypted_leaseset_EncryptedLeaseSet__offlineSignature g_encrypted_leaseset_EncryptedLeaseSet__encryptedInnerData
       g_encrypted_leaseset_EncryptedLeaseSet__innerLength g_encrypted_leaseset_EncryptedLeaseSet__signature].
  intros D.
  destruct (g_memZ st m_key_certificate_SigningKeySizes_keys) eqn:M; cbn [negb]; [|split; reflexivity].
  destruct (Z.of_nat (length key) =? g_lookupZ m_key_certificate_SigningKeySizes_SigningPublicKeySize st) eqn:K; cbn [negb]; [|split; reflexivity].
  destruct (e =? 0) eqn:E; [split; reflexivity|].
  destruct (Z.land f 65532 =? 0) eqn:R; cbn [negb]; [|split; reflexivity].
  destruct (Z.land f 1 =? 0) eqn:F1; cbn [negb andb].
  - destruct off as [o|]; cbn [g_is_none negb]; [split; reflexivity|].
    destruct (Z.of_nat (length inner) =? 0) eqn:I0; [split; reflexivity|].
    destruct (Z.of_nat (length inner) <? 61) eqn:I1; [split; reflexivity|].
    exfalso. destruct D as [D|[D|[D|[D|[[D _]|[[_ D]|D]]]]]]; try congruence; lia.
  - destruct off as [o|]; cbn [g_is_none negb]; [|split; reflexivity].
    destruct (Z.of_nat (length inner) =? 0) eqn:I0; [split; reflexivity|].
    destruct (Z.of_nat (length inner) <? 61) eqn:I1; [split; reflexivity|].
    exfalso. destruct D as [D|[D|[D|[D|[[_ D]|[[D _]|D]]]]]]; try congruence; lia.
Qed.

(* ---- LeaseSet2 ---- *)
Theorem tie_enckey_valid k : (ek_type k < 65536)%N ->
  g_lease_set2_validateEncryptionKeyConsistency 0 (view_ek k) = enckey_valid k.
Proof.
  intros LT.
  unfold g_lease_set2_validateEncryptionKeyConsistency, enckey_valid, view_ek.
  cbn [g_lease_set2_EncryptionKey__KeyLen g_lease_set2_EncryptionKey__KeyData g_lease_set2_EncryptionKey__KeyType].
  rewrite g_memZ_memZ, g_lookupZ_assoc.
  change m_key_certificate_CryptoPublicKeySizes_keys with (map fst m_key_certificate_CryptoPublicKeySizes).
  rewrite memZ_keys_assoc. unfold kc_crypto_pub_sizes.
  replace (Z.of_N (ek_len k) =? Z.of_nat (length (ek_data k))) with (N.of_nat (length (ek_data k)) =? ek_len k)%N by lia.
  destruct (N.of_nat (length (ek_data k)) =? ek_len k)%N; cbn [negb andb]; [|reflexivity].
  rewrite (Z.mod_small (Z.of_N (ek_type k)) 65536) by lia.
  destruct (assoc m_key_certificate_CryptoPublicKeySizes (Z.of_N (ek_type k))) as [sz|]; cbn [or0]; [|reflexivity].
  destruct (Z.of_N (ek_len k) =? sz); reflexivity.
Qed.

Lemma forallb_if {A} (f : A -> bool) l : forallb (fun x => if f x then true else false) l = forallb f l.
Proof. induction l as [|a l IH]; cbn [forallb]; [reflexivity|]. rewrite IH. destruct (f a); reflexivity. Qed.

(* C14, LeaseSet2, over the regenerated definitions: every argument tuple the constructor's
   checks accept makes a value that Validate accepts *)
Definition built_ls2 (f : Z) (off : option g_offline_signature_OfflineSignature)
  (keys : list g_lease_set2_EncryptionKey) (leases : list (list N)) : g_lease_set2_LeaseSet2 :=
  {| g_lease_set2_LeaseSet2__flags := f; g_lease_set2_LeaseSet2__encryptionKeys := keys;
     g_lease_set2_LeaseSet2__offlineSignature := off; g_lease_set2_LeaseSet2__leases := leases |}.
Theorem gen_ls2_ctor_validates dsz dest e f off keys leases :
  g_lease_set2_validateLeaseSet2Inputs dsz dest e f off keys leases = true ->
  g_lease_set2_LeaseSet2_Validate (built_ls2 f off keys leases) = true.
Proof.
  unfold g_lease_set2_validateLeaseSet2Inputs, g_lease_set2_LeaseSet2_Validate, g_lease_set2_LeaseSet2_HasOfflineKeys, built_ls2.
  cbn [g_lease_set2_LeaseSet2__flags g_lease_set2_LeaseSet2__encryptionKeys g_lease_set2_LeaseSet2__offlineSignature g_lease_set2_LeaseSet2__leases].
  destruct dsz; [|discriminate].
  destruct (g_lease_set2_validateExpiresOffset e); [|discriminate].
  destruct (g_lease_set2_validateOfflineSignatureFlags f off) eqn:OF; [|discriminate].
  destruct (g_lease_set2_validateEncryptionKeyInputs keys); [|discriminate].
  destruct (g_lease_set2_validateLeaseInputs leases); [|discriminate].
  destruct (g_lease_set2_validateEncryptionKeys keys); [|discriminate].
  intros RF. rewrite RF.
  assert (OC : g_lease_set2_validateOfflineSignatureConsistency (negb (Z.land f 1 =? 0)) off = true).
  { revert OF. unfold g_lease_set2_validateOfflineSignatureFlags, g_lease_set2_validateOfflineSignatureConsistency.
    destruct (Z.land f 1 =? 0), (g_is_none off); cbn [negb andb]; intros H; try discriminate; reflexivity. }
  rewrite OC. reflexivity.
Qed.

(* each documented defect is refused by the constructor checks and by Validate alike *)
Theorem gen_ls2_defects dsz dest e f off keys leases :
  ((length keys < 1)%nat \/ (length keys > 16)%nat \/
   Exists (fun k => g_lease_set2_validateEncryptionKeyConsistency 0 k = false) keys \/
   Z.land f 65528 <> 0 \/ (length leases > 16)%nat \/
   (Z.land f 1 <> 0 /\ off = None) \/ (Z.land f 1 = 0 /\ off <> None)) ->
  g_lease_set2_validateLeaseSet2Inputs dsz dest e f off keys leases = false /\
  g_lease_set2_LeaseSet2_Validate (built_ls2 f off keys leases) = false.
Proof.
  intros D.
  assert (V : g_lease_set2_LeaseSet2_Validate (built_ls2 f off keys leases) = false).
  { unfold g_lease_set2_LeaseSet2_Validate, g_lease_set2_LeaseSet2_HasOfflineKeys, built_ls2.
    cbn [g_lease_set2_LeaseSet2__flags g_lease_set2_LeaseSet2__encryptionKeys g_lease_set2_LeaseSet2__offlineSignature g_lease_set2_LeaseSet2__leases].
    unfold g_lease_set2_validateEncryptionKeys, g_lease_set2_validateOfflineSignatureConsistency, g_lease_set2_validateReservedFlagsAndLeases.
    cbv zeta. rewrite forallb_if.
    destruct (Z.of_nat (length keys) <? 1) eqn:K1; [reflexivity|].
    destruct (Z.of_nat (length keys) >? 16) eqn:K2; [reflexivity|].
    destruct (forallb (g_lease_set2_validateEncryptionKeyConsistency 0) keys) eqn:FA; [|reflexivity].
    destruct (Z.land f 1 =? 0) eqn:F1; cbn [negb andb].
    - destruct off as [o|]; cbn [g_is_none negb]; [reflexivity|].
      destruct (Z.land f 65528 =? 0) eqn:R; cbn [negb]; [|reflexivity].
      destruct (Z.of_nat (length leases) >? 16) eqn:L; [reflexivity|].
      exfalso. destruct D as [D|[D|[D|[D|[D|[[D _]|[_ D]]]]]]]; try lia; try congruence.
      apply Exists_exists in D. destruct D as [k [Ik Fk]]. rewrite forallb_forall in FA. rewrite (FA k Ik) in Fk. discriminate.
    - destruct off as [o|]; cbn [g_is_none negb]; [|reflexivity].
      destruct (Z.land f 65528 =? 0) eqn:R; cbn [negb]; [|reflexivity].
      destruct (Z.of_nat (length leases) >? 16) eqn:L; [reflexivity|].
      exfalso. destruct D as [D|[D|[D|[D|[D|[[_ D]|[D _]]]]]]]; try lia; try congruence.
      apply Exists_exists in D. destruct D as [k [Ik Fk]]. rewrite forallb_forall in FA. rewrite (FA k Ik) in Fk. discriminate. }
  split; [|exact V].
  destruct (g_lease_set2_validateLeaseSet2Inputs dsz dest e f off keys leases) eqn:C; [|reflexivity].
  rewrite (gen_ls2_ctor_validates _ _ _ _ _ _ _ C) in V. discriminate.
Qed.

(* the model's LeaseSet2 validation is the regenerated one on the model's value (Model/Validate.v);
   in closed form: *)
Theorem ls2_validate_spec l : Forall (fun k => (ek_type k < 65536)%N) (l2_keys l) ->
  ls2_validate l =
  (1 <=? Z.of_nat (length (l2_keys l))) && (Z.of_nat (length (l2_keys l)) <=? 16) && forallb enckey_valid (l2_keys l) &&
  Bool.eqb (has_offline (l2_flags l)) (match l2_offline l with Some _ => true | None => false end) &&
  (Z.land (Z.of_N (l2_flags l)) 65528 =? 0) && (Z.of_nat (length (l2_leases l)) <=? 16).
Proof.
  intros TK.
  unfold ls2_validate, g_lease_set2_LeaseSet2_Validate, g_lease_set2_LeaseSet2_HasOfflineKeys, view_ls2.
  cbn [g_lease_set2_LeaseSet2__flags g_lease_set2_LeaseSet2__encryptionKeys g_lease_set2_LeaseSet2__offlineSignature g_lease_set2_LeaseSet2__leases].
  unfold g_lease_set2_validateEncryptionKeys, g_lease_set2_validateOfflineSignatureConsistency, g_lease_set2_validateReservedFlagsAndLeases.
  cbv zeta. rewrite forallb_if, map_length, has_offline_land.
  assert (FE : forallb (g_lease_set2_validateEncryptionKeyConsistency 0) (map view_ek (l2_keys l)) = forallb enckey_valid (l2_keys l)).
  { induction (l2_keys l) as [|k ks IH]; cbn [map forallb]; [reflexivity|]. inversion TK as [|? ? Hk Hks]; subst.
    rewrite (tie_enckey_valid k Hk), (IH Hks). reflexivity. }
  rewrite FE.
  assert (O : g_is_none (option_map view_off (l2_offline l)) = negb (match l2_offline l with Some _ => true | None => false end)).
  { destruct (l2_offline l); reflexivity. }
  rewrite O.
  destruct (Z.of_nat (length (l2_keys l)) <? 1) eqn:K1.
  { replace (1 <=? Z.of_nat (length (l2_keys l))) with false by lia. reflexivity. }
  replace (1 <=? Z.of_nat (length (l2_keys l))) with true by lia.
  destruct (Z.of_nat (length (l2_keys l)) >? 16) eqn:K2.
  { replace (Z.of_nat (length (l2_keys l)) <=? 16) with false by lia. reflexivity. }
  replace (Z.of_nat (length (l2_keys l)) <=? 16) with true by lia. cbn [andb].
  destruct (forallb enckey_valid (l2_keys l)); cbn [andb]; [|reflexivity].
  destruct (has_offline (l2_flags l)), (match l2_offline l with Some _ => true | None => false end); cbn [negb andb Bool.eqb]; try reflexivity.
  all: destruct (Z.land (Z.of_N (l2_flags l)) 65528 =? 0); cbn [negb andb]; [|reflexivity].
  all: unfold bytes in *.
  all: match goal with |- (if ?c then false else true) = ?d => destruct c eqn:L; [assert (d = false) as -> by lia|assert (d = true) as -> by lia]; reflexivity end.
Qed.

(* ---- MetaLeaseSet entry types ---- *)
Theorem tie_meta_entry_type t i : g_meta_leaseset_validateEntryType t i = meta_entry_type_valid t.
Proof.
  split_on t [1; 3; 5].
  unfold g_meta_leaseset_validateEntryType, meta_entry_type_valid, sw_lookup, sw_meta_leaseset_validateEntryType, sw_meta_leaseset_validateEntryType_default, g_memZ, memZ.
  cbn [existsb]. neq_false. reflexivity.
Qed.
