package main

import (
	"fmt"
	"reflect"
	"time"
)

func init() { props["C04"] = runC04 }

// callAllMethods invokes every exported argument-free method of v (and of *v) and reports
// the first that panics.
func callAllMethods(v interface{}) (panicked string) {
	if v == nil {
		return ""
	}
	rv := reflect.ValueOf(v)
	seen := map[string]bool{}
	try := func(rv reflect.Value) {
		t := rv.Type()
		for i := 0; i < t.NumMethod(); i++ {
			m := t.Method(i)
			if m.Type.NumIn() != 1 || seen[m.Name] {
				continue
			}
			seen[m.Name] = true
			func() {
				defer func() {
					if r := recover(); r != nil && panicked == "" {
						panicked = fmt.Sprintf("%s.%s: %v", t.String(), m.Name, r)
					}
				}()
				rv.Method(i).Call(nil)
			}()
		}
	}
	try(rv)
	if rv.Kind() == reflect.Ptr && !rv.IsNil() {
		try(rv.Elem())
	}
	return
}

// C04: no panic, no hang — parsers on arbitrary input and type codes; every exported
// method of every accepted value.
func runC04(c *Ctx) {
	deadline := 2 * time.Second
	for i := range parsers {
		p := &parsers[i]
		forInputs(c, p, c.N(40, 1500), 5, c.N(60, 3000), func(input []byte, extra [][]byte, kind string) {
			t0 := time.Now()
			res := runParser(c, p, input, extra)
			el := time.Since(t0)
			args := append([][]byte{input}, extra...)
			c.Check("parser_returns_normally", res.Obs.Status != "panic", p.Name, args, "", "parser panicked")
			c.Check("parser_time_bounded", el < deadline, p.Name, args, "", fmt.Sprintf("took %v for %d bytes", el, len(input)))
			if res.OK {
				t1 := time.Now()
				pm := callAllMethods(res.Val)
				c.Check("accessors_return_normally", pm == "", p.Name, args, "", pm)
				c.Check("accessors_time_bounded", time.Since(t1) < deadline, p.Name, args, "", "accessors slow")
			}
		})
	}
	c04Codes(c)
}
