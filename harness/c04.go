package main

import (
	"github.com/go-i2p/common/data"
	"bytes"
	"strings"
	"fmt"
	"github.com/go-i2p/common/key_certificate"
	"reflect"
	"sort"
	"time"
)

func init() { props["C04"] = runC04 }

// callAllMethods invokes every exported argument-free method of v (and of *v) and reports
// the first that panics.
func callAllMethods(v interface{}) (panicked string) {
	if v == nil {
		return ""
	}
	rv := reflect.ValueOf(v)
	seen := map[string]bool{}
	try := func(rv reflect.Value) {
		t := rv.Type()
		for i := 0; i < t.NumMethod(); i++ {
			m := t.Method(i)
			if m.Type.NumIn() != 1 || seen[m.Name] {
				continue
			}
			seen[m.Name] = true
			func() {
				defer func() {
					if r := recover(); r != nil && panicked == "" {
						panicked = fmt.Sprintf("%s.%s: %v", t.String(), m.Name, r)
					}
				}()
				rv.Method(i).Call(nil)
			}()
		}
	}
	try(rv)
	if rv.Kind() == reflect.Ptr && !rv.IsNil() {
		try(rv.Elem())
	}
	return
}

// callArgMethods invokes every exported method of v (and of *v) whose parameters are all byte slices,
// strings, integers or booleans, with a few values of each (nil / empty / one short of, exactly and one
// past the common key sizes; the ends of the integer ranges), after the argument-free ones. Methods
// that change the value (Set*, Add*, Remove*, Replace*, Update*, Clear*) are left out: what they leave
// behind for the other methods is a different question.
var argBytes = [][]byte{nil, {}, make([]byte, 1), make([]byte, 31), make([]byte, 32), make([]byte, 33), make([]byte, 64), make([]byte, 128), make([]byte, 500)}
var argInts = []int64{0, 1, -1, 7, 8, 255, 256, 65535, 65536, 1 << 31, -1 << 31}

func callArgMethods(v interface{}) (panicked string) {
	if v == nil {
		return ""
	}
	seen := map[string]bool{}
	try := func(rv reflect.Value) {
		t := rv.Type()
		for i := 0; i < t.NumMethod(); i++ {
			m := t.Method(i)
			n := m.Type.NumIn() - 1
			if n < 1 || n > 2 || seen[m.Name] || m.Type.IsVariadic() {
				continue
			}
			mut := false
			for _, pre := range []string{"Set", "Add", "Remove", "Replace", "Update", "Clear", "Delete", "Append"} {
				mut = mut || strings.HasPrefix(m.Name, pre)
			}
			if mut {
				continue
			}
			var choices [][]reflect.Value
			ok := true
			for a := 1; a <= n && ok; a++ {
				at := m.Type.In(a)
				var vals []reflect.Value
				switch {
				case at.Kind() == reflect.Slice && at.Elem().Kind() == reflect.Uint8:
					for _, b := range argBytes {
						vals = append(vals, reflect.ValueOf(cp(b)).Convert(at))
					}
				case at.Kind() == reflect.String:
					for _, x := range []string{"", "a", "host", "\xff"} {
						vals = append(vals, reflect.ValueOf(x).Convert(at))
					}
				case at.Kind() >= reflect.Int && at.Kind() <= reflect.Uint64:
					for _, x := range argInts {
						vals = append(vals, reflect.ValueOf(x).Convert(at))
					}
				case at.Kind() == reflect.Bool:
					vals = []reflect.Value{reflect.ValueOf(false).Convert(at), reflect.ValueOf(true).Convert(at)}
				default:
					ok = false
				}
				choices = append(choices, vals)
			}
			if !ok {
				continue
			}
			seen[m.Name] = true
			for _, a0 := range choices[0] {
				second := []reflect.Value{{}}
				if n == 2 {
					second = choices[1]
				}
				for _, a1 := range second {
					args := []reflect.Value{a0}
					if n == 2 {
						args = append(args, a1)
					}
					func() {
						defer func() {
							if r := recover(); r != nil && panicked == "" {
								panicked = fmt.Sprintf("%s.%s(%v): %v", t.String(), m.Name, describeArgs(args), r)
							}
						}()
						rv.Method(i).Call(args)
					}()
				}
			}
		}
	}
	rv := reflect.ValueOf(v)
	try(rv)
	if rv.Kind() == reflect.Ptr && !rv.IsNil() {
		try(rv.Elem())
	}
	return
}

func describeArgs(args []reflect.Value) string {
	var parts []string
	for _, a := range args {
		if a.Kind() == reflect.Slice {
			if a.IsNil() {
				parts = append(parts, "nil")
			} else {
				parts = append(parts, fmt.Sprintf("%d bytes", a.Len()))
			}
		} else {
			parts = append(parts, fmt.Sprintf("%v", a.Interface()))
		}
	}
	return strings.Join(parts, ", ")
}

// C04: no panic, no hang — parsers on arbitrary input and type codes; every exported
// method of every accepted value.
func runC04(c *Ctx) {
	deadline := 2 * time.Second
	for i := range parsers {
		p := &parsers[i]
		forInputs(c, p, c.N(40, 1500), 5, c.N(60, 3000), func(input []byte, extra [][]byte, kind string) {
			t0 := time.Now()
			res := runParser(c, p, input, extra)
			el := time.Since(t0)
			args := append([][]byte{input}, extra...)
			c.Check("parser_returns_normally", res.Obs.Status != "panic", p.Name, args, "", "parser panicked")
			c.Check("parser_time_bounded", el < deadline, p.Name, args, "", fmt.Sprintf("took %v for %d bytes", el, len(input)))
			if res.OK {
				t1 := time.Now()
				pm := callAllMethods(res.Val)
				c.Check("accessors_return_normally", pm == "", p.Name, args, "", pm)
				pa := callArgMethods(res.Val)
				c.Check("accessors_return_normally", pa == "", p.Name, args, "", pa)
				pf := callValueFuncs(res.Val)
				c.Check("accessors_return_normally", pf == "", p.Name, args, "", pf)
				c.Check("accessors_time_bounded", time.Since(t1) < deadline, p.Name, args, "", "accessors slow")
			}
		})
	}
	c04Codes(c)
	c04KeyConstructors(c)
	c04EveryByteFunction(c)
	c04SmallCertificates(c)
	c04MappingValues(c)
}

// ReadMappingValues takes the declared length as an Integer of the caller's making: every width,
// the ends of the signed and unsigned ranges, lengths around the data actually present
func c04MappingValues(c *Ctx) {
	r := c.R
	var lens [][]byte
	for _, w := range []int{1, 2, 3, 4, 7, 8} {
		for _, v := range []uint64{0, 1, 2, 6, 7, 255, 256, 65535, 65536, 1<<31 - 1, 1 << 31, 1<<32 - 1, 1<<63 - 1, 1 << 63, 1<<63 + 5, 1<<64 - 16, 1<<64 - 4, 1<<64 - 1} {
			lens = append(lens, beBytes(v, 8)[8-w:])
		}
	}
	lens = append(lens, nil, []byte{}, make([]byte, 9), bytes.Repeat([]byte{0xff}, 9))
	for i := 0; i < c.N(6, 60); i++ {
		body := encodeMappingPairs(genKVs(r, 4))
		for _, d := range [][]byte{body, nil, {}, {0}, r.Bytes(r.Intn(40))} {
			for _, l := range append(lens, beBytes(uint64(len(d)), 2), beBytes(uint64(len(d)+1), 2)) {
				var pan string
				func() {
					defer func() {
						if x := recover(); x != nil {
							pan = fmt.Sprintf("panic: %v", x)
						}
					}()
					data.ReadMappingValues(cp(d), data.Integer(cp(l)))
				}()
				c.Check("parser_returns_normally", pan == "", "ReadMappingValues", [][]byte{d, l}, "", pan)
			}
		}
	}
}

// callValueFuncs: every exported package-level function that takes a library value (or a pointer to
// one) as its first argument — the list is regenerated from the source by the translator — is
// called with v when v is of that type; reports the first that panics
func callValueFuncs(v interface{}) (panicked string) {
	if v == nil {
		return ""
	}
	rv := reflect.ValueOf(v)
	cands := []reflect.Value{rv}
	if rv.Kind() == reflect.Ptr && !rv.IsNil() {
		cands = append(cands, rv.Elem())
		// embedded / nested library values one level down (a Destination's KeysAndCert, ...)
		if rv.Elem().Kind() == reflect.Struct {
			for i := 0; i < rv.Elem().NumField(); i++ {
				f := rv.Elem().Field(i)
				if !f.CanInterface() {
					continue
				}
				if f.Kind() == reflect.Ptr && !f.IsNil() {
					cands = append(cands, f, f.Elem())
				} else if f.Kind() == reflect.Struct {
					cands = append(cands, f)
				}
			}
		}
	} else if rv.Kind() != reflect.Ptr {
		pv := reflect.New(rv.Type())
		pv.Elem().Set(rv)
		cands = append(cands, pv)
	}
	names := make([]string, 0, len(apiValueFuncs))
	for name := range apiValueFuncs {
		names = append(names, name)
	}
	sort.Strings(names)
	for _, name := range names {
		f := apiValueFuncs[name]
		for _, cv := range cands {
			if !cv.IsValid() || !cv.CanInterface() || cv.Type().String() != f.Arg {
				continue
			}
			func() {
				defer func() {
					if r := recover(); r != nil && panicked == "" {
						panicked = fmt.Sprintf("%s(%s): %v", name, f.Arg, r)
					}
				}()
				f.Call(cv.Interface(), 7)
			}()
			break
		}
	}
	return
}

// c04SmallCertificates: every certificate type 0..6 x declared payload length 0..8 x 0..8 bytes
// following the certificate in its input (a certificate keeps what follows it within reach): the
// reader, every method of what it returns and every exported function taking a certificate
func c04SmallCertificates(c *Ctx) {
	var certParser *Parser
	for i := range parsers {
		if parsers[i].Name == "ReadCertificate" {
			certParser = &parsers[i]
		}
	}
	if certParser == nil {
		return
	}
	for t := 0; t <= 6; t++ {
		for decl := 0; decl <= 8; decl++ {
			for have := 0; have <= 8; have++ {
				in := append([]byte{byte(t), 0, byte(decl)}, c.R.Bytes(have)...)
				res := runParser(c, certParser, in, nil)
				c.Check("parser_returns_normally", res.Obs.Status != "panic", "ReadCertificate", [][]byte{in}, "", "parser panicked")
				if res.OK {
					pm := callAllMethods(res.Val)
					c.Check("accessors_return_normally", pm == "", "ReadCertificate", [][]byte{in}, "", pm)
					pf := callValueFuncs(res.Val)
					c.Check("accessors_return_normally", pf == "", "ReadCertificate", [][]byte{in}, "", pf)
				}
			}
		}
	}
}

// c04EveryByteFunction: EVERY exported function of the library that takes a byte slice (the list
// is regenerated from the source by the translator, so a new or previously indirect entry
// point is covered without anyone remembering to add it) on nil, on every length 0..420 with
// exactly that capacity, and on the prefixes of a well-formed identity: it returns, it does not panic
func c04EveryByteFunction(c *Ctx) {
	r := c.R
	names := make([]string, 0, len(apiByteFuncs))
	for n := range apiByteFuncs {
		names = append(names, n)
	}
	sort.Strings(names)
	ident := genIdentTypes(r, 7, 4, false).Encode()
	ns := []int{0, 1, 2, 7, 8, 11, 3, 255, 65535}
	for _, name := range names {
		f := apiByteFuncs[name]
		try := func(b []byte, n int) {
			var pan interface{}
			func() {
				defer func() { pan = recover() }()
				f(b, n)
			}()
			c.Check("parser_returns_normally", pan == nil, name, [][]byte{b, i64(int64(n))}, "", fmt.Sprintf("panicked on %d bytes: %v", len(b), pan))
		}
		try(nil, 0)
		for l := 0; l <= 420; l++ {
			b := make([]byte, l)
			for i := range b {
				b[i] = byte(r.U64())
			}
			try(b, ns[l%len(ns)])
			if l <= len(ident) {
				try(cp(ident[:l]), ns[(l+1)%len(ns)])
			}
		}
	}
}

// c04KeyConstructors: the exported key constructors on data of EVERY length (exactly that
// capacity, as a sub-slice of a network buffer has) for every key type code: they return a key
// or an error, never panic, and agree with the model
func c04KeyConstructors(c *Ctx) {
	lens := []int{}
	for n := 0; n <= 140; n++ {
		lens = append(lens, n)
	}
	lens = append(lens, 200, 255, 256, 257, 300, 383, 384, 385, 512)
	for _, st := range []int{0, 1, 2, 3, 4, 5, 6, 7, 8, 9, 11, 12, 65280} {
		for _, ct := range []int{0, 4, 1, 7, 8} {
			if ct != 0 && st != 7 && st != 0 {
				continue
			}
			kcb := cat([]byte{5, 0, 4}, u16(st), u16(ct))
			kc, _, err := key_certificate.NewKeyCertificate(cp(kcb))
			if err != nil || kc == nil {
				continue
			}
			for _, n := range lens {
				d := make([]byte, n) // len == cap
				for i := range d {
					d[i] = byte(c.R.U64())
				}
				args := [][]byte{kcb, d}
				o := c.Case(E_ConstructSPK, args, func() Obs {
					k, e := kc.ConstructSigningPublicKey(d)
					if e != nil || k == nil {
						return ERR()
					}
					return OK(k.Bytes())
				})
				c.Check("parser_returns_normally", o.Status != "panic", "KeyCertificate.ConstructSigningPublicKey", args, "", "panicked")
				o2 := c.Case(E_ConstructPK, args, func() Obs {
					k, e := kc.ConstructPublicKey(d)
					if e != nil || k == nil {
						return ERR()
					}
					return OK(k.Bytes())
				})
				c.Check("parser_returns_normally", o2.Status != "panic", "KeyCertificate.ConstructPublicKey", args, "", "panicked")
				var pan interface{}
				func() {
					defer func() { pan = recover() }()
					key_certificate.ConstructSigningPublicKeyByType(d, st)
				}()
				c.Check("parser_returns_normally", pan == nil, "ConstructSigningPublicKeyByType", args, "", fmt.Sprintf("panicked: %v", pan))
			}
		}
	}
}
