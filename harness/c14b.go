package main

import (
	"crypto/ed25519"

	"github.com/go-i2p/common/data"
	"github.com/go-i2p/common/destination"
	"github.com/go-i2p/common/encrypted_leaseset"
	"github.com/go-i2p/common/lease"
	"github.com/go-i2p/common/lease_set2"
	"github.com/go-i2p/common/offline_signature"
)

// c14SourceValidators runs the validators that the translator regenerates from the Go source
// (coq/Gen/Validators.v) against the functions they were translated from: the correspondence
// that ties the translator's output to the code's behaviour.
//   - LS2Validate: ReadLeaseSet2(wire).Validate() against the regenerated Validate on the model's parse;
//   - NewLS2Check: NewLeaseSet2's acceptance against the regenerated validateLeaseSet2Inputs;
//   - NewELSCheck: NewEncryptedLeaseSet's acceptance against the regenerated validateInputs.
func c14SourceValidators(c *Ctx) {
	r := c.R
	// ---- Validate on parsed LeaseSet2 values
	var wires [][]byte
	for i := 0; i < c.N(150, 4000); i++ {
		l := genLeaseSet2(r)
		if r.Intn(3) == 0 {
			// a key whose declared length differs from its type's (the parser only logs it)
			t := []int{0, 1, 2, 3, 4, 5, 6, 7}[r.Intn(8)]
			n := specCryptoLen[t] + []int{-1, 1, 0}[r.Intn(3)]
			l.Keys[r.Intn(len(l.Keys))] = EncKey{t, r.Bytes(n)}
		}
		if r.Intn(4) == 0 {
			l.H.Flags |= uint16(1) << uint(3+r.Intn(13))
		}
		wires = append(wires, l.Encode())
	}
	for _, p := range parsers {
		if p.Name == "ReadLeaseSet2" {
			pp := p
			wires = append(wires, systematicInputs(&pp, r)...)
		}
	}
	for _, w := range wires {
		w := w
		c.Case(E_LS2Validate, [][]byte{w}, func() Obs {
			l, _, err := lease_set2.ReadLeaseSet2(cp(w))
			if err != nil {
				return ERR()
			}
			return OK(bool1(l.Validate() == nil))
		})
	}
	// ---- constructor argument checks of NewLeaseSet2
	id := genIdentTypes(r, 7, 4, false)
	d, _, derr := destination.ReadDestination(id.Encode())
	if derr != nil {
		c.Check("valid_arguments_accepted", false, "ReadDestination", [][]byte{id.Encode()}, "", "generated destination rejected")
		return
	}
	t := genEd(r)
	off, oerr := offline_signature.NewOfflineSignature(4000000000, 7, cp(t.pub), r.Bytes(64), 7)
	keyTypes := []int{0, 1, 2, 3, 4, 5, 6, 7, 8, 99, 65535}
	for i := 0; i < c.N(400, 20000); i++ {
		clean := r.Intn(2) == 0 // half of the tuples have no defect at all
		expires := uint16(r.U64())
		flags := []uint16{0, 0, 1, 2, 3, 4, 6, 8, 0x10, 0x8000, uint16(r.U64())}[r.Intn(11)]
		if clean {
			flags = uint16(r.Intn(4)) << 1
		}
		withOff := oerr == nil && r.Intn(3) == 0
		if clean || r.Intn(3) != 0 {
			// mostly consistent flag / offline-signature pairs, so the later checks are reached
			if withOff {
				flags |= 1
			} else {
				flags &^= 1
			}
		}
		nk := []int{0, 1, 1, 1, 2, 3, 16, 17}[r.Intn(8)]
		if clean {
			nk = []int{1, 2, 3, 16}[r.Intn(4)]
		}
		var keys []lease_set2.EncryptionKey
		var keyWire []byte
		oversized := false
		for j := 0; j < nk; j++ {
			kt := keyTypes[r.Intn(len(keyTypes))]
			n, known := specCryptoLen[kt]
			if !known {
				n = r.Intn(40)
			}
			if !clean {
				switch r.Intn(8) {
				case 0:
					n++
				case 1:
					if n > 0 {
						n--
					}
				}
			}
			kl := n
			if !clean && r.Intn(10) == 0 {
				kl = n + 1 - 2*r.Intn(2)
				if kl < 0 {
					kl = 1
				}
			}
			// data longer than its declared length by exactly the range of the 16-bit length field
			// (the declared length is then what a truncating conversion of the real one gives)
			if !clean && !oversized && (i%97 == 13 || r.Intn(60) == 0) {
				n = kl + 65536
				oversized = true // at most one such key per argument tuple
			}
			kd := r.Bytes(n)
			keys = append(keys, lease_set2.EncryptionKey{KeyType: uint16(kt), KeyLen: uint16(kl), KeyData: kd})
			keyWire = cat(keyWire, u16(kt), u16(kl), []byte{byte(n >> 16), byte(n >> 8), byte(n)}, kd)
		}
		nl := []int{0, 1, 1, 2, 16, 17}[r.Intn(6)]
		if clean {
			nl = []int{1, 2, 16}[r.Intn(3)]
		}
		var leases []lease.Lease2
		for j := 0; j < nl; j++ {
			var l lease.Lease2
			copy(l[:], genLease2(r))
			leases = append(leases, l)
		}
		offArg := []byte{}
		var offPtr *offline_signature.OfflineSignature
		if withOff {
			o := off
			offPtr = &o
			offArg = []byte{1}
		}
		c.Case(E_NewLS2Check, [][]byte{u16(int(expires)), u16(int(flags)), offArg, keyWire, u16(nl)}, func() Obs {
			_, err := lease_set2.NewLeaseSet2(d, 1700000000, expires, flags, offPtr, data.Mapping{}, keys, leases, nil)
			return OK(bool1(err == nil))
		})
	}
	// ---- constructor argument checks of NewEncryptedLeaseSet
	sigTypes := []int{0, 1, 2, 3, 4, 5, 6, 7, 8, 11, 9, 10, 12, 65280, 65535}
	for i := 0; i < c.N(400, 20000); i++ {
		clean := r.Intn(2) == 0
		st := sigTypes[r.Intn(len(sigTypes))]
		if clean {
			st = sigTypes[r.Intn(10)]
		}
		kl, known := specSigPubLen[st]
		if !known {
			kl = 32
		}
		if !clean {
			switch r.Intn(8) {
			case 0:
				kl++
			case 1:
				kl--
			}
		}
		key := r.Bytes(kl)
		expires := []uint16{0, 1, 600, uint16(r.U64())}[r.Intn(4)]
		flags := []uint16{0, 0, 1, 2, 3, 4, 8, 0x8000, uint16(r.U64())}[r.Intn(9)]
		inner := r.Bytes([]int{0, 1, 60, 61, 62, 200}[r.Intn(6)])
		if clean {
			expires = 1 + uint16(r.U64()%65535)
			flags = uint16(r.Intn(2)) << 1
			inner = r.Bytes(61 + r.Intn(200))
		}
		var offPtr *offline_signature.OfflineSignature
		offArg := []byte{}
		sl, sigKnown := specSigLen[st]
		if sigKnown && r.Intn(2) == 0 {
			if o, e := offline_signature.NewOfflineSignature(4000000000, 7, cp(t.pub), r.Bytes(sl), uint16(st)); e == nil {
				offPtr = &o
				offArg = []byte{1}
			}
		}
		if clean || r.Intn(3) != 0 {
			if offPtr != nil {
				flags |= 1
			} else {
				flags &^= 1
			}
		}
		// without offline keys the trailing signature is made for sig_type itself: the constructor
		// can only produce it for the types with 64-byte signatures, so the other known types are
		// exercised with offline keys (where the transient Ed25519 key signs)
		if offPtr == nil && known && sl != 64 {
			continue
		}
		c.Case(E_NewELSCheck, [][]byte{u16(st), key, u16(int(expires)), u16(int(flags)), offArg, inner}, func() Obs {
			_, err := encrypted_leaseset.NewEncryptedLeaseSet(uint16(st), key, 1700000000, expires, flags, offPtr, inner, ed25519.PrivateKey(t.priv))
			return OK(bool1(err == nil))
		})
	}
}
