// Harness core: case/observation recording, PRNG, oracle bookkeeping.
package main

import (
	"bytes"
	"bufio"
	"encoding/hex"
	"encoding/json"
	"fmt"
	"os"
	"path/filepath"
	"sort"
	"strings"
)

// splitmix64: every random choice derives from one state seeded by VERIF_SEED.
type Rng struct{ s uint64 }

func (r *Rng) U64() uint64 {
	r.s += 0x9e3779b97f4a7c15
	z := r.s
	z = (z ^ (z >> 30)) * 0xbf58476d1ce4e5b9
	z = (z ^ (z >> 27)) * 0x94d049bb133111eb
	return z ^ (z >> 31)
}
func (r *Rng) Intn(n int) int {
	if n <= 0 {
		return 0
	}
	return int(r.U64() % uint64(n))
}
func (r *Rng) Bytes(n int) []byte {
	b := make([]byte, n)
	for i := range b {
		b[i] = byte(r.U64())
	}
	return b
}
func (r *Rng) Bool() bool { return r.U64()&1 == 1 }
func (r *Rng) Pick(xs ...int) int { return xs[r.Intn(len(xs))] }

type Obs struct {
	Status string // ok | err | panic
	Outs   [][]byte
}

func OK(outs ...[]byte) Obs { return Obs{"ok", outs} }
func ERR() Obs              { return Obs{Status: "err"} }

func hx(b []byte) string {
	if len(b) == 0 {
		return "-"
	}
	return hex.EncodeToString(b)
}
func (o Obs) String() string {
	if o.Status != "ok" {
		return o.Status
	}
	var sb strings.Builder
	sb.WriteString("ok")
	for _, b := range o.Outs {
		sb.WriteByte(' ')
		sb.WriteString(hx(b))
	}
	return sb.String()
}

type Failure struct {
	Oracle string   `json:"oracle"`
	Entry  string   `json:"entry"`
	Args   []string `json:"args"`
	Detail string   `json:"detail"`
	Class  string   `json:"class,omitempty"` // classifier key matched against KNOWN_FINDINGS.json
}

type Ctx struct {
	Prop     string
	Tier     string
	Seed     uint64
	R        *Rng
	cases    *bufio.Writer
	impl     *bufio.Writer
	NCases   int
	Dist     map[string]int
	Failures []Failure
	Samples  []string
	OracleN  map[string]int
	seen     map[string]bool
	Distinct int
	Nontriv  int
	scale    int
	held     []heldResult
}

func i64(v int64) []byte {
	b := make([]byte, 8)
	for i := 7; i >= 0; i-- {
		b[i] = byte(v)
		v >>= 8
	}
	return b
}
func u64b(v uint64) []byte { return i64(int64(v)) }
func bool1(b bool) []byte {
	if b {
		return []byte{1}
	}
	return []byte{0}
}

// guard runs f and converts a panic into the "panic" observation.
func guard(f func() Obs) (o Obs) {
	defer func() {
		if r := recover(); r != nil {
			o = Obs{Status: "panic"}
		}
	}()
	return f()
}

// calm runs a boolean query of the library; a panic inside it is an answer ("panicked"), not the end
// of the run
func calm(f func() bool) (v bool, panicked string) {
	defer func() {
		if r := recover(); r != nil {
			v, panicked = false, fmt.Sprintf("panic: %v", r)
		}
	}()
	return f(), ""
}

// Case records one correspondence case: the model is run on (entry,args) and must
// produce exactly the observation the implementation produced.
// nontrivial: the case got past the first length/argument check (caller's judgement).
func (c *Ctx) Case(entry int, args [][]byte, f func() Obs) Obs {
	o := guard(f)
	var sb strings.Builder
	fmt.Fprintf(&sb, "%d", entry)
	for _, a := range args {
		sb.WriteByte(' ')
		sb.WriteString(hx(a))
	}
	line := sb.String()
	c.cases.WriteString(line)
	c.cases.WriteByte('\n')
	c.impl.WriteString(o.String())
	c.impl.WriteByte('\n')
	c.NCases++
	st := o.Status
	if st == "ok" && len(o.Outs) == 1 && len(o.Outs[0]) == 1 && o.Outs[0][0] <= 1 {
		// boolean-valued entries: the split between accepted and refused is part of the distribution
		st = []string{"ok:false", "ok:true"}[o.Outs[0][0]]
	}
	c.Dist[entryNames[entry]+"/"+st]++
	if !c.seen[line] {
		c.seen[line] = true
		c.Distinct++
		if o.Status == "ok" {
			c.Nontriv++
		}
	}
	if len(c.Samples) < 12 && (c.NCases%97 == 1) {
		c.Samples = append(c.Samples, line+" => "+o.String())
	}
	return o
}

// Check evaluates one implementation-side oracle (a direct statement of the property
// on Go values).  A false result is a property violation candidate.
func (c *Ctx) Check(oracle string, ok bool, entry string, args [][]byte, class string, detail string) {
	c.OracleN[oracle]++
	if ok {
		return
	}
	if len(c.Failures) > 200 {
		return
	}
	var as []string
	for _, a := range args {
		as = append(as, hx(a))
	}
	c.Failures = append(c.Failures, Failure{oracle, entry, as, detail, class})
}

func (c *Ctx) N(quick, thorough int) int {
	if c.Tier == "thorough" {
		return thorough
	}
	return quick
}

// thoroughTier: set once per run; generators that enumerate (rather than sample) use it to pick their range
var thoroughTier bool

func openCtx(prop, tier string, seed uint64, out string) *Ctx {
	thoroughTier = tier == "thorough"
	os.MkdirAll(out, 0o755)
	cf, err := os.Create(filepath.Join(out, "cases.txt"))
	if err != nil {
		panic(err)
	}
	inf, err := os.Create(filepath.Join(out, "impl.txt"))
	if err != nil {
		panic(err)
	}
	return &Ctx{Prop: prop, Tier: tier, Seed: seed, R: &Rng{seed*0x9e3779b97f4a7c15 + 12345},
		cases: bufio.NewWriterSize(cf, 1<<20), impl: bufio.NewWriterSize(inf, 1<<20),
		Dist: map[string]int{}, OracleN: map[string]int{}, seen: map[string]bool{}}
}

// a byte slice the library handed out earlier, with what it contained when the caller last looked
type heldResult struct {
	entry string
	args  [][]byte
	b     []byte
	want  []byte
}

// Hold keeps a result the caller still owns; later calls into the library must not change it.
// The most recent few are re-examined at every Hold, all of them at the end of the run.
func (c *Ctx) Hold(entry string, args [][]byte, b []byte) {
	n := len(c.held)
	for i := n - 6; i < n; i++ {
		if i >= 0 {
			c.checkHeld(i)
		}
	}
	if len(b) == 0 {
		return
	}
	if len(c.held) >= 4096 {
		c.held = append(c.held[:0], c.held[2048:]...)
	}
	c.held = append(c.held, heldResult{entry, args, b, append([]byte(nil), b...)})
}

func (c *Ctx) checkHeld(i int) {
	h := &c.held[i]
	ok := bytes.Equal(h.b, h.want)
	c.Check("earlier_results_unchanged", ok, h.entry, h.args, "",
		fmt.Sprintf("a result handed out earlier (%x when returned) reads %x after later calls into the library", h.want, h.b))
	if !ok {
		h.want = append([]byte(nil), h.b...)
	}
}

func (c *Ctx) close(out string) {
	for i := range c.held {
		c.checkHeld(i)
	}
	c.cases.Flush()
	c.impl.Flush()
	keys := make([]string, 0, len(c.Dist))
	for k := range c.Dist {
		keys = append(keys, k)
	}
	sort.Strings(keys)
	st := map[string]interface{}{
		"property": c.Prop, "tier": c.Tier, "seed": c.Seed,
		"cases": c.NCases, "distinct": c.Distinct, "distinct_ok": c.Nontriv,
		"distribution": c.Dist, "oracle_evaluations": c.OracleN,
		"failures": c.Failures, "samples": c.Samples,
	}
	b, _ := json.MarshalIndent(st, "", " ")
	os.WriteFile(filepath.Join(out, "stats.json"), b, 0o644)
}
